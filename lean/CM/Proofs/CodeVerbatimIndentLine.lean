import CM.Proofs.CodeVerbatimRun
import CM.Proofs.TilingRun
/-
C06 (block piece), helper: what `processLine` does to a top-level indented code block — the opening line, a
continuation line (indented by four spaces, or by up to three spaces and a tab; or a short blank line), the end of input.
`ConsumeIndent` in closed form over spaces (`consumeIndent_spaces`) and over spaces followed by a tab that ends at the
requested column (`consumeIndent_spaces_tab`).
-/
namespace CM.Proofs
open CM CM.Model CM.Gen
open CM.Proofs.BT

/-! ### consuming leading spaces -/

structure CSPost (p p' : LP) (k : Nat) : Prop where
  panic : p'.panic = p.panic
  line : p'.line = p.line
  tree : tree p' = tree p
  i : p'.i = p.i + k
  tabPartial : p'.tabPartial = (if k = 0 then p.tabPartial else false)
  state : p'.state = if k = 0 then p.state else mm p.state
  cur : CurOK p'

/-- `ConsumeIndent(k)` over `k` spaces moves the cursor by `k` bytes and leaves no partially consumed tab. -/
theorem consumeIndent_spaces : ∀ (k fuel : Nat) (p : LP), k < fuel → CurOK p →
    (∀ j < k, p.line.getD (p.i + j) 0 = SP) → p.i + k ≤ p.line.length →
    CSPost p (LP.consumeIndent fuel p k) k := by
  intro k
  induction k with
  | zero =>
    intro fuel p hf hc _ _
    obtain ⟨f, rfl⟩ : ∃ f, fuel = f + 1 := ⟨fuel - 1, by omega⟩
    have : LP.consumeIndent (f + 1) p 0 = p := by simp [LP.consumeIndent]
    rw [this]
    exact ⟨rfl, rfl, rfl, rfl, rfl, rfl, hc⟩
  | succ k ih =>
    intro fuel p hf hc hsp hlen
    obtain ⟨f, rfl⟩ : ∃ f, fuel = f + 1 := ⟨fuel - 1, by omega⟩
    have h0 : p.line.getD p.i 0 = SP := hsp 0 (by omega)
    have hlt : p.i < p.line.length := by omega
    unfold LP.consumeIndent
    have hn' : ((k + 1) == 0) = false := by simp
    simp only [hn', Bool.false_eq_true, if_false]
    rw [markMatched_eq]
    simp only [hlt, h0, decide_true, Bool.true_and, beq_self_eq_true, if_true]
    let q : LP := { p with state := mm p.state, col := p.col + 1, i := p.i + 1 }
    have hq : CurOK q.updateTabRemaining := updateTab_cur q (by show p.i + 1 ≤ p.line.length; omega)
    have r := ih f q.updateTabRemaining (by omega) hq (by
      intro j hj
      rw [updateTab_line, updateTab_i]
      show p.line.getD (p.i + 1 + j) 0 = SP
      have := hsp (j + 1) (by omega)
      rw [show p.i + 1 + j = p.i + (j + 1) by omega]; exact this) (by
      rw [updateTab_line, updateTab_i]; show p.i + 1 + k ≤ p.line.length; omega)
    have hk1 : (k + 1 - 1) = k := by omega
    rw [hk1]
    refine ⟨?_, ?_, ?_, ?_, ?_, ?_, r.cur⟩
    · rw [r.panic, updateTab_panic]
    · rw [r.line, updateTab_line]
    · rw [r.tree, updateTab_tree]; rfl
    · rw [r.i, updateTab_i]; show p.i + 1 + k = p.i + (k + 1); omega
    · rw [r.tabPartial, updateTab_tabPartial]; simp
    · rw [r.state, updateTab_state]
      show (if k = 0 then mm p.state else mm (mm p.state)) = _
      rw [mm_mm]; simp

theorem consumeIndentN_spaces (p : LP) (k : Nat) (hc : CurOK p) (hsp : ∀ j < k, p.line.getD (p.i + j) 0 = SP)
    (hlen : p.i + k ≤ p.line.length) : CSPost p (p.consumeIndentN k) k :=
  consumeIndent_spaces k (k + 1) p (by omega) hc hsp hlen

/-- `ConsumeIndent` over `j` spaces and a tab that ends exactly where the requested columns end. -/
theorem consumeIndent_spaces_tab : ∀ (j fuel : Nat) (p : LP) (n : Nat), j + 1 < fuel → CurOK p → Fresh p →
    (∀ i < j, p.line.getD (p.i + i) 0 = SP) → p.line.getD (p.i + j) 0 = TAB → p.i + j < p.line.length →
    n = j + columnWidth (p.col + j) [TAB] →
    CSPost p (LP.consumeIndent fuel p n) (j + 1) := by
  intro j
  induction j with
  | zero =>
    intro fuel p n hf hc hfr _ htab hlen hn
    obtain ⟨f, rfl⟩ : ∃ f, fuel = f + 1 + 1 := ⟨fuel - 2, by omega⟩
    simp only [Nat.add_zero] at htab hlen hn
    have htr : p.tabRem = columnWidth p.col [TAB] := hfr hlen htab
    have hpos := columnWidth_tab_pos p.col
    unfold LP.consumeIndent
    have hn' : (n == 0) = false := by simp; omega
    simp only [hn', Bool.false_eq_true, if_false]
    rw [markMatched_eq]
    have hsp' : ((TAB : UInt8) == SP) = false := by decide
    simp only [hlen, htab, decide_true, Bool.true_and, beq_self_eq_true, if_true, hsp', Bool.false_eq_true, if_false]
    have hlt : ¬ (n < ({ p with state := mm p.state } : LP).tabRem) := by show ¬ (n < p.tabRem); omega
    simp only [hlt, if_false]
    have hz : n - ({ p with state := mm p.state } : LP).tabRem = 0 := by show n - p.tabRem = 0; omega
    rw [hz]
    let q : LP := { p with state := mm p.state, col := p.col + p.tabRem, i := p.i + 1 }
    have hq : CurOK q.updateTabRemaining := updateTab_cur q (by show p.i + 1 ≤ p.line.length; omega)
    have hc0 : LP.consumeIndent (f + 1) q.updateTabRemaining 0 = q.updateTabRemaining := by simp [LP.consumeIndent]
    show CSPost p (LP.consumeIndent (f + 1) q.updateTabRemaining 0) (0 + 1)
    rw [hc0]
    refine ⟨?_, ?_, ?_, ?_, ?_, ?_, hq⟩
    · rw [updateTab_panic]
    · rw [updateTab_line]
    · rw [updateTab_tree]; rfl
    · rw [updateTab_i]
    · rw [updateTab_tabPartial]; simp
    · rw [updateTab_state]; simp; rfl
  | succ j ih =>
    intro fuel p n hf hc hfr hsp htab hlen hn
    obtain ⟨f, rfl⟩ : ∃ f, fuel = f + 1 := ⟨fuel - 1, by omega⟩
    have h0 : p.line.getD p.i 0 = SP := hsp 0 (by omega)
    have hlt : p.i < p.line.length := by omega
    unfold LP.consumeIndent
    have hn' : (n == 0) = false := by simp; omega
    simp only [hn', Bool.false_eq_true, if_false]
    rw [markMatched_eq]
    simp only [hlt, h0, decide_true, Bool.true_and, beq_self_eq_true, if_true]
    let q : LP := { p with state := mm p.state, col := p.col + 1, i := p.i + 1 }
    have hq : CurOK q.updateTabRemaining := updateTab_cur q (by show p.i + 1 ≤ p.line.length; omega)
    have r := ih f q.updateTabRemaining (n - 1) (by omega) hq (updateTab_fresh q) (by
      intro i hi
      rw [updateTab_line, updateTab_i]
      show p.line.getD (p.i + 1 + i) 0 = SP
      have := hsp (i + 1) (by omega)
      rw [show p.i + 1 + i = p.i + (i + 1) by omega]; exact this) (by
      rw [updateTab_line, updateTab_i]; show p.line.getD (p.i + 1 + j) 0 = TAB
      rw [show p.i + 1 + j = p.i + (j + 1) by omega]; exact htab) (by
      rw [updateTab_line, updateTab_i]; show p.i + 1 + j < p.line.length; omega) (by
      rw [updateTab_col]; show n - 1 = j + columnWidth (p.col + 1 + j) [TAB]
      rw [show p.col + 1 + j = p.col + (j + 1) by omega]; omega)
    refine ⟨?_, ?_, ?_, ?_, ?_, ?_, r.cur⟩
    · rw [r.panic, updateTab_panic]
    · rw [r.line, updateTab_line]
    · rw [r.tree, updateTab_tree]; rfl
    · rw [r.i, updateTab_i]; show p.i + 1 + (j + 1) = p.i + (j + 1 + 1); omega
    · rw [r.tabPartial, updateTab_tabPartial]; simp
    · rw [r.state, updateTab_state]
      show (if j + 1 = 0 then mm p.state else mm (mm p.state)) = _
      rw [mm_mm]; simp

theorem wsWidth_replicate_sp : ∀ (m col : Nat) (r : Bytes),
    wsWidth col (List.replicate m SP ++ r) = m + wsWidth (col + m) r := by
  intro m
  induction m with
  | zero => intro col r; simp
  | succ m ih =>
    intro col r
    rw [List.replicate_succ, List.cons_append, wsWidth_sp, ih]
    rw [show col + 1 + m = col + (m + 1) by omega]; omega

theorem getD_replicate_append (m j : Nat) (r : Bytes) (hj : j < m) : (List.replicate m SP ++ r).getD j 0 = SP := by
  rw [List.getD_eq_getElem?_getD, List.getElem?_append_left (by simpa using hj)]
  simp [hj]

/-! ### block starts that do nothing on an indented line -/

theorem startBlockQuote_ind (x : PExt) (p : LP) (h : codeBlockIndentLimit ≤ p.indent) : startBlockQuote x p = p := by
  unfold startBlockQuote; simp only [ge_iff_le, h, if_true]
theorem startATX_ind (x : PExt) (p : LP) (h : codeBlockIndentLimit ≤ p.indent) : startATX x p = p := by
  unfold startATX; simp only [ge_iff_le, h, if_true]
theorem startFenced_ind (x : PExt) (p : LP) (h : codeBlockIndentLimit ≤ p.indent) : startFenced x p = p := by
  unfold startFenced; simp only [ge_iff_le, h, if_true]
theorem startHTML_ind (x : PExt) (p : LP) (h : codeBlockIndentLimit ≤ p.indent) : startHTML x p = p := by
  unfold startHTML; simp only [ge_iff_le, h, if_true]
theorem startThematicBreak_ind (x : PExt) (p : LP) (h : codeBlockIndentLimit ≤ p.indent) : startThematicBreak x p = p := by
  unfold startThematicBreak; simp only [ge_iff_le, h, if_true]
theorem startListItem_ind (x : PExt) (p : LP) (h : codeBlockIndentLimit ≤ p.indent) : startListItem x p = p := by
  unfold startListItem; simp only [ge_iff_le, h, if_true]
theorem startSetext_doc (x : PExt) (p : LP) (h : p.containerKind = BK.document) : startSetext x p = p := by
  unfold startSetext; simp [h, BK.document, BK.paragraph]

/-! ### the tree: a document whose only child is an open indented code block starting at offset 4 -/

def docLabelB (b : Bool) : PLabel := { kind := BK.document, start := 0, stop := -1, lastLineBlank := b }
def icLabel (b : Bool) (stop : Int) : PLabel := { kind := BK.indentedCode, start := 4, stop := stop, lastLineBlank := b }
/-- `b` = the last line fed was blank (`lastLineBlank` of the block and the document). -/
def icRoot (b : Bool) (inl : List Tree) : PB := .mk (docLabelB b) [.mk (icLabel b (-1)) [] inl] []

theorem addLineText_ic (x : PExt) (p : LP) (b : Bool) (inl : List Tree)
    (hroot : p.root = icRoot b inl) (hd : p.depth = 1) (htp : p.tabPartial = false)
    (hlf : hasByteSuffix p.line [LF] = true) :
    addLineText x p =
      { p with root := icRoot p.isRestBlank (inl ++ [mkInline IK.text (p.lineStart + p.i) (p.lineStart + p.line.length)]) } := by
  cases hb : p.isRestBlank <;>
  (obtain ⟨source, root, depth, lineStart, line, i, col, tabRem, tabPartial, state, panic⟩ := p
   simp only [LP.isRestBlank] at hroot hd htp hlf hb
   subst hroot hd htp
   unfold addLineText
   simp [hb, LP.isRestBlank, LP.containerKind, LP.container, icRoot, docLabelB, icLabel, spineGet, spineModify, PB.kind, PB.label, setBlankFlags,
     BK.fencedCode, BK.blockQuote, BK.listItem, BK.indentedCode, acceptsLines, LP.appendInline, LP.modifyContainer, hlf])

theorem tipDepth_leaf (l : PLabel) (is : List Tree) (d : Nat) : tipDepth (.mk l [] is) d = d := by
  simp [tipDepth]

/-- `startIndentedCode` on an empty document, at the start of a non-blank line that begins with four spaces. -/
theorem startIndentedCode_first (x : PExt) (p : LP) (r : Bytes)
    (hroot : p.root = docRoot []) (hd : p.depth = 0) (hi : p.i = 0) (hls : p.lineStart = 0)
    (hst : p.state = stateOpening) (hc : CurOK p) (hline : p.line = List.replicate 4 SP ++ r)
    (hind : codeBlockIndentLimit ≤ p.indent) (hnb : p.isRestBlank = false) :
    ∃ col' tabRem', startIndentedCode x p =
      { p with i := 4, col := col', tabRem := tabRem', tabPartial := false, state := stateOpenMatched,
               root := icRoot false [], depth := 1 } := by
  have cs := consumeIndentN_spaces p 4 hc (by
    intro j hj; rw [hi, hline, Nat.zero_add]; exact getD_replicate_append 4 j r hj) (by rw [hi, hline]; simp)
  have htk : p.tipKind = BK.document := by
    simp [LP.tipKind, hroot, docRoot, tipDepth_leaf, spineGet, PB.kind, PB.label]
  unfold startIndentedCode
  simp only [Nat.not_lt.mpr hind, hnb, htk, BK.document, BK.paragraph, Nat.reduceBEq, Bool.or_self, Bool.false_eq_true, if_false,
    decide_false]
  simp only [show codeBlockIndentLimit = 4 from rfl]
  generalize p.consumeIndentN 4 = q at cs
  have t1 := cs.tree; have l1 := cs.line; have i1 := cs.i; have p1 := cs.panic; have s1 := cs.state; have tp := cs.tabPartial
  simp only [tree, Prod.mk.injEq] at t1
  obtain ⟨ts, tr, td, tl⟩ := t1
  obtain ⟨qsource, qroot, qdepth, qlineStart, qline, qi, qcol, qtabRem, qtabPartial, qstate, qpanic⟩ := q
  obtain ⟨source, root, depth, lineStart, line, i, col, tabRem, tabPartial, state, panic⟩ := p
  simp only at hroot hd hi hls hst hline ts tr td tl l1 i1 p1 s1 tp
  subst hroot hd hi hls hst ts tr td tl l1 i1 p1 s1 tp
  refine ⟨qcol, qtabRem, ?_⟩
  simp [LP.openBlock, stateOpening, stateDescending, stateDescendTerminated, LP.markMatched, stateOpenMatched, mm,
    LP.openBlockLoop, LP.containerKind, LP.container, spineGet, docRoot, PB.kind, PB.label, canContain, BK.document,
    BK.indentedCode, LP.closeLastChild, spineReplaceLast, spineModify, icRoot, docLabelB, icLabel]

theorem tryStarts_ic (x : PExt) (p : LP) (hst : p.state = stateOpening)
    (hind : codeBlockIndentLimit ≤ p.indent) (hk : p.containerKind = BK.document)
    (hf : (startIndentedCode x p).state = stateOpenMatched) :
    tryStarts (blockStartFns x) p = startIndentedCode x p := by
  have hp : { p with state := stateOpening } = p := by
    obtain ⟨source, root, depth, lineStart, line, i, col, tabRem, tabPartial, state, panic⟩ := p
    simp only at hst; subst hst; rfl
  simp only [blockStartFns, tryStarts, hp, startBlockQuote_ind x p hind, startATX_ind x p hind, startFenced_ind x p hind,
    startHTML_ind x p hind, startSetext_doc x p hk, startThematicBreak_ind x p hind, startListItem_ind x p hind, hst, hf]
  simp [stateOpening, stateOpenMatched, stateLineConsumed]

/-- The first line of an indented code block on an empty document. -/
theorem processLine_ic_first (x : PExt) (p : LP) (r : Bytes)
    (hroot : p.root = docRoot []) (hd : p.depth = 0) (hi : p.i = 0) (hls : p.lineStart = 0)
    (hst : p.state = stateOpening) (hc : CurOK p) (hline : p.line = List.replicate 4 SP ++ r)
    (hindent : p.indent = wsWidth 0 p.line) (hlf : hasByteSuffix p.line [LF] = true)
    (hnb : isBlankLine p.line = false) :
    (processLine x p).root = icRoot false [mkInline IK.text ((4 : Nat) : Int) ((p.line.length : Nat) : Int)] ∧
    (processLine x p).panic = p.panic := by
  have hind : codeBlockIndentLimit ≤ p.indent := by
    rw [hindent, hline, wsWidth_replicate_sp]; simp [codeBlockIndentLimit]
  have hrb : p.isRestBlank = false := by simp only [LP.isRestBlank, hi, List.drop_zero, hnb]
  obtain ⟨col', tabRem', hs⟩ := startIndentedCode_first x p r hroot hd hi hls hst hc hline hind hrb
  have hk : p.containerKind = BK.document := by
    simp [LP.containerKind, LP.container, hd, hroot, spineGet_zero, docRoot, PB.kind, PB.label]
  have hts := tryStarts_ic x p hst hind hk (by rw [hs])
  have hp : { p with depth := 0 } = p := by
    obtain ⟨source, root, depth, lineStart, line, i, col, tabRem, tabPartial, state, panic⟩ := p
    simp only at hd; subst hd; rfl
  have hne : p.line ≠ [] := by rw [hline]; simp
  have hemp : p.line.isEmpty = false := by cases h : p.line <;> simp_all
  unfold processLine descendOpenBlocks
  simp only [hroot, docRoot, spineLength_doc0]
  rw [descendLoop]
  have hsg : spineGet p.root (0 + 1) = none := by rw [hroot]; rfl
  simp only [hsg, hp]
  simp only [hst, show (stateOpening == stateDescendTerminated) = false from rfl, Bool.false_eq_true, if_false]
  unfold openNewBlocks
  simp only [hemp, Bool.false_eq_true, if_false]
  rw [show p.line.length + 8 = (p.line.length + 6) + 1 + 1 from rfl, openingLoop]
  simp only [hk, BK.document, BK.paragraph, acceptsLines, Nat.reduceBEq, Bool.false_eq_true, if_false, Bool.not_false,
    Bool.or_true, Bool.not_true]
  simp only [hts]
  generalize startIndentedCode x p = q at hs
  have hqst : q.state = stateOpenMatched := by rw [hs]
  simp only [hqst, beq_self_eq_true, if_true]
  rw [openingLoop]
  have hk2 : q.containerKind = BK.indentedCode := by
    rw [hs]; simp [LP.containerKind, LP.container, icRoot, spineGet, PB.kind, PB.label, icLabel]
  simp only [hk2, BK.indentedCode, BK.paragraph, acceptsLines, Nat.reduceBEq, Bool.false_eq_true, if_false, if_true, Bool.not_false,
    Bool.or_false, Bool.not_true]
  rw [addLineText_ic x q false [] (by rw [hs]) (by rw [hs]) (by rw [hs]) (by rw [hs]; exact hlf)]
  have hrb2 : q.isRestBlank = false := by
    rw [hs]
    show isBlankLine (p.line.drop 4) = false
    rw [hline, List.drop_left' (by simp)]
    rw [hline, isBlankLine_append] at hnb
    have h4 : isBlankLine (List.replicate 4 SP) = true := by decide
    rw [h4, Bool.true_and] at hnb
    exact hnb
  refine ⟨?_, by rw [hs]⟩
  show icRoot _ _ = icRoot _ _
  rw [hrb2]
  subst hs
  simp [hls]

/-! ### a continuation line -/

theorem ruleMatch_ic (x : PExt) (p : LP) (m : Nat)
    (h : (codeBlockIndentLimit ≤ p.indent ∧ m = codeBlockIndentLimit) ∨
         (p.indent < codeBlockIndentLimit ∧ p.isRestBlank = true ∧ m = p.indent)) :
    ruleMatch x BK.indentedCode p = some (true, p.consumeIndentN m) := by
  unfold ruleMatch
  simp only [BK.indentedCode, BK.document, BK.list, BK.listItem, BK.blockQuote, BK.fencedCode]
  simp only [Nat.reduceBEq, Bool.false_or, Bool.false_eq_true, if_false, beq_self_eq_true, if_true]
  rcases h with ⟨h1, h2⟩ | ⟨h1, h2, h3⟩
  · subst h2; simp only [Nat.not_lt.mpr h1, if_false]
  · subst h3; simp only [h1, if_true, h2, Bool.not_true, Bool.false_eq_true, if_false]

theorem spineLength_ic (b : Bool) (inl : List Tree) : spineLength (icRoot b inl) = 1 := spineLength_doc1 _ _ _ _

theorem openNew_ic (x : PExt) (p : LP) (b : Bool) (inl : List Tree)
    (hroot : p.root = icRoot b inl) (hd : p.depth = 1) (hne : p.line ≠ []) :
    openNewBlocks x p true = (true, p) := by
  obtain ⟨source, root, depth, lineStart, line, i, col, tabRem, tabPartial, state, panic⟩ := p
  simp only at hroot hd hne
  subst hroot hd
  unfold openNewBlocks
  have : line.isEmpty = false := by cases line <;> simp_all
  simp only [this, Bool.false_eq_true, if_false]
  rw [show line.length + 8 = (line.length + 7) + 1 from rfl, openingLoop]
  simp [LP.containerKind, LP.container, icRoot, spineGet, PB.kind, PB.label, icLabel, BK.indentedCode, BK.paragraph, acceptsLines]

theorem isBlankLine_spaces_LF (m : Nat) : isBlankLine (List.replicate m SP ++ [LF]) = true := by
  simp [isBlankLine, isSpaceTabOrLineEnding]

/-- The indentation `w` the match rule of an indented code block consumes in front of `t`: four spaces; up to three
    spaces and a tab; or a whole blank line of at most three spaces. -/
def indentW (w t : Bytes) : Bool :=
  w == List.replicate 4 SP || (List.range 4).any (fun j => w == List.replicate j SP ++ [TAB]) ||
    ((List.range 4).any (fun k => w == List.replicate k SP) && t.isEmpty)

theorem indentW_elim {w t : Bytes} (h : indentW w t = true) :
    w = List.replicate 4 SP ∨ (∃ j, j < 4 ∧ w = List.replicate j SP ++ [TAB]) ∨
      (∃ k, k < 4 ∧ w = List.replicate k SP ∧ t = []) := by
  simp only [indentW, Bool.or_eq_true, Bool.and_eq_true, beq_iff_eq, List.any_eq_true, List.mem_range, List.isEmpty_iff] at h
  rcases h with (h | ⟨j, hj, h⟩) | ⟨⟨k, hk, h⟩, ht⟩
  · exact Or.inl h
  · exact Or.inr (Or.inl ⟨j, hj, h⟩)
  · exact Or.inr (Or.inr ⟨k, hk, h, ht⟩)

/-- A continuation line, given what the match rule does: it consumes `k` bytes. -/
theorem processLine_ic_core (x : PExt) (p : LP) (b : Bool) (inl : List Tree) (m k : Nat) (w t : Bytes)
    (hroot : p.root = icRoot b inl) (hi : p.i = 0) (htp : p.tabPartial = false)
    (hline : p.line = w ++ (t ++ [LF])) (hk : k = w.length)
    (hrm : ruleMatch x BK.indentedCode { p with depth := 1, state := stateDescending } =
      some (true, ({ p with depth := 1, state := stateDescending } : LP).consumeIndentN m))
    (cs : CSPost { p with depth := 1, state := stateDescending }
      (({ p with depth := 1, state := stateDescending } : LP).consumeIndentN m) k) :
    (processLine x p).root = icRoot (isBlankLine (t ++ [LF]))
        (inl ++ [mkInline IK.text ((p.lineStart + k : Nat) : Int) ((p.lineStart + p.line.length : Nat) : Int)]) ∧
    (processLine x p).panic = p.panic := by
  have hne : p.line ≠ [] := by rw [hline]; simp
  unfold processLine descendOpenBlocks
  simp only [hroot, spineLength_ic]
  rw [descendLoop]
  have hsg : spineGet p.root (0 + 1) = some (.mk (icLabel b (-1)) [] inl) := by rw [hroot]; rfl
  simp only [hsg]
  have ho : (PB.mk (icLabel b (-1)) [] inl).isOpen = true := by simp [PB.isOpen, PB.label, icLabel]
  simp only [ho, Bool.not_true, Bool.false_eq_true, if_false]
  have hkind : (PB.mk (icLabel b (-1)) [] inl).kind = BK.indentedCode := rfl
  simp only [hkind, Nat.zero_add, hrm]
  generalize LP.consumeIndentN _ m = q at cs
  have hqs : q.state = stateDescending := by rw [cs.state]; split <;> rfl
  have t1 := cs.tree
  simp only [tree, Prod.mk.injEq] at t1
  obtain ⟨ts, tr, td, tl⟩ := t1
  have hqroot : q.root = icRoot b inl := by rw [tr]; exact hroot
  have hqd : q.depth = 1 := td
  have hqq' : ({ q with depth := 1, state := stateDescending } : LP) = q := by
    obtain ⟨qsource, qroot, qdepth, qlineStart, qline, qi, qcol, qtabRem, qtabPartial, qstate, qpanic⟩ := q
    simp only at hqd hqs; subst hqd hqs; rfl
  simp only [hqs, show (stateDescending == stateDescendTerminated) = false from rfl, Bool.false_eq_true, if_false, Bool.not_true]
  rw [descendLoop]
  have hsg2 : spineGet q.root (1 + 1) = none := by rw [hqroot]; rfl
  simp only [hsg2, hqs, hqq', show (stateDescending == stateDescendTerminated) = false from rfl, Bool.false_eq_true, if_false]
  have hql : q.line = p.line := cs.line
  rw [openNew_ic x q b inl hqroot hqd (by rw [hql]; exact hne)]
  simp only [if_true]
  have hqtp : q.tabPartial = false := by rw [cs.tabPartial]; split <;> first | exact htp | rfl
  rw [addLineText_ic x q b inl hqroot hqd hqtp (by rw [hql, hline, ← List.append_assoc]; exact hasByteSuffix_LF _)]
  refine ⟨?_, cs.panic⟩
  show icRoot _ _ = icRoot _ _
  have hqi : q.i = k := by rw [cs.i]; show p.i + k = k; rw [hi, Nat.zero_add]
  have hqrb : q.isRestBlank = isBlankLine (t ++ [LF]) := by
    show isBlankLine (q.line.drop q.i) = _
    rw [hql, hqi, hline, hk, List.drop_left' rfl]
  rw [hqrb, hqi, hql, tl]
  simp only [Int.natCast_add]

theorem getD_replicate_tab (j : Nat) (r : Bytes) : (List.replicate j SP ++ (TAB :: r)).getD j 0 = TAB := by
  rw [List.getD_eq_getElem?_getD, List.getElem?_append_right (by simp)]
  simp

/-- A continuation line of an open top-level indented code block: the indentation `w` is consumed, the rest of the line
    becomes one Text node. -/
theorem processLine_ic_cont (x : PExt) (p : LP) (b : Bool) (inl : List Tree) (w t : Bytes)
    (hroot : p.root = icRoot b inl) (hi : p.i = 0) (hc : CurOK p) (htp : p.tabPartial = false)
    (hcol : p.col = 0) (hfresh : Fresh p)
    (hline : p.line = w ++ (t ++ [LF]))
    (hindent : p.indent = wsWidth 0 p.line)
    (hv : indentW w t = true) :
    (processLine x p).root = icRoot (isBlankLine (t ++ [LF]))
        (inl ++ [mkInline IK.text ((p.lineStart + w.length : Nat) : Int) ((p.lineStart + p.line.length : Nat) : Int)]) ∧
    (processLine x p).panic = p.panic := by
  have hp1i : ({ p with depth := 1, state := stateDescending } : LP).indent = p.indent := indent_of_cur rfl
  have hc1 : CurOK { p with depth := 1, state := stateDescending } := ⟨hc.hi, hc.htab⟩
  rcases indentW_elim hv with hw | ⟨j, hj, hw⟩ | ⟨k, hk, hw, ht⟩
  · -- four spaces
    subst hw
    have hwd : wsWidth 0 p.line = 4 + wsWidth 4 (t ++ [LF]) := by rw [hline, wsWidth_replicate_sp, Nat.zero_add]
    have hrm := ruleMatch_ic x { p with depth := 1, state := stateDescending } 4
      (Or.inl ⟨by rw [hp1i, hindent, hwd]; simp [codeBlockIndentLimit], rfl⟩)
    have cs := consumeIndentN_spaces { p with depth := 1, state := stateDescending } 4 hc1
      (by intro i hi'; show p.line.getD (p.i + i) 0 = SP; rw [hi, hline, Nat.zero_add]; exact getD_replicate_append 4 i _ hi')
      (by show p.i + 4 ≤ p.line.length; rw [hi, hline]; simp)
    exact processLine_ic_core x p b inl 4 _ _ t hroot hi htp hline (by simp) hrm cs
  · -- spaces and a tab
    subst hw
    have hline' : p.line = List.replicate j SP ++ (TAB :: (t ++ [LF])) := by rw [hline]; simp
    have hcw : columnWidth j [TAB] = 4 - j := by rw [columnWidth_tab]; omega
    have hwd : wsWidth 0 p.line = j + (columnWidth j [TAB] + wsWidth (j + columnWidth j [TAB]) (t ++ [LF])) := by
      rw [hline', wsWidth_replicate_sp, Nat.zero_add, wsWidth_tab]
    have hrm := ruleMatch_ic x { p with depth := 1, state := stateDescending } 4
      (Or.inl ⟨by rw [hp1i, hindent, hwd, hcw]; simp [codeBlockIndentLimit]; omega, rfl⟩)
    have cs : CSPost { p with depth := 1, state := stateDescending }
        (({ p with depth := 1, state := stateDescending } : LP).consumeIndentN 4) (j + 1) :=
      consumeIndent_spaces_tab j 5 { p with depth := 1, state := stateDescending } 4 (by omega) hc1 hfresh
        (by intro i hi'; show p.line.getD (p.i + i) 0 = SP; rw [hi, hline', Nat.zero_add]; exact getD_replicate_append j i _ hi')
        (by show p.line.getD (p.i + j) 0 = TAB; rw [hi, hline', Nat.zero_add]; exact getD_replicate_tab j _)
        (by show p.i + j < p.line.length; rw [hi, hline']; simp)
        (by show 4 = j + columnWidth (p.col + j) [TAB]; rw [hcol, Nat.zero_add, hcw]; omega)
    rw [show j + 1 = (List.replicate j SP ++ [TAB]).length by simp] at cs
    exact processLine_ic_core x p b inl 4 _ _ t hroot hi htp hline (by simp) hrm cs
  · -- a short blank line
    subst hw ht
    have hwd : wsWidth 0 p.line = k := by
      rw [hline, wsWidth_replicate_sp, Nat.zero_add]
      show k + wsWidth k (LF :: []) = k
      rw [wsWidth_other k LF [] (by decide) (by decide)]; rfl
    have hrm := ruleMatch_ic x { p with depth := 1, state := stateDescending } k
      (Or.inr ⟨by rw [hp1i, hindent, hwd]; simpa [codeBlockIndentLimit] using hk, by
        show isBlankLine (p.line.drop p.i) = true
        rw [hi, hline]; exact isBlankLine_spaces_LF k, by rw [hp1i, hindent, hwd]⟩)
    have cs := consumeIndentN_spaces { p with depth := 1, state := stateDescending } k hc1
      (by intro i hi'; show p.line.getD (p.i + i) 0 = SP; rw [hi, hline, Nat.zero_add]; exact getD_replicate_append k i _ hi')
      (by show p.i + k ≤ p.line.length; rw [hi, hline]; simp)
    have hkl : (List.replicate k SP).length = k := by simp
    have cs' : CSPost { p with depth := 1, state := stateDescending }
        (({ p with depth := 1, state := stateDescending } : LP).consumeIndentN k) (List.replicate k SP).length := by
      rw [hkl]; exact cs
    exact processLine_ic_core x p b inl k _ _ [] hroot hi htp hline (by simp) hrm cs'

/-! ### the end of input -/

theorem indentedOnClose_keep (src : Bytes) (l : PLabel) (inl' : List Tree) (last : Tree)
    (h1 : Node.isI last IK.softBreak = false)
    (h2 : (Node.isI last IK.text && isBlankLine (Node.slice src last)) = false) :
    indentedOnClose src (.mk l [] (inl' ++ [last])) = .mk l [] (inl' ++ [last]) := by
  unfold indentedOnClose
  simp only [List.reverse_append, List.reverse_singleton, List.singleton_append]
  cases hr : inl'.reverse with
  | nil =>
    have : inl' = [] := by simpa using hr
    subst this
    simp [indentedOnClose.trim, h2]
  | cons prev rest =>
    have hi : inl' = rest.reverse ++ [prev] := by
      have := congrArg List.reverse hr
      simpa using this
    simp [h1, indentedOnClose.trim, h2, hi]

theorem closeBlock_icRoot (x : PExt) (src : Bytes) (e : Int) (inl : List Tree) :
    closeBlock x src e (icRoot false inl) =
      [.mk { kind := BK.document, start := 0, stop := e } [indentedOnClose src (.mk (icLabel false e) [] inl)] []] := by
  rw [icRoot, closeBlock]
  simp only [docLabelB, BK.document, BK.list, BK.paragraph, BK.setextHeading, BK.indentedCode]
  simp only [show ¬ ((-1 : Int) ≥ 0) by decide, if_false, Nat.reduceBEq, Bool.false_eq_true, Bool.or_self, closeLast]
  rw [closeBlock]
  simp [icLabel, BK.indentedCode, BK.list, BK.paragraph, BK.setextHeading]

/-- The end of input closes the block at the end of the document; the Text nodes stay (the last line is not blank). -/
theorem processLine_ic_eof (x : PExt) (p : LP) (inl' : List Tree) (last : Tree)
    (hroot : p.root = icRoot false (inl' ++ [last])) (hi : p.i = 0) (hline : p.line = [])
    (hindent : p.indent = wsWidth 0 p.line)
    (h1 : Node.isI last IK.softBreak = false)
    (h2 : (Node.isI last IK.text && isBlankLine (Node.slice p.source last)) = false) :
    (processLine x p).root = .mk { kind := BK.document, start := 0, stop := (p.lineStart : Nat) }
        [.mk (icLabel false (p.lineStart : Nat)) [] (inl' ++ [last])] [] ∧
    (processLine x p).panic = p.panic := by
  have hp1i : ({ p with depth := 1, state := stateDescending } : LP).indent = p.indent := indent_of_cur rfl
  have hind0 : p.indent = 0 := by rw [hindent, hline]; exact wsWidth_nil 0
  have hrm : ruleMatch x BK.indentedCode { p with depth := 1, state := stateDescending } =
      some (true, { p with depth := 1, state := stateDescending }) := by
    have := ruleMatch_ic x { p with depth := 1, state := stateDescending } 0 (Or.inr ⟨by rw [hp1i, hind0]; decide, by
      show isBlankLine (p.line.drop p.i) = true
      rw [hline, hi]; rfl, by rw [hp1i, hind0]⟩)
    rw [consumeIndentN_zero] at this
    exact this
  unfold processLine descendOpenBlocks
  simp only [hroot, spineLength_ic]
  rw [descendLoop]
  have hsg : spineGet p.root (0 + 1) = some (.mk (icLabel false (-1)) [] (inl' ++ [last])) := by rw [hroot]; rfl
  simp only [hsg]
  have ho : (PB.mk (icLabel false (-1)) [] (inl' ++ [last])).isOpen = true := by simp [PB.isOpen, PB.label, icLabel]
  simp only [ho, Bool.not_true, Bool.false_eq_true, if_false]
  have hkind : (PB.mk (icLabel false (-1)) [] (inl' ++ [last])).kind = BK.indentedCode := rfl
  simp only [hkind, Nat.zero_add, hrm]
  simp only [show (stateDescending == stateDescendTerminated) = false from rfl, Bool.false_eq_true, if_false, Bool.not_true]
  rw [descendLoop]
  have hsg2 : spineGet p.root (1 + 1) = none := by rw [hroot]; rfl
  simp only [hsg2, show (stateDescending == stateDescendTerminated) = false from rfl, Bool.false_eq_true, if_false]
  unfold openNewBlocks
  simp only [hline, List.isEmpty_nil, if_true]
  simp only [LP.closeContainer, beq_self_eq_true, if_true, hroot, closeBlock_icRoot,
    indentedOnClose_keep p.source _ inl' last h1 h2, List.headD_cons]
  simp
