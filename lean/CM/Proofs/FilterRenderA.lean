import CM.Proofs.Filter
import CM.Props.C10
/-
C17 (a) for the WHOLE HTML the renderer writes.

Rendering with a tag predicate `p` (`FilterTag = p`) differs from rendering without one (`FilterTag = nil`)
ONLY by some `<` replaced with `&lt;` (`OnlyLt`), for every tree, source, `SoftBreakBehavior`, `IgnoreRaw`,
reference map, entity decoder and predicate; and a predicate that rejects nothing changes nothing.

Structure: the output is `open ++ children ++ close` per node (`Spec.renderNode`, `render_eq_spec`).
  * control flow does not depend on the filter: `(openBytes cx cur).2` (descend or not) is the same in both
    configurations (`Rel`'s second component), `blockFor` does not mention the configuration;
  * every segment is either independent of the filter (equal: `OnlyLt.refl`), a renderer tag
    (`openTagAttr` / `openTag` / `closeTag`: `<` or `&lt;` then the same bytes) or a raw HTML run
    (`filterLoop_onlyLt`);
  * `OnlyLt` is closed under concatenation.
-/
namespace CM.Proofs
open CM CM.Model CM.Spec CM.Gen Node

/-! ### `OnlyLt` algebra -/

theorem OnlyLt.refl : ∀ a : Bytes, OnlyLt a a
  | [] => OnlyLt.nil
  | c :: a => OnlyLt.same c (OnlyLt.refl a)

theorem OnlyLt.of_eq {a b : Bytes} (h : a = b) : OnlyLt a b := h ▸ OnlyLt.refl a

theorem OnlyLt.append {a b c d : Bytes} (h1 : OnlyLt a b) (h2 : OnlyLt c d) : OnlyLt (a ++ c) (b ++ d) := by
  induction h1 with
  | nil => exact h2
  | same x _ ih => exact OnlyLt.same x ih
  | esc _ ih => exact OnlyLt.esc ih

theorem OnlyLt.ite {c : Prop} [Decidable c] {a b a' b' : Bytes} (h1 : c → OnlyLt a b) (h2 : ¬c → OnlyLt a' b') :
    OnlyLt (if c then a else a') (if c then b else b') := by
  by_cases h : c
  · rw [if_pos h, if_pos h]; exact h1 h
  · rw [if_neg h, if_neg h]; exact h2 h

/-- The output is never shorter, and the raw text is recovered by undoing the replacements: `OnlyLt` is
    functional from right to left only up to the choice of `&lt;` occurrences; lengths are related. -/
theorem OnlyLt.length_le {a b : Bytes} (h : OnlyLt a b) : a.length ≤ b.length := by
  induction h with
  | nil => exact Nat.le_refl _
  | same _ _ ih => simp only [List.length_cons]; omega
  | esc _ ih => simp only [List.length_cons]; omega

/-- Decidable checker for `OnlyLt` (structural on the raw text). -/
def onlyLtB : Bytes → Bytes → Bool
  | [], out => out.isEmpty
  | c :: a, out =>
    (match out with
     | d :: b => c == d && onlyLtB a b
     | [] => false) ||
    (c == 0x3C && match out with
     | 0x26 :: 0x6C :: 0x74 :: 0x3B :: b => onlyLtB a b
     | _ => false)

theorem onlyLtB_sound : ∀ (a b : Bytes), onlyLtB a b = true → OnlyLt a b
  | [], b, h => by
    cases b with
    | nil => exact OnlyLt.nil
    | cons _ _ => simp [onlyLtB] at h
  | c :: a, out, h => by
    unfold onlyLtB at h
    rw [Bool.or_eq_true] at h
    rcases h with h | h
    · cases out with
      | nil => simp at h
      | cons d b =>
        simp only [Bool.and_eq_true, beq_iff_eq] at h
        obtain ⟨rfl, h⟩ := h
        exact OnlyLt.same c (onlyLtB_sound a b h)
    · rw [Bool.and_eq_true, beq_iff_eq] at h
      obtain ⟨rfl, h⟩ := h
      split at h
      · exact OnlyLt.esc (onlyLtB_sound a _ h)
      · exact absurd h (by simp)

theorem onlyLtB_complete {a b : Bytes} (h : OnlyLt a b) : onlyLtB a b = true := by
  induction h with
  | nil => rfl
  | same c _ ih => simp [onlyLtB, ih]
  | esc _ ih => simp [onlyLtB, ih]

theorem onlyLtB_iff (a b : Bytes) : onlyLtB a b = true ↔ OnlyLt a b := ⟨onlyLtB_sound a b, onlyLtB_complete⟩

instance (a b : Bytes) : Decidable (OnlyLt a b) := decidable_of_iff _ (onlyLtB_iff a b)

/-! ### The two configurations -/

/-- `cx` with `FilterTag = nil`. -/
def noF (cx : RCtx) : RCtx := { cx with filter := none }
/-- `cx` with `FilterTag = p`. -/
def withF (cx : RCtx) (p : Bytes → Bool) : RCtx := { cx with filter := some p }

section
variable (cx : RCtx) (p : Bytes → Bool)

@[simp] theorem noF_ext : (noF cx).ext = cx.ext := rfl
@[simp] theorem noF_src : (noF cx).src = cx.src := rfl
@[simp] theorem noF_soft : (noF cx).soft = cx.soft := rfl
@[simp] theorem noF_ignoreRaw : (noF cx).ignoreRaw = cx.ignoreRaw := rfl
@[simp] theorem noF_refs : (noF cx).refs = cx.refs := rfl
@[simp] theorem noF_filter : (noF cx).filter = none := rfl
@[simp] theorem withF_ext : (withF cx p).ext = cx.ext := rfl
@[simp] theorem withF_src : (withF cx p).src = cx.src := rfl
@[simp] theorem withF_soft : (withF cx p).soft = cx.soft := rfl
@[simp] theorem withF_ignoreRaw : (withF cx p).ignoreRaw = cx.ignoreRaw := rfl
@[simp] theorem withF_refs : (withF cx p).refs = cx.refs := rfl
@[simp] theorem withF_filter : (withF cx p).filter = some p := rfl

/-! ### Filter-independent material -/

mutual
theorem altPieces_congr (c1 c2 : RCtx) (he : c1.ext = c2.ext) (hs : c1.src = c2.src) (t : Tree) :
    altPieces c1 t = altPieces c2 t := by
  match t with
  | .node l cs =>
    simp only [altPieces, he, hs, altPiecesL_congr c1 c2 he hs cs]
theorem altPiecesL_congr (c1 c2 : RCtx) (he : c1.ext = c2.ext) (hs : c1.src = c2.src) (cs : List Tree) :
    altPiecesL c1 cs = altPiecesL c2 cs := by
  match cs with
  | [] => simp only [altPiecesL]
  | c :: cs =>
    simp only [altPiecesL, altPieces_congr c1 c2 he hs c, altPiecesL_congr c1 c2 he hs cs]
end

theorem altText_filter (t : Tree) : altText (withF cx p) t = altText (noF cx) t := by
  simp only [altText, altPieces_congr (withF cx p) (noF cx) rfl rfl t]

theorem linkDef_filter (t : Tree) : linkDef (withF cx p) t = linkDef (noF cx) t := rfl

/-! ### Renderer tags -/

theorem onlyLt_openTagAttr (name : Bytes) : OnlyLt (openTagAttr (noF cx) name) (openTagAttr (withF cx p) name) := by
  simp only [openTagAttr, noF_filter, withF_filter]
  have h : str "&lt;" = [0x26, 0x6C, 0x74, 0x3B] := by decide +kernel
  split
  · rw [h]; exact OnlyLt.esc (OnlyLt.refl name)
  · exact OnlyLt.refl _

theorem onlyLt_openTag (name : Bytes) : OnlyLt (openTag (noF cx) name) (openTag (withF cx p) name) :=
  (onlyLt_openTagAttr cx p name).append (OnlyLt.refl _)

theorem onlyLt_closeTag (name : Bytes) : OnlyLt (closeTag (noF cx) name) (closeTag (withF cx p) name) := by
  simp only [closeTag, noF_filter, withF_filter]
  apply OnlyLt.append _ (OnlyLt.refl _)
  have h1 : str "&lt;/" = [0x26, 0x6C, 0x74, 0x3B, 0x2F] := by decide +kernel
  have h2 : str "</" = [0x3C, 0x2F] := by decide +kernel
  split
  · rw [h1, h2]; exact OnlyLt.esc (OnlyLt.refl _)
  · exact OnlyLt.refl _

/-! ### Segments -/

/-- The relation between what a callback returns in the two configurations: the bytes differ only by
    `<` ↦ `&lt;`, and the decision to descend is the same. -/
def Rel (x y : Bytes × Bool) : Prop := OnlyLt x.1 y.1 ∧ x.2 = y.2

theorem Rel.ite {c : Prop} [Decidable c] {x y x' y' : Bytes × Bool} (h1 : c → Rel x y) (h2 : ¬c → Rel x' y') :
    Rel (if c then x else x') (if c then y else y') := by
  by_cases h : c
  · rw [if_pos h, if_pos h]; exact h1 h
  · rw [if_neg h, if_neg h]; exact h2 h

theorem Rel.mk' {a b : Bytes} {d : Bool} (h : OnlyLt a b) : Rel (a, d) (b, d) := ⟨h, rfl⟩

end

/-- Closes `OnlyLt` goals between the two readings of a segment: equal parts, tags, concatenations, `if`s. -/
syntax "only_lt" : tactic
macro_rules
  | `(tactic| only_lt) => `(tactic|
    repeat' first
      | exact OnlyLt.refl _
      | exact onlyLt_openTag _ _ _
      | exact onlyLt_openTagAttr _ _ _
      | exact onlyLt_closeTag _ _ _
      | exact filterLoop_onlyLt _ _
      | apply OnlyLt.append
      | (apply OnlyLt.ite <;> intro _))

section
variable (cx : RCtx) (p : Bytes → Bool)

theorem preBlock_rel (cur : Cursor) : Rel (preBlock (noF cx) cur) (preBlock (withF cx p) cur) := by
  simp only [preBlock, noF_ext, noF_src, noF_ignoreRaw, withF_ext, withF_src, withF_ignoreRaw]
  repeat' (apply Rel.ite <;> intro _)
  all_goals (apply Rel.mk'; only_lt)

theorem postBlock_onlyLt (cur : Cursor) : OnlyLt (postBlock (noF cx) cur) (postBlock (withF cx p) cur) := by
  simp only [postBlock]
  only_lt

theorem preInline_rel (t : Tree) : Rel (preInline (noF cx) t) (preInline (withF cx p) t) := by
  simp only [preInline, noF_ext, noF_src, noF_ignoreRaw, noF_soft, noF_filter, withF_ext, withF_src,
    withF_ignoreRaw, withF_soft, withF_filter, altText_filter, linkDef_filter, filterRaw]
  repeat' (apply Rel.ite <;> intro _)
  all_goals (apply Rel.mk'; only_lt)

theorem postInline_onlyLt (t : Tree) : OnlyLt (postInline (noF cx) t) (postInline (withF cx p) t) := by
  simp only [postInline]
  only_lt

theorem openBytes_rel (cur : Cursor) : Rel (openBytes (noF cx) cur) (openBytes (withF cx p) cur) := by
  unfold openBytes
  apply Rel.ite <;> intro _
  · exact preBlock_rel cx p cur
  · exact preInline_rel cx p _

theorem closeBytes_onlyLt (cur : Cursor) : OnlyLt (closeBytes (noF cx) cur) (closeBytes (withF cx p) cur) := by
  unfold closeBytes
  apply OnlyLt.ite <;> intro _
  · exact postBlock_onlyLt cx p cur
  · exact postInline_onlyLt cx p _

/-! ### The induction over `Spec.renderNode` / `Spec.renderForest` -/

mutual
theorem renderNode_onlyLt (t : Tree) (parent block : Option Tree) (index : Int) :
    OnlyLt (renderNode (noF cx) t parent block index) (renderNode (withF cx p) t parent block index) := by
  match t with
  | .node l cs =>
    simp only [renderNode]
    have hr := openBytes_rel cx p { node := .node l cs, parent := parent, block := block, index := index }
    rw [← hr.2]
    apply OnlyLt.ite <;> intro _
    · exact (hr.1.append (renderForest_onlyLt (.node l cs) _ cs 0)).append (closeBytes_onlyLt cx p _)
    · exact hr.1
theorem renderForest_onlyLt (parent : Tree) (block : Option Tree) (cs : List Tree) (i : Nat) :
    OnlyLt (renderForest (noF cx) parent block cs i) (renderForest (withF cx p) parent block cs i) := by
  match cs with
  | [] => simp only [renderForest]; exact OnlyLt.nil
  | c :: cs =>
    simp only [renderForest]
    exact (renderNode_onlyLt c (some parent) block i).append (renderForest_onlyLt parent block cs (i + 1))
end

end

/-! ### A predicate that rejects nothing changes nothing -/

section
variable (cx : RCtx) (p : Bytes → Bool) (hp : ∀ n, p n = false)
include hp

theorem openTagAttr_id (name : Bytes) : openTagAttr (withF cx p) name = openTagAttr (noF cx) name := by
  simp [openTagAttr, hp]

theorem openTag_id (name : Bytes) : openTag (withF cx p) name = openTag (noF cx) name := by
  simp only [openTag, openTagAttr_id cx p hp]

theorem closeTag_id (name : Bytes) : closeTag (withF cx p) name = closeTag (noF cx) name := by
  simp [closeTag, hp]

theorem preBlock_id (cur : Cursor) : preBlock (withF cx p) cur = preBlock (noF cx) cur := by
  simp only [preBlock, openTag_id cx p hp, openTagAttr_id cx p hp, noF_ext, noF_src, noF_ignoreRaw, withF_ext,
    withF_src, withF_ignoreRaw]
  rfl

theorem postBlock_id (cur : Cursor) : postBlock (withF cx p) cur = postBlock (noF cx) cur := by
  simp only [postBlock, closeTag_id cx p hp]

theorem preInline_id (t : Tree) : preInline (withF cx p) t = preInline (noF cx) t := by
  simp only [preInline, openTag_id cx p hp, openTagAttr_id cx p hp, closeTag_id cx p hp, noF_ext, noF_src,
    noF_ignoreRaw, noF_soft, noF_filter, withF_ext, withF_src, withF_ignoreRaw, withF_soft, withF_filter,
    altText_filter, linkDef_filter, filterRaw, filterLoop_id p hp]
  rfl

theorem postInline_id (t : Tree) : postInline (withF cx p) t = postInline (noF cx) t := by
  simp only [postInline, closeTag_id cx p hp]

theorem openBytes_id (cur : Cursor) : openBytes (withF cx p) cur = openBytes (noF cx) cur := by
  simp only [openBytes, preBlock_id cx p hp, preInline_id cx p hp]

theorem closeBytes_id (cur : Cursor) : closeBytes (withF cx p) cur = closeBytes (noF cx) cur := by
  simp only [closeBytes, postBlock_id cx p hp, postInline_id cx p hp]

end

mutual
theorem renderNode_id (cx : RCtx) (p : Bytes → Bool) (hp : ∀ n, p n = false) (t : Tree) (parent block : Option Tree)
    (index : Int) :
    renderNode (withF cx p) t parent block index = renderNode (noF cx) t parent block index := by
  match t with
  | .node l cs =>
    simp only [renderNode, openBytes_id cx p hp, closeBytes_id cx p hp, renderForest_id cx p hp (.node l cs) _ cs 0]
theorem renderForest_id (cx : RCtx) (p : Bytes → Bool) (hp : ∀ n, p n = false) (parent : Tree) (block : Option Tree)
    (cs : List Tree) (i : Nat) :
    renderForest (withF cx p) parent block cs i = renderForest (noF cx) parent block cs i := by
  match cs with
  | [] => simp only [renderForest]
  | c :: cs =>
    simp only [renderForest, renderNode_id cx p hp c (some parent) block i,
      renderForest_id cx p hp parent block cs (i + 1)]
end

/-! ### Main theorems: one root block -/

/-- General form (any `dst`, both runs appending to the same buffer). -/
theorem render_only_lt_dst (cx : RCtx) (p : Bytes → Bool) (dst : Bytes) (t : Tree) :
    OnlyLt (appendBlock { cx with filter := none } dst t) (appendBlock { cx with filter := some p } dst t) := by
  rw [Props.C10.render_eq_spec, Props.C10.render_eq_spec]
  exact (OnlyLt.refl dst).append (renderNode_onlyLt cx p t none none (-1))

/-- C17 (a), whole output of `AppendBlock`: rendering with a tag predicate differs from rendering without one
    only by `<` replaced with `&lt;`. -/
theorem render_only_lt (cx : RCtx) (p : Bytes → Bool) (t : Tree) :
    OnlyLt (appendBlock { cx with filter := none } [] t) (appendBlock { cx with filter := some p } [] t) :=
  render_only_lt_dst cx p [] t

theorem render_filter_none_id_dst (cx : RCtx) (p : Bytes → Bool) (hp : ∀ n, p n = false) (dst : Bytes) (t : Tree) :
    appendBlock { cx with filter := some p } dst t = appendBlock { cx with filter := none } dst t := by
  rw [Props.C10.render_eq_spec, Props.C10.render_eq_spec]
  exact congrArg (dst ++ ·) (renderNode_id cx p hp t none none (-1))

/-- A predicate that rejects nothing renders exactly as no predicate. -/
theorem render_filter_none_id (cx : RCtx) (p : Bytes → Bool) (hp : ∀ n, p n = false) (t : Tree) :
    appendBlock { cx with filter := some p } [] t = appendBlock { cx with filter := none } [] t :=
  render_filter_none_id_dst cx p hp [] t

/-- In terms of `cx.filter` (any two configurations that differ in the filter only). -/
theorem render_only_lt' (cx : RCtx) (p : Bytes → Bool) (hf : cx.filter = some p) (t : Tree) :
    OnlyLt (appendBlock { cx with filter := none } [] t) (appendBlock cx [] t) := by
  have h : cx = { cx with filter := some p } := by cases cx; simp only at hf; subst hf; rfl
  rw [h]
  exact render_only_lt cx p t

/-! ### `Render`: a list of root blocks joined by blank lines -/

theorem renderAll_only_lt_aux (mk : Bytes → RCtx) (p : Bytes → Bool) : ∀ (blocks : List (Bytes × Tree)) (i : Nat),
    OnlyLt (renderAll (fun s => { mk s with filter := none }) blocks i)
      (renderAll (fun s => { mk s with filter := some p }) blocks i)
  | [], _ => OnlyLt.nil
  | (src, t) :: rest, i => by
    simp only [renderAll]
    exact (render_only_lt_dst (mk src) p _ t).append (renderAll_only_lt_aux mk p rest (i + 1))

/-- C17 (a), whole output of `Render`. -/
theorem renderAll_only_lt (mk : Bytes → RCtx) (p : Bytes → Bool) (blocks : List (Bytes × Tree)) :
    OnlyLt (renderAll (fun s => { mk s with filter := none }) blocks 0)
      (renderAll (fun s => { mk s with filter := some p }) blocks 0) :=
  renderAll_only_lt_aux mk p blocks 0

theorem renderAll_filter_none_id_aux (mk : Bytes → RCtx) (p : Bytes → Bool) (hp : ∀ n, p n = false) :
    ∀ (blocks : List (Bytes × Tree)) (i : Nat),
    renderAll (fun s => { mk s with filter := some p }) blocks i
      = renderAll (fun s => { mk s with filter := none }) blocks i
  | [], _ => rfl
  | (src, t) :: rest, i => by
    simp only [renderAll]
    rw [render_filter_none_id_dst (mk src) p hp, renderAll_filter_none_id_aux mk p hp rest (i + 1)]

theorem renderAll_filter_none_id (mk : Bytes → RCtx) (p : Bytes → Bool) (hp : ∀ n, p n = false)
    (blocks : List (Bytes × Tree)) :
    renderAll (fun s => { mk s with filter := some p }) blocks 0
      = renderAll (fun s => { mk s with filter := none }) blocks 0 :=
  renderAll_filter_none_id_aux mk p hp blocks 0

/-- The same about the specification-level reading (`renderAllSpec`: blocks joined by "\n\n"). -/
theorem renderAllSpec_only_lt (mk : Bytes → RCtx) (p : Bytes → Bool) (blocks : List (Bytes × Tree)) :
    OnlyLt (renderAllSpec (fun s => { mk s with filter := none }) blocks)
      (renderAllSpec (fun s => { mk s with filter := some p }) blocks) := by
  rw [← Props.C10.renderAll_join, ← Props.C10.renderAll_join]
  exact renderAll_only_lt mk p blocks

theorem renderAllSpec_filter_none_id (mk : Bytes → RCtx) (p : Bytes → Bool) (hp : ∀ n, p n = false)
    (blocks : List (Bytes × Tree)) :
    renderAllSpec (fun s => { mk s with filter := some p }) blocks
      = renderAllSpec (fun s => { mk s with filter := none }) blocks := by
  rw [← Props.C10.renderAll_join, ← Props.C10.renderAll_join]
  exact renderAll_filter_none_id mk p hp blocks

/-! ### Examples (kernel evaluation) -/

private def bb (s : String) : Bytes := s.toUTF8.toList
/-- Long expected outputs are written in chunks (kernel evaluation of `toUTF8` is quadratic in the literal). -/
private def bbs (l : List String) : Bytes := l.flatMap bb
/-- A renderer configuration without a tag filter for the source `src`. -/
private def cx0 (src : Bytes) : RCtx := { ext := ⟨id⟩, src := src }
private def I (k : Nat) (a b : Int) (cs : List Tree := []) : Tree :=
  .node { isBlock := false, kind := k, start := a, stop := b } cs
private def B (k : Nat) (a b : Int) (cs : List Tree := []) : Tree :=
  .node { isBlock := true, kind := k, start := a, stop := b } cs
/-- Rejects every name (every renderer tag and every `<` of raw HTML is escaped). -/
private def rejectAll : Bytes → Bool := fun _ => true
/-- Rejects nothing. -/
private def rejectNone : Bytes → Bool := fun _ => false

-- The checker.
example : onlyLtB (bb "a<b<c") (bb "a&lt;b<c") = true ∧ onlyLtB (bb "a<b<c") (bb "a&lt;b&lt;c") = true
    ∧ onlyLtB (bb "a<b") (bb "a&gt;b") = false ∧ onlyLtB (bb "a<b") (bb "a&lt;") = false
    ∧ onlyLtB (bb "a&b") (bb "a&lt;b") = false ∧ onlyLtB (bb "ab") (bb "a<b") = false := by decide +kernel
example : OnlyLt (bb "<p><script>") (bb "<p>&lt;script>") := by decide +kernel
example : ¬ OnlyLt (bb "<p>") (bb "&lt;p&gt;") := by decide +kernel

-- (1) An HTML block of two raw lines (the cross-line input of C17): only the raw HTML path is exercised.
private def src1 : Bytes := bb "<a x=\n'><!--'><script>alert(1)</script>-->\n"
private def t1 : Tree := B BK.htmlBlock 0 43 [I IK.rawHTML 0 6, I IK.rawHTML 6 43]
example : appendBlock (cx0 src1) [] t1 = bb "<a x=\n'><!--'><script>alert(1)</script>-->\n" := by decide +kernel
example : appendBlock { cx0 src1 with filter := some filterTagGFM } [] t1
    = bb "<a x=\n'><!--'>&lt;script>alert(1)</script>-->\n" := by decide +kernel
example : appendBlock { cx0 src1 with filter := some rejectAll } [] t1
    = bb "&lt;a x=\n'>&lt;!--'>&lt;script>alert(1)&lt;/script>-->\n" := by decide +kernel
/-- The theorem applies (no hypothesis to satisfy), and the checker confirms it by evaluation. -/
example : OnlyLt (appendBlock { cx0 src1 with filter := none } [] t1)
    (appendBlock { cx0 src1 with filter := some filterTagGFM } [] t1) := render_only_lt (cx0 src1) filterTagGFM t1
example : onlyLtB (appendBlock { cx0 src1 with filter := none } [] t1)
    (appendBlock { cx0 src1 with filter := some filterTagGFM } [] t1) = true := by decide +kernel
example : onlyLtB (appendBlock { cx0 src1 with filter := none } [] t1)
    (appendBlock { cx0 src1 with filter := some rejectAll } [] t1) = true := by decide +kernel

-- (2) A paragraph: emphasis, a two-line inline tag with an indent node, a character reference, a soft break,
-- text `<scr`, an autolink, an image with a title inside a link, a code span, a hard break.
private def srcA : Bytes := bb "*e* <b\n  x> &amp;\n<scr <http://x.y/?a<b> [![i*m*](u \"t<\")](v) `c`  \nz"
private def tA : Tree :=
  B BK.paragraph 0 69
    [I IK.emphasis 0 3 [I IK.text 1 2], I IK.text 3 4,
     I IK.htmlTag 4 11
       [I IK.rawHTML 4 7, .node { isBlock := false, kind := IK.indent, start := 7, stop := 9, indent := 2 } [],
        I IK.rawHTML 9 11],
     I IK.text 11 12, I IK.charRef 12 17, I IK.softBreak 17 18, I IK.text 18 23,
     I IK.autolink 23 40 [I IK.text 24 39], I IK.text 40 41,
     I IK.link 41 61
       [I IK.image 42 57
          [I IK.text 44 45, I IK.emphasis 45 48 [I IK.text 46 47], I IK.linkDest 50 51 [I IK.text 50 51],
           I IK.linkTitle 52 56 [I IK.text 53 55]],
        I IK.linkDest 59 60 [I IK.text 59 60]],
     I IK.text 61 62, I IK.codeSpan 62 65 [I IK.text 63 64], I IK.hardBreak 65 68, I IK.text 68 69]
/-- A predicate that rejects some renderer elements, one end tag and one raw tag. -/
private def pSome : Bytes → Bool := fun n => n == bb "em" || n == bb "/a" || n == bb "b" || n == bb "img"
example : appendBlock (cx0 srcA) [] tA =
    bbs ["<p><em>e</em> <b\n  x> &amp;\n&lt;scr <a href=\"http://x.y/?a%3Cb\">",
      "http://x.y/?a&lt;b</a> <a href=\"v\"><img src=\"u\" title=\"t&lt;\" al",
      "t=\"im\"></a> <code>c</code><br>\nz</p>"] := by
  decide +kernel
example : appendBlock { cx0 srcA with filter := some rejectAll } [] tA =
    bbs ["&lt;p>&lt;em>e&lt;/em> &lt;b\n  x> &amp;\n&lt;scr &lt;a href=\"http",
      "://x.y/?a%3Cb\">http://x.y/?a&lt;b&lt;/a> &lt;a href=\"v\">&lt;img ",
      "src=\"u\" title=\"t&lt;\" alt=\"im\">&lt;/a> &lt;code>c&lt;/code>&lt;b",
      "r>\nz&lt;/p>"] := by
  decide +kernel
example : appendBlock { cx0 srcA with filter := some pSome } [] tA =
    bbs ["<p>&lt;em>e</em> &lt;b\n  x> &amp;\n&lt;scr <a href=\"http://x.y/?a",
      "%3Cb\">http://x.y/?a&lt;b&lt;/a> <a href=\"v\">&lt;img src=\"u\" titl",
      "e=\"t&lt;\" alt=\"im\">&lt;/a> <code>c</code><br>\nz</p>"] := by
  decide +kernel
/-- GFM rejects none of these names: same output as without a filter. -/
example : appendBlock { cx0 srcA with filter := some filterTagGFM } [] tA = appendBlock (cx0 srcA) [] tA := by
  decide +kernel
example : onlyLtB (appendBlock { cx0 srcA with filter := none } [] tA)
    (appendBlock { cx0 srcA with filter := some rejectAll } [] tA) = true := by decide +kernel
example : onlyLtB (appendBlock { cx0 srcA with filter := none } [] tA)
    (appendBlock { cx0 srcA with filter := some pSome } [] tA) = true := by decide +kernel
example : OnlyLt (appendBlock { cx0 srcA with filter := none } [] tA)
    (appendBlock { cx0 srcA with filter := some pSome } [] tA) := render_only_lt (cx0 srcA) pSome tA
/-- `render_filter_none_id` applies to `rejectNone` (hypothesis satisfiable), and evaluation agrees. -/
example : appendBlock { cx0 srcA with filter := some rejectNone } [] tA
    = appendBlock { cx0 srcA with filter := none } [] tA :=
  render_filter_none_id (cx0 srcA) rejectNone (fun _ => rfl) tA
example : appendBlock { cx0 srcA with filter := some rejectNone } [] tA
    = appendBlock { cx0 srcA with filter := none } [] tA := by decide +kernel
/-- The hypothesis of `render_filter_none_id` is needed: a rejecting predicate does change the output. -/
example : appendBlock { cx0 srcA with filter := some rejectAll } [] tA
    ≠ appendBlock { cx0 srcA with filter := none } [] tA := by decide +kernel
/-- Other configurations: `IgnoreRaw`, `SoftBreakHarden` (control flow is the same with and without the filter). -/
example : appendBlock { cx0 srcA with soft := 2, ignoreRaw := true, filter := some pSome } [] tA =
    bbs ["<p>&lt;em>e</em>    &amp;<br>\n&lt;scr <a href=\"http://x.y/?a%3Cb",
      "\">http://x.y/?a&lt;b&lt;/a> <a href=\"v\">&lt;img src=\"u\" title=\"t",
      "&lt;\" alt=\"im\">&lt;/a> <code>c</code><br>\nz</p>"] := by
  decide +kernel
example : onlyLtB (appendBlock { cx0 srcA with soft := 2, ignoreRaw := true, filter := none } [] tA)
    (appendBlock { cx0 srcA with soft := 2, ignoreRaw := true, filter := some pSome } [] tA) = true := by
  decide +kernel

-- (3) `Render` on five root blocks: the paragraph, the HTML block, an ordered list (start attribute) whose item is
-- an HTML block, a heading, a fenced code block with an info string.
private def srcC : Bytes := bb "3. <title>\n"
private def tC : Tree :=
  .node { kind := BK.list, start := 0, stop := 11, char := 0x2E }
    [.node { kind := BK.listItem, start := 0, stop := 11, char := 0x2E }
      [B BK.listMarker 0 2, B BK.htmlBlock 3 11 [I IK.rawHTML 3 11]]]
private def srcD : Bytes := bb "# h\n\n```x<y\n<xmp>\n```\n"
private def tD1 : Tree := .node { kind := BK.atxHeading, start := 0, stop := 4, n := 1 } [I IK.text 2 3]
private def tD2 : Tree :=
  .node { kind := BK.fencedCode, start := 5, stop := 22, n := 3, char := 0x60 }
    [I IK.infoString 8 11 [I IK.text 8 11], I IK.text 12 18]
private def doc : List (Bytes × Tree) := [(srcA, tA), (src1, t1), (srcC, tC), (srcD, tD1), (srcD, tD2)]

example : renderAll cx0 doc 0 =
    bbs ["<p><em>e</em> <b\n  x> &amp;\n&lt;scr <a href=\"http://x.y/?a%3Cb\">",
      "http://x.y/?a&lt;b</a> <a href=\"v\"><img src=\"u\" title=\"t&lt;\" al",
      "t=\"im\"></a> <code>c</code><br>\nz</p>\n\n<a x=\n'><!--'><script>aler",
      "t(1)</script>-->\n\n\n<ol start=\"3\"><li><title>\n</li></ol>\n\n<h1>h</",
      "h1>\n\n<pre><code class=\"language-x&lt;y\">&lt;xmp&gt;\n</code></pre",
      ">"] := by
  decide +kernel
example : renderAll (fun s => { cx0 s with filter := some filterTagGFM }) doc 0 =
    bbs ["<p><em>e</em> <b\n  x> &amp;\n&lt;scr <a href=\"http://x.y/?a%3Cb\">",
      "http://x.y/?a&lt;b</a> <a href=\"v\"><img src=\"u\" title=\"t&lt;\" al",
      "t=\"im\"></a> <code>c</code><br>\nz</p>\n\n<a x=\n'><!--'>&lt;script>a",
      "lert(1)</script>-->\n\n\n<ol start=\"3\"><li>&lt;title>\n</li></ol>\n\n<",
      "h1>h</h1>\n\n<pre><code class=\"language-x&lt;y\">&lt;xmp&gt;\n</code",
      "></pre>"] := by
  decide +kernel
example : renderAll (fun s => { cx0 s with filter := some rejectAll }) doc 0 =
    bbs ["&lt;p>&lt;em>e&lt;/em> &lt;b\n  x> &amp;\n&lt;scr &lt;a href=\"http",
      "://x.y/?a%3Cb\">http://x.y/?a&lt;b&lt;/a> &lt;a href=\"v\">&lt;img ",
      "src=\"u\" title=\"t&lt;\" alt=\"im\">&lt;/a> &lt;code>c&lt;/code>&lt;b",
      "r>\nz&lt;/p>\n\n&lt;a x=\n'>&lt;!--'>&lt;script>alert(1)&lt;/script>",
      "-->\n\n\n&lt;ol start=\"3\">&lt;li>&lt;title>\n&lt;/li>&lt;/ol>\n\n&lt;h",
      "1>h&lt;/h1>\n\n&lt;pre>&lt;code class=\"language-x&lt;y\">&lt;xmp&gt",
      ";\n&lt;/code>&lt;/pre>"] := by
  decide +kernel
example : OnlyLt (renderAll (fun s => { cx0 s with filter := none }) doc 0)
    (renderAll (fun s => { cx0 s with filter := some filterTagGFM }) doc 0) := renderAll_only_lt cx0 filterTagGFM doc
example : onlyLtB (renderAll (fun s => { cx0 s with filter := none }) doc 0)
    (renderAll (fun s => { cx0 s with filter := some filterTagGFM }) doc 0) = true := by decide +kernel
example : onlyLtB (renderAll (fun s => { cx0 s with filter := none }) doc 0)
    (renderAll (fun s => { cx0 s with filter := some rejectAll }) doc 0) = true := by decide +kernel
example : renderAll (fun s => { cx0 s with filter := some rejectNone }) doc 0
    = renderAll (fun s => { cx0 s with filter := none }) doc 0 :=
  renderAll_filter_none_id cx0 rejectNone (fun _ => rfl) doc
/-- The relation is not symmetric and not trivially true: the filtered page is not related to a different page. -/
example : onlyLtB (renderAll (fun s => { cx0 s with filter := some filterTagGFM }) doc 0)
    (renderAll (fun s => { cx0 s with filter := none }) doc 0) = false := by decide +kernel

end CM.Proofs
