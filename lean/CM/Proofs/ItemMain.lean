import CM.Proofs.ItemRun2
import CM.Proofs.QuoteGMain
/-
C09 (list-item half), the block-phase theorem at the level of the stream machine (port of `QuoteGMain`).
-/
namespace CM.Proofs.Item
open CM CM.Model CM.Gen CM.Proofs.BT CM.Proofs.BSp CM.Proofs.Quote CM.Proofs.Nest

theorem iq_ne_nil (I : IP) {D : Bytes} (h : D ≠ []) : iq I D ≠ [] := by
  rw [iq_eq]; unfold ifrom; rw [if_neg h]
  intro e
  have h1 := congrArg List.length e
  rw [List.length_append, I.pre_length] at h1
  have := I.k_pos
  simp only [List.length_nil] at h1
  omega

theorem length_igo_ge (pre : Bytes) : ∀ (l : Bytes), l.length ≤ (igo pre l).length := by
  intro l
  induction l with
  | nil => exact Nat.le_refl _
  | cons a rest ih =>
    simp only [igo]
    split
    · split
      · rename_i hr; subst hr; simp
      · simp only [List.length_cons, List.length_append]; omega
    · simp only [List.length_cons]; omega

theorem length_iq_ge (I : IP) (D : Bytes) (h : D ≠ []) : D.length + 2 ≤ (iq I D).length := by
  rw [iq_eq]; unfold ifrom; rw [if_neg h, List.length_append, I.pre_length]
  have := length_igo_ge (spaces I.k) D
  have : 2 ≤ I.k := by unfold IP.k; have := I.mlen; have := I.n1; omega
  omega

/-- The first line of `item m N D` is not blank: it begins with the marker. -/
theorem first_not_blank (I : IP) (l : Bytes) : isBlankLine (I.pre [] ++ l) = false := by
  have hpre : I.pre [] = I.m ++ spaces I.N := by unfold IP.pre; rw [if_pos rfl]
  rw [hpre]
  cases hm : I.m with
  | nil => have := I.mlen; rw [hm] at this; simp at this
  | cons c r =>
    have h0 := I.m0.1
    have hc := I.mclean c (by rw [hm]; exact List.mem_cons_self ..)
    rw [hm] at h0
    have h0' : c ≠ SP := h0
    simp only [List.cons_append, isBlankLine, List.all_cons, isSpaceTabOrLineEnding]
    simp [h0', hc.1, hc.2.1, hc.2.2.2]

section
variable {I : IP} {x : PExt} {D : Bytes} (S : SetupI I D)
include S

/-- The three statements, for every bound on the length of the rest of the document. -/
theorem all_stmtsI : ∀ n, LinesStmtI I x D n ∧ SkipStmtI I x D n ∧ IdleStmtI I x D n := by
  intro n
  induction n with
  | zero =>
    have hL : LinesStmtI I x D 0 := by
      intro a b qa c lpD lpQ pD pQ bsD done acc fD gD fQ hbn _ hL
      have : b = [] := List.length_eq_zero_iff.mp (by omega)
      exact absurd this hL.bne
    have hS : SkipStmtI I x D 0 := by
      intro a b qa lpQ p pQ done acc fs fp gD fQ hbn hpos dD dQ hq hdone hfQ
      have hb : b = [] := List.length_eq_zero_iff.mp (by omega)
      subst hb
      exact skip_endI S a qa lpQ p pQ done acc fs fp gD fQ hpos dD dQ hq hdone (by omega)
    exact ⟨hL, hS, idle_ofI S 0 hL hS⟩
  | succ n ih =>
    obtain ⟨hL, hS, hI⟩ := ih
    have hL' := lines_succI S n hL hI
    have hS' := skip_succI S n hS hL hI
    exact ⟨hL', hS', idle_ofI S (n + 1) hL' hS'⟩

/-- **C09, block-quote half, block phase.** -/
theorem blocks_item_simI
    (hout' : isEof (drain (blocksLPc x) (D.length + 8) (memParser D) []).2.1 = true) :
    ∃ (rq : Root) (pQ : BP),
      drain (blocksLP x) ((iq I D).length + 8) (memParser (iq I D)) [] = ([rq], .err .eof, pQ) ∧
      rq.source = iq I D ∧ rq.startOffset = 0 ∧ rq.endOffset = (iq I D).length ∧
      ItemRelatedS (DRi I.m I.N D) I D (drain (blocksLP x) (D.length + 8) (memParser D) []).1 rq.block := by
  have hout : (drain (blocksLPc x) (D.length + 8) (memParser D) []).2.1 = .err .eof := isEof_iff.mp hout'
  obtain ⟨_, hS, _⟩ := all_stmtsI S D.length
  -- the bare run: its first `NextBlock` call
  have hdD := memParser_dst D S.clean.noNul
  have hD1 : drain (blocksLPc x) (D.length + 8) (memParser D) [] =
      contD x (D.length + 7) [] (afterSkip (blocksLPc x) (bpFuel (memParser D))
        (skipBlank (bpFuel (memParser D)) (freshLine (memParser D)))) := by
    rw [drain_succ, nextBlock_eq_F, nextBlockF_fresh (blocksLPc x) rfl (by simp [memParser])]
  -- the prefixed run: its first `NextBlock` call reaches the per-line loop
  have hqne : iq I D ≠ [] := iq_ne_nil I S.ne
  have hdQ := memParser_dst (iq I D) (clean_iq_noNul I S.clean)
  have hfQ := freshLine_dst hdQ
  obtain ⟨r1, r2⟩ := hfQ.readline_eq
  simp only [Nat.zero_add, List.drop_zero] at r1 r2
  have hcrD : NoCR D := S.clean.noCR
  have hllq : lineLen (iq I D) = lineLen D + I.k := by
    rw [iq_eq, lineLen_ifrom _ I.k D (I.pre_noLF _) hcrD S.ne, I.pre_length]
  have hposq := lineLen_pos hqne
  have hfirstq : ({ freshLine (memParser (iq I D)) with i := lineLen (iq I D) } : BP).buf.take
      ({ freshLine (memParser (iq I D)) with i := lineLen (iq I D) } : BP).i = I.pre [] ++ D.take (lineLen D) := by
    rw [r2.source, List.drop_zero]
    have := take_line_ifrom (I.pre []) I.k D (I.pre_noLF _) hcrD S.ne
    rw [← iq_eq] at this
    exact this
  have hskQ : skipBlank (bpFuel (memParser (iq I D))) (freshLine (memParser (iq I D))) =
      (some ({ freshLine (memParser (iq I D)) with i := lineLen (iq I D) } : BP),
        ({ freshLine (memParser (iq I D)) with i := lineLen (iq I D) } : BP)) := by
    have hf : bpFuel (memParser (iq I D)) = (bpFuel (memParser (iq I D)) - 1) + 1 := by unfold bpFuel; omega
    rw [hf]
    conv => lhs; unfold skipBlank
    rw [r1]
    simp only [hposq, decide_true, Bool.not_true, Bool.false_eq_true, if_false]
    rw [hfirstq, first_not_blank I]
    rfl
  have hQ1 : nextBlock (blocksLP x) (memParser (iq I D)) =
      parseLines (blocksLP x) (bpFuel (memParser (iq I D))) (newOf []) 0
        ({ freshLine (memParser (iq I D)) with i := lineLen (iq I D) } : BP) := by
    rw [nextBlock_eq_F, nextBlockF_fresh (blocksLP x) rfl (by simp [memParser]), hskQ]
    rfl
  -- the induction
  have hpos : PosAtI I D [] D [] ([] : Bytes).length :=
    ⟨rfl, by rw [iq_eq]; rfl, S.clean, S.ne, Nat.le_refl _, fun _ => ⟨Or.inl rfl, by simp [nLF_zero]⟩, fun h => absurd h S.ne⟩
  have hfuel : D.length + 2 ≤ bpFuel (memParser (iq I D)) := by
    unfold bpFuel
    have : (memParser (iq I D)).buf = iq I D := by rw [hdQ.buf]; rfl
    rw [this]
    have := length_iq_ge I D S.ne
    omega
  have hdQ2 : DSt (iq I D) 0 (([] : Bytes).length + lineLen (ifrom (I.pre []) I.k D)) []
      ({ freshLine (memParser (iq I D)) with i := lineLen (iq I D) } : BP) := by
    show DSt (iq I D) 0 (0 + lineLen (ifrom (I.pre []) I.k D)) [] _
    rw [Nat.zero_add, ← iq_eq]; exact r2
  have hgoal := hS [] D [] (newOf []) (freshLine (memParser D)) _ [markerTree I.m.length] [] (bpFuel (memParser D)) (bpFuel (memParser D))
    (D.length + 7) (bpFuel (memParser (iq I D))) (Nat.le_refl _) hpos (freshLine_dst hdD) hdQ2
    (Or.inl ⟨rfl, rfl, rfl, rfl⟩) (DoneI.nil I (DRi I.m I.N D) D) hfuel
  rw [← hD1] at hgoal
  obtain ⟨rq, pQ', hq1, hfin⟩ := hgoal hout
  -- the prefixed run ends at its second `NextBlock` call
  obtain ⟨p'', hq2⟩ := nextBlock_done' (blocksLP x) (iq I D) (iq I D).length 0 pQ' hfin.st (by omega)
  have hQrun : drain (blocksLP x) ((iq I D).length + 8) (memParser (iq I D)) [] = ([rq], .err .eof, p'') := by
    have e8 : (iq I D).length + 8 = ((iq I D).length + 6) + 1 + 1 := by omega
    rw [e8]
    conv => lhs; unfold drain
    rw [hQ1]
    have : parseLines (blocksLP x) (bpFuel (memParser (iq I D))) (newOf []) 0
        ({ freshLine (memParser (iq I D)) with i := lineLen (iq I D) } : BP) = (.block rq, pQ') := hq1
    rw [this]
    simp only []
    conv => lhs; unfold drain
    rw [hq2]
    rfl
  refine ⟨rq, p'', hQrun, hfin.src, hfin.so, hfin.eo, ?_⟩
  have hne : isRefDefFail (drain (blocksLPc x) (D.length + 8) (memParser D) []).2.1 = false := by rw [hout]; rfl
  rw [drain_checked_eq x _ _ _ hne]
  exact hfin.rel

end

end CM.Proofs.Item
