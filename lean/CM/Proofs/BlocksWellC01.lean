import CM.Proofs.BlocksWell
import CM.Proofs.TilingContract
/-
Partial results towards `LPContract (blocksLP x)` (the contract of the C01 tiling theorem), over the least sessions
`Reach` / `RPend` of TilingContract.lean (every state the stream machine can produce):

* `blocks_kids_nonempty`      — the document always has a child after a line;
* `blocks_kids_ordered`       — all children but the last are closed, and the closed ones end in increasing order;
* `blocks_closed_within`      — closed children end inside the source given;
* `blocks_eof_nothing_open`   — the end-of-input line leaves no child open;
* `blocks_pending_ok`         — the re-based left-over blocks satisfy the same.

NOT proved (the remaining statement is `blocksLP_contract_target`): the parser never panics on these sessions, a closed
child ends STRICTLY after the previous one, at a `GoodCut` of the padded buffer (neither inside a padded NUL nor inside a
CRLF), and the bytes after the last closed child are blank.
-/
namespace CM.Proofs
open CM CM.Model CM.Gen

/-- What is proved about every state of a session. -/
def ReachInv (src : Bytes) (σ : LP) : Prop :=
  Kids src.length src.length σ.root.blocks ∧ ClosedLe src.length σ.root.blocks ∧ NE σ.root ∧
  (blocksI src σ ∨ ∀ k ∈ σ.root.blocks, PBClosed k)

theorem ReachInv.of_I {src : Bytes} {σ : LP} (h : blocksI src σ) : ReachInv src σ :=
  ⟨h.1.kids, h.1.cle, h.2.1, Or.inl h⟩

theorem headOpen_not_closed {bs : List PB} (h : headOpen bs = true) : ¬ ∀ k ∈ bs, PBClosed k := by
  cases bs with
  | nil => cases h
  | cons k rest =>
    intro hc
    have := hc k (by simp)
    simp only [headOpen, PB.isOpen, decide_eq_true_eq] at h
    unfold PBClosed at this
    omega

/-- One more line (or the end of input) on a state of the invariant `blocksI`. -/
theorem reach_line (x : PExt) (σ : LP) (src ln : Bytes) (h : blocksI src σ) (hln : ln = [] ∨ IsLine ln) :
    ReachInv (src ++ ln) (processLine x (σ.reset (src ++ ln) src.length)) ∧
    (src.length = (src ++ ln).length → ∀ k ∈ (processLine x (σ.reset (src ++ ln) src.length)).root.blocks, PBClosed k) := by
  rcases hln with rfl | hl
  · rw [List.append_nil]
    obtain ⟨h1, h2, h3⟩ := h
    obtain ⟨r1, r2, r3, r4, r5, r6⟩ := reset_fields σ src src.length
    obtain ⟨e1, e2, e3, e4⟩ := processLine_eof x (σ.reset src src.length) (by rw [r4]; simp) r3 (by rw [r1]; exact h1)
      (by rw [r6, r1]; exact h3)
    exact ⟨⟨e1, e2, e3 (by rw [r1]; exact h2), Or.inr e4⟩, fun _ => e4⟩
  · have hne : ln ≠ [] := hl.1
    have hlen : 0 < ln.length := List.length_pos_iff.mpr hne
    have := blocks_step x σ src (src ++ ln) h (List.prefix_append src ln) (by simp; omega)
    refine ⟨ReachInv.of_I this, fun he => ?_⟩
    simp only [List.length_append] at he; omega

theorem reach_inv (x : PExt) :
    (∀ σ src ls, Reach (blocksLP x) σ src ls →
      ReachInv src σ ∧ (ls = src.length → ∀ k ∈ (blocksLP x).kids σ, PBClosed k)) ∧
    (∀ bs src, RPend (blocksLP x) bs src → blocksJ src bs) := by
  have newI : ∀ bs src, blocksJ src bs → headOpen bs = true → blocksI src ((blocksLP x).new bs) := by
    intro bs src hJ ho
    cases bs with
    | nil => cases ho
    | cons k rest => exact ⟨docRoot_ok _ hJ.1 hJ.2, by simp [NE, blocksLP, docRoot, PB.blocks], fun h' => (by cases h')⟩
  have cutJ : ∀ (bs : List PB) (src : Bytes) (k k' : PB) (rest : List PB), Kids src.length src.length bs →
      bs = k :: k' :: rest → k.isOpen = false →
      blocksJ (src.drop (stopOf k)) (offsetPBs (-(stopOf k : Int)) (k' :: rest)) := by
    intro bs src k k' rest hK hbs hc
    subst hbs
    exact (blocks_cut hK hc).2
  constructor
  · intro σ src ls h
    exact Reach.rec (motive_1 := fun σ src ls _ => ReachInv src σ ∧ (ls = src.length → ∀ k ∈ (blocksLP x).kids σ, PBClosed k))
      (motive_2 := fun bs src _ => blocksJ src bs)
      (fun ln _ hl hb => by
        have := blocks_fresh x ln hb
        refine ⟨ReachInv.of_I this, fun he => ?_⟩
        have : ln ≠ [] := hl.1
        exact absurd (List.length_eq_zero_iff.mp he.symm) this)
      (fun σ src ls ln _ ho _ hln _ ih => by
        have hI : blocksI src σ := by
          rcases ih.1.2.2.2 with h' | h'
          · exact h'
          · exact absurd h' (headOpen_not_closed ho)
        exact reach_line x σ src ln hI hln)
      (fun bs src ln _ ho _ hln _ ih => reach_line x _ src ln (newI bs src ih ho) hln)
      (fun σ src ls k k' rest _ hk hc ih => cutJ σ.root.blocks src k k' rest ih.1.1 hk hc)
      (fun src k k' rest _ hc ih => cutJ _ src k k' rest ih.1 rfl hc) h
  · intro bs src h
    exact RPend.rec (motive_1 := fun σ src ls _ => ReachInv src σ ∧ (ls = src.length → ∀ k ∈ (blocksLP x).kids σ, PBClosed k))
      (motive_2 := fun bs src _ => blocksJ src bs)
      (fun ln _ hl hb => by
        have := blocks_fresh x ln hb
        refine ⟨ReachInv.of_I this, fun he => ?_⟩
        have : ln ≠ [] := hl.1
        exact absurd (List.length_eq_zero_iff.mp he.symm) this)
      (fun σ src ls ln _ ho _ hln _ ih => by
        have hI : blocksI src σ := by
          rcases ih.1.2.2.2 with h' | h'
          · exact h'
          · exact absurd h' (headOpen_not_closed ho)
        exact reach_line x σ src ln hI hln)
      (fun bs src ln _ ho _ hln _ ih => reach_line x _ src ln (newI bs src ih ho) hln)
      (fun σ src ls k k' rest _ hk hc ih => cutJ σ.root.blocks src k k' rest ih.1.1 hk hc)
      (fun src k k' rest _ hc ih => cutJ _ src k k' rest ih.1 rfl hc) h

/-! ### The named partial results -/

/-- After every line of a session the document has at least one child. -/
theorem blocks_kids_nonempty (x : PExt) {σ : LP} {src : Bytes} {ls : Nat} (h : Reach (blocksLP x) σ src ls) :
    (blocksLP x).kids σ ≠ [] := ((reach_inv x).1 σ src ls h).1.2.2.1

/-- The children are ordered: all but the last are closed, and a closed child ends at or after every child before it. -/
theorem blocks_kids_ordered (x : PExt) {σ : LP} {src : Bytes} {ls : Nat} (h : Reach (blocksLP x) σ src ls) :
    (∀ k ∈ ((blocksLP x).kids σ).dropLast, k.isOpen = false) ∧
    ((blocksLP x).kids σ).Pairwise (fun a b => b.isOpen = false → a.label.stop ≤ b.label.stop) := by
  have hK := ((reach_inv x).1 σ src ls h).1.1
  refine ⟨fun k hk => ?_, ?_⟩
  · have := hK.init k hk
    unfold PBClosed at this
    unfold PB.isOpen; simpa using this
  · refine List.Pairwise.imp ?_ hK.sorted
    intro a b hab hb
    exact hab (closed_of_not_open hb)

/-- PBClosed children end inside the source the parser has been given. -/
theorem blocks_closed_within (x : PExt) {σ : LP} {src : Bytes} {ls : Nat} (h : Reach (blocksLP x) σ src ls) :
    ∀ k ∈ (blocksLP x).kids σ, k.isOpen = false → 0 ≤ k.label.stop ∧ stopOf k ≤ src.length := by
  intro k hk hc
  have hK := ((reach_inv x).1 σ src ls h).1.1
  have h0 := closed_of_not_open hc
  have := (hK.kid k hk).closed h0
  exact ⟨h0, by unfold stopOf; omega⟩

/-- The end-of-input line leaves no child open. -/
theorem blocks_eof_nothing_open (x : PExt) {σ : LP} {src : Bytes} {ls : Nat} (h : Reach (blocksLP x) σ src ls)
    (he : ls = src.length) : ∀ k ∈ (blocksLP x).kids σ, k.isOpen = false := by
  intro k hk
  have := ((reach_inv x).1 σ src ls h).2 he k hk
  unfold PBClosed at this
  unfold PB.isOpen; simpa using this

/-- The re-based left-over blocks: all but the last closed, closed ones in increasing order and inside the bytes
    before the parse position. -/
theorem blocks_pending_ok (x : PExt) {bs : List PB} {src : Bytes} (h : RPend (blocksLP x) bs src) :
    (∀ k ∈ bs.dropLast, k.isOpen = false) ∧
    bs.Pairwise (fun a b => b.isOpen = false → a.label.stop ≤ b.label.stop) ∧
    (∀ k ∈ bs, k.isOpen = false → stopOf k ≤ src.length) := by
  have hJ := (reach_inv x).2 bs src h
  refine ⟨fun k hk => ?_, ?_, fun k hk hc => ?_⟩
  · have := hJ.1.init k hk
    unfold PBClosed at this
    unfold PB.isOpen; simpa using this
  · refine List.Pairwise.imp ?_ hJ.1.sorted
    intro a b hab hb
    exact hab (closed_of_not_open hb)
  · have := (hJ.1.kid k hk).closed (closed_of_not_open hc)
    unfold stopOf; omega

/-- The full C01 contract for the real parser: what remains to be proved (see the header). -/
def blocksLP_contract_target (x : PExt) : Prop := Nonempty (LPContract (blocksLP x))

end CM.Proofs
