import CM.Proofs.RefKeysLoop
import CM.Proofs.BGClose
/-
C12 — keys are normal forms, part 2: the block-phase invariant, tree level.

`PBRefs P b`: the `ref` attribute of every inline child of every block of `b` satisfies `P`.
The block phase keeps it for every `P` that holds of the empty `ref` (all nodes but link labels) and of the results of
`transformLinkReferenceSpan x.fold` (the link labels `refDefLoop` builds) — `RefPred x P`.

This file: the predicate, edits along the last-child spine, `offsetPB`, and `closeBlock` with its hooks
(`refDefLoop`, `onCloseParagraph`, `indentedOnClose`).
-/
namespace CM.Proofs.RK
open CM CM.Model CM.Gen
open CM.Proofs.BT CM.Proofs.BG

mutual
/-- Every inline child of every block satisfies `P` at its `ref` attribute. -/
def PBRefs (P : Bytes → Prop) : PB → Prop
  | .mk _ bs is => (∀ t ∈ is, P t.label.ref) ∧ PBRefsL P bs
def PBRefsL (P : Bytes → Prop) : List PB → Prop
  | [] => True
  | b :: bs => PBRefs P b ∧ PBRefsL P bs
end

/-- What the block phase needs of the predicate on `ref` attributes. -/
structure RefPred (x : PExt) (P : Bytes → Prop) : Prop where
  nil : P []
  key : ∀ (src : Bytes) (is : List Tree) (start stop : Nat), P (transformLinkReferenceSpan x.fold src is start stop)

/-- The instance used for C12: nothing, or the fold of a white-space-normal label. -/
theorem refPred_refNormal (x : PExt) : RefPred x (RefNormal x.fold) :=
  ⟨Or.inl rfl, fun src is s e => Or.inr (transformLinkReferenceSpan_keyNormal x.fold src is s e)⟩

variable {P : Bytes → Prop}

theorem PBRefsL_iff (bs : List PB) : PBRefsL P bs ↔ ∀ b ∈ bs, PBRefs P b := by
  induction bs with
  | nil => simp [PBRefsL]
  | cons b bs ih => simp [PBRefsL, ih]

theorem PBRefs_mk (l : PLabel) (bs : List PB) (is : List Tree) :
    PBRefs P (.mk l bs is) ↔ (∀ t ∈ is, P t.label.ref) ∧ ∀ b ∈ bs, PBRefs P b := by
  rw [PBRefs, PBRefsL_iff]

/-- Lists of blocks. -/
def AllRefs (P : Bytes → Prop) (L : List PB) : Prop := ∀ b ∈ L, PBRefs P b

theorem AllRefs.nil : AllRefs P [] := fun _ h => by cases h
theorem AllRefs.single {b : PB} (h : PBRefs P b) : AllRefs P [b] := by
  intro c hc; simp only [List.mem_singleton] at hc; subst hc; exact h
theorem AllRefs.append {a b : List PB} (h1 : AllRefs P a) (h2 : AllRefs P b) : AllRefs P (a ++ b) := by
  intro c hc
  rcases List.mem_append.1 hc with hc | hc
  · exact h1 c hc
  · exact h2 c hc

/-! ### local edits -/

theorem PBRefs_relabel {l l' : PLabel} {bs : List PB} {is : List Tree} (h : PBRefs P (.mk l bs is)) :
    PBRefs P (.mk l' bs is) := by
  rw [PBRefs_mk] at h ⊢; exact h

theorem PBRefs_setLabel (f : PLabel → PLabel) {b : PB} (h : PBRefs P b) : PBRefs P (b.setLabel f) := by
  obtain ⟨l, bs, is⟩ := b
  exact PBRefs_relabel h

theorem PBRefs_replaceLast {l : PLabel} {bs new : List PB} {is : List Tree} (h : PBRefs P (.mk l bs is))
    (hn : AllRefs P new) : PBRefs P (.mk l (bs.dropLast ++ new) is) := by
  rw [PBRefs_mk] at h ⊢
  refine ⟨h.1, ?_⟩
  intro b hb
  rcases List.mem_append.1 hb with hb | hb
  · exact h.2 b (List.dropLast_subset bs hb)
  · exact hn b hb

/-! ### the spine -/

theorem PBRefs_spineModify (f : PB → PB) (hf : ∀ c, PBRefs P c → PBRefs P (f c)) : ∀ (d : Nat) (b : PB),
    PBRefs P b → PBRefs P (spineModify f b d) := by
  intro d
  induction d with
  | zero => intro b h; rw [spineModify_zero]; exact hf b h
  | succ d ih =>
    intro b h
    obtain ⟨l, bs, is⟩ := b
    rw [spineModify_succ]
    cases hgl : bs.getLast? with
    | none => exact h
    | some c =>
      simp only []
      have hc : PBRefs P c := ((PBRefs_mk l bs is).1 h).2 c (List.mem_of_getLast? hgl)
      exact PBRefs_replaceLast h (AllRefs.single (ih c hc))

theorem PBRefs_spineGet : ∀ (d : Nat) (b c : PB), PBRefs P b → spineGet b d = some c → PBRefs P c := by
  intro d
  induction d with
  | zero => intro b c h hs; rw [spineGet_zero] at hs; cases hs; exact h
  | succ d ih =>
    intro b c h hs
    obtain ⟨l, bs, is⟩ := b
    rw [spineGet_succ] at hs
    cases hgl : bs.getLast? with
    | none => rw [hgl] at hs; cases hs
    | some c0 =>
      rw [hgl] at hs
      exact ih c0 c (((PBRefs_mk l bs is).1 h).2 c0 (List.mem_of_getLast? hgl)) hs

theorem PBRefs_replaceLastFn (g : PB → List PB) (hg : ∀ c, PBRefs P c → AllRefs P (g c)) (c : PB) (h : PBRefs P c) :
    PBRefs P (replaceLastFn g c) := by
  obtain ⟨l, bs, is⟩ := c
  simp only [replaceLastFn]
  cases hgl : bs.getLast? with
  | none => exact h
  | some c0 =>
    simp only []
    exact PBRefs_replaceLast h (hg c0 (((PBRefs_mk l bs is).1 h).2 c0 (List.mem_of_getLast? hgl)))

theorem PBRefs_setBlankFlags (v : Bool) : ∀ (d : Nat) (b : PB), PBRefs P b → PBRefs P (setBlankFlags v b d) := by
  intro d
  induction d with
  | zero =>
    intro b h
    obtain ⟨l, bs, is⟩ := b
    simp only [setBlankFlags]
    exact PBRefs_relabel h
  | succ d ih =>
    intro b h
    obtain ⟨l, bs, is⟩ := b
    simp only [setBlankFlags]
    cases hgl : bs.getLast? with
    | none => exact PBRefs_relabel h
    | some c =>
      simp only []
      have hc : PBRefs P c := ((PBRefs_mk l bs is).1 h).2 c (List.mem_of_getLast? hgl)
      exact PBRefs_replaceLast (PBRefs_relabel h) (AllRefs.single (ih c hc))

/-! ### offsetPB -/

theorem offsetTree_ref (n : Int) (t : Tree) : (offsetTree n t).label.ref = t.label.ref := by
  obtain ⟨l, cs⟩ := t
  rw [offsetTree]
  rfl

theorem PBRefs_offsetPB (n : Int) : ∀ b : PB, PBRefs P b → PBRefs P (offsetPB n b) := by
  apply PB.ind
  intro l bs is ih h
  rw [offsetPB, offsetPBs_eq_map, offsetTrees_eq_map]
  rw [PBRefs_mk] at h ⊢
  refine ⟨?_, ?_⟩
  · intro t ht
    rw [List.mem_map] at ht
    obtain ⟨u, hu, rfl⟩ := ht
    rw [offsetTree_ref]; exact h.1 u hu
  · intro b hb
    rw [List.mem_map] at hb
    obtain ⟨c, hc, rfl⟩ := hb
    exact ih c hc (h.2 c hc)

theorem AllRefs_offsetPBs (n : Int) (bs : List PB) (h : AllRefs P bs) : AllRefs P (offsetPBs n bs) := by
  intro b hb
  rw [offsetPBs_eq_map, List.mem_map] at hb
  obtain ⟨c, hc, rfl⟩ := hb
  exact PBRefs_offsetPB n c (h c hc)

/-! ### refDefLoop -/

theorem mkInline_ref (k : Nat) (a b : Int) (kids : List Tree) : (mkInline k a b kids).label.ref = [] := rfl
theorem mkInlineRef_ref (k : Nat) (a b : Int) (r : Bytes) (kids : List Tree) : (mkInlineRef k a b r kids).label.ref = r := rfl

theorem refs_leaf {l : PLabel} {is : List Tree} (h : ∀ t ∈ is, P t.label.ref) : AllRefs P [PB.mk l [] is] := by
  apply AllRefs.single
  rw [PBRefs_mk]
  exact ⟨h, fun _ hb => by cases hb⟩

theorem refs_refdef2 {x : PExt} (hP : RefPred x P) (s e a b : Int) (src : Bytes) (is : List Tree) (st sp : Nat)
    (d : List Tree) (a' b' : Int) (k : List Tree) :
    AllRefs P [mkPB BK.linkRefDef s e [mkInlineRef IK.linkLabel a b (transformLinkReferenceSpan x.fold src is st sp) d,
      mkInline IK.linkDest a' b' k]] := by
  apply refs_leaf
  intro t ht
  simp only [List.mem_cons, List.not_mem_nil, or_false] at ht
  rcases ht with rfl | rfl
  · rw [mkInlineRef_ref]; exact hP.key _ _ _ _
  · rw [mkInline_ref]; exact hP.nil

theorem refs_refdef3 {x : PExt} (hP : RefPred x P) (s e a b : Int) (src : Bytes) (is : List Tree) (st sp : Nat)
    (d : List Tree) (a' b' : Int) (k : List Tree) (a'' b'' : Int) (k' : List Tree) :
    AllRefs P [mkPB BK.linkRefDef s e [mkInlineRef IK.linkLabel a b (transformLinkReferenceSpan x.fold src is st sp) d,
      mkInline IK.linkDest a' b' k, mkInline IK.linkTitle a'' b'' k']] := by
  apply refs_leaf
  intro t ht
  simp only [List.mem_cons, List.not_mem_nil, or_false] at ht
  rcases ht with rfl | rfl | rfl
  · rw [mkInlineRef_ref]; exact hP.key _ _ _ _
  · rw [mkInline_ref]; exact hP.nil
  · rw [mkInline_ref]; exact hP.nil

theorem refs_drop {is : List Tree} (h : ∀ t ∈ is, P t.label.ref) (fc : Nat) : ∀ t ∈ is.drop fc, P t.label.ref :=
  fun t ht => h t (List.mem_of_mem_drop ht)

/-- `refDefLoop`: the link labels it builds carry results of `transformLinkReferenceSpan x.fold`; everything else
    is built with an empty `ref` or taken over from the paragraph. -/
theorem refDefLoop_refs {x : PExt} (hP : RefPred x P) (src : Bytes) (orphan : Option PB)
    (fuel : Nat) (r : Rd) (l : PLabel) (is : List Tree) (result : List PB) :
    (∀ o, orphan = some o → AllRefs P [o]) → (∀ t ∈ is, P t.label.ref) → AllRefs P result →
    AllRefs P (refDefLoop x src orphan fuel r l is result) := by
  cases orphan <;> fun_induction refDefLoop x src _ fuel r l is result
  all_goals intro ho his hres
  all_goals first
    | exact hres.append (refs_leaf his)
    | exact hres.append (refs_refdef2 hP _ _ _ _ _ _ _ _ _ _ _ _)
    | exact hres.append (refs_refdef3 hP _ _ _ _ _ _ _ _ _ _ _ _ _ _ _)
    | exact (hres.append (refs_refdef2 hP _ _ _ _ _ _ _ _ _ _ _ _)).append (ho _ rfl)
    | exact (hres.append (refs_refdef3 hP _ _ _ _ _ _ _ _ _ _ _ _ _ _ _)).append (ho _ rfl)
    | exact (hres.append (refs_refdef2 hP _ _ _ _ _ _ _ _ _ _ _ _)).append (refs_leaf (refs_drop his _))
    | (rename_i ih; exact ih ho (refs_drop his _) (hres.append (refs_refdef2 hP _ _ _ _ _ _ _ _ _ _ _ _)))
    | (rename_i ih; exact ih ho (refs_drop his _) (hres.append (refs_refdef3 hP _ _ _ _ _ _ _ _ _ _ _ _ _ _ _)))

theorem refs_orphan (hnil : P []) (s e a b : Int) : AllRefs P [mkPB BK.paragraph s e [mkInline IK.unparsed a b]] := by
  apply refs_leaf
  intro t ht
  simp only [List.mem_singleton] at ht
  subst ht; exact hnil

theorem onCloseParagraph_refs {x : PExt} (hP : RefPred x P) (src : Bytes) (b : PB) (h : PBRefs P b) :
    AllRefs P (onCloseParagraph x src b) := by
  obtain ⟨l, bs, is⟩ := b
  cases is with
  | nil =>
    unfold onCloseParagraph
    exact AllRefs.single h
  | cons first rest =>
    unfold onCloseParagraph
    simp only []
    apply refDefLoop_refs hP _ _ _ _ _ _ _ _ ((PBRefs_mk _ _ _).1 h).1 AllRefs.nil
    intro o ho
    split at ho
    · simp only [Option.some.injEq] at ho
      subst ho
      exact refs_orphan hP.nil _ _ _ _
    · cases ho

/-! ### closeBlock -/

theorem closeLast_refs (x : PExt) (src : Bytes) (e : Int) {l l' : PLabel} {bs : List PB} {is : List Tree}
    (h : PBRefs P (.mk l bs is)) (ih : ∀ c ∈ bs, PBRefs P c → AllRefs P (closeBlock x src e c)) :
    PBRefs P (.mk l' (closeLast x src e bs) is) := by
  have h' : PBRefs P (.mk l' bs is) := PBRefs_relabel h
  cases hgl : bs.getLast? with
  | none => rw [closeLast_none x src e bs hgl]; exact h'
  | some c =>
    rw [closeLast_some x src e bs c hgl]
    have hcm : c ∈ bs := List.mem_of_getLast? hgl
    exact PBRefs_replaceLast h' (ih c hcm (((PBRefs_mk l bs is).1 h).2 c hcm))

/-- **`closeBlock` keeps the `ref` invariant.** -/
theorem closeBlock_refs {x : PExt} (hP : RefPred x P) (src : Bytes) (e : Int) : ∀ b : PB, PBRefs P b →
    AllRefs P (closeBlock x src e b) := by
  apply PB.ind
  intro l bs is ih h
  rw [closeBlock]
  split
  · exact AllRefs.single h
  simp only []
  split
  · split
    · apply AllRefs.single
      have h1 : PBRefs P (.mk { l with stop := e, loose := true } (closeLast x src e bs) is) := closeLast_refs x src e h ih
      rw [PBRefs_mk] at h1 ⊢
      refine ⟨h1.1, ?_⟩
      intro b hb
      rw [List.mem_map] at hb
      obtain ⟨c, hc, rfl⟩ := hb
      exact PBRefs_setLabel _ (h1.2 c hc)
    · exact AllRefs.single (closeLast_refs x src e h ih)
  split
  · exact onCloseParagraph_refs hP src _ (PBRefs_relabel h)
  split
  · obtain ⟨is', heq, hsub⟩ := indentedOnClose_eq src { l with stop := e } bs is
    rw [heq]
    apply AllRefs.single
    rw [PBRefs_mk] at h ⊢
    exact ⟨fun t ht => h.1 t (hsub t ht), h.2⟩
  · exact AllRefs.single (closeLast_refs x src e h ih)

theorem spineReplaceLast_refs {x : PExt} (hP : RefPred x P) (src : Bytes) (e : Int) (root : PB) (d : Nat)
    (h : PBRefs P root) : PBRefs P (spineReplaceLast (closeBlock x src e) root d) := by
  rw [spineReplaceLast_eq]
  exact PBRefs_spineModify _ (PBRefs_replaceLastFn _ (closeBlock_refs hP src e)) d root h

end CM.Proofs.RK
