import CM.Proofs.QuoteRdA
/-
C09, `onCloseParagraph` with `[` (2): the two readers in lockstep.

`RR E is is' r r'` — the readers are normalised (`RDS.RI`), stand in corresponding nodes at the same offset, or are both
dead behind the last nodes.  `Safe E r r'` — if they are dead they are at the ends of the sources (so that `current`
yields 0 on both sides; a reader that died by stepping over the final line feed of the paragraph may see different
bytes behind it: the next line on the bare side, the prefix of the next line on the other).
`current_sim`, `next_sim`: one step on both sides.
-/
namespace CM.Proofs.Quote
open CM CM.Model CM.Gen

variable {E : Env} {is is' : List Tree} {r r' : Rd}

structure RR (E : Env) (is is' : List Tree) (r r' : Rd) : Prop where
  ri : RDS.RI E.src is r
  ri' : RDS.RI E.src' is' r'
  co : ∃ k, r.spans = is.drop k ∧ r'.spans = is'.drop k
  off : ∀ t rest t' rest', r.spans = t :: rest → r'.spans = t' :: rest' →
    (r'.pos : Int) - t'.label.start = (r.pos : Int) - t.label.start
  dead : r.spans = [] → ∃ t t', is.getLast? = some t ∧ is'.getLast? = some t' ∧
    (r.pos : Int) = t.label.stop ∧ (r'.pos : Int) = t'.label.stop

/-- Dead readers are at the ends of the sources. -/
def Safe (E : Env) (r r' : Rd) : Prop := r.spans = [] → E.src.length ≤ r.pos ∧ E.src'.length ≤ r'.pos

/-- The readers are alive in the `k`-th nodes at offset `o`. -/
structure LiveAt (E : Env) (is is' : List Tree) (r r' : Rd) (k o : Nat) (t t' : Tree) : Prop where
  sp : r.spans = t :: is.drop (k + 1)
  sp' : r'.spans = t' :: is'.drop (k + 1)
  g : is[k]? = some t
  g' : is'[k]? = some t'
  nr : NR E t t'
  pos : r.pos = t.label.start.toNat + o
  pos' : r'.pos = t'.label.start.toNat + o
  lt : (o : Int) < t.label.stop - t.label.start
  nn : 0 ≤ t.label.start
  nn' : 0 ≤ t'.label.start

theorem drop_cons_get {α : Type} {l : List α} {k : Nat} {a : α} {rest : List α} (h : l.drop k = a :: rest) :
    l[k]? = some a ∧ rest = l.drop (k + 1) := by
  have h1 : (l.drop k)[0]? = some a := by rw [h]; rfl
  rw [List.getElem?_drop] at h1
  have h2 : (l.drop k).drop 1 = rest := by rw [h]; rfl
  rw [List.drop_drop] at h2
  exact ⟨by simpa using h1, by rw [← h2, Nat.add_comm]⟩

theorem drop_of_get {α : Type} {l : List α} {k : Nat} {a : α} (h : l[k]? = some a) : l.drop k = a :: l.drop (k + 1) := by
  have hk : k < l.length := (List.getElem?_eq_some_iff.mp h).1
  have ht : l[k] = a := (List.getElem?_eq_some_iff.mp h).2
  rw [List.drop_eq_getElem_cons hk, ht]

theorem RR.cases (hc : PC E is is') (h : RR E is is' r r') :
    (r.spans = [] ∧ r'.spans = []) ∨ ∃ k o t t', LiveAt E is is' r r' k o t t' := by
  obtain ⟨k, e1, e2⟩ := h.co
  cases hs : r.spans with
  | nil =>
    left
    refine ⟨rfl, ?_⟩
    rw [hs] at e1
    have : is.length ≤ k := by
      have := congrArg List.length e1
      simp only [List.length_nil, List.length_drop] at this
      omega
    rw [e2]
    apply List.drop_of_length_le
    rw [← hc.rel.length_eq]; exact this
  | cons t rest =>
    right
    rw [hs] at e1
    obtain ⟨g, hr⟩ := drop_cons_get e1.symm
    obtain ⟨t', g', nr⟩ := hc.rel.getElem? g
    have sp' : r'.spans = t' :: is'.drop (k + 1) := by rw [e2]; exact drop_of_get g'
    have hn := h.ri.norm t rest hs
    have hn' := h.ri'.norm t' _ sp'
    have ho := h.off t rest t' _ hs sp'
    have h0 := hc.c.nn t (List.mem_of_getElem? g)
    have h0' := hc.c'.nn t' (List.mem_of_getElem? g')
    refine ⟨k, r.pos - t.label.start.toNat, t, t', ⟨by rw [hs, hr], sp', g, g', nr, by omega, by omega, by omega, h0, h0'⟩⟩

theorem LiveAt.liveP {k o : Nat} {t t' : Tree} (h : LiveAt E is is' r r' k o t t') :
    LiveP is is' (r.pos : Int) (r'.pos : Int) := by
  refine ⟨k, o, t, t', h.g, h.g', h.lt, ?_, ?_⟩
  · rw [h.pos]; have := h.nn; omega
  · rw [h.pos']; have := h.nn'; omega

theorem LiveAt.ne {k o : Nat} {t t' : Tree} (h : LiveAt E is is' r r' k o t t') : r.spans ≠ [] := by
  rw [h.sp]; exact List.cons_ne_nil _ _

/-! ### `current` -/

theorem LiveAt.current (hc : PC E is is') (hr : RR E is is' r r') {k o : Nat} {t t' : Tree}
    (h : LiveAt E is is' r r' k o t t') :
    r.current E.src = (E.src.getD r.pos 0, r) ∧ r'.current E.src' = (E.src.getD r.pos 0, r') ∧ E.src.getD r.pos 0 ≠ 0 := by
  have e1 := RDS.current_eq hc.c hr.ri
  have e2 := RDS.current_eq hc.c' hr.ri'
  have l1 := RDS.current_live hc.c hr.ri h.sp
  have l2 := RDS.current_live hc.c' hr.ri' h.sp'
  have hz := h.nr.nz o h.lt
  have hb := h.nr.bytes o h.lt
  rw [← h.pos] at hz hb
  rw [← h.pos'] at hb
  rw [unp_not_indent h.nr.unp] at l1
  rw [unp_not_indent h.nr.unp'] at l2
  simp only [Bool.false_eq_true, if_false] at l1 l2
  rw [if_neg (by simpa using hz)] at l1
  rw [hb, if_neg (by simpa using hz)] at l2
  rw [e1, e2, l1, l2]
  exact ⟨rfl, rfl, hz⟩

theorem current_dead_safe {src : Bytes} {r : Rd} (h : src.length ≤ r.pos) : r.current src = (0, r) := by
  unfold Rd.current
  rw [if_pos h]

/-- **`current`** on both sides: the same byte; it is 0 exactly for dead readers. -/
theorem current_sim (hc : PC E is is') (hr : RR E is is' r r') (hs : Safe E r r') :
    ∃ c, r.current E.src = (c, r) ∧ r'.current E.src' = (c, r') ∧ (c = 0 ↔ r.spans = []) ∧
      (r.spans ≠ [] → c = E.src.getD r.pos 0) := by
  rcases hr.cases hc with ⟨d1, d2⟩ | ⟨k, o, t, t', hl⟩
  · obtain ⟨s1, s2⟩ := hs d1
    exact ⟨0, current_dead_safe s1, current_dead_safe s2, ⟨fun _ => d1, fun _ => rfl⟩, fun hne => absurd d1 hne⟩
  · obtain ⟨a1, a2, a3⟩ := hl.current hc hr
    exact ⟨_, a1, a2, ⟨fun h0 => absurd h0 a3, fun hd => absurd hd hl.ne⟩, fun _ => rfl⟩

/-! ### `next` -/

theorem next_unp {src : Bytes} {is : List Tree} (hc : RDS.Ctx src is) {r : Rd} (h : RDS.RI src is r) {t : Tree}
    {rest : List Tree} (hs : r.spans = t :: rest) (hu : isUnparsed t = true) :
    r.next src =
      if ((r.pos + 1 : Nat) : Int) < t.label.stop then
        (true, { r with prev := r.pos, pos := r.pos + 1,
                        vpos := if src.getD r.pos 1 == 0 && src.getD (r.pos + 1) 1 == 0
                          then (r.vpos + 1) % nullReplacementString.length else 0 })
      else
        match nextTextNode rest with
        | some (t', sp) =>
          (true, { spans := sp, prev := r.pos, pos := t'.label.start.toNat,
                   vpos := computeNullVirtualPosition src t'.label.start.toNat })
        | none => (false, { spans := [], prev := r.pos, pos := r.pos + 1, vpos := r.vpos }) := by
  rw [RDS.next_live hc h hs, unp_not_indent hu]
  simp only [Bool.false_and, Bool.false_eq_true, if_false, Bool.not_false, Bool.true_and, decide_eq_true_eq]
  split <;> rfl

theorem getLast?_of_get {α : Type} {l : List α} {k : Nat} {a : α} (h : l[k]? = some a) (hn : l[k + 1]? = none) :
    l.getLast? = some a := by
  have hk : k < l.length := (List.getElem?_eq_some_iff.mp h).1
  rw [List.getElem?_eq_none_iff] at hn
  rw [List.getLast?_eq_getElem?]
  have : l.length - 1 = k := by omega
  rw [this]; exact h

/-- **`next`** from a live position. -/
theorem next_live_sim (hc : PC E is is') (hr : RR E is is' r r') {k o : Nat} {t t' : Tree}
    (hl : LiveAt E is is' r r' k o t t') :
    ∃ b r2 r2', r.next E.src = (b, r2) ∧ r'.next E.src' = (b, r2') ∧ RR E is is' r2 r2' ∧
      r2.prev = r.pos ∧ r2'.prev = r'.pos ∧
      ((b = true ∧ ((o : Int) + 1 < t.label.stop - t.label.start) ∧ LiveAt E is is' r2 r2' k (o + 1) t t') ∨
       (b = true ∧ ((o : Int) + 1 = t.label.stop - t.label.start) ∧ ∃ u u', LiveAt E is is' r2 r2' (k + 1) 0 u u') ∨
       (b = false ∧ ((o : Int) + 1 = t.label.stop - t.label.start) ∧ is[k + 1]? = none ∧ r2.spans = [] ∧ r2'.spans = [] ∧
          r2.pos = r.pos + 1 ∧ r2'.pos = r'.pos + 1)) := by
  have n1 := next_unp hc.c hr.ri hl.sp hl.nr.unp
  have n2 := next_unp hc.c' hr.ri' hl.sp' hl.nr.unp'
  have s1 := (RDS.next_spec hc.c hr.ri).1
  have s2 := (RDS.next_spec hc.c' hr.ri').1
  have hlen := hl.nr.len
  have hlt := hl.lt
  have hnn := hl.nn
  have hnn' := hl.nn'
  have hp := hl.pos
  have hp' := hl.pos'
  by_cases hin : (o : Int) + 1 < t.label.stop - t.label.start
  · -- inside the node
    have c1 : ((r.pos + 1 : Nat) : Int) < t.label.stop := by omega
    have c2 : ((r'.pos + 1 : Nat) : Int) < t'.label.stop := by omega
    rw [if_pos c1] at n1
    rw [if_pos c2] at n2
    rw [n1] at s1
    rw [n2] at s2
    refine ⟨true, _, _, n1, n2, ⟨s1, s2, ?_, ?_, ?_⟩, rfl, rfl, Or.inl ⟨rfl, hin, ?_⟩⟩
    · exact hr.co
    · intro u rest u' rest' e1 e2
      have e1' : r.spans = u :: rest := e1
      have e2' : r'.spans = u' :: rest' := e2
      rw [hl.sp] at e1'; rw [hl.sp'] at e2'
      cases e1'; cases e2'
      show ((r'.pos + 1 : Nat) : Int) - _ = ((r.pos + 1 : Nat) : Int) - _
      omega
    · intro e
      have e' : r.spans = [] := e
      rw [hl.sp] at e'; cases e'
    · exact ⟨hl.sp, hl.sp', hl.g, hl.g', hl.nr, by show r.pos + 1 = _; omega, by show r'.pos + 1 = _; omega,
        by omega, hnn, hnn'⟩
  · have hend : (o : Int) + 1 = t.label.stop - t.label.start := by omega
    have c1 : ¬ ((r.pos + 1 : Nat) : Int) < t.label.stop := by omega
    have c2 : ¬ ((r'.pos + 1 : Nat) : Int) < t'.label.stop := by omega
    rw [if_neg c1] at n1
    rw [if_neg c2] at n2
    cases hu : is[k + 1]? with
    | none =>
      have hu' := hc.rel.getElem?_none hu
      have d1 : is.drop (k + 1) = [] := List.drop_of_length_le (List.getElem?_eq_none_iff.mp hu)
      have d2 : is'.drop (k + 1) = [] := List.drop_of_length_le (List.getElem?_eq_none_iff.mp hu')
      rw [d1] at n1
      rw [d2] at n2
      simp only [nextTextNode] at n1 n2
      rw [n1] at s1
      rw [n2] at s2
      refine ⟨false, _, _, n1, n2, ⟨s1, s2, ⟨is.length, ?_, ?_⟩, ?_, ?_⟩, rfl, rfl,
        Or.inr (Or.inr ⟨rfl, hend, rfl, rfl, rfl, rfl, rfl⟩)⟩
      · show ([] : List Tree) = _; rw [List.drop_length]
      · show ([] : List Tree) = _; rw [hc.rel.length_eq, List.drop_length]
      · intro u rest u' rest' e1; cases e1
      · intro _
        refine ⟨t, t', getLast?_of_get hl.g hu, getLast?_of_get hl.g' hu', ?_, ?_⟩
        · show ((r.pos + 1 : Nat) : Int) = _; omega
        · show ((r'.pos + 1 : Nat) : Int) = _; omega
    | some u =>
      obtain ⟨u', gu', nru⟩ := hc.rel.getElem? hu
      have d1 : is.drop (k + 1) = u :: is.drop (k + 1 + 1) := drop_of_get hu
      have d2 : is'.drop (k + 1) = u' :: is'.drop (k + 1 + 1) := drop_of_get gu'
      rw [d1, unp_textNode nru.unp] at n1
      rw [d2, unp_textNode nru.unp'] at n2
      simp only at n1 n2
      rw [n1] at s1
      rw [n2] at s2
      have hu0 := hc.c.nn u (List.mem_of_getElem? hu)
      have hu0' := hc.c'.nn u' (List.mem_of_getElem? gu')
      have hul := (hc.c.ok u (List.mem_of_getElem? hu)).1
      refine ⟨true, _, _, n1, n2, ⟨s1, s2, ⟨k + 1, ?_, ?_⟩, ?_, ?_⟩, rfl, rfl,
        Or.inr (Or.inl ⟨rfl, hend, u, u', ⟨rfl, rfl, hu, gu', nru, ?_, ?_, ?_, hu0, hu0'⟩⟩)⟩
      · show u :: _ = _; rw [d1]
      · show u' :: _ = _; rw [d2]
      · intro a rest a' rest' e1 e2
        have e1' : u :: is.drop (k + 1 + 1) = a :: rest := e1
        have e2' : u' :: is'.drop (k + 1 + 1) = a' :: rest' := e2
        cases e1'; cases e2'
        show ((u'.label.start.toNat : Nat) : Int) - _ = ((u.label.start.toNat : Nat) : Int) - _
        omega
      · intro e
        have e' : u :: is.drop (k + 1 + 1) = [] := e
        cases e'
      · show u.label.start.toNat = _; omega
      · show u'.label.start.toNat = _; omega
      · omega

/-- **`next`** on both sides. -/
theorem next_sim (hc : PC E is is') (hr : RR E is is' r r') :
    ∃ b r2 r2', r.next E.src = (b, r2) ∧ r'.next E.src' = (b, r2') ∧ RR E is is' r2 r2' ∧
      (b = true ↔ r2.spans ≠ []) ∧
      (b = true → RDS.mu E.src r2 < RDS.mu E.src r ∧ RDS.mu E.src' r2' < RDS.mu E.src' r') ∧
      (r.spans ≠ [] → r2.prev = r.pos ∧ r2'.prev = r'.pos ∧ LiveP is is' r2.prev r2'.prev) ∧
      (Safe E r r' → (r.spans ≠ [] → E.src.getD r.pos 0 ≠ LF) → Safe E r2 r2') ∧
      (r.spans = [] → r2 = r ∧ r2' = r') := by
  rcases hr.cases hc with ⟨d1, d2⟩ | ⟨k, o, t, t', hl⟩
  · refine ⟨false, r, r', RDS.next_dead hc.c hr.ri d1, RDS.next_dead hc.c' hr.ri' d2, hr, ?_, ?_, ?_, ?_, ?_⟩
    · exact ⟨fun h => (by cases h), fun h => absurd d1 h⟩
    · intro h; cases h
    · intro h; exact absurd d1 h
    · intro h _; exact h
    · intro _; exact ⟨rfl, rfl⟩
  · obtain ⟨b, r2, r2', e1, e2, hr2, p1, p2, hcase⟩ := next_live_sim hc hr hl
    refine ⟨b, r2, r2', e1, e2, hr2, ?_, ?_, ?_, ?_, ?_⟩
    · rcases hcase with ⟨hb, _, l2⟩ | ⟨hb, _, u, u', l2⟩ | ⟨hb, _, _, hd, _⟩
      · exact ⟨fun _ => l2.ne, fun _ => hb⟩
      · exact ⟨fun _ => l2.ne, fun _ => hb⟩
      · rw [hb]; exact ⟨fun h => (by cases h), fun h => absurd hd h⟩
    · intro hb; subst hb
      exact ⟨RDS.next_mu hc.c hr.ri e1, RDS.next_mu hc.c' hr.ri' e2⟩
    · intro _
      refine ⟨p1, p2, ?_⟩
      rw [p1, p2]; exact hl.liveP
    · intro _ hlf
      have hlf' := hlf hl.ne
      rcases hcase with ⟨_, _, l2⟩ | ⟨_, _, u, u', l2⟩ | ⟨_, hend, hn, hd, _, q1, q2⟩
      · intro hd; exact absurd hd l2.ne
      · intro hd; exact absurd hd l2.ne
      · intro _
        have hb := hl.nr.bytes o hl.lt
        have hp := hl.pos
        have hp' := hl.pos'
        have hnn := hl.nn
        have hnn' := hl.nn'
        have hlen := hl.nr.len
        rw [← hp] at hb
        rw [← hp'] at hb
        have g1 := hc.eol t (List.mem_of_getElem? hl.g)
        have g2 := hc.eol' t' (List.mem_of_getElem? hl.g')
        have i1 : t.label.stop.toNat - 1 = r.pos := by omega
        have i2 : t'.label.stop.toNat - 1 = r'.pos := by omega
        unfold EndLF at g1 g2
        rw [i1] at g1
        rw [i2, hb] at g2
        rcases g1 with g1 | g1
        · exact absurd g1 hlf'
        rcases g2 with g2 | g2
        · exact absurd g2 hlf'
        rw [q1, q2]
        omega
    · intro hd; exact absurd hd hl.ne

end CM.Proofs.Quote
