import CM.Proofs.EolG12
import CM.Proofs.BlocksContractFinal
/-
C14 (a), block phase, inputs WITH NUL bytes — part 1.

`Parse` pads every NUL of the input to three NUL bytes (`padNulls`) and works on the padded buffer; the offsets of the roots
are counted in the unpadded input (`unpaddedNullLength`), their sources get U+FFFD (`fillNulls`), the positions of their trees
are positions of the padded buffer.  Re-writing the line endings commutes with all of this (`toEol_padNulls`,
`replNul_toEol`) — provided the buffer is only ever cut at positions that do not split a padded NUL, which is what the C01
contract of the block parser (`blocksLP_contract`, `MInv`) guarantees.  This file: the relation `BPRelN` between the two
stream states, the image `mapRootN` of a root, and the cut (`cut_rel`).
-/
namespace CM.Proofs.EolN
open CM CM.Model CM.Gen CM.Spec CM.Proofs CM.Proofs.BT

/-! ### Padding and the line endings -/

theorem stdEol_noNul {e : Bytes} (he : StdEol e) : ∀ c ∈ e, c ≠ 0 := by
  rcases he with h | h | h <;> subst h <;> decide

theorem toEol_padNulls {e : Bytes} (he : StdEol e) : ∀ y : Bytes, toEol e (padNulls y 0) = padNulls (toEol e y) 0 := by
  intro y
  induction y with
  | nil => rfl
  | cons c t ih =>
    by_cases h0 : c = 0
    · subst h0
      have hz : (0 : UInt8) ≠ LF := by decide
      rw [padNulls_cons_zero, toEol_cons_ne e hz, toEol_cons_ne e hz, toEol_cons_ne e hz, toEol_cons_ne e hz,
        padNulls_cons_zero, ih]
    · by_cases hl : c = LF
      · subst hl
        rw [padNulls_cons_ne h0, toEol_cons_LF, toEol_cons_LF, padNulls_append, padNulls_eq_self (stdEol_noNul he), ih]
      · rw [padNulls_cons_ne h0, toEol_cons_ne e hl, toEol_cons_ne e hl, padNulls_cons_ne h0, ih]

theorem replNul_toEol (e : Bytes) (he : StdEol e) : ∀ y : Bytes, replNul (toEol e y) = toEol e (replNul y) := by
  intro y
  induction y with
  | nil => rfl
  | cons c t ih =>
    by_cases h0 : c = 0
    · subst h0
      have hz : (0 : UInt8) ≠ LF := by decide
      rw [toEol_cons_ne e hz, replNul_cons, replNul_cons, ih]
      simp only [beq_self_eq_true, if_true, List.cons_append, List.nil_append]
      rw [toEol_cons_ne e (by decide), toEol_cons_ne e (by decide), toEol_cons_ne e (by decide)]
    · by_cases hl : c = LF
      · subst hl
        rw [toEol_cons_LF, replNul_append, replNul_eq_self (stdEol_noNul he), ih, replNul_cons]
        have : ((LF : UInt8) == 0) = false := by decide
        rw [this]
        simp only [Bool.false_eq_true, if_false, List.cons_append, List.nil_append]
        rw [toEol_cons_LF]
      · have hb : (c == 0) = false := by simpa using h0
        rw [toEol_cons_ne e hl, replNul_cons, replNul_cons, hb, ih]
        simp only [Bool.false_eq_true, if_false, List.cons_append, List.nil_append]
        rw [toEol_cons_ne e hl]

theorem noCR_padNulls {y : Bytes} (h : NoCR y) : NoCR (padNulls y 0) := by
  induction y with
  | nil => intro c hc; simp at hc
  | cons c t ih =>
    have hc := noCR_cons h
    by_cases h0 : c = 0
    · subst h0
      rw [padNulls_cons_zero]
      intro d hd
      simp only [List.mem_cons] at hd
      rcases hd with rfl | rfl | rfl | hd
      · decide
      · decide
      · decide
      · exact ih hc.2 d hd
    · rw [padNulls_cons_ne h0]
      intro d hd
      rcases List.mem_cons.1 hd with rfl | hd
      · exact hc.1
      · exact ih hc.2 d hd

/-! ### The two parsers -/

/-- The image of a delivered root: as `mapRoot`, with the positions of the tree mapped as positions of the padded buffer. -/
def mapRootN (e inp : Bytes) (r : Root) : Root :=
  { source := toEol e r.source
    startLine := r.startLine
    startOffset := eolPos e inp r.startOffset
    endOffset := eolPos e inp r.endOffset
    block := mapPB (eolPosZ e (padNulls (inp.drop r.startOffset) 0)) r.block }

theorem mapRootN_noNul {e inp : Bytes} (hn : NoNul inp) (r : Root) : mapRootN e inp r = mapRoot e inp r := by
  unfold mapRootN mapRoot
  rw [padNulls_noNul (noNul_drop hn _)]

/-- The parser on the re-written input corresponds to the one on the original input (whose buffer and offset are described
    by the C01 invariant `MInv`). -/
structure BPRelN (e inp : Bytes) (p p' : BP) : Prop where
  buf' : p'.buf = toEol e p.buf
  i' : p'.i = eolPos e p.buf p.i
  ile : p.i ≤ p.buf.length
  off' : p'.offset = eolPos e inp p.offset
  lineno : p'.lineno = p.lineno
  err : p.err = some .eof
  err' : p'.err = some .eof
  rd : p'.rd.data.length + p'.rd.sched.length = p.rd.data.length + p.rd.sched.length
  blocks : p'.blocks = mapPBs (eolPosZ e p.buf) p.blocks
  panic : p'.panic = p.panic

theorem memParser_relN {e : Bytes} (he : StdEol e) (inp : Bytes) : BPRelN e inp (memParser inp) (memParser (toEol e inp)) :=
  ⟨by show padNulls (toEol e inp) 0 = toEol e (padNulls inp 0); rw [toEol_padNulls he], by simp [memParser], Nat.zero_le _,
    by simp [memParser], rfl, rfl, rfl, rfl, rfl, rfl⟩

section
variable {e inp : Bytes} {p p' : BP} {c y : Bytes}

theorem MInv.noCR (hcr : NoCR inp) (h : MInv inp p c y) : NoCR p.buf := by
  rw [h.buf]
  apply noCR_padNulls
  intro d hd
  exact hcr d (by rw [h.split]; exact List.mem_append_right _ hd)

theorem MInv.drop (h : MInv inp p c y) : y = inp.drop p.offset := by
  rw [h.split, h.offset, List.drop_left]

/-- **Cutting the two buffers** at a good position `n` of the original one. -/
theorem cut_rel (he : StdEol e) (h : MInv inp p c y) (R : BPRelN e inp p p') {n : Nat} (hg : GoodCut p.buf n) :
    ∃ y₁ y₂, y = y₁ ++ y₂ ∧ p.buf.take n = padNulls y₁ 0 ∧ unpaddedNullLength (p.buf.take n) = y₁.length ∧
      p'.buf.take (eolPos e p.buf n) = toEol e (p.buf.take n) ∧
      unpaddedNullLength (p'.buf.take (eolPos e p.buf n)) = (toEol e y₁).length ∧
      p'.offset + (toEol e y₁).length = eolPos e inp (p.offset + y₁.length) ∧
      fillNulls (p'.buf.take (eolPos e p.buf n)) = toEol e (fillNulls (p.buf.take n)) := by
  have hne := stdEol_ne_nil he
  obtain ⟨y₁, y₂, e1, h1, h2, h3, h4, _, _⟩ := h.cut_facts hg
  have hhead : p'.buf.take (eolPos e p.buf n) = toEol e (p.buf.take n) := by rw [R.buf', take_toEol e hne]
  refine ⟨y₁, y₂, e1, h1, h3, hhead, ?_, ?_, ?_⟩
  · rw [hhead, h1, toEol_padNulls he, unpaddedNullLength_padNulls]
  · rw [R.off', h.offset, eolPos_add]
    have hd : inp.drop c.length = y₁ ++ y₂ := by rw [h.split, List.drop_left, e1]
    rw [hd, eolPos_eq_length e hne (y₁ ++ y₂) (by simp), List.take_left]
  · rw [hhead, h1, toEol_padNulls he, fillNulls_padNulls, fillNulls_padNulls, replNul_toEol e he]

end

end CM.Proofs.EolN
