import CM.Proofs.ParseWholeGrammarTok
/-
C05, inline half — the third chain, part 5: `parseRun`, `parseBody`.
-/
namespace CM.Proofs.InlH
open CM CM.Model CM.Model.Inl
open Std.Do

set_option mvcgen.warning false

section
variable {c : ICtx}

set_option maxHeartbeats 400000 in
@[spec high + 1]
theorem parseRun_specO :
    ⦃fun s => ⌜Om s 0 0⌝⦄ parseRun c ⦃⇓? _ s => ⌜Om s 0 0⌝⦄ := by
  mvcgen [parseRun, spanEnd, isLastSpan, alloc, pushStack, setIgnoreNextIndent, setUnparsedPos, -parseRun_spec,
    -parseRun_specS]
  inl_inv (fun s => Om s 0 0)
  all_goals inl_norm
  all_goals inl_subst
  all_goals first
    | assumption
    | exact fun h => h.elim
    | exact fun h => h
    | rfl
    | exact Om.congr ‹Om _ 0 0› rfl rfl rfl
    | skip
  case vc13 | vc23 | vc99 | vc109 =>
    subst_vars
    have h0 := (‹(0 : Int) ≤ _ ∧ _ < _ ∧ _›).1
    exact Om.pushDelim (by assumption) _ _ rfl rfl (spanLenI_pos h0 (by dsimp only; omega)) rfl
  case vc35 | vc40 | vc121 | vc126 => subst_vars; assumption
  case vc43 | vc129 => subst_vars; exact Om.addRoot (by assumption) _ rfl rfl
  case vc48 | vc49 | vc134 | vc135 =>
    subst_vars; exact Om.congr (Om.addRoot (by assumption) _ rfl rfl) rfl rfl rfl

/-- what `parseBody` imports unchanged is phrasing content (the block phase delivers `Indent` leaves only) -/
def UPhr (c : ICtx) : Prop :=
  ∀ t ∈ c.unparsed.toList, t.label.isBlock = false → t.label.kind ≠ 0 → t.label.kind ≠ IK.unparsed →
    phr t.label.kind = true

theorem UPhr.get {c : ICtx} (h : UPhr c) {i : Nat} (hi : i < c.unparsed.size)
    (hb : ¬ ((c.unparsed[i]!).label.isBlock || (c.unparsed[i]!).label.kind == 0) = true)
    (hu : ¬ ((c.unparsed[i]!).label.kind == IK.unparsed) = true) : phr (c.unparsed[i]!).label.kind = true := by
  simp only [Bool.or_eq_true, beq_iff_eq, not_or, Bool.not_eq_true] at hb hu
  refine h _ ?_ hb.1 hb.2 hu
  rw [getElem!_pos c.unparsed i hi]
  exact Array.mem_toList_iff.2 (Array.getElem_mem hi)

theorem Om.rebase0 {s : IState} (h : ∃ P0, Om s 0 P0) (hz : s.stack.size = 0) : Om s 0 0 := by
  obtain ⟨P0, h⟩ := h
  exact ⟨h.1, h.2.rebase h.1 (by rw [stN_length, hz])⟩

@[spec high + 1]
theorem parseBody_specO (hU : UPhr c) :
    ⦃fun s => ⌜Om s 0 0⌝⦄ parseBody c ⦃⇓? _ s => ⌜Om s 0 0⌝⦄ := by
  mvcgen [parseBody, setIgnoreNextIndent, setUnparsedPos, -parseBody_spec, -parseBody_specS, -processEmphasis_specO]
  inl_inv (fun s => Om s 0 0)
  all_goals inl_norm
  all_goals inl_subst
  all_goals first
    | assumption
    | exact fun h => h.elim
    | exact fun h => h
    | exact Om.congr ‹Om _ 0 0› rfl rfl rfl
    | exact ⟨0, ‹Om _ 0 0›⟩
    | exact fun h1 h2 => Om.rebase0 h1 h2
    | (have hk : (_ == IK.indent) = true := ‹_›
       rw [beq_iff_eq] at hk
       rw [hk]; rfl)
    | exact hU.get (by simpa using ‹¬(!decide (_ < c.unparsed.size)) = true›) ‹_› ‹_›

end
end CM.Proofs.InlH
