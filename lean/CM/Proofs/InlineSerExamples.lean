import CM.Proofs.InlineSerInlHtml
/-
Inline serialisation — non-vacuity: concrete instances of the hypotheses of `parseInlines_slines`, `inline_ser_doc`
and `flat_paragraph_correct` (kernel-evaluated), and the axioms of the main theorems.
-/
namespace CM.Proofs.InlSer.Examples
open CM CM.Gen CM.Model CM.Model.Inl CM.Proofs.EscText CM.Spec CM.Proofs.InlSer CM.Proofs.Leaf

def ext0 : Ext := { unescape := fun _ => [] }

/-- `a\*b ``c `d`` &#33;` hard break, `<http://x.y> e` soft break, `f` -/
def ls0 : List SLine :=
  [⟨[.byte 0x61, .esc 0x2A, .byte 0x62, .sp, .code 2 [0x63, SP, 0x60, 0x64], .sp, .ref (s "&#33;")], .hardSp⟩,
   ⟨[.auto (s "http://x.y"), .sp, .byte 0x65], .soft⟩,
   ⟨[.byte 0x66], .lastLF⟩]

example : String.fromUTF8! (srcOf ls0).toByteArray = "a\\*b ``c `d`` &#33;  \n<http://x.y> e\nf\n" := by decide +kernel

theorem ls0_ok : ∀ l ∈ ls0, SLineOK ext0 l := by
  intro l hl
  simp only [ls0, List.mem_cons, List.mem_nil_iff, or_false] at hl
  rcases hl with rfl | rfl | rfl
  · refine ⟨⟨by unfold inert; decide, by decide, by unfold inert; decide, ⟨⟨0x60, by decide +kernel, by decide⟩, ?_⟩⟩, ⟨0x61, by decide +kernel, by decide, by decide⟩⟩
    refine ⟨by decide, by decide, by decide +kernel, ⟨0x63, _, rfl, by decide⟩, by decide, by decide, ⟨SP, by decide +kernel, by decide, by decide⟩, ?_⟩
    refine ⟨⟨0x26, by decide +kernel, by decide⟩, by decide +kernel, by decide +kernel, by decide +kernel, trivial⟩
  · refine ⟨⟨by decide +kernel, ⟨0x65, by decide +kernel, by decide⟩, by unfold inert; decide, trivial⟩, ⟨0x3C, by decide +kernel, by decide, by decide⟩⟩
  · exact ⟨⟨by unfold inert; decide, trivial⟩, ⟨0x66, by decide +kernel, by decide, by decide⟩⟩

theorem ls0_last : ∀ k, (h : k < ls0.length) → ls0[k].ending.isLast = decide (k + 1 ≥ ls0.length) := by decide

/-- the hypotheses of `parseInlines_slines` / `inline_ser_render` hold of `ls0` -/
example (x : IExt) (hx : x.ext = ext0) : ∀ l ∈ ls0, SLineOK x.ext l := by rw [hx]; exact ls0_ok

/-- … and the block-phase hypotheses of `inline_ser_doc` -/
example : paraFirstOK (ls0[0]).text = true := by decide +kernel
example : (ls0[0]).text.head? ≠ some 0x5B := by decide +kernel
example : ∀ l ∈ ls0.tail, plainLine l.text = true ∧ paraContOK l.text = true := by decide +kernel

/-- `a*b`, code `c `d`, hard break, `e!` — an instance of `flat_paragraph_correct` -/
def ks0 : List Inl := [.word [0x61, 0x2A, 0x62], .code [0x63, SP, 0x60, 0x64], .hardbreak, .word [0x65, 0x21]]

theorem ks0_flat (ext : Ext) : FlatOK ext ks0 :=
  ⟨⟨by decide, by decide +kernel⟩, ⟨⟨by decide, by decide⟩, ⟨by decide, by decide +kernel⟩⟩⟩

example : ∀ k ∈ ks0, HtmlOK k := by
  intro k hk
  simp only [ks0, List.mem_cons, List.mem_nil_iff, or_false] at hk
  rcases hk with rfl | rfl | rfl | rfl <;> trivial

example : String.fromUTF8! ((serInls [] [LF] [] ks0).1 ++ [LF]).toByteArray = "a\\*b ``c `d``  \ne\\!\n" := by decide +kernel
example : String.fromUTF8! (denoteBlk { eol := [LF] } false (.para ks0)).toByteArray = "<p>a*b <code>c `d</code><br>\ne!</p>" := by
  decide +kernel

/-- the block-phase hypothesis of `flat_paragraph_correct` for `ks0` -/
example : ∀ l0 rest, toSL ks0 = l0 :: rest → paraFirstOK l0.text = true ∧ l0.text.head? ≠ some 0x5B ∧
    ∀ l ∈ rest, plainLine l.text = true ∧ paraContOK l.text = true := by
  intro l0 rest h
  have h2 : toSL ks0 = [⟨itemP (.word [0x61, 0x2A, 0x62]) ++ .sp :: itemP (.code [0x63, SP, 0x60, 0x64]), .hardSp⟩,
      ⟨itemP (.word [0x65, 0x21]), .lastLF⟩] := by
    simp [ks0, toSL]
  rw [h2] at h
  obtain ⟨rfl, rfl⟩ := List.cons.inj h
  refine ⟨by decide +kernel, by decide +kernel, ?_⟩
  intro l hl
  simp only [List.mem_singleton] at hl
  subst hl
  exact ⟨by decide +kernel, by decide +kernel⟩

end CM.Proofs.InlSer.Examples

section
open CM.Proofs.InlSer
#print axioms Seg.trans
#print axioms parseRun_steps
#print axioms parseBody_runs
#print axioms pieces_seg
#print axioms parseInlines_lines
#print axioms ref_seg
#print axioms auto_seg
#print axioms parseCodeSpan_run
#print axioms collectCodeSpan_run
#print axioms code_seg
#print axioms parseInlines_slines
#print axioms render_paragraph_slines
#print axioms inline_ser_render
#print axioms inline_ser_doc
#print axioms toSL_spec
#print axioms flat_paragraph_correct
end
