import CM.Proofs.EolRd6
/-
C14 (a), the paragraph hook under the position map — the label limit.

`parseLinkLabel` gives up when it has looked at `maxChars` bytes, and a CR LF pair counts as two bytes.  This is the only
place where the block phase can tell CR LF from LF.  `parseLinkLabelW w`: the label scanner that counts every line feed as
`1 + w` bytes — on the LF text it computes exactly what `parseLinkLabel` computes on the text with CR LF (`w = 1`; shown in
`EolW2`/`EolW3`).  This file: the definitions, and: when the `W` scanner accepts a label, the plain scanner accepts the same
label and ends at the same reader (`labelW_eq`); for `w = 0` they are the same function.
-/
namespace CM.Proofs.ERd
open CM CM.Model CM.Gen CM.Proofs CM.Proofs.RDS CM.Proofs.BSp

/-- The extra count for stepping off the byte `c0`. -/
def wAdd (w : Nat) (c0 : UInt8) : Nat := if c0 == LF then w else 0

theorem wAdd_zero (c0 : UInt8) : wAdd 0 c0 = 0 := by unfold wAdd; split <;> rfl

def labelSkipW (w : Nat) (src : Bytes) : Nat → Rd → Nat → Option (Rd × Nat)
  | 0, _, _ => none
  | fuel + 1, r, chars =>
    let c0 := (r.current src).1
    let (ok, r) := r.next src
    if !ok then none else
    let chars := chars + 1 + wAdd w c0
    let (c, r) := r.current src
    if chars ≥ maxChars || c == 0x5B || c == 0x5D then none
    else if !isSpaceTabOrLineEnding c then some (r, chars)
    else labelSkipW w src fuel r chars

/-- The end of every branch of `labelBodyW`: one more `next` (off the byte `c0`, with the count `cnt` reached before it);
    on the LF of a CR LF pair the limit is tested once more. -/
def labelBodyW (w : Nat) (src : Bytes) : Nat → Rd → Nat → Int → Option (Rd × Int)
  | 0, _, _, _ => none
  | fuel + 1, r, chars, innerEnd =>
    let (c, r) := r.current src
    if !(chars < maxChars && c != 0x5B && c != 0x5D) then some (r, innerEnd) else
    if c == 0x5C then
      let innerEnd : Int := r.pos + 1
      let chars := chars + 1
      if chars ≥ maxChars then none else
      let (ok, r) := r.next src
      if !ok then none else
      let (c2, r) := r.current src
      let innerEnd : Int := if !isSpaceTabOrLineEnding c2 then r.pos + 1 else innerEnd
      let (ok, r) := r.next src
      if !ok then none else
      if wAdd w c2 > 0 && !(chars + 1 < maxChars) then none else
      labelBodyW w src fuel r (chars + 1 + wAdd w c2) innerEnd
    else
      let innerEnd : Int := if !isSpaceTabOrLineEnding c then r.pos + 1 else innerEnd
      let (ok, r) := r.next src
      if !ok then none else
      if wAdd w c > 0 && !(chars + 1 < maxChars) then none else
      labelBodyW w src fuel r (chars + 1 + wAdd w c) innerEnd

def parseLinkLabelW (w : Nat) (src : Bytes) (fuel : Nat) (r : Rd) : LinkLabel × Rd :=
  let (c, r) := r.current src
  if c != 0x5B then (noLabel, r) else
  let start := r.pos
  match labelSkipW w src fuel r 0 with
  | none => (noLabel, r)
  | some (r, chars) =>
    let innerStart := r.pos
    match labelBodyW w src fuel r chars (-1) with
    | none => (noLabel, r)
    | some (r, innerEnd) =>
      let (c, r) := r.current src
      if c != 0x5D then (noLabel, r) else
      let stop := r.pos + 1
      let (_, r) := r.next src
      (⟨⟨start, stop⟩, ⟨innerStart, innerEnd⟩⟩, r)

/-! ### For `w = 0` nothing changes -/

theorem labelSkipW_zero (src : Bytes) : ∀ (f : Nat) (r : Rd) (chars : Nat), labelSkipW 0 src f r chars = labelSkip src f r chars := by
  intro f
  induction f with
  | zero => intro r chars; rfl
  | succ f ih =>
    intro r chars
    rw [labelSkipW, labelSkip]
    simp only [wAdd_zero, Nat.add_zero, ih]

theorem labelBodyW_zero (src : Bytes) : ∀ (f : Nat) (r : Rd) (chars : Nat) (ie : Int),
    labelBodyW 0 src f r chars ie = labelBody src f r chars ie := by
  intro f
  induction f with
  | zero => intro r chars ie; rfl
  | succ f ih =>
    intro r chars ie
    rw [labelBodyW, labelBody]
    simp only [wAdd_zero, Nat.add_zero, ih, Nat.lt_irrefl, decide_false, Bool.false_and, Bool.false_eq_true, if_false]

theorem parseLinkLabelW_zero (src : Bytes) (f : Nat) (r : Rd) : parseLinkLabelW 0 src f r = parseLinkLabel src f r := by
  unfold parseLinkLabelW parseLinkLabel
  simp only [labelSkipW_zero, labelBodyW_zero]
  rfl

/-! ### An accepted `W` label is the plain label -/

theorem labelSkipW_plain (w : Nat) (src : Bytes) : ∀ (f : Nat) (r : Rd) (n m : Nat) (r1 : Rd) (n1 : Nat), m ≤ n →
    labelSkipW w src f r n = some (r1, n1) → ∃ m1, labelSkip src f r m = some (r1, m1) ∧ m1 ≤ n1 := by
  intro f
  induction f with
  | zero => intro r n m r1 n1 _ h; simp [labelSkipW] at h
  | succ f ih =>
    intro r n m r1 n1 hmn h
    rw [labelSkipW] at h
    rw [labelSkip]
    generalize r.next src = nx at h ⊢
    obtain ⟨ok, r2⟩ := nx
    simp only [] at h ⊢
    cases ok with
    | false => simp at h
    | true =>
      simp only [Bool.not_true, Bool.false_eq_true, if_false] at h ⊢
      generalize r2.current src = cu at h ⊢
      obtain ⟨c, r3⟩ := cu
      simp only [] at h ⊢
      by_cases hb : (decide (n + 1 + wAdd w (r.current src).1 ≥ maxChars) || c == 0x5B || c == 0x5D) = true
      · rw [if_pos hb] at h; cases h
      · rw [if_neg hb] at h
        simp only [Bool.or_eq_true, decide_eq_true_eq, not_or] at hb
        have hb' : ¬ (decide (m + 1 ≥ maxChars) || c == 0x5B || c == 0x5D) = true := by
          simp only [Bool.or_eq_true, decide_eq_true_eq, not_or]
          exact ⟨⟨by omega, hb.1.2⟩, hb.2⟩
        rw [if_neg hb']
        by_cases hw : (!isSpaceTabOrLineEnding c) = true
        · rw [if_pos hw] at h ⊢
          simp only [Option.some.injEq, Prod.mk.injEq] at h
          obtain ⟨rfl, rfl⟩ := h
          exact ⟨m + 1, rfl, by omega⟩
        · rw [if_neg hw] at h ⊢
          exact ih r3 _ (m + 1) r1 n1 (by omega) h

theorem labelBodyW_plain (w : Nat) (src : Bytes) :
    ∀ (f : Nat) (r : Rd) (n m : Nat) (ie : Int) (r3 : Rd) (ie3 : Int), m ≤ n →
    labelBodyW w src f r n ie = some (r3, ie3) → (r3.current src).1 = 0x5D → labelBody src f r m ie = some (r3, ie3) := by
  intro f
  induction f with
  | zero => intro r n m ie r3 ie3 _ h; simp [labelBodyW] at h
  | succ f ih =>
    intro r n m ie r3 ie3 hmn h hend
    rw [labelBodyW] at h
    rw [labelBody]
    have hc1 := current_idem src r
    generalize r.current src = cu at h hc1 ⊢
    obtain ⟨c, r1⟩ := cu
    simp only [] at h hc1 ⊢
    by_cases h0 : (!(decide (n < maxChars) && c != 0x5B && c != 0x5D)) = true
    · rw [if_pos h0] at h
      simp only [Option.some.injEq, Prod.mk.injEq] at h
      obtain ⟨rfl, rfl⟩ := h
      have hc5d : c = 0x5D := by rw [hc1] at hend; exact hend
      have : (!(decide (m < maxChars) && c != 0x5B && c != 0x5D)) = true := by rw [hc5d]; simp
      rw [if_pos this]
    · rw [if_neg h0] at h
      have h0' : (decide (n < maxChars) && c != 0x5B && c != 0x5D) = true := by simpa using h0
      simp only [Bool.and_eq_true, decide_eq_true_eq] at h0'
      have hmm : (decide (m < maxChars) && c != 0x5B && c != 0x5D) = true := by
        simp only [Bool.and_eq_true, decide_eq_true_eq]
        exact ⟨⟨by omega, h0'.1.2⟩, h0'.2⟩
      have h0m : ¬ (!(decide (m < maxChars) && c != 0x5B && c != 0x5D)) = true := by rw [hmm]; decide
      rw [if_neg h0m]
      by_cases hbs : (c == 0x5C) = true
      · rw [if_pos hbs] at h ⊢
        by_cases hl : n + 1 ≥ maxChars
        · rw [if_pos hl] at h; cases h
        · rw [if_neg hl] at h
          rw [if_neg (by omega : ¬ m + 1 ≥ maxChars)]
          generalize r1.next src = nx at h ⊢
          obtain ⟨ok, r2⟩ := nx
          simp only [] at h ⊢
          cases ok with
          | false => simp at h
          | true =>
            simp only [Bool.not_true, Bool.false_eq_true, if_false] at h ⊢
            generalize r2.current src = cu2 at h ⊢
            obtain ⟨c2, r4⟩ := cu2
            simp only [] at h ⊢
            generalize r4.next src = nx2 at h ⊢
            obtain ⟨ok2, r5⟩ := nx2
            simp only [] at h ⊢
            cases ok2 with
            | false => simp at h
            | true =>
              simp only [Bool.not_true, Bool.false_eq_true, if_false] at h ⊢
              split at h
              · cases h
              · exact ih r5 _ (m + 1 + 1) _ r3 ie3 (by omega) h hend
      · rw [if_neg hbs] at h ⊢
        generalize r1.next src = nx at h ⊢
        obtain ⟨ok, r2⟩ := nx
        simp only [] at h ⊢
        cases ok with
        | false => simp at h
        | true =>
          simp only [Bool.not_true, Bool.false_eq_true, if_false] at h ⊢
          split at h
          · cases h
          · exact ih r2 _ (m + 1) _ r3 ie3 (by omega) h hend

/-- **When the `W` scanner accepts a label, the plain scanner accepts the same label and ends at the same reader.** -/
theorem labelW_eq (w : Nat) (src : Bytes) (f : Nat) (r : Rd) (hv : (parseLinkLabelW w src f r).1.span.isValid = true) :
    parseLinkLabel src f r = parseLinkLabelW w src f r := by
  revert hv
  unfold parseLinkLabelW parseLinkLabel
  generalize r.current src = cu
  obtain ⟨c, r0⟩ := cu
  simp only []
  split
  · intro _; rfl
  · cases hs : labelSkipW w src f r0 0 with
    | none => intro hv; exact absurd hv (by show ¬ (noLabel.span.isValid = true); decide)
    | some pr =>
      obtain ⟨r1, n1⟩ := pr
      obtain ⟨m1, hm1, hle⟩ := labelSkipW_plain w src f r0 0 0 r1 n1 (Nat.le_refl _) hs
      rw [hm1]
      simp only []
      cases hb : labelBodyW w src f r1 n1 (-1) with
      | none => intro hv; exact absurd hv (by show ¬ (noLabel.span.isValid = true); decide)
      | some pr2 =>
        obtain ⟨r3, ie3⟩ := pr2
        simp only []
        have hc3 := current_idem src r3
        generalize hcu3 : r3.current src = cu3 at hc3
        obtain ⟨c3, r4⟩ := cu3
        simp only [] at hc3 ⊢
        by_cases h5 : (c3 != 0x5D) = true
        · rw [if_pos h5]; intro hv; exact absurd hv (by show ¬ (noLabel.span.isValid = true); decide)
        · rw [if_neg h5]
          intro _
          have hc5d : (r3.current src).1 = 0x5D := by rw [hcu3]; simpa using h5
          rw [labelBodyW_plain w src f r1 n1 m1 (-1) r3 ie3 hle hb hc5d]
          simp only [hcu3]
          rw [if_neg h5]

end CM.Proofs.ERd
