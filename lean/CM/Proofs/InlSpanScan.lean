import CM.Proofs.InlSpanRewrite
import CM.Proofs.InlCharRef
/-
C02, inline half — the scanner facts of `TokScan` that are about pure list functions: `parseCharacterEscape`,
`parseAutolink` (the others, about the byte reader, stay hypotheses).
-/
namespace CM.Proofs.InlH
open CM CM.Model CM.Model.Inl CM.Gen

theorem charEsc_bound (ext : Ext) (l : Bytes) : parseCharacterEscape ext l ≤ (l.length : Int) := by
  cases h : parseCharacterEscape ext l with
  | ofNat e =>
    have := (parseCharacterEscape_shape ext l e h).1
    show ((e : Nat) : Int) ≤ _
    omega
  | negSucc n =>
    have : Int.negSucc n < 0 := Int.negSucc_lt_zero n
    omega

theorem autolinkURI_bound : ∀ (l : Bytes) (k : Nat), 0 ≤ autolinkURI l k →
    (k : Int) + 1 ≤ autolinkURI l k ∧ autolinkURI l k ≤ (k : Int) + l.length := by
  intro l
  induction l with
  | nil => intro k h; simp [autolinkURI] at h
  | cons c rest ih =>
    intro k h
    rw [autolinkURI] at h ⊢
    split
    · simp only [List.length_cons]; omega
    · rename_i h1
      rw [if_neg h1] at h
      split
      · rename_i h2; rw [if_pos h2] at h; omega
      · rename_i h2
        rw [if_neg h2] at h
        have := ih (k + 1) h
        simp only [List.length_cons]
        omega

theorem autolink_bound (l : Bytes) (h : 0 ≤ parseAutolink l) : 2 ≤ parseAutolink l ∧ parseAutolink l ≤ (l.length : Int) := by
  unfold parseAutolink at h ⊢
  split
  · rename_i h1; rw [if_pos h1] at h; omega
  · rename_i h1
    rw [if_neg h1] at h
    split
    · simp at h
    · rename_i c0 t1S
      simp only [] at h ⊢
      split
      · rename_i h2; rw [if_pos h2] at h; omega
      · rename_i h2
        rw [if_neg h2] at h
        split
        · rename_i h3
          simp only [Bool.and_eq_true, decide_eq_true_eq] at h3
          obtain ⟨⟨e1, e2⟩, -⟩ := h3
          simp only [List.length_cons] at e2 ⊢
          omega
        · rename_i h3
          rw [if_neg h3] at h
          split
          · simp at h
          · rename_i c1 t2
            simp only [] at h ⊢
            split
            · rename_i h4; rw [if_pos h4] at h; omega
            · rename_i h4
              rw [if_neg h4] at h
              split
              · rename_i h5; rw [if_pos h5] at h; omega
              · rename_i h5
                rw [if_neg h5] at h
                split
                · rename_i h6; simp only [h6] at h; omega
                · rename_i c rest h6
                  simp only [h6] at h
                  split
                  · rename_i h7; rw [if_pos h7] at h; omega
                  · rename_i h7
                    rw [if_neg h7] at h
                    have hb := autolinkURI_bound rest _ h
                    have hl : (c0 :: c1 :: t2).length = (2 + (t2.takeWhile isSchemeChar).length) + (c :: rest).length := by
                      have := congrArg List.length h6
                      rw [List.length_drop] at this
                      simp only [List.length_cons] at this ⊢
                      omega
                    rw [hl]
                    simp only [List.length_cons] at hb ⊢
                    omega

/-- The part of `TokScan` that is about the byte reader (`parseHTMLTag`, `parseCodeSpan` / `collectCodeSpan`) is
    all that has to be assumed. -/
theorem TokScan.mk' (c : ICtx) (hi : Int)
    (html : ∀ (u : Nat) (pos : Int) (span : SpanI) (r' : Rd),
      0 ≤ pos → pos < c.srcA.size → c.srcA[pos.toNat]! = 0x3C →
      parseHTMLTag c.src c.fl (newReader (c.unparsedL.drop u) pos.toNat) = (span, r') → span.isValid = true →
      span.start = pos ∧ pos < span.stop ∧ span.stop ≤ hi ∧
      WFL span.start span.stop
        (collectTextNodes c.x.ext c.src span.stop.toNat IK.rawHTML false c.fl
          (newReader (c.unparsedL.drop u) span.start.toNat) span.start.toNat []))
    (code : ∀ (s s' : IState) (pos : Int) (cs : CodeSpan),
      0 ≤ pos → pos < c.srcA.size → c.srcA[pos.toNat]! = 0x60 →
      (parseCodeSpan c pos).run s = .ok (cs, s') → s.unparsedPos < c.unparsed.size → pos < spanEndOf c s →
      (cs.span.isValid = true →
        cs.span.start = pos ∧ pos < cs.span.stop ∧ cs.span.stop ≤ hi ∧
        ∀ t t' : IState, t.unparsedPos = s.unparsedPos → (collectCodeSpan c cs).run t = .ok ((), t') →
          ∃ n : INode, n.kids = #[] ∧ n.start = cs.span.start ∧ n.stop = cs.span.stop ∧ WFL n.start n.stop n.sub ∧
            t'.nodes = addRootA t.nodes n ∧ t'.stack = t.stack ∧ t'.parentMap.size = t.parentMap.size + 1 ∧
            (∀ i, i < t.parentMap.size → t'.parentMap[i]? = t.parentMap[i]?) ∧ PosOK c t' cs.span.stop) ∧
      (cs.span.isValid = false → pos ≤ cs.content.start)) : TokScan c hi :=
  ⟨fun l => charEsc_bound c.x.ext l, fun l h => autolink_bound l h, html, code⟩

end CM.Proofs.InlH
