import CM.Proofs.RefDefCoverDef
import CM.Proofs.RefDefSpansLine
import CM.Proofs.RefDefCoverTSetext
/-
C03, block half — `GoodT2` (the strong invariant of RefDefCoverDef): adaptation of RefDefSpansLine.lean.
Everything that does not mention `GoodT`/`NodeOK` is reused from `CM.Proofs.RDS`.
-/
namespace CM.Proofs.RDC
open CM CM.Model CM.Gen CM.Proofs.BSp CM.Proofs.BT CM.Proofs.BG CM.Proofs.RDS

-- reused from RDS: J

-- reused from RDS: J.of_same

/-! ### ruleMatch -/

structure RMSt2 (src : Bytes) (bd : Int) (ls : Nat) (kind : Nat) (ok : Bool) (p p' : LP) : Prop where
  gi : GI2 src bd ls p'
  keep : p'.state ≠ 4 → fr p' = fr p
  nok : p'.state ≠ 4 → ok = false → BT.cur p' = BT.cur p
  para : kind = BK.paragraph → ok = true → BT.cur p' = BT.cur p ∧ p.isRestBlank = false

theorem RMSt2.refl {src : Bytes} {bd : Int} {ls : Nat} {kind : Nat} {p : LP} (hg : GI2 src bd ls p) (hk : kind ≠ BK.paragraph)
    (ok : Bool) : RMSt2 src bd ls kind ok p p :=
  ⟨hg, fun _ => rfl, fun _ _ => rfl, fun h => absurd h hk⟩

theorem RMSt2.ofFr {src : Bytes} {bd : Int} {ls : Nat} {kind : Nat} {p p' : LP} (hg : GI2 src bd ls p) (hk : kind ≠ BK.paragraph)
    (e : fr p' = fr p) : RMSt2 src bd ls kind true p p' :=
  ⟨hg.of_fr e, fun _ => e, fun _ h => (by cases h), fun h => absurd h hk⟩

theorem RMSt2.term {src : Bytes} {bd : Int} {ls : Nat} {kind : Nat} {ok : Bool} {p p' : LP} (hg : GI2 src bd ls p')
    (hk : kind ≠ BK.paragraph) (hs : p'.state = 4) : RMSt2 src bd ls kind ok p p' :=
  ⟨hg, fun h => absurd hs h, fun h => absurd hs h, fun h => absurd h hk⟩

theorem ruleMatch_st2 {src : Bytes} {bd : Int} {ls : Nat} (x : PExt) (kind : Nat) (p : LP) (h : BT.Inv p) (hs : p.state = 3)
    (hg : GI2 src bd ls p) (hck : p.containerKind = kind) (ok : Bool) (p' : LP)
    (hrm : ruleMatch x kind p = some (ok, p')) : RMSt2 src bd ls kind ok p p' := by
  unfold ruleMatch at hrm
  split at hrm
  · -- document, list
    rename_i hk
    have hkp : kind ≠ BK.paragraph := by
      intro e; rw [e] at hk; revert hk; decide
    simp only [Option.some.injEq, Prod.mk.injEq] at hrm; obtain ⟨rfl, rfl⟩ := hrm
    exact RMSt2.refl hg hkp _
  split at hrm
  · -- list item
    rename_i hk
    have hkp : kind ≠ BK.paragraph := by
      intro e; rw [e] at hk; revert hk; decide
    split at hrm
    · split at hrm
      · simp only [Option.some.injEq, Prod.mk.injEq] at hrm; obtain ⟨rfl, rfl⟩ := hrm
        exact RMSt2.refl hg hkp _
      · simp only [Option.some.injEq, Prod.mk.injEq] at hrm; obtain ⟨rfl, rfl⟩ := hrm
        exact RMSt2.ofFr hg hkp (fr_consumeIndentN _ _)
    · split at hrm
      · split at hrm
        · simp only [Option.some.injEq, Prod.mk.injEq] at hrm; obtain ⟨rfl, rfl⟩ := hrm
          exact RMSt2.ofFr hg hkp (fr_consumeIndentN _ _)
        · simp only [Option.some.injEq, Prod.mk.injEq] at hrm; obtain ⟨rfl, rfl⟩ := hrm
          exact RMSt2.refl hg hkp _
      · simp only [Option.some.injEq, Prod.mk.injEq] at hrm; obtain ⟨rfl, rfl⟩ := hrm
        exact RMSt2.refl hg hkp _
  split at hrm
  · -- block quote
    rename_i hk
    have hkp : kind ≠ BK.paragraph := by
      intro e; rw [e] at hk; revert hk; decide
    simp only [] at hrm
    split at hrm
    · simp only [Option.some.injEq, Prod.mk.injEq] at hrm; obtain ⟨rfl, rfl⟩ := hrm
      exact RMSt2.refl hg hkp _
    split at hrm
    · simp only [Option.some.injEq, Prod.mk.injEq] at hrm; obtain ⟨rfl, rfl⟩ := hrm
      exact RMSt2.refl hg hkp _
    simp only [Option.some.injEq, Prod.mk.injEq] at hrm; obtain ⟨rfl, rfl⟩ := hrm
    apply RMSt2.ofFr hg hkp
    split
    · rw [fr_consumeIndentN, fr_advance, fr_consumeIndentN]
    · rw [fr_advance, fr_consumeIndentN]
  split at hrm
  · -- fenced code
    rename_i hk
    have hkp : kind ≠ BK.paragraph := by
      intro e; rw [e] at hk; revert hk; decide
    simp only [] at hrm
    split at hrm
    · simp only [Option.some.injEq, Prod.mk.injEq] at hrm; obtain ⟨rfl, rfl⟩ := hrm
      have cl := consumeLine_post p h.cur
      exact RMSt2.term (hg.of_fr (fr_consumeLine p)) hkp (cl.st3 hs)
    · simp only [Option.some.injEq, Prod.mk.injEq] at hrm; obtain ⟨rfl, rfl⟩ := hrm
      apply RMSt2.ofFr hg hkp
      split
      · exact fr_consumeIndentN _ _
      · exact fr_consumeIndentN _ _
  split at hrm
  · -- indented code
    rename_i hk
    have hkp : kind ≠ BK.paragraph := by
      intro e; rw [e] at hk; revert hk; decide
    simp only [] at hrm
    split at hrm
    · split at hrm
      · simp only [Option.some.injEq, Prod.mk.injEq] at hrm; obtain ⟨rfl, rfl⟩ := hrm
        exact RMSt2.refl hg hkp _
      · simp only [Option.some.injEq, Prod.mk.injEq] at hrm; obtain ⟨rfl, rfl⟩ := hrm
        exact RMSt2.ofFr hg hkp (fr_consumeIndentN _ _)
    · simp only [Option.some.injEq, Prod.mk.injEq] at hrm; obtain ⟨rfl, rfl⟩ := hrm
      exact RMSt2.ofFr hg hkp (fr_consumeIndentN _ _)
  split at hrm
  · -- HTML block
    rename_i hk
    have hke : kind = BK.htmlBlock := by simpa using hk
    have hkp : kind ≠ BK.paragraph := by
      intro e; rw [e] at hk; revert hk; decide
    split at hrm
    · split at hrm
      · simp only [Option.some.injEq, Prod.mk.injEq] at hrm; obtain ⟨rfl, rfl⟩ := hrm
        exact RMSt2.refl hg hkp _
      · simp only [Option.some.injEq, Prod.mk.injEq] at hrm; obtain ⟨rfl, rfl⟩ := hrm
        have co := collectInline_post x p IK.rawHTML p.bytesAfterIndent.length h (by omega) (by
          rw [ciSkip_bai p h.cur]; exact Nat.le_refl _)
        have cg := collectInline_GI2 x p IK.rawHTML p.bytesAfterIndent.length
          (NotPara.of_kind (by rw [hck]; exact hkp)) hg
        generalize p.collectInline x IK.rawHTML p.bytesAfterIndent.length = p4 at co cg
        have cl := consumeLine_post p4 co.inv.cur
        exact RMSt2.term (cg.of_fr (fr_consumeLine p4)) hkp (cl.st3 (co.st3 hs))
    · simp only [Option.some.injEq, Prod.mk.injEq] at hrm; obtain ⟨rfl, rfl⟩ := hrm
      exact RMSt2.refl hg hkp _
  split at hrm
  · simp only [Option.some.injEq, Prod.mk.injEq] at hrm; obtain ⟨rfl, rfl⟩ := hrm
    refine ⟨hg, fun _ => rfl, fun _ _ => rfl, fun _ hok => ⟨rfl, ?_⟩⟩
    simpa using hok
  · cases hrm

/-! ### descendLoop -/

theorem descendLoop_st2 {src : Bytes} {bd : Int} {ls : Nat} (x : PExt) : ∀ (fuel : Nat) (p : LP) (parent : Nat),
    BT.Inv { p with depth := parent } → GI2 src bd ls p → J { p with depth := parent } →
    GI2 src bd ls (descendLoop x fuel p parent).2 ∧
      ((descendLoop x fuel p parent).2.state ≠ 4 → J (descendLoop x fuel p parent).2) := by
  intro fuel
  induction fuel with
  | zero => intro p parent _ hg hj; exact ⟨⟨hg.source, hg.lineStart, hg.line, hg.good⟩, fun _ => hj⟩
  | succ fuel ih =>
    intro p parent h hg hj
    have base : GI2 src bd ls ({ p with depth := parent } : LP) := ⟨hg.source, hg.lineStart, hg.line, hg.good⟩
    unfold descendLoop
    split
    · exact ⟨base, fun _ => hj⟩
    rename_i c hc
    split
    · exact ⟨base, fun _ => hj⟩
    simp only []
    have h1 : BT.Inv { p with depth := parent + 1 } :=
      ⟨h.panic, ⟨h.cur.hi, h.cur.htab⟩, ⟨h.tree.root, by show (spineGet p.root (parent + 1)).isSome; rw [hc]; rfl⟩⟩
    split
    · exact ⟨base, fun _ => hj⟩
    · rename_i ok p2 hrm
      have hck : ({ p with depth := parent + 1, state := stateDescending } : LP).containerKind = c.kind := by
        show PB.kind ((spineGet p.root (parent + 1)).getD p.root) = c.kind
        rw [hc]; rfl
      have g1 : GI2 src bd ls ({ p with depth := parent + 1, state := stateDescending } : LP) :=
        ⟨hg.source, hg.lineStart, hg.line, hg.good⟩
      have rm := ruleMatch_post x c.kind _ (h1.setState stateDescending) rfl ok p2 hrm
      have rs := ruleMatch_st2 x c.kind _ (h1.setState stateDescending) rfl g1 hck ok p2 hrm
      have d2 : p2.depth = parent + 1 := rm.depth
      split
      · rename_i hs4
        have hs4' : p2.state = 4 := by simpa [stateDescendTerminated] using hs4
        have cg := closeContainer_GI2 x p2 (↑p2.lineStart + ↑p2.i) rs.gi
        refine ⟨⟨cg.source, cg.lineStart, cg.line, cg.good⟩, fun hne => ?_⟩
        exfalso; apply hne
        have cc := closeContainer_post x p2 (↑p2.lineStart + ↑p2.i) rm.inv.tree
        show (p2.closeContainer x (↑p2.lineStart + ↑p2.i)).state = 4
        rw [cc.state]; exact hs4'
      · rename_i hs4
        have hs4' : p2.state ≠ 4 := by simpa [stateDescendTerminated] using hs4
        have hfr := rs.keep hs4'
        split
        · rename_i hok
          have hok' : ok = false := by simpa using hok
          refine ⟨⟨rs.gi.source, rs.gi.lineStart, rs.gi.line, rs.gi.good⟩, fun _ => ?_⟩
          have hc2 := rs.nok hs4' hok'
          unfold J at hj ⊢
          have e1 : ({ p2 with depth := parent } : LP).containerKind = ({ p with depth := parent } : LP).containerKind := by
            show PB.kind ((spineGet p2.root parent).getD p2.root) = PB.kind ((spineGet p.root parent).getD p.root)
            rw [fr_root hfr]
          have e2 : ({ p2 with depth := parent } : LP).isRestBlank = ({ p with depth := parent } : LP).isRestBlank :=
            isRestBlank_of_cur hc2
          rw [e1, e2]; exact hj
        · rename_i hok
          have hok' : ok = true := by simpa using hok
          have hinv2 : BT.Inv { p2 with depth := parent + 1 } := rm.inv.setDepth (parent + 1) (by omega)
          apply ih p2 (parent + 1) hinv2 rs.gi
          intro hk
          have hk' : c.kind = BK.paragraph := by
            have : ({ p2 with depth := parent + 1 } : LP).containerKind = c.kind := by
              show PB.kind ((spineGet p2.root (parent + 1)).getD p2.root) = c.kind
              rw [fr_root hfr]
              show PB.kind ((spineGet p.root (parent + 1)).getD p.root) = c.kind
              rw [hc]; rfl
            rw [← this]; exact hk
          obtain ⟨hc2, hnb⟩ := rs.para hk' hok'
          have e2 : ({ p2 with depth := parent + 1 } : LP).isRestBlank
              = ({ p with depth := parent + 1, state := stateDescending } : LP).isRestBlank := isRestBlank_of_cur hc2
          rw [e2]; exact hnb

end CM.Proofs.RDC
