import CM.Proofs.ParseWholeGrammarStack2
/-
C05, inline half — the delimiter-stack discipline under the `wrap` that makes a link / image (pure part), and the
combined invariant `Om`.
-/
namespace CM.Proofs.InlH
open CM CM.Model CM.Model.Inl CM.Spec

theorem mvL_all {ks : List Nat} {si ei : Nat} (h : ks.length ≤ ei) : mvL ks si ei = ks.drop si := by
  unfold mvL
  exact List.take_of_length_le (by rw [List.length_drop]; omega)

/-- **`wrap` of everything behind the opener `odi`** (a new link / image node `a.size`): the entries up to the opener stay
    under the root, the later ones are now under the new node. -/
theorem SOK.wrapLink {a : Array INode} {pm pm' : Array (Option Nat)} {N : List Nat} (h : SOK a pm N 0 0)
    (hA : AOK a) {odi o si ei : Nat} (nd : INode) (ho : N[odi]? = some o)
    (hsi : 1 ≤ si) (hso : (a[0]!).kids.toList[si - 1]? = some o) (hse : si ≤ ei)
    (hei : (a[0]!).kids.toList.length ≤ ei) (hk : isLinkKind nd.kind)
    (hpm : WrapPM a pm pm' 0 si ei) :
    SOK (wrapArena a nd 0 si ei) pm' N (odi + 1) a.size := by
  have hs := wrapArena_ksame a nd 0 si ei
  have hnd : (a[0]!).kids.toList.Nodup := (hA.get! hA.pos).2.1
  have hv := (hA.get! hA.pos).1
  have hol := getElem?_lt ho
  have hN1 := list_split_at ho
  have hup : N.Sublist (a[0]!).kids.toList := by have := h.upper; rwa [List.drop_zero] at this
  rw [hN1] at hup
  obtain ⟨hX, hY⟩ := sublist_wrap_none hnd hup hsi hso
  have htake : N.take (odi + 1) = N.take odi ++ [o] := by rw [List.take_add_one, ho]; rfl
  have hmvl : (wrapMoved a 0 si ei).toList = (a[0]!).kids.toList.drop si := by
    unfold wrapMoved; rw [extract_toList, mvL_all hei]
  have hksNew : ((wrapArena a nd 0 si ei)[a.size]!).kids.toList = (a[0]!).kids.toList.drop si := by
    rw [wrapArena_new a nd 0 si ei hA.pos]; exact hmvl
  have hks0 : ((wrapArena a nd 0 si ei)[0]!).kids.toList = newPL (a[0]!).kids.toList si ei a.size := by
    rw [wrapArena_P a nd 0 si ei hA.pos]
    show (wrapLeft a 0 si ei).toList = _
    unfold wrapLeft; rw [wrapP_toList]
  have hlownm : ∀ y ∈ N.take (odi + 1), y ∉ (wrapMoved a 0 si ei).toList := by
    intro y hy
    rw [hmvl, ← mvL_all hei]
    exact not_mem_mvL hnd hse (Or.inl (hX.subset (by rw [← htake]; exact hy)))
  have hupmem : ∀ y ∈ N.drop (odi + 1), y ∈ (wrapMoved a 0 si ei).toList := by
    intro y hy; rw [hmvl]; exact hY.subset hy
  exact {
    pmsz := by rw [hpm.size, wrapArena_size]
    stk := fun y hy => by
      have := h.stk y hy
      exact ⟨Nat.lt_of_lt_of_le this.1 hs.1, by rw [hs.2 y this.1]; exact this.2⟩
    p0 := by rw [wrapArena_size]; omega
    p0k := by
      right
      unfold kindOf
      rw [wrapArena_new a nd 0 si ei hA.pos]
      exact hk
    bz := fun e => by have := hA.pos; omega
    ble := by omega
    lower := by
      rw [hks0, htake]
      unfold newPL
      rw [List.append_assoc]
      exact hX.trans (List.sublist_append_left _ _)
    lowerP := by
      intro y hy
      have hyN : y ∈ N := (List.take_sublist _ _).subset hy
      rw [hpm.other y (h.stk y hyN).1 (hlownm y hy)]
      exact h.upperP y (by rw [List.drop_zero]; exact hyN)
    upper := by rw [hksNew]; exact hY
    upperP := by
      intro y hy
      have hyN : y ∈ N := (List.drop_sublist _ _).subset hy
      exact hpm.moved y (hupmem y hy) (h.stk y hyN).1
    disj := by
      intro _ y hy hm
      rw [hksNew, ← hmvl] at hm
      exact hlownm y hy hm }

/-! ### the combined invariant -/

/-- The invariant of the inline phase for the child rules: the arena part and the stack discipline. -/
def Om (s : IState) (b P0 : Nat) : Prop := AOK s.nodes ∧ SOK s.nodes s.parentMap (stN s.stack) b P0

/-- `Om` on the components. -/
def OmA (a : Array INode) (pm : Array (Option Nat)) (st : Array DelimE) (b P0 : Nat) : Prop :=
  AOK a ∧ SOK a pm (stN st) b P0

end CM.Proofs.InlH
