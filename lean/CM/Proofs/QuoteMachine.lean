import CM.Proofs.QuoteArith
import CM.Proofs.StreamSim
import CM.Proofs.Padding
/-
C09 (block-quote half), step (4): the stream machine on an in-memory input without NUL bytes, in closed form.

`DSt D c i bs p`: the parser state `p` of the in-memory run on `D` after `c` bytes have been cut off as root blocks:
the buffer is `D[c:]`, the parse position is `i`, the pending blocks are `bs`; the error is `io.EOF`, the reader is
empty, nothing has panicked. (`lineno` is not tracked: nothing looks at it in the in-memory run.)
-/
namespace CM.Proofs.Quote
open CM CM.Model CM.Gen

structure DSt (D : Bytes) (c i : Nat) (bs : List PB) (p : BP) : Prop where
  buf : p.buf = D.drop c
  offset : p.offset = c
  ieq : p.i = i
  err : p.err = some .eof
  rdd : p.rd.data = []
  rds : p.rd.sched = []
  blocks : p.blocks = bs
  panic : p.panic = none
  ile : c + i ≤ D.length

namespace DSt
variable {D : Bytes} {c i : Nat} {bs : List PB} {p : BP}

theorem ile' (h : DSt D c i bs p) : p.i ≤ p.buf.length := by
  rw [h.ieq, h.buf, List.length_drop]; have := h.ile; omega

/-- `readline`: the position moves to the end of the next line. -/
theorem readline_eq (h : DSt D c i bs p) :
    Model.readline (p.rd.data.length + p.rd.sched.length + 2) p =
      (decide (0 < lineLen (D.drop (c + i))), { p with i := i + lineLen (D.drop (c + i)) }) ∧
    DSt D c (i + lineLen (D.drop (c + i))) bs { p with i := i + lineLen (D.drop (c + i)) } := by
  have e : p.buf.drop p.i = D.drop (c + i) := by rw [h.buf, h.ieq, List.drop_drop]
  constructor
  · rw [h.rdd, h.rds]
    have := CM.Model.readline_mem 1 p (by rw [h.err]; rfl) h.ile'
    rw [e, h.ieq] at this
    exact this
  · refine ⟨h.buf, h.offset, rfl, h.err, h.rdd, h.rds, h.blocks, h.panic, ?_⟩
    have := lineLen_le (D.drop (c + i))
    rw [List.length_drop] at this
    have := h.ile
    omega

/-- The source handed to the line parser. -/
theorem source (h : DSt D c i bs p) : p.buf.take p.i = (D.drop c).take i := by rw [h.buf, h.ieq]

end DSt

theorem fillNulls_noNul {b : Bytes} (h : ∀ c ∈ b, c ≠ 0) : fillNulls b = b := by
  have := fillNulls_padNulls b
  rw [padNulls_eq_self h, replNul_eq_self h] at this
  exact this

theorem unpaddedNullLength_noNul {b : Bytes} (h : ∀ c ∈ b, c ≠ 0) : unpaddedNullLength b = b.length := by
  have := unpaddedNullLength_padNulls b
  rw [padNulls_eq_self h] at this
  exact this

/-- `makeRoot` cuts off the closed first block. -/
theorem makeRoot_dst {D : Bytes} {c i : Nat} {bs : List PB} {p : BP} (h : DSt D c i bs p) (hn0 : ∀ b ∈ D, b ≠ 0)
    (k : PB) (rest : List PB) (hk : k.isOpen = false) (hn : k.label.stop.toNat ≤ i) :
    ∃ r p', makeRoot p (k :: rest) = some (r, p') ∧ r.block = k ∧ r.startOffset = c ∧
      r.source = (D.drop c).take k.label.stop.toNat ∧ r.endOffset = c + k.label.stop.toNat ∧
      DSt D (c + k.label.stop.toNat) (i - k.label.stop.toNat) (offsetPBs (-(k.label.stop.toNat : Int)) rest) p' := by
  have hnn : ∀ b ∈ p.buf.take k.label.stop.toNat, b ≠ 0 := by
    intro b hb
    apply hn0
    rw [h.buf] at hb
    exact List.mem_of_mem_drop (List.mem_of_mem_take hb)
  have hlen : (p.buf.take k.label.stop.toNat).length = k.label.stop.toNat := by
    rw [List.length_take, h.buf, List.length_drop]
    have := h.ile
    omega
  simp only [makeRoot, hk, Bool.false_eq_true, if_false]
  refine ⟨_, _, rfl, rfl, h.offset, ?_, ?_, ?_⟩
  · show fillNulls (p.buf.take k.label.stop.toNat) = _
    rw [fillNulls_noNul hnn, h.buf]
  · show p.offset + unpaddedNullLength (p.buf.take k.label.stop.toNat) = _
    rw [unpaddedNullLength_noNul hnn, hlen, h.offset]
  · refine ⟨?_, ?_, ?_, h.err, h.rdd, h.rds, rfl, ?_, ?_⟩
    · show p.buf.drop k.label.stop.toNat = _
      rw [h.buf, List.drop_drop]
    · show p.offset + unpaddedNullLength (p.buf.take k.label.stop.toNat) = _
      rw [unpaddedNullLength_noNul hnn, hlen, h.offset]
    · show p.i - k.label.stop.toNat = _
      rw [h.ieq]
    · show (if (decide (k.label.stop.toNat > p.i) || decide (k.label.stop.toNat > p.buf.length)) = true then _ else p.panic) = none
      rw [if_neg]
      · exact h.panic
      · rw [h.ieq, h.buf, List.length_drop]
        have := h.ile
        simp only [Bool.or_eq_true, decide_eq_true_eq, not_or]
        omega
    · have := h.ile; omega

theorem makeRoot_open' (p : BP) (k : PB) (rest : List PB) (h : k.isOpen = true) : makeRoot p (k :: rest) = none := by
  simp [makeRoot, h]

theorem makeRoot_nil' (p : BP) : makeRoot p [] = none := rfl

end CM.Proofs.Quote
