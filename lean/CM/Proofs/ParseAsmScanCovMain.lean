import CM.Proofs.ParseAsmScanCovCode2
/-
C03, inline half — the field `TokCover.code` for every container with content of every root the block phase delivers, GIVEN
the coverage specification of `stripCodeSpanSpace` (`StripCov`, open); and the whole-`Parse` reduction with that in the place of
the code field.
-/
namespace CM.Proofs.PSc
open CM CM.Model CM.Gen CM.Spec CM.Model.Inl
open CM.Proofs CM.Proofs.PW CM.Proofs.RK CM.Proofs.InlH CM.Proofs.InlH2 CM.Proofs.PS CM.Proofs.PSh

/-- **open**: `StripCov` for every context. -/
def stripCov_target : Prop := ∀ c : ICtx, StripCov c

/-- **The field `TokCover.code` for the containers of block-phase trees**, given `StripCov`. -/
theorem blockphase_code_of_strip (hS : stripCov_target) : blockphase_code_target := by
  intro x fuel inp ix m r hr p hp _ _ hne
  have hF := blockphase_contF x fuel inp r hr p hp
  have hcs : CSHyp p.2 r.source r.source.length := by
    rcases blockphase_contReady_all x fuel inp r hr p hp with h | h
    · exact h.2
    · exact absurd h hne
  exact tokCov_code ix m hF.rc2 hcs (hS _)

/-- C03, inline half, for `Parse`, with `ParseTails` as the only hypothesis — given `StripCov` and the three other fields. -/
theorem parse_cover_of_parseTails_of_strip (h1 : stripCov_target) (h2 : blockphase_label_target)
    (h3 : blockphase_html_target) (h4 : blockphase_inline_target)
    (x : PExt) (ix : IExt) (inp : Bytes) (hT : ParseTails x ix inp) :
    ∀ pr ∈ (parseDoc x ix inp).roots, ∀ t', pr.tree = .ok t' →
      ∀ j : Int, 0 ≤ j → needsCover (pr.root.source.toArray[j.toNat]!) = true →
        CovTs [pbToTree pr.root.block] j → CovTs [t'] j :=
  parse_cover_of_parseTails_of_fields (blockphase_code_of_strip h1) h2 h3 h4 x ix inp hT

end CM.Proofs.PSc

#print axioms CM.Proofs.PSc.csAddSpan_C
#print axioms CM.Proofs.PSc.collectCodeSpan_C
#print axioms CM.Proofs.PSc.tokCov_code
#print axioms CM.Proofs.PSc.blockphase_code_of_strip
#print axioms CM.Proofs.PSc.parse_cover_of_parseTails_of_strip
