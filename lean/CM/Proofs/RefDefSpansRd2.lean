import CM.Proofs.RefDefSpansRd1
/-
C02, block half — `RefDefSpansOK` for paragraphs made of lines, part 2: predicates closed under `current` / `next`
are preserved by every scanner of `Model/LinkParse.lean`; the combined reader invariant `Good`.
-/
namespace CM.Proofs.RDS
open CM CM.Model CM.Gen CM.Proofs CM.Proofs.BSp

/-- A predicate on readers preserved by `current` and `next`. -/
structure Closed (src : Bytes) (I : Rd → Prop) : Prop where
  cur : ∀ r, I r → I (r.current src).2
  nxt : ∀ r, I r → I (r.next src).2

section Generic
variable {src : Bytes} {I : Rd → Prop}

theorem Closed.cur' (hI : Closed src I) {r r1 : Rd} {c : UInt8} (h : I r) (e : r.current src = (c, r1)) : I r1 := by
  have := hI.cur r h; rw [e] at this; exact this

theorem Closed.nxt' (hI : Closed src I) {r r1 : Rd} {b : Bool} (h : I r) (e : r.next src = (b, r1)) : I r1 := by
  have := hI.nxt r h; rw [e] at this; exact this

theorem skipLinkSpace_cl (hI : Closed src I) : ∀ (f : Nat) (r : Rd), I r → I (skipLinkSpace src f r).2 := by
  intro f
  induction f with
  | zero => intro r h; exact h
  | succ f ih =>
    intro r h
    rcases hc : r.current src with ⟨c, r1⟩
    have h1 := hI.cur' h hc
    rcases hn : r1.next src with ⟨ok, r2⟩
    have h2 := hI.nxt' h1 hn
    simp only [skipLinkSpace, hc, hn]
    split
    · exact h1
    · split
      · split
        · exact h2
        · exact ih r2 h2
      · exact h1

theorem skipSpacesAndTabs_cl (hI : Closed src I) : ∀ (f : Nat) (r : Rd), I r → I (skipSpacesAndTabs src f r).2 := by
  intro f
  induction f with
  | zero => intro r h; exact h
  | succ f ih =>
    intro r h
    rcases hc : r.current src with ⟨c, r1⟩
    have h1 := hI.cur' h hc
    rcases hn : r1.next src with ⟨ok, r2⟩
    have h2 := hI.nxt' h1 hn
    simp only [skipSpacesAndTabs, hc, hn]
    split
    · split
      · exact h2
      · exact ih r2 h2
    · exact h1

theorem readEOL_cl (hI : Closed src I) (f : Nat) (r : Rd) (h : I r) : I (readEOL src f r).2 := by
  have h0 := skipSpacesAndTabs_cl hI f r h
  rcases hs : skipSpacesAndTabs src f r with ⟨ok, r0⟩
  rw [hs] at h0
  simp only at h0
  rcases hc : r0.current src with ⟨c, r1⟩
  have h1 := hI.cur' h0 hc
  rcases hn : r1.next src with ⟨ok1, r2⟩
  have h2 := hI.nxt' h1 hn
  rcases hc2 : r2.current src with ⟨c2, r3⟩
  have h3 := hI.cur' h2 hc2
  rcases hn3 : r3.next src with ⟨ok3, r4⟩
  have h4 := hI.nxt' h3 hn3
  simp only [readEOL, hs, hc, hn, hc2, hn3]
  split
  · exact h0
  · split
    · split
      · exact h2
      · split
        · exact h4
        · exact h3
    · split
      · exact h2
      · exact h1

theorem labelSkip_cl (hI : Closed src I) : ∀ (f : Nat) (r : Rd) (chars : Nat) (r' : Rd) (n : Nat), I r →
    labelSkip src f r chars = some (r', n) → I r' := by
  intro f
  induction f with
  | zero => intro r chars r' n _ e; simp [labelSkip] at e
  | succ f ih =>
    intro r chars r' n h e
    rcases hn : r.next src with ⟨ok, r1⟩
    rcases hc : r1.current src with ⟨c, r2⟩
    simp only [labelSkip, hn, hc] at e
    split at e
    · cases e
    · have h1 := hI.nxt' h hn
      have h2 := hI.cur' h1 hc
      split at e
      · cases e
      · split at e
        · cases e; exact h2
        · exact ih _ _ _ _ h2 e

theorem labelBody_cl (hI : Closed src I) : ∀ (f : Nat) (r : Rd) (chars : Nat) (ie : Int) (r' : Rd) (ie' : Int), I r →
    labelBody src f r chars ie = some (r', ie') → I r' := by
  intro f
  induction f with
  | zero => intro r chars ie r' ie' _ e; simp [labelBody] at e
  | succ f ih =>
    intro r chars ie r' ie' h e
    rcases hc : r.current src with ⟨c, r1⟩
    have h1 := hI.cur' h hc
    rcases hn : r1.next src with ⟨ok, r2⟩
    have h2 := hI.nxt' h1 hn
    rcases hc2 : r2.current src with ⟨c2, r3⟩
    have h3 := hI.cur' h2 hc2
    rcases hn3 : r3.next src with ⟨ok3, r4⟩
    have h4 := hI.nxt' h3 hn3
    simp only [labelBody, hc, hn, hc2, hn3] at e
    split at e
    · cases e; exact h1
    · split at e
      · split at e
        · cases e
        · split at e
          · cases e
          · split at e
            · cases e
            · exact ih _ _ _ _ _ h4 e
      · split at e
        · cases e
        · exact ih _ _ _ _ _ h2 e

theorem parseLinkLabel_cl (hI : Closed src I) (f : Nat) (r : Rd) (h : I r) : I (parseLinkLabel src f r).2 := by
  rcases hc : r.current src with ⟨c, r1⟩
  have h1 := hI.cur' h hc
  simp only [parseLinkLabel, hc]
  split
  · exact h1
  · cases hs : labelSkip src f r1 0 with
    | none => exact h1
    | some p =>
      obtain ⟨r2, chars⟩ := p
      have h2 := labelSkip_cl hI f r1 0 r2 chars h1 hs
      simp only
      cases hb : labelBody src f r2 chars (-1) with
      | none => exact h2
      | some q =>
        obtain ⟨r3, ie⟩ := q
        have h3 := labelBody_cl hI f r2 chars (-1) r3 ie h2 hb
        rcases hc3 : r3.current src with ⟨c3, r4⟩
        have h4 := hI.cur' h3 hc3
        rcases hn4 : r4.next src with ⟨ok, r5⟩
        have h5 := hI.nxt' h4 hn4
        simp only [hc3, hn4]
        split
        · exact h4
        · exact h5

theorem destAngle_cl (hI : Closed src I) (start : Nat) : ∀ (f : Nat) (r : Rd), I r → I (destAngle src start f r).2 := by
  intro f
  induction f with
  | zero => intro r h; exact h
  | succ f ih =>
    intro r h
    rcases hn : r.next src with ⟨ok, r1⟩
    have h1 := hI.nxt' h hn
    rcases hc : r1.current src with ⟨c, r2⟩
    have h2 := hI.cur' h1 hc
    rcases hn2 : r2.next src with ⟨ok2, r3⟩
    have h3 := hI.nxt' h2 hn2
    rcases hc3 : r3.current src with ⟨c3, r4⟩
    have h4 := hI.cur' h3 hc3
    simp only [destAngle, hn, hc, hn2, hc3]
    split
    · exact h1
    · split
      · exact h2
      · split
        · split
          · exact h3
          · split
            · exact h4
            · exact ih _ h4
        · split
          · exact h3
          · exact ih _ h2

theorem destBare_cl (hI : Closed src I) : ∀ (f : Nat) (r : Rd) (parens : Int), I r → I (destBare src f r parens) := by
  intro f
  induction f with
  | zero => intro r _ h; exact h
  | succ f ih =>
    intro r parens h
    rcases hc : r.current src with ⟨c, r1⟩
    have h1 := hI.cur' h hc
    rcases hn : r1.next src with ⟨ok, r2⟩
    have h2 := hI.nxt' h1 hn
    rcases hc2 : r2.current src with ⟨c2, r3⟩
    have h3 := hI.cur' h2 hc2
    rcases hn3 : r3.next src with ⟨ok3, r4⟩
    have h4 := hI.nxt' h3 hn3
    simp only [destBare, hc, hn, hc2, hn3]
    split
    · exact h1
    · split
      · split
        · exact h2
        · split
          · exact h3
          · split
            · exact h4
            · exact ih _ _ h4
      · split
        · split
          · exact h2
          · exact ih _ _ h2
        · split
          · split
            · exact h1
            · split
              · exact h2
              · exact ih _ _ h2
          · split
            · exact h2
            · exact ih _ _ h2

theorem parseLinkDestination_cl (hI : Closed src I) (f : Nat) (r : Rd) (h : I r) :
    I (parseLinkDestination src f r).2 := by
  rcases hc : r.current src with ⟨c, r1⟩
  have h1 := hI.cur' h hc
  simp only [parseLinkDestination, hc]
  split
  · exact destAngle_cl hI _ f r1 h1
  · split
    · exact destBare_cl hI f r1 0 h1
    · exact h1

theorem titleLoop_cl (hI : Closed src I) (start : Nat) (term : UInt8) : ∀ (f : Nat) (r : Rd), I r →
    I (titleLoop src start term f r).2 := by
  intro f
  induction f with
  | zero => intro r h; exact h
  | succ f ih =>
    intro r h
    rcases hn : r.next src with ⟨ok, r1⟩
    have h1 := hI.nxt' h hn
    rcases hc : r1.current src with ⟨c, r2⟩
    have h2 := hI.cur' h1 hc
    rcases hn2 : r2.next src with ⟨ok2, r3⟩
    have h3 := hI.nxt' h2 hn2
    simp only [titleLoop, hn, hc, hn2]
    split
    · exact h1
    · split
      · split
        · exact h3
        · exact ih _ h3
      · split
        · exact h3
        · exact ih _ h2

theorem parseLinkTitle_cl (hI : Closed src I) (f : Nat) (r : Rd) (h : I r) : I (parseLinkTitle src f r).2 := by
  rcases hc : r.current src with ⟨c, r1⟩
  have h1 := hI.cur' h hc
  simp only [parseLinkTitle, hc]
  split
  · exact h1
  · exact titleLoop_cl hI _ _ f r1 h1

end Generic

/-! ### The combined invariant -/

/-- The reader is bounded by `N` (`RdOK`), normalised (`RI`), and at or after position `p`. -/
def Good (src : Bytes) (is : List Tree) (N p : Nat) (r : Rd) : Prop :=
  p ≤ r.pos ∧ RdOK 0 N false r ∧ RI src is r

variable {src : Bytes} {is : List Tree} {N p : Nat} {r : Rd}

theorem Good.ri (h : Good src is N p r) : RI src is r := h.2.2
theorem Good.rd (h : Good src is N p r) : RdOK 0 N false r := h.2.1
theorem Good.le (h : Good src is N p r) : p ≤ r.pos := h.1
theorem Good.here (h : Good src is N p r) : Good src is N r.pos r := ⟨Nat.le_refl _, h.2⟩
theorem Good.weaken (h : Good src is N p r) {q : Nat} (hq : q ≤ p) : Good src is N q r := ⟨by have := h.1; omega, h.2⟩
theorem Good.pos_le (h : Good src is N p r) : r.pos ≤ N := h.rd.pos

theorem good_closed (hc : Ctx src is) (N p : Nat) : Closed src (Good src is N p) := by
  constructor
  · intro r h
    rw [current_snd hc h.ri]; exact h
  · intro r h
    have := next_spec hc h.ri
    exact ⟨by have := this.2.2.2.1; have := h.1; omega, h.rd.next src, this.1⟩

theorem Good.cur (hc : Ctx src is) (h : Good src is N p r) : r.current src = ((r.current src).1, r) :=
  current_eq hc h.ri

/-! ### Projections of `next_spec` in terms of `Good` -/

theorem Good.next (hc : Ctx src is) (h : Good src is N p r) : Good src is N p (r.next src).2 :=
  (good_closed hc N p).nxt r h

theorem Good.next' (hc : Ctx src is) (h : Good src is N p r) {b : Bool} {r' : Rd} (e : r.next src = (b, r')) :
    Good src is N p r' := by
  have := h.next hc; rw [e] at this; exact this

/-- A failed `next` kills the reader. -/
theorem next_false (hc : Ctx src is) (h : RI src is r) {r' : Rd} (e : r.next src = (false, r')) : r'.spans = [] := by
  have := (next_spec hc h).2.1
  rw [e] at this
  exact this rfl

/-- A successful `next` happened on a live reader. -/
theorem next_true_live (hc : Ctx src is) (h : RI src is r) {r' : Rd} (e : r.next src = (true, r')) :
    ∃ t rest, r.spans = t :: rest := by
  cases hs : r.spans with
  | nil => rw [next_dead hc h hs] at e; cases e
  | cons t rest => exact ⟨t, rest, rfl⟩

/-- After a successful `next` from a byte other than a space, the position has advanced. -/
theorem next_adv (hc : Ctx src is) (h : RI src is r) (hsp : (r.current src).1 ≠ SP) {r' : Rd}
    (e : r.next src = (true, r')) : r'.prev = r.pos ∧ r.pos + 1 ≤ r'.pos := by
  obtain ⟨t, rest, hs⟩ := next_true_live hc h e
  have sp := next_spec hc h
  have h1 := sp.2.2.1 (by rw [hs]; simp)
  have h2 := sp.2.2.2.2.1 hsp
  rw [e] at h1 h2
  simp only at h1 h2
  exact ⟨h1, by omega⟩

/-- After any `next` from a byte other than a space, `prev + 1 ≤ pos`. -/
theorem next_prev_le (hc : Ctx src is) (h : RI src is r) (hsp : (r.current src).1 ≠ SP) {b : Bool} {r' : Rd}
    (e : r.next src = (b, r')) : r'.prev + 1 ≤ (r'.pos : Int) := by
  have h2 := (next_spec hc h).2.2.2.2.1 hsp
  rw [e] at h2
  exact h2

theorem next_mono (hc : Ctx src is) (h : RI src is r) {b : Bool} {r' : Rd} (e : r.next src = (b, r')) :
    r.pos ≤ r'.pos := by
  have h2 := (next_spec hc h).2.2.2.1
  rw [e] at h2
  exact h2

theorem next_mu (hc : Ctx src is) (h : RI src is r) {r' : Rd} (e : r.next src = (true, r')) : mu src r' < mu src r := by
  have h2 := (next_spec hc h).2.2.2.2.2.1
  rw [e] at h2
  exact h2 rfl

/-! ### Fuel -/

theorem indSum_le (l : List Tree) : indSum l ≤ (l.map (fun t => t.label.indent.toNat + 1)).sum := by
  induction l with
  | nil => simp [indSum]
  | cons a rest ih =>
    simp only [indSum, List.map_cons, List.sum_cons]
    split <;> omega

theorem mu_lt_fuel (h : RI src is r) : mu src r < rdFuel src is := by
  unfold rdFuel
  have h1 := indSum_le is
  cases hs : r.spans with
  | nil => simp only [mu, hs]; omega
  | cons t rest =>
    obtain ⟨k, hk⟩ := h.suf
    have h2 := indSum_drop is k
    rw [← hk, hs] at h2
    simp only [indSum] at h2
    simp only [mu, hs]
    split
    · rename_i hi; simp only [hi, if_true] at h2; omega
    · omega

/-- With enough fuel `skipSpacesAndTabs` fails only on a dead reader. -/
theorem skipSpacesAndTabs_false (hc : Ctx src is) : ∀ (f : Nat) (r r' : Rd), RI src is r → mu src r < f →
    skipSpacesAndTabs src f r = (false, r') → r'.spans = [] := by
  intro f
  induction f with
  | zero => intro r r' _ hm; omega
  | succ f ih =>
    intro r r' h hm e
    have hcur := current_eq (src := src) hc h
    rcases hn : r.next src with ⟨ok, r2⟩
    rw [skipSpacesAndTabs, hcur] at e
    simp only [hn] at e
    split at e
    · cases ok with
      | false =>
        simp only [Bool.not_false, if_true, Prod.mk.injEq, true_and] at e
        subst e
        exact next_false hc h hn
      | true =>
        simp only [Bool.not_true, Bool.false_eq_true, if_false] at e
        have h2 : RI src is r2 := by have := (next_spec hc h).1; rw [hn] at this; exact this
        have := next_mu hc h hn
        exact ih r2 r' h2 (by omega) e
    · simp only [Prod.mk.injEq, bne_eq_false_iff_eq] at e
      obtain ⟨e1, e2⟩ := e
      subst e2
      exact current_zero_dead hc h e1

end CM.Proofs.RDS
