import CM.Proofs.BlocksWellEof
import CM.Proofs.BlocksWellStream
/-
The Lean model of the real block parser (`blocksLP`) satisfies the (source-indexed) contract of the stream machine,
hence the C08 theorems hold for it unconditionally.

* `blocksLP_not_well`: the original contract `LPWell` is NOT satisfiable by `blocksLP` (its clause `ends` quantifies over
  sources the parser has never seen).
* `blocksLP_wellS : LPWellS (blocksLP x)`: the contract indexed by the source (`LPWell → LPWellS`, `LPWell.toS`).
* `C08_blocks`, `C08_blocks_fault`, `C08_blocks_roots`: streaming parse = in-memory parse for the real parser.
-/
namespace CM.Proofs
open CM CM.Model CM.Gen

/-- Invariant of the line parser between two lines (`src`: the source of the last line call). -/
def blocksI (src : Bytes) (s : LP) : Prop :=
  RootOK src.length src.length src.length s.root ∧ NE s.root ∧ (s.state = stateDescendTerminated → TermOK s.root)

/-- Invariant of the pending blocks (`src`: the bytes before the parse position). -/
def blocksJ (src : Bytes) (bs : List PB) : Prop :=
  Kids src.length src.length bs ∧ ClosedLe src.length bs

/-! ### reset -/

theorem reset_fields (p : LP) (source : Bytes) (ls : Nat) :
    (p.reset source ls).root = p.root ∧ (p.reset source ls).depth = 0 ∧ (p.reset source ls).lineStart = ls ∧
    (p.reset source ls).line = source.drop ls ∧ (p.reset source ls).i = 0 ∧ (p.reset source ls).state = p.state := by
  unfold LP.reset
  obtain ⟨u1, u2, u3⟩ := updateTab_frame { p with lineStart := ls, source := source, line := source.drop ls, i := 0, col := 0, depth := 0 }
  exact ⟨u1.root, u1.depth, u1.lineStart, u1.line, u3, u2⟩

theorem la_reset {N0 : Nat} (p : LP) (source : Bytes) (h : RootOK N0 N0 N0 p.root) (hle : N0 ≤ source.length) :
    LA true source.length (p.reset source N0) := by
  obtain ⟨r1, r2, r3, r4, r5, _⟩ := reset_fields p source N0
  refine ⟨?_, by rw [r5]; exact Nat.zero_le _, ⟨p.root, by rw [r1, r2]; exact spineGet_zero _⟩, ?_, fun h' => (by cases h')⟩
  · rw [r3, r4, List.length_drop]; omega
  · rw [r1, r3]; exact h.mono hle (Nat.le_refl _) (Int.le_refl _)

theorem drop_ne_nil {src : Bytes} {n : Nat} (h : n < src.length) : src.drop n ≠ [] := by
  intro e
  have := congrArg List.length e
  simp only [List.length_drop, List.length_nil] at this
  omega

/-- One more (non-empty) line. -/
theorem blocks_step (x : PExt) (s : LP) (src0 src : Bytes) (h : blocksI src0 s) (hpx : src0 <+: src)
    (hlt : src0.length < src.length) : blocksI src (processLine x (s.reset src src0.length)) := by
  obtain ⟨h1, h2, h3⟩ := h
  obtain ⟨r1, r2, r3, r4, r5, r6⟩ := reset_fields s src src0.length
  have hla := la_reset s src h1 (Nat.le_of_lt hlt)
  have := processLine_ok x (s.reset src src0.length) hla (by rw [r4]; exact drop_ne_nil hlt)
    (by rw [r6, r1]; exact h3)
  exact ⟨this.1, this.2.1 (by rw [r1]; exact h2), this.2.2⟩

theorem docRoot_ok {N : Nat} (bs : List PB) (h : Kids N N bs) (hc : ClosedLe N bs) : RootOK N N N (docRoot bs) :=
  ⟨rfl, rfl, h, hc⟩

theorem isBlankLine_nil : isBlankLine [] = true := rfl

/-- The first line of a parser without pending blocks. -/
theorem blocks_fresh (x : PExt) (src : Bytes) (hb : isBlankLine src = false) :
    blocksI src (processLine x (((blocksLP x).new []).reset src 0)) := by
  have hne : src ≠ [] := by intro e; rw [e] at hb; cases hb
  have hlen : 0 < src.length := List.length_pos_iff.mpr hne
  have hroot : RootOK 0 0 0 ((blocksLP x).new []).root := docRoot_ok [] (Kids.nil 0 0) (fun _ h => (by cases h))
  obtain ⟨r1, r2, r3, r4, r5, r6⟩ := reset_fields ((blocksLP x).new []) src 0
  have hla := la_reset ((blocksLP x).new []) src hroot (Nat.zero_le _)
  have hline : (((blocksLP x).new []).reset src 0).line = src := by rw [r4]; rfl
  have h1 := processLine_ok x (((blocksLP x).new []).reset src 0) hla (by rw [hline]; exact hne)
    (by rw [r6]; intro h'; cases h')
  have h2 := processLine_fresh x (((blocksLP x).new []).reset src 0) hla (by rw [hline]; exact hne)
    (by rw [r1]; rfl) r5 (by rw [hline]; exact hb) (by rw [r6]; rfl)
  exact ⟨h1.1, h2, h1.2.2⟩

/-- The first line of a parser created from pending blocks. -/
theorem blocks_pstep (x : PExt) (src0 src : Bytes) (k : PB) (rest : List PB) (h : blocksJ src0 (k :: rest))
    (hpx : src0 <+: src) (hlt : src0.length < src.length) :
    blocksI src (processLine x (((blocksLP x).new (k :: rest)).reset src src0.length)) := by
  apply blocks_step x _ src0 src _ hpx hlt
  exact ⟨docRoot_ok _ h.1 h.2, by simp [NE, blocksLP, docRoot, PB.blocks], fun h' => (by cases h')⟩

/-! ### Cutting the first block off -/

theorem closed_of_not_open {k : PB} (h : k.isOpen = false) : 0 ≤ k.label.stop := by
  unfold PB.isOpen at h
  simpa using h

theorem blocks_cut {src : Bytes} {k : PB} {rest : List PB} (h : Kids src.length src.length (k :: rest))
    (hc : k.isOpen = false) :
    k.label.stop.toNat ≤ src.length ∧
    blocksJ (src.drop k.label.stop.toNat) (offsetPBs (-(k.label.stop.toNat : Int)) rest) := by
  have h0 := closed_of_not_open hc
  have hN := (h.kid k (by simp)).closed h0
  obtain ⟨o1, o2⟩ := h.offset h0
  refine ⟨by omega, ?_⟩
  unfold blocksJ
  rw [offsetPBs_map, List.length_drop]
  exact ⟨o1, o2⟩

/-- The end-of-input line. -/
theorem blocks_eof (x : PExt) (s : LP) (src : Bytes) (h : blocksI src s) :
    Closes (blocksLP x) blocksJ (processLine x (s.reset src src.length)) src := by
  obtain ⟨h1, h2, h3⟩ := h
  obtain ⟨r1, r2, r3, r4, r5, r6⟩ := reset_fields s src src.length
  obtain ⟨e1, e2, e3, e4⟩ := processLine_eof x (s.reset src src.length) (by rw [r4]; simp) r3 (by rw [r1]; exact h1)
    (by rw [r6, r1]; exact h3)
  right
  have hne : NE (processLine x (s.reset src src.length)).root := e3 (by rw [r1]; exact h2)
  cases hk : (processLine x (s.reset src src.length)).root.blocks with
  | nil => exact absurd hk hne
  | cons k rest =>
    rw [hk] at e1 e4
    have hk0 : PBClosed k := e4 k (by simp)
    have hopen : k.isOpen = false := by
      unfold PB.isOpen; unfold PBClosed at hk0; simpa using hk0
    obtain ⟨c1, c2⟩ := blocks_cut e1 hopen
    exact ⟨k, rest, hk, hopen, c1, c2⟩

/-! ### The contract -/

/-- The model of the real block parser satisfies the source-indexed contract of the stream machine. -/
def blocksLP_wellS (x : PExt) : LPWellS (blocksLP x) where
  I := blocksI
  J := blocksJ
  fresh := fun src hb => blocks_fresh x src hb
  step := fun s src0 src h hpx hlt => blocks_step x s src0 src h hpx hlt
  pstep := fun src0 src k rest h _ hpx hlt => blocks_pstep x src0 src k rest h hpx hlt
  ends := fun s src h k hk hc => by
    have h0 := closed_of_not_open hc
    have := (h.1.kids.kid k hk).closed h0
    omega
  pend := fun s src k rest h hk hc => by
    have hkids : Kids src.length src.length (k :: rest) := by
      have := h.1.kids
      rw [show s.root.blocks = k :: rest from hk] at this
      exact this
    exact (blocks_cut hkids hc).2
  pend_nil := fun src => ⟨Kids.nil _ _, fun _ h => (by cases h)⟩
  pend_cut := fun src k rest h hc => blocks_cut h.1 hc
  eof := fun s src h => blocks_eof x s src h
  peof := fun src k rest h _ =>
    blocks_eof x ((blocksLP x).new (k :: rest)) src
      ⟨docRoot_ok _ h.1 h.2, by simp [NE, blocksLP, docRoot, PB.blocks], fun h' => (by cases h')⟩

/-! ### C08 for the real block parser -/

/-- (A) Streaming parse = in-memory parse for the model of the real block parser, for every schedule. -/
theorem C08_blocks (x : PExt) (inp : Bytes) (sched : List Nat) (eofWith : Bool) (hsmall : Small inp) (f : Nat) :
    observe (drain (blocksLP x) f (newBlockParser { data := inp, sched := sched, eofWith := eofWith, fin := .eof }) []) =
    observe (drain (blocksLP x) f (memParser inp) []) :=
  stream_eq_mem_S (blocksLP_wellS x) inp sched eofWith hsmall f

/-- (B) The reader fails with `code` after delivering `inp`. -/
theorem C08_blocks_fault (x : PExt) (inp : Bytes) (sched : List Nat) (eofWith : Bool) (code : Nat) (hsmall : Small inp) (f : Nat) :
    (observe (drain (blocksLP x) f (newBlockParser { data := inp, sched := sched, eofWith := eofWith, fin := .fail code }) [])).1 =
      (observe (drain (blocksLP x) f (memParser inp) [])).1 ∧
    ((∃ m, (observe (drain (blocksLP x) f (newBlockParser { data := inp, sched := sched, eofWith := eofWith, fin := .fail code }) [])).2 = .panic m ∧
        (observe (drain (blocksLP x) f (memParser inp) [])).2 = .panic m) ∨
     ((observe (drain (blocksLP x) f (newBlockParser { data := inp, sched := sched, eofWith := eofWith, fin := .fail code }) [])).2 = .err (.reader code) ∧
        (observe (drain (blocksLP x) f (memParser inp) [])).2 = .err .eof)) :=
  stream_fault_S (blocksLP_wellS x) inp sched eofWith code hsmall f

/-- (D) The same roots, whatever the reader's final error. -/
theorem C08_blocks_roots (x : PExt) (inp : Bytes) (sched : List Nat) (eofWith : Bool) (fin : RErr) (hsmall : Small inp) (f : Nat) :
    (drain (blocksLP x) f (newBlockParser { data := inp, sched := sched, eofWith := eofWith, fin := fin }) []).1 =
    (drain (blocksLP x) f (memParser inp) []).1 :=
  stream_roots_eq_S (blocksLP_wellS x) inp sched eofWith fin hsmall f

/-- The streaming `drain` ends within a fuel iff the in-memory one does. -/
theorem C08_blocks_ends (x : PExt) (inp : Bytes) (sched : List Nat) (eofWith : Bool) (fin : RErr) (hsmall : Small inp) (f : Nat) :
    drainEnds (blocksLP x) f (newBlockParser { data := inp, sched := sched, eofWith := eofWith, fin := fin }) =
    drainEnds (blocksLP x) f (memParser inp) :=
  stream_ends_iff_S (blocksLP_wellS x) inp sched eofWith fin hsmall f

/-! ### The original contract `LPWell` cannot be satisfied by `blocksLP` -/

/-- The end-of-input line on a parser whose only block is closed leaves that block as it is. -/
theorem eof_closed_kids (x : PExt) (c : PB) (hc : 0 ≤ c.label.stop) (src : Bytes) (ls : Nat) (hls : src.length ≤ ls) :
    (blocksLP x).kids ((blocksLP x).line ((blocksLP x).new [c]) src ls) = [c] := by
  show (processLine x (((blocksLP x).new [c]).reset src ls)).root.blocks = [c]
  obtain ⟨r1, r2, r3, r4, r5, r6⟩ := reset_fields ((blocksLP x).new [c]) src ls
  have hline : (((blocksLP x).new [c]).reset src ls).line = [] := by
    rw [r4]; exact List.drop_eq_nil_of_le hls
  have hroot : (((blocksLP x).new [c]).reset src ls).root = docRoot [c] := r1
  have hstate : (((blocksLP x).new [c]).reset src ls).state = 0 := r6
  generalize ((blocksLP x).new [c]).reset src ls = p at hline hroot hstate
  unfold processLine
  obtain ⟨d, s, h1, h2⟩ := descend_empty_top x p hline
  generalize descendOpenBlocks x p = r at h1
  obtain ⟨b, p1⟩ := r
  simp only at h1
  subst h1
  simp only
  have hs : (s == stateDescendTerminated) = false := by
    cases hsd : (s == stateDescendTerminated) with
    | false => rfl
    | true =>
      have := (h2 (by simpa using hsd)).1
      rw [hstate] at this
      exact absurd this (by decide)
  rw [hs]
  simp only [Bool.false_eq_true, if_false]
  unfold openNewBlocks
  simp only [hline, List.isEmpty_nil, if_true]
  unfold LP.closeContainer
  simp only [beq_self_eq_true, if_true, Bool.false_eq_true, if_false]
  rw [hroot, eof_root_blocks x _ _ (docRoot [c]) rfl rfl]
  rw [replLast_closed_id x _ _ (docRoot [c]) (by
    intro c' hc'
    simp only [docRoot, PB.blocks, List.getLast?_singleton, Option.some.injEq] at hc'
    subst hc'; exact hc)]
  rfl

/-- `LPWell (blocksLP x)` is empty, for every `x`: a parser created from one closed pending block that ends at offset 5
    (`new_pending` puts it into the invariant) keeps that block when it is fed the empty source, and `ends` would
    bound its end by the length of that source. -/
theorem blocksLP_not_well (x : PExt) : LPWell (blocksLP x) → False := by
  intro W
  have hI := W.new_pending [PB.mk { kind := BK.paragraph, start := 0, stop := 5 } [] []] (by simp)
  have hk := eof_closed_kids x (PB.mk { kind := BK.paragraph, start := 0, stop := 5 } [] []) (by decide) [] 0 (Nat.le_refl _)
  have := W.ends _ [] 0 (Or.inl hI) (PB.mk { kind := BK.paragraph, start := 0, stop := 5 } [] [])
    (by rw [hk]; simp) (by decide)
  revert this
  decide

/-- The same with a state reached from a document: after `# a\n` the parser holds a heading closed at offset 4
    (`step` puts the state into the invariant); fed the empty source it still holds it. -/
example : ((blocksLP demoExt).kids ((blocksLP demoExt).line ((blocksLP demoExt).line ((blocksLP demoExt).new [])
    [35, 32, 97, 10] 0) [] 0)).map (fun k => (k.isOpen, k.label.stop)) = [(false, 4)] := by decide +kernel

theorem blocksLP_not_well_doc : LPWell (blocksLP demoExt) → False := by
  intro W
  have hI := W.step ((blocksLP demoExt).new []) [35, 32, 97, 10] 0 (Or.inr ⟨rfl, rfl, by decide⟩)
  have h := W.ends _ [] 0 (Or.inl hI)
  have hk : ∃ k ∈ (blocksLP demoExt).kids ((blocksLP demoExt).line ((blocksLP demoExt).line ((blocksLP demoExt).new [])
      [35, 32, 97, 10] 0) [] 0), k.isOpen = false ∧ ¬ k.label.stop.toNat ≤ ([] : Bytes).length := by
    decide +kernel
  obtain ⟨k, hk1, hk2, hk3⟩ := hk
  exact hk3 (h k hk1 hk2)

/-! ### Non-vacuity and concrete runs -/

/-- The contract is inhabited (this very definition) and its invariant holds on a non-trivial state: the parser after
    the line `> [a]: b` (a block quote holding a paragraph that is a link reference definition). -/
example : Nonempty (LPWellS (blocksLP demoExt)) := ⟨blocksLP_wellS demoExt⟩

example : blocksI [62, 32, 91, 97, 93, 58, 32, 98, 10]
    ((blocksLP demoExt).line ((blocksLP demoExt).new []) [62, 32, 91, 97, 93, 58, 32, 98, 10] 0) :=
  blocks_fresh demoExt _ (by decide)

/-- `[a]: b LF === LF x LF`: a paragraph that is only a link reference definition, closed as a setext heading —
    the definition (0–7) and the orphan paragraph (7–13), in increasing order. -/
example : summary (drain (blocksLP demoExt) 40 (memParser [91, 97, 93, 58, 32, 98, 10, 61, 61, 61, 10, 120, 10]) []) =
    ([([91, 97, 93, 58, 32, 98, 10], 1, 0, 7), ([61, 61, 61, 10, 120, 10], 2, 7, 13)], some .eof, none) := by
  decide +kernel

/-- The theorem applied: the same input read as 3 + 0 + 5 + rest bytes. -/
example : observe (drain (blocksLP demoExt) 40
      (newBlockParser { data := [91, 97, 93, 58, 32, 98, 10, 61, 61, 61, 10, 120, 10], sched := [3, 0, 5], eofWith := false, fin := .eof }) []) =
    observe (drain (blocksLP demoExt) 40 (memParser [91, 97, 93, 58, 32, 98, 10, 61, 61, 61, 10, 120, 10]) []) :=
  C08_blocks demoExt _ _ _ (by decide +kernel) 40

end CM.Proofs
