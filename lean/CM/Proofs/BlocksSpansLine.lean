import CM.Proofs.BlocksSpansText
/-
C02, block half — `addLineText`, `openNewBlocks`, `processLine`.
-/
namespace CM.Proofs.BSp
open CM CM.Model CM.Gen CM.Proofs.BT

/-! ### `addLineText` -/

theorem lineEnd_eq {p q : LP} (h1 : q.lineStart = p.lineStart) (h2 : q.line = p.line) : lineEnd q = lineEnd p := by
  simp only [lineEnd, h1, h2]

theorem altCont_acc (x : PExt) (b : Bool) (p : LP) (hk : acceptsLines p.containerKind = true) :
    altCont x b p = some (if (decide (p.i < p.line.length) && p.line.getD p.i 0 == TAB && decide (p.tabRem > 0) && p.tabPartial) = true then
      (p.appendInline (.node { isBlock := false, kind := IK.indent, start := p.lineStart + p.i, stop := p.lineStart + p.i + 1, indent := p.tabRem } [])).consumeIndentN p.tabRem
      else p) := by
  unfold altCont
  simp only [hk, if_true]
  split <;> rfl

/-- `addLineText` when the container accepts lines. -/
theorem addLineText_spans_A (x : PExt) (p : LP) (h : BT.Inv p) (hk : acceptsLines p.containerKind = true) (hmi : MI QT p) :
    PBSpans QT 0 (lineEnd p) (addLineText x p).root ∧ (addLineText x p).root.label.stop < 0 := by
  rw [addLineText_eq]
  have a := altBlank_step p h
  have ma := altBlank_MI p hmi
  have sa := altBlank_src p
  have b := altFlags_step p.isRestBlank (altBlank p) a.inv
  have mb := altFlags_MI p.isRestBlank (altBlank p) ma (Or.inl (fun _ _ => rfl))
  have fb := altFlags_frame p.isRestBlank (altBlank p)
  have hle : lineEnd (altFlags p.isRestBlank (altBlank p)) = lineEnd p := lineEnd_eq (by rw [fb.ls, sa.2.1]) (by rw [fb.line, sa.2.2.1])
  generalize altFlags p.isRestBlank (altBlank p) = pB at b mb hle
  have kB : pB.containerKind = p.containerKind := by rw [b.ckind, a.ckind]
  rw [altCont_acc x _ pB (by rw [kB]; exact hk)]
  simp only []
  rw [← hle]
  split
  · rename_i hc
    simp only [Bool.and_eq_true, decide_eq_true_eq, beq_iff_eq] at hc
    obtain ⟨⟨⟨hlt, htab⟩, hrem⟩, _⟩ := hc
    let t : Tree := .node { isBlock := false, kind := IK.indent, start := pB.lineStart + pB.i, stop := pB.lineStart + pB.i + 1, indent := pB.tabRem } []
    have ia := appendInline_inv pB t b.inv
    have s1 := appendInline_spans (Q := QT) pB.root pB.depth t (curPos pB) (curPos pB + 1) mb.base mb.sopen
      (Int.le_refl _) (by show (pB.lineStart : Int) + pB.i ≤ pB.lineStart + pB.i + 1; omega) (Int.le_refl _) (fun _ _ => rfl)
    have ci := consumeIndentN_post (pB.appendInline t) pB.tabRem ia.cur (by
      rw [indent_of_cur (appendInline_cur pB _), indent_tab pB hlt htab]
      omega)
    have hi1 : ((pB.appendInline t).consumeIndentN pB.tabRem).i = pB.i + 1 :=
      consumeIndentN_tab (pB.appendInline t) hlt htab hrem
    have ht := ci.tree
    simp only [BT.tree, Prod.mk.injEq] at ht
    have hroot : ((pB.appendInline t).consumeIndentN pB.tabRem).root = (pB.appendInline t).root := ht.2.1
    have hdep : ((pB.appendInline t).consumeIndentN pB.tabRem).depth = pB.depth := ht.2.2.1
    have hls : ((pB.appendInline t).consumeIndentN pB.tabRem).lineStart = pB.lineStart := ht.2.2.2
    have hcp : curPos ((pB.appendInline t).consumeIndentN pB.tabRem) = curPos pB + 1 := by
      simp only [curPos, hls, hi1]; omega
    have := altTail_spans ((pB.appendInline t).consumeIndentN pB.tabRem) (curPos pB + 1)
      (by rw [hroot, appendInline_root]; exact s1.1) (by rw [hroot, hdep, appendInline_root]; exact s1.2)
      (by rw [hcp]; exact Int.le_refl _) ci.cur.hi
    rw [lineEnd_eq hls ci.line] at this
    exact this
  · exact altTail_spans pB (curPos pB) mb.base mb.sopen (Int.le_refl _) mb.ile

theorem acceptsLines_paragraph : acceptsLines BK.paragraph = true := by decide

/-- `addLineText` when the container does not accept lines: a new paragraph is opened (unless the line is blank). -/
theorem addLineText_spans_B {Q : ParaPred} (x : PExt) (p : LP) (h : BT.Inv p) (hk : acceptsLines p.containerKind = false)
    (hs : p.state ≤ 2) (hmi : MI Q p) (hbl : Below Q p) (habove : ChainAbove p.lineStart p.depth p.root) (hat : ChainAt p)
    (hL : CloseParaOK Q x p.source p.lineStart) :
    PBSpans QT 0 (lineEnd p) (addLineText x p).root ∧ (addLineText x p).root.label.stop < 0 := by
  have hnp : p.containerKind ≠ BK.paragraph := by
    intro e; rw [e, acceptsLines_paragraph] at hk; cases hk
  rw [addLineText_eq]
  have a := altBlank_step p h
  have sa := altBlank_src p
  cases hblank : p.isRestBlank
  · -- not blank: a new paragraph
    have eA : altBlank p = p := by unfold altBlank; rw [hblank]; rfl
    rw [eA]
    have b := altFlags_step false p h
    have mb := altFlags_MI false p hmi (Or.inr hnp)
    have fb := altFlags_frame false p
    have ab := altFlags_at false p hmi hat
    generalize altFlags false p = pB at b mb fb ab
    have kB : pB.containerKind = p.containerKind := b.ckind
    have hcont : altCont x false pB = some ((pB.openBlock x BK.paragraph).consumeIndentN (pB.openBlock x BK.paragraph).indent) := by
      unfold altCont
      simp only [kB, hk, Bool.false_eq_true, if_false, Bool.not_false, if_true]
    rw [hcont]
    simp only []
    have sB : pB.state ≤ 2 := by rw [b.state]; exact hs
    have ob := openBlock_inv x pB BK.paragraph id id_kind b.inv sB (Or.inl (by decide))
    have om := openBlock_MI (Q := Q) (Q' := QT) (x := x) pB BK.paragraph id attr_id b.inv sB mb (fb.below hbl)
      (fb.closeL hL) (fb.chainAbove habove) (Or.inl ⟨by decide, ab⟩) (fun _ _ _ => rfl) (by decide) (fun _ _ _ => rfl)
    obtain ⟨m1, _, _, _, _, o6⟩ := om
    generalize pB.openBlock x BK.paragraph = pC at ob m1 o6
    have iC := ob.inv b.inv
    have ci := consumeIndentN_post pC pC.indent iC.cur (Nat.le_refl _)
    have m2 := m1.of_ci ci
    have ht := ci.tree
    simp only [BT.tree, Prod.mk.injEq] at ht
    have := altTail_spans (pC.consumeIndentN pC.indent) (curPos (pC.consumeIndentN pC.indent)) m2.base m2.sopen
      (Int.le_refl _) m2.ile
    rw [lineEnd_eq (show (pC.consumeIndentN pC.indent).lineStart = p.lineStart by rw [ht.2.2.2, o6, fb.ls])
      (show (pC.consumeIndentN pC.indent).line = p.line by rw [ci.line, cur_line ob.cur, fb.line])] at this
    exact this
  · -- blank: only the flags change
    have ma := altBlank_MI p hmi.toQT
    have b := altFlags_step true (altBlank p) a.inv
    have mb := altFlags_MI true (altBlank p) ma (Or.inl (fun _ _ => rfl))
    have fb := altFlags_frame true (altBlank p)
    have kB : (altFlags true (altBlank p)).containerKind = p.containerKind := by rw [b.ckind, a.ckind]
    have hcont : altCont x true (altFlags true (altBlank p)) = none := by
      unfold altCont
      simp only [kB, hk, Bool.false_eq_true, if_false, Bool.not_true]
    rw [hcont]
    simp only []
    refine ⟨PBSpans_mono' (Int.le_refl _) ?_ mb.base, mb.sopen.root_open⟩
    have := curPos_le_lineEnd mb.ile
    rw [lineEnd_eq (show (altFlags true (altBlank p)).lineStart = p.lineStart by rw [fb.ls, sa.2.1])
      (show (altFlags true (altBlank p)).line = p.line by rw [fb.line, sa.2.2.1])] at this
    exact this

/-! ### the tip -/

theorem tipDepth_spec : ∀ (n : Nat) (b : PB) (d : Nat), sizeOf b ≤ n →
    d ≤ tipDepth b d ∧ ∀ j, j ≠ 0 → j ≤ tipDepth b d - d → ∃ c, spineGet b j = some c ∧ c.isOpen = true := by
  intro n
  induction n with
  | zero => intro b d hs; obtain ⟨l, bs, is⟩ := b; simp at hs
  | succ n ih =>
    intro b d hs
    obtain ⟨l, bs, is⟩ := b
    rw [tipDepth]
    split
    · rename_i c hgl
      have hsz : sizeOf c ≤ n := by
        have := List.sizeOf_lt_of_mem (List.mem_of_getLast? hgl)
        simp at hs
        omega
      split
      · rename_i hco
        obtain ⟨r1, r2⟩ := ih c (d + 1) hsz
        refine ⟨by omega, ?_⟩
        intro j hj0 hj
        obtain ⟨j', rfl⟩ : ∃ j', j = j' + 1 := ⟨j - 1, by omega⟩
        rw [spineGet_succ, hgl]
        by_cases hj' : j' = 0
        · subst hj'
          exact ⟨c, spineGet_zero c, hco⟩
        · exact r2 j' hj' (by omega)
      · exact ⟨Nat.le_refl _, fun j hj0 hj => by omega⟩
    · exact ⟨Nat.le_refl _, fun j hj0 hj => by omega⟩

theorem tipDepth_open (root : PB) (ho : root.label.stop < 0) : SpineOpen root (tipDepth root 0) := by
  intro j hj
  by_cases hj0 : j = 0
  · subst hj0
    exact ⟨root.label, labelAt_zero _, ho⟩
  · obtain ⟨c, hc, hco⟩ := (tipDepth_spec (sizeOf root) root 0 (Nat.le_refl _)).2 j hj0 (by omega)
    exact ⟨c.label, labelAt_of_spineGet hc, (isOpen_iff c).mp hco⟩

/-! ### `closeLastChild` and the chain at the container -/

theorem closeLastChild_at {Q : ParaPred} {x : PExt} {p : LP} (h : MI Q p) (hb : Below Q p)
    (hL : CloseParaOK Q x p.source p.lineStart) (hat : ChainAt p) : ChainAt (p.closeLastChild x p.lineStart) := by
  obtain ⟨b, hbg, hbo, hbc⟩ := h.container_open
  have hnew : spineGet (p.closeLastChild x p.lineStart).root (p.closeLastChild x p.lineStart).depth
      = some (replaceLastFn (closeBlock x p.source p.lineStart) b) := by
    show spineGet (spineReplaceLast _ p.root p.depth) p.depth = _
    rw [spineReplaceLast_eq, spineGet_modify_self, hbg]; rfl
  unfold ChainAt at hat ⊢
  rw [kind_of_container hnew, container_of_spineGet hnew]
  rw [kind_of_container hbg, hbc] at hat
  rcases hat with h1 | h1
  · left; simp only [PB.kind, replaceLastFn_label]; exact h1
  · right
    show CEL p.lineStart _
    apply CEL_replaceLast h1
    intro c hgl c' hc' hcc
    have hcg : spineGet p.root (p.depth + 1) = some c := by rw [spineGet_succ_eq, hbg]; exact hgl
    cases hco : c.isOpen
    · have hc0 := (isOpen_false_iff c).mp hco
      rw [closeBlock_closed _ _ _ _ hc0] at hc'
      simp only [List.mem_singleton] at hc'
      subst hc'
      obtain ⟨l, bs, is⟩ := b
      exact h1.2.2 c' (List.mem_of_getLast? hgl) hcc
    · obtain ⟨lo', _, hsp⟩ := spineGet_spans (p.depth + 1) p.root 0 c h.base hcg
      exact (closeBlock_hg (Int.natCast_nonneg _) (lineStart_le_curPos p) hL c lo' (fun ho => hb c hcg ho) hsp).2.2 hco c' hc'

/-- The container has a child: it is of a container kind. -/
theorem container_of_child {Q : ParaPred} {p : LP} (h : MI Q p) {c : PB} (hc : spineGet p.root (p.depth + 1) = some c) :
    isContainerKind p.containerKind = true := by
  obtain ⟨b, hbg, hbo, hbc⟩ := h.container_open
  obtain ⟨lo', _, hsp⟩ := spineGet_spans p.depth p.root 0 b h.base hbg
  rw [kind_of_container hbg]
  rw [spineGet_succ_eq, hbg] at hc
  obtain ⟨l, bs, is⟩ := b
  rw [PBSpans_mk] at hsp
  rcases hsp.2.2.2.2.2.1 with h6 | h6
  · exact h6
  · simp only [Option.bind_some, PB.blocks] at hc
    rw [h6] at hc; cases hc

end CM.Proofs.BSp
