import CM.Proofs.BlocksSpansStream
/-
C02, block half — discharging the `RefDefSpansOK` hypothesis: definitions.

The inline children of an (open) paragraph are *lines*: every node is non-empty, lies inside the source, an Indent node
(a partially consumed tab) is one byte long, and in every other node a line ending (LF, CR, CRLF) can only be the very
end of the node (`NodeOK`). This is what the reader of `Model/Reader.lean` needs for "the position after a line ending
is the start of an inline child". The orphan paragraph a setext heading leaves behind (its text is the underline) is
covered by the alternative `NoBracket`: a paragraph whose first byte is not `[` is never split.

`GoodT src bd root`: every paragraph of the tree satisfies `ParaGood src bd` (`bd`: a bound for the ends of the lines,
needed to know that the underline of a setext heading comes after the text), and no open block is a setext heading.
-/
namespace CM.Proofs.RDS
open CM CM.Model CM.Gen CM.Proofs.BSp

/-- Line endings of `src` inside `[s, e)` occur only at the very end (`…LF`, `…CR` or `…CRLF`). -/
def EolAtEnd (src : Bytes) (s e : Int) : Prop :=
  ∀ j : Nat, s ≤ (j : Int) → (j : Int) < e →
    (src.getD j 0 = LF → (j : Int) + 1 = e) ∧
    (src.getD j 0 = CR → (j : Int) + 1 = e ∨ ((j : Int) + 2 = e ∧ src.getD (j + 1) 0 = LF))

/-- An inline child of a paragraph: non-empty, inside the source; an Indent node is one byte long; any other node
    contains line endings only at its end. -/
def NodeOK (src : Bytes) (t : Tree) : Prop :=
  t.label.start < t.label.stop ∧ t.label.stop ≤ (src.length : Int) ∧
  (isIndent t = true → t.label.stop = t.label.start + 1) ∧
  (isIndent t = false → EolAtEnd src t.label.start t.label.stop)

/-- The first inline child is a non-empty, non-Indent node whose first byte is not `[`. -/
def NoBracket (src : Bytes) (is : List Tree) : Prop :=
  ∃ first rest, is = first :: rest ∧ isIndent first = false ∧ 0 ≤ first.label.start ∧
    first.label.start < first.label.stop ∧ first.label.start < (src.length : Int) ∧
    src.getD first.label.start.toNat 0 ≠ 0x5B

/-- The inline children of a paragraph: lines that end at or before `bd` (the start of the current line), or
    a first byte other than `[`. -/
def ParaGood (src : Bytes) (bd : Int) (is : List Tree) : Prop :=
  (∀ t ∈ is, NodeOK src t ∧ t.label.stop ≤ bd) ∨ NoBracket src is

/-- The rule at one block. -/
def BlockOK (src : Bytes) (bd : Int) (b : PB) : Prop :=
  (b.kind = BK.paragraph → ParaGood src bd b.inlines) ∧ (b.label.stop < 0 → b.kind ≠ BK.setextHeading)

mutual
/-- Every block of the tree satisfies `BlockOK src bd`. -/
def GoodT (src : Bytes) (bd : Int) : PB → Prop
  | .mk l bs is => BlockOK src bd (.mk l bs is) ∧ GoodL src bd bs
def GoodL (src : Bytes) (bd : Int) : List PB → Prop
  | [] => True
  | b :: rest => GoodT src bd b ∧ GoodL src bd rest
end

theorem GoodL_iff (src : Bytes) (bd : Int) (bs : List PB) : GoodL src bd bs ↔ ∀ b ∈ bs, GoodT src bd b := by
  induction bs with
  | nil => simp [GoodL]
  | cons b rest ih => simp [GoodL, ih]

theorem GoodT_mk (src : Bytes) (bd : Int) (l : PLabel) (bs : List PB) (is : List Tree) :
    GoodT src bd (.mk l bs is) ↔ BlockOK src bd (.mk l bs is) ∧ ∀ b ∈ bs, GoodT src bd b := by
  rw [GoodT, GoodL_iff]

/-- A line: line endings only at the end. -/
def LineOK (line : Bytes) : Prop := EolAtEnd line 0 line.length

end CM.Proofs.RDS
