import CM.Proofs.ParseWholeSafe2
import CM.Proofs.InlSpanDefs
/-
C02 / C04, inline halves, for the whole of `Parse` — goal (1): **the block-phase tree of every delivered root has the span
discipline `WFT`** (spans valid, children chained in order inside their parents, at every depth), starts at or after `0` and
ends inside the root's source.  From C02 / C03 of the block phase (`RDC.drain_cover_uncond`, `Cov.pb_nodes_ok`).
-/
namespace CM.Proofs.PSc
open CM CM.Model CM.Gen CM.Spec
open CM.Proofs.PW CM.Proofs.InlH

/-- An ordered list of well-formed trees that end at or before `hi`, the first of which starts at or after `lo`, is a chain
    inside `[lo, hi]`. -/
theorem chain_of_ordered : ∀ (cs : List Tree) (lo hi : Int), lo ≤ hi → siblingsOrdered cs = true →
    (∀ c ∈ cs, c.label.stop ≤ hi ∧ WFT c) → (∀ c, cs.head? = some c → lo ≤ c.label.start) → WFL lo hi cs
  | [], lo, hi, hle, _, _, _ => (WFL_nil _ _).2 hle
  | [c], lo, hi, _, _, h, hh => by
    obtain ⟨h2, h3⟩ := h c (List.mem_singleton.2 rfl)
    exact WFL_single (hh c rfl) h3 h2
  | a :: b :: rest, lo, hi, _, ho, h, hh => by
    rw [siblingsOrdered, Bool.and_eq_true, decide_eq_true_eq] at ho
    obtain ⟨h2, h3⟩ := h a (List.mem_cons_self ..)
    have h1 := ho.1; simp only [T.stop, T.start] at h1
    rw [WFL_cons]
    refine ⟨hh a rfl, h3, chain_of_ordered (b :: rest) _ _ h2 ho.2 (fun c hc => h c (List.mem_cons_of_mem _ hc)) ?_⟩
    intro c hc
    simp only [List.head?_cons, Option.some.injEq] at hc
    subst hc
    exact h1

mutual
theorem WFT_of_nodeOK (n : Nat) : (t : Tree) → (∀ u ∈ T.nodes t, Cov.nodeOK n u = true) → WFT t
  | .node l cs, h => by
    have hself := h (.node l cs) (by rw [T.nodes]; exact List.mem_cons_self ..)
    simp only [Cov.nodeOK, spanValid, childrenInside, Bool.and_eq_true, T.start, T.stop,
      List.all_eq_true] at hself
    obtain ⟨⟨⟨⟨h0, h1'⟩, h2⟩, hin'⟩, hord⟩ := hself
    have h1 : (Tree.node l cs).label.start ≤ (Tree.node l cs).label.stop := of_decide_eq_true h1'
    have hin : ∀ c ∈ cs, (Tree.node l cs).label.start ≤ c.label.start ∧ c.label.stop ≤ (Tree.node l cs).label.stop :=
      fun c hc => ⟨of_decide_eq_true (hin' c hc).1, of_decide_eq_true (hin' c hc).2⟩
    rw [WFT_iff]
    have hk := WFL_of_nodeOK n cs (fun u hu => h u (by rw [T.nodes]; exact List.mem_cons_of_mem _ hu))
    refine ⟨h1, chain_of_ordered cs _ _ h1 hord ?_ ?_⟩
    · intro c hc
      exact ⟨(hin c hc).2, hk c hc⟩
    · intro c hc
      exact (hin c (List.mem_of_head? hc)).1
theorem WFL_of_nodeOK (n : Nat) : (ts : List Tree) → (∀ u ∈ T.nodesL ts, Cov.nodeOK n u = true) → ∀ c ∈ ts, WFT c
  | [], _ => fun c hc => by cases hc
  | t :: ts, h => fun c hc => by
    rcases List.mem_cons.1 hc with e | hc'
    · rw [e]
      exact WFT_of_nodeOK n t (fun u hu => h u (by rw [T.nodesL]; exact List.mem_append_left _ hu))
    · exact WFL_of_nodeOK n ts (fun u hu => h u (by rw [T.nodesL]; exact List.mem_append_right _ hu)) c hc'
end

/-- Every node of every block-phase tree of `Parse`: valid span inside the source, children inside, siblings in order. -/
theorem blockphase_nodeOK (x : PExt) (fuel : Nat) (inp : Bytes) :
    ∀ r ∈ (drain (blocksLP x) fuel (memParser inp) []).1, ∀ u ∈ T.nodes (pbToTree r.block),
      Cov.nodeOK r.source.length u = true := by
  intro r hr u hu
  obtain ⟨hsp, hwf, _⟩ := RDC.drain_cover_uncond x inp fuel r hr
  have hclosed : 0 ≤ r.block.label.stop := by rw [hsp.2]; exact Int.natCast_nonneg _
  have h := Cov.pb_nodes_ok r.source.length r.block 0 r.source.length hsp.1 (Int.le_refl _) (Int.le_refl _) hclosed hwf
  rw [List.all_eq_true] at h
  exact h u hu

/-- **Goal (1): the block-phase tree of every delivered root has the span discipline**, lies at or after `0` and inside the
    root's source. -/
theorem blockphase_WFT (x : PExt) (fuel : Nat) (inp : Bytes) :
    ∀ r ∈ (drain (blocksLP x) fuel (memParser inp) []).1,
      WFT (pbToTree r.block) ∧ 0 ≤ (pbToTree r.block).label.start ∧
        (pbToTree r.block).label.stop ≤ (r.source.length : Int) := by
  intro r hr
  have hself := blockphase_spanValid x fuel inp r hr (pbToTree r.block) (self_mem_nodes _)
  exact ⟨WFT_of_nodeOK r.source.length _ (blockphase_nodeOK x fuel inp r hr), hself.1, hself.2.2⟩

end CM.Proofs.PSc
