import CM.Proofs.NestSim
import CM.Proofs.QuoteOps
/-
C09 (nested documents), the tree operations of the line parser on `Sim`-related parsers (port of `QuoteOps`):
`closeContainer`, `closeLastChild`, `openBlock`, `appendInline`, label modifications, `endBlock`.
The bare side keeps `TP G`.
-/
namespace CM.Proofs.Nest
open CM CM.Model CM.Gen CM.Proofs.BT CM.Proofs.Quote

variable {F : Frame} {E : Env} {G : List Tree → Prop} {k : Nat} {p q : LP}

/-- Closing the last child at some depth keeps `TP`. -/
theorem tp_closeAt {x : PExt} (HG : GOK x E G) (e : Int) (root : PB) (d : Nat) (h : TP G root) :
    TP G (spineReplaceLast (closeBlock x E.src e) root d) :=
  TP_spineReplaceLast _ root d h fun c _ hc => closeBlock_TP HG e c hc

theorem qdepth_ne (h : Sim F E G k p q) : (q.depth == 0) = false := by
  have := F.d_pos
  have := h.depth
  simp; omega

theorem Sim.closeLastChild {x : PExt} (HG : GOK x E G) (h : Sim F E G k p q) {e e' : Int} (he : 0 ≤ e) (he' : 0 ≤ e')
    (hp : E.PR e e') : Sim F E G k (p.closeLastChild x e) (q.closeLastChild x e') := by
  unfold LP.closeLastChild
  have hr := h.root.closeLast HG he he' hp h.tp p.depth h.valid
  have hv : (spineGet (spineReplaceLast (closeBlock x E.src e) p.root p.depth) p.depth).isSome := by
    rw [spineReplaceLast_eq]; exact spineModify_valid _ _ _ h.valid
  have ht := tp_closeAt HG e p.root p.depth h.tp
  rw [← h.srcp, ← h.srcq] at hr
  rw [← h.srcp] at hv ht
  have := h.setRoot _ _ p.depth hr ht hv
  rw [h.depth]
  exact this

theorem Sim.closeContainer {x : PExt} (HG : GOK x E G) (h : Sim F E G k p q) (hd : 1 ≤ p.depth) {e e' : Int}
    (he : 0 ≤ e) (he' : 0 ≤ e') (hp : E.PR e e') : Sim F E G k (p.closeContainer x e) (q.closeContainer x e') := by
  unfold LP.closeContainer
  have hd1 : (p.depth == 0) = false := by simp; omega
  have hd2 : (q.depth == 0) = false := qdepth_ne h
  simp only [hd1, hd2, Bool.false_eq_true, if_false]
  have hv0 : (spineGet p.root (p.depth - 1)).isSome := spineGet_isSome_of_le p.depth p.root _ (by omega) h.valid
  have hr := h.root.closeLast HG he he' hp h.tp (p.depth - 1) hv0
  have hv : (spineGet (spineReplaceLast (closeBlock x E.src e) p.root (p.depth - 1)) (p.depth - 1)).isSome := by
    rw [spineReplaceLast_eq]; exact spineModify_valid _ _ _ hv0
  have ht := tp_closeAt HG e p.root (p.depth - 1) h.tp
  rw [← h.srcp, ← h.srcq] at hr
  rw [← h.srcp] at hv ht
  have := h.setRoot _ _ (p.depth - 1) hr ht hv
  have e1 : q.depth - 1 = p.depth - 1 + F.d := by rw [h.depth]; omega
  rw [e1]
  exact this

/-! ### `openBlock` -/

theorem Sim.openBlockLoop {x : PExt} (HG : GOK x E G) (kind : Nat) : ∀ (fuel fuel' : Nat) {p q : LP}, Sim F E G k p q →
    fuel ≤ fuel' → p.depth < fuel → (kind ≠ BK.listItem ∨ Gen.canContain p.containerKind kind = true) →
    Sim F E G k (LP.openBlockLoop x kind fuel p) (LP.openBlockLoop x kind fuel' q) := by
  intro fuel
  induction fuel with
  | zero => intro _ p q _ _ hlt _; omega
  | succ fuel ih =>
    intro fuel' p q h hle hlt hk
    obtain ⟨f', rfl⟩ : ∃ f', fuel' = f' + 1 := ⟨fuel' - 1, by omega⟩
    unfold LP.openBlockLoop
    rw [h.canContain_eq kind]
    by_cases hcc : Gen.canContain p.containerKind kind = true
    · rw [if_pos hcc, if_pos hcc]; exact h
    · rw [if_neg hcc, if_neg hcc]
      have hkind : kind ≠ BK.listItem := by
        rcases hk with hk | hk
        · exact hk
        · exact absurd hk hcc
      have hd : 1 ≤ p.depth := by
        by_cases hd0 : p.depth = 0
        · rw [(h.containerKind_zero hd0).1, doc_canContain kind hkind] at hcc
          exact absurd rfl hcc
        · omega
      have hd1 : (p.depth == 0) = false := by simp; omega
      have hd2 : (q.depth == 0) = false := qdepth_ne h
      simp only [hd1, hd2, Bool.false_eq_true, if_false]
      have hc := h.closeContainer (x := x) HG hd (Int.natCast_nonneg _) (Int.natCast_nonneg _) h.start
      have hdep : (p.closeContainer x ↑p.lineStart).depth = p.depth - 1 := by
        unfold LP.closeContainer
        rw [if_neg (by simp; omega)]
      exact ih f' hc (by omega) (by rw [hdep]; omega) (Or.inl hkind)

theorem Sim.openBlock {x : PExt} (HG : GOK x E G) (h : Sim F E G k p q) (kind : Nat) (sa : PLabel → PLabel)
    (hsa : ∀ l l', LR E l l' → LR E (sa l) (sa l')) (hsk : ∀ l, (sa l).kind = l.kind)
    (hk : kind ≠ BK.listItem ∨ Gen.canContain p.containerKind kind = true) (hk2 : kind ≠ BK.linkRefDef)
    (hk3 : kind ≠ BK.setextHeading := by decide) :
    Sim F E G k (p.openBlock x kind sa) (q.openBlock x kind sa) := by
  unfold LP.openBlock
  rw [h.cur.state]
  split
  · exact h.setPanic _
  · simp only []
    have h1 := h.markMatched
    have hk1 : kind ≠ BK.listItem ∨ Gen.canContain p.markMatched.containerKind kind = true := by
      rw [containerKind_of_tree (markMatched_tree p)]; exact hk
    have h2 := Sim.openBlockLoop HG kind (p.markMatched.depth + 1) (q.markMatched.depth + 1) h1
      (by rw [h1.depth]; omega) (by omega) hk1
    generalize LP.openBlockLoop x kind (p.markMatched.depth + 1) p.markMatched = p2 at h2 ⊢
    generalize LP.openBlockLoop x kind (q.markMatched.depth + 1) q.markMatched = q2 at h2 ⊢
    have h3 := h2.closeLastChild (x := x) HG (Int.natCast_nonneg _) (Int.natCast_nonneg _) h2.start
    generalize p2.closeLastChild x ↑p2.lineStart = p3 at h3 ⊢
    generalize q2.closeLastChild x ↑q2.lineStart = q3 at h3 ⊢
    -- the new child
    have hchild : BR E (.mk (sa { kind := kind, start := p3.lineStart + p3.i }) [] [])
        (.mk (sa { kind := kind, start := q3.lineStart + q3.i }) [] []) := by
      rw [BR_mk]
      refine ⟨hsa _ _ ⟨rfl, rfl, rfl, rfl, rfl, rfl, h3.pos, by simp, fun h0 => by simp at h0⟩, .nil, ?_⟩
      unfold InlR
      rw [hsk, if_neg hk2]
      exact .nil
    have hr := h3.root.modify (addChild _) (addChild _) p3.depth h3.valid
      (fun _ c c' _ _ r => r.addChild hchild) (fun _ Qb ht => ht.addChild hchild)
    have hv : (spineGet (spineModify (addChild (.mk (sa { kind := kind, start := p3.lineStart + p3.i }) [] [])) p3.root p3.depth)
        (p3.depth + 1)).isSome := by
      rw [spineGet_modify_add]
      cases hs3 : spineGet p3.root p3.depth with
      | none => have := h3.valid; rw [hs3] at this; cases this
      | some c =>
        obtain ⟨l, bs, is⟩ := c
        show (spineGet (PB.mk l (bs ++ [_]) is) 1).isSome
        rw [spineGet_succ]
        simp [spineGet_zero]
    have ht : TP G (spineModify (addChild (.mk (sa { kind := kind, start := p3.lineStart + p3.i }) [] [])) p3.root p3.depth) :=
      TP_spineModify _ p3.depth p3.root h3.tp fun c _ hc => by
        obtain ⟨l0, b0, i0⟩ := c
        exact TP_appendChild (b := .mk l0 b0 i0) (TP_new HG.nil _ (by rw [hsk]; exact hk3)) hc
    have := h3.setRoot _ _ (p3.depth + 1) hr ht hv
    rw [h3.depth]
    have e : p3.depth + 1 + F.d = p3.depth + F.d + 1 := by omega
    rw [e] at this
    exact this

/-! ### `appendInline`, label modifications -/

/-- Modifying the containers (below the top) by functions that respect `BR` there. -/
theorem Sim.modifyContainer (h : Sim F E G k p q) (hd : 1 ≤ p.depth) (f f' : PB → PB)
    (hf : BR E p.container q.container → BR E (f p.container) (f' q.container))
    (hft : TP G p.container → TP G (f p.container)) :
    Sim F E G k (p.modifyContainer f) (q.modifyContainer f') := by
  unfold LP.modifyContainer
  have hr := h.root.modify f f' p.depth h.valid
    (fun _ c c' hc hc' r => by
      have e1 := container_of_spineGet hc
      have e2 : q.container = c' := by apply container_of_spineGet; rw [h.depth]; exact hc'
      rw [e1, e2] at hf
      exact hf r)
    (fun h0 => by omega)
  have ht : TP G (spineModify f p.root p.depth) :=
    TP_spineModify f p.depth p.root h.tp fun c hc hcc => by
      rw [container_of_spineGet hc] at hft; exact hft hcc
  have := h.setRoot _ _ p.depth hr ht (spineModify_valid _ _ _ h.valid)
  rw [h.depth]
  exact this

theorem Sim.container_pos (h : Sim F E G k p q) (hd : 1 ≤ p.depth) : BR E p.container q.container := by
  rcases h.container with ⟨h0, _⟩ | ⟨_, r⟩
  · omega
  · exact r

/-- Appending an inline child to a container that is not paragraph-like. -/
theorem Sim.appendInline (h : Sim F E G k p q) (hd : 1 ≤ p.depth) (hk : p.containerKind ≠ BK.linkRefDef)
    (hnp : ¬ PKind p.containerKind) {t t' : Tree}
    (ht : IR E t t') : Sim F E G k (p.appendInline t) (q.appendInline t') := by
  unfold LP.appendInline
  exact h.modifyContainer hd _ _ (fun r => BR.addInl r hk ht) (fun hc => by
    have hk' : ¬ PKind p.container.kind := hnp
    generalize p.container = c at hc hk'
    obtain ⟨l0, b0, i0⟩ := c
    exact TP_appendInl_np (b := .mk l0 b0 i0) hk' hc)

/-- Appending an inline child to a paragraph-like container: `G` must hold of the extended list. -/
theorem Sim.appendInlineP (h : Sim F E G k p q) (hd : 1 ≤ p.depth) (hk : p.containerKind ≠ BK.linkRefDef) {t t' : Tree}
    (ht : IR E t t') (hg : G (p.container.inlines ++ [t])) : Sim F E G k (p.appendInline t) (q.appendInline t') := by
  unfold LP.appendInline
  exact h.modifyContainer hd _ _ (fun r => BR.addInl r hk ht) (fun hc => by
    generalize p.container = c at hc hg
    obtain ⟨l0, b0, i0⟩ := c
    rw [TP_mk] at hc
    show TP G (.mk l0 b0 (i0 ++ [t]))
    rw [TP_mk]
    exact ⟨fun hp => ⟨hg, (hc.1 hp).2⟩, hc.2⟩)

theorem Sim.setLabel (h : Sim F E G k p q) (hd : 1 ≤ p.depth) (g : PLabel → PLabel)
    (hg : ∀ l l', LR E l l' → LR E (g l) (g l')) (hk : p.containerKind ≠ BK.linkRefDef)
    (hk' : (g p.container.label).kind ≠ BK.linkRefDef) (hpk : ∀ l, (g l).kind = l.kind) :
    Sim F E G k (p.modifyContainer (PB.setLabel g)) (q.modifyContainer (PB.setLabel g)) :=
  h.modifyContainer hd _ _ (fun r => r.setLabel' g (hg _ _ r.label) hk hk') (fun hc => TP_setLabel hpk hc)

theorem Sim.setContainerIndent (h : Sim F E G k p q) (hd : 1 ≤ p.depth) (n : Int) :
    Sim F E G k (p.setContainerIndent n) (q.setContainerIndent n) := by
  unfold LP.setContainerIndent
  rw [h.cur.state]
  split
  · exact h.setPanic _
  · have e : q.containerKind = p.containerKind := h.containerKind_pos hd
    rw [e]
    split
    · exact h.setPanic _
    · rename_i hk0
      have hk : p.containerKind = BK.listItem ∨ p.containerKind = BK.fencedCode := by
        simp only [Bool.and_eq_true, bne_iff_ne, ne_eq, not_and, Decidable.not_not] at hk0
        by_cases h1 : p.containerKind = BK.listItem
        · exact Or.inl h1
        · exact Or.inr (hk0 h1)
      apply h.setLabel hd
      · intro l l' r; exact r.setIndent n
      · rcases hk with hk | hk <;> rw [hk] <;> decide
      · show p.container.label.kind ≠ _
        have : p.container.label.kind = p.containerKind := rfl
        rw [this]
        rcases hk with hk | hk <;> rw [hk] <;> decide
      · intro l; rfl

/-! ### `endBlock` -/

theorem Sim.endBlock {x : PExt} (HG : GOK x E G) (h : Sim F E G k p q) (hd : 1 ≤ p.depth) :
    Sim F E G k (p.endBlock x) (q.endBlock x) := by
  unfold LP.endBlock
  rw [h.cur.state]
  split
  · exact h.setPanic _
  · simp only []
    have h1 := h.markMatched
    have hd1 : 1 ≤ p.markMatched.depth := by
      have := markMatched_tree p
      simp only [tree, Prod.mk.injEq] at this
      rw [this.2.2.1]; exact hd
    exact h1.closeContainer HG hd1 (by omega) (by omega) h1.pos

end CM.Proofs.Nest
