import CM.Proofs.ParseScanMain
/-
C02 / C04, inline halves — **the assembly**, part 1: `rewriteE` under hypotheses that range over `conts t` (the containers
the inline phase actually visits: `rewriteE` and `conts` have the same recursion) and that allow the content-less container
(`EmptyRun`: one empty Unparsed run; the inline phase returns no child there, `PSh.parseInlines_empty`, so no scanner fact
is needed).
-/
namespace CM.Proofs.PSc
open CM CM.Model CM.Gen CM.Spec CM.Model.Inl
open CM.Proofs CM.Proofs.PW CM.Proofs.RK CM.Proofs.InlH CM.Proofs.InlH2 CM.Proofs.PS CM.Proofs.PSh

/-- every container the inline phase visits is content-less or `ContOK2` -/
def ContsOK2E (x : IExt) (src : Bytes) (srcA : Array UInt8) (matchRef : Bytes → Bool) (t : Tree) : Prop :=
  ∀ p ∈ conts t, EmptyRun p.2 ∨ ContOK2 x src srcA matchRef (.node p.1 p.2)

/-- every container the inline phase visits is content-less or `TokNP` -/
def ContsNPE (x : IExt) (src : Bytes) (srcA : Array UInt8) (matchRef : Bytes → Bool) (t : Tree) : Prop :=
  ∀ p ∈ conts t, EmptyRun p.2 ∨ TokNP (inlCtx x src srcA matchRef p.2)

theorem conts_self {l : Label} {cs : List Tree} (hb : l.isBlock = true) (hu : hasUnparsed cs = true) :
    conts (.node l cs) = [(l, cs)] := by
  rw [conts]; simp [hb, hu]

theorem conts_rec {l : Label} {cs : List Tree} (hb : l.isBlock = true) (hu : ¬ hasUnparsed cs = true) :
    conts (.node l cs) = contsL cs := by
  rw [conts]; simp [hb, hu]

theorem conts_child {l : Label} {cs : List Tree} (hb : l.isBlock = true) (hu : ¬ hasUnparsed cs = true)
    {c : Tree} (hc : c ∈ cs) {p : Label × List Tree} (hp : p ∈ conts c) : p ∈ conts (.node l cs) := by
  rw [conts_rec hb hu]
  exact mem_contsL.2 ⟨c, hc, hp⟩

/-- The old (`T.nodes`-quantified) hypotheses imply the new ones. -/
theorem ContsOK2.toE {x : IExt} {src : Bytes} {srcA : Array UInt8} {matchRef : Bytes → Bool} {t : Tree}
    (h : ContsOK2 x src srcA matchRef t) : ContsOK2E x src srcA matchRef t := by
  intro p hp
  obtain ⟨hn, hb, hu⟩ := conts_sub _ t (Nat.le_refl _) p hp
  exact Or.inr (h _ hn hb hu)

theorem ContsNP.toE {x : IExt} {src : Bytes} {srcA : Array UInt8} {matchRef : Bytes → Bool} {t : Tree}
    (h : ContsNP x src srcA matchRef t) : ContsNPE x src srcA matchRef t := by
  intro p hp
  obtain ⟨hn, hb, hu⟩ := conts_sub _ t (Nat.le_refl _) p hp
  exact Or.inr (h _ hn hb hu)

mutual
/-- `rewriteE` keeps the label of the root and the span discipline (`InlH2.rewriteE_WFT` under `ContsOK2E`). -/
theorem rewriteE_WFT_E (x : IExt) (src : Bytes) (srcA : Array UInt8) (matchRef : Bytes → Bool) :
    (t : Tree) → WFT t → ContsOK2E x src srcA matchRef t → ∀ t', rewriteE x src srcA matchRef t = .ok t' →
      WFT t' ∧ t'.label = t.label
  | .node l cs, hw, hc, t', h => by
    rw [rewriteE] at h
    split at h
    · cases h; exact ⟨hw, rfl⟩
    · rename_i hb
      have hb' : l.isBlock = true := by simpa using hb
      split at h
      · rename_i hu
        split at h
        · rename_i kids hk
          cases h
          have hmem : (l, cs) ∈ conts (.node l cs) := by rw [conts_self hb' hu]; exact List.mem_singleton.2 rfl
          rw [WFT_iff] at hw ⊢
          rcases hc _ hmem with ⟨t0, he, hb0, hk0, he0⟩ | ⟨c0, cT, cS⟩
          · simp only at he
            subst he
            rw [parseInlines_empty x src srcA matchRef l.start l.stop t0 hb0 hk0 he0] at hk
            cases hk
            exact ⟨⟨hw.1, (WFL_nil _ _).2 hw.2.le⟩, rfl⟩
          · exact ⟨⟨hw.1, parseInlines_spans x src srcA matchRef l.start l.stop cs c0 hw.2 cT cS kids hk⟩, rfl⟩
        · cases h
      · rename_i hu
        split at h
        · rename_i kids hk
          cases h
          rw [WFT_iff] at hw ⊢
          exact ⟨⟨hw.1, rewriteForestE_WFL_E x src srcA matchRef cs l.start l.stop hw.2
            (fun c hc' p hp => hc p (conts_child hb' hu hc' hp)) kids hk⟩, rfl⟩
        · cases h
theorem rewriteForestE_WFL_E (x : IExt) (src : Bytes) (srcA : Array UInt8) (matchRef : Bytes → Bool) :
    (ts : List Tree) → ∀ lo hi, WFL lo hi ts → (∀ t ∈ ts, ContsOK2E x src srcA matchRef t) →
      ∀ ts', rewriteForestE x src srcA matchRef ts = .ok ts' → WFL lo hi ts'
  | [], lo, hi, hw, _, ts', h => by
    rw [rewriteForestE] at h
    cases h; exact hw
  | t :: ts, lo, hi, hw, hc, ts', h => by
    rw [rewriteForestE] at h
    split at h
    · cases h
    · rename_i t' ht
      split at h
      · cases h
      · rename_i ts'' hts
        cases h
        rw [WFL_cons] at hw ⊢
        obtain ⟨h1, h2, h3⟩ := hw
        obtain ⟨g1, g2⟩ := rewriteE_WFT_E x src srcA matchRef t h2 (hc t (List.mem_cons_self ..)) t' ht
        rw [g2]
        exact ⟨h1, g1, rewriteForestE_WFL_E x src srcA matchRef ts _ _ h3
          (fun c hc' => hc c (List.mem_cons_of_mem _ hc')) ts'' hts⟩
end

/-- **C02, inline half, on whole trees, hypotheses per visited container** (`InlH2.rewriteE_spansOK_nodes` with
    `ContsOK2E`: content-less containers need no scanner fact). -/
theorem rewriteE_spansOK_nodes_E (x : IExt) (src : Bytes) (srcA : Array UInt8) (matchRef : Bytes → Bool) (t t' : Tree)
    (n : Nat) (hw : WFT t) (h0 : 0 ≤ t.label.start) (hn : t.label.stop ≤ n) (hc : ContsOK2E x src srcA matchRef t)
    (h : rewriteE x src srcA matchRef t = .ok t') :
    ∀ u ∈ T.nodes t', spanValid n u = true ∧ Spec.childrenInside u = true ∧ siblingsOrdered u.children = true := by
  obtain ⟨g1, g2⟩ := rewriteE_WFT_E x src srcA matchRef t hw hc t' h
  exact g1.spansOK_nodes n (by rw [g2]; exact h0) (by rw [g2]; exact hn)

mutual
/-- **The inline phase on a block tree does not panic** (`InlH2.rewriteE_noPanic` with `ContsOK2E` / `ContsNPE`). -/
theorem rewriteE_noPanic_E (x : IExt) (src : Bytes) (srcA : Array UInt8) (matchRef : Bytes → Bool) :
    (t : Tree) → WFT t → t.label.stop ≤ srcA.size → ContsOK2E x src srcA matchRef t → ContsNPE x src srcA matchRef t →
      ∀ msg, rewriteE x src srcA matchRef t ≠ .error (.panic msg)
  | .node l cs, hw, hn, hc, hp, msg, h => by
    rw [rewriteE] at h
    split at h
    · cases h
    · rename_i hb
      have hb' : l.isBlock = true := by simpa using hb
      split at h
      · rename_i hu
        split at h
        · cases h
        · rename_i e hk
          cases h
          have hmem : (l, cs) ∈ conts (.node l cs) := by rw [conts_self hb' hu]; exact List.mem_singleton.2 rfl
          rw [WFT_iff] at hw
          rcases hc _ hmem with ⟨t0, he, hb0, hk0, he0⟩ | ⟨c0, cT, cS⟩
          · simp only at he
            subst he
            rw [parseInlines_empty x src srcA matchRef l.start l.stop t0 hb0 hk0 he0] at hk
            cases hk
          · rcases hp _ hmem with ⟨t0, he, hb0, hk0, he0⟩ | hN
            · simp only at he
              subst he
              rw [parseInlines_empty x src srcA matchRef l.start l.stop t0 hb0 hk0 he0] at hk
              cases hk
            · exact parseInlines_noPanic x src srcA matchRef l.start l.stop cs c0 hn hw.2 cT cS hN msg hk
      · rename_i hu
        split at h
        · cases h
        · rename_i e hk
          cases h
          rw [WFT_iff] at hw
          exact rewriteForestE_noPanic_E x src srcA matchRef cs l.start l.stop hw.2 hn
            (fun c hc' p hp' => hc p (conts_child hb' hu hc' hp'))
            (fun c hc' p hp' => hp p (conts_child hb' hu hc' hp')) msg hk
theorem rewriteForestE_noPanic_E (x : IExt) (src : Bytes) (srcA : Array UInt8) (matchRef : Bytes → Bool) :
    (ts : List Tree) → ∀ lo hi, WFL lo hi ts → hi ≤ srcA.size → (∀ t ∈ ts, ContsOK2E x src srcA matchRef t) →
      (∀ t ∈ ts, ContsNPE x src srcA matchRef t) → ∀ msg, rewriteForestE x src srcA matchRef ts ≠ .error (.panic msg)
  | [], lo, hi, hw, _, _, _, msg, h => by
    rw [rewriteForestE] at h
    cases h
  | t :: ts, lo, hi, hw, hn, hc, hp, msg, h => by
    rw [rewriteForestE] at h
    rw [WFL_cons] at hw
    obtain ⟨h1, h2, h3⟩ := hw
    have hle := h3.le
    split at h
    · rename_i e ht
      cases h
      exact rewriteE_noPanic_E x src srcA matchRef t h2 (by omega) (hc t (List.mem_cons_self ..))
        (hp t (List.mem_cons_self ..)) msg ht
    · split at h
      · rename_i e hts
        cases h
        exact rewriteForestE_noPanic_E x src srcA matchRef ts _ _ h3 hn (fun c hc' => hc c (List.mem_cons_of_mem _ hc'))
          (fun c hc' => hp c (List.mem_cons_of_mem _ hc')) msg hts
      · cases h
end

end CM.Proofs.PSc
