import CM.Proofs.EolRecognize
import CM.Model.HTMLTag
/-
C14 (a)/(c), recognizer level, part 2: the HTML block start conditions 1–6 and the HTML block end conditions.

* Start conditions 1–6 (`htmlBlockStart 0 … 5`) are invariant under any CR/LF suffix, the empty one included.
* End conditions: parse.go `contains` / `caseInsensitiveContains` never test the last position
  (`i < len(b)-len(search)`), so on `l ++ e` with a non-empty line ending they are exactly "the search string
  occurs in `l`" (`occurs`), independently of the ending — clause (a). On a line WITHOUT line ending (the last line
  of an input without final newline) an occurrence at the very end of the line is missed: the end condition is
  only implied, and `<!-- a -->` is a witness that the converse fails — clause (c) does not hold at this level.
-/
namespace CM.Proofs
open CM CM.Model CM.Gen

def NoNL (s : Bytes) : Prop := ∀ c ∈ s, isNL c = false

theorem any_congr_mem {α : Type} (l : List α) (p q : α → Bool) (h : ∀ a ∈ l, p a = q a) : l.any p = l.any q := by
  induction l with
  | nil => rfl
  | cons a t ih =>
    simp only [List.any_cons, h a (by simp), ih (fun x hx => h x (by simp [hx]))]

/-! ### `hasCIPrefix` -/

theorem toLower_nl : ∀ c : UInt8, isNL c = true → toLowerASCII c = c := by
  intro c hc
  have : c = 0x0A ∨ c = 0x0D := by simpa [isNL] using hc
  rcases this with h | h <;> subst h <;> decide

theorem isNL_toLower : ∀ c : UInt8, isNL (toLowerASCII c) = isNL c := by
  apply forall_uint8; decide +kernel

theorem hasCIPrefix_eq (b p : Bytes) : hasCIPrefix b p = hasBytePrefix (b.map toLowerASCII) (p.map toLowerASCII) := by
  induction b generalizing p with
  | nil =>
    cases p with
    | nil => simp [hasCIPrefix, hasBytePrefix]
    | cons q qs => simp [hasCIPrefix, hasBytePrefix]
  | cons c cs ih =>
    cases p with
    | nil => simp [hasCIPrefix, hasBytePrefix]
    | cons q qs =>
      have := ih qs
      simp only [hasCIPrefix, List.length_cons, List.take_succ_cons, List.map_cons, hasBytePrefix] at this ⊢
      rw [← this, List.cons_beq_cons]
      simp only [ge_iff_le, Nat.add_le_add_iff_right]
      cases decide (qs.length ≤ cs.length) <;> simp

theorem map_toLower_eol {e : Bytes} (he : EolBytes e) : e.map toLowerASCII = e := by
  induction e with
  | nil => rfl
  | cons c t ih =>
    rw [List.map_cons, toLower_nl c (he c (by simp)), ih (fun x hx => he x (by simp [hx]))]

theorem noNL_map_toLower {s : Bytes} (hs : NoNL s) : NoNL (s.map toLowerASCII) := by
  intro c hc
  obtain ⟨x, hx, rfl⟩ := List.mem_map.1 hc
  rw [isNL_toLower]; exact hs x hx

theorem hasCIPrefix_append_eol (l : Bytes) {e : Bytes} (he : EolBytes e) (s : Bytes) (hs : NoNL s) :
    hasCIPrefix (l ++ e) s = hasCIPrefix l s := by
  rw [hasCIPrefix_eq, hasCIPrefix_eq, List.map_append, map_toLower_eol he,
    hasBytePrefix_append_eol _ he _ (noNL_map_toLower hs)]

theorem hasCIPrefix_length {b p : Bytes} (h : hasCIPrefix b p = true) : p.length ≤ b.length := by
  simp only [hasCIPrefix, Bool.and_eq_true, decide_eq_true_eq] at h
  exact h.1

theorem hasBytePrefix_length {b p : Bytes} (h : hasBytePrefix b p = true) : p.length ≤ b.length := by
  induction b generalizing p with
  | nil => cases p with
    | nil => simp
    | cons q qs => simp [hasBytePrefix] at h
  | cons c cs ih => cases p with
    | nil => simp
    | cons q qs =>
      simp only [hasBytePrefix, Bool.and_eq_true] at h
      have := ih h.2
      simp; omega

/-! ### Start conditions 1–6 -/

theorem startsTag_append_eol (l : Bytes) {e : Bytes} (he : EolBytes e) (names : List Bytes)
    (hn : ∀ n ∈ names, NoNL n) (allow : Bool) :
    startsTag (l ++ e) names allow = startsTag l names allow := by
  unfold startsTag
  apply any_congr_mem
  intro n hnm
  rw [hasCIPrefix_append_eol l he n (hn n hnm)]
  cases hp : hasCIPrefix l n with
  | false => rfl
  | true =>
    have hlen := hasCIPrefix_length hp
    simp only [Bool.true_and]
    rw [List.drop_append_of_le_length hlen]
    cases hr : List.drop n.length l with
    | nil =>
      cases e with
      | nil => rfl
      | cons c t => simp [(isNL_facts c (he c (by simp))).1]
    | cons b t =>
      have : hasBytePrefix (b :: t ++ e) [0x2F, 0x3E] = hasBytePrefix (b :: t) [0x2F, 0x3E] :=
        hasBytePrefix_append_eol _ he _ (by intro c hc; simp at hc; rcases hc with h | h <;> subst h <;> decide)
      simp only [List.cons_append, List.isEmpty_cons, List.headD_cons] at this ⊢
      rw [this]

theorem noNL_starters1 : ∀ n ∈ htmlBlockStarters1, NoNL n := by
  intro n hn c hc
  have : (htmlBlockStarters1.all fun n => n.all fun c => !isNL c) = true := by decide +kernel
  have := List.all_eq_true.1 (List.all_eq_true.1 this n hn) c hc
  simpa using this

theorem noNL_starters6 : ∀ n ∈ htmlBlockStarters6, NoNL n := by
  intro n hn c hc
  have : (htmlBlockStarters6.all fun n => n.all fun c => !isNL c) = true := by decide +kernel
  have := List.all_eq_true.1 (List.all_eq_true.1 this n hn) c hc
  simpa using this

theorem noNL_enders1 : ∀ n ∈ htmlBlockEnders1, NoNL n := by
  intro n hn c hc
  have : (htmlBlockEnders1.all fun n => n.all fun c => !isNL c) = true := by decide +kernel
  have := List.all_eq_true.1 (List.all_eq_true.1 this n hn) c hc
  simpa using this

theorem noNL_of_all {s : Bytes} (h : (s.all fun c => !isNL c) = true) : NoNL s := by
  intro c hc
  have := List.all_eq_true.1 h c hc
  simpa using this

/-- HTML block start conditions 1–6 do not see the line ending (any CR/LF suffix, the empty one included). -/
theorem htmlBlockStart_append_eol (i : Nat) (hi : i ≠ 6) (l : Bytes) {e : Bytes} (he : EolBytes e) :
    htmlBlockStart i (l ++ e) = htmlBlockStart i l := by
  match i, hi with
  | 0, _ => exact startsTag_append_eol l he _ noNL_starters1 false
  | 1, _ => exact hasBytePrefix_append_eol l he _ (noNL_of_all (by decide))
  | 2, _ => exact hasBytePrefix_append_eol l he _ (noNL_of_all (by decide))
  | 3, _ =>
    simp only [htmlBlockStart, htmlBlockStart.hasHTMLDeclarationPrefixM]
    rw [hasBytePrefix_append_eol l he _ (noNL_of_all (by decide))]
    cases hp : hasBytePrefix l [0x3C, 0x21] with
    | false => rfl
    | true =>
      have hlen := hasBytePrefix_length hp
      simp only [Bool.true_and]
      by_cases h3 : 3 ≤ l.length
      · have h3' : 3 ≤ (l ++ e).length := by simp; omega
        simp only [ge_iff_le, h3, h3', decide_true, Bool.true_and, List.getD_eq_getElem?_getD]
        rw [List.getElem?_append_left (by omega)]
      · have h2 : l.length = 2 := by simp at hlen; omega
        simp only [ge_iff_le, h3, decide_false, Bool.false_and, Bool.and_eq_false_iff, decide_eq_false_iff_not]
        by_cases h3' : 3 ≤ (l ++ e).length
        · right
          cases e with
          | nil => simp at h3'; omega
          | cons c t =>
            rw [List.getD_eq_getElem?_getD, List.getElem?_append_right (by omega), h2]
            have hc : c = 0x0A ∨ c = 0x0D := by simpa [isNL] using he c (by simp)
            simp only [Nat.sub_self, List.getElem?_cons_zero, Option.getD_some]
            rcases hc with h | h <;> subst h <;> decide
        · left; exact h3'
  | 4, _ => exact hasBytePrefix_append_eol l he _ (noNL_of_all (by decide))
  | 5, _ =>
    simp only [htmlBlockStart]
    rw [hasBytePrefix_append_eol l he _ (noNL_of_all (by decide)),
      hasBytePrefix_append_eol l he [0x3C] (noNL_of_all (by decide))]
    split
    · rename_i hp
      rw [List.drop_append_of_le_length (by simpa using hasBytePrefix_length hp)]
      exact startsTag_append_eol _ he _ noNL_starters6 true
    · split
      · rename_i hp
        rw [List.drop_append_of_le_length (by simpa using hasBytePrefix_length hp)]
        exact startsTag_append_eol _ he _ noNL_starters6 true
      · rfl
  | 6, h => exact absurd rfl h
  | n + 7, _ => rfl

/-! ### End conditions: `contains` -/

/-- `search` occurs in `l` (a true infix test, every position tested). -/
def occurs (search : Bytes) : Bytes → Bool
  | [] => hasBytePrefix [] search
  | b :: t => hasBytePrefix (b :: t) search || occurs search t

theorem hasBytePrefix_short {b s : Bytes} (h : b.length < s.length) : hasBytePrefix b s = false := by
  cases hp : hasBytePrefix b s with
  | false => rfl
  | true => have := hasBytePrefix_length hp; omega

theorem occurs_short {l s : Bytes} (h : l.length < s.length) : occurs s l = false := by
  induction l with
  | nil => exact hasBytePrefix_short h
  | cons b t ih =>
    simp only [occurs, hasBytePrefix_short h, Bool.false_or]
    exact ih (by simp at h; omega)

theorem hasBytePrefix_eol {e : Bytes} (he : EolBytes e) {s : Bytes} (hs : NoNL s) (hne : s ≠ []) :
    hasBytePrefix e s = false := by
  have := hasBytePrefix_append_eol [] he s hs
  rw [List.nil_append] at this
  rw [this]
  cases s with
  | nil => exact absurd rfl hne
  | cons q qs => rfl

theorem containsAux_eol {e : Bytes} (he : EolBytes e) {s : Bytes} (hs : NoNL s) (hne : s ≠ []) (k : Nat) :
    containsAux s e k = false := by
  induction e generalizing k with
  | nil => cases k <;> rfl
  | cons c t ih =>
    cases k with
    | zero => rfl
    | succ k =>
      rw [containsAux, hasBytePrefix_eol he hs hne, Bool.false_or]
      exact ih (fun x hx => he x (by simp [hx])) k

/-- On a line with a (non-empty) line ending, Go's `contains` is a true infix test on the body. -/
theorem contains_append_eol (l : Bytes) {e : Bytes} (he : EolBytes e) (hne : e ≠ []) {s : Bytes} (hs : NoNL s)
    (hsne : s ≠ []) : contains (l ++ e) s = occurs s l := by
  have hepos : 0 < e.length := List.length_pos_iff.2 hne
  induction l with
  | nil =>
    rw [List.nil_append, contains, containsAux_eol he hs hsne]
    cases s with
    | nil => exact absurd rfl hsne
    | cons q qs => rfl
  | cons b t ih =>
    unfold contains at ih ⊢
    by_cases hk : (b :: t ++ e).length - s.length = 0
    · rw [hk]
      have : (b :: t).length < s.length := by simp at hk ⊢; omega
      rw [occurs_short this]
      rfl
    · have hk' : (b :: t ++ e).length - s.length = ((t ++ e).length - s.length) + 1 := by
        simp at hk ⊢; omega
      rw [hk', List.cons_append, containsAux, ih, occurs]
      have := hasBytePrefix_append_eol (b :: t) he s hs
      rw [List.cons_append] at this
      rw [this]

/-- `contains` on any line implies a true occurrence (the converse fails at the last position). -/
theorem occurs_of_containsAux (s : Bytes) : ∀ (l : Bytes) (k : Nat), containsAux s l k = true → occurs s l = true := by
  intro l
  induction l with
  | nil => intro k h; cases k <;> simp [containsAux] at h
  | cons b t ih =>
    intro k h
    cases k with
    | zero => simp [containsAux] at h
    | succ k =>
      simp only [containsAux, Bool.or_eq_true] at h
      simp only [occurs, Bool.or_eq_true]
      rcases h with h | h
      · exact Or.inl h
      · exact Or.inr (ih k h)

theorem occurs_of_contains (l s : Bytes) (h : contains l s = true) : occurs s l = true :=
  occurs_of_containsAux s l _ h

/-! ### `ciContains` -/

theorem ciContainsAux_eq (s : Bytes) : ∀ (b : Bytes) (k : Nat),
    ciContainsAux s b k = containsAux (s.map toLowerASCII) (b.map toLowerASCII) k := by
  intro b
  induction b with
  | nil => intro k; cases k <;> rfl
  | cons c t ih =>
    intro k
    cases k with
    | zero => rfl
    | succ k =>
      rw [ciContainsAux, hasCIPrefix_eq, ih k]
      rfl

theorem ciContains_eq (b s : Bytes) : ciContains b s = contains (b.map toLowerASCII) (s.map toLowerASCII) := by
  simp only [ciContains, contains, ciContainsAux_eq, List.length_map]

theorem ciContains_append_eol (l : Bytes) {e : Bytes} (he : EolBytes e) (hne : e ≠ []) {s : Bytes} (hs : NoNL s)
    (hsne : s ≠ []) : ciContains (l ++ e) s = occurs (s.map toLowerASCII) (l.map toLowerASCII) := by
  rw [ciContains_eq, List.map_append, map_toLower_eol he,
    contains_append_eol _ he hne (noNL_map_toLower hs) (by simpa using hsne)]

/-! ### The end conditions -/

/-- What the end condition `i` means on a line body `l` when the line has a line ending. -/
def htmlBlockEndBody (i : Nat) (l : Bytes) : Bool :=
  match i with
  | 0 => htmlBlockEnders1.any fun s => occurs (s.map toLowerASCII) (l.map toLowerASCII)
  | 1 => occurs htmlCommentSuffix l
  | 2 => occurs processingInstructionSuffix l
  | 3 => occurs [0x3E] l
  | 4 => occurs cdataSuffix l
  | 5 => isBlankLine l
  | 6 => isBlankLine l
  | _ => false

theorem ne_nil_enders1 : ∀ n ∈ htmlBlockEnders1, n ≠ [] := by
  intro n hn h
  subst h
  revert hn; decide

/-- Clause (a) for the HTML block end conditions: with any non-empty line ending the condition is a function of the
    body alone. -/
theorem htmlBlockEnd_append_eol (i : Nat) (l : Bytes) {e : Bytes} (he : EolBytes e) (hne : e ≠ []) :
    htmlBlockEnd i (l ++ e) = htmlBlockEndBody i l := by
  match i with
  | 0 =>
    simp only [htmlBlockEnd, htmlBlockEndBody]
    apply any_congr_mem
    intro s hs
    exact ciContains_append_eol l he hne (noNL_enders1 s hs) (ne_nil_enders1 s hs)
  | 1 => exact contains_append_eol l he hne (noNL_of_all (by decide)) (by decide)
  | 2 => exact contains_append_eol l he hne (noNL_of_all (by decide)) (by decide)
  | 3 => exact contains_append_eol l he hne (noNL_of_all (by decide)) (by decide)
  | 4 => exact contains_append_eol l he hne (noNL_of_all (by decide)) (by decide)
  | 5 => exact isBlankLine_append_eol l he
  | 6 => exact isBlankLine_append_eol l he
  | n + 7 => rfl

/-- Clause (c) for the end conditions, the half that holds: a condition met by the bare body is met by the
    terminated line. -/
theorem htmlBlockEnd_body_imp (i : Nat) (l : Bytes) (h : htmlBlockEnd i l = true) : htmlBlockEndBody i l = true := by
  match i with
  | 0 =>
    simp only [htmlBlockEnd, htmlBlockEndBody, List.any_eq_true] at h ⊢
    obtain ⟨s, hs, h⟩ := h
    refine ⟨s, hs, ?_⟩
    rw [ciContains_eq] at h
    exact occurs_of_contains _ _ h
  | 1 => exact occurs_of_contains _ _ h
  | 2 => exact occurs_of_contains _ _ h
  | 3 => exact occurs_of_contains _ _ h
  | 4 => exact occurs_of_contains _ _ h
  | 5 => exact h
  | 6 => exact h
  | n + 7 => exact h

/-- The other half of (c) fails: `<!-- a -->` with no line ending does not meet end condition 2 (the `-->` at the very
    end is never tested by Go's `contains`), with a final newline it does. (Block level: the HTML block then stays
    open to the end of input and the last line is added by `addLineText` instead of `CollectInline`.) -/
def htmlBlockEnd_final_newline_target : Prop :=
  ∀ (i : Nat) (l : Bytes), NoNL l → htmlBlockEnd i (l ++ [LF]) = htmlBlockEnd i l

theorem htmlBlockEnd_final_newline_target_false : ¬ htmlBlockEnd_final_newline_target := by
  intro h
  have := h 1 [0x3C, 0x21, 0x2D, 0x2D, 0x20, 0x61, 0x20, 0x2D, 0x2D, 0x3E] (noNL_of_all (by decide))
  revert this
  decide +kernel

example : htmlBlockEnd 1 [0x3C, 0x21, 0x2D, 0x2D, 0x20, 0x61, 0x20, 0x2D, 0x2D, 0x3E] = false ∧
    htmlBlockEnd 1 [0x3C, 0x21, 0x2D, 0x2D, 0x20, 0x61, 0x20, 0x2D, 0x2D, 0x3E, 0x0A] = true ∧
    htmlBlockEnd 1 [0x3C, 0x21, 0x2D, 0x2D, 0x20, 0x61, 0x20, 0x2D, 0x2D, 0x3E, 0x0D, 0x0A] = true ∧
    htmlBlockEnd 1 [0x3C, 0x21, 0x2D, 0x2D, 0x20, 0x61, 0x20, 0x2D, 0x2D, 0x3E, 0x0D] = true := by decide +kernel

end CM.Proofs
