import CM.Proofs.ParseWholeStream
import CM.Proofs.BlocksContractFinal
import CM.Proofs.TilingRun
/-
Whole-`Parse` theorems, part 9: the delivered roots and the PADDED buffer they were cut from.

`RootGood` (`ParseWholeStream.lean`) says `r.source = fillNulls (S.take n)` for some buffer `S`.  To read a slice of
`r.source` as a slice of `S` one needs that `S` is the NUL padding of some input (`Padded S`): `fillNulls` overwrites up to
two bytes after a NUL that does not start a padded group.  That the cuts of the stream machine never split a padded group
is part of the C01 contract (`LPContract`, proved for the real block parser in `BlocksContractFinal.lean`).

* `rootFrom` (generic): for a contract `C` and a predicate `RP` on (source seen by the line parser, first child) that
  holds in every `C.Ok` state and for every `C.Pend` list, every root delivered by `drain L fuel (memParser inp) []`
  was cut from a padded buffer `buf` at a position `≤ i ≤ |buf|` with `RP (buf.take i) r.block`.
* `strengthen`: the contract of `blocksLP x` together with the invariant `PBI (Good src)`.
* `drain_good_padded`: the instance.
-/
namespace CM.Model
open CM CM.Gen CM.Spec

/-- The delivered root was cut from the padded buffer `buf` whose first `i` bytes the line parser had seen. -/
def RootFrom (RP : Bytes → PB → Prop) (r : Root) : Prop :=
  ∃ (buf : Bytes) (i : Nat), Padded buf ∧ stopOf r.block ≤ i ∧ i ≤ buf.length ∧
    r.source = fillNulls (buf.take (stopOf r.block)) ∧ RP (buf.take i) r.block

section
variable {L : LineParserI} (C : LPContract L) {RP : Bytes → PB → Prop}
variable (hok : ∀ σ src ls k rest, C.Ok σ src ls → L.kids σ = k :: rest → k.isOpen = false → RP src k)
variable (hpend : ∀ src k rest, C.Pend (k :: rest) src → k.isOpen = false → RP src k)

theorem makeRoot_closed_eq (p : BP) (k : PB) (rest : List PB) (hk : k.isOpen = false) {r : Root} {p' : BP}
    (h : makeRoot p (k :: rest) = some (r, p')) :
    r.block = k ∧ r.source = fillNulls (p.buf.take (stopOf k)) := by
  simp only [makeRoot, hk, Bool.false_eq_true, if_false, Option.some.injEq, Prod.mk.injEq] at h
  obtain ⟨rfl, _⟩ := h
  exact ⟨rfl, rfl⟩

include hok in
theorem parseLines_rootFrom {x : Bytes} :
    ∀ (fuel : Nat) {p : BP} {c y : Bytes} (σ : L.σ) (ls : Nat), MInv x p c y →
    C.Ok (L.line σ (p.buf.take p.i) ls) (p.buf.take p.i) ls →
    ∀ r p', parseLines L fuel σ ls p = (.block r, p') → RootFrom RP r := by
  intro fuel
  induction fuel with
  | zero => intro p c y σ ls _ _ r p' h; simp [parseLines] at h
  | succ fuel ih =>
    intro p c y σ ls h hOk r p' hres
    have hil := h.i_le
    have hsl : (p.buf.take p.i).length = p.i := by simp [hil]
    obtain ⟨hpan, hne, hkids, heof⟩ := checkStep_elim (C.obs _ _ _ hOk)
    simp only [parseLines, hpan] at hres
    cases hk : L.kids (L.line σ (p.buf.take p.i) ls) with
    | nil => exact absurd hk hne
    | cons k rest =>
      rw [hk] at hkids heof hres
      by_cases hopen : k.isOpen = true
      · have hrest : rest = [] := kidsOK_cons_open hopen hkids
        subst hrest
        simp only [makeRoot_none_of_open p hopen, h.readline_eq] at hres
        obtain ⟨hpad, hline, hns, htake, -⟩ := h.line_facts
        have hok' := C.next _ _ ls _ hOk (by rw [hk]; exact hopen) hpad hline hns
        rw [hsl, ← htake] at hok'
        exact ih (L.line σ (p.buf.take p.i) ls) p.i h.readline hok' r p' hres
      · have hclosed : k.isOpen = false := by simpa using hopen
        obtain ⟨_, hle, _, _⟩ := kidsOK_cons_closed hclosed hkids
        rw [hsl] at hle
        cases hmk : makeRoot p (k :: rest) with
        | none => simp [makeRoot, hclosed] at hmk
        | some rp =>
          obtain ⟨r0, p0⟩ := rp
          rw [hmk] at hres
          simp only [Prod.mk.injEq, NBOut.block.injEq] at hres
          obtain ⟨rfl, rfl⟩ := hres
          obtain ⟨hb, hs⟩ := makeRoot_closed_eq p k rest hclosed hmk
          refine ⟨p.buf, p.i, ⟨y, h.buf⟩, by rw [hb]; exact hle, hil, by rw [hb]; exact hs, ?_⟩
          rw [hb]
          exact hok _ _ ls k rest hOk hk hclosed

include hok hpend in
theorem nextBlock_rootFrom {x : Bytes} {p : BP} {c y : Bytes}
    (h : MInv x p c y) (hp : PendInv C p.blocks (p.buf.take p.i)) :
    ∀ r p', nextBlock L p = (.block r, p') → RootFrom RP r := by
  intro r p' hres
  have hil := h.i_le
  have hsl : (p.buf.take p.i).length = p.i := by simp [hil]
  rcases hp with ⟨hb, hblank⟩ | ⟨hb, hpd⟩
  · -- no left-over blocks
    have hmk : makeRoot p p.blocks = none := by rw [hb]; simp [makeRoot]
    have hlen : ¬ (p.blocks.length > 0) := by rw [hb]; simp
    simp only [nextBlock, hmk, hlen, if_false] at hres
    let p0 : BP := { p with offset := p.offset + unpaddedNullLength (p.buf.take p.i),
                            lineno := p.lineno + lineCount (p.buf.take p.i), buf := p.buf.drop p.i, i := 0 }
    obtain ⟨g, y₂, e, ht, -, hM⟩ :=
      h.advance (n := p.i) (Nat.le_refl _) h.cut_i p0 rfl rfl (fun _ => rfl) (by simp [p0]) rfl rfl h.panic
    have hf : y₂.length + 1 ≤ bpFuel p := by
      have h1 := length_le_length_padNulls y
      have : y₂.length ≤ y.length := by rw [e]; simp
      have hbuflen : p.buf.length = (padNulls y 0).length := by rw [h.buf]
      simp only [bpFuel]; omega
    have hres' : (match skipBlank (bpFuel p) p0 with
        | (none, p) => (match p.panic with
            | some m => (NBOut.panic m, p)
            | none => (NBOut.err (p.err.getD .eof), p))
        | (some q, _) => parseLines L (bpFuel p) (L.new q.blocks) 0 q) = (.block r, p') := hres
    rcases skipBlank_spec (bpFuel p) hM rfl hf with
      ⟨q, hs, hp1, hp2, _⟩ | ⟨q, q'', g', y', hs, e', hg', hM', hbk, hi', hpos', hnb⟩
    · rw [hs] at hres'
      simp only [hp1, hp2, Option.getD_some] at hres'
      cases hres'
    · rw [hs] at hres'
      simp only at hres'
      have hbk' : q.blocks = [] := by rw [hbk]; exact hb
      rw [hbk'] at hres'
      have hne : q.buf ≠ [] := by
        intro e0; rw [e0] at hi'; simp at hi'; omega
      have hline : IsLine (q.buf.take q.i) := by rw [hi']; exact isLine_take hne
      have hpad : Padded (q.buf.take q.i) := by
        obtain ⟨z₁, z₂, -, h1, -⟩ := hM'.cut_facts hM'.cut_i
        exact ⟨z₁, h1⟩
      have hOk := C.fresh _ hpad hline hnb
      exact parseLines_rootFrom C hok (bpFuel p) (L.new []) 0 hM' hOk r p' hres'
  · -- left-over blocks
    have hkids := C.obsP _ _ hpd
    cases hbs : p.blocks with
    | nil => exact absurd hbs hb
    | cons k rest =>
      rw [hbs] at hkids hpd
      by_cases hopen : k.isOpen = true
      · have hrest : rest = [] := kidsOK_cons_open hopen hkids
        subst hrest
        have hmk : makeRoot p p.blocks = none := by rw [hbs]; exact makeRoot_none_of_open p hopen
        have hlen : p.blocks.length > 0 := by rw [hbs]; simp
        simp only [nextBlock, hmk, hlen, if_true, h.readline_eq] at hres
        obtain ⟨hpad, hline, hns, htake, -⟩ := h.line_facts
        have hOk := C.resume _ _ _ hpd hopen hpad hline hns
        rw [hsl, ← htake] at hOk
        refine parseLines_rootFrom C hok (bpFuel p) (L.new [k]) p.i h.readline hOk r p' ?_
        rw [← hbs]
        exact hres
      · have hclosed : k.isOpen = false := by simpa using hopen
        obtain ⟨_, hle, _, _⟩ := kidsOK_cons_closed hclosed hkids
        rw [hsl] at hle
        cases hmk : makeRoot p (k :: rest) with
        | none => simp [makeRoot, hclosed] at hmk
        | some rp =>
          obtain ⟨r0, p0⟩ := rp
          simp only [nextBlock, hbs, hmk, Prod.mk.injEq, NBOut.block.injEq] at hres
          obtain ⟨rfl, rfl⟩ := hres
          obtain ⟨hb', hs⟩ := makeRoot_closed_eq p k rest hclosed hmk
          refine ⟨p.buf, p.i, ⟨y, h.buf⟩, by rw [hb']; exact hle, hil, by rw [hb']; exact hs, ?_⟩
          rw [hb']
          exact hpend _ k rest hpd hclosed

include hok hpend in
theorem drain_rootFrom {x : Bytes} :
    ∀ (fuel : Nat) {p : BP} {c y : Bytes} (acc : List Root), MInv x p c y → PendInv C p.blocks (p.buf.take p.i) →
    (∀ r ∈ acc, RootFrom RP r) → ∀ r ∈ (drain L fuel p acc).1, RootFrom RP r := by
  intro fuel
  induction fuel with
  | zero =>
    intro p c y acc _ _ hacc r hr
    simp only [drain, List.mem_reverse] at hr
    exact hacc r hr
  | succ fuel ih =>
    intro p c y acc h hp hacc r hr
    rcases nextBlock_spec C h hp with ⟨r0, p', g, y', hnb, e, hg, y₁, y₂, e', hy1, hM, hP, hR⟩ | ⟨p', hnb, hpn, hb⟩
    · simp only [drain, hnb] at hr
      refine ih (r0 :: acc) hM hP ?_ r hr
      intro r' hr'
      rcases List.mem_cons.1 hr' with rfl | hr'
      · exact nextBlock_rootFrom C hok hpend h hp r' p' hnb
      · exact hacc r' hr'
    · simp only [drain, hnb, List.mem_reverse] at hr
      exact hacc r hr

include hok hpend in
/-- **Every root delivered by `Parse`'s block phase was cut from a padded buffer, in a state of the contract.** -/
theorem rootFrom (inp : Bytes) (fuel : Nat) :
    ∀ r ∈ (drain L fuel (memParser inp) []).1, RootFrom RP r :=
  drain_rootFrom C hok hpend fuel [] (MInv.init inp) (Or.inl ⟨rfl, rfl⟩) (fun _ h => by cases h)

end
end CM.Model

namespace CM.Proofs.PW
open CM CM.Model CM.Gen CM.Spec
open CM.Proofs.BT CM.Proofs.BG

/-- The C01 contract of the real block parser, together with the invariant `PBI (Good src)` of the line parser's tree
    (`src`: the source the line parser has seen) and of the left-over blocks. -/
def strengthen (x : PExt) (C : LPContract (blocksLP x)) : LPContract (blocksLP x) where
  Ok σ src ls := C.Ok σ src ls ∧ PBI (Good src) σ.root
  Pend bs src := C.Pend bs src ∧ AllI (Good src) bs
  fresh ln hp hl hb := ⟨C.fresh ln hp hl hb, blocksLP_line_I x _ ln 0 (docRoot_I [] AllI.nil)⟩
  next σ src ls ln h ho hp hl hns :=
    ⟨C.next σ src ls ln h.1 ho hp hl hns,
      blocksLP_line_I x σ (src ++ ln) src.length (PBI_good_prefix (List.prefix_append _ _) h.2)⟩
  resume bs src ln h ho hp hl hns :=
    ⟨C.resume bs src ln h.1 ho hp hl hns,
      blocksLP_line_I x _ (src ++ ln) src.length (PBI_good_prefix (List.prefix_append _ _) (docRoot_I bs h.2))⟩
  cut σ src ls k k' rest h hk hc :=
    ⟨C.cut σ src ls k k' rest h.1 hk hc,
      AllI_offsetPBs _ (fun t ht => ht.shift _) (k' :: rest)
        (fun b hb => kids_I σ.root h.2 b (by
          have : σ.root.blocks = k :: k' :: rest := hk
          rw [this]; exact List.mem_cons_of_mem _ hb))⟩
  cut' src k k' rest h hc :=
    ⟨C.cut' src k k' rest h.1 hc,
      AllI_offsetPBs _ (fun t ht => ht.shift _) (k' :: rest) (fun b hb => h.2 b (List.mem_cons_of_mem _ hb))⟩
  obs σ src ls h := C.obs σ src ls h.1
  obsP bs src h := C.obsP bs src h.1

/-- What is known about a root the block phase of `Parse` delivers: it was cut at `n = stop` from a padded buffer `buf`,
    and every inline child of its block is `Good` with respect to `buf`. -/
def RootGoodP (r : Root) : Prop :=
  ∃ buf : Bytes, Padded buf ∧ r.block.label.stop.toNat ≤ buf.length ∧
    r.source = fillNulls (buf.take r.block.label.stop.toNat) ∧ PBI (Good buf) r.block

/-- **Every root of `Parse`'s block phase**, for every input and every fuel. -/
theorem drain_good_padded (x : PExt) (fuel : Nat) (inp : Bytes) :
    ∀ r ∈ (drain (blocksLP x) fuel (memParser inp) []).1, RootGoodP r := by
  intro r hr
  obtain ⟨C⟩ := blocksLP_contract x
  have := rootFrom (strengthen x C) (RP := fun src k => PBI (Good src) k)
    (fun σ src ls k rest h hk _ => kids_I σ.root h.2 k (by
      have : σ.root.blocks = k :: rest := hk
      rw [this]; exact List.mem_cons_self ..))
    (fun src k rest h _ => h.2 k (List.mem_cons_self ..)) inp fuel r hr
  obtain ⟨buf, i, hpad, hn, hi, hs, hg⟩ := this
  exact ⟨buf, hpad, Nat.le_trans hn hi, hs, PBI_good_prefix (List.take_prefix _ _) hg⟩

end CM.Proofs.PW
