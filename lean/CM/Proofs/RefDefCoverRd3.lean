import CM.Proofs.RefDefCoverRd2
/-
C03, block half — `RefDefCoverOK` for paragraphs made of lines, part 3: destination and title.
For a valid destination / title: the bytes between the start of the span and the start of the text (`<`, the quote) and
between the end of the text and the reader need not be covered; the text begins inside a non-Indent inline child; and
the end of the text is a position at which no character reference can straddle (`StopOK`).
-/
namespace CM.Proofs.RDC
open CM CM.Model CM.Gen CM.Proofs CM.Proofs.BSp CM.Proofs.RDS CM.Proofs.Cov

variable {src : Bytes} {is : List Tree} {r : Rd}

/-- A byte that can occur inside a character reference after the `&`. -/
def entChar (c : UInt8) : Bool := isASCIILetter c || isASCIIDigit c || c == 0x23 || c == 0x3B

/-- `b` is not strictly inside a non-Indent inline child at a byte of a character reference. -/
def StopOK (src : Bytes) (is : List Tree) (b : Nat) : Prop :=
  ∀ t ∈ is, isIndent t = false → t.label.start < (b : Int) → (b : Int) < t.label.stop → entChar (src.getD b 0) = false

theorem stopOK_of_byte {b : Nat} (h : entChar (src.getD b 0) = false) : StopOK src is b := fun _ _ _ _ _ => h

theorem stopOK_of_dead (h : RI src is r) (hd : r.spans = []) : StopOK src is r.pos := by
  intro t ht _ h1 h2
  have := (h.dead hd).2 t ht (by omega) h2
  omega

theorem stopOK_of_cur (hc : Ctx2 src is) (h : RI src is r) (hlt : (r.current src).1 < 128)
    (he : entChar (r.current src).1 = false) : StopOK src is r.pos := by
  cases hs : r.spans with
  | nil => exact stopOK_of_dead h hs
  | cons t rest =>
    have hn := h.norm t rest hs
    have htm := h.head_mem hs
    cases hi : isIndent t
    · apply stopOK_of_byte
      rw [cur_byte hc h hs hi hlt]; exact he
    · intro u hu hui h1 h2
      exfalso
      have hu1 := (hc.base.ok u hu).1
      rcases sorted_rel hc.base.sorted hu htm with rfl | h3 | h3
      · rw [hi] at hui; cases hui
      · omega
      · omega

theorem ctl_ent : ∀ c : UInt8, (isASCIIControl c = true ∨ c = SP ∨ c = 0x29) → c < 128 ∧ entChar c = false := by
  apply forall_uint8; decide +kernel

/-- A successful `next` from a byte of a non-Indent node that is not a line ending stays in the node. -/
theorem next_same (hc : Ctx2 src is) (h : RI src is r) {t : Tree} {rest : List Tree} (hs : r.spans = t :: rest)
    (hi : isIndent t = false) (hne : isEolB (src.getD r.pos 0) = false) {r' : Rd} (e : r.next src = (true, r')) :
    r'.pos = r.pos + 1 ∧ r'.spans = r.spans ∧ r'.prev = (r.pos : Int) := by
  have hn := h.norm t rest hs
  have htm := h.head_mem hs
  rcases next_cases hc h hs with ⟨h1, _, _⟩ | ⟨_, _, e'⟩ | ⟨_, _, e'⟩ | ⟨h1, t', rest', h2, _⟩
  · rw [hi] at h1; cases h1
  · rw [e'] at e; simp only [Prod.mk.injEq, true_and] at e; rw [← e]; exact ⟨rfl, rfl, rfl⟩
  · rw [e'] at e; simp only [Prod.mk.injEq] at e; cases e.1
  · exfalso
    have ht' : t' ∈ is := h.mem (by rw [hs, h2]; simp)
    have hok' := hc.base.ok t' ht'
    obtain ⟨k, hk⟩ := h.suf
    have hadj : t.label.stop ≤ t'.label.start := by
      have hso : SortedSpans (t :: rest) := by
        have := hc.base.sorted.drop k
        rw [← hk, hs] at this; exact this
      exact List.rel_of_pairwise_cons hso (by rw [h2]; exact List.mem_cons_self)
    rcases (hc.x t htm).2 hi with h3 | h3
    · have := hok'.1; have := hok'.2.1; omega
    · have : t.label.stop.toNat - 1 = r.pos := by omega
      rw [this, hne] at h3; cases h3

theorem isEolB_of_lt : ∀ c : UInt8, c = 0x3C ∨ c = 0x27 ∨ c = 0x22 ∨ c = 0x28 ∨ c = 0x5C → isEolB c = false ∧ c < 128 ∧ need c = false ∧ c ≠ SP := by
  apply forall_uint8; decide +kernel

/-! ### `<…>` -/

theorem destAngle_X (hc : Ctx2 src is) (start : Nat) : ∀ (f : Nat) (r : Rd) (d : LinkDest) (r' : Rd),
    RI src is r → destAngle src start f r = (d, r') → d.span.isValid = true →
    ∃ g : Nat, d.span = ⟨start, (g : Int) + 1⟩ ∧ d.text = ⟨(start : Int) + 1, g⟩ ∧ src.getD g 0 = 0x3E ∧
      NN src is g r'.pos ∧ (r.next src).2.pos ≤ g := by
  intro f
  induction f with
  | zero =>
    intro r d r' _ e hv
    simp only [destAngle, Prod.mk.injEq] at e
    rw [← e.1, noDest_invalid] at hv; cases hv
  | succ f ih =>
    intro r d r' h e hv
    rcases hn : r.next src with ⟨ok, r1⟩
    have g1 := ri_next hc h hn
    have hcur := current_eq (src := src) hc.base g1
    generalize hcv : (r1.current src).1 = c at hcur
    rcases hn2 : r1.next src with ⟨ok2, r3⟩
    have g3 := ri_next hc g1 hn2
    have hcur3 := current_eq (src := src) hc.base g3
    generalize hcv3 : (r3.current src).1 = c3 at hcur3
    have m3 := next_mono hc.base g1 hn2
    simp only [destAngle, hn, hcur, hn2, hcur3] at e
    have bad : ∀ {rr : Rd}, (noDest, rr) = (d, r') → False := by
      intro rr e'
      simp only [Prod.mk.injEq] at e'
      rw [← e'.1, noDest_invalid] at hv; cases hv
    split at e
    · exact (bad e).elim
    · rename_i hok
      have hok' : ok = true := by simpa using hok
      subst hok'
      split at e
      · exact (bad e).elim
      · split at e
        · split at e
          · exact (bad e).elim
          · split at e
            · exact (bad e).elim
            · obtain ⟨g, a1, a2, a3, a4, a5⟩ := ih _ _ _ g3 e hv
              refine ⟨g, a1, a2, a3, a4, ?_⟩
              have := next_mono hc.base g3 (show r3.next src = ((r3.next src).1, (r3.next src).2) from rfl)
              show r1.pos ≤ g
              omega
        · split at e
          · rename_i hgt
            have hgt' : c = 0x3E := by simpa using hgt
            simp only [Prod.mk.injEq] at e
            obtain ⟨rfl, rfl⟩ := e
            obtain ⟨t, rest, hs⟩ := next_true_live hc.base h hn
            have hlive1 : r1.spans ≠ [] := by
              intro hd
              rcases next_cases hc h hs with ⟨_, _, e'⟩ | ⟨_, _, e'⟩ | ⟨_, _, e'⟩ | ⟨_, t', rest', h2, e'⟩
              · rw [e'] at hn; simp only [Prod.mk.injEq, true_and] at hn; rw [← hn] at hd
                have hd' : r.spans = [] := hd
                rw [hs] at hd'; cases hd'
              · rw [e'] at hn; simp only [Prod.mk.injEq, true_and] at hn; rw [← hn] at hd
                have hd' : r.spans = [] := hd
                rw [hs] at hd'; cases hd'
              · rw [e'] at hn; simp only [Prod.mk.injEq] at hn; cases hn.1
              · rw [e'] at hn; simp only [Prod.mk.injEq, true_and] at hn; rw [← hn] at hd
                have hd' : rest = [] := hd
                rw [h2] at hd'; cases hd'
            have hprev : r3.prev = (r1.pos : Int) := by
              have := (next_spec hc.base g1).2.2.1 hlive1
              rw [hn2] at this; exact this
            cases hs1 : r1.spans with
            | nil => exact absurd hs1 hlive1
            | cons t1 rest1 =>
              have hni : isIndent t1 = false := current_live_nonsp hc.base g1 hs1 (by rw [hcv, hgt']; decide)
              have hb : src.getD r1.pos 0 = 0x3E := by
                rw [cur_byte hc g1 hs1 hni (by rw [hcv, hgt']; decide), hcv, hgt']
              have s := step_NN hc g1 (by rw [hcv, hgt']; exact need_gt) hn2
              refine ⟨r1.pos, ?_, ?_, hb, s, Nat.le_refl _⟩
              · simp only [hprev]
              · simp only [hprev]
          · obtain ⟨g, a1, a2, a3, a4, a5⟩ := ih _ _ _ g1 e hv
            refine ⟨g, a1, a2, a3, a4, ?_⟩
            have a5' : r3.pos ≤ g := by rw [hn2] at a5; exact a5
            show r1.pos ≤ g
            omega

/-! ### the bare form -/

theorem destBare_ri (hc : Ctx2 src is) (f : Nat) (r : Rd) (parens : Int) (h : RI src is r) :
    RI src is (destBare src f r parens) := by
  have cl : Closed src (RI src is) :=
    ⟨fun r h => by rw [current_snd hc.base h]; exact h, fun r h => (next_spec hc.base h).1⟩
  exact destBare_cl cl f r parens h

theorem destBare_dead (hc : Ctx2 src is) (f : Nat) (r : Rd) (parens : Int) (h : RI src is r) (hd : r.spans = []) :
    (destBare src f r parens).pos = r.pos := by
  cases f with
  | zero => rfl
  | succ f =>
    have hcur := current_eq (src := src) hc.base h
    generalize (r.current src).1 = c at hcur
    have hn := next_dead hc.base h hd
    simp only [destBare, hcur, hn]
    split
    · rfl
    · split
      · rfl
      · split
        · rfl
        · split
          · split <;> rfl
          · rfl

theorem destBare_stop (hc : Ctx2 src is) : ∀ (f : Nat) (r : Rd) (parens : Int), RI src is r → mu src r < f →
    StopOK src is (destBare src f r parens).pos := by
  intro f
  induction f with
  | zero => intro r _ _ hm; omega
  | succ f ih =>
    intro r parens h hm
    have hcur := current_eq (src := src) hc.base h
    generalize hcv : (r.current src).1 = c at hcur
    rcases hn : r.next src with ⟨ok, r2⟩
    have g2 := ri_next hc h hn
    have hcur2 := current_eq (src := src) hc.base g2
    generalize hcv2 : (r2.current src).1 = c2 at hcur2
    rcases hn3 : r2.next src with ⟨ok3, r4⟩
    have g4 := ri_next hc g2 hn3
    have dead2 : ok = false → StopOK src is r2.pos := by
      intro hf; subst hf
      exact stopOK_of_dead g2 (next_false hc.base h hn)
    have dead4 : ok3 = false → StopOK src is r4.pos := by
      intro hf; subst hf
      exact stopOK_of_dead g4 (next_false hc.base g2 hn3)
    have mu2 : ok = true → mu src r2 < f := by
      intro ht; subst ht
      have := next_mu hc.base h hn; omega
    have mu4 : ok = true → ok3 = true → mu src r4 < f := by
      intro ht ht3; subst ht; subst ht3
      have := next_mu hc.base h hn
      have := next_mu hc.base g2 hn3
      omega
    simp only [destBare, hcur, hn, hcur2, hn3]
    split
    · rename_i hctl
      have hctl' : isASCIIControl c = true ∨ c = SP ∨ c = 0x29 := by
        simp only [Bool.or_eq_true, beq_iff_eq] at hctl
        rcases hctl with h1 | h1
        · exact Or.inl h1
        · exact Or.inr (Or.inl h1)
      have := ctl_ent c hctl'
      exact stopOK_of_cur hc h (by rw [hcv]; exact this.1) (by rw [hcv]; exact this.2)
    · split
      · split
        · rename_i hok; exact dead2 (by simpa using hok)
        · rename_i hok
          have hok' : ok = true := by simpa using hok
          split
          · rename_i hctl
            have hctl' : isASCIIControl c2 = true ∨ c2 = SP ∨ c2 = 0x29 := by
              simp only [Bool.or_eq_true, beq_iff_eq] at hctl
              rcases hctl with h1 | h1
              · exact Or.inl h1
              · exact Or.inr (Or.inl h1)
            have := ctl_ent c2 hctl'
            exact stopOK_of_cur hc g2 (by rw [hcv2]; exact this.1) (by rw [hcv2]; exact this.2)
          · split
            · rename_i hok3; exact dead4 (by simpa using hok3)
            · rename_i hok3
              exact ih _ _ g4 (mu4 hok' (by simpa using hok3))
      · split
        · split
          · rename_i hok; exact dead2 (by simpa using hok)
          · rename_i hok
            exact ih _ _ g2 (mu2 (by simpa using hok))
        · split
          · rename_i hrp
            have hrp' : c = 0x29 := by simpa using hrp
            split
            · have := ctl_ent c (Or.inr (Or.inr hrp'))
              exact stopOK_of_cur hc h (by rw [hcv]; exact this.1) (by rw [hcv]; exact this.2)
            · split
              · rename_i hok; exact dead2 (by simpa using hok)
              · rename_i hok
                exact ih _ _ g2 (mu2 (by simpa using hok))
          · split
            · rename_i hok; exact dead2 (by simpa using hok)
            · rename_i hok
              exact ih _ _ g2 (mu2 (by simpa using hok))

/-- The facts about a valid destination. -/
structure DestX (src : Bytes) (is : List Tree) (r r' : Rd) (d : LinkDest) : Prop where
  start : d.span.start = (r.pos : Int)
  nn1 : NN src is r.pos d.text.start.toNat
  nn2 : NN src is d.text.stop.toNat r'.pos
  inn : d.text.start < d.text.stop → InNode is d.text.start.toNat
  stop : StopOK src is d.text.stop.toNat
  o1 : d.span.start ≤ d.text.start
  o2 : d.text.start ≤ d.text.stop
  o3 : d.text.stop ≤ d.span.stop

/-- **`parseLinkDestination`.** -/
theorem parseLinkDestination_X (hc : Ctx2 src is) (f : Nat) (h : RI src is r) (hf : mu src r < f) {d : LinkDest} {r' : Rd}
    (e : parseLinkDestination src f r = (d, r')) (hv : d.span.isValid = true) : DestX src is r r' d := by
  have hcur := current_eq (src := src) hc.base h
  generalize hcv : (r.current src).1 = c at hcur
  simp only [parseLinkDestination, hcur] at e
  split at e
  · rename_i hlt
    have hlt' : c = 0x3C := by simpa using hlt
    have hcl := isEolB_of_lt c (Or.inl hlt')
    obtain ⟨g, a1, a2, a3, a4, a5⟩ := destAngle_X hc r.pos f r d r' h e hv
    -- the reader is live (a dead reader cannot parse `<…>`): the first `next` succeeded
    have hok : (r.next src).1 = true := by
      cases f with
      | zero =>
        simp only [destAngle, Prod.mk.injEq] at e
        rw [← e.1, noDest_invalid] at hv; cases hv
      | succ f =>
        cases hok : (r.next src).1 with
        | true => rfl
        | false =>
          exfalso
          have hn : r.next src = (false, (r.next src).2) := by rw [← hok]
          rw [destAngle, hn] at e
          simp only [Bool.not_false, if_true, Prod.mk.injEq] at e
          rw [← e.1, noDest_invalid] at hv; cases hv
    have hn : r.next src = (true, (r.next src).2) := by rw [← hok]
    obtain ⟨t, rest, hs⟩ := next_true_live hc.base h hn
    have hni : isIndent t = false := current_live_nonsp hc.base h hs (by rw [hcv]; exact hcl.2.2.2)
    have hb : src.getD r.pos 0 = c := by rw [cur_byte hc h hs hni (by rw [hcv]; exact hcl.2.1), hcv]
    obtain ⟨s1, s2, s3⟩ := next_same hc h hs hni (by rw [hb]; exact hcl.1) hn
    have g1 := ri_next hc h hn
    have hnn1 : NN src is r.pos (r.pos + 1) := by
      intro j j1 j2 _
      have : j = r.pos := by omega
      rw [this, hb]; exact hcl.2.2.1
    rw [s1] at a5
    refine ⟨by rw [a1], ?_, ?_, fun _ => ?_, ?_, ?_, ?_, ?_⟩
    · rw [a2]
      have : ((r.pos : Int) + 1).toNat = r.pos + 1 := by omega
      simp only [this]; exact hnn1
    · rw [a2]; simp only [Int.toNat_natCast]; exact a4
    · rw [a2]
      have : ((r.pos : Int) + 1).toNat = r.pos + 1 := by omega
      simp only [this]
      rw [← s1]
      apply inNode_of_live g1 (t := t) (rest := rest) (by rw [s2, hs]) hni
    · rw [a2]; simp only [Int.toNat_natCast]
      apply stopOK_of_byte; rw [a3]; decide
    · rw [a1, a2]; simp only; omega
    · rw [a2]; simp only; omega
    · rw [a1, a2]; simp only; omega
  · split at e
    · rename_i hcond
      simp only [Prod.mk.injEq] at e
      obtain ⟨rfl, rfl⟩ := e
      have hstopok := destBare_stop hc f r 0 h hf
      have hle : (r.pos : Int) ≤ ((destBare src f r 0).pos : Int) := by
        have cl : Closed src (fun q : Rd => RI src is q ∧ r.pos ≤ q.pos) :=
          ⟨fun q hq => by rw [current_snd hc.base hq.1]; exact hq,
           fun q hq => ⟨(next_spec hc.base hq.1).1, by have := (next_spec hc.base hq.1).2.2.2.1; omega⟩⟩
        have := (destBare_cl cl f r 0 ⟨h, Nat.le_refl _⟩).2
        omega
      have hinn : r.pos < (destBare src f r 0).pos → InNode is r.pos := by
        intro hlt
        cases hs : r.spans with
        | nil =>
          exfalso
          have := destBare_dead hc f r 0 h hs
          omega
        | cons t rest =>
          apply inNode_of_live h hs
          apply current_live_nonsp hc.base h hs
          rw [hcv]
          simp only [Bool.and_eq_true, Bool.not_eq_eq_eq_not, Bool.not_true, bne_iff_ne, ne_eq] at hcond
          exact hcond.1.2
      exact ⟨rfl, NN.refl _ _ _, NN.refl _ _ _,
        fun hlt => by simp only [Int.toNat_natCast]; exact hinn (by simp only at hlt; omega),
        by simp only [Int.toNat_natCast]; exact hstopok, Int.le_refl _, hle, Int.le_refl _⟩
    · simp only [Prod.mk.injEq] at e
      rw [← e.1, noDest_invalid] at hv; cases hv

/-! ### the title -/

theorem titleLoop_X (hc : Ctx2 src is) (start : Nat) (term : UInt8) (hterm : term = 0x29 ∨ term = 0x27 ∨ term = 0x22) :
    ∀ (f : Nat) (r : Rd) (t : LinkTitle) (r' : Rd),
    RI src is r → titleLoop src start term f r = (t, r') → t.span.isValid = true →
    ∃ g : Nat, t.span = ⟨start, (g : Int) + 1⟩ ∧ t.text = ⟨(start : Int) + 1, g⟩ ∧ src.getD g 0 = term ∧
      NN src is g r'.pos ∧ (r.next src).2.pos ≤ g := by
  have hterm' : term < 128 ∧ need term = false ∧ term ≠ SP := by
    rcases hterm with rfl | rfl | rfl <;> decide +kernel
  intro f
  induction f with
  | zero =>
    intro r t r' _ e hv
    simp only [titleLoop, Prod.mk.injEq] at e
    rw [← e.1, noTitle_invalid] at hv; cases hv
  | succ f ih =>
    intro r t r' h e hv
    rcases hn : r.next src with ⟨ok, r1⟩
    have g1 := ri_next hc h hn
    have hcur := current_eq (src := src) hc.base g1
    generalize hcv : (r1.current src).1 = c at hcur
    rcases hn2 : r1.next src with ⟨ok2, r3⟩
    have g3 := ri_next hc g1 hn2
    have m3 := next_mono hc.base g1 hn2
    simp only [titleLoop, hn, hcur, hn2] at e
    have bad : ∀ {rr : Rd}, (noTitle, rr) = (t, r') → False := by
      intro rr e'
      simp only [Prod.mk.injEq] at e'
      rw [← e'.1, noTitle_invalid] at hv; cases hv
    split at e
    · exact (bad e).elim
    · rename_i hok
      have hok' : ok = true := by simpa using hok
      subst hok'
      split at e
      · split at e
        · exact (bad e).elim
        · obtain ⟨g, a1, a2, a3, a4, a5⟩ := ih _ _ _ g3 e hv
          refine ⟨g, a1, a2, a3, a4, ?_⟩
          have := next_mono hc.base g3 (show r3.next src = ((r3.next src).1, (r3.next src).2) from rfl)
          show r1.pos ≤ g
          omega
      · split at e
        · rename_i hgt
          have hgt' : c = term := by simpa using hgt
          simp only [Prod.mk.injEq] at e
          obtain ⟨rfl, rfl⟩ := e
          obtain ⟨t0, rest0, hs⟩ := next_true_live hc.base h hn
          have hlive1 : r1.spans ≠ [] := by
            intro hd
            rcases next_cases hc h hs with ⟨_, _, e'⟩ | ⟨_, _, e'⟩ | ⟨_, _, e'⟩ | ⟨_, t', rest', h2, e'⟩
            · rw [e'] at hn; simp only [Prod.mk.injEq, true_and] at hn; rw [← hn] at hd
              have hd' : r.spans = [] := hd
              rw [hs] at hd'; cases hd'
            · rw [e'] at hn; simp only [Prod.mk.injEq, true_and] at hn; rw [← hn] at hd
              have hd' : r.spans = [] := hd
              rw [hs] at hd'; cases hd'
            · rw [e'] at hn; simp only [Prod.mk.injEq] at hn; cases hn.1
            · rw [e'] at hn; simp only [Prod.mk.injEq, true_and] at hn; rw [← hn] at hd
              have hd' : rest0 = [] := hd
              rw [h2] at hd'; cases hd'
          have hprev : r3.prev = (r1.pos : Int) := by
            have := (next_spec hc.base g1).2.2.1 hlive1
            rw [hn2] at this; exact this
          cases hs1 : r1.spans with
          | nil => exact absurd hs1 hlive1
          | cons t1 rest1 =>
            have hni : isIndent t1 = false := current_live_nonsp hc.base g1 hs1 (by rw [hcv, hgt']; exact hterm'.2.2)
            have hb : src.getD r1.pos 0 = term := by
              rw [cur_byte hc g1 hs1 hni (by rw [hcv, hgt']; exact hterm'.1), hcv, hgt']
            have s := step_NN hc g1 (by rw [hcv, hgt']; exact hterm'.2.1) hn2
            refine ⟨r1.pos, ?_, ?_, hb, s, Nat.le_refl _⟩
            · simp only [hprev]
            · simp only [hprev]
        · obtain ⟨g, a1, a2, a3, a4, a5⟩ := ih _ _ _ g1 e hv
          refine ⟨g, a1, a2, a3, a4, ?_⟩
          have a5' : r3.pos ≤ g := by rw [hn2] at a5; exact a5
          show r1.pos ≤ g
          omega

/-- The facts about a valid title. -/
structure TitleX (src : Bytes) (is : List Tree) (r r' : Rd) (d : LinkTitle) : Prop where
  start : d.span.start = (r.pos : Int)
  nn1 : NN src is r.pos d.text.start.toNat
  nn2 : NN src is d.text.stop.toNat r'.pos
  inn : d.text.start < d.text.stop → InNode is d.text.start.toNat
  stop : StopOK src is d.text.stop.toNat
  o1 : d.span.start ≤ d.text.start
  o2 : d.text.start ≤ d.text.stop
  o3 : d.text.stop ≤ d.span.stop

theorem term_cases : ∀ c : UInt8, ¬ (c != 0x27 && c != 0x22 && c != 0x28) = true →
    (c = 0x27 ∨ c = 0x22 ∨ c = 0x28) ∧ ((if c == 0x28 then (0x29 : UInt8) else c) = 0x29 ∨
      (if c == 0x28 then (0x29 : UInt8) else c) = 0x27 ∨ (if c == 0x28 then (0x29 : UInt8) else c) = 0x22) := by
  apply forall_uint8; decide +kernel

/-- **`parseLinkTitle`.** -/
theorem parseLinkTitle_X (hc : Ctx2 src is) (f : Nat) (h : RI src is r) {d : LinkTitle} {r' : Rd}
    (e : parseLinkTitle src f r = (d, r')) (hv : d.span.isValid = true) : TitleX src is r r' d := by
  have hcur := current_eq (src := src) hc.base h
  generalize hcv : (r.current src).1 = c at hcur
  simp only [parseLinkTitle, hcur] at e
  split at e
  · simp only [Prod.mk.injEq] at e
    rw [← e.1, noTitle_invalid] at hv; cases hv
  · rename_i hq
    obtain ⟨hq1, hq2⟩ := term_cases c hq
    have hcl := isEolB_of_lt c (by rcases hq1 with h1 | h1 | h1 <;> simp [h1])
    obtain ⟨g, a1, a2, a3, a4, a5⟩ := titleLoop_X hc r.pos _ hq2 f r d r' h e hv
    have hok : (r.next src).1 = true := by
      cases f with
      | zero =>
        simp only [titleLoop, Prod.mk.injEq] at e
        rw [← e.1, noTitle_invalid] at hv; cases hv
      | succ f =>
        cases hok : (r.next src).1 with
        | true => rfl
        | false =>
          exfalso
          have hn : r.next src = (false, (r.next src).2) := by rw [← hok]
          rw [titleLoop, hn] at e
          simp only [Bool.not_false, if_true, Prod.mk.injEq] at e
          rw [← e.1, noTitle_invalid] at hv; cases hv
    have hn : r.next src = (true, (r.next src).2) := by rw [← hok]
    obtain ⟨t, rest, hs⟩ := next_true_live hc.base h hn
    have hni : isIndent t = false := current_live_nonsp hc.base h hs (by rw [hcv]; exact hcl.2.2.2)
    have hb : src.getD r.pos 0 = c := by rw [cur_byte hc h hs hni (by rw [hcv]; exact hcl.2.1), hcv]
    obtain ⟨s1, s2, s3⟩ := next_same hc h hs hni (by rw [hb]; exact hcl.1) hn
    have g1 := ri_next hc h hn
    have hnn1 : NN src is r.pos (r.pos + 1) := by
      intro j j1 j2 _
      have : j = r.pos := by omega
      rw [this, hb]; exact hcl.2.2.1
    rw [s1] at a5
    refine ⟨by rw [a1], ?_, ?_, fun _ => ?_, ?_, ?_, ?_, ?_⟩
    · rw [a2]
      have : ((r.pos : Int) + 1).toNat = r.pos + 1 := by omega
      simp only [this]; exact hnn1
    · rw [a2]; simp only [Int.toNat_natCast]; exact a4
    · rw [a2]
      have : ((r.pos : Int) + 1).toNat = r.pos + 1 := by omega
      simp only [this]
      rw [← s1]
      apply inNode_of_live g1 (t := t) (rest := rest) (by rw [s2, hs]) hni
    · rw [a2]; simp only [Int.toNat_natCast]
      apply stopOK_of_byte; rw [a3]
      rcases hq2 with h1 | h1 | h1 <;> rw [h1] <;> decide
    · rw [a1, a2]; simp only; omega
    · rw [a2]; simp only; omega
    · rw [a1, a2]; simp only; omega

end CM.Proofs.RDC
