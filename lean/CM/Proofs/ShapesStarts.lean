import CM.Proofs.ShapesW
/-
C13, block half — the block starts (all but the list item, which is in `ShapesStartsList`) keep the shape invariant.
-/
namespace CM.Proofs.Shp
open CM CM.Model CM.Gen CM.Proofs.BG CM.Proofs.BT
open CM.Proofs.BSp (curPos)

/-- The state in which the block starts are tried (`am`: the value `allMatched` of the descent). -/
structure SPre (setx : Bool) (am : Bool) (p : LP) : Prop where
  w : W setx (curPos p) p
  chB : ChB setx p
  chC : ChC setx p
  amc : am = false → p.containerKind ≠ BK.paragraph

/-- The state after a block start. -/
structure LI (setx : Bool) (am : Bool) (p : LP) : Prop where
  w : W setx (curPos p) p
  chB : ChB setx p ∨ (p.state = 2 ∧ am = true)
  chC0 : p.state = 0 → ChC setx p
  chC1 : p.state = 1 → ChC setx p ∨ (acceptsLines p.containerKind = true ∧ p.containerKind ≠ BK.paragraph)
  amc : p.state ≤ 1 → am = false → p.containerKind ≠ BK.paragraph

theorem SPre.li {setx am : Bool} {p : LP} (h : SPre setx am p) : LI setx am p :=
  ⟨h.w, Or.inl h.chB, fun _ => h.chC, fun _ => Or.inl h.chC, fun _ => h.amc⟩

theorem quote_univ : BSp.Univ BK.blockQuote = true := by decide
theorem item_univ : BSp.Univ BK.listItem = true := by decide

theorem curPos_nonneg (p : LP) : 0 ≤ curPos p := by unfold curPos; omega

/-- The state after a new container that can contain everything has been opened and the cursor moved on. -/
theorem li_of_univ {setx am : Bool} {p : LP} (hw : W setx (curPos p) p) (hB : ChB setx p)
    (hu : BSp.Univ p.containerKind = true) : LI setx am p := by
  have hnp : p.containerKind ≠ BK.paragraph := by
    intro e; rw [e] at hu; revert hu; decide
  exact ⟨hw, Or.inl hB, fun _ => Or.inl hu, fun _ => Or.inl (Or.inl hu), fun _ _ => hnp⟩

/-- The state after a start that consumed the line (state 2) and left `ChB`. -/
theorem li_of_consumed {setx am : Bool} {p : LP} (hw : W setx (curPos p) p) (hB : ChB setx p) (hs : p.state = 2) : LI setx am p :=
  ⟨hw, Or.inl hB, fun h => (by omega), fun h => (by omega), fun h => (by omega)⟩

/-- The state after a new leaf that takes the rest of the line has been opened. -/
theorem li_of_leaf {setx am : Bool} {p : LP} (hw : W setx (curPos p) p) (hB : ChB setx p)
    (ha : acceptsLines p.containerKind = true) (hnp : p.containerKind ≠ BK.paragraph) (hs : 1 ≤ p.state) : LI setx am p :=
  ⟨hw, Or.inl hB, fun h => (by omega), fun _ => Or.inr ⟨ha, hnp⟩, fun _ _ => hnp⟩

/-- The container that `openBlock` leaves is not the document. -/
theorem depth_ne_zero {p : LP} {k : Nat} (hT : TreeOK p) (hk : p.containerKind = k) (hne : k ≠ BK.document) : p.depth ≠ 0 := by
  intro e0
  rw [containerKind_zero _ e0, hT.root] at hk
  exact hne hk.symm

/-- `consumeLine` and `endBlock` on a leaf container (not paragraph-like): the line is consumed, the leaf is closed. -/
theorem consume_end_LI {setx am : Bool} (x : PExt) (p : LP) {e : Int} (h : W setx e p) (hst : p.state ≤ 2) (hd : p.depth ≠ 0)
    (he : e ≤ p.source.length) (hnp : paraLike p.containerKind = false) (hni : p.containerKind ≠ BK.listItem) :
    LI setx am (p.consumeLine.endBlock x) := by
  have cl := consumeLine_post p h.inv.cur
  generalize p.consumeLine = p4 at cl
  have w4 := h.cl cl
  have s4 := cl.st hst
  have hc4 : curPos p4 = p.source.length := curPos_cl cl h.src
  obtain ⟨w5, b5, _, eb, hc5⟩ := endBlock_W x p4 w4 (by omega) (by rw [tree_depth cl.tree]; exact hd)
    (by rw [hc4]; exact he) (by rw [cl.ckind]; exact hnp) (by rw [cl.ckind]; exact hni)
  generalize p4.endBlock x = p5 at w5 b5 eb hc5
  have s5 : p5.state = 2 := by rw [eb.state, s4]; rfl
  exact li_of_consumed (by rw [hc5]; exact w5) b5 s5

/-! ### block quote -/

theorem startBlockQuote_LI {setx am : Bool} (x : PExt) (p : LP) (h : SPre setx am p) (hs : p.state = 0) :
    LI setx am (startBlockQuote x p) := by
  unfold startBlockQuote
  simp only []
  split
  · exact h.li
  split
  · exact h.li
  rename_i _ hpre
  have hpre' : hasBytePrefix p.bytesAfterIndent blockQuotePrefix = true := by
    cases hh : hasBytePrefix p.bytesAfterIndent blockQuotePrefix
    · rw [hh] at hpre; exact absurd rfl hpre
    · rfl
  have hlen := hasBytePrefix_length _ _ hpre'
  have hq := hasBytePrefix_quote _ hpre'
  obtain ⟨ci, hdrop, hil⟩ := consumeAll p h.w.inv
  generalize p.consumeIndentN p.indent = p1 at ci hdrop hil ⊢
  have w1 := h.w.ci ci
  have s1 := ci.st (by omega)
  have hc1 := curPos_ci ci
  have hbq : blockQuotePrefix.length = 1 := rfl
  -- the new block quote
  have hget : p1.source[(curPos p1).toNat]? = some 0x3E := by
    have := src_get_cur w1.src 0
    rw [hdrop, Nat.add_zero] at this
    have e1 : (curPos p1).toNat = p1.lineStart + p1.i := by unfold curPos; omega
    rw [e1, this]; exact hq
  have ob := openBlock_W (setx := setx) (e' := curPos p1 + 1) x p1 BK.blockQuote id w1 (chB_ci ci h.chB) (chC_ci ci h.chC)
    s1.2 (by decide) id_kind (fun _ => rfl) (fun _ => rfl) (by omega) (by
      intro lo h0 hlo
      apply nodeOK_new_shape (by rfl) rfl (by show lo ≤ curPos p1; omega) (by show curPos p1 ≤ _; omega)
        (by have := curPos_nonneg p1; omega)
      exact shapeOK_new_quote rfl (curPos_nonneg p1) hget rfl (Int.le_refl _))
  obtain ⟨w2, r2, ob2⟩ := ob
  generalize p1.openBlock x BK.blockQuote = p2 at w2 r2 ob2
  have s2 := ob2.st s1.2
  have e2i : p2.i = p1.i := cur_i ob2.cur
  have e2l : p2.line = p1.line := cur_line ob2.cur
  have hc2 : curPos p2 = curPos p1 := curPos_of_cur ob2.cur r2.lineStart
  have ad := advance_post p2 blockQuotePrefix.length w2.inv.cur (by rw [e2i, e2l, ci.line]; omega)
  generalize p2.advance blockQuotePrefix.length = p3 at ad
  have hc3 : curPos p3 = curPos p1 + 1 := by rw [curPos_adv ad, hc2, hbq]; rfl
  have w3 : W setx (curPos p3) p3 := by rw [hc3]; exact w2.adv ad
  have s3 := ad.st s2.2.1
  have k3 : p3.containerKind = BK.blockQuote := by rw [ad.ckind, ob2.ckind]
  have b3 : ChB setx p3 := chB_adv ad r2.chB
  split
  · have c4 := consumeIndentN_post p3 1 w3.inv.cur (by omega)
    generalize p3.consumeIndentN 1 = p4 at c4
    apply li_of_univ ((w3.ci c4).mono (curPos_ci c4)) (chB_ci c4 b3)
    rw [c4.ckind, k3]; exact quote_univ
  · exact li_of_univ w3 b3 (by rw [k3]; exact quote_univ)

/-! ### thematic break -/

theorem startThematicBreak_LI {setx am : Bool} (x : PExt) (p : LP) (h : SPre setx am p) (hs : p.state = 0) :
    LI setx am (startThematicBreak x p) := by
  unfold startThematicBreak
  simp only []
  split
  · exact h.li
  split
  · exact h.li
  rename_i _ hneg
  have hb := parseThematicBreak_le p.bytesAfterIndent (by omega)
  generalize parseThematicBreak p.bytesAfterIndent = tb at hb hneg ⊢
  obtain ⟨ci, hdrop, hil⟩ := consumeAll p h.w.inv
  generalize p.consumeIndentN p.indent = p1 at ci hdrop hil ⊢
  have w1 := h.w.ci ci
  have s1 := ci.st (by omega)
  have hc1 := curPos_ci ci
  have ob := openBlock_W (setx := setx) (e' := curPos p1) x p1 BK.thematicBreak id w1 (chB_ci ci h.chB) (chC_ci ci h.chC)
    s1.2 (by decide) id_kind (fun _ => rfl) (fun _ => rfl) (by omega) (by
      intro lo h0 hlo
      exact nodeOK_new_free (by rfl) rfl (by show lo ≤ curPos p1; omega) (Int.le_refl _) (by have := curPos_nonneg p1; omega))
  obtain ⟨w2, r2, ob2⟩ := ob
  generalize p1.openBlock x BK.thematicBreak = p2 at w2 r2 ob2
  have s2 := ob2.st s1.2
  have e2i : p2.i = p1.i := cur_i ob2.cur
  have e2l : p2.line = p1.line := cur_line ob2.cur
  have ad := advance_post p2 tb.toNat w2.inv.cur (by rw [e2i, e2l, ci.line]; omega)
  generalize p2.advance tb.toNat = p3 at ad
  have w3 := w2.adv ad
  have s3 := ad.st s2.2.1
  have k3 : p3.containerKind = BK.thematicBreak := by rw [ad.ckind, ob2.ckind]
  apply consume_end_LI x p3 w3 s3.2 (depth_ne_zero w3.inv.tree k3 (by decide))
  · rw [tree_source ad.tree, r2.source]; exact curPos_le_src w1.src w1.inv.cur
  · rw [k3]; rfl
  · rw [k3]; decide

/-! ### indented code -/

theorem startIndentedCode_LI {setx am : Bool} (x : PExt) (p : LP) (h : SPre setx am p) (hs : p.state = 0) :
    LI setx am (startIndentedCode x p) := by
  unfold startIndentedCode
  split
  · exact h.li
  rename_i hc
  simp only [Bool.or_eq_true, decide_eq_true_eq, not_or, Nat.not_lt] at hc
  have hind : codeBlockIndentLimit ≤ p.indent := hc.1.1
  simp only []
  have ci := consumeIndentN_post p codeBlockIndentLimit h.w.inv.cur hind
  generalize p.consumeIndentN codeBlockIndentLimit = p1 at ci
  have w1 := h.w.ci ci
  have s1 : p1.state = 1 := by rw [ci.state, hs]; rfl
  have hc1 := curPos_ci ci
  have ob := openBlock_W (setx := setx) (e' := curPos p1) x p1 BK.indentedCode id w1 (chB_ci ci h.chB) (chC_ci ci h.chC)
    (by omega) (by decide) id_kind (fun _ => rfl) (fun _ => rfl) (by omega) (by
      intro lo h0 hlo
      exact nodeOK_new_free (by rfl) rfl (by show lo ≤ curPos p1; omega) (Int.le_refl _) (by have := curPos_nonneg p1; omega))
  obtain ⟨w2, r2, ob2⟩ := ob
  generalize p1.openBlock x BK.indentedCode = p2 at w2 r2 ob2
  have s2 := ob2.st (by omega)
  have hc2 : curPos p2 = curPos p1 := curPos_of_cur ob2.cur r2.lineStart
  exact li_of_leaf (by rw [hc2]; exact w2) r2.chB (by rw [ob2.ckind]; rfl) (by rw [ob2.ckind]; decide) s2.2.2

/-! ### ATX heading -/

theorem curPos_cast (p : LP) : curPos p = ((p.lineStart + p.i : Nat) : Int) := by unfold curPos; omega

theorem startATX_LI {setx am : Bool} (x : PExt) (p : LP) (h : SPre setx am p) (hs : p.state = 0) :
    LI setx am (startATX x p) := by
  unfold startATX
  simp only []
  split
  · exact h.li
  split
  · exact h.li
  rename_i _ hlev
  have hb := parseATXHeading_bound p.bytesAfterIndent
  have h6 := parseATXHeading_level_le p.bytesAfterIndent
  have hrun := parseATXHeading_level p.bytesAfterIndent (by omega)
  generalize parseATXHeading p.bytesAfterIndent = hd at hb hlev h6 hrun ⊢
  obtain ⟨hb1, hb2, hb3⟩ := hb
  have hb3 := hb3 (by omega)
  obtain ⟨ci, hdrop, hil⟩ := consumeAll p h.w.inv
  generalize p.consumeIndentN p.indent = p1 at ci hdrop hil ⊢
  have w1 := h.w.ci ci
  have s1 := ci.st (by omega)
  have hc1 := curPos_ci ci
  have hsd : p1.source.drop (p1.lineStart + p1.i) = p.bytesAfterIndent := by rw [src_drop_cur w1.src, hdrop]
  have hcp := countPrefix_le 0x23 p.bytesAfterIndent
  have hsl := w1.src.len
  have hend : curPos p1 + hd.level ≤ p1.source.length := by
    rw [curPos_cast, hrun]; rw [ci.line] at hsl; omega
  have ob := openBlock_W (setx := setx) (e' := curPos p1 + hd.level) x p1 BK.atxHeading (fun l => { l with n := hd.level })
    w1 (chB_ci ci h.chB) (chC_ci ci h.chC) s1.2 (by decide) (fun _ => rfl) (fun _ => rfl)
    (fun s => localOK_atx s _ (by omega) (by omega)) (by omega) (by
      intro lo h0 hlo
      apply nodeOK_new_shape (by rfl) rfl (by show lo ≤ curPos p1; omega) (by show curPos p1 ≤ _; omega)
        (by have := curPos_nonneg p1; omega)
      exact shapeOK_new_atx (bai := p.bytesAfterIndent) (s := p1.lineStart + p1.i) rfl hsd (curPos_cast p1)
        (by show ((hd.level : Nat) : Int) = _; rw [hrun]) (by omega) rfl (by rw [← curPos_cast, hrun]; exact Int.le_refl _))
  obtain ⟨w2, r2, ob2⟩ := ob
  generalize p1.openBlock x BK.atxHeading (fun l => { l with n := hd.level }) = p2 at w2 r2 ob2
  have s2 := ob2.st s1.2
  have e2i : p2.i = p1.i := cur_i ob2.cur
  have e2l : p2.line = p1.line := cur_line ob2.cur
  have ad := advance_post p2 hd.start w2.inv.cur (by rw [e2i, e2l, ci.line]; omega)
  generalize p2.advance hd.start = p3 at ad
  have w3 := w2.adv ad
  have s3 := ad.st s2.2.1
  have k3 : p3.containerKind = BK.atxHeading := by rw [ad.ckind, ob2.ckind]
  have hdrop3 : p3.line.getD p3.i 0 = p.bytesAfterIndent.getD hd.start 0 := by
    rw [ad.i, ad.line, e2i, e2l]; exact getD_of_drop p1 _ _ hdrop
  have hind3 : p3.indent = 0 := indent_zero_of_getD p3 (by rw [hdrop3]; exact hb3.1) (by rw [hdrop3]; exact hb3.2)
  have hf : freeKinds p3.containerKind = some paraKinds := by rw [k3]; rfl
  have coG := collectInline_G_free x p3 IK.unparsed (hd.stop - hd.start) paraKinds w3.inv.tree w3.g (by omega) hf
    (by rfl) (by rfl) (by decide)
  obtain ⟨w4, co, _, _, e4s⟩ := collectInline_W x p3 IK.unparsed (hd.stop - hd.start) w3 (by omega) (by
    rw [ciSkip_zero p3 hind3, ad.i, ad.line, e2i, e2l, ci.line]; omega) (by rw [k3]; rfl) coG
  generalize p3.collectInline x IK.unparsed (hd.stop - hd.start) = p4 at w4 co e4s
  have s4 := co.st s3.2
  have k4 : p4.containerKind = BK.atxHeading := by rw [co.ckind, k3]
  apply consume_end_LI x p4 w4 s4.2.1 (depth_ne_zero w4.inv.tree k4 (by decide))
  · rw [e4s, tree_source ad.tree, r2.source]; exact hend
  · rw [k4]; rfl
  · rw [k4]; decide

/-! ### fenced code -/

/-- `consumeLine` at the end of a start that leaves its block open. -/
theorem consume_LI {setx am : Bool} (p : LP) {e : Int} (h : W setx e p) (hB : ChB setx p) (hst : p.state ≤ 2)
    (he : e ≤ p.source.length) : LI setx am p.consumeLine := by
  have cl := consumeLine_post p h.inv.cur
  generalize p.consumeLine = p4 at cl
  have w4 := h.cl cl
  have s4 := cl.st hst
  have hc4 : curPos p4 = p.source.length := curPos_cl cl h.src
  exact li_of_consumed (by rw [hc4]; exact w4.mono he) (chB_cl cl hB) s4

theorem startFenced_LI {setx am : Bool} (x : PExt) (p : LP) (h : SPre setx am p) (hs : p.state = 0) :
    LI setx am (startFenced x p) := by
  unfold startFenced
  simp only []
  split
  · exact h.li
  split
  · exact h.li
  rename_i _ hn0
  have hb := parseCodeFence_bound p.bytesAfterIndent
  have hr := parseCodeFence_range p.bytesAfterIndent (by simpa using hn0)
  have hrun := parseCodeFence_run p.bytesAfterIndent (by simpa using hn0)
  generalize parseCodeFence p.bytesAfterIndent = fc at hb hr hrun ⊢
  obtain ⟨ci, hdrop, hil⟩ := consumeAll p h.w.inv
  generalize p.consumeIndentN p.indent = p1 at ci hdrop hil ⊢
  have w1 := h.w.ci ci
  have s1 := ci.st (by omega)
  have hc1 := curPos_ci ci
  have hsd : p1.source.drop (p1.lineStart + p1.i) = p.bytesAfterIndent := by rw [src_drop_cur w1.src, hdrop]
  have hcp := countPrefix_le fc.char p.bytesAfterIndent
  have hsl := w1.src.len
  have hend : curPos p1 + fc.n ≤ p1.source.length := by
    rw [curPos_cast, hrun]; rw [ci.line] at hsl; omega
  have ob := openBlock_W (setx := setx) (e' := curPos p1 + fc.n) x p1 BK.fencedCode (fun l => { l with char := fc.char, n := fc.n })
    w1 (chB_ci ci h.chB) (chC_ci ci h.chC) s1.2 (by decide) (fun _ => rfl) (fun _ => rfl)
    (fun s => localOK_fenced s _ _ (by omega) hr.2) (by omega) (by
      intro lo h0 hlo
      apply nodeOK_new_shape (by rfl) rfl (by show lo ≤ curPos p1; omega) (by show curPos p1 ≤ _; omega)
        (by have := curPos_nonneg p1; omega)
      exact shapeOK_new_fence (bai := p.bytesAfterIndent) (s := p1.lineStart + p1.i) rfl hsd (curPos_cast p1)
        (by show ((fc.n : Nat) : Int) = _; rw [hrun]) (by show 3 ≤ countPrefix fc.char _; omega) hr.2 rfl
        (by show _ ≤ curPos p1 + ((fc.n : Nat) : Int); rw [← curPos_cast, hrun]; exact Int.le_refl _))
  obtain ⟨w2, r2, ob2⟩ := ob
  generalize p1.openBlock x BK.fencedCode (fun l => { l with char := fc.char, n := fc.n }) = p2 at w2 r2 ob2
  have s2 := ob2.st s1.2
  have sc := setContainerIndent_post p2 (↑p.indent) w2.inv.tree s2.2.2 s2.2.1 (Or.inr ob2.ckind)
  obtain ⟨w3, b3, _⟩ := setContainerIndent_W (setx := setx) p2 (↑p.indent) w2 (sc.inv w2.inv) sc.cur
  have scG := setContainerIndent_G p2 (↑p.indent) w2.inv.tree w2.g
  obtain ⟨f, hfk, scC⟩ := setContainerIndent_container p2 (↑p.indent) w2.inv.tree
  have hs3 := setContainerIndent_source p2 (↑p.indent)
  generalize p2.setContainerIndent (↑p.indent) = p3 at sc w3 b3 scG scC hs3
  have e3i : p3.i = p1.i := by rw [cur_i sc.cur, cur_i ob2.cur]
  have e3l : p3.line = p1.line := by rw [cur_line sc.cur, cur_line ob2.cur]
  have s3 : 1 ≤ p3.state ∧ p3.state ≤ 2 := by rw [sc.state]; omega
  have hcont := r2.container
  have hk3 : p3.container.kind = BK.fencedCode := by rw [scC, hcont]; exact hfk _
  have hn3 : p3.container.inlines = [] := by rw [scC, hcont]; rfl
  have b3' : ChB setx p3 := b3 r2.chB
  have e3s : p3.source = p1.source := by rw [hs3, r2.source]
  split
  · rename_i hcond
    simp only [Bool.and_eq_true, decide_eq_true_eq] at hcond
    obtain ⟨⟨hc1', hc2⟩, hc3⟩ := hcond
    obtain ⟨hb1, hb2, hb3⟩ := hb hc1' hc2
    have ad := advance_post p3 fc.infoStart.toNat w3.inv.cur (by rw [e3i, e3l, ci.line]; omega)
    have hcon4 := advance_container p3 fc.infoStart.toNat
    generalize p3.advance fc.infoStart.toNat = p4 at ad hcon4
    have w4 := w3.adv ad
    have s4 := ad.st s3.2
    have hdrop4 : p4.line.getD p4.i 0 = p.bytesAfterIndent.getD fc.infoStart.toNat 0 := by
      rw [ad.i, ad.line, e3i, e3l]; exact getD_of_drop p1 _ _ hdrop
    have hind4 : p4.indent = 0 := indent_zero_of_getD p4 (by rw [hdrop4]; exact hb2) (by rw [hdrop4]; exact hb3)
    have coG := collectInline_G_info x p4 (fc.infoEnd - fc.infoStart).toNat w4.inv.tree w4.g (by omega) hind4
      (by rw [hcon4]; exact hk3) (by rw [hcon4]; exact hn3)
    have k4 : p4.containerKind = BK.fencedCode := by
      show p4.container.kind = _; rw [hcon4]; exact hk3
    obtain ⟨w5, co, b5, _, e5s⟩ := collectInline_W x p4 IK.infoString (fc.infoEnd - fc.infoStart).toNat w4 (by omega) (by
      rw [ciSkip_zero p4 hind4, ad.i, ad.line, e3i, e3l, ci.line]; omega) (by rw [k4]; rfl) coG
    generalize p4.collectInline x IK.infoString (fc.infoEnd - fc.infoStart).toNat = p5 at w5 co b5 e5s
    have s5 := co.st s4.2
    apply consume_LI p5 w5 (b5 (chB_adv ad b3')) s5.2.1
    rw [e5s, tree_source ad.tree, e3s]; exact hend
  · apply consume_LI p3 w3 b3' s3.2
    rw [e3s]; exact hend

/-! ### HTML block -/

theorem htmlStartLoop_LI {setx am : Bool} (x : PExt) (line : Bytes) : ∀ (fuel i : Nat) (p : LP), SPre setx am p → p.state = 0 →
    LI setx am (htmlStartLoop x line fuel i p) := by
  intro fuel
  induction fuel with
  | zero => intro i p h hs; exact h.li
  | succ fuel ih =>
    intro i p h hs
    unfold htmlStartLoop
    split
    · exact h.li
    rename_i hi7
    split
    · split
      · exact h.li
      have ob := openBlock_W (setx := setx) (e' := curPos p) x p BK.htmlBlock (fun l => { l with n := i }) h.w h.chB h.chC
        (by omega) (by decide) (fun _ => rfl) (fun _ => rfl) (fun s => localOK_html s _ (by omega) (by omega)) (Int.le_refl _) (by
          intro lo h0 hlo
          exact nodeOK_new_free (by rfl) rfl (by show lo ≤ curPos p; omega) (Int.le_refl _) (by have := curPos_nonneg p; omega))
      obtain ⟨w2, r2, ob2⟩ := ob
      simp only []
      generalize p.openBlock x BK.htmlBlock (fun l => { l with n := i }) = p2 at w2 r2 ob2
      have s2 : p2.state = 1 := by rw [ob2.state, hs]; rfl
      have hc2 : curPos p2 = curPos p := curPos_of_cur ob2.cur r2.lineStart
      split
      · have hf : freeKinds p2.containerKind = some htmlKinds := by rw [ob2.ckind]; rfl
        have coG := collectInline_G_free x p2 IK.rawHTML p2.bytesAfterIndent.length htmlKinds w2.inv.tree w2.g (by omega) hf
          (by rfl) (by rfl) (by decide)
        obtain ⟨w4, co, _, _, e4s⟩ := collectInline_W x p2 IK.rawHTML p2.bytesAfterIndent.length w2 (by omega) (by
          rw [ciSkip_bai p2 w2.inv.cur]; exact Nat.le_refl _) (by rw [ob2.ckind]; rfl) coG
        generalize p2.collectInline x IK.rawHTML p2.bytesAfterIndent.length = p4 at w4 co e4s
        have s4 := co.st (by omega)
        have k4 : p4.containerKind = BK.htmlBlock := by rw [co.ckind, ob2.ckind]
        apply consume_end_LI x p4 w4 s4.2.1 (depth_ne_zero w4.inv.tree k4 (by decide))
        · rw [e4s, r2.source]; exact curPos_le_src h.w.src h.w.inv.cur
        · rw [k4]; rfl
        · rw [k4]; decide
      · exact li_of_leaf (by rw [hc2]; exact w2) r2.chB (by rw [ob2.ckind]; rfl) (by rw [ob2.ckind]; decide) (by omega)
    · exact ih (i + 1) p h hs

theorem startHTML_LI {setx am : Bool} (x : PExt) (p : LP) (h : SPre setx am p) (hs : p.state = 0) :
    LI setx am (startHTML x p) := by
  unfold startHTML
  simp only []
  split
  · exact h.li
  split
  · exact h.li
  exact htmlStartLoop_LI x _ 8 0 p h hs

end CM.Proofs.Shp
