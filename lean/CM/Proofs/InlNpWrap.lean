import CM.Proofs.InlNpBase
/-
C04, inline half — `wrap` does not panic when its start node is a child of its parent.
-/
namespace CM.Proofs.InlH
open CM CM.Model CM.Model.Inl CM.Gen
open Std.Do

set_option mvcgen.warning false

/-- no panic and a `⇓?` postcondition together -/
theorem np_of_post {α} {P : IState → Prop} {m : IM α} {Q : α → IState → Prop}
    (h0 : ⦃fun s => ⌜P s⌝⦄ m ⦃⇓! _ _ => ⌜True⌝⦄) (h : ⦃fun s => ⌜P s⌝⦄ m ⦃⇓? r s => ⌜Q r s⌝⦄) :
    ⦃fun s => ⌜P s⌝⦄ m ⦃⇓! r s => ⌜Q r s⌝⦄ := by
  apply (triple_iff_postNP _ _ _).2
  intro s hs
  have h1 := (triple_iff_postNP _ _ _).1 h0 s hs
  have h2 := Post.of_triple h s hs
  cases hr : m.run s with
  | error e => rw [hr] at h1; exact h1
  | ok p => rw [hr] at h2; exact h2

theorem wrap_np0 (kind sn : Nat) (en : Option Nat) (s0 : IState) (P : Nat) (A M T : List Nat)
    (hP : pmOf s0 sn = some P)
    (hk : (s0.nodes[P]!).kids = (A ++ sn :: (M ++ T)).toArray)
    (hA : sn ∉ A) :
    ⦃fun s => ⌜s = s0⌝⦄ wrap kind sn en ⦃⇓! _ _ => ⌜True⌝⦄ := by
  mvcgen [wrap, alloc, setParent, modifyNode, -wrap_spec, -wrap_specS, -wrap_exact']
  case inv1 =>
    exact PostCond.np (fun (p : _ × Nat) s =>
      ⌜s = wrapMid s0 kind sn en P ∧ 1 ≤ p.2 ∧ p.2 ≤ A.length + 1 ∧
        (p.1.suffix ≠ [] → p.2 = 1 + p.1.prefix.length) ∧ (p.1.suffix = [] → p.2 = A.length + 1)⌝)
  all_goals (try (exact PostCond.np (fun _ _ => ⌜True⌝)))
  np_norm
  all_goals (try trivial)
  all_goals (try (exact ExceptConds.entails.refl _))
  all_goals (try (have hx := ‹Option.join _ = some _›))
  all_goals (try subst_vars)
  all_goals (try (have hpar : _ = P := Option.some.inj (Eq.trans (Eq.symm hx) hP)))
  all_goals (try subst hpar)
  all_goals (try simp -failIfUnchanged +zetaDelta only [] at *)
  case vc1 =>
    obtain ⟨h1, h2, h3, h4, h5⟩ := ‹_ ∧ 1 ≤ _ ∧ _›
    have hb := ‹(!decide (_ < _)) = true›
    simp only [hk, Bool.not_eq_true', decide_eq_false_iff_not, List.size_toArray, List.length_append,
      List.length_cons] at hb
    exact ⟨h1, h2, h3, fun h => absurd rfl h, fun _ => by omega⟩
  case vc2 =>
    obtain ⟨h1, h2, h3, h4, h5⟩ := ‹_ ∧ 1 ≤ _ ∧ _›
    refine ⟨h1, h2, h3, fun h => absurd rfl h, fun _ => ?_⟩
    have he := ‹(_ == sn) = true›
    rw [hk] at he
    obtain ⟨j, hj⟩ := Nat.exists_eq_add_of_le h2
    subst hj
    rcases Nat.lt_or_eq_of_le h3 with hb | hb
    · exfalso
      have he' := beq_iff_eq.1 he
      rw [Nat.add_sub_cancel_left] at he'
      have := arr_get_lt A (sn :: (M ++ T)) j (by omega)
      rw [he'] at this
      exact hA this
    · exact hb
  case vc3 =>
    obtain ⟨h1, h2, h3, h4, h5⟩ := ‹_ ∧ 1 ≤ _ ∧ _›
    have hne := ‹¬(_ == sn) = true›
    have hlt := ‹¬(!decide (_ < _)) = true›
    have hrange := ‹_ = _ ++ _ :: _›
    have hlen := congrArg List.length hrange
    rw [hk] at hne
    simp only [hk, range_len, List.size_toArray, List.length_append, List.length_cons] at hlen hlt
    simp only [Bool.not_eq_true', decide_eq_false_iff_not, Decidable.not_not] at hlt
    have h4' := h4 (by simp)
    obtain ⟨j, hj⟩ := Nat.exists_eq_add_of_le h2
    subst hj
    rw [Nat.add_sub_cancel_left] at hne
    have hb : j ≠ A.length := fun hb' => hne (by rw [hb', arr_get_mid]; simp)
    refine ⟨h1, by omega, by omega, fun _ => by simp only [List.length_append, List.length_singleton]; omega,
      fun hs => ?_⟩
    subst hs
    simp only [List.length_nil] at hlen
    omega
  case vc4 =>
    exact ⟨rfl, by omega, by omega, fun _ => by simp, fun h => by
      have := congrArg List.length h
      simp only [hk, range_len, List.size_toArray, List.length_append, List.length_cons, List.length_nil] at this
      omega⟩
  case vc5 =>
    obtain ⟨h1, h2, h3, h4, h5⟩ := ‹_ ∧ 1 ≤ _ ∧ _›
    have hr := h5 trivial
    have hchk := ‹(_ == 0 || _ != sn) = true›
    rw [hr, hk] at hchk
    simp only [Nat.add_sub_cancel, arr_get_mid, List.size_toArray, List.length_append, List.length_cons, bne_self_eq_false,
      Bool.or_false, beq_iff_eq] at hchk
    omega
  case vc15 => exact ‹∀ (parent : Nat), (_ : Option Nat) = some parent → False› _ hx

/-- `wrap` when the start node is a child of its parent: no panic, and the exact new state. -/
@[spec 30000]
theorem wrap_np (kind sn : Nat) (en : Option Nat) (s0 : IState)
    (hP : (pmOf s0 sn).isSome = true)
    (hmem : sn ∈ (s0.nodes[(pmOf s0 sn).getD 0]!).kids.toList)
    (hsz : s0.parentMap.size = s0.nodes.size)
    (hlt : ∀ k ∈ (s0.nodes[(pmOf s0 sn).getD 0]!).kids.toList, k < s0.nodes.size) :
    ⦃fun s => ⌜s = s0⌝⦄ wrap kind sn en
    ⦃⇓! r s => ⌜r = s0.nodes.size ∧
        s.nodes = wrapNodes s0 kind sn en ((pmOf s0 sn).getD 0)
          (cutA (s0.nodes[(pmOf s0 sn).getD 0]!).kids.toList sn)
          (cutM (cutR (s0.nodes[(pmOf s0 sn).getD 0]!).kids.toList sn) en)
          (cutT (cutR (s0.nodes[(pmOf s0 sn).getD 0]!).kids.toList sn) en) ∧
        s.stack = s0.stack ∧ s.unparsedPos = s0.unparsedPos ∧ s.ignoreNextIndent = s0.ignoreNextIndent ∧
        s.parentMap.size = s0.nodes.size + 1 ∧
        (∀ i, pmOf s i = if i ∈ cutM (cutR (s0.nodes[(pmOf s0 sn).getD 0]!).kids.toList sn) en then some s0.nodes.size
                         else if i = s0.nodes.size then some ((pmOf s0 sn).getD 0) else pmOf s0 i)⌝⦄ := by
  refine np_of_post ?_ (wrap_exact' kind sn en s0 hP hmem hsz hlt)
  obtain ⟨P, hP'⟩ := Option.isSome_iff_exists.1 hP
  rw [hP'] at hmem
  simp only [Option.getD_some] at hmem
  have h1 := cut_eq hmem
  have h2 := cutMT (cutR (s0.nodes[P]!).kids.toList sn) en
  refine wrap_np0 kind sn en s0 P (cutA (s0.nodes[P]!).kids.toList sn)
    (cutM (cutR (s0.nodes[P]!).kids.toList sn) en) (cutT (cutR (s0.nodes[P]!).kids.toList sn) en) hP' ?_
    (cutA_not_mem _ _)
  rw [← h2, ← h1]

end CM.Proofs.InlH
