import CM.Proofs.BGStarts
/-
C05, block half — `ruleMatch`, `descendLoop`, `tryStarts`, `openingLoop`, `openNewBlocks`, `addLineText`,
`processLine` keep the grammar of the tree.
-/
namespace CM.Proofs.BG
open CM CM.Model CM.Gen
open CM.Proofs.BT

theorem GI.setDepth {p : LP} (h : GI p) (d : Nat) (hd : d ≤ p.depth) : GI { p with depth := d } :=
  ⟨h.inv.setDepth d hd, h.g⟩

theorem GI.setState {p : LP} (h : GI p) (s : Nat) : GI { p with state := s } := ⟨h.inv.setState s, h.g⟩

/-! ### ruleMatch -/

theorem ruleMatch_G (x : PExt) (kind : Nat) (p : LP) (h : GI p) (hs : p.state = 3) (hk : p.containerKind = kind)
    (ok : Bool) (p' : LP) (hrm : ruleMatch x kind p = some (ok, p')) : PBGrammar p'.root := by
  have hadv : ∀ n, PBGrammar (p.advance n).root := fun n => by rw [(advance_root p n).1]; exact h.g
  have hci : ∀ (q : LP) n, PBGrammar q.root → PBGrammar (q.consumeIndentN n).root := fun q n hq => by
    rw [consumeIndentN_root]; exact hq
  unfold ruleMatch at hrm
  split at hrm
  · simp only [Option.some.injEq, Prod.mk.injEq] at hrm; obtain ⟨_, rfl⟩ := hrm; exact h.g
  split at hrm
  · split at hrm
    · split at hrm
      · simp only [Option.some.injEq, Prod.mk.injEq] at hrm; obtain ⟨_, rfl⟩ := hrm; exact h.g
      · simp only [Option.some.injEq, Prod.mk.injEq] at hrm; obtain ⟨_, rfl⟩ := hrm; exact hci _ _ h.g
    · split at hrm
      · split at hrm
        · simp only [Option.some.injEq, Prod.mk.injEq] at hrm; obtain ⟨_, rfl⟩ := hrm; exact hci _ _ h.g
        · simp only [Option.some.injEq, Prod.mk.injEq] at hrm; obtain ⟨_, rfl⟩ := hrm; exact h.g
      · simp only [Option.some.injEq, Prod.mk.injEq] at hrm; obtain ⟨_, rfl⟩ := hrm; exact h.g
  split at hrm
  · simp only [] at hrm
    split at hrm
    · simp only [Option.some.injEq, Prod.mk.injEq] at hrm; obtain ⟨_, rfl⟩ := hrm; exact h.g
    split at hrm
    · simp only [Option.some.injEq, Prod.mk.injEq] at hrm; obtain ⟨_, rfl⟩ := hrm; exact h.g
    simp only [Option.some.injEq, Prod.mk.injEq] at hrm; obtain ⟨_, rfl⟩ := hrm
    have g3 : PBGrammar ((p.consumeIndentN p.indent).advance blockQuotePrefix.length).root := by
      rw [(advance_root _ _).1]; exact hci _ _ h.g
    split
    · exact hci _ _ g3
    · exact g3
  split at hrm
  · simp only [] at hrm
    split at hrm
    · simp only [Option.some.injEq, Prod.mk.injEq] at hrm; obtain ⟨_, rfl⟩ := hrm
      rw [consumeLine_root]; exact h.g
    · simp only [Option.some.injEq, Prod.mk.injEq] at hrm; obtain ⟨_, rfl⟩ := hrm
      split
      · exact hci _ _ h.g
      · exact hci _ _ h.g
  split at hrm
  · simp only [] at hrm
    split at hrm
    · split at hrm
      · simp only [Option.some.injEq, Prod.mk.injEq] at hrm; obtain ⟨_, rfl⟩ := hrm; exact h.g
      · simp only [Option.some.injEq, Prod.mk.injEq] at hrm; obtain ⟨_, rfl⟩ := hrm; exact hci _ _ h.g
    · simp only [Option.some.injEq, Prod.mk.injEq] at hrm; obtain ⟨_, rfl⟩ := hrm; exact hci _ _ h.g
  split at hrm
  · rename_i hkind
    have hk7 : p.containerKind = BK.htmlBlock := by rw [hk]; simpa using hkind
    split at hrm
    · split at hrm
      · simp only [Option.some.injEq, Prod.mk.injEq] at hrm; obtain ⟨_, rfl⟩ := hrm; exact h.g
      · simp only [Option.some.injEq, Prod.mk.injEq] at hrm; obtain ⟨_, rfl⟩ := hrm
        rw [consumeLine_root]
        exact collectInline_G_free x p IK.rawHTML _ htmlKinds h.inv.tree h.g (by omega) (by rw [hk7]; rfl)
          (by rfl) (by rfl) (by decide)
    · simp only [Option.some.injEq, Prod.mk.injEq] at hrm; obtain ⟨_, rfl⟩ := hrm; exact h.g
  split at hrm
  · simp only [Option.some.injEq, Prod.mk.injEq] at hrm; obtain ⟨_, rfl⟩ := hrm; exact h.g
  · cases hrm

/-! ### descendLoop -/

theorem descendLoop_G (x : PExt) : ∀ (fuel : Nat) (p : LP) (parent : Nat), GI { p with depth := parent } →
    GI (descendLoop x fuel p parent).2 := by
  intro fuel
  induction fuel with
  | zero => intro p parent h; exact h
  | succ fuel ih =>
    intro p parent h
    unfold descendLoop
    split
    · exact h
    rename_i c hc
    split
    · exact h
    simp only []
    have h1 : GI { p with depth := parent + 1 } :=
      ⟨⟨h.inv.panic, ⟨h.inv.cur.hi, h.inv.cur.htab⟩, ⟨h.inv.tree.root, by show (spineGet p.root (parent + 1)).isSome; rw [hc]; rfl⟩⟩, h.g⟩
    split
    · exact h
    · rename_i ok p2 hrm
      have hck : ({ ({ p with depth := parent + 1 } : LP) with state := stateDescending } : LP).containerKind = c.kind := by
        show PB.kind ((spineGet p.root (parent + 1)).getD p.root) = c.kind
        rw [hc]; rfl
      have rm := ruleMatch_post x c.kind _ (h1.inv.setState stateDescending) rfl ok p2 hrm
      have rmG := ruleMatch_G x c.kind _ (h1.setState stateDescending) rfl hck ok p2 hrm
      have d2 : p2.depth = parent + 1 := rm.depth
      have g2 : GI p2 := ⟨rm.inv, rmG⟩
      split
      · have cc := closeContainer_post x p2 (↑p2.lineStart + ↑p2.i) rm.inv.tree
        have ccG := closeContainer_G x p2 (↑p2.lineStart + ↑p2.i) rmG
        have g3 : GI (p2.closeContainer x (↑p2.lineStart + ↑p2.i)) := ⟨cc.inv rm.inv, ccG⟩
        exact g3.setDepth parent (by rw [cc.depth, d2]; omega)
      · split
        · exact g2.setDepth parent (by omega)
        · apply ih
          exact g2.setDepth (parent + 1) (by omega)

theorem descendOpenBlocks_G (x : PExt) (p : LP) (h : GI p) : GI (descendOpenBlocks x p).2 :=
  descendLoop_G x _ p 0 (h.setDepth 0 (Nat.zero_le _))

/-! ### tryStarts, openingLoop -/

theorem tryStarts_G : ∀ (fs : List (LP → LP)), (∀ f ∈ fs, ∀ q, GI q → q.state = 0 → SPost q (f q) ∧ PBGrammar (f q).root) →
    ∀ p, GI p → GI (tryStarts fs p) := by
  intro fs
  induction fs with
  | nil => intro _ p h; exact h
  | cons f rest ih =>
    intro hf p h
    unfold tryStarts
    simp only []
    have sp := hf f (List.mem_cons_self ..) { p with state := stateOpening } (h.setState _) rfl
    generalize f { p with state := stateOpening } = p' at sp
    split
    · exact ⟨sp.1.inv, sp.2⟩
    · exact ih (fun g hg => hf g (List.mem_cons_of_mem _ hg)) p' ⟨sp.1.inv, sp.2⟩

theorem openingLoop_G (x : PExt) : ∀ (fuel : Nat) (p : LP), GI p → GI (openingLoop x fuel p).2 := by
  intro fuel
  induction fuel with
  | zero => intro p h; exact h
  | succ fuel ih =>
    intro p h
    unfold openingLoop
    split
    · exact h
    · have ts := tryStarts_G _ (blockStartFns_G x) p h
      simp only []
      generalize tryStarts (blockStartFns x) p = p' at ts
      split
      · exact ih p' ts
      · split
        · exact ts
        · exact ts

/-! ### openNewBlocks -/

theorem openNewBlocks_G (x : PExt) (p : LP) (allMatched : Bool) (h : GI p) : PBGrammar (openNewBlocks x p allMatched).2.root := by
  unfold openNewBlocks
  split
  · exact closeContainer_G x _ _ h.g
  · have ol := openingLoop_G x (p.line.length + 8) p h
    generalize openingLoop x (p.line.length + 8) p = r at ol
    obtain ⟨hasText, q⟩ := r
    simp only [] at ol ⊢
    split
    · exact ol.g
    · split
      · exact ol.g
      · exact closeLastChild_G x q _ ol.g

/-! ### addLineText -/

theorem blankFn_good (c : PB) (h : PBGrammar c) :
    PBGrammar ((fun b => match b with
      | PB.mk l bs is => match bs.getLast? with
        | some c => PB.mk l (bs.dropLast ++ [c.setLabel fun cl => { cl with lastLineBlank := true }]) is
        | none => PB.mk l bs is) c) ∧
    CloseRes c [(fun b => match b with
      | PB.mk l bs is => match bs.getLast? with
        | some c => PB.mk l (bs.dropLast ++ [c.setLabel fun cl => { cl with lastLineBlank := true }]) is
        | none => PB.mk l bs is) c] := by
  obtain ⟨l, bs, is⟩ := c
  simp only []
  cases hgl : bs.getLast? with
  | none => exact ⟨h, CloseRes.refl _⟩
  | some c0 =>
    simp only []
    have hc0 : PBGrammar c0 := ((PBGrammar_mk l bs is).1 h).2 c0 (List.mem_of_getLast? hgl)
    refine ⟨PBG_replaceLast h hgl (setLabel_same (f := fun cl => { cl with lastLineBlank := true }) (fun _ => rfl) (fun _ => rfl) c0) ?_,
      CloseRes.same rfl rfl⟩
    intro c' hc'
    simp only [List.mem_singleton] at hc'
    subst hc'
    exact PBG_setLabel (f := fun cl => { cl with lastLineBlank := true }) (fun _ => rfl) (fun _ => rfl) (fun _ => rfl) hc0

theorem altBlank_G (p : LP) (h : PBGrammar p.root) : PBGrammar (altBlank p).root := by
  unfold altBlank
  split
  · exact (PBG_spineModify _ p.depth p.root (fun c _ hc => blankFn_good c hc) h).1
  · exact h

theorem altFlags_G (b : Bool) (p : LP) (h : PBGrammar p.root) : PBGrammar (altFlags b p).root := by
  unfold altFlags
  simp only []
  exact (PBG_setBlankFlags _ p.depth p.root h).1

/-- The leaf kind `addLineText` uses for the line's text in a block of kind `k`. -/
def textKind (k : Nat) : Nat :=
  if k == BK.indentedCode || k == BK.fencedCode then IK.text else if k == BK.htmlBlock then IK.rawHTML else IK.unparsed

theorem acceptsLines_free (k : Nat) (h : acceptsLines k = true) :
    ∃ ks, freeKinds k = some ks ∧ ks.contains IK.indent = true ∧ ks.contains (textKind k) = true ∧
      ((k == BK.indentedCode || k == BK.fencedCode) = true → ks.contains IK.softBreak = true) := by
  unfold acceptsLines at h
  split at h
  · rename_i hk; have : k = 6 := by simpa using hk
    subst this; exact ⟨_, rfl, rfl, rfl, fun _ => rfl⟩
  split at h
  · rename_i hk; have : k = 5 := by simpa using hk
    subst this; exact ⟨_, rfl, rfl, rfl, fun _ => rfl⟩
  split at h
  · rename_i hk; have : k = 3 := by simpa using hk
    subst this; exact ⟨_, rfl, rfl, rfl, fun h => by revert h; decide⟩
  split at h
  · rename_i hk; have : k = 7 := by simpa using hk
    subst this; exact ⟨_, rfl, rfl, rfl, fun h => by revert h; decide⟩
  split at h
  · rename_i hk; have : k = 1 := by simpa using hk
    subst this; exact ⟨_, rfl, rfl, rfl, fun h => by revert h; decide⟩
  · cases h

theorem consumeIndentN_treeOK (p : LP) (n : Nat) (h : TreeOK p) : TreeOK (p.consumeIndentN n) :=
  ⟨by rw [consumeIndentN_root]; exact h.root,
   by rw [consumeIndentN_root, show (p.consumeIndentN n).depth = p.depth from (consumeIndent_root _ p n).2]; exact h.valid⟩

theorem consumeIndentN_containerKind (p : LP) (n : Nat) : (p.consumeIndentN n).containerKind = p.containerKind := by
  unfold LP.containerKind LP.container
  rw [consumeIndentN_root, show (p.consumeIndentN n).depth = p.depth from (consumeIndent_root _ p n).2]

theorem altCont_G (x : PExt) (b : Bool) (p : LP) (h : GI p) (hs : acceptsLines p.containerKind = false → p.state ≤ 2)
    (q : LP) (hq : altCont x b p = some q) :
    TreeOK q ∧ PBGrammar q.root ∧ acceptsLines q.containerKind = true := by
  unfold altCont at hq
  simp only [] at hq
  split at hq
  · rename_i hacc
    split at hq
    · simp only [Option.some.injEq] at hq
      subst hq
      obtain ⟨ks, hf, hi, _, _⟩ := acceptsLines_free _ hacc
      have hT1 := appendInline_ok p (.node { isBlock := false, kind := IK.indent, start := p.lineStart + p.i, stop := p.lineStart + p.i + 1, indent := p.tabRem } []) h.inv.tree
      refine ⟨consumeIndentN_treeOK _ _ hT1, ?_, ?_⟩
      · rw [consumeIndentN_root]
        apply appendInline_G_free p _ ks h.inv.tree h.g hf
        simpa [inl, Tree.label, Tree.children] using hi
      · rw [consumeIndentN_containerKind, appendInline_containerKind _ _ h.inv.tree]; exact hacc
    · simp only [Option.some.injEq] at hq
      subst hq
      exact ⟨h.inv.tree, h.g, hacc⟩
  · split at hq
    · simp only [Option.some.injEq] at hq
      subst hq
      rename_i hna _
      have hna' : acceptsLines p.containerKind = false := by simpa using hna
      have ob := openBlock_inv x p BK.paragraph id id_kind h.inv (hs hna') (Or.inl (by decide))
      have obG := openBlock_G x p BK.paragraph id h.inv.tree h.g (hs hna') (by decide) id_kind (fun _ => rfl)
      refine ⟨consumeIndentN_treeOK _ _ ob.ok, by rw [consumeIndentN_root]; exact obG.1, ?_⟩
      rw [consumeIndentN_containerKind, ob.ckind]; decide
    · cases hq

theorem altTail_G (q : LP) (hT : TreeOK q) (hG : PBGrammar q.root) (hacc : acceptsLines q.containerKind = true) :
    PBGrammar (altTail q).root := by
  unfold altTail
  simp only []
  obtain ⟨ks, hf, _, htk, hsb⟩ := acceptsLines_free _ hacc
  have g1 : PBGrammar (q.appendInline (mkInline (textKind q.containerKind) (q.lineStart + q.i) (q.lineStart + q.line.length))).root := by
    apply appendInline_G_free q _ ks hT hG hf
    simpa [inl, mkInline, Tree.label, Tree.children] using htk
  have e : (if (q.containerKind == BK.indentedCode || q.containerKind == BK.fencedCode) = true then IK.text
      else if (q.containerKind == BK.htmlBlock) = true then IK.rawHTML else IK.unparsed) = textKind q.containerKind := rfl
  rw [e]
  split
  · rename_i hcode
    simp only [Bool.and_eq_true] at hcode
    have hT1 := appendInline_ok q (mkInline (textKind q.containerKind) (q.lineStart + q.i) (q.lineStart + q.line.length)) hT
    apply appendInline_G_free _ _ ks hT1 g1 (by rw [appendInline_containerKind _ _ hT]; exact hf)
    have := hsb hcode.1.1
    simpa [inl, mkInline, Tree.label, Tree.children] using this
  · exact g1

theorem addLineText_G (x : PExt) (p : LP) (h : GI p) (hs : acceptsLines p.containerKind = false → p.state ≤ 2) :
    PBGrammar (addLineText x p).root := by
  rw [addLineText_eq]
  have a := altBlank_step p h.inv
  have aG := altBlank_G p h.g
  have b := altFlags_step p.isRestBlank (altBlank p) a.inv
  have bG := altFlags_G p.isRestBlank (altBlank p) aG
  generalize altFlags p.isRestBlank (altBlank p) = pB at b bG
  have kB : pB.containerKind = p.containerKind := by rw [b.ckind, a.ckind]
  have sB : pB.state = p.state := by rw [b.state, a.state]
  split
  · exact bG
  · rename_i q hq
    obtain ⟨hT, hG, hacc⟩ := altCont_G x _ pB ⟨b.inv, bG⟩ (by rw [kB, sB]; exact hs) q hq
    exact altTail_G q hT hG hacc

/-! ### processLine -/

/-- **One line through the line parser keeps the grammar.** -/
theorem processLine_G (x : PExt) (p : LP) (h : GI p) : GI (processLine x p) := by
  refine ⟨processLine_inv x p h.inv, ?_⟩
  unfold processLine
  have d := descendOpenBlocks_G x p h
  generalize descendOpenBlocks x p = r at d
  obtain ⟨allMatched, p1⟩ := r
  simp only [] at d ⊢
  split
  · exact d.g
  · have o := openNewBlocks_post x p1 allMatched d.inv
    have oG := openNewBlocks_G x p1 allMatched d
    generalize openNewBlocks x p1 allMatched = r2 at o oG
    obtain ⟨hasText, p2⟩ := r2
    simp only [] at o oG ⊢
    split
    · rename_i ht
      exact addLineText_G x p2 ⟨o.inv, oG⟩ (o.st ht)
    · exact oG

end CM.Proofs.BG
