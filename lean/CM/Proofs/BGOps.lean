import CM.Proofs.BGClose
/-
C05, block half — the tree operations of the line parser keep the grammar of the root:
`closeContainer`, `closeLastChild`, `openBlockLoop`, `openBlock` (with the exact shape of the new tree, `Nest`),
`modifyContainer`, `appendInline`, `setContainerIndent`, `endBlock`, `collectInline`.
-/
namespace CM.Proofs.BG
open CM CM.Model CM.Gen
open CM.Proofs.BT

/-- The edit `openBlock` applies to the container. -/
def appendChild (child : PB) : PB → PB := fun b => match b with
  | .mk l bs is => .mk l (bs ++ [child]) is

/-- The edit `appendInline` applies to the container. -/
def appendInl (t : Tree) : PB → PB := fun b => match b with
  | .mk l bs is => .mk l bs (is ++ [t])

/-! ### sub-blocks on the spine -/

theorem PBG_spineGet : ∀ (d : Nat) (b c : PB), PBGrammar b → spineGet b d = some c → PBGrammar c := by
  intro d
  induction d with
  | zero => intro b c h hs; rw [spineGet_zero] at hs; cases hs; exact h
  | succ d ih =>
    intro b c h hs
    obtain ⟨l, bs, is⟩ := b
    rw [spineGet_succ] at hs
    cases hgl : bs.getLast? with
    | none => rw [hgl] at hs; cases hs
    | some c0 =>
      rw [hgl] at hs
      exact ih c0 c (((PBGrammar_mk l bs is).1 h).2 c0 (List.mem_of_getLast? hgl)) hs

theorem container_eq (p : LP) (h : (spineGet p.root p.depth).isSome) : spineGet p.root p.depth = some p.container := by
  unfold LP.container
  cases hs : spineGet p.root p.depth with
  | none => rw [hs] at h; cases h
  | some c => rfl

theorem PBG_container (p : LP) (h : TreeOK p) (hG : PBGrammar p.root) : PBGrammar p.container :=
  PBG_spineGet p.depth p.root _ hG (container_eq p h.valid)

/-! ### closing -/

theorem replaceLastFn_good (g : PB → List PB)
    (hg : ∀ c, PBGrammar c → (∀ c' ∈ g c, PBGrammar c') ∧ CloseRes c (g c)) (c : PB) (h : PBGrammar c) :
    PBGrammar (replaceLastFn g c) ∧ CloseRes c [replaceLastFn g c] := by
  obtain ⟨l, bs, is⟩ := c
  simp only [replaceLastFn]
  cases hgl : bs.getLast? with
  | none => exact ⟨h, CloseRes.refl _⟩
  | some c0 =>
    simp only []
    have r := hg c0 (((PBGrammar_mk l bs is).1 h).2 c0 (List.mem_of_getLast? hgl))
    exact ⟨PBG_replaceLast h hgl r.2 r.1, CloseRes.same rfl rfl⟩

theorem spineReplaceLast_G (x : PExt) (src : Bytes) (e : Int) (root : PB) (d : Nat) (h : PBGrammar root) :
    PBGrammar (spineReplaceLast (closeBlock x src e) root d) := by
  rw [spineReplaceLast_eq]
  exact (PBG_spineModify _ d root (fun c _ hc => replaceLastFn_good _ (closeBlock_good x src e) c hc) h).1

theorem closeContainer_G (x : PExt) (p : LP) (e : Int) (h : PBGrammar p.root) : PBGrammar (p.closeContainer x e).root := by
  unfold LP.closeContainer
  split
  · show PBGrammar ((closeBlock x p.source e p.root).headD p.root)
    have r := closeBlock_good x p.source e p.root h
    cases hc : closeBlock x p.source e p.root with
    | nil => exact h
    | cons a rest => exact r.1 a (by rw [hc]; exact List.mem_cons_self ..)
  · exact spineReplaceLast_G x p.source e p.root _ h

theorem closeLastChild_G (x : PExt) (p : LP) (e : Int) (h : PBGrammar p.root) : PBGrammar (p.closeLastChild x e).root :=
  spineReplaceLast_G x p.source e p.root _ h

theorem setPanic_root (p : LP) (m : String) : (p.setPanic m).root = p.root ∧ (p.setPanic m).depth = p.depth := by
  unfold LP.setPanic; split <;> exact ⟨rfl, rfl⟩

theorem endBlock_G (x : PExt) (p : LP) (h : PBGrammar p.root) : PBGrammar (p.endBlock x).root := by
  unfold LP.endBlock
  split
  · rw [(setPanic_root p _).1]; exact h
  · apply closeContainer_G
    rw [markMatched_eq]; exact h

theorem openBlockLoop_G (x : PExt) (kind : Nat) : ∀ (fuel : Nat) (p : LP), PBGrammar p.root →
    PBGrammar (LP.openBlockLoop x kind fuel p).root := by
  intro fuel
  induction fuel with
  | zero => intro p h; exact h
  | succ fuel ih =>
    intro p h
    unfold LP.openBlockLoop
    split
    · exact h
    · split
      · rw [(setPanic_root p _).1]; exact h
      · exact ih _ (closeContainer_G x p _ h)

/-- `openBlockLoop` stops at a container that can contain the new block. -/
theorem openBlockLoop_cc (x : PExt) (kind : Nat) : ∀ (fuel : Nat) (p : LP), TreeOK p → p.depth < fuel →
    (kind ≠ BK.listItem ∨ canContain p.containerKind kind = true) →
    canContain (LP.openBlockLoop x kind fuel p).containerKind kind = true := by
  intro fuel
  induction fuel with
  | zero => intro p _ h; omega
  | succ fuel ih =>
    intro p h hd hk
    unfold LP.openBlockLoop
    split
    · rename_i hcc; exact hcc
    · rename_i hcc
      have hkind : kind ≠ BK.listItem := by
        rcases hk with hk | hk
        · exact hk
        · exact absurd hk hcc
      split
      · rename_i hd0
        have hd0 : p.depth = 0 := by simpa using hd0
        rw [containerKind_zero p hd0, h.root, doc_canContain kind hkind] at hcc
        exact absurd rfl hcc
      · rename_i hd0
        have hd0 : p.depth ≠ 0 := by simpa using hd0
        have cc := closeContainer_post x p p.lineStart h
        exact ih _ cc.ok (by rw [cc.depth]; omega) (Or.inl hkind)

/-! ### editing the container -/

theorem modifyContainer_G (p : LP) (f : PB → PB) (hT : TreeOK p) (hG : PBGrammar p.root)
    (hf : PBGrammar p.container → PBGrammar (f p.container) ∧ CloseRes p.container [f p.container]) :
    PBGrammar (p.modifyContainer f).root := by
  unfold LP.modifyContainer
  refine (PBG_spineModify f p.depth p.root ?_ hG).1
  intro c hc hcG
  rw [container_eq p hT.valid] at hc
  cases hc
  exact hf hcG

theorem modifyContainer_container (p : LP) (f : PB → PB) (hT : TreeOK p) :
    (p.modifyContainer f).container = f p.container := by
  unfold LP.modifyContainer LP.container
  show (spineGet (spineModify f p.root p.depth) p.depth).getD _ = _
  rw [spineGet_modify_self]
  cases hs : spineGet p.root p.depth with
  | none => have := hT.valid; rw [hs] at this; cases this
  | some c => rfl

theorem appendInline_eq (p : LP) (t : Tree) : p.appendInline t = p.modifyContainer (appendInl t) := rfl

/-- Appending an inline node the container's kind allows. -/
theorem appendInline_G (p : LP) (t : Tree) (hT : TreeOK p) (hG : PBGrammar p.root)
    (hok : ∀ l bs is, p.container = .mk l bs is → inlinesOK l is = true → inlinesOK l (is ++ [t]) = true) :
    PBGrammar (p.appendInline t).root := by
  rw [appendInline_eq]
  apply modifyContainer_G p _ hT hG
  intro hc
  generalize hcc : p.container = c at hc
  obtain ⟨l, bs, is⟩ := c
  refine ⟨?_, CloseRes.same rfl rfl⟩
  rw [PBGrammar_mk] at hc
  show PBGrammar (.mk l bs (is ++ [t]))
  rw [PBGrammar_mk]
  refine ⟨?_, hc.2⟩
  have hloc := hc.1
  unfold localOK at hloc ⊢
  simp only [Bool.and_eq_true] at hloc ⊢
  exact ⟨hloc.1, hok l bs is hcc hloc.2⟩

theorem appendInline_container (p : LP) (t : Tree) (hT : TreeOK p) : (p.appendInline t).container = appendInl t p.container := by
  rw [appendInline_eq]; exact modifyContainer_container p _ hT

/-- Appending a leaf of one of the kinds the container takes freely. -/
theorem appendInline_G_free (p : LP) (t : Tree) (ks : List Nat) (hT : TreeOK p) (hG : PBGrammar p.root)
    (hf : freeKinds p.containerKind = some ks) (ht : inl ks t = true) : PBGrammar (p.appendInline t).root := by
  apply appendInline_G p t hT hG
  intro l bs is hc hi
  have : p.containerKind = l.kind := by unfold LP.containerKind; rw [hc]; rfl
  rw [this] at hf
  exact inlinesOK_append hi hf ht

theorem setContainerIndent_G (p : LP) (n : Int) (hT : TreeOK p) (hG : PBGrammar p.root) :
    PBGrammar (p.setContainerIndent n).root := by
  unfold LP.setContainerIndent
  split
  · rw [(setPanic_root p _).1]; exact hG
  · split
    · rw [(setPanic_root p _).1]; exact hG
    · apply modifyContainer_G p _ hT hG
      intro hc
      exact ⟨PBG_setLabel (f := fun l => { l with indent := n }) (fun _ => rfl) (fun _ => rfl) (fun _ => rfl) hc,
        setLabel_same (f := fun l => { l with indent := n }) (fun _ => rfl) (fun _ => rfl) _⟩

/-- `setContainerIndent` keeps the container's kind and children. -/
theorem setContainerIndent_container (p : LP) (n : Int) (hT : TreeOK p) :
    ∃ f : PLabel → PLabel, (∀ l, (f l).kind = l.kind) ∧ (p.setContainerIndent n).container = p.container.setLabel f := by
  have hid : ∀ c : PB, c.setLabel id = c := by intro c; obtain ⟨l, bs, is⟩ := c; rfl
  have keep : ∀ m : String, (p.setPanic m).container = p.container := by
    intro m; unfold LP.container; rw [(setPanic_root p m).1, (setPanic_root p m).2]
  unfold LP.setContainerIndent
  split
  · exact ⟨id, fun _ => rfl, by rw [keep, hid]⟩
  · split
    · exact ⟨id, fun _ => rfl, by rw [keep, hid]⟩
    · exact ⟨fun l => { l with indent := n }, fun _ => rfl, modifyContainer_container p _ hT⟩

/-! ### openBlock -/

/-- The state in which `openBlock` appends the new child: ancestors that cannot contain it are closed, and so is the
    previous last child of the new parent. -/
def obPre (x : PExt) (p : LP) (kind : Nat) : LP :=
  (LP.openBlockLoop x kind (p.depth + 1) { p with state := mm p.state }).closeLastChild x
    (LP.openBlockLoop x kind (p.depth + 1) { p with state := mm p.state }).lineStart

theorem state_le_two {s : Nat} (h : s ≤ 2) : (s == stateDescending || s == stateDescendTerminated) = false := by
  simp only [stateDescending, stateDescendTerminated]
  have : s ≠ 3 := by omega
  have : s ≠ 4 := by omega
  simp [*]

theorem openBlock_eq (x : PExt) (p : LP) (kind : Nat) (attrs : PLabel → PLabel) (hst : p.state ≤ 2) :
    p.openBlock x kind attrs =
      { obPre x p kind with
        root := spineModify (appendChild (.mk (attrs { kind := kind, start := (obPre x p kind).lineStart + (obPre x p kind).i }) [] []))
          (obPre x p kind).root (obPre x p kind).depth,
        depth := (obPre x p kind).depth + 1 } := by
  unfold LP.openBlock
  simp only [state_le_two hst, Bool.false_eq_true, if_false]
  rw [markMatched_eq]
  rfl

structure PrePost (p q : LP) (kind : Nat) : Prop where
  ok : TreeOK q
  g : PBGrammar q.root
  cc : canContain q.containerKind kind = true
  cur : cur q = cur p
  lineStart : q.lineStart = p.lineStart

theorem openBlockLoop_lineStart (x : PExt) (kind : Nat) : ∀ (fuel : Nat) (p : LP),
    (LP.openBlockLoop x kind fuel p).lineStart = p.lineStart := by
  intro fuel
  induction fuel with
  | zero => intro p; rfl
  | succ fuel ih =>
    intro p
    unfold LP.openBlockLoop
    split
    · rfl
    · split
      · unfold LP.setPanic; split <;> rfl
      · rw [ih]; unfold LP.closeContainer; split <;> rfl

theorem obPre_post (x : PExt) (p : LP) (kind : Nat) (hT : TreeOK p) (hG : PBGrammar p.root)
    (hk : kind ≠ BK.listItem ∨ canContain p.containerKind kind = true) : PrePost p (obPre x p kind) kind := by
  unfold obPre
  have h1 : TreeOK ({ p with state := mm p.state } : LP) := ⟨hT.root, hT.valid⟩
  have ol := openBlockLoop_post x kind (p.depth + 1) { p with state := mm p.state } h1 hk
  have og := openBlockLoop_G x kind (p.depth + 1) { p with state := mm p.state } hG
  have oc := openBlockLoop_cc x kind (p.depth + 1) { p with state := mm p.state } h1 (Nat.lt_succ_self _) hk
  have ols := openBlockLoop_lineStart x kind (p.depth + 1) { p with state := mm p.state }
  generalize LP.openBlockLoop x kind (p.depth + 1) { p with state := mm p.state } = p2 at ol og oc ols
  refine ⟨closeLastChild_ok x p2 _ ol.ok, closeLastChild_G x p2 _ og, ?_, ?_, ?_⟩
  · rw [closeLastChild_containerKind x p2 _ ol.ok]; exact oc
  · show BT.cur p2 = _; rw [ol.cur]; rfl
  · show p2.lineStart = _; rw [ols]

/-- The tree is the tree of `q` with the block `C` appended to `q`'s container; the container is at depth `j` of `C`. -/
structure Nest (q p : LP) (C : PB) (j : Nat) : Prop where
  root : p.root = spineModify (appendChild C) q.root q.depth
  depth : p.depth = q.depth + 1 + j
  valid : (spineGet q.root q.depth).isSome
  source : p.source = q.source
  lineStart : p.lineStart = q.lineStart

theorem spineGet_appendChild (C c : PB) (k : Nat) : spineGet (appendChild C c) (k + 1) = spineGet C k := by
  obtain ⟨l, bs, is⟩ := c
  show spineGet (.mk l (bs ++ [C]) is) (k + 1) = _
  rw [spineGet_succ]
  simp

theorem spineModify_appendChild (F : PB → PB) (C c : PB) (k : Nat) :
    spineModify F (appendChild C c) (k + 1) = appendChild (spineModify F C k) c := by
  obtain ⟨l, bs, is⟩ := c
  show spineModify F (.mk l (bs ++ [C]) is) (k + 1) = .mk l (bs ++ [spineModify F C k]) is
  rw [spineModify_succ]
  simp

theorem Nest.get {q p : LP} {C : PB} {j : Nat} (h : Nest q p C j) (k : Nat) :
    spineGet p.root (q.depth + 1 + k) = spineGet C k := by
  rw [h.root]
  have e : q.depth + 1 + k = q.depth + (k + 1) := by omega
  rw [e, spineGet_modify_add]
  cases hs : spineGet q.root q.depth with
  | none => have := h.valid; rw [hs] at this; cases this
  | some c => exact spineGet_appendChild C c k

theorem Nest.modify {q p : LP} {C : PB} {j : Nat} (h : Nest q p C j) (F : PB → PB) (k : Nat) :
    spineModify F p.root (q.depth + 1 + k) = spineModify (appendChild (spineModify F C k)) q.root q.depth := by
  rw [h.root]
  have e : q.depth + 1 + k = q.depth + (k + 1) := by omega
  rw [e, spineModify_comp]
  congr 1
  funext c
  exact spineModify_appendChild F C c k

theorem Nest.container {q p : LP} {C : PB} {j : Nat} (h : Nest q p C j) : spineGet p.root p.depth = spineGet C j := by
  rw [h.depth]; exact h.get j

theorem Nest.treeOK {q p : LP} {C : PB} {j : Nat} (h : Nest q p C j) (hq : TreeOK q) (hj : (spineGet C j).isSome) : TreeOK p := by
  refine ⟨?_, by rw [h.container]; exact hj⟩
  rw [h.root]
  simp only [PB.kind]
  rw [spineModify_label (appendChild C) (fun c => by obtain ⟨l, bs, is⟩ := c; rfl)]
  exact hq.root

/-- The generic `openBlock`: the new tree is a `Nest` over `obPre`. -/
theorem openBlock_nest (x : PExt) (p : LP) (kind : Nat) (attrs : PLabel → PLabel) (hT : TreeOK p) (hG : PBGrammar p.root)
    (hst : p.state ≤ 2) (hk : kind ≠ BK.listItem ∨ canContain p.containerKind kind = true) :
    Nest (obPre x p kind) (p.openBlock x kind attrs)
      (.mk (attrs { kind := kind, start := (obPre x p kind).lineStart + (obPre x p kind).i }) [] []) 0 := by
  rw [openBlock_eq x p kind attrs hst]
  have pp := obPre_post x p kind hT hG hk
  exact ⟨rfl, rfl, pp.ok.valid, rfl, rfl⟩

/-- `openBlock` when the container is the childless block at depth `j` of the block `C` that was just appended
    (and can contain the new block): the new block is appended there. -/
theorem openBlock_nested (x : PExt) (q p : LP) (C T : PB) (j : Nat) (kind : Nat) (attrs : PLabel → PLabel)
    (h : Nest q p C j) (hTip : spineGet C j = some T) (hT0 : T.blocks = []) (hcc : canContain T.kind kind = true)
    (hst : p.state ≤ 2) :
    Nest q (p.openBlock x kind attrs)
      (spineModify (appendChild (.mk (attrs { kind := kind, start := p.lineStart + p.i }) [] [])) C j) (j + 1) ∧
    (p.openBlock x kind attrs).state = mm p.state ∧ BT.cur (p.openBlock x kind attrs) = BT.cur p ∧
    (p.openBlock x kind attrs).panic = p.panic := by
  have hck : ({ p with state := mm p.state } : LP).containerKind = T.kind := by
    show PB.kind ((spineGet p.root p.depth).getD p.root) = _
    rw [h.container, hTip]; rfl
  have hloop : LP.openBlockLoop x kind (p.depth + 1) { p with state := mm p.state } = { p with state := mm p.state } :=
    openBlockLoop_of_canContain x kind _ _ (by rw [hck]; exact hcc)
  have hpre : obPre x p kind = ({ p with state := mm p.state } : LP).closeLastChild x p.lineStart := by
    unfold obPre; rw [hloop]
  -- closing the (missing) last child of the tip changes nothing
  have hsame : (({ p with state := mm p.state } : LP).closeLastChild x p.lineStart).root = p.root := by
    show spineReplaceLast _ p.root p.depth = p.root
    rw [spineReplaceLast_eq]
    apply spineModify_id
    intro c hc
    rw [h.container, hTip] at hc
    cases hc
    obtain ⟨l, bs, is⟩ := T
    have : bs = [] := hT0
    subst this
    rfl
  rw [openBlock_eq x p kind attrs hst, hpre]
  refine ⟨⟨?_, ?_, h.valid, h.source, h.lineStart⟩, rfl, rfl, rfl⟩
  · show spineModify _ (({ p with state := mm p.state } : LP).closeLastChild x p.lineStart).root p.depth = _
    rw [hsame, h.depth]
    exact h.modify _ j
  · have := h.depth
    show p.depth + 1 = q.depth + 1 + (j + 1)
    omega

/-! ### the grammar of a `Nest` -/

theorem appendChild_G {c C : PB} (hc : PBGrammar c) (hC : PBGrammar C) (hk : cck C.kind = true)
    (hcc : canContain c.kind C.kind = true) : PBGrammar (appendChild C c) := by
  obtain ⟨l, bs, is⟩ := c
  show PBGrammar (.mk l (bs ++ [C]) is)
  rw [PBGrammar_mk] at hc ⊢
  refine ⟨?_, ?_⟩
  · have hloc := hc.1
    unfold localOK at hloc ⊢
    simp only [Bool.and_eq_true] at hloc ⊢
    exact ⟨blocksOK_append hloc.1 hk hcc, hloc.2⟩
  · intro b hb
    rw [List.mem_append] at hb
    rcases hb with hb | hb
    · exact hc.2 b hb
    · simp only [List.mem_singleton] at hb; subst hb; exact hC

theorem appendChild_G_item {c C : PB} (hc : PBGrammar c) (hC : PBGrammar C) (hl : c.kind = BK.list)
    (hk : C.kind = BK.listItem) (hch : C.label.char = c.label.char) : PBGrammar (appendChild C c) := by
  obtain ⟨l, bs, is⟩ := c
  show PBGrammar (.mk l (bs ++ [C]) is)
  rw [PBGrammar_mk] at hc ⊢
  refine ⟨?_, ?_⟩
  · have hloc := hc.1
    unfold localOK at hloc ⊢
    simp only [Bool.and_eq_true] at hloc ⊢
    exact ⟨blocksOK_append_item hl hloc.1 hk hch, hloc.2⟩
  · intro b hb
    rw [List.mem_append] at hb
    rcases hb with hb | hb
    · exact hc.2 b hb
    · simp only [List.mem_singleton] at hb; subst hb; exact hC

theorem Nest.G {q p : LP} {C : PB} {j : Nat} (h : Nest q p C j) (hq : PBGrammar q.root)
    (hC : PBGrammar q.container → PBGrammar (appendChild C q.container)) : PBGrammar p.root := by
  rw [h.root]
  refine (PBG_spineModify _ q.depth q.root ?_ hq).1
  intro c hc hcG
  rw [container_eq q h.valid] at hc
  cases hc
  refine ⟨hC hcG, ?_⟩
  generalize q.container = c
  obtain ⟨l, bs, is⟩ := c
  exact CloseRes.same rfl rfl

theorem cck_ne_item {k : Nat} (h : cck k = true) : k ≠ BK.listItem := by
  intro hk; subst hk; revert h; decide

/-- **`openBlock` of a childless block of a container-content kind keeps the grammar**; the new block is the
    container. -/
theorem openBlock_G (x : PExt) (p : LP) (kind : Nat) (attrs : PLabel → PLabel) (hT : TreeOK p) (hG : PBGrammar p.root)
    (hst : p.state ≤ 2) (hk : cck kind = true) (hattr : ∀ l, (attrs l).kind = l.kind)
    (hloc : ∀ s, localOK (attrs { kind := kind, start := s }) [] [] = true) :
    PBGrammar (p.openBlock x kind attrs).root ∧
    ∃ s, (p.openBlock x kind attrs).container = .mk (attrs { kind := kind, start := s }) [] [] := by
  have hki := Or.inl (cck_ne_item hk) (b := canContain p.containerKind kind = true)
  have n := openBlock_nest x p kind attrs hT hG hst hki
  have pp := obPre_post x p kind hT hG hki
  refine ⟨?_, ⟨(obPre x p kind).lineStart + (obPre x p kind).i, ?_⟩⟩
  · apply n.G pp.g
    intro hc
    apply appendChild_G hc
    · rw [PBGrammar_mk]; exact ⟨hloc _, fun _ h => by cases h⟩
    · show cck (attrs _).kind = true; rw [hattr]; exact hk
    · show canContain _ (attrs _).kind = true; rw [hattr]; exact pp.cc
  · unfold LP.container
    rw [n.container, spineGet_zero]
    rfl

/-! ### advance, collectInline -/

theorem updateTab_root (q : LP) : q.updateTabRemaining.root = q.root ∧ q.updateTabRemaining.depth = q.depth := by
  have := updateTab_tree q
  exact ⟨tree_root this, tree_depth this⟩

theorem advance_root (p : LP) (n : Nat) : (p.advance n).root = p.root ∧ (p.advance n).depth = p.depth := by
  unfold LP.advance
  split
  · exact ⟨rfl, rfl⟩
  · simp only []
    rw [markMatched_eq]
    split
    · exact setPanic_root _ _
    · exact updateTab_root _

theorem advance_container (p : LP) (n : Nat) : (p.advance n).container = p.container := by
  unfold LP.container; rw [(advance_root p n).1, (advance_root p n).2]

theorem advance_treeOK (p : LP) (n : Nat) (h : TreeOK p) : TreeOK (p.advance n) :=
  ⟨by rw [(advance_root p n).1]; exact h.root, by rw [(advance_root p n).1, (advance_root p n).2]; exact h.valid⟩

theorem infoStringLoop_ok (ext : Ext) (src : Bytes) (stop : Nat) : ∀ (fuel i ps : Nat) (acc : List Tree),
    acc.all (inl [IK.text, IK.charRef]) = true →
    (LP.infoStringLoop ext src stop fuel i ps acc).all (inl [IK.text, IK.charRef]) = true := by
  intro fuel
  induction fuel with
  | zero => intro i ps acc h; exact h
  | succ fuel ih =>
    intro i ps acc h
    have hT : ∀ a b : Int, inl [IK.text, IK.charRef] (mkInline IK.text a b) = true := fun _ _ => rfl
    have hC : ∀ a b : Int, inl [IK.text, IK.charRef] (mkInline IK.charRef a b) = true := fun _ _ => rfl
    have happ : ∀ (acc : List Tree) (t : Tree), acc.all (inl [IK.text, IK.charRef]) = true →
        inl [IK.text, IK.charRef] t = true → (acc ++ [t]).all (inl [IK.text, IK.charRef]) = true := by
      intro acc t ha ht; simp [List.all_append, ha, ht]
    have hif : ∀ (c : Prop) [Decidable c] (acc : List Tree) (t : Tree), acc.all (inl [IK.text, IK.charRef]) = true →
        inl [IK.text, IK.charRef] t = true → (if c then acc ++ [t] else acc).all (inl [IK.text, IK.charRef]) = true := by
      intro c _ acc t ha ht; split
      · exact happ acc t ha ht
      · exact ha
    unfold LP.infoStringLoop
    split
    · exact hif _ acc _ h (hT _ _)
    · simp only []
      split
      · split
        · exact ih _ _ _ h
        · exact ih _ _ _ (happ _ _ (hif _ acc _ h (hT _ _)) (hT _ _))
      · split
        · split
          · split
            · exact ih _ _ _ h
            · exact ih _ _ _ (happ _ _ (hif _ acc _ h (hT _ _)) (hC _ _))
          · exact ih _ _ _ h
        · exact ih _ _ _ h

/-- The optional Indent node of `collectInline`. -/
def ciIndent (p : LP) : LP :=
  if p.indent > 0 then
    let indentStart := p.lineStart + p.i
    let ind := p.indent
    let p := p.advance (indentLength (p.line.drop p.i))
    p.appendInline (.node { isBlock := false, kind := IK.indent, start := indentStart, stop := p.lineStart + p.i, indent := ind } [])
  else p

theorem collectInline_eq (x : PExt) (p : LP) (kind n : Nat) (hst : p.state ≠ 4) :
    p.collectInline x kind n =
      let p2 := ciIndent { p with state := mm p.state }
      let start := p2.lineStart + p2.i
      let p3 := p2.advance n
      let stop := p3.lineStart + p3.i
      if kind == IK.infoString then
        p3.appendInline (mkInline IK.infoString start stop (LP.infoStringLoop x.ext p3.source stop (stop - start + 1) start start []))
      else p3.appendInline (mkInline kind start stop) := by
  unfold LP.collectInline
  have hs : (p.state == stateDescendTerminated) = false := by simpa [stateDescendTerminated] using hst
  simp only [hs, Bool.false_eq_true, if_false]
  rw [markMatched_eq]
  rfl

theorem ciIndent_G (p : LP) (ks : List Nat) (hT : TreeOK p) (hG : PBGrammar p.root)
    (hf : freeKinds p.containerKind = some ks) (hi : ks.contains IK.indent = true) :
    TreeOK (ciIndent p) ∧ PBGrammar (ciIndent p).root ∧ (ciIndent p).containerKind = p.containerKind := by
  unfold ciIndent
  split
  · simp only []
    have hT1 := advance_treeOK p (indentLength (p.line.drop p.i)) hT
    have hk1 : (p.advance (indentLength (p.line.drop p.i))).containerKind = p.containerKind := by
      unfold LP.containerKind; rw [advance_container]
    refine ⟨appendInline_ok _ _ hT1, ?_, ?_⟩
    · apply appendInline_G_free _ _ ks hT1 (by rw [(advance_root p _).1]; exact hG) (by rw [hk1]; exact hf)
      simpa [inl, Tree.label, Tree.children] using hi
    · rw [appendInline_containerKind _ _ hT1, hk1]
  · exact ⟨hT, hG, rfl⟩

/-- `collectInline` of a leaf kind into a container that takes Indent and that kind freely. -/
theorem collectInline_G_free (x : PExt) (p : LP) (kind n : Nat) (ks : List Nat) (hT : TreeOK p) (hG : PBGrammar p.root)
    (hst : p.state ≠ 4) (hf : freeKinds p.containerKind = some ks) (hi : ks.contains IK.indent = true)
    (hkk : ks.contains kind = true) (hne : kind ≠ IK.infoString) : PBGrammar (p.collectInline x kind n).root := by
  rw [collectInline_eq x p kind n hst]
  simp only []
  have hne' : (kind == IK.infoString) = false := by simpa using hne
  rw [if_neg (by simp [hne'])]
  have h1 : TreeOK ({ p with state := mm p.state } : LP) := ⟨hT.root, hT.valid⟩
  obtain ⟨hT2, hG2, hk2⟩ := ciIndent_G { p with state := mm p.state } ks h1 hG hf hi
  generalize ciIndent { p with state := mm p.state } = p2 at hT2 hG2 hk2
  have hT3 := advance_treeOK p2 n hT2
  have hk3 : (p2.advance n).containerKind = p.containerKind := by
    unfold LP.containerKind; rw [advance_container]; exact hk2
  apply appendInline_G_free _ _ ks hT3 (by rw [(advance_root p2 n).1]; exact hG2) (by rw [hk3]; exact hf)
  simpa [inl, mkInline, Tree.label, Tree.children] using hkk

/-- `collectInline` of the info string into a fenced code block that has no inline children yet, at a position that
    is not a space or tab (so no Indent node precedes it). -/
theorem collectInline_G_info (x : PExt) (p : LP) (n : Nat) (hT : TreeOK p) (hG : PBGrammar p.root)
    (hst : p.state ≠ 4) (hind : p.indent = 0) (hk : p.container.kind = BK.fencedCode) (hnil : p.container.inlines = []) :
    PBGrammar (p.collectInline x IK.infoString n).root := by
  rw [collectInline_eq x p IK.infoString n hst]
  simp only []
  rw [if_pos (by rfl)]
  have h1 : TreeOK ({ p with state := mm p.state } : LP) := ⟨hT.root, hT.valid⟩
  have hind1 : ({ p with state := mm p.state } : LP).indent = 0 := by rw [← hind]; exact indent_of_cur rfl
  have hci : ciIndent { p with state := mm p.state } = { p with state := mm p.state } := by
    unfold ciIndent; rw [if_neg (by omega)]
  rw [hci]
  generalize hp1 : ({ p with state := mm p.state } : LP) = p1 at h1
  have hc1 : p1.container = p.container := by rw [← hp1]; rfl
  have hG1 : PBGrammar p1.root := by rw [← hp1]; exact hG
  have hT3 := advance_treeOK p1 n h1
  apply appendInline_G _ _ hT3 (by rw [(advance_root p1 n).1]; exact hG1)
  intro l bs is hc hi
  rw [advance_container, hc1] at hc
  rw [hc] at hk hnil
  have : is = [] := hnil
  subst this
  apply inlinesOK_info hk hi
  simp only [infoOK, mkInline, Tree.label, Tree.children, Bool.not_false, Bool.true_and, beq_self_eq_true]
  exact infoStringLoop_ok _ _ _ _ _ _ _ rfl

end CM.Proofs.BG
