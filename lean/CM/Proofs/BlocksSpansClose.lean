import CM.Proofs.BlocksSpansBasic
/-
C02, block half — `closeBlock` / `closeLast`: closing a block whose content lies inside `[lo, e]` at `e` gives closed
blocks with valid spans inside `[lo, e]`. The paragraph case is delegated to the hypothesis `CloseParaOK`
(what `Q` promises about `onCloseParagraph`).
-/
namespace CM.Proofs.BSp
open CM CM.Model CM.Gen

/-- What the paragraph predicate `Q` has to promise for closing at `e`: `onCloseParagraph` on the closed paragraph
    returns closed blocks with valid, ordered spans inside the paragraph's span. -/
def CloseParaOK (Q : ParaPred) (x : PExt) (src : Bytes) (e : Int) : Prop :=
  ∀ l is, Q l is = true → l.stop < 0 → l.kind = BK.paragraph →
    PBSpansL QT false l.start e (onCloseParagraph x src (.mk { l with stop := e } [] is))

/-! ### relabelling -/

theorem PBSpans_setLabel {f : PLabel → PLabel} (hk : ∀ l, (f l).kind = l.kind) (hs : ∀ l, (f l).start = l.start)
    (he : ∀ l, (f l).stop = l.stop) {lo hi : Int} {b : PB} (h : PBSpans QT lo hi b) : PBSpans QT lo hi (b.setLabel f) := by
  obtain ⟨l, bs, is⟩ := b
  simp only [PB.setLabel]
  rw [PBSpans_mk] at h ⊢
  have e1 : endOf hi (f l) = endOf hi l := by simp only [endOf, he]
  rw [e1, hs, he]
  obtain ⟨a1, a2, a3, a4, a5, a6, a7⟩ := h
  refine ⟨a1, a2, a3, a4, a5, ⟨?_, ?_⟩⟩
  · rw [hk]; exact a6
  · intro ho; rw [he] at ho; rw [hk]; exact ⟨(a7 ho).1, fun _ => rfl⟩

theorem setLabel_label (f : PLabel → PLabel) (b : PB) : (b.setLabel f).label = f b.label := by
  cases b; rfl

theorem PBSpansL_map_setLabel {f : PLabel → PLabel} (hk : ∀ l, (f l).kind = l.kind) (hs : ∀ l, (f l).start = l.start)
    (he : ∀ l, (f l).stop = l.stop) {hi : Int} {po : Bool} : ∀ {bs : List PB} {lo : Int}, PBSpansL QT po lo hi bs →
    PBSpansL QT po lo hi (bs.map (PB.setLabel f)) := by
  intro bs
  induction bs with
  | nil => intro _ _; exact PBSpansL_nil _ _ _ _
  | cons b rest ih =>
    intro lo h
    simp only [List.map_cons]
    rw [PBSpansL_cons] at h ⊢
    have eo : (b.setLabel f).isOpen = b.isOpen := by
      cases b; simp only [PB.setLabel, PB.isOpen, PB.label, he]; rfl
    rw [eo, setLabel_label, he]
    refine ⟨PBSpans_setLabel hk hs he h.1, fun ho => ?_, ih h.2.2⟩
    obtain ⟨e1, e2⟩ := h.2.1 ho
    exact ⟨by rw [e1]; rfl, e2⟩

/-! ### `indentedOnClose` -/

theorem trim_suffix (src : Bytes) : ∀ (l : List Tree), ∃ pre, l = pre ++ indentedOnClose.trim src l := by
  intro l
  induction l with
  | nil => exact ⟨[], rfl⟩
  | cons c rest ih =>
    simp only [indentedOnClose.trim]
    split
    · obtain ⟨pre, e⟩ := ih
      exact ⟨c :: pre, by rw [List.cons_append, ← e]⟩
    · exact ⟨[], rfl⟩

/-- The inline children `indentedOnClose` keeps are a prefix of the original ones. -/
theorem indentedOnClose_prefix (src : Bytes) (l : PLabel) (bs : List PB) (is : List Tree) :
    ∃ is' suf, indentedOnClose src (.mk l bs is) = .mk l bs is' ∧ is = is' ++ suf := by
  simp only [indentedOnClose]
  -- the first step: `is` or `is` without its last element
  have step1 : ∀ is1 : List Tree, (∃ s1, is = is1 ++ s1) →
      ∃ suf, is = (indentedOnClose.trim src is1.reverse).reverse ++ suf := by
    intro is1 ⟨s1, e1⟩
    obtain ⟨pre, e⟩ := trim_suffix src is1.reverse
    have : is1 = (indentedOnClose.trim src is1.reverse).reverse ++ pre.reverse := by
      have := congrArg List.reverse e
      simpa using this
    exact ⟨pre.reverse ++ s1, by rw [← List.append_assoc, ← this, e1]⟩
  split
  · rename_i sb prev rest hrev
    split
    · obtain ⟨suf, e⟩ := step1 (prev :: rest).reverse ⟨[sb], by
        have := congrArg List.reverse hrev
        simp only [List.reverse_reverse, List.reverse_cons] at this
        simp only [List.reverse_cons]
        exact this⟩
      exact ⟨_, suf, rfl, e⟩
    · obtain ⟨suf, e⟩ := step1 is ⟨[], by simp⟩
      exact ⟨_, suf, rfl, e⟩
  · obtain ⟨suf, e⟩ := step1 is ⟨[], by simp⟩
    exact ⟨_, suf, rfl, e⟩

/-! ### `closeBlock` / `closeLast` -/

theorem closeLast_nil (x : PExt) (src : Bytes) (e : Int) : closeLast x src e [] = [] := by
  rw [closeLast]

theorem closeLast_single (x : PExt) (src : Bytes) (e : Int) (b : PB) : closeLast x src e [b] = closeBlock x src e b := by
  rw [closeLast]

theorem closeLast_cons (x : PExt) (src : Bytes) (e : Int) (b c : PB) (rest : List PB) :
    closeLast x src e (b :: c :: rest) = b :: closeLast x src e (c :: rest) := by
  rw [closeLast]
  simp

/-- Closing the closed-label block with already closed children. -/
theorem closed_mk_spans {Q : ParaPred} {lo e : Int} {l : PLabel} {bs cs : List PB} {is is' : List Tree} (f : PLabel → PLabel)
    (hk : (f l).kind = l.kind) (hs : (f l).start = l.start) (hst : (f l).stop = e)
    (he : 0 ≤ e) (ho : l.stop < 0) (h : PBSpans Q lo e (.mk l bs is))
    (hcs : PBSpansL QT false l.start e cs) (hnil : bs = [] → cs = []) (his : InlsOK l.start e is') :
    PBSpansL QT false lo e [.mk (f l) cs is'] := by
  rw [PBSpans_mk, endOf_open ho] at h
  obtain ⟨a1, a2, a3, a4, a5, a6, a7⟩ := h
  rw [PBSpansL_cons]
  refine ⟨?_, ?_, PBSpansL_nil _ _ _ _⟩
  · rw [PBSpans_mk, endOf_closed (by rw [hst]; exact he), hst, hs]
    have hno : ¬ e < 0 := by omega
    refine ⟨a1, a2, Int.le_refl _, his, by simpa [hno] using hcs, ⟨?_, fun h' => by rw [hst] at h'; exact absurd h' hno⟩⟩
    rw [hk]
    rcases a6 with a6 | a6
    · exact Or.inl a6
    · exact Or.inr (hnil a6)
  · intro ho'
    rw [isOpen_mk, hst] at ho'
    simp at ho'; omega

mutual
theorem closeBlock_spans {Q : ParaPred} {x : PExt} {src : Bytes} {e : Int} (he : 0 ≤ e) (hQ : CloseParaOK Q x src e) :
    ∀ (b : PB) {lo : Int}, PBSpans Q lo e b → PBSpansL QT false lo e (closeBlock x src e b)
  | .mk l bs is, lo, h => by
    rw [closeBlock]
    by_cases hc : l.stop ≥ 0
    · rw [if_pos hc]
      rw [PBSpansL_cons]
      refine ⟨PBSpans_closed_Q (b := .mk l bs is) hc h, fun ho => ?_, PBSpansL_nil _ _ _ _⟩
      rw [isOpen_mk] at ho; simp at ho; omega
    · rw [if_neg hc]
      have ho : l.stop < 0 := by omega
      have h' := h
      rw [PBSpans_mk, endOf_open ho] at h'
      obtain ⟨a1, a2, a3, a4, a5, a6, a7⟩ := h'
      simp only [ho, decide_true] at a5
      have hkids := closeLast_spans he hQ bs a5
      have hnil : bs = [] → closeLast x src e bs = [] := fun e' => by rw [e']; exact closeLast_nil _ _ _
      simp only []
      split
      · -- list
        split
        · exact closed_mk_spans (fun l => { l with stop := e, loose := true }) rfl rfl rfl he ho h
            (PBSpansL_map_setLabel (f := fun il => { il with loose := true }) (fun _ => rfl) (fun _ => rfl) (fun _ => rfl) hkids)
            (fun e' => by rw [hnil e']; rfl) a4
        · exact closed_mk_spans (fun l => { l with stop := e }) rfl rfl rfl he ho h hkids hnil a4
      · split
        · -- paragraph / setext heading
          rename_i hk
          have hk1 : l.kind = BK.paragraph := by
            have := (a7 ho).1
            simp only [Bool.or_eq_true, beq_iff_eq] at hk
            rcases hk with hk | hk
            · exact hk
            · exact absurd hk this
          have hbs : bs = [] := by
            rcases a6 with a6 | a6
            · rw [hk1] at a6; simp [isContainerKind, BK.paragraph, BK.document, BK.list, BK.listItem, BK.blockQuote] at a6
            · exact a6
          subst hbs
          exact PBSpansL_mono' a1 (Int.le_refl _) (hQ l is ((a7 ho).2 hk1) ho hk1)
        · split
          · -- indented code
            obtain ⟨is', suf, e1, e2⟩ := indentedOnClose_prefix src { l with stop := e } bs is
            rw [e1]
            have hbs : bs = [] := by
              rename_i hk
              simp only [beq_iff_eq] at hk
              have hk' : l.kind = BK.indentedCode := hk
              rcases a6 with a6 | a6
              · rw [hk'] at a6; simp [isContainerKind, BK.indentedCode, BK.document, BK.list, BK.listItem, BK.blockQuote] at a6
              · exact a6
            subst hbs
            exact closed_mk_spans (fun l => { l with stop := e }) rfl rfl rfl he ho h (PBSpansL_nil _ _ _ _)
              (fun _ => rfl) (InlsOK_prefix (by rw [← e2]; exact a4))
          · exact closed_mk_spans (fun l => { l with stop := e }) rfl rfl rfl he ho h hkids hnil a4
theorem closeLast_spans {Q : ParaPred} {x : PExt} {src : Bytes} {e : Int} (he : 0 ≤ e) (hQ : CloseParaOK Q x src e) :
    ∀ (bs : List PB) {lo : Int}, PBSpansL Q true lo e bs → PBSpansL QT false lo e (closeLast x src e bs)
  | [], lo, _ => by rw [closeLast_nil]; exact PBSpansL_nil _ _ _ _
  | [b], lo, h => by
    rw [closeLast_single]
    rw [PBSpansL_cons] at h
    exact closeBlock_spans he hQ b h.1
  | b :: c :: rest, lo, h => by
    rw [closeLast_cons]
    rw [PBSpansL_cons] at h ⊢
    have hbc : 0 ≤ b.label.stop := by
      cases hco : b.isOpen
      · exact (isOpen_false_iff b).mp hco
      · have := (h.2.1 hco).1; cases this
    refine ⟨PBSpans_closed_Q hbc h.1, fun ho => ?_, closeLast_spans he hQ (c :: rest) h.2.2⟩
    rw [isOpen_iff] at ho; omega
end

/-- Closing a block never returns the empty list. -/
theorem closeBlock_ne_nil_of_not_para (x : PExt) (src : Bytes) (e : Int) (l : PLabel) (bs : List PB) (is : List Tree)
    (hk : l.kind ≠ BK.paragraph) (hk' : l.kind ≠ BK.setextHeading) :
    ∃ l' bs' is', closeBlock x src e (.mk l bs is) = [.mk l' bs' is'] ∧ l'.kind = l.kind ∧ l'.start = l.start ∧
      (l.stop < 0 → l'.stop = e) := by
  rw [closeBlock]
  by_cases hc : l.stop ≥ 0
  · rw [if_pos hc]; exact ⟨l, bs, is, rfl, rfl, rfl, fun h => by omega⟩
  · rw [if_neg hc]
    simp only []
    split
    · split
      · exact ⟨_, _, _, rfl, rfl, rfl, fun _ => rfl⟩
      · exact ⟨_, _, _, rfl, rfl, rfl, fun _ => rfl⟩
    · split
      · rename_i h
        simp only [Bool.or_eq_true, beq_iff_eq] at h
        rcases h with h | h
        · exact absurd h hk
        · exact absurd h hk'
      · split
        · obtain ⟨is', suf, e1, _⟩ := indentedOnClose_prefix src { l with stop := e } bs is
          exact ⟨{ l with stop := e }, bs, is', by rw [e1], rfl, rfl, fun _ => rfl⟩
        · exact ⟨_, _, _, rfl, rfl, rfl, fun _ => rfl⟩

/-- Closing an open setext heading (a leaf): `onCloseParagraph` on the closed label. -/
theorem closeBlock_setext (x : PExt) (src : Bytes) (e : Int) (l : PLabel) (bs : List PB) (is : List Tree)
    (ho : l.stop < 0) (hk : l.kind = BK.setextHeading) :
    closeBlock x src e (.mk l bs is) = onCloseParagraph x src (.mk { l with stop := e } bs is) := by
  rw [closeBlock]
  have hc : ¬ l.stop ≥ 0 := by omega
  rw [if_neg hc]
  simp only [hk]
  rfl

end CM.Proofs.BSp
