import CM.Proofs.ParseWholeGrammarNestTok
/-
C05, clause (iii) — the fourth chain (`OmN`), part 5: `parseRun`, `parseBody`.
-/
namespace CM.Proofs.InlH
open CM CM.Model CM.Model.Inl
open Std.Do

set_option mvcgen.warning false

section
variable {c : ICtx}

set_option maxHeartbeats 400000 in
@[spec high + 3]
theorem parseRun_specN :
    ⦃fun s => ⌜OmN s 0 0 0⌝⦄ parseRun c ⦃⇓? _ s => ⌜OmN s 0 0 0⌝⦄ := by
  mvcgen [parseRun, spanEnd, isLastSpan, alloc, pushStack, setIgnoreNextIndent, setUnparsedPos, -parseRun_spec,
    -parseRun_specS, -parseRun_specO, -addLeaf_specO, -addText_specO, -parseDelimiterRun_specO, -parseBackslash_specO,
    -collectCodeSpan_specO, -parseEndBracket_specO]
  inl_inv (fun s => OmN s 0 0 0)
  all_goals inl_norm
  all_goals inl_subst
  all_goals first
    | assumption
    | exact fun h => h.elim
    | exact fun h => h
    | rfl
    | exact OmN.congr ‹OmN _ 0 0 0› rfl rfl rfl
    | skip
  case vc13 | vc23 | vc99 | vc109 =>
    subst_vars
    have h0 := (‹(0 : Int) ≤ _ ∧ _ < _ ∧ _›).1
    exact OmN.pushDelim (by assumption) _ _ rfl rfl (spanLenI_pos h0 (by dsimp only; omega)) rfl
  case vc35 | vc40 | vc121 | vc126 => subst_vars; assumption
  case vc43 | vc129 => subst_vars; exact OmN.addRoot (by assumption) _ rfl rfl
  case vc48 | vc49 | vc134 | vc135 =>
    subst_vars; exact OmN.congr (OmN.addRoot (by assumption) _ rfl rfl) rfl rfl rfl

/-- what `parseBody` imports unchanged are `Indent` leaves -/
def UInd (c : ICtx) : Prop :=
  ∀ t ∈ c.unparsed.toList, t.label.isBlock = false → t.label.kind ≠ 0 → t.label.kind ≠ IK.unparsed →
    t.label.kind = IK.indent

theorem UInd.get {c : ICtx} (h : UInd c) {i : Nat} (hi : i < c.unparsed.size)
    (hb : ¬ ((c.unparsed[i]!).label.isBlock || (c.unparsed[i]!).label.kind == 0) = true)
    (hu : ¬ ((c.unparsed[i]!).label.kind == IK.unparsed) = true) : phrL (c.unparsed[i]!).label.kind = true := by
  simp only [Bool.or_eq_true, beq_iff_eq, not_or, Bool.not_eq_true] at hb hu
  have := h _ (by rw [getElem!_pos c.unparsed i hi]; exact Array.mem_toList_iff.2 (Array.getElem_mem hi)) hb.1 hb.2 hu
  rw [this]; rfl

theorem OmN.rebase0 {s : IState} {b3 : Nat} (h : ∃ P0, OmN s 0 P0 b3) (hz : s.stack.size = 0) : OmN s 0 0 b3 := by
  obtain ⟨P0, h⟩ := h
  exact ⟨Om.rebase0 ⟨P0, h.1⟩ hz, h.2⟩

@[spec high + 3]
theorem parseBody_specN (hU : UInd c) :
    ⦃fun s => ⌜OmN s 0 0 0⌝⦄ parseBody c ⦃⇓? _ s => ⌜OmN s 0 0 0⌝⦄ := by
  mvcgen [parseBody, setIgnoreNextIndent, setUnparsedPos, -parseBody_spec, -parseBody_specS, -parseBody_specO,
    -processEmphasis_specO, -processEmphasis_specE, -parseRun_specO, -importNode_specO]
  inl_inv (fun s => OmN s 0 0 0)
  all_goals inl_norm
  all_goals inl_subst
  all_goals first
    | assumption
    | exact fun h => h.elim
    | exact fun h => h
    | rfl
    | exact OmN.congr ‹OmN _ 0 0 0› rfl rfl rfl
    | (have hk : (_ == IK.indent) = true := ‹_›
       rw [beq_iff_eq] at hk
       rw [hk]; rfl)
    | exact hU.get (by simpa using ‹¬(!decide (_ < c.unparsed.size)) = true›) ‹_› ‹_›
    | exact fun h => (h 0 0 (Nat.le_refl _) ‹OmN _ 0 0 0›).1

end
end CM.Proofs.InlH
