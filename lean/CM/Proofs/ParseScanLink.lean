import CM.Proofs.ParseScanInline3
import CM.Proofs.ParseScanLkDef
/-
C02 / C04, inline halves, for the whole of `Parse` — **`LinkScan2` for a container whose inline children satisfy `RC2` and
are not followed by `)`** (`linkScan2_of`): the two link scanners of `parseEndBracket`.
-/
namespace CM.Proofs.PSc
open CM CM.Model CM.Model.Inl CM.Gen CM.Proofs CM.Proofs.PS CM.Proofs.InlH CM.Proofs.InlH2

variable {src : Bytes} {Lf : List Tree} {N : Nat}

theorem toArray_get! (l : List Tree) (i : Nat) (h : i < l.length) : l.toArray[i]! = l[i] := by
  rw [getElem!_pos _ i (by simpa using h)]; simp

theorem srcA_get (src : Bytes) (p : Nat) (hp : p < src.length) : src.toArray[p]! = src.getD p 0 := by
  rw [getElem!_pos _ p (by simpa using hp)]
  simp [List.getD_eq_getElem?_getD, List.getElem?_eq_getElem hp]

theorem linkScan2_of (x : IExt) (matchRef : Bytes → Bool) (hc : RC2 src Lf N) (hT : TailNP src Lf) :
    LinkScan2 (inlCtx x src src.toArray matchRef Lf) (N : Int) := by
  obtain ⟨f, hf⟩ := CM.Proofs.rdFuel_pos src Lf
  constructor
  · -- the inline link
    intro s s' start info h0 h1 _ hu hse hrun hvalid
    have hpure := parseInlineLink_run _ start s s' info hrun
    simp only [inlCtx] at hpure hu hse
    rw [hf] at hpure
    have hu' : s.unparsedPos < Lf.length := by simpa using hu
    have hd : Lf.drop s.unparsedPos = Lf[s.unparsedPos] :: Lf.drop (s.unparsedPos + 1) := List.drop_eq_getElem_cons hu'
    have hse' : start < (Lf[s.unparsedPos]).label.stop := by
      rw [spanEndOf_lt _ s (by simpa using hu)] at hse
      simp only [] at hse
      rw [toArray_get! Lf _ hu'] at hse
      exact hse
    subst hpure
    have hlk := inline_scan (hc.drop s.unparsedPos) (hT.drop s.unparsedPos) x.ext f
      (by have := rdFuel_drop_le src Lf s.unparsedPos; omega) start h0 ⟨_, _, hd, hse'⟩ hvalid
    refine ⟨hlk.s1, hlk.s2, fun hdv => ?_, fun htv => ?_⟩
    · obtain ⟨a1, a2, a3, a4⟩ := hlk.dest hdv
      refine ⟨a1, a2, a3, ?_⟩
      unfold textKids
      simp only [inlCtx]
      rw [hf]
      exact a4
    · obtain ⟨a1, a2, a3, a4, a5⟩ := hlk.title htv
      refine ⟨a1, a2, a3, a4, ?_⟩
      unfold textKids
      simp only [inlCtx]
      rw [hf]
      exact a5
  · -- the link label
    intro u start label r' h0 h1 _ hparse hvalid
    simp only [inlCtx] at hparse h1 ⊢
    have hp : start.toNat < src.length := by
      have : (src.toArray.size : Int) = src.length := by simp
      omega
    have hcu := hc.drop u
    obtain ⟨g1, g2, g3, ⟨i, g4⟩, g5, g6, g7⟩ := label_scan hcu.toRC start.toNat hp _ label r' hparse hvalid
    refine ⟨by omega, by omega, g3, ?_, fun hnone _ => ?_⟩
    · by_cases hab : label.inner.start.toNat ≤ label.inner.stop.toNat
      · have hw := collect_WFL hcu x.ext label.inner.start.toNat label.inner.stop.toNat IK.text false (rdFuel src Lf)
          (rdFuel_drop_le src Lf u) (fun h => by cases h) hab
        exact hw.mono (by omega) (by omega)
      · rw [collect_nil x.ext src label.inner.start.toNat label.inner.stop.toNat IK.text false (rdFuel src Lf)
          (newReader (List.drop u Lf) label.inner.start.toNat) rfl (by omega), WFL_nil]
        omega
    · rw [hnone] at g4; cases g4

end CM.Proofs.PSc
