import CM.Proofs.EolG7
/-
C14 (a), block phase with link reference definitions — part 8: the match functions of the open blocks and
`descendOpenBlocks` under the invariant `LG`.
-/
namespace CM.Proofs.EolG
open CM CM.Model CM.Gen CM.Proofs CM.Proofs.RDS CM.Proofs.BSp CM.Proofs.ERd CM.Proofs.BG CM.Proofs.BT

section
variable {x : PExt} {e X body nl : Bytes} {k : Nat} {bd : Int}

/-- `ruleMatch_sim` of `EolLine1` — it never used the hypothesis on the paragraph hook. -/
theorem ruleMatch_simG (he : StdEol e) (kind : Nat) (p : LP) (h : BT.Inv p) (hl : LineOK X body nl p) :
    ruleMatch x kind (mapLP e X p) = mapRM e X (ruleMatch x kind p) ∧
      ∀ ok q, ruleMatch x kind p = some (ok, q) → LineOK X body nl q := by
  unfold ruleMatch
  by_cases k1 : (kind == BK.document || kind == BK.list) = true
  · rw [if_pos k1, if_pos k1]
    refine ⟨rfl, ?_⟩
    intro ok q hq; simp only [Option.some.injEq, Prod.mk.injEq] at hq; rw [← hq.2]; exact hl
  rw [if_neg k1, if_neg k1]
  by_cases k2 : (kind == BK.listItem) = true
  · rw [if_pos k2, if_pos k2]
    have hrb := mapLP_isRestBlank (e := e) hl he
    by_cases c1 : p.isRestBlank = true
    · have c1' : (mapLP e X p).isRestBlank = true := by rw [hrb]; exact c1
      rw [if_pos c1', if_pos c1]
      by_cases c2 : (!(p.containerKind == BK.listItem && decide (p.container.childCount > 1))) = true
      · have c2' : (!((mapLP e X p).containerKind == BK.listItem && decide ((mapLP e X p).container.childCount > 1))) = true := by
          rw [mapLP_containerKind, mapLP_container_childCount]; exact c2
        rw [if_pos c2', if_pos c2]
        refine ⟨rfl, ?_⟩
        intro ok q hq; simp only [Option.some.injEq, Prod.mk.injEq] at hq; rw [← hq.2]; exact hl
      · have c2' : ¬ (!((mapLP e X p).containerKind == BK.listItem && decide ((mapLP e X p).container.childCount > 1))) = true := by
          rw [mapLP_containerKind, mapLP_container_childCount]; exact c2
        rw [if_neg c2', if_neg c2, mapLP_indent hl he, mapLP_consumeIndentN hl he]
        refine ⟨rfl, ?_⟩
        intro ok q hq; simp only [Option.some.injEq, Prod.mk.injEq] at hq; rw [← hq.2]; exact hl.consumeIndentN he _
    · have c1' : ¬ (mapLP e X p).isRestBlank = true := by rw [hrb]; exact c1
      rw [if_neg c1', if_neg c1]
      have hci' := mapLP_containerIndent (e := e) (X := X) (p := p)
      cases hci : p.containerIndent with
      | none =>
        rw [hci] at hci'
        rw [hci']
        refine ⟨rfl, ?_⟩
        intro ok q hq; simp only [Option.some.injEq, Prod.mk.injEq] at hq; rw [← hq.2]; exact hl
      | some ci =>
        rw [hci] at hci'
        rw [hci']
        simp only []
        rw [mapLP_indent hl he]
        by_cases c3 : (p.indent : Int) ≥ ci
        · rw [if_pos c3, if_pos c3, mapLP_consumeIndentN hl he]
          refine ⟨rfl, ?_⟩
          intro ok q hq; simp only [Option.some.injEq, Prod.mk.injEq] at hq; rw [← hq.2]; exact hl.consumeIndentN he _
        · rw [if_neg c3, if_neg c3]
          refine ⟨rfl, ?_⟩
          intro ok q hq; simp only [Option.some.injEq, Prod.mk.injEq] at hq; rw [← hq.2]; exact hl
  rw [if_neg k2, if_neg k2]
  by_cases k3 : (kind == BK.blockQuote) = true
  · rw [if_pos k3, if_pos k3]
    simp only []
    rw [mapLP_indent hl he, mapLP_bai_inv eolInv_bqPrefix hl he]
    by_cases c1 : p.indent ≥ codeBlockIndentLimit
    · rw [if_pos c1, if_pos c1]
      refine ⟨rfl, ?_⟩
      intro ok q hq; simp only [Option.some.injEq, Prod.mk.injEq] at hq; rw [← hq.2]; exact hl
    rw [if_neg c1, if_neg c1]
    by_cases c2 : (!hasBytePrefix p.bytesAfterIndent blockQuotePrefix) = true
    · rw [if_pos c2, if_pos c2]
      refine ⟨rfl, ?_⟩
      intro ok q hq; simp only [Option.some.injEq, Prod.mk.injEq] at hq; rw [← hq.2]; exact hl
    rw [if_neg c2, if_neg c2]
    have hpre : hasBytePrefix p.bytesAfterIndent blockQuotePrefix = true := by
      cases hh : hasBytePrefix p.bytesAfterIndent blockQuotePrefix
      · rw [hh] at c2; exact absurd rfl c2
      · rfl
    obtain ⟨ci, hdrop, hil⟩ := consumeAll p h
    rw [mapLP_consumeIndentN hl he]
    have hl1 := hl.consumeIndentN he p.indent
    have hrec := rec_body eolInv_bqPrefix hl1 _ hdrop
    rw [hpre] at hrec
    generalize p.consumeIndentN p.indent = p1 at ci hdrop hil hl1 hrec ⊢
    have hlen : 1 ≤ (body.drop p1.i).length := BT.hasBytePrefix_length _ _ hrec.symm
    rw [mapLP_advance_rec hl1 he blockQuotePrefix.length hlen]
    have hl3 := hl1.advance blockQuotePrefix.length
    generalize p1.advance blockQuotePrefix.length = p3 at hl3 ⊢
    rw [mapLP_indent hl3 he]
    by_cases c3 : p3.indent > 0
    · rw [if_pos c3, if_pos c3, mapLP_consumeIndentN hl3 he 1]
      refine ⟨rfl, ?_⟩
      intro ok q hq; simp only [Option.some.injEq, Prod.mk.injEq] at hq; rw [← hq.2]; exact hl3.consumeIndentN he 1
    · rw [if_neg c3, if_neg c3]
      refine ⟨rfl, ?_⟩
      intro ok q hq; simp only [Option.some.injEq, Prod.mk.injEq] at hq; rw [← hq.2]; exact hl3
  rw [if_neg k3, if_neg k3]
  by_cases k4 : (kind == BK.fencedCode) = true
  · rw [if_pos k4, if_pos k4]
    simp only []
    have hclosing : (decide ((mapLP e X p).indent < codeBlockIndentLimit) &&
        (decide ((parseCodeFence (mapLP e X p).bytesAfterIndent).n > 0) &&
          !(decide ((parseCodeFence (mapLP e X p).bytesAfterIndent).infoStart ≥ 0) &&
            decide ((parseCodeFence (mapLP e X p).bytesAfterIndent).infoEnd ≥ 0) &&
            decide ((parseCodeFence (mapLP e X p).bytesAfterIndent).infoStart ≤ (parseCodeFence (mapLP e X p).bytesAfterIndent).infoEnd)) &&
          (parseCodeFence (mapLP e X p).bytesAfterIndent).char == (mapLP e X p).container.label.char &&
          decide (((parseCodeFence (mapLP e X p).bytesAfterIndent).n : Int) ≥ (mapLP e X p).container.label.n))) =
        (decide (p.indent < codeBlockIndentLimit) &&
        (decide ((parseCodeFence p.bytesAfterIndent).n > 0) &&
          !(decide ((parseCodeFence p.bytesAfterIndent).infoStart ≥ 0) &&
            decide ((parseCodeFence p.bytesAfterIndent).infoEnd ≥ 0) &&
            decide ((parseCodeFence p.bytesAfterIndent).infoStart ≤ (parseCodeFence p.bytesAfterIndent).infoEnd)) &&
          (parseCodeFence p.bytesAfterIndent).char == p.container.label.char &&
          decide (((parseCodeFence p.bytesAfterIndent).n : Int) ≥ p.container.label.n))) := by
      rw [mapLP_indent hl he, mapLP_bai_inv eolInv_fence hl he, mapLP_container_char, mapLP_container_n]
    by_cases c1 : (decide (p.indent < codeBlockIndentLimit) &&
        (decide ((parseCodeFence p.bytesAfterIndent).n > 0) &&
          !(decide ((parseCodeFence p.bytesAfterIndent).infoStart ≥ 0) &&
            decide ((parseCodeFence p.bytesAfterIndent).infoEnd ≥ 0) &&
            decide ((parseCodeFence p.bytesAfterIndent).infoStart ≤ (parseCodeFence p.bytesAfterIndent).infoEnd)) &&
          (parseCodeFence p.bytesAfterIndent).char == p.container.label.char &&
          decide (((parseCodeFence p.bytesAfterIndent).n : Int) ≥ p.container.label.n))) = true
    · have c1' := c1; rw [← hclosing] at c1'
      rw [if_pos c1', if_pos c1, mapLP_consumeLine hl he]
      refine ⟨rfl, ?_⟩
      intro ok q hq; simp only [Option.some.injEq, Prod.mk.injEq] at hq; rw [← hq.2]; exact hl.consumeLine
    · have c1' := c1; rw [← hclosing] at c1'
      rw [if_neg c1', if_neg c1, mapLP_indent hl he, mapLP_containerIndent]
      by_cases c2 : p.indent < (p.containerIndent.getD 0).toNat
      · rw [if_pos c2, if_pos c2, mapLP_consumeIndentN hl he]
        refine ⟨rfl, ?_⟩
        intro ok q hq; simp only [Option.some.injEq, Prod.mk.injEq] at hq; rw [← hq.2]; exact hl.consumeIndentN he _
      · rw [if_neg c2, if_neg c2, mapLP_consumeIndentN hl he]
        refine ⟨rfl, ?_⟩
        intro ok q hq; simp only [Option.some.injEq, Prod.mk.injEq] at hq; rw [← hq.2]; exact hl.consumeIndentN he _
  rw [if_neg k4, if_neg k4]
  by_cases k5 : (kind == BK.indentedCode) = true
  · rw [if_pos k5, if_pos k5]
    simp only []
    rw [mapLP_indent hl he]
    by_cases c1 : p.indent < codeBlockIndentLimit
    · rw [if_pos c1, if_pos c1]
      have hrb := mapLP_isRestBlank (e := e) hl he
      by_cases c2 : (!p.isRestBlank) = true
      · have c2' : (!(mapLP e X p).isRestBlank) = true := by rw [hrb]; exact c2
        rw [if_pos c2', if_pos c2]
        refine ⟨rfl, ?_⟩
        intro ok q hq; simp only [Option.some.injEq, Prod.mk.injEq] at hq; rw [← hq.2]; exact hl
      · have c2' : ¬ (!(mapLP e X p).isRestBlank) = true := by rw [hrb]; exact c2
        rw [if_neg c2', if_neg c2, mapLP_consumeIndentN hl he]
        refine ⟨rfl, ?_⟩
        intro ok q hq; simp only [Option.some.injEq, Prod.mk.injEq] at hq; rw [← hq.2]; exact hl.consumeIndentN he _
    · rw [if_neg c1, if_neg c1, mapLP_consumeIndentN hl he]
      refine ⟨rfl, ?_⟩
      intro ok q hq; simp only [Option.some.injEq, Prod.mk.injEq] at hq; rw [← hq.2]; exact hl.consumeIndentN he _
  rw [if_neg k5, if_neg k5]
  by_cases k6 : (kind == BK.htmlBlock) = true
  · rw [if_pos k6, if_pos k6]
    have hend : htmlBlockEnd (mapLP e X p).container.label.n.toNat (mapLP e X p).bytesAfterIndent =
        htmlBlockEnd p.container.label.n.toNat p.bytesAfterIndent := by
      rw [mapLP_container_n, htmlBlockEnd_bai hl he]
    by_cases c1 : htmlBlockEnd p.container.label.n.toNat p.bytesAfterIndent = true
    · have c1' := c1; rw [← hend] at c1'
      rw [if_pos c1', if_pos c1]
      have hrb := mapLP_isRestBlank (e := e) hl he
      by_cases c2 : p.isRestBlank = true
      · have c2' : (mapLP e X p).isRestBlank = true := by rw [hrb]; exact c2
        rw [if_pos c2', if_pos c2]
        refine ⟨rfl, ?_⟩
        intro ok q hq; simp only [Option.some.injEq, Prod.mk.injEq] at hq; rw [← hq.2]; exact hl
      · have c2' : ¬ (mapLP e X p).isRestBlank = true := by rw [hrb]; exact c2
        rw [if_neg c2', if_neg c2]
        simp only []
        rw [mapLP_collectInline_rest hl he h.cur IK.rawHTML (by decide)]
        have hl4 := hl.collectInline x IK.rawHTML p.bytesAfterIndent.length
        rw [mapLP_consumeLine hl4 he]
        refine ⟨rfl, ?_⟩
        intro ok q hq; simp only [Option.some.injEq, Prod.mk.injEq] at hq; rw [← hq.2]; exact hl4.consumeLine
    · have c1' := c1; rw [← hend] at c1'
      rw [if_neg c1', if_neg c1]
      refine ⟨rfl, ?_⟩
      intro ok q hq; simp only [Option.some.injEq, Prod.mk.injEq] at hq; rw [← hq.2]; exact hl
  rw [if_neg k6, if_neg k6]
  by_cases k7 : (kind == BK.paragraph) = true
  · rw [if_pos k7, if_pos k7, mapLP_isRestBlank hl he]
    refine ⟨rfl, ?_⟩
    intro ok q hq; simp only [Option.some.injEq, Prod.mk.injEq] at hq; rw [← hq.2]; exact hl
  · rw [if_neg k7, if_neg k7]
    refine ⟨rfl, ?_⟩
    intro ok q hq; cases hq


/-- The match functions keep the invariant (the only one that changes the tree — an HTML block collecting its last line —
    does so in a block that is not a paragraph). -/
theorem ruleMatch_LG (he : StdEol e) (kind : Nat) (p : LP) (hg : LG e X body nl k bd p)
    (hck : kind = BK.htmlBlock → p.containerKind = BK.htmlBlock) :
    ∀ ok q, ruleMatch x kind p = some (ok, q) → LG e X body nl k bd q := by
  intro ok q hq
  unfold ruleMatch at hq
  split at hq
  · simp only [Option.some.injEq, Prod.mk.injEq] at hq; rw [← hq.2]; exact hg
  split at hq
  · split at hq
    · split at hq
      · simp only [Option.some.injEq, Prod.mk.injEq] at hq; rw [← hq.2]; exact hg
      · simp only [Option.some.injEq, Prod.mk.injEq] at hq; rw [← hq.2]; exact hg.consumeIndentN he _
    · split at hq
      · split at hq
        · simp only [Option.some.injEq, Prod.mk.injEq] at hq; rw [← hq.2]; exact hg.consumeIndentN he _
        · simp only [Option.some.injEq, Prod.mk.injEq] at hq; rw [← hq.2]; exact hg
      · simp only [Option.some.injEq, Prod.mk.injEq] at hq; rw [← hq.2]; exact hg
  split at hq
  · simp only [] at hq
    split at hq
    · simp only [Option.some.injEq, Prod.mk.injEq] at hq; rw [← hq.2]; exact hg
    split at hq
    · simp only [Option.some.injEq, Prod.mk.injEq] at hq; rw [← hq.2]; exact hg
    simp only [Option.some.injEq, Prod.mk.injEq] at hq
    rw [← hq.2]
    split
    · exact ((hg.consumeIndentN he _).advance _).consumeIndentN he 1
    · exact (hg.consumeIndentN he _).advance _
  split at hq
  · simp only [] at hq
    split at hq
    · simp only [Option.some.injEq, Prod.mk.injEq] at hq; rw [← hq.2]; exact hg.consumeLine
    · simp only [Option.some.injEq, Prod.mk.injEq] at hq
      rw [← hq.2]
      split
      · exact hg.consumeIndentN he _
      · exact hg.consumeIndentN he _
  split at hq
  · simp only [] at hq
    split at hq
    · split at hq
      · simp only [Option.some.injEq, Prod.mk.injEq] at hq; rw [← hq.2]; exact hg
      · simp only [Option.some.injEq, Prod.mk.injEq] at hq; rw [← hq.2]; exact hg.consumeIndentN he _
    · simp only [Option.some.injEq, Prod.mk.injEq] at hq; rw [← hq.2]; exact hg.consumeIndentN he _
  split at hq
  · rename_i hk
    have hkh : kind = BK.htmlBlock := by simpa using hk
    split at hq
    · split at hq
      · simp only [Option.some.injEq, Prod.mk.injEq] at hq; rw [← hq.2]; exact hg
      · simp only [Option.some.injEq, Prod.mk.injEq] at hq
        rw [← hq.2]
        have hn : NotPara p := NotPara.of_kind (by rw [hck hkh]; decide)
        exact (hg.collectInline_np x hn IK.rawHTML _).consumeLine
    · simp only [Option.some.injEq, Prod.mk.injEq] at hq; rw [← hq.2]; exact hg
  split at hq
  · simp only [Option.some.injEq, Prod.mk.injEq] at hq; rw [← hq.2]; exact hg
  · cases hq

/-! ### descendOpenBlocks -/

theorem descendLoopG (he : StdEol e) : ∀ (fuel : Nat) (p : LP) (parent : Nat),
    BT.Inv { p with depth := parent } → LG e X body nl k bd p →
    descendLoop x fuel (mapLP e X p) parent =
      ((descendLoop x fuel p parent).1, mapLP e X (descendLoop x fuel p parent).2) ∧
      LG e X body nl k bd (descendLoop x fuel p parent).2 := by
  intro fuel
  induction fuel with
  | zero => intro p parent _ hg; exact ⟨rfl, hg.setDepth _⟩
  | succ fuel ih =>
    intro p parent h hg
    have hl := hg.ok
    unfold descendLoop
    have hsg : spineGet (mapLP e X p).root (parent + 1) = (spineGet p.root (parent + 1)).map (mapPB (eolPosZ e X)) := by
      rw [mapLP_root, spineGet_map]
    rw [hsg]
    cases hc : spineGet p.root (parent + 1) with
    | none => exact ⟨rfl, hg.setDepth _⟩
    | some c =>
      simp only [Option.map_some]
      rw [mapPB_isOpen (signOK_eolPosZ e X), mapPB_kind]
      by_cases c1 : (!c.isOpen) = true
      · rw [if_pos c1, if_pos c1]; exact ⟨rfl, hg.setDepth _⟩
      rw [if_neg c1, if_neg c1]
      have h1 : BT.Inv { p with depth := parent + 1 } :=
        ⟨h.panic, ⟨h.cur.hi, h.cur.htab⟩, ⟨h.tree.root, by show (spineGet p.root (parent + 1)).isSome; rw [hc]; rfl⟩⟩
      have h1s : BT.Inv { p with depth := parent + 1, state := stateDescending } := h1.setState stateDescending
      have hg1 : LG e X body nl k bd { p with depth := parent + 1, state := stateDescending } :=
        (hg.setDepth (parent + 1)).setState stateDescending
      obtain ⟨r1, _⟩ := ruleMatch_simG (x := x) he c.kind _ h1s hg1.ok
      have hckind : ({ p with depth := parent + 1, state := stateDescending } : LP).containerKind = c.kind := by
        show (({ p with depth := parent + 1, state := stateDescending } : LP).container).kind = c.kind
        unfold LP.container
        show ((spineGet p.root (parent + 1)).getD p.root).kind = c.kind
        rw [hc]; rfl
      have r2 := ruleMatch_LG (x := x) he c.kind _ hg1 (fun hk => by rw [hckind]; exact hk)
      have hm : ({ ({ mapLP e X p with depth := parent + 1 } : LP) with state := stateDescending } : LP) =
          mapLP e X { p with depth := parent + 1, state := stateDescending } := rfl
      rw [hm, r1]
      cases hrm : ruleMatch x c.kind { p with depth := parent + 1, state := stateDescending } with
      | none => exact ⟨rfl, hg.setDepth _⟩
      | some r =>
        obtain ⟨ok, p2⟩ := r
        simp only [mapRM, Option.map_some]
        have hg2 := r2 ok p2 hrm
        have rm := ruleMatch_post x c.kind _ h1s rfl ok p2 hrm
        have d2 : p2.depth = parent + 1 := rm.depth
        by_cases c2 : (p2.state == stateDescendTerminated) = true
        · have c2' : ((mapLP e X p2).state == stateDescendTerminated) = true := c2
          rw [if_pos c2', if_pos c2]
          simp only []
          obtain ⟨hcc, hg3⟩ := closeContainerG x hg2 he ((p2.lineStart : Int) + (p2.i : Int)) (by omega)
          rw [mapLP_cursor_cast hg2.ok] at hcc
          rw [hcc]
          exact ⟨rfl, hg3.setDepth _⟩
        · have c2' : ¬ ((mapLP e X p2).state == stateDescendTerminated) = true := c2
          rw [if_neg c2', if_neg c2]
          by_cases c3 : (!ok) = true
          · rw [if_pos c3, if_pos c3]; exact ⟨rfl, hg2.setDepth _⟩
          · rw [if_neg c3, if_neg c3]
            apply ih p2 (parent + 1) _ hg2
            exact rm.inv.setDepth (parent + 1) (by omega)

theorem descendOpenBlocksG (he : StdEol e) (p : LP) (h : BT.Inv { p with depth := 0 }) (hg : LG e X body nl k bd p) :
    descendOpenBlocks x (mapLP e X p) = ((descendOpenBlocks x p).1, mapLP e X (descendOpenBlocks x p).2) ∧
      LG e X body nl k bd (descendOpenBlocks x p).2 := by
  unfold descendOpenBlocks
  rw [mapLP_root, spineLength_map]
  exact descendLoopG he _ p 0 h hg

end

end CM.Proofs.EolG
