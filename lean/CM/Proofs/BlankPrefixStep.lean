import CM.Proofs.BlankLines
/-
C14 (b), part 3: more fuel for the per-line loop changes nothing unless the fuel was exhausted; the first `NextBlock`
call on `p ++ x` (`p` whole blank lines) is the shifted first call on `x`, with more fuel for the per-line loop.
-/
namespace CM.Proofs
open CM CM.Model CM.Gen

section
variable (L : LineParserI)

/-- More fuel for the per-line loop changes nothing, unless the loop had exhausted its fuel. -/
theorem parseLines_more_fuel : ∀ (f k : Nat) (lp : L.σ) (ls : Nat) (p : BP),
    isFuelPanic (parseLines L f lp ls p).1 = false → parseLines L (f + k) lp ls p = parseLines L f lp ls p := by
  intro f
  induction f with
  | zero => intro k lp ls p h; simp [parseLines, isFuelPanic] at h
  | succ f ih =>
    intro k lp ls p h
    have hk : f + 1 + k = (f + k) + 1 := by omega
    rw [hk]
    cases hpan : L.panicked (L.line lp (p.buf.take p.i) ls) with
    | some m => rw [parseLines_panicked L hpan, parseLines_panicked L hpan]
    | none =>
      cases hmr : makeRoot p (L.kids (L.line lp (p.buf.take p.i) ls)) with
      | some rp => rw [parseLines_root L hpan hmr, parseLines_root L hpan hmr]
      | none =>
        rw [parseLines_next L hpan hmr] at h ⊢
        rw [parseLines_next L hpan hmr]
        exact ih k _ _ _ h

theorem afterSkip_more_fuel (f k : Nat) (r : Option BP × BP) (h : isFuelPanic (afterSkip L f r).1 = false) :
    afterSkip L (f + k) r = afterSkip L f r := by
  rcases r with ⟨_ | q, q2⟩
  · rfl
  · exact parseLines_more_fuel L f k _ _ _ h

theorem nextBlockF_more_fuel (fs f k : Nat) (p : BP) (h : isFuelPanic (nextBlockF L fs f p).1 = false) :
    nextBlockF L fs (f + k) p = nextBlockF L fs f p := by
  cases hmr : makeRoot p p.blocks with
  | some rp => rw [nextBlockF_root L hmr, nextBlockF_root L hmr]
  | none =>
    by_cases hb : p.blocks.length > 0
    · rw [nextBlockF_pending L hmr hb] at h ⊢
      rw [nextBlockF_pending L hmr hb]
      exact parseLines_more_fuel L f k _ _ _ h
    · rw [nextBlockF_fresh L hmr hb] at h ⊢
      rw [nextBlockF_fresh L hmr hb]
      exact afterSkip_more_fuel L f k _ h
end

/-! ### The first `NextBlock` call -/

theorem freshLine_memParser (z : Bytes) : freshLine (memParser z) = memParser z := by
  simp [freshLine, memParser, unpaddedNullLength, nullCount, lineCount]

theorem memParser_append_blank {p : Bytes} (hp : isBlankLine p = true) (x : Bytes) :
    memParser (p ++ x) = { memParser x with buf := p ++ (memParser x).buf } := by
  simp only [memParser, Model.padNulls_append, padNulls_eq_self_of_blank hp]

theorem bpFuel_memParser (z : Bytes) : bpFuel (memParser z) = (padNulls z 0).length + 4 := by
  simp [bpFuel, memParser]

theorem nextBlock_memParser (L : LineParserI) (z : Bytes) (fs fp : Nat) :
    nextBlockF L fs fp (memParser z) = afterSkip L fp (skipBlank fs (memParser z)) := by
  have hmr : makeRoot (memParser z) (memParser z).blocks = none := rfl
  have hb : ¬ (memParser z).blocks.length > 0 := by simp [memParser]
  rw [nextBlockF_fresh L hmr hb, freshLine_memParser]

/-- The first call on `p ++ x`: the blank-line loop consumes `p`, then everything is as on `x`, shifted — with the
    per-line loop running on the larger fuel `bpFuel (memParser (p ++ x))`. -/
theorem nextBlock_blank_prefix (L : LineParserI) (p x : Bytes) (hp : blankLines p = true) (hj : ¬ CRLFSplit p x) :
    nextBlock L (memParser (p ++ x)) =
      shiftRes p.length (lineCount p)
        (nextBlockF L (bpFuel (memParser x)) (bpFuel (memParser x) + p.length) (memParser x)) := by
  have hbl : isBlankLine p = true := by
    simp only [blankLines, Bool.and_eq_true] at hp; exact hp.1
  have hFP : bpFuel (memParser (p ++ x)) = bpFuel (memParser x) + p.length := by
    rw [bpFuel_memParser, bpFuel_memParser, Model.padNulls_append, padNulls_eq_self_of_blank hbl,
      List.length_append]; omega
  have herr : (memParser x).err.isSome = true := rfl
  rw [nextBlock_eq_F, nextBlock_memParser, nextBlock_memParser, hFP]
  have hlc := lineCount_le_length p
  have hsplit : bpFuel (memParser x) + p.length = (bpFuel (memParser x) + p.length - lineCount p) + lineCount p := by
    omega
  have hpre := skipBlank_prefix p.length p (memParser x) (bpFuel (memParser x) + p.length - lineCount p)
    (Nat.le_refl _) hp (by
      show ¬ CRLFSplit p (padNulls x 0)
      rw [crlfSplit_padNulls]; exact hj) rfl herr
  rw [← hsplit, ← memParser_append_blank hbl] at hpre
  rw [hpre, skipBlank_shift _ _ _ _ herr]
  have hge := bpFuel_mem_ge (memParser x)
  obtain ⟨heq, _, hsome⟩ := skipBlank_mem (bpFuel (memParser x) + p.length - lineCount p) (bpFuel (memParser x))
    (memParser x) herr (by omega) (by omega)
  rw [heq]
  exact afterSkip_shift L _ _ _ _ (fun q' h => skipBlank_some_err herr h)

end CM.Proofs
