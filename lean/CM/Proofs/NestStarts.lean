import CM.Proofs.NestCollect
import CM.Proofs.QuoteStarts2
/-
C09 (nested documents): the block starts on `Sim`-related parsers (port of `QuoteStarts`, `QuoteStarts2`).
-/
namespace CM.Proofs.Nest
open CM CM.Model CM.Gen CM.Proofs.BT CM.Proofs.Quote

variable {F : Frame} {E : Env} {G : List Tree → Prop} {k : Nat} {p q : LP} {x : PExt}

/-- Moving both containers to the tips. -/
theorem Sim.toTip (h : Sim F E G k p q) :
    Sim F E G k { p with depth := tipDepth p.root 0 } { q with depth := tipDepth q.root 0 } := by
  obtain ⟨y, hy⟩ := tipDepth_dv p.root
  have := h.setRoot p.root q.root (tipDepth p.root 0) h.root h.tp (by rw [hy]; rfl)
  rw [h.root.tipDepth_eq]
  exact this

/-- Whether the container is of a kind other than document / block quote / list item, on both sides. -/
theorem Sim.ckind_beq (h : Sim F E G k p q) (kd : Nat) (h1 : kd ≠ BK.document) (h2 : kd ≠ BK.blockQuote)
    (h3 : kd ≠ BK.listItem) : (q.containerKind == kd) = (p.containerKind == kd) := by
  have := h.containerKind_eq_iff' kd h1 h2 h3
  by_cases hp : p.containerKind = kd
  · rw [hp, this.mpr hp]
  · have hq : ¬ q.containerKind = kd := fun e => hp (this.mp e)
    rw [beq_eq_false_iff_ne.mpr hq, beq_eq_false_iff_ne.mpr hp]

theorem Sim.ckind_bne (h : Sim F E G k p q) (kd : Nat) (h1 : kd ≠ BK.document) (h2 : kd ≠ BK.blockQuote)
    (h3 : kd ≠ BK.listItem) : (q.containerKind != kd) = (p.containerKind != kd) := by
  simp only [bne, h.ckind_beq kd h1 h2 h3]

theorem Sim.tipKind (h : Sim F E G k p q) : (q.tipKind == BK.paragraph) = (p.tipKind == BK.paragraph) :=
  h.toTip.ckind_beq BK.paragraph (by decide) (by decide) (by decide)

/-! ### block quote -/

theorem startBlockQuote_sim (HG : GOK x E G) (h : Sim F E G k p q) :
    Sim F E G k (startBlockQuote x p) (startBlockQuote x q) := by
  unfold startBlockQuote
  simp only []
  rw [h.cur.indent, h.cur.bai]
  split
  · exact h
  · split
    · exact h
    · have h1 := h.consumeIndentN p.indent
      have h2 := h1.openBlock HG BK.blockQuote id (fun _ _ r => r) (fun _ => rfl) (Or.inl (by decide)) (by decide)
      have h3 := h2.advance blockQuotePrefix.length
      rw [h3.cur.indent]
      split
      · exact h3.consumeIndentN 1
      · exact h3

/-! ### ATX heading -/

theorem startATX_sim (HG : GOK x E G) (h : Sim F E G k p q) (hs : p.state ≤ 2) :
    Sim F E G k (startATX x p) (startATX x q) := by
  unfold startATX
  simp only []
  rw [h.cur.indent, h.cur.bai]
  split
  · exact h
  · split
    · exact h
    · have h1 := h.consumeIndentN p.indent
      have s1 : (p.consumeIndentN p.indent).state ≤ 2 := consumeIndent_state_le _ _ _ hs
      have h2 := h1.openBlock HG BK.atxHeading (fun l => { l with n := (parseATXHeading p.bytesAfterIndent).level })
        (fun _ _ r => r.setN _) (fun _ => rfl) (Or.inl (by decide)) (by decide)
      have g2 := good_openBlock x _ BK.atxHeading (fun l => { l with n := (parseATXHeading p.bytesAfterIndent).level })
        (fun _ => rfl) h1.treeOK_p s1 (Or.inl (by decide))
      have h3 := h2.advance (parseATXHeading p.bytesAfterIndent).start
      have g3 := g2.advance (parseATXHeading p.bytesAfterIndent).start
      have h4 := h3.collectInline (x := x) g3.dep (by rw [g3.ck]; decide) (by rw [g3.ck]; decide) IK.unparsed
        ((parseATXHeading p.bytesAfterIndent).stop - (parseATXHeading p.bytesAfterIndent).start)
      have g4 := g3.collectInline x IK.unparsed
        ((parseATXHeading p.bytesAfterIndent).stop - (parseATXHeading p.bytesAfterIndent).start)
      have h5 := h4.consumeLine
      have g5 := g4.consumeLine
      exact h5.endBlock HG g5.dep

/-! ### fenced code block -/

theorem startFenced_sim (HG : GOK x E G) (h : Sim F E G k p q) (hs : p.state ≤ 2) :
    Sim F E G k (startFenced x p) (startFenced x q) := by
  unfold startFenced
  simp only []
  rw [h.cur.indent, h.cur.bai]
  split
  · exact h
  · split
    · exact h
    · have h1 := h.consumeIndentN p.indent
      have s1 : (p.consumeIndentN p.indent).state ≤ 2 := consumeIndent_state_le _ _ _ hs
      have h2 := h1.openBlock HG BK.fencedCode
        (fun l => { l with char := (parseCodeFence p.bytesAfterIndent).char, n := (parseCodeFence p.bytesAfterIndent).n })
        (fun _ _ r => r.setCharN _ _) (fun _ => rfl) (Or.inl (by decide)) (by decide)
      have g2 := good_openBlock x _ BK.fencedCode
        (fun l => { l with char := (parseCodeFence p.bytesAfterIndent).char, n := (parseCodeFence p.bytesAfterIndent).n })
        (fun _ => rfl) h1.treeOK_p s1 (Or.inl (by decide))
      have h3 := h2.setContainerIndent g2.dep (p.indent : Int)
      have g3 := g2.setContainerIndent (p.indent : Int)
      split
      · have h4 := h3.advance (parseCodeFence p.bytesAfterIndent).infoStart.toNat
        have g4 := g3.advance (parseCodeFence p.bytesAfterIndent).infoStart.toNat
        have h5 := h4.collectInline (x := x) g4.dep (by rw [g4.ck]; decide) (by rw [g4.ck]; decide) IK.infoString
          ((parseCodeFence p.bytesAfterIndent).infoEnd - (parseCodeFence p.bytesAfterIndent).infoStart).toNat
        exact h5.consumeLine
      · exact h3.consumeLine

/-! ### thematic break -/

theorem startThematicBreak_sim (HG : GOK x E G) (h : Sim F E G k p q) (hs : p.state ≤ 2) :
    Sim F E G k (startThematicBreak x p) (startThematicBreak x q) := by
  unfold startThematicBreak
  simp only []
  rw [h.cur.indent, h.cur.bai]
  split
  · exact h
  · split
    · exact h
    · have h1 := h.consumeIndentN p.indent
      have s1 : (p.consumeIndentN p.indent).state ≤ 2 := consumeIndent_state_le _ _ _ hs
      have h2 := h1.openBlock HG BK.thematicBreak id (fun _ _ r => r) (fun _ => rfl) (Or.inl (by decide)) (by decide)
      have g2 := good_openBlock x _ BK.thematicBreak id (fun _ => rfl) h1.treeOK_p s1 (Or.inl (by decide))
      have h3 := h2.advance (parseThematicBreak p.bytesAfterIndent).toNat
      have g3 := g2.advance (parseThematicBreak p.bytesAfterIndent).toNat
      have h4 := h3.consumeLine
      have g4 := g3.consumeLine
      exact h4.endBlock HG g4.dep

/-! ### setext heading -/

theorem Sim.depth_pos_of_kind (h : Sim F E G k p q) (hk : p.containerKind ≠ BK.document) : 1 ≤ p.depth := by
  by_cases hd0 : p.depth = 0
  · exact absurd (h.containerKind_zero hd0).1 hk
  · omega

/-- The line is not a setext heading underline: the rule does nothing. -/
theorem startSetext_sim (h : Sim F E G k p q) : Sim F E G k (startSetext x p) (startSetext x q) := by
  have hul : parseSetextHeadingUnderline p.bytesAfterIndent = 0 := h.noul p.i
  have hulq : parseSetextHeadingUnderline q.bytesAfterIndent = 0 := by rw [h.cur.bai]; exact hul
  have e1 : startSetext x p = p := by
    unfold startSetext
    split
    · rfl
    · simp only []
      split
      · rfl
      · rw [hul]; rfl
  have e2 : startSetext x q = q := by
    unfold startSetext
    split
    · rfl
    · simp only []
      split
      · rfl
      · rw [hulq]; rfl
  rw [e1, e2]; exact h

/-! ### HTML block -/

theorem htmlStartLoop_sim (HG : GOK x E G) (line : Bytes) : ∀ (fuel i : Nat) {p q : LP}, Sim F E G k p q → p.state ≤ 2 →
    Sim F E G k (htmlStartLoop x line fuel i p) (htmlStartLoop x line fuel i q) := by
  intro fuel
  induction fuel with
  | zero => intro i p q h _; exact h
  | succ fuel ih =>
    intro i p q h hs
    unfold htmlStartLoop
    split
    · exact h
    · split
      · -- the condition applies
        have hkp : (q.containerKind == BK.paragraph) = (p.containerKind == BK.paragraph) := by
          have := h.containerKind_eq_iff' BK.paragraph (by decide) (by decide) (by decide)
          by_cases hp : p.containerKind = BK.paragraph
          · rw [hp, this.mpr hp]
          · have hq : ¬ q.containerKind = BK.paragraph := fun e => hp (this.mp e)
            rw [beq_eq_false_iff_ne.mpr hq, beq_eq_false_iff_ne.mpr hp]
        rw [hkp]
        split
        · exact h
        · have h2 := h.openBlock HG BK.htmlBlock (fun l => { l with n := (i : Int) }) (fun _ _ r => r.setN _) (fun _ => rfl)
            (Or.inl (by decide)) (by decide)
          have g2 := good_openBlock x p BK.htmlBlock (fun l => { l with n := (i : Int) }) (fun _ => rfl) h.treeOK_p hs
            (Or.inl (by decide))
          split
          · simp only []
            rw [h2.cur.bai]
            have h3 := h2.collectInline (x := x) g2.dep (by rw [g2.ck]; decide) (by rw [g2.ck]; decide) IK.rawHTML
              (p.openBlock x BK.htmlBlock fun l => { l with n := (i : Int) }).bytesAfterIndent.length
            have g3 := g2.collectInline x IK.rawHTML
              (p.openBlock x BK.htmlBlock fun l => { l with n := (i : Int) }).bytesAfterIndent.length
            have h4 := h3.consumeLine
            have g4 := g3.consumeLine
            exact h4.endBlock HG g4.dep
          · exact h2
      · exact ih (i + 1) h hs

theorem startHTML_sim (HG : GOK x E G) (h : Sim F E G k p q) (hs : p.state ≤ 2) :
    Sim F E G k (startHTML x p) (startHTML x q) := by
  unfold startHTML
  simp only []
  rw [h.cur.indent, h.cur.bai]
  split
  · exact h
  · split
    · exact h
    · exact htmlStartLoop_sim HG _ 8 0 h hs

/-! ### indented code -/

theorem startIndentedCode_sim (HG : GOK x E G) (h : Sim F E G k p q) :
    Sim F E G k (startIndentedCode x p) (startIndentedCode x q) := by
  unfold startIndentedCode
  rw [h.cur.indent, h.cur.isRestBlank, h.tipKind]
  split
  · exact h
  · have h1 := h.consumeIndentN codeBlockIndentLimit
    exact h1.openBlock HG BK.indentedCode id (fun _ _ r => r) (fun _ => rfl) (Or.inl (by decide)) (by decide)

/-! ### list items -/

/-- Inside a list the delimiters agree. -/
theorem Sim.liDelim_eq (h : Sim F E G k p q) (hk : p.containerKind = BK.list) : liDelim q = liDelim p := by
  have hd : 1 ≤ p.depth := h.depth_pos_of_kind (by rw [hk]; decide)
  have hq : q.containerKind = BK.list := by rw [h.containerKind_pos hd]; exact hk
  unfold liDelim
  rw [hk, hq]
  simp only [bne_self_eq_false, Bool.false_and, Bool.false_eq_true, if_false]
  exact (h.container_pos hd).label.char

theorem liList_sim (HG : GOK x E G) (h : Sim F E G k p q) (hs : p.state ≤ 2) (d : UInt8) :
    Sim F E G k (liList x d p) (liList x d q) ∧ (liList x d p).state ≤ 2 ∧ (liList x d p).containerKind = BK.list := by
  unfold liList
  have hopen : Sim F E G k (p.openBlock x BK.list (fun l => { l with char := d })) (q.openBlock x BK.list (fun l => { l with char := d })) ∧
      (p.openBlock x BK.list (fun l => { l with char := d })).state ≤ 2 ∧
      (p.openBlock x BK.list (fun l => { l with char := d })).containerKind = BK.list := by
    have h2 := h.openBlock HG BK.list (fun l => { l with char := d }) (fun _ _ r => r.setChar _) (fun _ => rfl)
      (Or.inl (by decide)) (by decide)
    have g2 := good_openBlock x p BK.list (fun l => { l with char := d }) (fun _ => rfl) h.treeOK_p hs (Or.inl (by decide))
    exact ⟨h2, g2.st, g2.ck⟩
  rw [h.ckind_bne BK.list (by decide) (by decide) (by decide)]
  by_cases hk : p.containerKind = BK.list
  · rw [h.liDelim_eq hk]
    split
    · exact hopen
    · exact ⟨h, hs, hk⟩
  · have c : (p.containerKind != BK.list) = true := by simpa using hk
    simp only [c, Bool.true_or, if_true]
    exact hopen

theorem liTail_sim (h : Sim F E G k p q) (hd : 1 ≤ p.depth) (ind stop : Nat) :
    Sim F E G k (liTail ind stop p) (liTail ind stop q) := by
  have hd1 : ∀ n, 1 ≤ (p.consumeIndentN n).depth := by
    intro n
    have := consumeIndentN_tree p n
    simp only [tree, Prod.mk.injEq] at this
    rw [this.2.2.1]; exact hd
  unfold liTail
  rw [h.cur.isRestBlank, h.cur.indent]
  split
  · exact (h.setContainerIndent hd _).consumeLine
  · split
    · exact h.setContainerIndent hd _
    · split
      · exact (h.consumeIndentN 1).setContainerIndent (hd1 1) _
      · exact (h.consumeIndentN _).setContainerIndent (hd1 _) _

theorem startListItem_sim (HG : GOK x E G) (h : Sim F E G k p q) (hs : p.state ≤ 2) :
    Sim F E G k (startListItem x p) (startListItem x q) := by
  rw [startListItem_eq, startListItem_eq]
  rw [h.cur.indent, h.cur.bai, h.ckind_beq BK.paragraph (by decide) (by decide) (by decide)]
  split
  · exact h
  · split
    · exact h
    · split
      · exact h
      · have h1 := h.consumeIndentN p.indent
        have s1 : (p.consumeIndentN p.indent).state ≤ 2 := consumeIndent_state_le _ _ _ hs
        generalize parseListMarker p.bytesAfterIndent = m
        obtain ⟨h2, s2, ck2⟩ := liList_sim HG h1 s1 m.delim
        have hcc : canContain (liList x m.delim (p.consumeIndentN p.indent)).containerKind BK.listItem = true := by
          rw [ck2]; decide
        have h3 := h2.openBlock HG BK.listItem (fun l => { l with char := m.delim }) (fun _ _ r => r.setChar _) (fun _ => rfl)
          (Or.inr hcc) (by decide)
        have g3 := good_openBlock x _ BK.listItem (fun l => { l with char := m.delim }) (fun _ => rfl) h2.treeOK_p s2
          (Or.inr hcc)
        have h4 := h3.openBlock HG BK.listMarker id (fun _ _ r => r) (fun _ => rfl) (Or.inl (by decide)) (by decide)
        have g4 := good_openBlock x _ BK.listMarker id (fun _ => rfl) g3.ok g3.st (Or.inl (by decide))
        have ob4 := openBlock_post x _ BK.listMarker id (fun _ => rfl) g3.ok g3.st (Or.inl (by decide))
        have d4 := ob4.depth (by rw [g3.ck]; decide)
        have h5 := h4.advance m.stop.toNat
        have g5 := g4.advance m.stop.toNat
        have h6 := h5.endBlock HG g5.dep
        have e6 := endBlock_post x _ g5.ok g5.st
        have d6 := e6.depth
        have hd6 : 1 ≤ (((((liList x m.delim (p.consumeIndentN p.indent)).openBlock x BK.listItem
            (fun l => { l with char := m.delim })).openBlock x BK.listMarker).advance m.stop.toNat).endBlock x).depth := by
          rw [d6]
          show 1 ≤ (LP.advance _ _).depth - 1
          rw [advance_depth, d4]
          have := g3.dep
          omega
        exact liTail_sim h6 hd6 _ _

/-! ### all block starts -/

theorem blockStartFns_sim (HG : GOK x E G) : ∀ i (hi : i < (blockStartFns x).length), ∀ {p q : LP},
    Sim F E G k p q → p.state ≤ 2 → Sim F E G k ((blockStartFns x)[i] p) ((blockStartFns x)[i] q) := by
  intro i hi p q h hs
  simp only [blockStartFns, List.length_cons, List.length_nil] at hi
  match i, hi with
  | 0, _ => exact startBlockQuote_sim HG h
  | 1, _ => exact startATX_sim HG h hs
  | 2, _ => exact startFenced_sim HG h hs
  | 3, _ => exact startHTML_sim HG h hs
  | 4, _ => exact startSetext_sim h
  | 5, _ => exact startThematicBreak_sim HG h hs
  | 6, _ => exact startListItem_sim HG h hs
  | 7, _ => exact startIndentedCode_sim HG h

/-- One pass over a list of start rules that respect `Sim`. -/
theorem tryStarts_sim : ∀ (fs : List (LP → LP)), (∀ f ∈ fs, ∀ {p q : LP}, Sim F E G k p q → p.state ≤ 2 → Sim F E G k (f p) (f q)) →
    ∀ {p q : LP}, Sim F E G k p q → Sim F E G k (tryStarts fs p) (tryStarts fs q) := by
  intro fs
  induction fs with
  | nil => intro _ p q h; exact h
  | cons f rest ih =>
    intro hf p q h
    unfold tryStarts
    simp only []
    have h1 := hf f (List.mem_cons_self ..) (h.setState stateOpening) (by show stateOpening ≤ 2; decide)
    rw [h1.cur.state]
    split
    · exact h1
    · exact ih (fun g hg => hf g (List.mem_cons_of_mem _ hg)) h1

theorem tryStarts_blockStarts_sim (HG : GOK x E G) (h : Sim F E G k p q) :
    Sim F E G k (tryStarts (blockStartFns x) p) (tryStarts (blockStartFns x) q) := by
  apply tryStarts_sim _ _ h
  intro f hf p q h hs
  obtain ⟨i, hi, rfl⟩ := List.getElem_of_mem hf
  exact blockStartFns_sim HG i hi h hs

/-- The `openingLoop`. -/
theorem openingLoop_sim (HG : GOK x E G) : ∀ (fuel : Nat) {p q : LP}, Sim F E G k p q →
    (openingLoop x fuel q).1 = (openingLoop x fuel p).1 ∧ Sim F E G k (openingLoop x fuel p).2 (openingLoop x fuel q).2 := by
  intro fuel
  induction fuel with
  | zero => intro p q h; exact ⟨rfl, h⟩
  | succ fuel ih =>
    intro p q h
    unfold openingLoop
    rw [h.ckind_beq BK.paragraph (by decide) (by decide) (by decide), h.acceptsLines_eq]
    split
    · exact ⟨rfl, h⟩
    · simp only []
      have h1 := tryStarts_blockStarts_sim HG h
      rw [h1.cur.state]
      split
      · exact ih h1
      · split
        · exact ⟨rfl, h1⟩
        · exact ⟨rfl, h1⟩


end CM.Proofs.Nest
