import CM.Proofs.QuoteRdE
/-
C09, `onCloseParagraph` with `[` (6): `collectTextNodes` on both sides — the children collected for a label, a
destination or a title have the same concatenated text (`flat`).  On the bare side a run of text may continue over a
line boundary (consecutive lines without indentation are contiguous in the source), on the prefixed side it is cut at
every line (the reader `jumped`); this is the only difference.

This file: the one-sided facts (the pending text `seg src plainStart pos`).
-/
namespace CM.Proofs.Quote
open CM CM.Model CM.Gen

/-- The inner function `go` of `collectTextNodes`. -/
def goF (ext : Ext) (src : Bytes) (stop kind : Nat) (esc : Bool) (fuel : Nat) (r : Rd) (ps : Nat) (acc : List Tree) :
    List Tree :=
  if r.pos ≥ stop then collectTextNodes.finish stop kind ps acc
  else
    match r.next src with
    | (ok, r) =>
      if !ok then collectTextNodes.finish stop kind ps acc
      else if r.jumped then
        collectTextNodes ext src stop kind esc fuel r r.pos
          (if r.prev ≥ (ps : Int) then acc ++ [mkInline kind ps (r.prev + 1)] else acc)
      else collectTextNodes ext src stop kind esc fuel r ps acc

theorem collectStep_eq (ext : Ext) (src : Bytes) (stop kind : Nat) (esc : Bool) (cn : Tree) (r : Rd) (ps : Nat)
    (acc : List Tree) (fuel : Nat) :
    collectTextNodes.collectStep ext src stop kind esc cn r ps acc fuel =
      if (esc && isUnparsed cn) = true then
        match r.current src with
        | (c, r) =>
          if (c == 0x5C) = true then
            match r.next src with
            | (ok, r) =>
              match (if ok = true then r.current src else (0, r)) with
              | (c2, r) =>
                if (ok && decide (r.pos < stop) && isASCIIPunctuation c2) = true then
                  goF ext src stop kind esc fuel r r.pos
                    (if r.prev > (ps : Int) then acc ++ [mkInline kind ps r.prev] else acc)
                else goF ext src stop kind esc fuel r ps acc
          else if (c == 0x26) = true then
            match r.remainingNodeBytes src with
            | (rest, r) =>
              match parseCharacterEscape ext rest with
              | Int.ofNat e =>
                match ((List.range (e - 1)).foldl (fun r _ => (r.next src).2) r).next src with
                | (ok, r2) =>
                  if (!ok) = true then
                    collectTextNodes.finish stop kind (r.pos + e)
                      ((if r.pos > ps then acc ++ [mkInline kind ps r.pos] else acc) ++
                        [mkInline IK.charRef r.pos ((r.pos : Int) + e)])
                  else collectTextNodes ext src stop kind esc fuel r2 (r.pos + e)
                      ((if r.pos > ps then acc ++ [mkInline kind ps r.pos] else acc) ++
                        [mkInline IK.charRef r.pos ((r.pos : Int) + e)])
              | _ => goF ext src stop kind esc fuel r ps acc
          else goF ext src stop kind esc fuel r ps acc
      else goF ext src stop kind esc fuel r ps acc := by
  rw [collectTextNodes.collectStep.eq_1]
  rfl

/-! ### one side: the pending text -/

/-- `plainStart` is at or before the reader; the reader has not passed `stop`, or nothing is pending. -/
def U (stop : Nat) (r : Rd) (ps : Nat) : Prop := ps ≤ r.pos ∧ (r.pos ≤ stop ∨ ps = r.pos)

theorem finish_flat (src : Bytes) (stop kind : Nat) {r : Rd} {ps : Nat} (acc : List Tree) (hu : U stop r ps)
    (hs : stop ≤ r.pos) :
    flat src (collectTextNodes.finish stop kind ps acc) = flat src acc ++ seg src ps r.pos := by
  unfold collectTextNodes.finish
  obtain ⟨h1, h2⟩ := hu
  split
  · rename_i hlt
    rw [flat_snoc]
    have e1 : ((ps : Nat) : Int).toNat = ps := by omega
    have e2 : ((stop : Nat) : Int).toNat = stop := by omega
    rw [e1, e2]
    have : r.pos = stop := by omega
    rw [this]
  · rename_i hge
    rw [seg_of_le src (by omega), List.append_nil]

/-- After a failed `next` from the last byte. -/
theorem finish_fail (src : Bytes) (stop kind : Nat) {ps pos : Nat} (acc : List Tree) (hps : ps ≤ pos) (hlt : pos < stop)
    (hle : stop ≤ pos + 1) (hp : pos < src.length) :
    flat src (collectTextNodes.finish stop kind ps acc) = flat src acc ++ seg src ps pos ++ [src.getD pos 0] := by
  unfold collectTextNodes.finish
  rw [if_pos (by omega), flat_snoc]
  have e1 : ((ps : Nat) : Int).toNat = ps := by omega
  have e2 : ((stop : Nat) : Int).toNat = stop := by omega
  have e3 : stop = pos + 1 := by omega
  rw [e1, e2, e3, seg_snoc src hps hp, List.append_assoc]

/-- One successful `next`: with or without a jump, the pending text grows by the byte that was read. -/
theorem step_jump (src : Bytes) (stop kind : Nat) {r2 : Rd} {ps pos : Nat} (acc : List Tree) (hps : ps ≤ pos)
    (hp : pos < src.length) (hprev : r2.prev = (pos : Int)) :
    U stop r2 r2.pos ∧
    flat src (if r2.prev ≥ (ps : Int) then acc ++ [mkInline kind ps (r2.prev + 1)] else acc) ++ seg src r2.pos r2.pos =
      flat src acc ++ seg src ps pos ++ [src.getD pos 0] := by
  refine ⟨⟨Nat.le_refl _, Or.inr rfl⟩, ?_⟩
  rw [if_pos (by rw [hprev]; omega), flat_snoc, seg_self, List.append_nil, hprev]
  have e1 : ((ps : Nat) : Int).toNat = ps := by omega
  have e2 : ((pos : Int) + 1).toNat = pos + 1 := by omega
  rw [e1, e2, seg_snoc src hps hp, List.append_assoc]

theorem step_nojump (src : Bytes) (stop : Nat) {r2 : Rd} {ps pos : Nat} (acc : List Tree) (hps : ps ≤ pos)
    (hp : pos < src.length) (hlt : pos < stop) (hprev : r2.prev = (pos : Int)) (hadv : pos + 1 ≤ r2.pos)
    (hj : r2.jumped = false) :
    U stop r2 ps ∧ flat src acc ++ seg src ps r2.pos = flat src acc ++ seg src ps pos ++ [src.getD pos 0] := by
  have hpos : r2.pos = pos + 1 := by
    unfold Rd.jumped at hj
    rw [hprev] at hj
    simp only [Bool.and_eq_false_iff, decide_eq_false_iff_not] at hj
    omega
  rw [hpos]
  refine ⟨⟨by omega, Or.inl (by omega)⟩, ?_⟩
  rw [seg_snoc src hps hp, List.append_assoc]

theorem jumped_of (r2 : Rd) {pos : Nat} (hprev : r2.prev = (pos : Int)) (h : pos + 1 < r2.pos) : r2.jumped = true := by
  unfold Rd.jumped
  rw [hprev]
  simp only [Bool.and_eq_true, decide_eq_true_eq]
  omega

end CM.Proofs.Quote
