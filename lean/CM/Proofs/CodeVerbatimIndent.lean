import CM.Proofs.CodeVerbatimIndentLine
import CM.Proofs.CodeVerbatimFenced
/-
C06 (block piece): a top-level indented code block comes out verbatim — the run of the stream machine on a document made
of lines `w ++ t ++ "\n"` where `w` is the indentation the match rule consumes (`indentW`: four spaces, or up to three
spaces and a tab; `t ++ "\n"` is the Text node; `t` may be blank or start with more white space), or a short blank line of
at most three spaces (consumed entirely, the Text node is the `"\n"`).
-/
namespace CM.Proofs
open CM CM.Model CM.Gen
open CM.Proofs.BT

/-- A line of the document as the model sees it: `w` that is consumed as indentation, then `t`, then LF. -/
def icEnc (it : Bytes × Bytes) : Bytes := it.1 ++ (it.2 ++ [LF])

def icBody (its : List (Bytes × Bytes)) : Bytes := (its.map icEnc).flatten

/-- Four columns of indentation (`indentW`) followed by anything (no LF/CR/NUL), or a blank line of at most three spaces. -/
def icValid (it : Bytes × Bytes) : Bool := plainLine it.2 && indentW it.1 it.2

/-- One Text node per line: from the end of the consumed indentation to the end of the line (terminator included). -/
def icTextNodes (s : Nat) : List (Bytes × Bytes) → List Tree
  | [] => []
  | it :: its =>
    mkInline IK.text ((s + it.1.length : Nat) : Int) ((s + (icEnc it).length : Nat) : Int) :: icTextNodes (s + (icEnc it).length) its

/-- `lastLineBlank` after the lines. -/
def icFlag (b : Bool) : List (Bytes × Bytes) → Bool
  | [] => b
  | it :: its => icFlag (isBlankLine (it.2 ++ [LF])) its

theorem icBody_cons (it : Bytes × Bytes) (its : List (Bytes × Bytes)) : icBody (it :: its) = icEnc it ++ icBody its := by
  simp [icBody]

theorem icValid_elim {it : Bytes × Bytes} (h : icValid it = true) :
    plainLine it.2 = true ∧ indentW it.1 it.2 = true := by
  simp only [icValid, Bool.and_eq_true] at h
  exact h

theorem indentW_plain {w t : Bytes} (h : indentW w t = true) : plainLine w = true := by
  have hsp := fun k => plainLine_replicate (c := SP) k (by decide) (by decide) (by decide)
  rcases indentW_elim h with hw | ⟨j, _, hw⟩ | ⟨k, _, hw, _⟩
  · rw [hw]; exact hsp 4
  · rw [hw, plainLine_append, hsp j]; decide
  · rw [hw]; exact hsp k

theorem icEnc_plain_prefix (it : Bytes × Bytes) (h : icValid it = true) : plainLine (it.1 ++ it.2) = true := by
  rw [plainLine_append, indentW_plain (icValid_elim h).2, (icValid_elim h).1]; rfl

theorem lineLen_icEnc (it : Bytes × Bytes) (rest : Bytes) (h : icValid it = true) :
    lineLen (icEnc it ++ rest) = (icEnc it).length := by
  have : icEnc it ++ rest = (it.1 ++ it.2) ++ LF :: rest := by simp [icEnc]
  rw [this, lineLen_plain _ _ (icEnc_plain_prefix it h)]
  simp [icEnc]; omega

theorem icEnc_ne_nil (it : Bytes × Bytes) : icEnc it ≠ [] := by simp [icEnc]

theorem icEnc_length_pos (it : Bytes × Bytes) : 0 < (icEnc it).length := by simp [icEnc]; omega

/-! ### one line through `blocksLP` -/

theorem line_ic_cont (x : PExt) (lp : LP) (b : Bool) (inl : List Tree) (src : Bytes) (s : Nat) (it : Bytes × Bytes)
    (hroot : lp.root = icRoot b inl) (hsrc : src.drop s = icEnc it) (hv : icValid it = true) :
    ((blocksLP x).line lp src s).root = icRoot (isBlankLine (it.2 ++ [LF]))
        (inl ++ [mkInline IK.text ((s + it.1.length : Nat) : Int) ((s + (icEnc it).length : Nat) : Int)]) ∧
    ((blocksLP x).line lp src s).panic = lp.panic := by
  rw [blocksLP_line]
  have r := reset_facts lp src s
  generalize lp.reset src s = p at r
  have hline : p.line = it.1 ++ (it.2 ++ [LF]) := by rw [r.line, hsrc]; rfl
  have h := processLine_ic_cont x p b inl it.1 it.2 (by rw [r.root, hroot]) r.i r.cur r.tabPartial r.col r.fresh hline
    (by rw [r.indent, r.line]) (icValid_elim hv).2
  rw [r.lineStart, hline, r.panic] at h
  exact h

theorem line_ic_first (x : PExt) (src : Bytes) (t : Bytes) (hsrc : src = icEnc (List.replicate 4 SP, t)) (hnb : isBlankLine t = false) :
    ((blocksLP x).line ((blocksLP x).new []) src 0).root =
        icRoot false [mkInline IK.text ((0 + 4 : Nat) : Int) ((0 + (icEnc (List.replicate 4 SP, t)).length : Nat) : Int)] ∧
    ((blocksLP x).line ((blocksLP x).new []) src 0).panic = none := by
  subst hsrc
  show (processLine x (newLP.reset (icEnc (List.replicate 4 SP, t)) 0)).root = _ ∧ (processLine x (newLP.reset (icEnc (List.replicate 4 SP, t)) 0)).panic = none
  have r := reset_facts newLP (icEnc (List.replicate 4 SP, t)) 0
  generalize newLP.reset (icEnc (List.replicate 4 SP, t)) 0 = p at r
  have hline : p.line = List.replicate 4 SP ++ (t ++ [LF]) := by rw [r.line]; rfl
  have hnb' : isBlankLine p.line = false := by
    rw [hline, isBlankLine_append, isBlankLine_append, hnb]; simp
  have h := processLine_ic_first x p (t ++ [LF]) (by rw [r.root]; rfl) r.depth r.i r.lineStart (by rw [r.state]; rfl) r.cur hline
    (by rw [r.indent, r.line]) (by rw [hline, ← List.append_assoc]; exact hasByteSuffix_LF _) hnb'
  rw [hline, r.panic, show newLP.panic = none from rfl] at h
  simpa [icEnc] using h

theorem line_ic_eof (x : PExt) (lp : LP) (inl' : List Tree) (last : Tree) (src : Bytes) (s : Nat)
    (hroot : lp.root = icRoot false (inl' ++ [last])) (hsrc : src.drop s = [])
    (h1 : Node.isI last IK.softBreak = false)
    (h2 : (Node.isI last IK.text && isBlankLine (Node.slice src last)) = false) :
    ((blocksLP x).line lp src s).root = .mk { kind := BK.document, start := 0, stop := (s : Nat) }
        [.mk (icLabel false (s : Nat)) [] (inl' ++ [last])] [] ∧
    ((blocksLP x).line lp src s).panic = lp.panic := by
  rw [blocksLP_line]
  have r := reset_facts lp src s
  generalize lp.reset src s = p at r
  have h := processLine_ic_eof x p inl' last (by rw [r.root, hroot]) r.i (by rw [r.line, hsrc]) (by rw [r.indent, r.line])
    h1 (by rw [r.source]; exact h2)
  rw [r.lineStart, r.panic] at h
  exact h

/-! ### `parseLines` -/

theorem makeRoot_memBP_ic (buf : Bytes) (i : Nat) (b : Bool) (inl : List Tree) :
    makeRoot (memBP buf i) (icRoot b inl).blocks = none := by
  simp [makeRoot, icRoot, PB.blocks, PB.isOpen, PB.label, icLabel]

theorem parseLines_ic_step (x : PExt) (fuel : Nat) (lp : LP) (b : Bool) (inl : List Tree)
    (buf : Bytes) (s : Nat) (it : Bytes × Bytes) (rest : Bytes)
    (hroot : lp.root = icRoot b inl) (hpanic : lp.panic = none)
    (hbuf : buf.drop s = icEnc it ++ rest) (hv : icValid it = true) :
    ∃ lp' : LP, lp'.root = icRoot (isBlankLine (it.2 ++ [LF]))
          (inl ++ [mkInline IK.text ((s + it.1.length : Nat) : Int) ((s + (icEnc it).length : Nat) : Int)]) ∧ lp'.panic = none ∧
      parseLines (blocksLP x) (fuel + 1) lp s (memBP buf (s + (icEnc it).length)) =
        parseLines (blocksLP x) fuel lp' (s + (icEnc it).length) (memBP buf (s + (icEnc it).length + lineLen rest)) := by
  have hlen : s + (icEnc it).length + rest.length = buf.length := by
    have := congrArg List.length hbuf
    simp only [List.length_drop, List.length_append] at this
    have := icEnc_length_pos it
    omega
  have hsrc : ((memBP buf (s + (icEnc it).length)).buf.take (memBP buf (s + (icEnc it).length)).i).drop s = icEnc it := by
    show (buf.take (s + (icEnc it).length)).drop s = _
    rw [List.drop_take, hbuf, Nat.add_sub_cancel_left, List.take_left' rfl]
  have hrest : buf.drop (s + (icEnc it).length) = rest := by
    rw [← List.drop_drop, hbuf, List.drop_left' rfl]
  obtain ⟨h1, h2⟩ := line_ic_cont x lp b inl _ s it hroot hsrc hv
  refine ⟨_, h1, h2.trans hpanic, ?_⟩
  have hk : makeRoot (memBP buf (s + (icEnc it).length)) ((blocksLP x).kids ((blocksLP x).line lp
      ((memBP buf (s + (icEnc it).length)).buf.take (memBP buf (s + (icEnc it).length)).i) s)) = none := by
    show makeRoot _ (LP.root _).blocks = none
    rw [h1, makeRoot_memBP_ic]
  rw [parseLines_next (blocksLP x) (h2.trans hpanic) hk, readline_memBP buf _ (by omega), hrest]
  rfl

theorem icBody_length_cons (it : Bytes × Bytes) (its : List (Bytes × Bytes)) :
    (icBody (it :: its)).length = (icEnc it).length + (icBody its).length := by
  rw [icBody_cons, List.length_append]

theorem parseLines_ic_body (x : PExt) (buf : Bytes) :
    ∀ (its : List (Bytes × Bytes)) (fuel : Nat) (lp : LP) (b : Bool) (inl : List Tree) (s : Nat),
    lp.root = icRoot b inl → lp.panic = none → buf.drop s = icBody its →
    (∀ it ∈ its, icValid it = true) →
    ∃ lp' : LP, lp'.root = icRoot (icFlag b its) (inl ++ icTextNodes s its) ∧ lp'.panic = none ∧
      parseLines (blocksLP x) (fuel + its.length) lp s (memBP buf (s + lineLen (icBody its))) =
        parseLines (blocksLP x) fuel lp' (s + (icBody its).length) (memBP buf (s + (icBody its).length)) := by
  intro its
  induction its with
  | nil =>
    intro fuel lp b inl s hroot hpanic _ _
    exact ⟨lp, by simpa [icTextNodes, icFlag] using hroot, hpanic, by simp [icBody]⟩
  | cons it its ih =>
    intro fuel lp b inl s hroot hpanic hbuf hv
    have hvi := hv it List.mem_cons_self
    have hbuf' : buf.drop s = icEnc it ++ icBody its := by rw [hbuf, icBody_cons]
    have hll : lineLen (icBody (it :: its)) = (icEnc it).length := by
      rw [icBody_cons]; exact lineLen_icEnc it _ hvi
    obtain ⟨lp1, r1, p1, e1⟩ := parseLines_ic_step x (fuel + its.length) lp b inl buf s it (icBody its) hroot hpanic hbuf' hvi
    have hrest : buf.drop (s + (icEnc it).length) = icBody its := by
      rw [← List.drop_drop, hbuf', List.drop_left' rfl]
    obtain ⟨lp2, r2, p2, e2⟩ := ih fuel lp1 (isBlankLine (it.2 ++ [LF]))
      (inl ++ [mkInline IK.text ((s + it.1.length : Nat) : Int) ((s + (icEnc it).length : Nat) : Int)]) (s + (icEnc it).length) r1 p1 hrest
      (fun it' h' => hv it' (List.mem_cons_of_mem _ h'))
    refine ⟨lp2, ?_, p2, ?_⟩
    · rw [r2]; simp [icTextNodes, icFlag]
    · rw [hll]
      show parseLines (blocksLP x) (fuel + its.length + 1) lp s _ = _
      rw [e1, e2, icBody_length_cons]
      simp only [Nat.add_assoc]

theorem parseLines_ic_open (x : PExt) (fuel : Nat) (t rest buf : Bytes) (hbuf : buf = icEnc (List.replicate 4 SP, t) ++ rest)
    (hnb : isBlankLine t = false) :
    ∃ lp' : LP, lp'.root = icRoot false (icTextNodes 0 [(List.replicate 4 SP, t)]) ∧ lp'.panic = none ∧
      parseLines (blocksLP x) (fuel + 1) ((blocksLP x).new []) 0 (memBP buf (icEnc (List.replicate 4 SP, t)).length) =
        parseLines (blocksLP x) fuel lp' (icEnc (List.replicate 4 SP, t)).length (memBP buf ((icEnc (List.replicate 4 SP, t)).length + lineLen rest)) := by
  have htake : (memBP buf (icEnc (List.replicate 4 SP, t)).length).buf.take (memBP buf (icEnc (List.replicate 4 SP, t)).length).i = icEnc (List.replicate 4 SP, t) := by
    show buf.take (icEnc (List.replicate 4 SP, t)).length = _
    rw [hbuf, List.take_left' rfl]
  have hdrop : buf.drop (icEnc (List.replicate 4 SP, t)).length = rest := by rw [hbuf, List.drop_left' rfl]
  obtain ⟨h1, h2⟩ := line_ic_first x _ t htake hnb
  refine ⟨_, h1, h2, ?_⟩
  have hk : makeRoot (memBP buf (icEnc (List.replicate 4 SP, t)).length) ((blocksLP x).kids ((blocksLP x).line ((blocksLP x).new [])
      ((memBP buf (icEnc (List.replicate 4 SP, t)).length).buf.take (memBP buf (icEnc (List.replicate 4 SP, t)).length).i) 0)) = none := by
    show makeRoot _ (LP.root _).blocks = none
    rw [h1, makeRoot_memBP_ic]
  rw [parseLines_next (blocksLP x) h2 hk, readline_memBP buf _ (by rw [hbuf]; simp), hdrop]
  rfl

theorem parseLines_ic_eof (x : PExt) (fuel : Nat) (lp : LP) (inl' : List Tree) (last : Tree) (buf : Bytes)
    (hroot : lp.root = icRoot false (inl' ++ [last])) (hpanic : lp.panic = none) (hnul : ∀ b ∈ buf, b ≠ 0)
    (h1 : Node.isI last IK.softBreak = false)
    (h2 : (Node.isI last IK.text && isBlankLine (Node.slice buf last)) = false) :
    parseLines (blocksLP x) (fuel + 1) lp buf.length (memBP buf buf.length) =
      (.block { source := buf, startLine := 1, startOffset := 0, endOffset := buf.length,
                block := .mk (icLabel false (buf.length : Nat)) [] (inl' ++ [last]) },
       doneBP buf.length (1 + lineCount buf)) := by
  have hsrc : (memBP buf buf.length).buf.take (memBP buf buf.length).i = buf := List.take_length
  obtain ⟨e1, e2⟩ := line_ic_eof x lp inl' last ((memBP buf buf.length).buf.take (memBP buf buf.length).i) buf.length hroot
    (by rw [hsrc]; simp) h1 (by rw [hsrc]; exact h2)
  apply parseLines_root (blocksLP x) (e2.trans hpanic)
  show makeRoot _ (LP.root _).blocks = _
  rw [e1]
  exact makeRoot_memBP_closed buf _ hnul rfl

/-! ### the whole run -/

theorem icBody_append (a b : List (Bytes × Bytes)) : icBody (a ++ b) = icBody a ++ icBody b := by simp [icBody]

theorem icTextNodes_append : ∀ (a b : List (Bytes × Bytes)) (s : Nat),
    icTextNodes s (a ++ b) = icTextNodes s a ++ icTextNodes (s + (icBody a).length) b
  | [], b, s => by simp [icTextNodes, icBody]
  | it :: a, b, s => by
    simp only [List.cons_append, icTextNodes, icTextNodes_append a b, icBody_length_cons, Nat.add_assoc]

theorem icFlag_snoc (b : Bool) (a : List (Bytes × Bytes)) (it : Bytes × Bytes) :
    icFlag b (a ++ [it]) = isBlankLine (it.2 ++ [LF]) := by
  induction a generalizing b with
  | nil => rfl
  | cons c a ih => simp only [List.cons_append, icFlag, ih]

theorem icBody_length_ge (its : List (Bytes × Bytes)) : its.length ≤ (icBody its).length := by
  induction its with
  | nil => simp [icBody]
  | cons it its ih => rw [icBody_length_cons, List.length_cons]; have := icEnc_length_pos it; omega

theorem icBody_noNul (its : List (Bytes × Bytes)) (h : ∀ it ∈ its, icValid it = true) : noNul (icBody its) = true := by
  induction its with
  | nil => rfl
  | cons it its ih =>
    have hp := icEnc_plain_prefix it (h it List.mem_cons_self)
    have : icEnc it = (it.1 ++ it.2) ++ [LF] := by simp [icEnc]
    rw [icBody_cons, noNul_append, this, noNul_append, noNul_of_plain hp, ih (fun it' h' => h it' (List.mem_cons_of_mem _ h'))]
    decide

theorem isBlankLine_t_LF (t : Bytes) : isBlankLine (t ++ [LF]) = isBlankLine t := by
  rw [isBlankLine_append]; simp [isBlankLine, isWs_LF]

/-- The last Text node. -/
theorem icTextNodes_snoc (init : List (Bytes × Bytes)) (wl tl : Bytes) :
    icTextNodes 0 (init ++ [(wl, tl)]) = icTextNodes 0 init ++
      [mkInline IK.text (((icBody init).length + wl.length : Nat) : Int)
        (((icBody init).length + wl.length + (tl.length + 1) : Nat) : Int)] := by
  rw [icTextNodes_append]
  simp only [icTextNodes, Nat.zero_add, icEnc, List.length_append, List.length_singleton, Nat.add_assoc]

/-- **Indented code blocks come out verbatim** (the run of the stream machine), in terms of the lines as the model sees them
    (`icEnc`): the first line is `"    " ++ t0 ++ "\n"`, the last line `wl ++ tl ++ "\n"`, with `t0`, `tl` not blank. -/
theorem indented_code_run (x : PExt) (its : List (Bytes × Bytes)) (t0 : Bytes) (rest init : List (Bytes × Bytes)) (wl tl : Bytes)
    (fuel : Nat) (h0 : its = (List.replicate 4 SP, t0) :: rest) (hl : its = init ++ [(wl, tl)])
    (hv : ∀ it ∈ its, icValid it = true) (hnb0 : isBlankLine t0 = false) (hnbl : isBlankLine tl = false)
    (hfuel : 2 ≤ fuel) :
    drain (blocksLP x) fuel (memParser (icBody its)) [] =
      ([{ source := icBody its, startLine := 1, startOffset := 0, endOffset := (icBody its).length,
          block := .mk (icLabel false ((icBody its).length : Nat)) [] (icTextNodes 0 its) }],
       .err .eof, doneBP (icBody its).length (1 + lineCount (icBody its))) := by
  have hnul : ∀ b ∈ icBody its, b ≠ 0 := noNul_mem (icBody_noNul its hv)
  rw [memParser_eq _ hnul]
  obtain ⟨f, rfl⟩ : ∃ f, fuel = f + 2 := ⟨fuel - 2, by omega⟩
  have hv0 : icValid (List.replicate 4 SP, t0) = true := hv _ (by rw [h0]; exact List.mem_cons_self)
  have hdoc0 : icBody its = icEnc (List.replicate 4 SP, t0) ++ icBody rest := by rw [h0, icBody_cons]
  have hll : lineLen (icBody its) = (icEnc (List.replicate 4 SP, t0)).length := by
    rw [hdoc0]; exact lineLen_icEnc _ _ hv0
  have hnb : isBlankLine ((icBody its).take (lineLen (icBody its))) = false := by
    rw [hll, hdoc0, List.take_left' rfl]
    show isBlankLine (List.replicate 4 SP ++ (t0 ++ [LF])) = false
    rw [isBlankLine_append, isBlankLine_t_LF, hnb0]; simp
  have e0 := nextBlock_first (blocksLP x) (icBody its) (by rw [hll]; exact icEnc_length_pos _) hnb
  rw [hll] at e0
  have hdl : (icBody its).length = (icEnc (List.replicate 4 SP, t0)).length + (icBody rest).length := by rw [hdoc0, List.length_append]
  have hbl := icBody_length_ge rest
  obtain ⟨g, hg⟩ : ∃ g, (icBody its).length + 4 = ((g + 1) + rest.length) + 1 := ⟨(icBody its).length + 2 - rest.length, by omega⟩
  rw [hg] at e0
  -- the first line
  obtain ⟨lp1, r1, p1, e1⟩ := parseLines_ic_open x ((g + 1) + rest.length) t0 (icBody rest) (icBody its) hdoc0 hnb0
  -- the other lines
  have hdrop1 : (icBody its).drop (icEnc (List.replicate 4 SP, t0)).length = icBody rest := by rw [hdoc0, List.drop_left' rfl]
  obtain ⟨lp2, r2, p2, e2⟩ := parseLines_ic_body x (icBody its) rest (g + 1) lp1 false (icTextNodes 0 [(List.replicate 4 SP, t0)])
    (icEnc (List.replicate 4 SP, t0)).length r1 p1 hdrop1 (fun it h' => hv it (by rw [h0]; exact List.mem_cons_of_mem _ h'))
  have hnodes : icTextNodes 0 [(List.replicate 4 SP, t0)] ++ icTextNodes (icEnc (List.replicate 4 SP, t0)).length rest = icTextNodes 0 its := by
    rw [h0]; simp [icTextNodes]
  have hflag : icFlag false rest = false := by
    have h1 : icFlag false its = icFlag false rest := by
      rw [h0]; show icFlag (isBlankLine (t0 ++ [LF])) rest = _; rw [isBlankLine_t_LF, hnb0]
    rw [← h1, hl, icFlag_snoc]; show isBlankLine (tl ++ [LF]) = false; rw [isBlankLine_t_LF, hnbl]
  rw [hnodes, hflag] at r2
  rw [← hdl] at e2
  -- the end of input
  have hsn := icTextNodes_snoc init wl tl
  rw [← hl] at hsn
  rw [hsn] at r2
  have hdocl : icBody its = icBody init ++ icEnc (wl, tl) := by
    rw [hl, icBody_append]; simp [icBody]
  have hslice : Node.slice (icBody its) (mkInline IK.text (((icBody init).length + wl.length : Nat) : Int)
      (((icBody init).length + wl.length + (tl.length + 1) : Nat) : Int)) = tl ++ [LF] := by
    rw [slice_span, hdocl, ← List.drop_drop, List.drop_left' rfl]
    show ((wl ++ (tl ++ [LF])).drop wl.length).take (tl.length + 1) = _
    rw [List.drop_left' rfl, List.take_of_length_le (by simp)]
  have e3 := parseLines_ic_eof x g lp2 (icTextNodes 0 init) _ (icBody its) r2 p2 hnul rfl
    (by rw [hslice, isBlankLine_t_LF, hnbl]; rfl)
  rw [← hsn] at e3
  rw [e1, e2, e3] at e0
  exact drain_two (blocksLP x) f _ _ _ _ _ e0 (nextBlock_done _ _ _)
