import CM.Proofs.RefDefSpansDef
/-
C03, block half — discharging the `RefDefCoverOK` hypothesis: definitions.

The coverage statement about `onCloseParagraph` needs two more facts about the inline children of a paragraph than the
span statement of C02 (`RDS.NodeOK`):
  * an Indent node (a partially consumed tab) sits on a TAB byte (so skipping it loses no byte that must be covered);
  * a text node ends at the end of the source, or with a line ending (so a node that is followed by another node ends
    with a line ending: a backslash, `<` or quote is never the last byte of a node that has a successor).
`NodeOK2 = RDS.NodeOK ∧ NodeX`; `GoodT2` is `RDS.GoodT` with `NodeOK2` in the place of `NodeOK`.
-/
namespace CM.Proofs.RDC
open CM CM.Model CM.Gen CM.Proofs.BSp CM.Proofs.RDS

/-- A line-ending byte. -/
def isEolB (c : UInt8) : Bool := c == LF || c == CR

/-- The two extra facts about an inline child of a paragraph. -/
def NodeX (src : Bytes) (t : Tree) : Prop :=
  (isIndent t = true → src.getD t.label.start.toNat 0 = TAB) ∧
  (isIndent t = false → t.label.stop = (src.length : Int) ∨ isEolB (src.getD (t.label.stop.toNat - 1) 0) = true)

/-- An inline child of a paragraph: `RDS.NodeOK` and `NodeX`. -/
def NodeOK2 (src : Bytes) (t : Tree) : Prop := NodeOK src t ∧ NodeX src t

/-- The inline children of a paragraph: lines (in the strong sense) that end at or before `bd`, or a first byte other than `[`. -/
def ParaGood2 (src : Bytes) (bd : Int) (is : List Tree) : Prop :=
  (∀ t ∈ is, NodeOK2 src t ∧ t.label.stop ≤ bd) ∨ NoBracket src is

/-- The rule at one block. -/
def BlockOK2 (src : Bytes) (bd : Int) (b : PB) : Prop :=
  (b.kind = BK.paragraph → ParaGood2 src bd b.inlines) ∧ (b.label.stop < 0 → b.kind ≠ BK.setextHeading)

mutual
/-- Every block of the tree satisfies `BlockOK2 src bd`. -/
def GoodT2 (src : Bytes) (bd : Int) : PB → Prop
  | .mk l bs is => BlockOK2 src bd (.mk l bs is) ∧ GoodL2 src bd bs
def GoodL2 (src : Bytes) (bd : Int) : List PB → Prop
  | [] => True
  | b :: rest => GoodT2 src bd b ∧ GoodL2 src bd rest
end

theorem GoodL2_iff (src : Bytes) (bd : Int) (bs : List PB) : GoodL2 src bd bs ↔ ∀ b ∈ bs, GoodT2 src bd b := by
  induction bs with
  | nil => simp [GoodL2]
  | cons b rest ih => simp [GoodL2, ih]

theorem GoodT2_mk (src : Bytes) (bd : Int) (l : PLabel) (bs : List PB) (is : List Tree) :
    GoodT2 src bd (.mk l bs is) ↔ BlockOK2 src bd (.mk l bs is) ∧ ∀ b ∈ bs, GoodT2 src bd b := by
  rw [GoodT2, GoodL2_iff]

theorem ParaGood2.toGood {src : Bytes} {bd : Int} {is : List Tree} (h : ParaGood2 src bd is) : ParaGood src bd is := by
  rcases h with h | h
  · exact Or.inl (fun t ht => ⟨(h t ht).1.1, (h t ht).2⟩)
  · exact Or.inr h

theorem BlockOK2.toGood {src : Bytes} {bd : Int} {b : PB} (h : BlockOK2 src bd b) : BlockOK src bd b :=
  ⟨fun hk => (h.1 hk).toGood, h.2⟩

/-- Induction over `PB` (a nested inductive type). -/
theorem PB.ind {P : PB → Prop} (h : ∀ l bs is, (∀ c ∈ bs, P c) → P (.mk l bs is)) : ∀ b, P b
  | .mk l bs is => h l bs is (fun c _ => PB.ind h c)
termination_by b => sizeOf b
decreasing_by
  rename_i hc
  have := List.sizeOf_lt_of_mem hc
  simp_wf
  omega

/-- The strong invariant implies the invariant of C02. -/
theorem GoodT2.toGood {src : Bytes} {bd : Int} : ∀ b : PB, GoodT2 src bd b → GoodT src bd b := by
  apply PB.ind
  intro l bs is ih h
  rw [GoodT2_mk] at h
  rw [GoodT_mk]
  exact ⟨h.1.toGood, fun b hb => ih b hb (h.2 b hb)⟩

end CM.Proofs.RDC
