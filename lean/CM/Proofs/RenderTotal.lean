import CM.Proofs.RenderTotalDef
import CM.Props.C10
/-
C04 for the renderer: on a tree satisfying `Spec.renderPre` (every span inside the source; an autolink has
its one text child) the panic-aware renderer `appendBlockP` (RenderTotalDef) does not panic and returns
exactly what the total model `appendBlock` returns.
-/
namespace CM.Proofs.RenderTotal
open CM CM.Model CM.Model.RenderP CM.Spec CM.Gen Node

/-- What the renderer needs of one node in order not to panic: its span lies inside the source, and an
    autolink has a first child. (Weaker than `Spec.renderPreAt`, which also fixes the shape of character
    references, the kind of the autolink's child and the children of a link reference definition — none of
    which can make the renderer panic.) -/
def renderSafeAt (src : Bytes) (t : Tree) : Bool :=
  Spec.spanValid src.length t && (!T.isI t IK.autolink || !t.children.isEmpty)

def renderSafe (src : Bytes) (root : Tree) : Bool := (T.nodes root).all (renderSafeAt src)

theorem renderSafeAt_of_renderPreAt (src : Bytes) (t : Tree) (h : renderPreAt src t = true) : renderSafeAt src t = true := by
  simp only [renderPreAt, Bool.and_eq_true] at h
  simp only [renderSafeAt, Bool.and_eq_true, h.1, true_and]
  by_cases ha : T.isI t IK.autolink = true
  · have hc : T.isI t IK.charRef = false := by
      simp only [T.isI, Bool.and_eq_true, beq_iff_eq] at ha
      simp [T.isI, ha.2, IK.autolink, IK.charRef]
    have h2 := h.2
    simp only [hc, ha, Bool.false_eq_true, if_false, if_true] at h2
    cases hcs : t.children with
    | nil => simp [hcs] at h2
    | cons c cs => simp
  · simp [ha]

theorem renderSafe_of_renderPre (src : Bytes) (root : Tree) (h : renderPre src root = true) : renderSafe src root = true := by
  simp only [renderPre, renderSafe, List.all_eq_true] at h ⊢
  exact fun t ht => renderSafeAt_of_renderPreAt src t (h t ht)

/-- Every node of the subtree meets `renderSafeAt`. -/
def RPre (src : Bytes) (t : Tree) : Prop := (T.nodes t).all (renderSafeAt src) = true

theorem RPre_node {src : Bytes} {l : Label} {cs : List Tree} (h : RPre src (.node l cs)) :
    renderSafeAt src (.node l cs) = true ∧ ∀ c ∈ cs, RPre src c := by
  unfold RPre at h
  simp only [T.nodes, List.all_cons, Bool.and_eq_true] at h
  refine ⟨h.1, ?_⟩
  have h2 := h.2
  clear h
  induction cs with
  | nil => intro c hc; cases hc
  | cons d ds ih =>
    simp only [T.nodesL, List.all_append, Bool.and_eq_true] at h2
    intro c hc
    rcases List.mem_cons.mp hc with rfl | hc
    · exact h2.1
    · exact ih h2.2 c hc

theorem RPre_children {src : Bytes} {t : Tree} (h : RPre src t) : ∀ c ∈ t.children, RPre src c := by
  cases t with
  | node l cs => exact (RPre_node h).2

theorem RPre_valid {src : Bytes} {t : Tree} (h : RPre src t) : Spec.spanValid src.length t = true := by
  cases t with
  | node l cs =>
    have := (RPre_node h).1
    simp only [renderSafeAt, Bool.and_eq_true] at this
    exact this.1

theorem emap_ok {α β : Type} (f : α → β) (a : α) : Except.map f (.ok a : Except String α) = .ok (f a) := rfl
theorem ebind_ok {α β : Type} (a : α) (f : α → Except String β) : Except.bind (.ok a) f = f a := rfl

theorem ite_ok {α : Type} (c : Prop) [Decidable c] (a b : α) :
    (if c then (.ok a : Except String α) else .ok b) = .ok (if c then a else b) := by split <;> rfl

theorem sliceP_ok {src : Bytes} {t : Tree} (h : RPre src t) : sliceP src t = .ok (slice src t) := by
  simp [sliceP, RPre_valid h]

theorem mapM_ok {α β : Type} (f : α → Except String β) (g : α → β) (l : List α) (h : ∀ a ∈ l, f a = .ok (g a)) :
    l.mapM f = .ok (l.map g) := by
  induction l with
  | nil => rfl
  | cons a as ih =>
    have h1 := h a List.mem_cons_self
    have h2 := ih (fun b hb => h b (List.mem_cons_of_mem _ hb))
    simp only [List.mapM_cons, h1, h2, List.map_cons]
    rfl

theorem textP_ok (ext : Ext) {src : Bytes} {t : Tree} (h : RPre src t) : textP ext src t = .ok (text ext src t) := by
  have hs := sliceP_ok h
  have hkids : (t.children.mapM fun c =>
      if isI c IK.text then sliceP src c
      else if isI c IK.charRef then (sliceP src c).map ext.unescape
      else (.ok [] : Except String Bytes)) =
      .ok (t.children.map fun c =>
        if isI c IK.text then slice src c
        else if isI c IK.charRef then ext.unescape (slice src c)
        else []) := by
    apply mapM_ok
    intro c hc
    have := sliceP_ok (RPre_children h c hc)
    split
    · exact this
    · split
      · rw [this]; rfl
      · rfl
  unfold textP text
  simp only [hs, hkids, emap_ok, List.flatMap]
  repeat' split
  all_goals rfl

theorem listItemNumberP_ok {src : Bytes} (t : Option Tree) (h : ∀ u, t = some u → RPre src u) :
    listItemNumberP src t = .ok (listItemNumber src t) := by
  cases t with
  | none => rfl
  | some u =>
    have hu := h u rfl
    unfold listItemNumberP listItemNumber
    simp only
    split
    · rfl
    · cases hm : u.children.head? with
      | none => rfl
      | some m =>
        have hmem : m ∈ u.children := List.mem_of_head? hm
        have := sliceP_ok (RPre_children hu m hmem)
        simp only [this, emap_ok]
        split <;> rfl

mutual
theorem altPiecesP_ok (cx : RCtx) (t : Tree) (h : RPre cx.src t) : altPiecesP cx t = .ok (altPieces cx t) := by
  match t with
  | .node l cs =>
    have hk := altPiecesLP_ok cx cs (RPre_node h).2
    have ht := textP_ok cx.ext h
    simp only [altPiecesP, altPieces, hk, ht, emap_ok]
    repeat' split
    all_goals rfl
theorem altPiecesLP_ok (cx : RCtx) (cs : List Tree) (h : ∀ c ∈ cs, RPre cx.src c) :
    altPiecesLP cx cs = .ok (altPiecesL cx cs) := by
  match cs with
  | [] => rfl
  | c :: cs =>
    have h1 := altPiecesP_ok cx c (h c List.mem_cons_self)
    have h2 := altPiecesLP_ok cx cs (fun d hd => h d (List.mem_cons_of_mem _ hd))
    simp only [altPiecesLP, altPiecesL, h1, h2, ebind_ok, emap_ok]
end

theorem altTextP_ok (cx : RCtx) (t : Tree) (h : RPre cx.src t) : altTextP cx t = .ok (altText cx t) := by
  simp only [altTextP, altText, altPiecesP_ok cx t h, emap_ok]

theorem mem_of_find?_lastTwo {cs : List Tree} {p : Tree → Bool} {d : Tree} (h : (lastTwo cs).find? p = some d) : d ∈ cs := by
  have := List.mem_of_find?_eq_some h
  unfold lastTwo at this
  exact List.mem_reverse.mp (List.mem_of_mem_take this)

theorem linkDestination_mem {t d : Tree} (h : linkDestination t = some d) : d ∈ t.children := by
  unfold linkDestination at h
  split at h
  · exact mem_of_find?_lastTwo h
  · cases h

theorem linkTitle_mem {t d : Tree} (h : linkTitle t = some d) : d ∈ t.children := by
  unfold linkTitle at h
  split at h
  · exact mem_of_find?_lastTwo h
  · cases h

theorem linkDefP_ok (cx : RCtx) (t : Tree) (h : RPre cx.src t) : linkDefP cx t = .ok (linkDef cx t) := by
  unfold linkDefP linkDef
  simp only
  split
  · rfl
  · cases hld : linkDestination t with
    | none =>
      cases hlt : linkTitle t with
      | none => rfl
      | some tt =>
        simp only [textP_ok cx.ext (RPre_children h tt (linkTitle_mem hlt)), emap_ok, ebind_ok]
    | some d =>
      have hd := textP_ok cx.ext (RPre_children h d (linkDestination_mem hld))
      cases hlt : linkTitle t with
      | none => simp only [hd, emap_ok, ebind_ok]
      | some tt =>
        simp only [hd, textP_ok cx.ext (RPre_children h tt (linkTitle_mem hlt)), emap_ok, ebind_ok]

theorem infoString_mem {t c : Tree} (h : infoString t = some c) : c ∈ t.children := by
  unfold infoString at h
  split at h
  · cases h
  · cases hh : t.children.head? with
    | none => simp [hh] at h
    | some d =>
      simp only [hh] at h
      split at h
      · cases h; exact List.mem_of_head? hh
      · cases h

theorem preBlockP_ok (cx : RCtx) (cur : Cursor) (h : RPre cx.src cur.node) :
    preBlockP cx cur = .ok (preBlock cx cur) := by
  have hnum := listItemNumberP_ok (src := cx.src) (cur.node.children.head?.filter (·.label.isBlock)) (by
    intro u hu
    cases hh : cur.node.children.head? with
    | none => simp [hh] at hu
    | some d =>
      simp only [hh, Option.filter] at hu
      split at hu
      · cases hu; exact RPre_children h _ (List.mem_of_head? hh)
      · cases hu)
  unfold preBlockP preBlock
  simp only [hnum, emap_ok]
  cases hi : infoString cur.node with
  | none =>
    simp only [emap_ok]
    repeat' split
    all_goals rfl
  | some info =>
    simp only [textP_ok cx.ext (RPre_children h info (infoString_mem hi)), emap_ok]
    repeat' split
    all_goals rfl

/-- What the autolink case needs beyond valid spans: a first child. -/
theorem autolink_child {src : Bytes} {t : Tree} (h : RPre src t) (hb : t.label.isBlock = false)
    (hk : t.label.kind = IK.autolink) : ∃ c, t.children.head? = some c := by
  cases t with
  | node l cs =>
    have := (RPre_node h).1
    simp only [Tree.label] at hb hk
    simp only [renderSafeAt, T.isI, Tree.label, hb, hk, Bool.not_false, Bool.true_and, beq_self_eq_true,
      Bool.not_true, Bool.false_or, Bool.and_eq_true, Tree.children] at this
    cases cs with
    | nil => simp at this
    | cons c cs' => exact ⟨c, rfl⟩

theorem preInlineP_ok (cx : RCtx) (t : Tree) (hb : t.label.isBlock = false) (h : RPre cx.src t) :
    preInlineP cx t = .ok (preInline cx t) := by
  have hs := sliceP_ok h
  have hl := linkDefP_ok cx t h
  have ha := altTextP_ok cx t h
  by_cases hk : t.label.kind = IK.autolink
  · obtain ⟨c, hc⟩ := autolink_child h hb hk
    have htx := textP_ok cx.ext (RPre_children h c (List.mem_of_head? hc))
    unfold preInlineP preInline
    cases hf : cx.filter <;> simp only [hs, hl, ha, hc, htx, emap_ok, ebind_ok, ite_ok]
  · unfold preInlineP preInline
    have hk' : (t.label.kind == IK.autolink) = false := by simpa using hk
    cases hf : cx.filter <;>
      simp only [hs, hl, ha, hk', emap_ok, ebind_ok, ite_ok, Bool.false_eq_true, if_false]

/-! ### the walk -/

theorem callPre_renderP (cx : RCtx) (cur : Cursor) (dst : Bytes) (h : RPre cx.src cur.node) :
    callPre (renderOptsP cx) cur (.ok dst) = ((openBytes cx cur).2, .ok (dst ++ (openBytes cx cur).1)) := by
  simp only [callPre, renderOptsP, openBytes]
  by_cases hb : cur.node.label.isBlock = true
  · simp only [hb, if_true, preBlockP_ok cx cur h]
  · have hb' : cur.node.label.isBlock = false := by simpa using hb
    simp only [hb', Bool.false_eq_true, if_false, preInlineP_ok cx cur.node hb' h]

theorem callPost_renderP (cx : RCtx) (cur : Cursor) (dst : Bytes) :
    callPost (renderOptsP cx) cur (.ok dst) = (true, .ok (dst ++ closeBytes cx cur)) := by
  simp [callPost, renderOptsP, closeBytes]

mutual
theorem walkNode_renderP (cx : RCtx) (t : Tree) (p b : Option Tree) (i : Int) (dst : Bytes) (h : RPre cx.src t) :
    walkNode (renderOptsP cx) t p b i (.ok dst) = (true, .ok (dst ++ renderNode cx t p b i)) := by
  match t with
  | .node l cs =>
    have hpre := callPre_renderP cx { node := .node l cs, parent := p, block := b, index := i } dst h
    simp only [walkNode, renderNode, hpre]
    cases ho : (openBytes cx { node := .node l cs, parent := p, block := b, index := i }).2 with
    | false => simp
    | true =>
      simp only
      rw [walkForest_renderP cx _ _ cs 0 _ (RPre_node h).2]
      simp [callPost_renderP, List.append_assoc]
theorem walkForest_renderP (cx : RCtx) (parent : Tree) (b : Option Tree) (cs : List Tree) (i : Nat) (dst : Bytes)
    (h : ∀ c ∈ cs, RPre cx.src c) :
    walkForest (renderOptsP cx) parent b cs i (.ok dst) = (true, .ok (dst ++ renderForest cx parent b cs i)) := by
  match cs with
  | [] => simp [walkForest, renderForest]
  | c :: cs =>
    simp only [walkForest, renderForest]
    rw [walkNode_renderP cx c _ _ _ _ (h c List.mem_cons_self)]
    simp only
    rw [walkForest_renderP cx parent b cs (i + 1) _ (fun d hd => h d (List.mem_cons_of_mem _ hd))]
    simp [List.append_assoc]
end

/-- C04 (renderer), sharpest form: if every span lies inside the source and every autolink has a child,
    `AppendBlock` does not panic and the panic-aware renderer returns what the total model returns. -/
theorem render_total_safe (cx : RCtx) (root : Tree) (dst : Bytes) (h : renderSafe cx.src root = true) :
    appendBlockP cx dst root = .ok (appendBlock cx dst root) := by
  have hr : RPre cx.src root := h
  rw [Props.C10.render_eq_spec]
  simp only [appendBlockP, Props.C18.walk_refines_spec, walkSpec, walkNode_renderP cx root none none (-1) dst hr,
    renderSpec]

/-- C04 (renderer): on a tree meeting `Spec.renderPre` — every span satisfies `0 ≤ start ≤ stop ≤ |src|`,
    an autolink has exactly one (text) child — `AppendBlock` does not panic, and the panic-aware renderer
    returns what the total model returns. Every configuration (soft-break behaviour, IgnoreRaw, any
    FilterTag predicate, any reference map, any entity decoder), every `dst`. -/
theorem render_total (cx : RCtx) (root : Tree) (dst : Bytes) (h : renderPre cx.src root = true) :
    appendBlockP cx dst root = .ok (appendBlock cx dst root) :=
  render_total_safe cx root dst (renderSafe_of_renderPre cx.src root h)

/-- The page: `Render` does not panic when every block meets `renderPre` for its own source. -/
theorem renderAll_total (mk : Bytes → RCtx) (blocks : List (Bytes × Tree))
    (h : ∀ b ∈ blocks, renderPre (mk b.1).src b.2 = true) (i : Nat) :
    renderAllP mk blocks i = .ok (renderAll mk blocks i) := by
  induction blocks generalizing i with
  | nil => rfl
  | cons b bs ih =>
    obtain ⟨src, t⟩ := b
    have h1 := render_total (mk src) t (if i > 0 then [LF, LF] else []) (h (src, t) List.mem_cons_self)
    have h2 := ih (fun c hc => h c (List.mem_cons_of_mem _ hc)) (i + 1)
    simp only [renderAllP, renderAll, h1, h2, ebind_ok, emap_ok]

/-! ### non-vacuity, and the panics -/

namespace RenderTotalEx
def src : Bytes := str "1. [a](b \"t\") <http://x> ![i](j)\n"
/-- An ordered list with one item whose paragraph holds a link with destination and title, an autolink and
    an image: every slicing site of the renderer is exercised. -/
def doc : Tree :=
  .node { kind := BK.list, start := 0, stop := 33, char := 0x2E }
    [.node { kind := BK.listItem, start := 0, stop := 33, char := 0x2E }
      [.node { kind := BK.listMarker, start := 0, stop := 2 } [],
       .node { kind := BK.paragraph, start := 3, stop := 33 }
        [.node { isBlock := false, kind := IK.link, start := 3, stop := 13 }
          [.node { isBlock := false, kind := IK.text, start := 4, stop := 5 } [],
           .node { isBlock := false, kind := IK.linkDest, start := 7, stop := 8 }
             [.node { isBlock := false, kind := IK.text, start := 7, stop := 8 } []],
           .node { isBlock := false, kind := IK.linkTitle, start := 9, stop := 12 }
             [.node { isBlock := false, kind := IK.text, start := 10, stop := 11 } []]],
         .node { isBlock := false, kind := IK.text, start := 13, stop := 14 } [],
         .node { isBlock := false, kind := IK.autolink, start := 14, stop := 24 }
          [.node { isBlock := false, kind := IK.text, start := 15, stop := 23 } []],
         .node { isBlock := false, kind := IK.text, start := 24, stop := 25 } [],
         .node { isBlock := false, kind := IK.image, start := 25, stop := 32 }
          [.node { isBlock := false, kind := IK.text, start := 27, stop := 28 } [],
           .node { isBlock := false, kind := IK.linkDest, start := 30, stop := 31 }
             [.node { isBlock := false, kind := IK.text, start := 30, stop := 31 } []]]]]]
def cx : RCtx := { ext := { unescape := id }, src := src }
/-- a text node reaching one byte past the source -/
def badSpan : Tree :=
  .node { kind := BK.paragraph, start := 0, stop := 33 } [.node { isBlock := false, kind := IK.text, start := 30, stop := 34 } []]
/-- an autolink without its child -/
def badAutolink : Tree :=
  .node { kind := BK.paragraph, start := 0, stop := 33 } [.node { isBlock := false, kind := IK.autolink, start := 14, stop := 24 } []]
/-- an image whose description holds a text node with a negative start -/
def badAlt : Tree :=
  .node { kind := BK.paragraph, start := 0, stop := 33 }
    [.node { isBlock := false, kind := IK.image, start := 25, stop := 32 }
      [.node { isBlock := false, kind := IK.text, start := -1, stop := 30 } []]]
end RenderTotalEx
open RenderTotalEx

def isPanic (r : Except String Bytes) (msg : String) : Bool :=
  match r with
  | .error e => e == msg
  | .ok _ => false

-- The precondition holds of a tree that exercises every slicing site, and the output is the expected one.
example : renderPre cx.src doc = true := by decide +kernel
example : (appendBlock cx [] doc ==
    str "<ol><li><a href=\"b\" title=\"t\">a</a> <a href=\"http://x\">http://x</a> <img src=\"j\" alt=\"i\"></li></ol>") = true := by
  rw [Props.C10.render_eq_spec]; decide +kernel

-- Outside the precondition the panic-aware renderer does panic where the total model silently clamps:
-- a span past the end of the source (`preInline`, Text) …
example : renderSafe cx.src badSpan = false ∧ isPanic (appendBlockP cx [] badSpan) panicSlice = true
    ∧ (appendBlock cx [] badSpan == str "<p>j)\n</p>") = true := by
  simp only [appendBlockP, Props.C18.walk_refines_spec, Props.C10.render_eq_spec]; decide +kernel
-- … an autolink without a child (`inline.children[0]`) …
example : renderSafe cx.src badAutolink = false ∧ isPanic (appendBlockP cx [] badAutolink) panicIndex = true := by
  simp only [appendBlockP, Props.C18.walk_refines_spec]; decide +kernel
-- … and a negative start deep inside an image description (`appendAltText` → `Text`).
example : renderSafe cx.src badAlt = false ∧ isPanic (appendBlockP cx [] badAlt) panicSlice = true := by
  simp only [appendBlockP, Props.C18.walk_refines_spec]; decide +kernel

end CM.Proofs.RenderTotal
