import CM.Proofs.ParseWholeRender
import CM.Proofs.RefDefCoverMain
import CM.Proofs.CoverageBlocks
/-
Whole-`Parse` theorems, part 12: **the proviso of `ParseWholeSafe` / `ParseWholeRender` is discharged.**

`RDC.drain_cover_uncond` gives, for every root `r` the block phase of `Parse` delivers, `RootSpansOK r` (C02) and
`WF QT r.block` (C03: the span discipline BELOW the inline children of blocks: children inside their parents).  With
`Cov.pb_nodes_ok`: every node of `pbToTree r.block` — at any depth, so also a CharacterReference node below the
LinkDestination / LinkTitle of a link reference definition — has `0 ≤ start ≤ stop ≤ |r.source|`
(`blockphase_spanValid`).  Hence, with no hypothesis:

* `blockphase_safePre` (= `blockphase_safePre_target`): `safePre r.source (pbToTree r.block) = true`;
* `parse_safePre` (= `parse_safePre_target`): `safePre pr.root.source t' = true` for every parsed root with
  `pr.tree = .ok t'` — C07's parser contract;
* `parse_render_wellformed` (= `parse_render_wellformed_target`), `parse_render_wellformed_gfm`: the rendered bytes of
  a parsed root are in the HTML language of C07, for every configuration with raw HTML ignored and no filter
  (resp. `FilterTagGFM`).
-/
namespace CM.Proofs.PW
open CM CM.Model CM.Gen CM.Spec
open CM.Proofs.BT CM.Proofs.BG CM.Proofs.RK CM.Proofs.InlH

/-- **Every node of every block-phase tree of `Parse` has a valid span inside the root's source** (C02's per-node
    clause, at every depth). -/
theorem blockphase_spanValid (x : PExt) (fuel : Nat) (inp : Bytes) :
    ∀ r ∈ (drain (blocksLP x) fuel (memParser inp) []).1, ∀ u ∈ T.nodes (pbToTree r.block),
      0 ≤ u.label.start ∧ u.label.start ≤ u.label.stop ∧ u.label.stop ≤ (r.source.length : Int) := by
  intro r hr u hu
  obtain ⟨hsp, hwf, _⟩ := RDC.drain_cover_uncond x inp fuel r hr
  have hclosed : 0 ≤ r.block.label.stop := by rw [hsp.2]; exact Int.natCast_nonneg _
  have h := Cov.pb_nodes_ok r.source.length r.block 0 r.source.length hsp.1 (Int.le_refl _) (Int.le_refl _) hclosed hwf
  rw [List.all_eq_true] at h
  have hu' := h u hu
  simp only [Cov.nodeOK, spanValid, Bool.and_eq_true, T.start, T.stop] at hu'
  exact ⟨of_decide_eq_true hu'.1.1.1.1, of_decide_eq_true hu'.1.1.1.2, of_decide_eq_true hu'.1.1.2⟩

theorem blockphase_charRefSpansIn (x : PExt) (fuel : Nat) (inp : Bytes) :
    ∀ r ∈ (drain (blocksLP x) fuel (memParser inp) []).1, charRefSpansIn r.source (pbToTree r.block) = true := by
  intro r hr
  unfold charRefSpansIn
  rw [List.all_eq_true]
  intro u hu
  obtain ⟨h1, h2, h3⟩ := blockphase_spanValid x fuel inp r hr u hu
  simp only [Bool.or_eq_true, Bool.not_eq_true', Bool.and_eq_true, decide_eq_true_eq]
  right
  exact ⟨⟨h1, by omega⟩, h3⟩

/-- **2. `safePre` of every block-phase tree of `Parse`**: a CharacterReference node spans `&…;` in the root's source,
    a SoftLineBreak node spans no byte. -/
theorem blockphase_safePre (x : PExt) (fuel : Nat) (inp : Bytes) :
    ∀ r ∈ (drain (blocksLP x) fuel (memParser inp) []).1, safePre r.source (pbToTree r.block) = true :=
  fun r hr => blockphase_safePre_of_spans x fuel inp r hr (blockphase_charRefSpansIn x fuel inp r hr)

theorem blockphase_safePre_target_holds : blockphase_safePre_target := blockphase_safePre

/-- **4(c). C07's parser contract**: the tree of every parsed root on which the inline phase completed satisfies
    `safePre`. -/
theorem parse_safePre (x : PExt) (ix : IExt) (inp : Bytes) :
    ∀ pr ∈ (parseDoc x ix inp).roots, ∀ t', pr.tree = .ok t' → safePre pr.root.source t' = true :=
  (parse_targets_of_blockphase blockphase_safePre).1 x ix inp

theorem parse_safePre_final (x : PExt) (ix : IExt) (inp : Bytes) :
    ∀ pr ∈ (parseDoc x ix inp).roots, treeOk pr = true → safePre pr.root.source (finalTree pr) = true :=
  fun pr hpr hok => parse_safePre x ix inp pr hpr _ (tree_of_treeOk hok)

/-- **C07 for parser output**: rendering the tree of a parsed root with no tag filter and raw HTML ignored gives bytes
    in the HTML language of C07 (`htmlWellFormed`) — for every external `ext`, soft-break behaviour and reference
    resolver of the configuration. -/
theorem parse_render_wellformed (x : PExt) (ix : IExt) (inp : Bytes) :
    ∀ pr ∈ (parseDoc x ix inp).roots, ∀ t', pr.tree = .ok t' →
      ∀ cx : RCtx, cx.src = pr.root.source → cx.filter = none → cx.ignoreRaw = true →
        htmlWellFormed (appendBlock cx [] t') = true :=
  (parse_targets_of_blockphase blockphase_safePre).2 x ix inp

/-- … and with `FilterTagGFM`. -/
theorem parse_render_wellformed_gfm (x : PExt) (ix : IExt) (inp : Bytes) :
    ∀ pr ∈ (parseDoc x ix inp).roots, ∀ t', pr.tree = .ok t' →
      ∀ cx : RCtx, cx.src = pr.root.source → cx.filter = some filterTagGFM → cx.ignoreRaw = true →
        htmlWellFormed (appendBlock cx [] t') = true := by
  intro pr hpr t' ht cx hsrc hf hraw
  exact CM.Props.C07.render_htmlWellFormed_gfm cx hf t'
    (by rw [hsrc]; exact parse_safePre x ix inp pr hpr t' ht) (Or.inl hraw)

/-- Any configuration (raw HTML ignored): the output is accepted under the configuration's filter (`AcceptUnder`). -/
theorem parse_render_accepted (x : PExt) (ix : IExt) (inp : Bytes) :
    ∀ pr ∈ (parseDoc x ix inp).roots, ∀ t', pr.tree = .ok t' →
      ∀ cx : RCtx, cx.src = pr.root.source → cx.ignoreRaw = true → RenderWF.AcceptUnder cx.filter (appendBlock cx [] t') := by
  intro pr hpr t' ht cx hsrc hraw
  exact CM.Props.C07.render_accepted cx t' (by rw [hsrc]; exact parse_safePre x ix inp pr hpr t' ht) (Or.inl hraw)

/-! ### Non-vacuity -/

section Examples

/-- Definitions with character references in the destination and in a two-line title, the second one delivered after the
    first was cut off (re-based), then a paragraph. -/
def pwDefDoc : Bytes := Bytes.ofString "[a]: /u&#65;x 'T&#66;\nz'\n[b]: <&#67;>\n\nrest &#68; [a]\n"

example : (parseDoc exX exIX pwDefDoc).roots.length = 3 := by decide +kernel
example : ∀ pr ∈ (parseDoc exX exIX pwDefDoc).roots, treeOk pr = true := by decide +kernel

example : ∀ pr ∈ (parseDoc exX exIX pwDefDoc).roots, safePre pr.root.source (finalTree pr) = true :=
  fun pr hpr => parse_safePre_final exX exIX pwDefDoc pr hpr (by revert pr; decide +kernel)

example : ∀ pr ∈ (parseDoc exX exIX pwDefDoc).roots,
    htmlWellFormed (appendBlock { ext := exX.ext, src := pr.root.source, ignoreRaw := true } [] (finalTree pr)) = true :=
  fun pr hpr => parse_render_wellformed exX exIX pwDefDoc pr hpr _
    (tree_of_treeOk ((by revert pr; decide +kernel : ∀ pr ∈ (parseDoc exX exIX pwDefDoc).roots, treeOk pr = true) pr hpr))
    _ rfl rfl rfl

end Examples

end CM.Proofs.PW
