import CM.Model.Render
import CM.Spec.TreeWF
/-
C04 for the renderer: a panic-aware variant of the renderer model.

`Model.appendBlock` slices totally (`Node.slice` yields `[]` for a span outside the source) and reads a
missing first child as "no child". The Go code panics there:
  * `spanSlice(source, span)` = `source[span.Start:span.End]` (parse.go) — "slice bounds out of range"
    unless `0 ≤ Start ≤ End ≤ len(source)` (`Spec.spanValid`; Go's bound is `cap(source)`, which is only
    known to be ≥ `len(source)`, so `len` is what a caller can rely on). Reached from html_renderer.go
    `preInline` (Text/Unparsed, CharacterReference, RawHTML unless IgnoreRaw, SoftLineBreak when preserved
    and non-empty), from `(*Inline).Text` (inlines.go: Text, RawHTML, CharacterReference, non-empty
    SoftLineBreak; the Text/CharacterReference children of InfoString/LinkDestination/LinkTitle) — called
    for a code block's info string, a link's/image's destination and title, an autolink's first child and
    every Text/CharacterReference descendant of an image (`appendAltText`) — and from
    `(*Block).ListItemNumber` (blocks.go: the marker of an ordered list's first item).
  * `inline.children[0]` in `preInline`'s AutolinkKind case — "index out of range" when an autolink has no
    child.
Everything else the renderer does is guarded in the Go source: the accessors are nil-safe
(`Kind`, `Span`, `IsTightList`, `IsOrderedList`, `firstChild`, `InfoString`, `LinkDestination`,
`LinkTitle`, `LinkReference` test `nil`/`len` first), `Walk` indexes children below `ChildCount`, a nil
`ReferenceMap` can be read, and the byte-string helpers (`escapeHTML`, `filterRaw`, `parseListMarker`,
`IsEmailAddress`, `NormalizeURI`, `strings.Fields`, `html.EscapeString`, `strconv.AppendInt`) test `len`
before every index; `urlHexDigit`'s explicit `panic` is unreachable (its arguments are `b>>4`, `b&0xf`).
A user-supplied `FilterTag` is a parameter (assumed total).

Each function below is its namesake in CM/Model/Render.lean or CM/Model/Node.lean with `Node.slice` replaced
by `sliceP` and the autolink's `head?` by an index that can fail; nothing else differs. `post*` slice
nothing and are used as they are. The state threaded through `Model.walk` is `Except String Bytes`; once it
is an error every callback returns it unchanged (Go has unwound the stack by then).
-/
namespace CM.Model.RenderP
open CM CM.Gen Node

def panicSlice : String := "runtime error: slice bounds out of range"
def panicIndex : String := "runtime error: index out of range [0] with length 0"

/-- `spanSlice(source, node.Span())`, panicking as Go does. -/
def sliceP (src : Bytes) (t : Tree) : Except String Bytes :=
  if Spec.spanValid src.length t then .ok (slice src t) else .error panicSlice

/-- `(*Inline).Text`. -/
def textP (ext : Ext) (src : Bytes) (t : Tree) : Except String Bytes :=
  if t.label.isBlock then .ok [] else
  let k := t.label.kind
  if k == IK.text || k == IK.rawHTML then sliceP src t
  else if k == IK.charRef then (sliceP src t).map ext.unescape
  else if k == IK.softBreak then (if spanLen t == 0 then .ok [LF] else sliceP src t)
  else if k == IK.hardBreak then .ok [LF]
  else if k == IK.indent then .ok (spaces t.label.indent.toNat)
  else if k == IK.infoString || k == IK.linkDest || k == IK.linkTitle then
    (t.children.mapM fun c =>
      if isI c IK.text then sliceP src c
      else if isI c IK.charRef then (sliceP src c).map ext.unescape
      else .ok [] : Except String (List Bytes)).map List.flatten
  else .ok []

/-- `(*Block).ListItemNumber`. -/
def listItemNumberP (src : Bytes) (t : Option Tree) : Except String Int :=
  match t with
  | none => .ok (-1)
  | some t =>
    if !isOrderedList (some t) || !isB t BK.listItem then .ok (-1) else
    match t.children.head? with
    | none => .ok (-1)
    | some m =>
      if !isB m BK.listMarker then .ok (-1) else
      (sliceP src m).map fun s =>
        let p := parseListMarker s
        if p.stop < 0 then -1 else p.n

mutual
/-- `appendAltText`'s pieces. -/
def altPiecesP (cx : RCtx) : Tree → Except String Bytes
  | .node l cs =>
    if l.isBlock then altPiecesLP cx cs else
    if l.kind == IK.text || l.kind == IK.charRef then (textP cx.ext cx.src (.node l cs)).map escapeString
    else if l.kind == IK.indent || l.kind == IK.softBreak || l.kind == IK.hardBreak then .ok [SP]
    else if l.kind == IK.linkDest || l.kind == IK.linkTitle || l.kind == IK.linkLabel then .ok []
    else altPiecesLP cx cs
def altPiecesLP (cx : RCtx) : List Tree → Except String Bytes
  | [] => .ok []
  | c :: cs => (altPiecesP cx c).bind fun a => (altPiecesLP cx cs).map fun b => a ++ b
end

/-- `appendAltText`. -/
def altTextP (cx : RCtx) (t : Tree) : Except String Bytes :=
  (altPiecesP cx t).map fun a => str " alt=\"" ++ a ++ [0x22]

/-- The `LinkDefinition` a link or image renders with. -/
def linkDefP (cx : RCtx) (t : Tree) : Except String LinkDef :=
  let ref := linkReference t
  if !ref.isEmpty then .ok (cx.refs ref) else
  let title := linkTitle t
  (match linkDestination t with
    | some d => textP cx.ext cx.src d
    | none => .ok [] : Except String Bytes).bind fun dest =>
  (match title with
    | some tt => textP cx.ext cx.src tt
    | none => .ok [] : Except String Bytes).map fun tt =>
  { dest := dest, title := tt, titlePresent := title.isSome }

/-- `preBlock`. -/
def preBlockP (cx : RCtx) (cur : Cursor) : Except String (Bytes × Bool) :=
  let b := cur.node
  let k := b.label.kind
  if k == BK.paragraph then
    .ok (if !parentTight cur.parent then openTag cx (str "p") else [], true)
  else if k == BK.thematicBreak then .ok (openTag cx (str "hr"), false)
  else if k == BK.atxHeading || k == BK.setextHeading then .ok (openTag cx (headingTag (headingLevel b)), true)
  else if k == BK.indentedCode || k == BK.fencedCode then
    (match infoString b with
      | some info =>
        (textP cx.ext cx.src info).map fun s =>
          let w := firstField s
          if w.isEmpty then [] else str " class=\"language-" ++ escapeString w ++ [0x22]
      | none => .ok [] : Except String Bytes).map fun cls =>
    (openTag cx (str "pre") ++ openTagAttr cx (str "code") ++ cls ++ [0x3E], true)
  else if k == BK.blockQuote then .ok (openTag cx (str "blockquote"), true)
  else if k == BK.list then
    if isOrderedList (some b) then
      (listItemNumberP cx.src (b.children.head?.filter (·.label.isBlock))).map fun n =>
      (openTagAttr cx (str "ol")
        ++ (if n ≥ 0 && n != 1 then str " start=\"" ++ decimal n.toNat ++ [0x22] else [])
        ++ [0x3E], true)
    else .ok (openTag cx (str "ul"), true)
  else if k == BK.listItem then .ok (openTag cx (str "li"), true)
  else if k == BK.htmlBlock then .ok ([], !cx.ignoreRaw)
  else .ok ([], false)

/-- `preInline`. -/
def preInlineP (cx : RCtx) (t : Tree) : Except String (Bytes × Bool) :=
  let k := t.label.kind
  if k == IK.text || k == IK.unparsed then (sliceP cx.src t).map fun s => (escapeHTML s, false)
  else if k == IK.charRef then (sliceP cx.src t).map fun s => (s, false)
  else if k == IK.rawHTML then
    (if cx.ignoreRaw then .ok [] else
      match cx.filter with
      | none => sliceP cx.src t
      | some f => (sliceP cx.src t).map (filterRaw f) : Except String Bytes).map fun s => (s, false)
  else if k == IK.softBreak then
    (if cx.soft == 2 then .ok (openTag cx (str "br") ++ [LF])
      else if cx.soft == 1 then .ok [SP]
      else if spanLen t > 0 then sliceP cx.src t else .ok [LF] : Except String Bytes).map fun s => (s, false)
  else if k == IK.hardBreak then .ok (openTag cx (str "br") ++ [LF], false)
  else if k == IK.emphasis then .ok (openTag cx (str "em"), true)
  else if k == IK.strong then .ok (openTag cx (str "strong"), true)
  else if k == IK.codeSpan then .ok (openTag cx (str "code"), true)
  else if k == IK.link then
    (linkDefP cx t).map fun d => (openTagAttr cx (str "a") ++ linkAttrs d "href" ++ [0x3E], true)
  else if k == IK.image then
    (linkDefP cx t).bind fun d => (altTextP cx t).map fun alt =>
      (openTagAttr cx (str "img") ++ linkAttrs d "src" ++ alt ++ [0x3E], false)
  else if k == IK.autolink then
    (match t.children.head? with
      | some c => textP cx.ext cx.src c
      | none => .error panicIndex : Except String Bytes).map fun dest =>
    (openTagAttr cx (str "a") ++ str " href=\"" ++ (if isEmailAddress dest then str "mailto:" else [])
      ++ escapeString (normalizeURI dest) ++ str "\">" ++ escapeString dest ++ closeTag cx (str "a"), false)
  else if k == IK.indent then .ok (spaces t.label.indent.toNat, false)
  else if k == IK.htmlTag then .ok ([], true)
  else .ok ([], false)

/-- The `Pre`/`Post` closures of `AppendBlock` over the state "`dst`, or the panic that ended the call". -/
def renderOptsP (cx : RCtx) : WalkOpts (Except String Bytes) :=
  { pre := some fun cur s =>
      match s with
      | .error e => (false, .error e)
      | .ok dst =>
        match (if cur.node.label.isBlock then preBlockP cx cur else preInlineP cx cur.node) with
        | .ok r => (r.2, .ok (dst ++ r.1))
        | .error e => (false, .error e),
    post := some fun cur s =>
      match s with
      | .error e => (false, .error e)
      | .ok dst =>
        (true, .ok (dst ++ (if cur.node.label.isBlock then postBlock cx cur else postInline cx cur.node))) }

/-- `(*HTMLRenderer).AppendBlock`, returning the panic instead of bytes where Go panics. -/
def appendBlockP (cx : RCtx) (dst : Bytes) (root : Tree) : Except String Bytes :=
  walk root (renderOptsP cx) (.ok dst)

/-- `(*HTMLRenderer).Render` (one `AppendBlock` per block; the first panic ends the call). -/
def renderAllP (mk : Bytes → RCtx) : List (Bytes × Tree) → Nat → Except String Bytes
  | [], _ => .ok []
  | (src, t) :: rest, i =>
    (appendBlockP (mk src) (if i > 0 then [LF, LF] else []) t).bind fun a =>
      (renderAllP mk rest (i + 1)).map fun b => a ++ b

end CM.Model.RenderP
