import CM.Proofs.ShapesShapeAt
import CM.Proofs.Padding
/-
C13, block half — NUL bytes. A root's source is `fillNulls head`: the part `head` of the padded buffer with every padded
NUL (three zero bytes) overwritten by U+FFFD (EF BF BD). Byte for byte, the two differ only where `head` has a zero byte,
and there the source has a byte of U+FFFD (`NR`). No clause of `Spec.shapeAt` for blocks can tell the difference: the
clauses test bytes against `#`, `` ` ``, `~`, `>`, `-`, `+`, `*`, `.`, `)`, `=`, digits and white space only.
-/
namespace CM.Proofs.Shp
open CM CM.Model CM.Gen

/-- A byte of the padded buffer and the byte of the source at the same place. -/
def NB (c d : UInt8) : Prop := (c ≠ 0 ∧ d = c) ∨ (c = 0 ∧ (d = 0xEF ∨ d = 0xBF ∨ d = 0xBD))

/-- The padded buffer and the source, byte for byte. -/
def NR : Bytes → Bytes → Prop
  | [], [] => True
  | c :: a, d :: b => NB c d ∧ NR a b
  | _, _ => False

theorem NR_nil_left {b : Bytes} : NR [] b ↔ b = [] := by
  cases b with
  | nil => simp [NR]
  | cons d b => simp [NR]

theorem NR_cons_left {c : UInt8} {a b : Bytes} : NR (c :: a) b ↔ ∃ d b', b = d :: b' ∧ NB c d ∧ NR a b' := by
  cases b with
  | nil => simp [NR]
  | cons d b =>
    constructor
    · intro h; exact ⟨d, b, rfl, h.1, h.2⟩
    · rintro ⟨d', b', e, h1, h2⟩
      cases e
      exact ⟨h1, h2⟩

theorem NR_pad : ∀ y : Bytes, NR (padNulls y 0) (Spec.replNul y) := by
  intro y
  induction y with
  | nil => simp [Spec.replNul, NR]
  | cons c y ih =>
    by_cases h : c = 0
    · subst h
      rw [padNulls_cons_zero]
      have : Spec.replNul (0 :: y) = 0xEF :: 0xBF :: 0xBD :: Spec.replNul y := by simp [Spec.replNul]
      rw [this]
      exact ⟨Or.inr ⟨rfl, Or.inl rfl⟩, Or.inr ⟨rfl, Or.inr (Or.inl rfl)⟩, Or.inr ⟨rfl, Or.inr (Or.inr rfl)⟩, ih⟩
    · rw [padNulls_cons_ne h]
      have : Spec.replNul (c :: y) = c :: Spec.replNul y := by simp [Spec.replNul, h]
      rw [this]
      exact ⟨Or.inl ⟨h, rfl⟩, ih⟩

theorem NR_length : ∀ {a b : Bytes}, NR a b → a.length = b.length := by
  intro a
  induction a with
  | nil => intro b h; rw [NR_nil_left.mp h]
  | cons c a ih =>
    intro b h
    obtain ⟨d, b', rfl, _, h'⟩ := NR_cons_left.mp h
    simp [ih h']

theorem NR_drop : ∀ (k : Nat) {a b : Bytes}, NR a b → NR (a.drop k) (b.drop k) := by
  intro k
  induction k with
  | zero => intro a b h; exact h
  | succ k ih =>
    intro a b h
    cases a with
    | nil => rw [NR_nil_left.mp h]; simp [NR]
    | cons c a =>
      obtain ⟨d, b', rfl, _, h'⟩ := NR_cons_left.mp h
      exact ih h'

theorem NR_take : ∀ (k : Nat) {a b : Bytes}, NR a b → NR (a.take k) (b.take k) := by
  intro k
  induction k with
  | zero => intro a b _; simp [NR]
  | succ k ih =>
    intro a b h
    cases a with
    | nil => rw [NR_nil_left.mp h]; simp [NR]
    | cons c a =>
      obtain ⟨d, b', rfl, hb, h'⟩ := NR_cons_left.mp h
      exact ⟨hb, ih h'⟩

/-- A test that cannot tell a padded NUL from U+FFFD. -/
def Resp (p : UInt8 → Bool) : Prop := ∀ c d, NB c d → p c = p d

theorem resp_eq (ch : UInt8) (h0 : ch ≠ 0) (h1 : ch ≠ 0xEF) (h2 : ch ≠ 0xBF) (h3 : ch ≠ 0xBD) : Resp (· == ch) := by
  intro c d h
  rcases h with ⟨_, rfl⟩ | ⟨rfl, hd⟩
  · rfl
  · have e0 : ((0 : UInt8) == ch) = false := by simpa using (Ne.symm h0)
    rcases hd with rfl | rfl | rfl
    · have : ((0xEF : UInt8) == ch) = false := by simpa using (Ne.symm h1)
      simp only [e0, this]
    · have : ((0xBF : UInt8) == ch) = false := by simpa using (Ne.symm h2)
      simp only [e0, this]
    · have : ((0xBD : UInt8) == ch) = false := by simpa using (Ne.symm h3)
      simp only [e0, this]

theorem resp_of (p : UInt8 → Bool) (h0 : p 0 = false) (h1 : p 0xEF = false) (h2 : p 0xBF = false) (h3 : p 0xBD = false) : Resp p := by
  intro c d h
  rcases h with ⟨_, rfl⟩ | ⟨rfl, hd⟩
  · rfl
  · rcases hd with rfl | rfl | rfl
    · rw [h0, h1]
    · rw [h0, h2]
    · rw [h0, h3]

theorem resp_ws : Resp Spec.isWs := resp_of _ (by decide) (by decide) (by decide) (by decide)
theorem resp_digit : Resp Spec.isASCIIDigit := by
  rw [← CM.Proofs.genDigit_eq]
  exact resp_of _ (by decide) (by decide) (by decide) (by decide)

theorem NR_takeWhile {p : UInt8 → Bool} (hp : Resp p) : ∀ {a b : Bytes}, NR a b →
    (a.takeWhile p).length = (b.takeWhile p).length := by
  intro a
  induction a with
  | nil => intro b h; rw [NR_nil_left.mp h]
  | cons c a ih =>
    intro b h
    obtain ⟨d, b', rfl, hb, h'⟩ := NR_cons_left.mp h
    rw [List.takeWhile_cons, List.takeWhile_cons, hp c d hb]
    split
    · simp [ih h']
    · rfl

theorem NR_all {p : UInt8 → Bool} (hp : Resp p) : ∀ {a b : Bytes}, NR a b → (∀ x ∈ a, p x = true) → ∀ x ∈ b, p x = true := by
  intro a
  induction a with
  | nil => intro b h _ x hx; rw [NR_nil_left.mp h] at hx; cases hx
  | cons c a ih =>
    intro b h ha x hx
    obtain ⟨d, b', rfl, hb, h'⟩ := NR_cons_left.mp h
    rcases List.mem_cons.mp hx with rfl | hx
    · rw [← hp c x hb]; exact ha c (by simp)
    · exact ih h' (fun y hy => ha y (by simp [hy])) x hx

/-- A text without zero bytes is not changed. -/
theorem NR_eq : ∀ {a b : Bytes}, NR a b → (∀ x ∈ a, x ≠ 0) → b = a := by
  intro a
  induction a with
  | nil => intro b h _; exact NR_nil_left.mp h
  | cons c a ih =>
    intro b h ha
    obtain ⟨d, b', rfl, hb, h'⟩ := NR_cons_left.mp h
    rcases hb with ⟨_, rfl⟩ | ⟨rfl, _⟩
    · rw [ih h' (fun y hy => ha y (by simp [hy]))]
    · exact absurd rfl (ha 0 (by simp))

theorem NR_head {a b : Bytes} {c : UInt8} (h : NR a b) (ha : a.head? = some c) (hc : c ≠ 0) : b.head? = some c := by
  cases a with
  | nil => cases ha
  | cons c' a =>
    simp only [List.head?_cons, Option.some.injEq] at ha
    subst ha
    obtain ⟨d, b', rfl, hb, _⟩ := NR_cons_left.mp h
    rcases hb with ⟨_, rfl⟩ | ⟨rfl, _⟩
    · rfl
    · exact absurd rfl hc

theorem NR_getLast : ∀ {a b : Bytes} {c : UInt8}, NR a b → a.getLast? = some c → c ≠ 0 → b.getLast? = some c := by
  intro a
  induction a with
  | nil => intro b c _ ha; cases ha
  | cons c' a ih =>
    intro b c h ha hc
    obtain ⟨d, b', rfl, hb, h'⟩ := NR_cons_left.mp h
    cases a with
    | nil =>
      rw [NR_nil_left.mp h']
      simp only [List.getLast?_singleton, Option.some.injEq] at ha ⊢
      subst ha
      rcases hb with ⟨_, rfl⟩ | ⟨rfl, _⟩
      · rfl
      · exact absurd rfl hc
    | cons c2 a2 =>
      obtain ⟨d2, b2, rfl, _, _⟩ := NR_cons_left.mp h'
      rw [List.getLast?_cons_cons] at ha ⊢
      exact ih h' ha hc

/-- The text without its trailing white space ends in the same (non-zero) byte. -/
theorem NR_dropRight_last {a b : Bytes} {c : UInt8} (h : NR a b) (ha : (Spec.dropRight Spec.isWs a).getLast? = some c)
    (hc : c ≠ 0) : (Spec.dropRight Spec.isWs b).getLast? = some c := by
  obtain ⟨w, hw, hwall⟩ := dropRight_split Spec.isWs a
  have hnw := dropRight_last Spec.isWs a c ha
  generalize Spec.dropRight Spec.isWs a = body at hw ha
  have h1 : NR body (b.take body.length) := by
    have := NR_take body.length h
    rw [hw, List.take_left] at this
    exact this
  have h2 : NR w (b.drop body.length) := by
    have := NR_drop body.length h
    rw [hw, List.drop_left] at this
    exact this
  have hb : b = b.take body.length ++ b.drop body.length := (List.take_append_drop _ _).symm
  have hlast := NR_getLast h1 ha hc
  rw [hb, dropRight_eq Spec.isWs _ _ (NR_all resp_ws h2 hwall) (fun c' hc' => by
    rw [hlast] at hc'
    simp only [Option.some.injEq] at hc'
    subst hc'
    exact hnw)]
  exact hlast

/-! ### `Spec.shapeAt` -/

theorem NR_slice {src src' : Bytes} (h : NR src src') (t : Tree) : NR (Spec.T.slice src t) (Spec.T.slice src' t) := by
  unfold Spec.T.slice
  split
  · exact NR_take _ (NR_drop _ h)
  · simp [NR]

/-- **No clause of `Spec.shapeAt` for blocks sees the difference between the padded buffer and the source.** -/
theorem shapeAt_NR {src src' : Bytes} (h : NR src src') (t : Tree) (hb : t.label.isBlock = true)
    (hs : Spec.shapeAt src t = true) : Spec.shapeAt src' t = true := by
  have hsl := NR_slice h t
  unfold Spec.shapeAt at hs ⊢
  simp only [hb, if_true] at hs ⊢
  generalize Spec.T.slice src t = s at hs hsl
  generalize Spec.T.slice src' t = s' at hsl ⊢
  split
  · -- ATX heading
    rename_i hk
    rw [if_pos hk] at hs
    rw [← NR_takeWhile (resp_eq 0x23 (by decide) (by decide) (by decide) (by decide)) hsl]
    exact hs
  rename_i hk1
  rw [if_neg hk1] at hs
  split
  · -- setext heading
    rename_i hk
    rw [if_pos hk] at hs
    simp only [beq_iff_eq] at hs ⊢
    apply NR_dropRight_last hsl hs
    split <;> decide
  rename_i hk2
  rw [if_neg hk2] at hs
  split
  · -- fenced code block
    rename_i hk
    rw [if_pos hk] at hs
    simp only [Bool.and_eq_true, Bool.or_eq_true, beq_iff_eq, decide_eq_true_eq] at hs ⊢
    refine ⟨hs.1, ?_⟩
    have hr : Resp (· == t.label.char) := by
      rcases hs.1.1 with hc | hc <;> rw [hc] <;> exact resp_eq _ (by decide) (by decide) (by decide) (by decide)
    rw [← NR_takeWhile hr hsl]
    exact hs.2
  rename_i hk3
  rw [if_neg hk3] at hs
  split
  · -- block quote
    rename_i hk
    rw [if_pos hk] at hs
    simp only [beq_iff_eq] at hs ⊢
    exact NR_head hsl hs (by decide)
  rename_i hk4
  rw [if_neg hk4] at hs
  split
  · -- list marker
    rename_i hk
    rw [if_pos hk] at hs
    simp only [Bool.or_eq_true, beq_iff_eq, Bool.and_eq_true, decide_eq_true_eq] at hs ⊢
    have one : ∀ c : UInt8, c ≠ 0 → s = [c] → s' = [c] := by
      intro c hc he
      exact NR_eq hsl (by rw [he]; intro x hx; simp only [List.mem_singleton] at hx; rw [hx]; exact hc) ▸ he
    rcases hs with ((hs | hs) | hs) | hs
    · exact Or.inl (Or.inl (Or.inl (one _ (by decide) hs)))
    · exact Or.inl (Or.inl (Or.inr (one _ (by decide) hs)))
    · exact Or.inl (Or.inr (one _ (by decide) hs))
    · right
      have hl := NR_takeWhile resp_digit hsl
      rw [← hl]
      refine ⟨hs.1, ?_⟩
      have hd := NR_drop (s.takeWhile Spec.isASCIIDigit).length hsl
      have one' : ∀ c : UInt8, c ≠ 0 → s.drop (s.takeWhile Spec.isASCIIDigit).length = [c] →
          s'.drop (s.takeWhile Spec.isASCIIDigit).length = [c] := by
        intro c hc he
        exact NR_eq hd (by rw [he]; intro x hx; simp only [List.mem_singleton] at hx; rw [hx]; exact hc) ▸ he
      rcases hs.2 with h2 | h2
      · exact Or.inl (one' _ (by decide) h2)
      · exact Or.inr (one' _ (by decide) h2)
  · rfl

end CM.Proofs.Shp
