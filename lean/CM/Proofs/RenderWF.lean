import CM.Proofs.RenderWFToks
import CM.Props.C07
/-
C07 with a tag filter (`FilterTag` set, raw HTML ignored or absent).

`Spec.flat cx` writes a token through `openTagAttr`/`closeTag`, i.e. through the filter: a start tag whose
name the predicate rejects is written `&lt;name attr="v">`, an end tag whose `"/" ++ name` the predicate
rejects is written `&lt;/name>`. So "the output is `flat cx` of good tokens" (the conclusion of
`render_wellformed`) says nothing about the bytes once a filter is set. Here the output is described
by the *plain* writing `flatPlain` (every tag written with `<`) of the *effective* tokens
`ts.map (rejTok p)`: a rejected tag is a text token.

What holds (`render_wellformed_filtered`):
* the effective tokens are in the fixed vocabulary, and every text run is free of `<` and `'` with `&`
  only as the start of one of the renderer's escapes (`tokOKw`); a text run MAY contain `>` and `"`
  (the tail of a rejected tag) — `tokOK` (no `>`/`"` in text) fails, see RenderWFNeg;
* nesting holds when the predicate treats `name` and `"/" ++ name` alike on the renderer's elements
  (`SlashClosed`); it fails otherwise, see RenderWFNeg;
* when the predicate rejects none of the renderer's own names (`FilterTagGFM`), the full-strength conclusion.
-/
namespace CM.Proofs.RenderWF
open CM CM.Model CM.Spec CM.Gen Node

/-! ### plain writing of tokens (independent of the renderer configuration) -/

/-- A token written with no filter: tags start with `<`. -/
def plainTok : Tok → Bytes
  | .stag n attrs => [0x3C] ++ n ++ attrs.flatMap flatAttr ++ [0x3E]
  | .etag n => [0x3C, 0x2F] ++ n ++ [0x3E]
  | .br => [0x3C, 0x62, 0x72, 0x3E, LF]
  | .text b => b
  | .cref b => b
  | .raw b => b

def flatPlain (ts : List Tok) : Bytes := ts.flatMap plainTok

theorem flatPlain_append (a b : List Tok) : flatPlain (a ++ b) = flatPlain a ++ flatPlain b := by
  simp [flatPlain]

theorem str_lt : str "&lt;" = [0x26, 0x6C, 0x74, 0x3B] := by decide +kernel
theorem str_ltsl : str "&lt;/" = [0x26, 0x6C, 0x74, 0x3B, 0x2F] := by decide +kernel
theorem str_sl : str "</" = [0x3C, 0x2F] := by decide +kernel
theorem str_br : str "br" = [0x62, 0x72] := by decide +kernel

/-- With no filter, `flat` is the plain writing. -/
theorem flatTok_plain (cx : RCtx) (hf : cx.filter = none) (t : Tok) : flatTok cx t = plainTok t := by
  cases t <;> simp [flatTok, plainTok, openTag, openTagAttr, closeTag, hf, str_sl, str_br]

theorem flat_plain_eq (cx : RCtx) (hf : cx.filter = none) (ts : List Tok) : flat cx ts = flatPlain ts := by
  have : flatTok cx = plainTok := funext (flatTok_plain cx hf)
  simp [flat, flatPlain, this]

/-! ### effective tokens under a filter -/

/-- What a token becomes under the predicate `p`: a rejected tag is text. -/
def rejTok (p : Bytes → Bool) : Tok → Tok
  | .stag n attrs => if p n then .text (str "&lt;" ++ n ++ attrs.flatMap flatAttr ++ [0x3E]) else .stag n attrs
  | .etag n => if p (0x2F :: n) then .text (str "&lt;/" ++ n ++ [0x3E]) else .etag n
  | .br => if p (str "br") then .text (str "&lt;br>" ++ [LF]) else .br
  | t => t

def effToks : Option (Bytes → Bool) → List Tok → List Tok
  | none, ts => ts
  | some p, ts => ts.map (rejTok p)

theorem flatTok_rej (cx : RCtx) (p : Bytes → Bool) (hf : cx.filter = some p) (t : Tok) :
    flatTok cx t = plainTok (rejTok p t) := by
  have hbr : str "&lt;br>" = str "&lt;" ++ str "br" ++ [0x3E] := by decide +kernel
  cases t with
  | stag n attrs => simp only [flatTok, openTagAttr, hf, rejTok]; split <;> simp [plainTok]
  | etag n => simp only [flatTok, closeTag, hf, rejTok]; split <;> simp [plainTok, str_sl]
  | br => simp only [flatTok, openTag, openTagAttr, hf, rejTok]; split <;> simp [plainTok, hbr, str_br]
  | text b => rfl
  | cref b => rfl
  | raw b => rfl

/-- The bytes `flat` writes under any filter setting are the plain writing of the effective tokens. -/
theorem flat_eff (cx : RCtx) (ts : List Tok) : flat cx ts = flatPlain (effToks cx.filter ts) := by
  cases hf : cx.filter with
  | none => simpa [effToks] using flat_plain_eq cx hf ts
  | some p =>
    have : flatTok cx = fun t => plainTok (rejTok p t) := funext (flatTok_rej cx p hf)
    simp [effToks, flat, flatPlain, List.flatMap_map, this]

/-! ### the weakened token language -/

/-- Text in which a rejected tag may have left `>` and `"`: no `<`, no `'`, `&` only as an escape. -/
def weakData (b : Bytes) : Bool := b.all (fun c => c != 0x3C && c != 0x27) && ampOK b

/-- `tokOK` with `weakData` for text runs. -/
def tokOKw : Tok → Bool
  | .text b => weakData b
  | t => tokOK t

theorem weakData_append (a b : Bytes) (ha : weakData a = true) (hb : weakData b = true) : weakData (a ++ b) = true := by
  simp only [weakData, Bool.and_eq_true, List.all_append] at *
  exact ⟨⟨ha.1, hb.1⟩, ampOK_append a b ha.2 hb.2⟩

theorem weakData_of_safe (b : Bytes) (h : safeData b = true) : weakData b = true := by
  simp only [safeData, markupFree, Bool.and_eq_true, List.all_eq_true] at h
  simp only [weakData, Bool.and_eq_true, List.all_eq_true]
  refine ⟨fun c hc => ?_, h.2⟩
  have := h.1 c hc
  simp only [isMarkupByte, Bool.not_eq_true', Bool.or_eq_false_iff] at this
  simp only [bne_iff_ne, ne_eq]
  exact ⟨by simpa using this.1.1.1, by simpa using this.2⟩

theorem tokOKw_of_tokOK (t : Tok) (h : tokOK t = true) : tokOKw t = true := by
  cases t <;> first | exact h | exact weakData_of_safe _ h

/-- Bytes without `<`, `'`, `&`. -/
def inert (b : Bytes) : Bool := b.all (fun c => c != 0x3C && c != 0x27 && c != 0x26)

theorem weakData_of_inert (b : Bytes) (h : inert b = true) : weakData b = true := by
  induction b with
  | nil => rfl
  | cons c cs ih =>
    simp only [inert, List.all_cons, Bool.and_eq_true] at h
    have := ih (by simpa [inert] using h.2)
    simp only [weakData, List.all_cons, ampOK, Bool.and_eq_true] at this ⊢
    exact ⟨⟨⟨h.1.1.1, h.1.1.2⟩, this.1⟩, by simp [h.1.2], this.2⟩

theorem elements_inert : ∀ n ∈ rendererElements, inert n = true := by decide +kernel
theorem attrs_inert : ∀ n ∈ rendererAttrs, inert n = true := by decide +kernel

theorem weakData_lt : weakData (str "&lt;") = true := by decide +kernel
theorem weakData_ltsl : weakData (str "&lt;/") = true := by decide +kernel
theorem weakData_ltbr : weakData (str "&lt;br>" ++ [LF]) = true := by decide +kernel

theorem weakData_flatAttr (a : Bytes × Bytes) (h : attrOK a = true) : weakData (flatAttr a) = true := by
  simp only [attrOK, Bool.and_eq_true, List.contains_iff_mem] at h
  unfold flatAttr
  refine weakData_append _ _ (weakData_append _ _ (weakData_append _ _ (weakData_append _ _ ?_ ?_) ?_) ?_) ?_
  · decide
  · exact weakData_of_inert _ (attrs_inert _ h.1)
  · decide
  · exact weakData_of_safe _ h.2
  · decide

theorem weakData_flatAttrs (attrs : List (Bytes × Bytes)) (h : attrs.all attrOK = true) :
    weakData (attrs.flatMap flatAttr) = true := by
  induction attrs with
  | nil => rfl
  | cons a as ih =>
    simp only [List.all_cons, Bool.and_eq_true] at h
    simp only [List.flatMap_cons]
    exact weakData_append _ _ (weakData_flatAttr a h.1) (ih h.2)

/-- A good token stays in the (weakened) language whatever the predicate does to it. -/
theorem tokOKw_rejTok (p : Bytes → Bool) (t : Tok) (h : tokOK t = true) : tokOKw (rejTok p t) = true := by
  cases t with
  | stag n attrs =>
    simp only [rejTok]
    split
    · simp only [tokOK, Bool.and_eq_true, List.contains_iff_mem] at h
      simp only [tokOKw]
      refine weakData_append _ _ (weakData_append _ _ (weakData_append _ _ weakData_lt ?_) ?_) (by decide)
      · exact weakData_of_inert _ (elements_inert _ h.1)
      · exact weakData_flatAttrs _ h.2
    · exact h
  | etag n =>
    simp only [rejTok]
    split
    · simp only [tokOK, Bool.and_eq_true, List.contains_iff_mem] at h
      simp only [tokOKw]
      exact weakData_append _ _ (weakData_append _ _ weakData_ltsl (weakData_of_inert _ (elements_inert _ h.1))) (by decide)
    · exact h
  | br =>
    simp only [rejTok]
    split
    · exact weakData_ltbr
    · rfl
  | text b => exact weakData_of_safe _ h
  | cref b => exact h
  | raw b => exact h

theorem all_tokOKw_map (p : Bytes → Bool) (ts : List Tok) (h : ts.all tokOK = true) :
    (ts.map (rejTok p)).all tokOKw = true := by
  simp only [List.all_eq_true, List.mem_map] at h ⊢
  rintro t ⟨t0, ht0, rfl⟩
  exact tokOKw_rejTok p t0 (h t0 ht0)

/-! ### nesting under a filter -/

/-- The predicate treats an element name and its end-tag form alike, on the renderer's elements. -/
def SlashClosed (p : Bytes → Bool) : Prop := ∀ n ∈ rendererElements, p (0x2F :: n) = p n

/-- The names occurring in tags are renderer elements. -/
def namesOK (ts : List Tok) : Prop := ∀ t ∈ ts, match t with
  | .stag n _ => n ∈ rendererElements
  | .etag n => n ∈ rendererElements
  | _ => True

theorem namesOK_of_tokOK (ts : List Tok) (h : ts.all tokOK = true) : namesOK ts := by
  intro t ht
  have := (List.all_eq_true.mp h) t ht
  cases t with
  | stag n attrs => simp only [tokOK, Bool.and_eq_true, List.contains_iff_mem] at this; exact this.1
  | etag n => simp only [tokOK, Bool.and_eq_true, List.contains_iff_mem] at this; exact this.1
  | _ => trivial

theorem namesOK_cons {t : Tok} {ts : List Tok} (h : namesOK (t :: ts)) : namesOK ts :=
  fun u hu => h u (List.mem_cons_of_mem _ hu)

/-- Under a slash-closed predicate, the surviving tags nest as the original ones did, on the stack of
    surviving open elements. -/
theorem nest_rej (p : Bytes → Bool) (hp : SlashClosed p) (ts : List Tok) (hn : namesOK ts) (st r : List Bytes)
    (h : nest ts st = some r) :
    nest (ts.map (rejTok p)) (st.filter (fun n => !p n)) = some (r.filter (fun n => !p n)) := by
  induction ts generalizing st with
  | nil => simp only [nest, Option.some.injEq] at h; subst h; rfl
  | cons t ts ih =>
    have hn' := namesOK_cons hn
    cases t with
    | stag n attrs =>
      simp only [nest] at h
      simp only [List.map_cons, rejTok]
      by_cases hpn : p n = true
      · simp only [hpn, if_true, nest]
        split at h
        · exact ih hn' st h
        · have := ih hn' (n :: st) h
          simpa [List.filter_cons, hpn] using this
      · have hpn' : p n = false := by simpa using hpn
        simp only [hpn', Bool.false_eq_true, if_false, nest]
        split at h
        · rename_i hv; simp only [hv, if_true]; exact ih hn' st h
        · rename_i hv
          simp only [hv, Bool.false_eq_true, if_false]
          have := ih hn' (n :: st) h
          simpa [List.filter_cons, hpn'] using this
    | etag n =>
      have hmem : n ∈ rendererElements := hn (.etag n) List.mem_cons_self
      have hsl := hp n hmem
      cases st with
      | nil => simp [nest] at h
      | cons m st' =>
        simp only [nest] at h
        split at h
        · rename_i hm
          have hm' : m = n := by simpa using hm
          subst hm'
          simp only [List.map_cons, rejTok, hsl]
          by_cases hpn : p m = true
          · simp only [hpn, if_true, nest]
            have := ih hn' st' h
            simpa [List.filter_cons, hpn] using this
          · have hpn' : p m = false := by simpa using hpn
            simp only [hpn', Bool.false_eq_true, if_false, List.filter_cons, Bool.not_false, if_true, nest,
              beq_self_eq_true]
            exact ih hn' st' h
        · simp at h
    | br =>
      simp only [nest] at h
      simp only [List.map_cons, rejTok]
      split <;> (simp only [nest]; exact ih hn' st h)
    | text b => simp only [nest] at h; simp only [List.map_cons, rejTok, nest]; exact ih hn' st h
    | cref b => simp only [nest] at h; simp only [List.map_cons, rejTok, nest]; exact ih hn' st h
    | raw b => simp only [nest] at h; simp only [List.map_cons, rejTok, nest]; exact ih hn' st h

theorem wellNested_rej (p : Bytes → Bool) (hp : SlashClosed p) (ts : List Tok) (hok : ts.all tokOK = true)
    (h : wellNested ts = true) : wellNested (ts.map (rejTok p)) = true := by
  have h' : nest ts [] = some [] := by simpa [wellNested] using h
  have := nest_rej p hp ts (namesOK_of_tokOK ts hok) [] [] h'
  simpa [wellNested] using this

/-- A predicate that rejects none of the renderer's own names (in either form) changes no good token. -/
def RejectsNoOwn (p : Bytes → Bool) : Prop := ∀ n ∈ rendererElements, p n = false ∧ p (0x2F :: n) = false

theorem rejTok_id (p : Bytes → Bool) (hp : RejectsNoOwn p) (t : Tok) (h : tokOK t = true) : rejTok p t = t := by
  have hbr : str "br" ∈ rendererElements := by decide +kernel
  cases t with
  | stag n attrs =>
    simp only [tokOK, Bool.and_eq_true, List.contains_iff_mem] at h
    simp [rejTok, (hp n h.1).1]
  | etag n =>
    simp only [tokOK, Bool.and_eq_true, List.contains_iff_mem] at h
    simp [rejTok, (hp n h.1).2]
  | br => simp [rejTok, (hp _ hbr).1]
  | text b => rfl
  | cref b => rfl
  | raw b => rfl

theorem map_rejTok_id (p : Bytes → Bool) (hp : RejectsNoOwn p) (ts : List Tok) (h : ts.all tokOK = true) :
    ts.map (rejTok p) = ts := by
  induction ts with
  | nil => rfl
  | cons t ts ih =>
    simp only [List.all_cons, Bool.and_eq_true] at h
    simp [rejTok_id p hp t h.1, ih h.2]

theorem gfm_rejectsNoOwn : RejectsNoOwn filterTagGFM := by
  unfold RejectsNoOwn filterTagGFM; decide +kernel

/-! ### the theorems -/

/-- The precise description of the output under every filter setting: the renderer's documented tokens are
    good (vocabulary, escaping, nesting) and the bytes written are the plain writing of those tokens with
    each rejected tag turned into the text `&lt;…>`. -/
theorem render_eq_effective (cx : RCtx) (root : Tree)
    (hpre : safePre cx.src root = true) (hraw : cx.ignoreRaw = true ∨ noRaw root = true) (dst : Bytes) :
    ∃ ts, ts.all tokOK = true ∧ wellNested ts = true ∧
      appendBlock cx dst root = dst ++ flatPlain (effToks cx.filter ts) := by
  refine ⟨toksNode cx none root, ?_⟩
  have h := toksNode_goodF cx none root ⟨hpre, hraw⟩
  refine ⟨h.1, by have := h.2; unfold WN at this; simp [wellNested, this], ?_⟩
  rw [Props.C07.render_eq_tokens, flat_eff]

/-- C07 with `FilterTag = p` set (raw HTML ignored or absent): the output is the plain writing of a token
    sequence in the fixed vocabulary whose text runs contain no `<`, no `'`, and `&` only as one of the
    renderer's escapes (they may contain `>` and `"`: the rest of a rejected tag); the tags that remain are
    properly nested provided `p` treats `name` and `/name` alike; and if `p` rejects none of the renderer's
    own names the full-strength conclusion of `render_wellformed` holds. -/
theorem render_wellformed_filtered (cx : RCtx) (p : Bytes → Bool) (hf : cx.filter = some p) (root : Tree)
    (hpre : safePre cx.src root = true) (hraw : cx.ignoreRaw = true ∨ noRaw root = true) (dst : Bytes) :
    ∃ ts, appendBlock cx dst root = dst ++ flatPlain ts ∧ ts.all tokOKw = true ∧
      (SlashClosed p → wellNested ts = true) ∧
      (RejectsNoOwn p → ts.all tokOK = true ∧ wellNested ts = true) := by
  obtain ⟨ts, hok, hwn, heq⟩ := render_eq_effective cx root hpre hraw dst
  rw [hf] at heq
  refine ⟨ts.map (rejTok p), heq, all_tokOKw_map p ts hok, fun hp => wellNested_rej p hp ts hok hwn, fun hp => ?_⟩
  rw [map_rejTok_id p hp ts hok]
  exact ⟨hok, hwn⟩

/-- `FilterTagGFM` rejects none of the renderer's own tags: the output is the same as with no filter, and the
    full-strength conclusion holds. -/
theorem render_wellformed_gfm (cx : RCtx) (hf : cx.filter = some filterTagGFM) (root : Tree)
    (hpre : safePre cx.src root = true) (hraw : cx.ignoreRaw = true ∨ noRaw root = true) (dst : Bytes) :
    ∃ ts, appendBlock cx dst root = dst ++ flatPlain ts ∧ ts.all tokOK = true ∧ wellNested ts = true := by
  obtain ⟨ts, h1, _, _, h4⟩ := render_wellformed_filtered cx filterTagGFM hf root hpre hraw dst
  exact ⟨ts, h1, h4 gfm_rejectsNoOwn⟩

/-- `render_wellformed` restated with the configuration-independent writing. -/
theorem render_wellformed_plain (cx : RCtx) (hf : cx.filter = none) (root : Tree)
    (hpre : safePre cx.src root = true) (hraw : cx.ignoreRaw = true ∨ noRaw root = true) (dst : Bytes) :
    ∃ ts, appendBlock cx dst root = dst ++ flatPlain ts ∧ ts.all tokOK = true ∧ wellNested ts = true := by
  obtain ⟨ts, hok, hwn, heq⟩ := render_eq_effective cx root hpre hraw dst
  rw [hf] at heq
  exact ⟨ts, heq, hok, hwn⟩

/-! ### non-vacuity -/

namespace RenderWFEx
def src : Bytes := str "*x* <y"
/-- `<p><em>x</em> &lt;y</p>` as a tree. -/
def para : Tree :=
  .node { kind := BK.paragraph, start := 0, stop := 6 }
    [.node { isBlock := false, kind := IK.emphasis, start := 0, stop := 3 }
      [.node { isBlock := false, kind := IK.text, start := 1, stop := 2 } []],
     .node { isBlock := false, kind := IK.text, start := 3, stop := 6 } []]
/-- rejects `em` in both forms -/
def pEm : Bytes → Bool := fun n => n == str "em" || n == str "/em"
def cxEm : RCtx := { ext := { unescape := id }, src := src, filter := some pEm }
def cxGfm : RCtx := { ext := { unescape := id }, src := src, filter := some filterTagGFM }
end RenderWFEx
open RenderWFEx

example : safePre cxEm.src para = true ∧ noRaw para = true := by decide +kernel
example : SlashClosed pEm := by unfold SlashClosed pEm; decide +kernel
example : ¬ RejectsNoOwn pEm := by unfold RejectsNoOwn pEm; decide +kernel
example : (appendBlock cxEm [] para == str "<p>&lt;em>x&lt;/em> &lt;y</p>") = true := by
  rw [Props.C07.render_eq_tokens]; decide +kernel
example : (appendBlock cxGfm [] para == str "<p><em>x</em> &lt;y</p>") = true := by
  rw [Props.C07.render_eq_tokens]; decide +kernel
example : (effToks cxEm.filter (toksNode cxEm none para)).all tokOKw = true
    ∧ wellNested (effToks cxEm.filter (toksNode cxEm none para)) = true
    ∧ (effToks cxEm.filter (toksNode cxEm none para)).all tokOK = false := by decide +kernel

end CM.Proofs.RenderWF
