import CM.Proofs.EolW1
/-
C14 (a), the paragraph hook under the position map — part 7: `parseLinkLabel`.

The label scanners count BYTES (`chars`, limit `maxChars`), and a CR LF pair counts twice.  The scanner on the re-written
side computes exactly what the `W` scanner (`EolW1`: a line feed counts `|e|` bytes) computes on the original side.
-/
namespace CM.Proofs.ERd
open CM CM.Model CM.Gen CM.Proofs CM.Proofs.RDS CM.Proofs.BSp

def mapSpanI (e X : Bytes) (s : SpanI) : SpanI := ⟨eolPosZ e X s.start, eolPosZ e X s.stop⟩

def mapLabel (e X : Bytes) (l : LinkLabel) : LinkLabel := ⟨mapSpanI e X l.span, mapSpanI e X l.inner⟩

theorem mapSpanI_null (e X : Bytes) : mapSpanI e X nullSpan = nullSpan := by
  unfold mapSpanI nullSpan
  rw [eolPosZ_neg e X (show (-1 : Int) < 0 by omega)]

theorem mapLabel_no (e X : Bytes) : mapLabel e X noLabel = noLabel := by
  unfold mapLabel noLabel; rw [mapSpanI_null]

theorem mapSpanI_valid (e X : Bytes) (s : SpanI) : (mapSpanI e X s).isValid = s.isValid := by
  unfold SpanI.isValid mapSpanI
  simp only [ge_iff_le, eolPosZ_nonneg_iff, eolPosZ_le_iff]

section
variable {e X : Bytes} {k : Nat} {is : List Tree} {r : Rd}

/-- The position after a byte that is neither a blank of an Indent node, nor a line feed, nor the end. -/
theorem pos_succ (he : StdEol e) (hc : Ctx (X.take k) is) (h : RI (X.take k) is r)
    (h0 : (r.current (X.take k)).1 ≠ 0) (hlf : (r.current (X.take k)).1 ≠ LF) (hsp : (r.current (X.take k)).1 ≠ SP) :
    ((eolPos e X r.pos : Nat) : Int) + 1 = eolPosZ e X ((r.pos : Int) + 1) := by
  have hp : r.pos < (X.take k).length := by
    rcases Nat.lt_or_ge r.pos (X.take k).length with hp | hp
    · exact hp
    · exfalso; apply h0; rw [current_val hc h, if_pos hp]
  have hb : (X.take k).getD r.pos 0 ≠ LF := by
    intro hb
    rw [current_val hc h, if_neg (by omega)] at hlf hsp
    have hraw : raw (X.take k) r = LF := by unfold raw; rw [hb]; rfl
    cases hh : r.spans.head? with
    | none => rw [hh] at hlf; exact hlf hraw
    | some t =>
      rw [hh] at hlf hsp
      simp only [] at hlf hsp
      split at hlf
      · rename_i hi; rw [if_pos hi] at hsp; exact hsp rfl
      · exact hlf hraw
  have := eolPos_succ_ne (e := e) he hp hb
  have e1 : ((r.pos : Int) + 1) = ((r.pos + 1 : Nat) : Int) := by omega
  rw [e1, eolPosZ_ofNat, this]
  omega

theorem ws_of_sp_lf {c : UInt8} (h : isSpaceTabOrLineEnding c = false) : c ≠ LF ∧ c ≠ SP := by
  constructor <;> (intro hc; subst hc; exact absurd h (by decide))

/-- A direct step on the re-written side does not leave a line feed of a CR LF pair. -/
theorem wadd_plain (he : StdEol e) (hcr : NoCR X) (hc : Ctx (X.take k) is) (htab : TabsOK (X.take k) is)
    (h : RJ (X.take k) is r)
    (hpl : Rd.next (toEol e (X.take k)) (mapRd e X r) = (true, mapRd e X (r.next (X.take k)).2)) :
    wAdd (e.length - 1) (r.current (X.take k)).1 = 0 := by
  unfold wAdd
  by_cases hcu : (r.current (X.take k)).1 = LF
  · rw [hcu]
    simp only [beq_self_eq_true, if_true]
    rcases stdEol_len he with h1 | h2
    · omega
    · exfalso
      have he2 : e = [CR, LF] := by
        rcases he with h1 | h1 | h1
        · subst h1; simp at h2
        · subst h1; simp at h2
        · exact h1
      subst he2
      have hc' := ctx_map (e := [CR, LF]) he hcr hc htab
      cases hs : r.spans with
      | nil =>
        rw [next_dead hc' (ri_map h.1) (by show mapTrees _ r.spans = []; rw [hs]; rfl)] at hpl
        cases hpl
      | cons t rest =>
        have ha := atLF_of_cur hc h.1 hs hcu
        obtain ⟨s1, _, _, _⟩ := next_stutter hcr hc htab h.1 h.2.1 ha
        rw [s1] at hpl
        have hp : (mid [CR, LF] X r).pos = (mapRd [CR, LF] X (r.next (X.take k)).2).pos := by
          have := congrArg (fun z => z.2.pos) hpl
          exact this
        have hp' : eolPos [CR, LF] X r.pos + 1 = eolPos [CR, LF] X (r.next (X.take k)).2.pos := hp
        have hge := (next_spec hc h.1).2.2.2.1
        obtain ⟨t', rest', hs', _, hb⟩ := ha
        have hlt : r.pos < (X.take k).length := by
          rcases Nat.lt_or_ge r.pos (X.take k).length with h1 | h1
          · exact h1
          · exfalso
            rw [List.getD_eq_getElem?_getD, List.getElem?_eq_none h1] at hb
            exact absurd hb (by decide)
        have hsucc := eolPos_succ_lf (e := [CR, LF]) he hlt hb
        rcases Nat.eq_or_lt_of_le hge with h1 | h1
        · rw [← h1] at hp'; omega
        · have := eolPos_mono [CR, LF] X (j := r.pos + 1) (k := (r.next (X.take k)).2.pos) (by omega)
          simp only [List.length_cons, List.length_nil] at hsucc
          omega
  · rw [if_neg (by simpa using hcu)]

/-! ### `labelSkip` -/

theorem labelSkipW_sim (he : StdEol e) (hcr : NoCR X) (hc : Ctx (X.take k) is) (htab : TabsOK (X.take k) is) :
    ∀ (f f' : Nat) (r : Rd) (chars : Nat), RJ (X.take k) is r → mu (X.take k) r < f →
      mu (toEol e (X.take k)) (mapRd e X r) < f' →
      match labelSkipW (e.length - 1) (X.take k) f r chars with
      | none => labelSkip (toEol e (X.take k)) f' (mapRd e X r) chars = none
      | some (r1, n) => labelSkip (toEol e (X.take k)) f' (mapRd e X r) chars = some (mapRd e X r1, n) ∧
          RJ (X.take k) is r1 ∧ mu (X.take k) r1 ≤ mu (X.take k) r ∧
          mu (toEol e (X.take k)) (mapRd e X r1) ≤ mu (toEol e (X.take k)) (mapRd e X r) := by
  intro f
  induction f with
  | zero => intro f' r _ _ hm; omega
  | succ f ih =>
    intro f' r chars h hm hm'
    obtain ⟨g, rfl⟩ : ∃ g, f' = g + 1 := ⟨f' - 1, by omega⟩
    obtain ⟨j1, m1, st⟩ := step_full he hcr hc htab h
    rcases hn : r.next (X.take k) with ⟨ok, r1⟩
    rw [hn] at j1 m1 st
    simp only [] at j1 m1 st
    have hcur1 := j1.cur hc
    have hcur1' := current_map_eq (e := e) he hcr hc htab j1.1
    -- the tail of one iteration, from `r1` (and its image) with `c'` bytes counted
    have tail : ∀ (g0 c' : Nat), mu (toEol e (X.take k)) (mapRd e X r1) < g0 → mu (X.take k) r1 < mu (X.take k) r →
        mu (toEol e (X.take k)) (mapRd e X r1) < mu (toEol e (X.take k)) (mapRd e X r) →
        match (if (decide (c' ≥ maxChars) || (r1.current (X.take k)).1 == 0x5B || (r1.current (X.take k)).1 == 0x5D) = true
            then none else if (!isSpaceTabOrLineEnding (r1.current (X.take k)).1) = true then some (r1, c')
            else labelSkipW (e.length - 1) (X.take k) f r1 c') with
        | none => (if (decide (c' ≥ maxChars) || trB e (r1.current (X.take k)).1 == 0x5B || trB e (r1.current (X.take k)).1 == 0x5D) = true
            then none else if (!isSpaceTabOrLineEnding (trB e (r1.current (X.take k)).1)) = true then some (mapRd e X r1, c')
            else labelSkip (toEol e (X.take k)) g0 (mapRd e X r1) c') = none
        | some (r2, n) => (if (decide (c' ≥ maxChars) || trB e (r1.current (X.take k)).1 == 0x5B || trB e (r1.current (X.take k)).1 == 0x5D) = true
            then none else if (!isSpaceTabOrLineEnding (trB e (r1.current (X.take k)).1)) = true then some (mapRd e X r1, c')
            else labelSkip (toEol e (X.take k)) g0 (mapRd e X r1) c') = some (mapRd e X r2, n) ∧
          RJ (X.take k) is r2 ∧ mu (X.take k) r2 ≤ mu (X.take k) r ∧
          mu (toEol e (X.take k)) (mapRd e X r2) ≤ mu (toEol e (X.take k)) (mapRd e X r) := by
      intro g0 c' hg0 hmu hmu'
      rw [trB_beq he _ 0x5B (by decide) (by decide), trB_beq he _ 0x5D (by decide) (by decide), trB_ws he]
      by_cases hb : (decide (c' ≥ maxChars) || (r1.current (X.take k)).1 == 0x5B || (r1.current (X.take k)).1 == 0x5D) = true
      · rw [if_pos hb, if_pos hb]
      · rw [if_neg hb, if_neg hb]
        by_cases hw : (!isSpaceTabOrLineEnding (r1.current (X.take k)).1) = true
        · rw [if_pos hw, if_pos hw]
          exact ⟨rfl, j1, Nat.le_of_lt hmu, Nat.le_of_lt hmu'⟩
        · rw [if_neg hw, if_neg hw]
          have := ih g0 r1 c' j1 (by omega) hg0
          cases hres : labelSkipW (e.length - 1) (X.take k) f r1 c' with
          | none => rw [hres] at this; exact this
          | some pr =>
            obtain ⟨r2, n⟩ := pr
            rw [hres] at this
            obtain ⟨a1, a4, a5, a6⟩ := this
            exact ⟨a1, a4, by omega, by omega⟩
    rw [labelSkipW, labelSkip, hn]
    simp only []
    rcases st with ⟨s, ms⟩ | ⟨s1, s2, s3, s4, s5, s6, ms1, ms2, _hat⟩
    · rw [s]
      simp only []
      cases ok with
      | false => trivial
      | true =>
        simp only [Bool.not_true, Bool.false_eq_true, if_false]
        have hw0 : wAdd (e.length - 1) (r.current (X.take k)).1 = 0 :=
          wadd_plain he hcr hc htab h (by rw [hn]; exact s)
        rw [hw0, hcur1, hcur1']
        simp only [Nat.add_zero]
        have := ms rfl
        exact tail g (chars + 1) (by omega) (m1 rfl) (by omega)
    · subst s2
      have hw1 : wAdd ([CR, LF].length - 1) (r.current (X.take k)).1 = 1 := by rw [s1]; rfl
      rw [s3, hw1]
      simp only [Bool.not_true, Bool.false_eq_true, if_false]
      rw [s5]
      simp only []
      cases ok with
      | false =>
        simp only [Bool.not_false, if_true]
        by_cases l2 : chars + 1 ≥ maxChars
        · simp [l2]
        · have l2' : (decide (chars + 1 ≥ maxChars)) = false := by rw [decide_eq_false_iff_not]; exact l2
          rw [l2']
          simp only [Bool.false_or, show (LF == (0x5B : UInt8)) = false by decide, show (LF == (0x5D : UInt8)) = false by decide,
            Bool.false_eq_true, if_false, show isSpaceTabOrLineEnding LF = true by decide, Bool.not_true]
          obtain ⟨g2, rfl⟩ : ∃ g2, g = g2 + 1 := ⟨g - 1, by omega⟩
          rw [labelSkip, s6]
          rfl
      | true =>
        simp only [Bool.not_true, Bool.false_eq_true, if_false]
        rw [hcur1]
        simp only []
        by_cases l2 : chars + 1 ≥ maxChars
        · have l3 : decide (chars + 1 + 1 ≥ maxChars) = true := by rw [decide_eq_true_eq]; omega
          rw [l3]
          simp [l2]
        · have l2' : (decide (chars + 1 ≥ maxChars)) = false := by rw [decide_eq_false_iff_not]; exact l2
          rw [l2']
          simp only [Bool.false_or, show (LF == (0x5B : UInt8)) = false by decide, show (LF == (0x5D : UInt8)) = false by decide,
            Bool.false_eq_true, if_false, show isSpaceTabOrLineEnding LF = true by decide, Bool.not_true]
          obtain ⟨g2, rfl⟩ : ∃ g2, g = g2 + 1 := ⟨g - 1, by omega⟩
          rw [labelSkip, s6]
          simp only [Bool.not_true, Bool.false_eq_true, if_false]
          rw [hcur1']
          simp only []
          have := ms2 rfl
          exact tail g2 (chars + 1 + 1) (by omega) (m1 rfl) (by omega)

end

end CM.Proofs.ERd
