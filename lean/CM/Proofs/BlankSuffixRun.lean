import CM.Proofs.BlankSuffixLoops
/-
Trailing blank lines: `NextBlock` and `drain` on `extBP t q` vs. `q`, and after the runs have parted.
-/
namespace CM.Proofs
open CM CM.Model CM.Gen

theorem freshLine_ext (t : Bytes) (q : BP) (hi : q.i ≤ q.buf.length) :
    freshLine (extBP t q) = extBP t (freshLine q) := by
  simp only [freshLine, extBP, List.take_append_of_le_length hi, List.drop_append_of_le_length hi]

theorem LockInv.freshLine {t : Bytes} {q : BP} (h : LockInv t q) : LockInv t (freshLine q) :=
  ⟨Nat.zero_le _, terminated_drop h.term _, not_crlfSplit_drop h.nosplit _, h.err⟩

theorem afterSkip_none_fst (L : LineParserI) (f f' : Nat) (qA qB : BP) (hp : qA.panic = qB.panic) (he : qA.err = qB.err) :
    (afterSkip L f (none, qA)).1 = (afterSkip L f' (none, qB)).1 := by
  simp only [afterSkip, hp, he]
  cases qB.panic <;> rfl

theorem afterSkip_none_not_block (L : LineParserI) (f : Nat) (q : BP) (r : Root) :
    (afterSkip L f (none, q)).1 ≠ .block r := by
  simp only [afterSkip]
  cases q.panic <;> intro h <;> cases h

theorem bpFuel_ext (t : Bytes) (q : BP) : bpFuel (extBP t q) = bpFuel q + t.length := by
  simp only [bpFuel, extBP, List.length_append]; omega

/-- One `NextBlock` call on the two runs (explicit fuels). -/
theorem nextBlockF_lockG {L : LineParserI} {t : Bytes} {P : NBOut × BP → NBOut × BP → Prop} (S : LockSpec L t P)
    {q : BP} (hinv : LockInv t q)
    (fsB fpB fsA k : Nat) (hsB : q.buf.length + 1 ≤ fsB) (hsA : q.buf.length + t.length + 1 ≤ fsA)
    (hfp : isFuelPanic (nextBlockF L fsB fpB q).1 = false) (hpn : (nextBlockF L fsB fpB q).2.panic = none) :
    P (nextBlockF L fsA (fpB + k) (extBP t q)) (nextBlockF L fsB fpB q) := by
  cases hbl : q.blocks with
  | nil =>
    have mB : makeRoot q q.blocks = none := by rw [hbl]; rfl
    have mA : makeRoot (extBP t q) (extBP t q).blocks = none := by
      show makeRoot (extBP t q) q.blocks = none
      rw [hbl]; rfl
    have lB : ¬ q.blocks.length > 0 := by rw [hbl]; simp
    have lA : ¬ (extBP t q).blocks.length > 0 := lB
    rw [nextBlockF_fresh L mB lB] at hfp hpn ⊢
    rw [nextBlockF_fresh L mA lA, freshLine_ext t q hinv.ile]
    have hlen : (freshLine q).buf.length ≤ q.buf.length := by
      show (q.buf.drop q.i).length ≤ _
      simp
    rcases skipBlank_lockG fsB fsA (freshLine q) hinv.freshLine rfl (by omega) (by omega) with
      ⟨qB, s1, s2, hinvB⟩ | ⟨q', fA', hinv', hb', hi', _, _, s1, s2, hfA'⟩
    · rw [s1] at hfp hpn ⊢
      rw [s2]
      exact parseLines_lockG S fpB k _ 0 qB hinvB hfp hpn
    · rw [s1, s2]
      exact S.eof q' hinv' hb' hi' fA' _ _ hfA'
  | cons k' rest =>
    cases ho : k'.isOpen with
    | true =>
      have mB : makeRoot q q.blocks = none := by rw [hbl]; exact makeRoot_open _ _ _ ho
      have mA : makeRoot (extBP t q) (extBP t q).blocks = none := by
        show makeRoot (extBP t q) q.blocks = none
        rw [hbl]; exact makeRoot_open _ _ _ ho
      have lB : q.blocks.length > 0 := by rw [hbl]; simp
      have lA : (extBP t q).blocks.length > 0 := lB
      rw [nextBlockF_pending L mB lB] at hfp hpn ⊢
      rw [nextBlockF_pending L mA lA]
      by_cases hlt : q.i < q.buf.length
      · obtain ⟨r1, r2, hinv1⟩ := rl_lock hinv hlt
        rw [r1] at hfp hpn ⊢
        rw [r2]
        exact parseLines_lockG S fpB k _ _ _ hinv1 hfp hpn
      · have heq : q.i = q.buf.length := by have := hinv.ile; omega
        obtain ⟨r1, r2⟩ := rl_eof hinv heq
        rw [r1] at hfp hpn ⊢
        rw [r2]
        exact S.div q hinv heq fpB k _ hfp hpn
    | false =>
      have mB : makeRoot q q.blocks = some (rootOf q k', afterRoot q k' rest) := by
        rw [hbl]; exact makeRoot_closed _ _ _ ho
      have mA : makeRoot (extBP t q) (extBP t q).blocks = some (rootOf (extBP t q) k', afterRoot (extBP t q) k' rest) := by
        show makeRoot (extBP t q) q.blocks = _
        rw [hbl]; exact makeRoot_closed _ _ _ ho
      rw [nextBlockF_root L mB] at hpn ⊢
      rw [nextBlockF_root L mA]
      obtain ⟨hn1, hn2⟩ := afterRoot_panic_none hpn
      rw [rootOf_ext _ _ _ hn2, afterRoot_ext _ _ _ _ hn1 hinv.ile]
      exact S.lock _ _ (hinv.afterRoot k' rest hn1)

/-- One `NextBlock` call on the two runs. -/
theorem nextBlock_lockG {L : LineParserI} {t : Bytes} {P : NBOut × BP → NBOut × BP → Prop} (S : LockSpec L t P)
    {q : BP} (hinv : LockInv t q)
    (hfp : isFuelPanic (nextBlock L q).1 = false) (hpn : (nextBlock L q).2.panic = none) :
    P (nextBlock L (extBP t q)) (nextBlock L q) := by
  rw [nextBlock_eq_F] at hfp hpn ⊢
  rw [nextBlock_eq_F, bpFuel_ext]
  exact nextBlockF_lockG S hinv _ _ _ _ (by simp only [bpFuel]; omega) (by simp only [bpFuel]; omega) hfp hpn

/-- Under `EOFBlank`, with `t` blank: the results agree in the sense of `Step`. -/
theorem lockSpec_eofBlank {L : LineParserI} (H : EOFBlank L) {t : Bytes} (htne : t ≠ []) (htb : isBlankLine t = true) :
    LockSpec L t (Step t) where
  lock := fun o qB hinv => ⟨rfl, fun r _ => Or.inl ⟨rfl, hinv⟩⟩
  div := fun q hinv heq fB k lp hfp hpn => parseLines_diverge H htne htb hinv heq fB k lp hfp hpn
  eof := by
    intro q' hinv' hb' hi' fsA fpA fpB hfs
    obtain ⟨qA, a1, a2, a3⟩ := skipBlank_all_blank fsA (extBP t q')
      (by show isBlankLine (q'.buf ++ t) = true; rw [hb']; exact htb) hi' hinv'.err
      (by show (q'.buf ++ t).length + 1 ≤ fsA; rw [hb']; simpa using hfs)
    rw [a1]
    refine ⟨afterSkip_none_fst L _ _ qA q' a2 a3, ?_⟩
    intro r hr
    exact absurd hr (afterSkip_none_not_block L _ _ r)

/-! ### After the runs have parted -/

theorem nextBlock_tail (L : LineParserI) {pA pB : BP} (h : Tail pA pB) (hpn : (nextBlock L pB).2.panic = none) :
    (nextBlock L pA).1 = (nextBlock L pB).1 ∧ ∀ r, (nextBlock L pB).1 = .block r → Tail (nextBlock L pA).2 (nextBlock L pB).2 := by
  obtain ⟨t', j, rfl, hj, htb, hT⟩ := h
  rw [nextBlock_eq_F] at hpn ⊢
  rw [nextBlock_eq_F]
  cases hbl : pB.blocks with
  | nil =>
    have mB : makeRoot pB pB.blocks = none := by rw [hbl]; rfl
    have mA : makeRoot (tailBP t' j pB) (tailBP t' j pB).blocks = none := by
      show makeRoot (tailBP t' j pB) pB.blocks = none
      rw [hbl]; rfl
    have lB : ¬ pB.blocks.length > 0 := by rw [hbl]; simp
    have lA : ¬ (tailBP t' j pB).blocks.length > 0 := lB
    rw [nextBlockF_fresh L mB lB, nextBlockF_fresh L mA lA]
    have hbB : (freshLine pB).buf = [] := by
      show pB.buf.drop pB.i = []
      rw [hT.iB]; simp
    have hbA : (freshLine (tailBP t' j pB)).buf = t'.drop j := by
      show (pB.buf ++ t').drop (pB.buf.length + j) = _
      exact List.drop_length_add_append _
    obtain ⟨qB, s1, p1, e1⟩ := skipBlank_all_blank (bpFuel pB) (freshLine pB) (by rw [hbB]; rfl) rfl hT.err
      (by rw [hbB]; simp [bpFuel])
    obtain ⟨qA, s2, p2, e2⟩ := skipBlank_all_blank (bpFuel (tailBP t' j pB)) (freshLine (tailBP t' j pB))
      (by rw [hbA]; exact isBlankLine_drop htb _) rfl hT.err
      (by rw [hbA]; simp only [bpFuel, tailBP, List.length_append, List.length_drop]; omega)
    rw [s1, s2]
    refine ⟨afterSkip_none_fst L _ _ qA qB (by rw [p1, p2]; rfl) (by rw [e1, e2]; rfl), ?_⟩
    intro r hr
    exact absurd hr (afterSkip_none_not_block L _ _ r)
  | cons k rest =>
    have hc := hT.chain
    rw [hbl] at hc
    obtain ⟨ho, _, _⟩ := closedChain_cons hc
    have mB : makeRoot pB pB.blocks = some (rootOf pB k, afterRoot pB k rest) := by
      rw [hbl]; exact makeRoot_closed _ _ _ ho
    have mA : makeRoot (tailBP t' j pB) (tailBP t' j pB).blocks =
        some (rootOf (tailBP t' j pB) k, afterRoot (tailBP t' j pB) k rest) := by
      show makeRoot (tailBP t' j pB) pB.blocks = _
      rw [hbl]; exact makeRoot_closed _ _ _ ho
    rw [nextBlockF_root L mB] at hpn ⊢
    rw [nextBlockF_root L mA]
    obtain ⟨_, hn⟩ := afterRoot_panic_none hpn
    rw [rootOf_tail _ _ _ _ hn, afterRoot_tail _ _ _ _ _ hn hT.iB]
    exact ⟨rfl, fun r _ => ⟨t', j, rfl, hj, htb, hT.afterRoot k rest hbl⟩⟩

/-- A panic recorded by a `NextBlock` call shows in the final state of `drain`. -/
theorem step_panic_none (L : LineParserI) (f : Nat) (p : BP) (acc : List Root) (herr : p.err.isSome = true)
    (h : (drain L (f + 1) p acc).2.2.panic = none) : (nextBlock L p).2.panic = none := by
  have herr' := (nextBlock_sticky L p herr).1
  rcases hn : nextBlock L p with ⟨o, p'⟩
  rw [hn] at herr'
  cases o with
  | block r =>
    simp only [drain, hn] at h
    cases hp : p'.panic with
    | none => rfl
    | some m =>
      have := drain_sticky L f p' (r :: acc) herr' (by rw [hp]; rfl)
      rw [h] at this; cases this
  | err e => simpa only [drain, hn] using h
  | panic m => simpa only [drain, hn] using h

theorem step_not_fuelPanic (L : LineParserI) (f : Nat) (p : BP) (acc : List Root)
    (h : isFuelPanic (drain L (f + 1) p acc).2.1 = false) : isFuelPanic (nextBlock L p).1 = false := by
  rcases hn : nextBlock L p with ⟨o, p'⟩
  cases o with
  | block r => rfl
  | err e => rfl
  | panic m => simpa only [drain, hn] using h

theorem Tail.errB {pA pB : BP} (h : Tail pA pB) : pB.err.isSome = true := by
  obtain ⟨_, _, _, _, _, hT⟩ := h; exact hT.err

theorem drain_tail (L : LineParserI) : ∀ (f : Nat) (pA pB : BP) (acc : List Root), Tail pA pB →
    (drain L f pB acc).2.2.panic = none →
    (drain L f pA acc).1 = (drain L f pB acc).1 ∧ (drain L f pA acc).2.1 = (drain L f pB acc).2.1 := by
  intro f
  induction f with
  | zero => intro pA pB acc _ _; exact ⟨rfl, rfl⟩
  | succ f ih =>
    intro pA pB acc h hpn
    have hstep := step_panic_none L f pB acc h.errB hpn
    obtain ⟨h1, h2⟩ := nextBlock_tail L h hstep
    rcases hA : nextBlock L pA with ⟨oA, pA'⟩
    rcases hB : nextBlock L pB with ⟨oB, pB'⟩
    rw [hA, hB] at h1 h2
    simp only at h1 h2
    subst h1
    cases oA with
    | block r =>
      simp only [drain, hA, hB] at hpn ⊢
      exact ih pA' pB' (r :: acc) (h2 r rfl) hpn
    | err e => simp only [drain, hA, hB]; exact ⟨trivial, trivial⟩
    | panic m => simp only [drain, hA, hB]; exact ⟨trivial, trivial⟩

/-- The whole run on `extBP t q` vs. `q`: same roots, same outcome. -/
theorem drain_lock {L : LineParserI} (H : EOFBlank L) {t : Bytes} (htne : t ≠ []) (htb : isBlankLine t = true) :
    ∀ (f : Nat) (q : BP) (acc : List Root), LockInv t q →
    (drain L f q acc).2.2.panic = none → isFuelPanic (drain L f q acc).2.1 = false →
    (drain L f (extBP t q) acc).1 = (drain L f q acc).1 ∧ (drain L f (extBP t q) acc).2.1 = (drain L f q acc).2.1 := by
  intro f
  induction f with
  | zero => intro q acc _ _ _; exact ⟨rfl, rfl⟩
  | succ f ih =>
    intro q acc hinv hpn hfp
    have hstep := step_panic_none L f q acc hinv.err hpn
    have hfuel := step_not_fuelPanic L f q acc hfp
    obtain ⟨h1, h2⟩ := nextBlock_lockG (lockSpec_eofBlank H htne htb) hinv hfuel hstep
    rcases hA : nextBlock L (extBP t q) with ⟨oA, pA'⟩
    rcases hB : nextBlock L q with ⟨oB, pB'⟩
    rw [hA, hB] at h1 h2
    simp only at h1 h2
    subst h1
    cases oA with
    | block r =>
      simp only [drain, hA, hB] at hpn hfp ⊢
      rcases h2 r rfl with ⟨e, hinv'⟩ | hT
      · subst e
        exact ih pB' (r :: acc) hinv' hpn hfp
      · exact drain_tail L f pA' pB' (r :: acc) hT hpn
    | err e => simp only [drain, hA, hB]; exact ⟨trivial, trivial⟩
    | panic m => simp only [drain, hA, hB]; exact ⟨trivial, trivial⟩

end CM.Proofs
