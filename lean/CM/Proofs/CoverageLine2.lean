import CM.Proofs.CoverageLine
import CM.Proofs.BlocksSpansLine
/-
C03, part B — `openNewBlocks`, `addLineText`, and **`processLine_C`: after one line, every needed byte of the source
(the old text and the new line) is covered by a leaf of the tree** (`Done`).
-/
namespace CM.Proofs.Cov
open CM CM.Model CM.Gen CM.Spec CM.Spec.T CM.Proofs.BT
open CM.Proofs.BSp (ParaPred QT isContainerKind)

/-- The line is done: the tree is well formed and every needed byte of the whole source is covered. -/
structure Done (S : Bytes) (L : Nat) (p : LP) : Prop where
  ci : CI QT S L True p
  all : ∀ j, j < S.length → need (S.getD j 0) = true → covPB p.root j = true
  top : p.state = 4 → TopOK p.root

theorem Done.of_end {Q : ParaPred} {S : Bytes} {L : Nat} {p : LP} (h : CI Q S L Z p) (hi : p.i = p.line.length)
    (ht : p.state = 4 → TopOK p.root) : Done S L p := by
  refine ⟨h.toQT.toTrue, fun j hj hn => ?_, ht⟩
  have := h.line_length
  rw [h.seq] at this
  apply h.cov j (by rw [hi]; omega)
  rw [h.seq]; exact hn

/-- The rest of the line is blank. -/
theorem Done.of_blank {Q : ParaPred} {S : Bytes} {L : Nat} {p : LP} (h : CI Q S L Z p) (hb : isBlankLine (p.line.drop p.i) = true)
    (hs4 : p.state ≠ 4) : Done S L p := by
  refine ⟨h.toQT.toTrue, fun j hj hn => ?_, fun h4 => absurd h4 hs4⟩
  have hlen := h.line_length
  rw [h.seq] at hlen
  by_cases hlt : j < p.lineStart + p.i
  · apply h.cov j hlt; rw [h.seq]; exact hn
  · exfalso
    have e : j = p.lineStart + (j - p.lineStart) := by omega
    have hm := skip_of_drop (p := p) rfl 0 (p.line.drop p.i).length
      (fun k _ hk => bytes_of_mem (isBlankLine_bytes _ hb) k hk) (j - p.lineStart) (by omega)
      (by simp only [List.length_drop]; have := h.inv.cur.hi; omega)
    rw [h.line_getD, ← e, h.seq, hn] at hm
    cases hm

/-! ### label flags -/

theorem WF_relabel {Q : ParaPred} {l l' : PLabel} {bs : List PB} {is : List Tree} (h : WF Q (.mk l bs is))
    (hk : l'.kind = l.kind) (he : l'.stop = l.stop) (hq : l.stop < 0 → l.kind = BK.paragraph → Q l' is = true) :
    WF Q (.mk l' bs is) := by
  rw [WF_mk] at h ⊢
  obtain ⟨h1, h2, h3, h4⟩ := h
  refine ⟨⟨by rw [hk]; exact h1.1, fun hl => h1.2 (by rw [← hk]; exact hl)⟩,
    ⟨h2.1, fun hk' => h2.2 (by rw [← hk]; exact hk')⟩, fun ho => ?_, h4⟩
  rw [he] at ho
  rw [hk]
  exact ⟨(h3 ho).1, fun hp => hq ho hp⟩

theorem covPB_relabel {l l' : PLabel} {bs : List PB} {is : List Tree} (hk : l'.kind = l.kind) (hs : l'.start = l.start)
    (he : l'.stop = l.stop) (j : Nat) : covPB (.mk l' bs is) j = covPB (.mk l bs is) j := by
  rw [covPB_mk, covPB_mk, markerCov_congr hk hs he]

/-- `setBlankFlags` keeps the tree well formed (if `Q` does not mind the flag on the open paragraphs it touches) and
    its coverage. -/
theorem setBlankFlags_ok {Q : ParaPred} (N : Nat → Prop) (v : Bool) : ∀ (d : Nat) (b : PB), WF Q b →
    (∀ j, j ≤ d → ∀ l bs is, spineGet b j = some (.mk l bs is) → l.stop < 0 → l.kind = BK.paragraph →
      Q { l with lastLineBlank := v } is = true) →
    WF Q (setBlankFlags v b d) ∧ Le N b (setBlankFlags v b d) ∧ (setBlankFlags v b d).kind = b.kind := by
  intro d
  induction d with
  | zero =>
    intro b h hq
    obtain ⟨l, bs, is⟩ := b
    simp only [setBlankFlags]
    exact ⟨WF_relabel h rfl rfl (fun ho hp => hq 0 (Nat.le_refl _) l bs is (spineGet_zero _) ho hp),
      Le.of_eq (fun j => covPB_relabel rfl rfl rfl j), rfl⟩
  | succ d ih =>
    intro b h hq
    obtain ⟨l, bs, is⟩ := b
    simp only [setBlankFlags]
    have h0 : WF Q (.mk { l with lastLineBlank := v } bs is) :=
      WF_relabel h rfl rfl (fun ho hp => hq 0 (Nat.zero_le _) l bs is (spineGet_zero _) ho hp)
    have l0 : Le N (.mk l bs is) (.mk { l with lastLineBlank := v } bs is) := Le.of_eq (fun j => covPB_relabel rfl rfl rfl j)
    cases hgl : bs.getLast? with
    | none => exact ⟨h0, l0, rfl⟩
    | some c =>
      simp only []
      have hc : WF Q c := (WF_mk.mp h).2.2.2 c (List.mem_of_getLast? hgl)
      have r := ih c hc (fun j hj l' bs' is' hg => hq (j + 1) (by omega) l' bs' is' (by rw [spineGet_succ, hgl]; exact hg))
      have := replaceLast_ok (N := N) (Q' := Q) (new := [setBlankFlags v c d]) (fun _ _ h => h) h0 hgl
        (by intro c' hc'
            simp only [List.mem_singleton] at hc'
            subst hc'
            exact r.1)
        (LeL.single r.2.1)
        (by intro hk c' hc'
            simp only [List.mem_singleton] at hc'
            subst hc'
            rw [r.2.2]; exact hk)
      exact ⟨this.1, l0.trans this.2, rfl⟩

theorem WF_setLabel_T (f : PLabel → PLabel) (hk : ∀ l, (f l).kind = l.kind) (he : ∀ l, (f l).stop = l.stop) (c : PB)
    (h : WF QT c) : WF QT (c.setLabel f) := by
  obtain ⟨l, bs, is⟩ := c
  exact WF_relabel h (hk l) (he l) (fun _ _ => rfl)

/-- step 1 of `addLineText` (at level `QT`). -/
theorem altBlank_C {S : Bytes} {L : Nat} (p : LP) (h : CI QT S L Z p) :
    CI QT S L Z (altBlank p) ∧ (altBlank p).i = p.i ∧ (altBlank p).line = p.line := by
  have a := altBlank_step p h.inv
  have sa := BSp.altBlank_src p
  refine ⟨?_, sa.2.2.2.1, sa.2.2.1⟩
  unfold altBlank at a sa ⊢
  split
  · rename_i hb
    rw [if_pos hb] at a sa
    have key := spineModify_ok (N := NP p.source) (Q := QT) (Q' := QT) (fun _ _ h => h)
      (fun b => match b with
        | .mk l bs is => match bs.getLast? with
          | some c => .mk l (bs.dropLast ++ [c.setLabel fun cl => { cl with lastLineBlank := true }]) is
          | none => .mk l bs is) p.depth p.root h.wf (by
      intro c _ hcw
      obtain ⟨l, bs, is⟩ := c
      simp only []
      cases hgl : bs.getLast? with
      | none => exact ⟨hcw, Le.refl _ _, rfl⟩
      | some c0 =>
        simp only []
        have hc0 : WF QT c0 := (WF_mk.mp hcw).2.2.2 c0 (List.mem_of_getLast? hgl)
        have := replaceLast_ok (N := NP p.source) (Q' := QT)
          (new := [c0.setLabel fun cl => { cl with lastLineBlank := true }]) (fun _ _ h => h) hcw hgl
          (by intro c' hc'
              simp only [List.mem_singleton] at hc'
              subst hc'
              exact WF_setLabel_T (fun cl => { cl with lastLineBlank := true }) (fun _ => rfl) (fun _ => rfl) c0 hc0)
          (LeL.single (Le.of_eq (fun j => covPB_setLabel (fun cl => { cl with lastLineBlank := true })
            (fun _ => rfl) (fun _ => rfl) (fun _ => rfl) c0 j)))
          (by intro hk c' hc'
              simp only [List.mem_singleton] at hc'
              subst hc'
              obtain ⟨l0, b0, i0⟩ := c0
              exact hk)
        exact ⟨this.1, this.2, rfl⟩)
    exact h.edit a.inv rfl rfl rfl key.1 key.2.1 (fun h2 => by rw [a.state] at h2; exact h2)
  · exact h

/-- step 2 of `addLineText`. -/
theorem altFlags_C {Q : ParaPred} {S : Bytes} {L : Nat} (b : Bool) (p : LP) (h : CI Q S L Z p)
    (hnp : (∀ l is, Q l is = true) ∨ p.containerKind ≠ BK.paragraph) :
    CI Q S L Z (altFlags b p) ∧ (altFlags b p).i = p.i ∧ (altFlags b p).line = p.line := by
  have a := altFlags_step b p h.inv
  refine ⟨?_, rfl, rfl⟩
  unfold altFlags at a ⊢
  simp only [] at a ⊢
  have key := setBlankFlags_ok (Q := Q) (NP p.source)
    (b && !(p.containerKind == BK.blockQuote || p.containerKind == BK.fencedCode ||
      p.containerKind == BK.listItem && p.container.childCount == 1 && decide (p.container.label.start ≥ ↑p.lineStart)))
    p.depth p.root h.wf (by
    intro j hj l bs is hg ho hp
    rcases hnp with hnp | hnp
    · exact hnp _ _
    · exfalso
      by_cases hjd : j = p.depth
      · subst hjd
        have hg' := container_get p h.inv.tree
        rw [hg] at hg'
        have : p.containerKind = l.kind := by
          unfold LP.containerKind
          have := Option.some.inj hg'
          rw [← this]; rfl
        rw [this] at hnp
        exact hnp hp
      · -- a proper ancestor has a child, so it is of a container kind
        have hsome : (spineGet p.root (j + 1)).isSome :=
          spineGet_isSome_of_le p.depth p.root (j + 1) (by omega) h.inv.tree.valid
        rw [BSp.spineGet_succ_eq, hg] at hsome
        have hne : bs ≠ [] := by
          intro e
          rw [e] at hsome
          simp [PB.blocks] at hsome
        have hw := WF_spineGet j p.root _ h.wf hg
        have := ((WF_mk.mp hw).1.of_child hne).1
        exact (isContainerKind_not_para this).1 hp)
  exact h.edit a.inv rfl rfl rfl key.1 key.2.1 (fun h2 => by rw [a.state] at h2; exact h2)

theorem acceptsLines_leaf (k : Nat) (h : acceptsLines k = true) : isContainerKind k = false := by
  unfold acceptsLines at h
  split at h
  · rename_i hk; have : k = 6 := by simpa using hk
    subst this; rfl
  split at h
  · rename_i hk; have : k = 5 := by simpa using hk
    subst this; rfl
  split at h
  · rename_i hk; have : k = 3 := by simpa using hk
    subst this; rfl
  split at h
  · rename_i hk; have : k = 7 := by simpa using hk
    subst this; rfl
  split at h
  · rename_i hk; have : k = 1 := by simpa using hk
    subst this; rfl
  · cases h

/-- Appending a leaf keeps `Done`. -/
theorem Done.append {S : Bytes} {L : Nat} {q : LP} (h : Done S L q) (t : Tree) (hnc : isContainerKind q.containerKind = false)
    (ht : inlOK t = true) (hch : t.children = []) (hs4 : q.state ≠ 4) : Done S L (q.appendInline t) := by
  have tr := appendInline_tree (Q := QT) (Q' := QT) (fun _ _ h => h) (NP q.source) q t h.ci.inv.tree h.ci.wf hnc ht (Or.inl hch)
    (Or.inr (fun _ _ => rfl))
  refine ⟨h.ci.edit (appendInline_inv q t h.ci.inv) rfl rfl rfl tr.1 tr.2.1 (fun h2 => h2), fun j hj hn => ?_,
    fun h4 => absurd h4 hs4⟩
  exact tr.2.1 j ⟨by rw [h.ci.seq]; exact hj, by rw [h.ci.seq]; exact hn⟩ (h.all j hj hn)

/-- step 4 of `addLineText`: the text node covers the rest of the line. -/
theorem altTail_C {S : Bytes} {L : Nat} (q : LP) (h : CI QT S L Z q) (hacc : acceptsLines q.containerKind = true)
    (hs4 : q.state ≠ 4) : Done S L (altTail q) := by
  have hnc := acceptsLines_leaf _ hacc
  unfold altTail
  simp only []
  generalize (if (q.containerKind == BK.indentedCode || q.containerKind == BK.fencedCode) = true then IK.text
    else if (q.containerKind == BK.htmlBlock) = true then IK.rawHTML else IK.unparsed) = kd
  have hile := h.inv.cur.hi
  have hlen := h.line_length
  rw [h.seq] at hlen
  have tr := appendInline_tree (Q := QT) (Q' := QT) (fun _ _ h => h) (NP q.source) q
    (mkInline kd ((q.lineStart : Int) + (q.i : Int)) ((q.lineStart : Int) + (q.line.length : Int))) h.inv.tree h.wf hnc
    (inlOK_mkInline _ _ _ (by omega) (by omega)) (Or.inl rfl) (Or.inr (fun _ _ => rfl))
  have d1 : Done S L (q.appendInline (mkInline kd ((q.lineStart : Int) + (q.i : Int)) ((q.lineStart : Int) + (q.line.length : Int)))) := by
    refine ⟨(h.edit (appendInline_inv q _ h.inv) rfl rfl rfl tr.1 tr.2.1 (fun h2 => h2)).toTrue, fun j hj hn => ?_,
      fun h4 => absurd h4 hs4⟩
    by_cases hlt : j < q.lineStart + q.i
    · exact tr.2.1 j ⟨by rw [h.seq]; exact hj, by rw [h.seq]; exact hn⟩ (h.cov j hlt (by rw [h.seq]; exact hn))
    · apply tr.2.2 j
      rw [covT_mkInline]
      simp only [Bool.and_eq_true, decide_eq_true_eq]
      omega
  split
  · apply d1.append
    · rw [appendInline_containerKind _ _ h.inv.tree]; exact hnc
    · exact inlOK_mkInline _ _ _ (by omega) (Int.le_refl _)
    · rfl
    · exact hs4
  · exact d1

theorem openingLoop_false (x : PExt) : ∀ (fuel : Nat) (p : LP), (openingLoop x fuel p).1 = false →
    (openingLoop x fuel p).2.state = 2 := by
  intro fuel
  induction fuel with
  | zero => intro p h; simp [openingLoop] at h
  | succ fuel ih =>
    intro p h
    unfold openingLoop at h ⊢
    split
    · rename_i hc; rw [if_pos hc] at h; cases h
    · rename_i hc
      rw [if_neg hc] at h
      simp only [] at h ⊢
      split
      · rename_i h1; rw [if_pos h1] at h; exact ih _ h
      · rename_i h1
        rw [if_neg h1] at h
        split
        · rename_i h2; simpa [stateLineConsumed] using h2
        · rename_i h2; rw [if_neg h2] at h; cases h

/-! ### openNewBlocks -/

structure ONC (Q' : ParaPred) (S : Bytes) (L : Nat) (Z : Prop) (r : Bool × LP) : Prop where
  ci : CI Q' S L Z r.2
  done : r.1 = false → r.2.i = r.2.line.length
  st4 : r.2.state = 4 → False

theorem closeDoc_ne (x : PExt) (src : Bytes) (e : Int) (b : PB) (hk : b.kind = BK.document) :
    ∃ b', closeBlock x src e b = [b'] := by
  obtain ⟨l, bs, is⟩ := b
  have hk' : l.kind = BK.document := hk
  obtain ⟨l', bs', is', h, _⟩ := BSp.closeBlock_ne_nil_of_not_para x src e l bs is (by rw [hk']; decide) (by rw [hk']; decide)
  exact ⟨_, h⟩

theorem openNewBlocks_C {Q Q' : ParaPred} {S : Bytes} {L : Nat} (x : PExt) (p : LP) (allMatched : Bool) (h : CI Q S L Z p)
    (hq : ∀ l is, Q l is = true → Q' l is = true) (hP : ParaClose Q Q x S L) (hP' : ParaClose Q' Q' x S L)
    (hS : SetextClose Q Q' x S ((L : Int) + (p.line.length : Int))) (hs4 : p.state ≠ 4) :
    ONC Q' S L Z (openNewBlocks x p allMatched) := by
  unfold openNewBlocks
  split
  · -- end of input
    rename_i hemp
    have hl0 : p.line.length = 0 := by
      have : p.line = [] := by simpa using hemp
      rw [this]; rfl
    have h0 := h.setDepth 0 (Nat.zero_le _)
    have cc := closeContainer_post x ({ p with depth := 0 } : LP) (↑p.lineStart) h0.inv.tree
    have r := closeBlock_ok (Q := Q) (Q' := Q') x p.source (↑p.lineStart) (Int.natCast_nonneg _) hq (by
      intro l is ho hk hQ
      have := hP l is ho hk hQ
      rw [← h.seq, ← h.leq] at this
      exact ⟨fun c hc => WF.mono hq c (this.1 c hc), this.2⟩) p.root h.wf
    obtain ⟨b', hb'⟩ := closeDoc_ne x p.source (↑p.lineStart) p.root h.inv.tree.root
    have hroot : (({ p with depth := 0 } : LP).closeContainer x (↑p.lineStart)).root = b' := by
      unfold LP.closeContainer
      simp only [beq_self_eq_true, if_true]
      show (closeBlock x p.source (↑p.lineStart) p.root).headD p.root = b'
      rw [hb']; rfl
    have hs := BSp.closeContainer_src x ({ p with depth := 0 } : LP) (↑p.lineStart)
    refine ⟨h0.edit (cc.inv h0.inv) hs.1 hs.2.1 cc.cur ?_ ?_ (fun h2 => by rw [cc.state] at h2; exact h2), fun _ => ?_,
      fun h4 => hs4 (by rw [cc.state] at h4; exact h4)⟩
    · rw [hroot]; exact r.1 b' (by rw [hb']; exact List.mem_cons_self)
    · rw [hroot]
      intro j hn hc
      have := r.2 j hn (by rw [covPBs_cons, covPBs_nil, Bool.or_false]; exact hc)
      rw [hb', covPBs_cons, covPBs_nil, Bool.or_false] at this
      exact this
    · show (({ p with depth := 0 } : LP).closeContainer x (↑p.lineStart)).i = (({ p with depth := 0 } : LP).closeContainer x (↑p.lineStart)).line.length
      rw [hs.2.2.2, hs.2.2.1]
      have := h.inv.cur.hi
      show p.i = p.line.length
      omega
  · have ol := openingLoop_C x hq hP p.line.length hS (p.line.length + 8) Z p h rfl hs4
    have olp := openingLoop_post x (p.line.length + 8) p h.inv (fun h' => by omega)
    generalize openingLoop x (p.line.length + 8) p = r at ol olp
    obtain ⟨hasText, q⟩ := r
    simp only [] at ol olp ⊢
    have hdone : hasText = false → q.i = q.line.length := ol.done
    split
    · exact ⟨ol.ci', hdone, ol.st4⟩
    · split
      · rename_i hc
        simp only [Bool.and_eq_true, beq_iff_eq] at hc
        have hk := hc.2
        have hv : (spineGet q.root (tipDepth q.root 0)).isSome := by
          cases hsg : spineGet q.root (tipDepth q.root 0) with
          | none =>
            rw [hsg] at hk
            have := olp.inv.tree.root
            simp only [Option.getD_none] at hk
            rw [hk] at this; cases this
          | some c => rfl
        refine ⟨⟨⟨olp.inv.panic, ⟨olp.inv.cur.hi, olp.inv.cur.htab⟩, ⟨olp.inv.tree.root, hv⟩⟩, ol.ci'.src, ol.ci'.ls, ol.ci'.eol,
          ol.ci'.wf, ol.ci'.cov, ol.ci'.seq, ol.ci'.leq, ol.ci'.cons⟩, hdone, ol.st4⟩
      · have c := closeLastChild_C (Q' := Q') x q q.lineStart ol.ci' (Int.natCast_nonneg _) (fun _ _ h => h)
          (by rw [ol.ci'.seq, ol.ci'.leq]; exact hP')
        exact ⟨c, hdone, ol.st4⟩

/-! ### addLineText -/

theorem addLineText_C {Q' : ParaPred} {S : Bytes} {L : Nat} (x : PExt) (p : LP) (h : CI Q' S L Z p)
    (hP' : ParaClose Q' Q' x S L) (hs : acceptsLines p.containerKind = false → p.state ≤ 2) (hs4 : p.state ≠ 4) :
    Done S L (addLineText x p) := by
  have mm4 : ∀ s : Nat, s ≠ 4 → mm s ≠ 4 := by
    intro s h
    unfold mm
    simp only [stateOpening, stateOpenMatched]
    by_cases h0 : s = 0
    · subst h0; simp
    · have : (s == 0) = false := by simp [h0]
      simp [this, h]
  rw [addLineText_eq]
  cases hacc : acceptsLines p.containerKind
  · -- the container does not take text
    have hnp : p.containerKind ≠ BK.paragraph := by
      intro e; rw [e] at hacc; revert hacc; decide
    cases hblank : p.isRestBlank
    · -- a new paragraph
      have eA : altBlank p = p := by unfold altBlank; rw [hblank]; rfl
      rw [eA]
      have b := altFlags_step false p h.inv
      obtain ⟨cB, iB, lB⟩ := altFlags_C false p h (Or.inr hnp)
      generalize altFlags false p = pB at b cB iB lB
      have kB : pB.containerKind = p.containerKind := b.ckind
      have hcont : altCont x false pB = some ((pB.openBlock x BK.paragraph).consumeIndentN (pB.openBlock x BK.paragraph).indent) := by
        unfold altCont
        simp only [kB, hacc, Bool.false_eq_true, if_false, Bool.not_false, if_true]
      rw [hcont]
      simp only []
      have sB : pB.state ≤ 2 := by rw [b.state]; exact hs hacc
      have ob := openBlock_inv x pB BK.paragraph id id_kind cB.inv sB (Or.inl (by decide))
      obtain ⟨cC, _, _, _, _⟩ := openBlock_C (Q := Q') (Q' := QT) x pB BK.paragraph id cB
        (by rw [cB.seq, cB.leq]; exact hP') sB (Or.inl (by decide)) id_kind (fun _ _ _ => rfl) (Or.inr (fun _ _ => rfl)) (by decide)
      generalize pB.openBlock x BK.paragraph = pC at ob cC
      have ci := consumeIndentN_post pC pC.indent cC.inv.cur (Nat.le_refl _)
      have cD := cC.ofCI ci
      apply altTail_C _ cD
      · rw [ci.ckind, ob.ckind]; decide
      · rw [ci.state]
        have : pC.state ≠ 4 := by rw [ob.state]; exact mm4 _ (by rw [b.state]; exact hs4)
        split
        · exact this
        · exact mm4 _ this
    · -- a blank line: only the flags change
      have a := altBlank_step p h.inv
      obtain ⟨cA, iA, lA⟩ := altBlank_C p h.toQT
      have b := altFlags_step true (altBlank p) a.inv
      obtain ⟨cB, iB, lB⟩ := altFlags_C true (altBlank p) cA (Or.inl (fun _ _ => rfl))
      have kB : (altFlags true (altBlank p)).containerKind = p.containerKind := by rw [b.ckind, a.ckind]
      have hcont : altCont x true (altFlags true (altBlank p)) = none := by
        unfold altCont
        simp only [kB, hacc, Bool.false_eq_true, if_false, Bool.not_true]
      rw [hcont]
      simp only []
      apply Done.of_blank cB
      · rw [iB, lB, iA, lA]
        exact hblank
      · rw [b.state, a.state]; exact hs4
  · -- the container takes the text
    have a := altBlank_step p h.inv
    obtain ⟨cA, iA, lA⟩ := altBlank_C p h.toQT
    have b := altFlags_step p.isRestBlank (altBlank p) a.inv
    obtain ⟨cB, iB, lB⟩ := altFlags_C p.isRestBlank (altBlank p) cA (Or.inl (fun _ _ => rfl))
    generalize altFlags p.isRestBlank (altBlank p) = pB at b cB iB lB
    have kB : pB.containerKind = p.containerKind := by rw [b.ckind, a.ckind]
    have sB4 : pB.state ≠ 4 := by rw [b.state, a.state]; exact hs4
    rw [BSp.altCont_acc x _ pB (by rw [kB]; exact hacc)]
    simp only []
    split
    · rename_i hc
      simp only [Bool.and_eq_true, decide_eq_true_eq, beq_iff_eq] at hc
      obtain ⟨⟨⟨hlt, htab⟩, hrem⟩, _⟩ := hc
      have hnc : isContainerKind pB.containerKind = false := acceptsLines_leaf _ (by rw [kB]; exact hacc)
      have tr := appendInline_tree (Q := QT) (Q' := QT) (fun _ _ h => h) (NP pB.source) pB
        (.node { isBlock := false, kind := IK.indent, start := pB.lineStart + pB.i, stop := pB.lineStart + pB.i + 1, indent := pB.tabRem } [])
        cB.inv.tree cB.wf hnc
        (by rw [inlOK_iff]
            refine ⟨?_, ?_, deepOK_leaf _⟩
            · show (0 : Int) ≤ (pB.lineStart : Int) + (pB.i : Int); omega
            · show (pB.lineStart : Int) + (pB.i : Int) ≤ (pB.lineStart : Int) + (pB.i : Int) + 1; omega)
        (Or.inl rfl) (Or.inr (fun _ _ => rfl))
      have ia := appendInline_inv pB
        (.node { isBlock := false, kind := IK.indent, start := pB.lineStart + pB.i, stop := pB.lineStart + pB.i + 1, indent := pB.tabRem } [])
        cB.inv
      have cT := cB.edit ia rfl rfl rfl tr.1 tr.2.1 (fun h2 => h2)
      have ci := consumeIndentN_post (pB.appendInline
        (.node { isBlock := false, kind := IK.indent, start := pB.lineStart + pB.i, stop := pB.lineStart + pB.i + 1, indent := pB.tabRem } []))
        pB.tabRem ia.cur (by
          rw [indent_of_cur (appendInline_cur pB _), indent_tab pB hlt htab]
          omega)
      apply altTail_C _ (cT.ofCI ci)
      · rw [ci.ckind, appendInline_containerKind _ _ cB.inv.tree, kB]; exact hacc
      · rw [ci.state]
        have : (pB.appendInline
            (.node { isBlock := false, kind := IK.indent, start := pB.lineStart + pB.i, stop := pB.lineStart + pB.i + 1, indent := pB.tabRem } [])).state ≠ 4 := sB4
        split
        · exact this
        · exact mm4 _ this
    · exact altTail_C pB cB (by rw [kB]; exact hacc) sB4

/-! ### processLine -/

/-- **One line of the block phase.** The state `p` (after `reset`): every needed byte of the source before the line is
    covered, the tree is well formed with the open paragraphs satisfying `Q`; `Q` / `Q'` meet the contracts for
    `onCloseParagraph`. Then after `processLine` every needed byte of the whole source — including the new line — is
    covered by a leaf. -/
theorem processLine_C {Q Q' : ParaPred} {S : Bytes} {L : Nat} (x : PExt) (p : LP) (h : CI Q S L Z p) (hf : Fresh x p)
    (hq : ∀ l is, Q l is = true → Q' l is = true) (hP : ParaClose Q Q x S L) (hP' : ParaClose Q' Q' x S L)
    (hS : SetextClose Q Q' x S ((L : Int) + (p.line.length : Int))) : Done S L (processLine x p) := by
  unfold processLine
  have d := descendOpenBlocks_C x p h hf
  have di := descendOpenBlocks_inv x p h.inv
  have dl : (descendOpenBlocks x p).2.line = p.line := by
    have := h.src
    have e := d.ci.src
    rw [d.ci.seq, d.ci.leq] at e
    rw [h.seq, h.leq] at this
    rw [e, this]
  generalize descendOpenBlocks x p = r at d di dl
  obtain ⟨allMatched, p1⟩ := r
  simp only [] at d di dl ⊢
  split
  · rename_i h4
    have h4' : p1.state = 4 := by simpa [stateDescendTerminated] using h4
    exact Done.of_end d.ci (d.term h4').1 (fun _ => (d.term h4').2.2)
  · rename_i h4
    have hn4 : p1.state ≠ 4 := by simpa [stateDescendTerminated] using h4
    have o := openNewBlocks_C x p1 allMatched d.ci hq hP hP' (by rw [dl]; exact hS) hn4
    have op := openNewBlocks_post x p1 allMatched di
    generalize openNewBlocks x p1 allMatched = r2 at o op
    obtain ⟨hasText, p2⟩ := r2
    simp only [] at o op ⊢
    split
    · rename_i ht
      exact addLineText_C x p2 o.ci hP' (op.st ht) (fun h4' => o.st4 h4')
    · rename_i ht
      exact Done.of_end o.ci (o.done (by simpa using ht)) (fun h4' => (o.st4 h4').elim)

end CM.Proofs.Cov
