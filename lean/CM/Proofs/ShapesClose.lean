import CM.Proofs.ShapesSrc
import CM.Proofs.BGClose
import CM.Proofs.BlocksWellClose
/-
C13, block half — `closeBlock` keeps `Sh`: a block that is good "if closed at or after `e`" is replaced, when it is closed
at `e' ≥ e` (inside the source), by a good list of blocks.
-/
namespace CM.Proofs.Shp
open CM CM.Model CM.Gen CM.Proofs.BG

/-! ### the kinds `refDefLoop` returns -/

/-- Kinds of the blocks a paragraph-like block of kind `k0` is split into. -/
def KL (k0 : Nat) (L : List PB) : Prop := ∀ c ∈ L, c.kind = k0 ∨ c.kind = BK.linkRefDef ∨ c.kind = BK.paragraph

theorem KL.append {k0 : Nat} {a b : List PB} (h1 : KL k0 a) (h2 : KL k0 b) : KL k0 (a ++ b) := by
  intro c hc
  rw [List.mem_append] at hc
  rcases hc with hc | hc
  · exact h1 c hc
  · exact h2 c hc

theorem KL.single {k0 : Nat} {b : PB} (h : b.kind = k0 ∨ b.kind = BK.linkRefDef ∨ b.kind = BK.paragraph) : KL k0 [b] := by
  intro c hc
  simp only [List.mem_singleton] at hc
  subst hc
  exact h

theorem KL.nil (k0 : Nat) : KL k0 [] := by intro c hc; cases hc

theorem refDefLoop_kinds (x : PExt) (src : Bytes) (orphan : Option PB)
    (fuel : Nat) (r : Rd) (l : PLabel) (is : List Tree) (result : List PB) :
    (∀ o, orphan = some o → o.kind = BK.paragraph) → KL l.kind result →
    KL l.kind (refDefLoop x src orphan fuel r l is result) := by
  cases orphan <;> fun_induction refDefLoop x src _ fuel r l is result
  all_goals intro ho hres
  all_goals first
    | exact hres.append (KL.single (Or.inl rfl))
    | exact hres.append (KL.single (Or.inr (Or.inl rfl)))
    | exact (hres.append (KL.single (Or.inr (Or.inl rfl)))).append (KL.single (Or.inr (Or.inr (ho _ rfl))))
    | exact (hres.append (KL.single (Or.inr (Or.inl rfl)))).append (KL.single (Or.inl rfl))
    | (rename_i ih; exact ih ho (hres.append (KL.single (Or.inr (Or.inl rfl)))))

theorem onCloseParagraph_kinds (x : PExt) (src : Bytes) (l : PLabel) (bs : List PB) (is : List Tree) :
    KL l.kind (onCloseParagraph x src (.mk l bs is)) := by
  cases is with
  | nil => unfold onCloseParagraph; exact KL.single (Or.inl rfl)
  | cons first rest =>
    unfold onCloseParagraph
    simp only []
    apply refDefLoop_kinds _ _ _ _ _ _ _ _ _ (KL.nil _)
    intro o ho
    split at ho
    · simp only [Option.some.injEq] at ho
      subst ho
      rfl
    · cases ho

/-! ### inline children as `ParaOK` -/

theorem inls_facts {lo e : Int} : ∀ {is : List Tree}, BSp.InlsOK lo e is →
    (∀ t ∈ is, lo ≤ t.label.start ∧ t.label.start ≤ t.label.stop ∧ t.label.stop ≤ e) ∧ SortedSpans is := by
  intro is
  induction is generalizing lo with
  | nil => intro _; exact ⟨fun _ h => (by cases h), List.Pairwise.nil⟩
  | cons t rest ih =>
    intro h
    rw [BSp.InlsOK_cons] at h
    obtain ⟨h1, h2, h3, h4⟩ := h
    obtain ⟨r1, r2⟩ := ih h4
    refine ⟨?_, ?_⟩
    · intro u hu
      rcases List.mem_cons.mp hu with rfl | hu
      · exact ⟨h1, h2, h3⟩
      · have := r1 u hu
        exact ⟨by omega, this.2.1, this.2.2⟩
    · unfold SortedSpans
      rw [List.pairwise_cons]
      exact ⟨fun u hu => (r1 u hu).1, r2⟩

theorem paraOK_of_inls {lo e : Int} {l : PLabel} {is : List Tree} (h0 : 0 ≤ e) (h : BSp.InlsOK lo e is) :
    ParaOK e.toNat (.mk l [] is) := by
  obtain ⟨r1, r2⟩ := inls_facts h
  refine ⟨?_, r2, fun t ht => (r1 t ht).2.1, rfl⟩
  intro t ht
  have := r1 t ht
  unfold TB
  have : ((e.toNat : Nat) : Int) = e := Int.toNat_of_nonneg h0
  omega

/-! ### the blocks a paragraph is split into -/

/-- A result of `onCloseParagraph`: no block children, paragraph-like or a definition. -/
structure LeafRes (setx : Bool) (c : PB) : Prop where
  leaf : c.blocks = []
  kind : c.kind = BK.linkRefDef ∨ c.kind = BK.paragraph ∨ (c.kind = BK.setextHeading ∧ setx = false)

theorem leafRes_shape {setx : Bool} {src : Bytes} {e : Int} {l : PLabel}
    (hk : l.kind = BK.linkRefDef ∨ l.kind = BK.paragraph ∨ (l.kind = BK.setextHeading ∧ setx = false)) :
    shapeKind setx l.kind = false ∧ shapeOK setx src e l = true := by
  rcases hk with hk | hk | ⟨hk, hsx⟩
  · exact ⟨by rw [hk]; cases setx <;> rfl, shapeOK_free (by rw [hk]; decide) (by rw [hk]; decide) (by rw [hk]; decide)
      (by rw [hk]; decide) (fun h => by rw [hk] at h; exact absurd h (by decide))⟩
  · exact ⟨by rw [hk]; cases setx <;> rfl, shapeOK_free (by rw [hk]; decide) (by rw [hk]; decide) (by rw [hk]; decide)
      (by rw [hk]; decide) (fun h => by rw [hk] at h; exact absurd h (by decide))⟩
  · subst hsx
    exact ⟨by rw [hk]; rfl, shapeOK_free (by rw [hk]; decide) (by rw [hk]; decide) (by rw [hk]; decide)
      (by rw [hk]; decide) (fun _ => rfl)⟩

theorem leafRes_closed {setx : Bool} {src : Bytes} {lo e : Int} {c : PB} (h : LeafRes setx c) (h0 : 0 ≤ c.label.stop)
    (hlo : lo ≤ c.label.stop) (he : c.label.stop ≤ e) : Sh setx src lo e c := by
  obtain ⟨l, bs, is⟩ := c
  have hb : bs = [] := h.leaf
  subst hb
  rw [Sh_mk]
  refine ⟨?_, ShL_nil _ _ _ _ _⟩
  simp only [PB.label] at h0 hlo he
  obtain ⟨s1, s2⟩ := leafRes_shape (src := src) (e := e) (l := l) h.kind
  rw [nodeOK_iff, kindOK_iff, textOK_iff, openOK_iff]
  exact ⟨he, fun _ => hlo, fun hs => (by rw [s1] at hs; cases hs), s2, fun _ ho => (by omega), fun ho => (by omega)⟩

/-- The definitions split off a paragraph: closed, in increasing order of their ends. -/
theorem pre_ShL {setx : Bool} {src : Bytes} {e : Int} {Pb : Nat} : ∀ {pre : List PB} {lo : Int}, 0 ≤ lo →
    (∀ c ∈ pre, LeafRes setx c) → (∀ c ∈ pre, lo ≤ c.label.stop ∧ c.label.stop ≤ (Pb : Int)) →
    pre.Pairwise (fun a b => a.label.stop ≤ b.label.stop) → (Pb : Int) ≤ e →
    ShL setx src false lo e pre ∧ thr lo pre ≤ max lo Pb := by
  intro pre
  induction pre with
  | nil => intro lo _ _ _ _ _; exact ⟨ShL_nil _ _ _ _ _, by simp [thr]; omega⟩
  | cons c rest ih =>
    intro lo h0 hl hb hp hPe
    rw [List.pairwise_cons] at hp
    have hc := hb c (by simp)
    rw [ShL_cons]
    simp only [thr]
    have hmax : max lo c.label.stop = c.label.stop := by omega
    rw [hmax]
    have r := ih (lo := c.label.stop) (by omega) (fun c' hc' => hl c' (by simp [hc']))
      (fun c' hc' => ⟨hp.1 c' hc', (hb c' (by simp [hc'])).2⟩) hp.2 hPe
    refine ⟨⟨leafRes_closed (hl c (by simp)) (by omega) hc.1 (by omega), fun ho => ?_, r.1⟩, ?_⟩
    · rw [isOpen_iff] at ho; omega
    · have := r.2
      omega

theorem mem_of_para3 {setx : Bool} {k0 : Nat} {c : PB} (hg : PBGrammar c) (hp3 : Para3 c.kind)
    (hk : c.kind = k0 ∨ c.kind = BK.linkRefDef ∨ c.kind = BK.paragraph) (hset : k0 = BK.setextHeading → setx = false) :
    LeafRes setx c := by
  obtain ⟨l, bs, is⟩ := c
  have hloc := ((PBGrammar_mk l bs is).1 hg).1
  have hbs : bs = [] := by
    unfold localOK at hloc
    simp only [Bool.and_eq_true] at hloc
    have hb := hloc.1
    unfold blocksOK at hb
    have hp3' : l.kind = BK.paragraph ∨ l.kind = BK.setextHeading ∨ l.kind = BK.linkRefDef := hp3
    have e1 : (l.kind == BK.document || l.kind == BK.blockQuote) = false := by
      rcases hp3' with hp | hp | hp <;> rw [hp] <;> decide
    have e2 : (l.kind == BK.listItem) = false := by
      rcases hp3' with hp | hp | hp <;> rw [hp] <;> decide
    have e3 : (l.kind == BK.list) = false := by
      rcases hp3' with hp | hp | hp <;> rw [hp] <;> decide
    simp only [e1, e2, e3, Bool.false_eq_true, if_false] at hb
    simpa using hb
  refine ⟨hbs, ?_⟩
  have hp3' : l.kind = BK.paragraph ∨ l.kind = BK.setextHeading ∨ l.kind = BK.linkRefDef := hp3
  rcases hp3' with hp | hp | hp
  · exact Or.inr (Or.inl hp)
  · right; right
    refine ⟨hp, hset ?_⟩
    have hk' : l.kind = k0 ∨ l.kind = BK.linkRefDef ∨ l.kind = BK.paragraph := hk
    rcases hk' with h | h | h
    · rw [← h]; exact hp
    · rw [hp] at h; exact absurd h (by decide)
    · rw [hp] at h; exact absurd h (by decide)
  · exact Or.inl hp

/-- **Closing a paragraph-like block.** -/
theorem onCloseParagraph_Sh {setx : Bool} (x : PExt) (src : Bytes) (l : PLabel) (is : List Tree) (lo e e' : Int)
    (h0 : 0 ≤ lo) (hlo : lo ≤ e) (he : e ≤ e') (hp : Para l.kind) (hne : l.kind ≠ BK.setextHeading)
    (hloc : localOK l [] is = true) (hi : BSp.InlsOK lo e is) (po : Bool) :
    ShL setx src po lo e' (onCloseParagraph x src (.mk { l with stop := e' } [] is)) := by
  have hset : l.kind = BK.setextHeading → setx = false := fun h => absurd h hne
  have hg := onCloseParagraph_good x src { l with stop := e' } is hp (by
    rw [localOK_congr (l := l) (l' := { l with stop := e' }) rfl rfl rfl]; exact hloc)
  have hkl := onCloseParagraph_kinds x src { l with stop := e' } [] is
  have hleaf : ∀ c ∈ onCloseParagraph x src (.mk { l with stop := e' } [] is), LeafRes setx c :=
    fun c hc => mem_of_para3 (hg c hc).1 (hg c hc).2 (hkl c hc) hset
  cases is with
  | nil =>
    have : onCloseParagraph x src (.mk { l with stop := e' } [] []) = [.mk { l with stop := e' } [] []] := by
      unfold onCloseParagraph; rfl
    rw [this] at hleaf ⊢
    rw [ShL_single]
    refine ⟨leafRes_closed (hleaf _ (by simp)) (by show 0 ≤ e'; omega) (by show lo ≤ e'; omega) (Int.le_refl _), fun ho => ?_⟩
    rw [isOpen_iff] at ho
    have : e' < 0 := ho
    omega
  | cons first rest =>
    have hpok : ParaOK e.toNat (.mk { l with stop := e' } [] (first :: rest)) := paraOK_of_inls (by omega) hi
    have hsh := onCloseParagraph_shape x src { l with stop := e' } [] first rest hpok
      (by show ((e.toNat : Nat) : Int) ≤ e'; have : ((e.toNat : Nat) : Int) = e := Int.toNat_of_nonneg (by omega); omega)
    generalize onCloseParagraph x src (.mk { l with stop := e' } [] (first :: rest)) = out at hleaf hsh
    obtain ⟨Pb, pre, hPb, hpre, hcases⟩ := hsh
    have hfirst : lo ≤ first.label.start := by
      rw [BSp.InlsOK_cons] at hi; exact hi.1
    have hetn : ((e.toNat : Nat) : Int) = e := Int.toNat_of_nonneg (by omega)
    have hfn : ((first.label.start.toNat : Nat) : Int) = first.label.start := Int.toNat_of_nonneg (by omega)
    have hPbe : (Pb : Int) ≤ e' := by omega
    have hpreb : ∀ c ∈ pre, lo ≤ c.label.stop ∧ c.label.stop ≤ (Pb : Int) := by
      intro c hc
      have := hpre.1 c hc
      omega
    have hstop : ({ l with stop := e' } : PLabel).stop = e' := rfl
    rw [hstop] at hcases
    rcases hcases with ⟨rfl, _⟩ | ⟨last, rfl, hlast⟩ | ⟨o, rfl, _, hsetx, hor⟩
    · exact ShL_po (pre_ShL h0 hleaf hpreb hpre.2 hPbe).1
    · have hl1 : ∀ c ∈ pre, LeafRes setx c := fun c hc => hleaf c (by simp [hc])
      have r := pre_ShL (setx := setx) (src := src) (e := e') h0 hl1 hpreb hpre.2 hPbe
      rw [ShL_snoc]
      refine ⟨r.1, leafRes_closed (hleaf last (by simp)) (by omega) ?_ (by omega), fun ho => ?_⟩
      · have := r.2
        omega
      · rw [isOpen_iff] at ho; omega
    · exact absurd hsetx hne

/-! ### `closeBlock` returns at least one block -/

theorem refDefLoop_ne_nil' (x : PExt) (src : Bytes) (orphan : Option PB)
    (fuel : Nat) (r : Rd) (l : PLabel) (is : List Tree) (result : List PB) :
    refDefLoop x src orphan fuel r l is result ≠ [] := by
  cases orphan <;> fun_induction refDefLoop x src _ fuel r l is result
  all_goals first
    | (simp +zetaDelta; done)
    | (rename_i ih; exact ih)

theorem closeBlock_ne_nil' (x : PExt) (src : Bytes) (e : Int) (b : PB) : closeBlock x src e b ≠ [] := by
  obtain ⟨l, bs, is⟩ := b
  rw [closeBlock]
  split
  · simp
  · simp only []
    split
    · split <;> simp
    · split
      · cases is with
        | nil => simp [onCloseParagraph]
        | cons first rest =>
          unfold onCloseParagraph
          simp only []
          exact refDefLoop_ne_nil' _ _ _ _ _ _ _ _
      · split <;> simp

/-! ### `closeBlock` -/

/-- The rule at a block that is being closed at `e'`. -/
theorem nodeOK_close {setx : Bool} {src : Bytes} {lo e e' : Int} {l : PLabel} {leaf : Bool} {is : List Tree}
    (ho : l.stop < 0) (hlo : lo ≤ e) (he : e ≤ e') (he' : e' ≤ src.length) (h0 : 0 ≤ lo)
    (h : nodeOK setx src lo e l leaf is = true) : nodeOK setx src lo e' { l with stop := e' } leaf is = true := by
  rw [nodeOK_iff, kindOK_iff, textOK_iff, openOK_iff] at h ⊢
  obtain ⟨h1, h2, h3, h4, h5, h6⟩ := h
  have hnse : l.kind ≠ BK.setextHeading := (h6 ho).1
  have h3' : shapeKind setx l.kind = true → lo ≤ anchor setx src ({ l with stop := e' } : PLabel) := by
    intro hk
    have := h3 hk
    rw [anchor_start (Or.inr hnse)] at this
    rw [anchor_start (Or.inr (by exact hnse))]
    exact this
  refine ⟨Int.le_refl _, fun _ => (by show lo ≤ e'; omega), h3', ?_, fun _ hop => (by exfalso; have : e' < 0 := hop; omega),
    fun hop => (by exfalso; have : e' < 0 := hop; omega)⟩
  have hE : endOf e l = e := endOf_open ho
  have hE' : endOf e' ({ l with stop := e' } : PLabel) = e' := by
    rw [endOf_closed (by show 0 ≤ e'; omega)]
  have hrun : ∀ ch, runOK src e l ch = true → runOK src e' { l with stop := e' } ch = true := by
    intro ch hr
    unfold runOK at hr ⊢
    simp only [Bool.and_eq_true, decide_eq_true_eq] at hr ⊢
    obtain ⟨⟨⟨⟨r1, r2⟩, r3⟩, r4⟩, r5⟩ := hr
    rw [hE] at r4
    rw [hE']
    refine ⟨⟨⟨⟨r1, r2⟩, r3⟩, by show l.start + l.n ≤ e'; omega⟩, ?_⟩
    rw [if_pos ho] at r5
    have hno : ¬ (({ l with stop := e' } : PLabel).stop < 0) := by show ¬ e' < 0; omega
    rw [if_neg hno]
    simp only [Bool.or_eq_true, beq_iff_eq]
    by_cases heq : l.start + l.n = e'
    · exact Or.inl heq
    · right
      have hlt : l.start.toNat + l.n.toNat < src.length := by omega
      rw [List.getElem?_eq_getElem hlt] at r5 ⊢
      simpa using r5
  unfold shapeOK at h4 ⊢
  show (if (l.kind == BK.blockQuote) = true then _ else _) = true
  split
  · rename_i hk; rw [if_pos hk] at h4
    simp only [Bool.and_eq_true, decide_eq_true_eq] at h4 ⊢
    rw [hE] at h4; rw [hE']
    exact ⟨h4.1, by show l.start + 1 ≤ e'; omega⟩
  · rename_i hk1; rw [if_neg hk1] at h4
    split
    · rename_i hk; rw [if_pos hk] at h4
      simp only [Bool.and_eq_true, decide_eq_true_eq] at h4 ⊢
      exact ⟨h4.1, hrun _ h4.2⟩
    · rename_i hk2; rw [if_neg hk2] at h4
      split
      · rename_i hk; rw [if_pos hk] at h4
        simp only [Bool.and_eq_true, decide_eq_true_eq] at h4 ⊢
        exact ⟨h4.1, hrun _ h4.2⟩
      · rename_i hk3; rw [if_neg hk3] at h4
        split
        · -- an open list marker does not satisfy the rule
          rename_i hk; rw [if_pos hk] at h4
          simp only [Bool.and_eq_true] at h4
          have := closedIn_iff.mp h4.1
          omega
        · rename_i hk4; rw [if_neg hk4] at h4
          split
          · rename_i hk; rw [if_pos hk] at h4
            simp only [Bool.or_eq_true, Bool.not_eq_true'] at h4 ⊢
            rcases h4 with h4 | h4
            · exact Or.inl h4
            · have := (setextOK_iff.mp h4).1
              omega
          · rfl

theorem closeBlock_closed (x : PExt) (src : Bytes) (e : Int) (b : PB) (h : 0 ≤ b.label.stop) : closeBlock x src e b = [b] := by
  obtain ⟨l, bs, is⟩ := b
  rw [closeBlock]
  have : l.stop ≥ 0 := h
  simp [this]

theorem paraLike_iff {k : Nat} : paraLike k = true ↔ Para k := by
  simp [paraLike, Para]

/-- **`closeBlock` keeps `Sh`**, and everything it returns is closed. -/
theorem closeBlock_Sh {setx : Bool} (x : PExt) (src : Bytes) (e e' : Int) (he : e ≤ e') (he' : e' ≤ src.length) :
    ∀ (b : PB) (lo : Int), 0 ≤ lo → PBGrammar b → Sh setx src lo e b →
      ShL setx src false lo e' (closeBlock x src e' b) := by
  apply PB.ind
  intro l bs is ih lo h0 hg h
  by_cases hcl : 0 ≤ l.stop
  · rw [closeBlock_closed x src e' (.mk l bs is) hcl, ShL_single]
    refine ⟨Sh_mono he _ lo lo (Int.le_refl _) h, fun ho => ?_⟩
    rw [isOpen_iff] at ho
    have : l.stop < 0 := ho
    omega
  have ho : l.stop < 0 := by omega
  have hlo : lo ≤ e := Sh_open_le h ho
  rw [closeBlock]
  have : ¬ l.stop ≥ 0 := by omega
  simp only [this, if_false]
  have hgm := (PBGrammar_mk l bs is).1 hg
  rw [Sh_mk] at h
  have hE : endOf e l = e := endOf_open ho
  have hd : decide (l.stop < 0) = true := by simp [ho]
  rw [hE, hd] at h
  -- the children after `closeLast`: all closed
  have kids : ShL setx src false lo e' (closeLast x src e' bs) := by
    cases hgl : bs.getLast? with
    | none =>
      have : bs = [] := by simpa using hgl
      subst this
      rw [closeLast]; exact ShL_nil _ _ _ _ _
    | some c =>
      rw [closeLast_some x src e' bs c hgl]
      obtain ⟨_, hinit, hc, _⟩ := ShL_getLast hgl h.2
      rw [ShL_append_ne (closeBlock_ne_nil' x src e' c)]
      refine ⟨ShL_mono (Int.le_refl _) he hinit, ?_⟩
      have hcm : c ∈ bs := List.mem_of_getLast? hgl
      have := thr_ge lo bs.dropLast
      exact ih c hcm _ (by omega) (hgm.2 c hcm) hc
  have hnode := nodeOK_close (leaf := bs.isEmpty) (is := is) ho hlo he he' h0 h.1
  have hclosed : ∀ l' : PLabel, SameShape { l with stop := e' } l' → 0 ≤ l'.stop := by
    intro l' hl'
    rw [hl'.2.2.1]
    show 0 ≤ e'
    omega
  -- a block that is not paragraph-like: the label is closed, the last child is closed
  have single : paraLike l.kind = false → ∀ (l' : PLabel) (bs' : List PB) (is' : List Tree),
      SameShape { l with stop := e' } l' → ShL setx src false lo e' bs' → ShL setx src false lo e' [.mk l' bs' is'] := by
    intro hnp l' bs' is' hl' hbs'
    have hc' := hclosed l' hl'
    rw [ShL_single, Sh_mk]
    refine ⟨⟨?_, ?_⟩, fun hop => ?_⟩
    · rw [nodeOK_congr hl'.1 hl'.2.1 hl'.2.2.1 hl'.2.2.2.1 hl'.2.2.2.2,
        nodeOK_inl (leaf := bs.isEmpty) (is := is) (by exact hnp)]
      exact hnode
    · have e1 : endOf e' l' = e' := by rw [endOf_closed hc', hl'.2.2.1]
      have e2 : decide (l'.stop < 0) = false := by simp; omega
      rw [e1, e2]
      exact hbs'
    · rw [isOpen_iff] at hop
      have : l'.stop < 0 := hop
      omega
  split
  · -- a list
    rename_i hk
    have hnp : paraLike l.kind = false := by
      have : l.kind = BK.list := by simpa using hk
      rw [this]; rfl
    split
    · exact single hnp _ _ _ ⟨rfl, rfl, rfl, rfl, rfl⟩
        (ShL_map_setLabel (f := fun il => { il with loose := true }) (fun _ => ⟨rfl, rfl, rfl, rfl, rfl⟩) kids)
    · exact single hnp _ _ _ (SameShape.refl _) kids
  split
  · -- a paragraph (an open setext heading does not satisfy the rule)
    rename_i hk
    have hp : Para l.kind := by
      simp only [Bool.or_eq_true, beq_iff_eq] at hk
      exact hk
    have hns := nodeOK_not_setext h.1 ho
    have hloc := hgm.1
    have hbs : bs = [] := by
      unfold localOK at hloc
      simp only [Bool.and_eq_true] at hloc
      have hb := hloc.1
      unfold blocksOK at hb
      have e1 : (l.kind == BK.document || l.kind == BK.blockQuote) = false := by
        rcases hp with hp | hp <;> rw [hp] <;> decide
      have e2 : (l.kind == BK.listItem) = false := by
        rcases hp with hp | hp <;> rw [hp] <;> decide
      have e3 : (l.kind == BK.list) = false := by
        rcases hp with hp | hp <;> rw [hp] <;> decide
      simp only [e1, e2, e3, Bool.false_eq_true, if_false] at hb
      simpa using hb
    subst hbs
    have hn := h.1
    rw [nodeOK_iff, kindOK_iff, textOK_iff] at hn
    obtain ⟨_, _, _, hshape, htext, _⟩ := hn
    have hi := (htext (paraLike_iff.mpr hp) ho).2
    exact onCloseParagraph_Sh x src l is lo e e' h0 hlo he hp hns hloc hi false
  split
  · -- indented code
    rename_i hk _ hk3
    have hnp : paraLike l.kind = false := by
      have : l.kind = BK.indentedCode := by simpa using hk3
      rw [this]; rfl
    obtain ⟨is', heq, _⟩ := indentedOnClose_eq src { l with stop := e' } bs is
    rw [heq]
    refine single hnp _ _ _ (SameShape.refl _) ?_
    -- indented code has no block children
    have hbs : bs = [] := by
      have hloc := hgm.1
      unfold localOK at hloc
      simp only [Bool.and_eq_true] at hloc
      have hb := hloc.1
      unfold blocksOK at hb
      have hk5 : l.kind = BK.indentedCode := by simpa using hk3
      rw [hk5] at hb
      simpa [BK.indentedCode, BK.document, BK.blockQuote, BK.listItem, BK.list] using hb
    rw [hbs]; exact ShL_nil _ _ _ _ _
  · rename_i hk1 hk2 hk3
    have hnp : paraLike l.kind = false := by
      simp only [Bool.or_eq_true, beq_iff_eq, not_or] at hk2
      simp [paraLike, hk2.1, hk2.2]
    exact single hnp _ _ _ (SameShape.refl _) kids

end CM.Proofs.Shp
