import CM.Proofs.ParseScanWFT
import CM.Proofs.ParseScanLkNpRewrite
import CM.Proofs.ParseWholeMain
/-
C02 / C04, inline halves, for the whole of `Parse` — the whole-parse theorems GIVEN the scanner facts of the containers of the
block-phase trees (`ContsOK2`, `ContsNP`): the tree hypotheses of `rewriteE_spansOK_nodes2` / `rewriteE_noPanic2` (`WFT`,
`0 ≤ start`, `stop ≤ |source|`) are discharged by `blockphase_WFT`.
-/
namespace CM.Proofs.PSc
open CM CM.Model CM.Gen CM.Spec CM.Model.Inl
open CM.Proofs.PW CM.Proofs.RK CM.Proofs.InlH CM.Proofs.InlH2

/-- The scanner facts of all containers of all block-phase trees of a document. -/
def BlockphaseScan (x : PExt) (ix : IExt) (inp : Bytes) : Prop :=
  ∀ pr ∈ (parseDoc x ix inp).roots,
    ContsOK2 ix pr.root.source pr.root.source.toArray (matchRefOf x ix inp) (pbToTree pr.root.block)

def BlockphaseScanNP (x : PExt) (ix : IExt) (inp : Bytes) : Prop :=
  ∀ pr ∈ (parseDoc x ix inp).roots,
    ContsNP ix pr.root.source pr.root.source.toArray (matchRefOf x ix inp) (pbToTree pr.root.block)

/-- C02, inline half, for `Parse`, given the scanner facts. -/
theorem parse_spansOK_nodes_of (x : PExt) (ix : IExt) (inp : Bytes) (hC : BlockphaseScan x ix inp) :
    ∀ pr ∈ (parseDoc x ix inp).roots, ∀ t', pr.tree = .ok t' →
      ∀ u ∈ T.nodes t', spanValid pr.root.source.length u = true ∧ childrenInside u = true ∧
        siblingsOrdered u.children = true := by
  intro pr hpr t' ht
  rw [parseDoc_tree x ix inp pr hpr] at ht
  obtain ⟨hw, h0, hn⟩ := blockphase_WFT x _ inp pr.root (root_mem_drain x ix inp pr hpr)
  exact InlH2.rewriteE_spansOK_nodes ix _ _ _ _ t' pr.root.source.length hw h0 hn (hC pr hpr) ht

/-- C04, inline half, for `Parse`, given the scanner facts. -/
theorem parse_rewrite_noPanic_of (x : PExt) (ix : IExt) (inp : Bytes) (hC : BlockphaseScan x ix inp)
    (hN : BlockphaseScanNP x ix inp) :
    ∀ pr ∈ (parseDoc x ix inp).roots, ∀ msg, pr.tree ≠ .error (.panic msg) := by
  intro pr hpr msg
  rw [parseDoc_tree x ix inp pr hpr]
  obtain ⟨hw, _, hn⟩ := blockphase_WFT x _ inp pr.root (root_mem_drain x ix inp pr hpr)
  exact InlH2.rewriteE_noPanic ix _ _ _ _ hw (by simpa using hn) (hC pr hpr) (hN pr hpr) msg

end CM.Proofs.PSc
