import CM.Proofs.BlocksContractTop
/-
C01 contract for the real block parser — the invariants `TopA` (line in progress) and `TopB` (a child of the document
has been closed at the end of the line) of the children of the document, and the tree operations that keep them.
-/
namespace CM.Proofs
open CM CM.Model CM.Gen

/-- A block of a universal kind on the spine, between the children of the document and the container. -/
def Wit (p : LP) : Prop := ∃ w b, 1 ≤ w ∧ w ≤ p.depth ∧ spineGet p.root w = some b ∧ Univ b.label.kind = true

/-- The children of the document while a line is processed (`Q`: what is known about the kind of a child opened on
    this line while it is the container).

    * `empty`: no child yet (first line of a block);
    * `old`: the one child the line started with, still open (its paragraph text ends at the start of the line);
    * `closedAt`: that child has been closed at the start of the line, nothing opened yet;
    * `new`: closed children (ending at or before the start of the line), then a child opened on this line, which
      no `openBlock` will close again: the container is below it, and a universal block (block quote, list item) lies
      between them — or it is the container itself. -/
inductive TopA (Q : Nat → Prop) (p : LP) : Prop
  | empty (h : p.root.blocks = []) : TopA Q p
  | old (k : PB) (hb : p.root.blocks = [k]) (ho : k.label.stop < 0) (hls : 0 < p.lineStart)
      (hp : ParaT p.lineStart k) : TopA Q p
  | closedAt (hne : p.root.blocks ≠ []) (hc : Chain p.source p.lineStart 0 p.root.blocks)
      (hg : Gap p.source (lastStop 0 p.root.blocks).toNat p.lineStart) (hd : p.depth = 0) : TopA Q p
  | new (pre : List PB) (c : PB) (hb : p.root.blocks = pre ++ [c]) (hc : Chain p.source p.lineStart 0 pre)
      (ho : c.label.stop < 0) (hpi : c.label.kind = BK.paragraph → c.inlines = []) (hd : 1 ≤ p.depth)
      (hw : p.depth = 1 ∨ Wit p) (e1 : p.depth = 1 → Q c.label.kind) : TopA Q p

/-- Nothing known. -/
def QW : Nat → Prop := fun _ => True
/-- Between two block starts: a universal kind, or a leaf that takes the rest of the line. -/
def QB : Nat → Prop := fun k => Univ k = true ∨ AL k = true
/-- Inside `openBlock`: a universal kind. -/
def QU : Nat → Prop := fun k => Univ k = true

/-- A child of the document has been closed at the end of the line (`N`), or the orphan paragraph of a setext heading
    is its last child. -/
inductive TopB (N : Nat) (p : LP) : Prop
  | closedN (pre : List PB) (last : PB) (hb : p.root.blocks = pre ++ [last]) (hc : Chain p.source p.lineStart 0 pre)
      (hl : last.label.stop = (N : Int)) (hlt : p.lineStart < N) : TopB N p
  | orphan (pre : List PB) (o : PB) (hb : p.root.blocks = pre ++ [o]) (hne : pre ≠ [])
      (hc : Chain p.source p.lineStart 0 pre) (ho : OrphanT p.lineStart (N : Int) o) : TopB N p

theorem TopA.mono {Q Q' : Nat → Prop} {p : LP} (h : TopA Q p) (hq : ∀ k, Q k → Q' k) : TopA Q' p := by
  cases h with
  | empty h => exact .empty h
  | old k hb ho hls hp => exact .old k hb ho hls hp
  | closedAt hne hc hg hd => exact .closedAt hne hc hg hd
  | new pre c hb hc ho hpi hd hw e1 => exact .new pre c hb hc ho hpi hd hw (fun h1 => hq _ (e1 h1))

theorem TopA.weaken {Q : Nat → Prop} {p : LP} (h : TopA Q p) : TopA QW p := h.mono (fun _ _ => trivial)

theorem last_of_append {pre : List PB} {c : PB} {bs : List PB} (h : bs = pre ++ [c]) :
    bs.getLast? = some c ∧ bs.dropLast = pre := by
  subst h; simp

/-- The kind of the container that is a child of the document. -/
theorem TopA.strengthen {Q : Nat → Prop} {p : LP} (h : TopA QW p) (hk : p.depth = 1 → Q p.containerKind) : TopA Q p := by
  cases h with
  | empty h => exact .empty h
  | old k hb ho hls hp => exact .old k hb ho hls hp
  | closedAt hne hc hg hd => exact .closedAt hne hc hg hd
  | new pre c hb hc ho hpi hd hw e1 =>
    refine .new pre c hb hc ho hpi hd hw (fun h1 => ?_)
    have := hk h1
    rwa [containerKind_of_last h1 (last_of_append hb).1] at this

theorem TopA.of_eq {Q : Nat → Prop} {p p' : LP} (h : TopA Q p) (h1 : p'.root = p.root) (h2 : p'.depth = p.depth)
    (h3 : p'.source = p.source) (h4 : p'.lineStart = p.lineStart) : TopA Q p' := by
  cases h with
  | empty h => exact .empty (by rw [h1]; exact h)
  | old k hb ho hls hp => exact .old k (by rw [h1]; exact hb) ho (by rw [h4]; exact hls) (by rw [h4]; exact hp)
  | closedAt hne hc hg hd =>
    exact .closedAt (by rw [h1]; exact hne) (by rw [h1, h3, h4]; exact hc) (by rw [h1, h3, h4]; exact hg) (by rw [h2]; exact hd)
  | new pre c hb hc ho hpi hd hw e1 =>
    refine .new pre c (by rw [h1]; exact hb) (by rw [h3, h4]; exact hc) ho hpi (by rw [h2]; exact hd) ?_ (by rw [h2]; exact e1)
    rw [h2]
    rcases hw with hw | ⟨w, b, w1, w2, w3, w4⟩
    · exact Or.inl hw
    · exact Or.inr ⟨w, b, w1, by rw [h2]; exact w2, by rw [h1]; exact w3, w4⟩

theorem TopA.of_frame {Q : Nat → Prop} {p p' : LP} (h : TopA Q p) (f : CurFrame p p') : TopA Q p' :=
  h.of_eq f.root f.depth f.source f.lineStart

theorem TopB.of_eq {N : Nat} {p p' : LP} (h : TopB N p) (h1 : p'.root = p.root)
    (h3 : p'.source = p.source) (h4 : p'.lineStart = p.lineStart) : TopB N p' := by
  cases h with
  | closedN pre last hb hc hl hlt =>
    exact .closedN pre last (by rw [h1]; exact hb) (by rw [h3, h4]; exact hc) hl (by rw [h4]; exact hlt)
  | orphan pre o hb hne hc ho =>
    exact .orphan pre o (by rw [h1]; exact hb) hne (by rw [h3, h4]; exact hc) (by rw [h4]; exact ho)

theorem SrcOK.of_frame {N : Nat} {p p' : LP} (h : SrcOK N p) (f : CurFrame p p') : SrcOK N p' :=
  h.of_eq f.source f.lineStart f.line

theorem SrcOK.of_tframe {N : Nat} {p p' : LP} (h : SrcOK N p) (f : TreeFrame p p') : SrcOK N p' :=
  h.of_eq f.source f.lineStart f.line

/-! ### The children of the document under a modification below the document -/

theorem blocks_deep (f : PB → PB) (root : PB) (d : Nat) :
    (spineModify f root (d + 1)).blocks = match root.blocks.getLast? with
      | some c => root.blocks.dropLast ++ [spineModify f c d]
      | none => root.blocks := by
  cases root with
  | mk l bs is =>
    rw [spineModify_succ]
    simp only [PB.blocks]
    cases bs.getLast? <;> rfl

theorem blocks_deep_append (f : PB → PB) (root : PB) (d : Nat) {pre : List PB} {c : PB} (hb : root.blocks = pre ++ [c]) :
    (spineModify f root (d + 1)).blocks = pre ++ [spineModify f c d] := by
  rw [blocks_deep, (last_of_append hb).1, (last_of_append hb).2]

/-- A block on the spine at or above a modification keeps its kind. -/
theorem wit_modify (f : PB → PB) (hfk : ∀ b, (f b).label.kind = b.label.kind) {root : PB} {w m : Nat} {b : PB}
    (hwm : w ≤ m) (hg : spineGet root w = some b) :
    ∃ b', spineGet (spineModify f root m) w = some b' ∧ b'.label.kind = b.label.kind := by
  rw [spineGet_modify f w m root hwm, hg]
  refine ⟨_, rfl, ?_⟩
  cases hk : m - w with
  | zero => show (spineModify f b 0).label.kind = _; rw [spineModify_zero]; exact hfk b
  | succ k => show (spineModify f b (k + 1)).label.kind = _; rw [(spineModify_succ_same f b k).1]

theorem Wit.modify {p p' : LP} (f : PB → PB) (m : Nat) (hfk : ∀ b, (f b).label.kind = b.label.kind)
    (hroot : p'.root = spineModify f p.root m) (hw : ∃ w b, 1 ≤ w ∧ w ≤ m ∧ w ≤ p'.depth ∧ spineGet p.root w = some b ∧
      Univ b.label.kind = true) : Wit p' := by
  obtain ⟨w, b, w1, w2, w3, w4, w5⟩ := hw
  obtain ⟨b', hb', hk'⟩ := wit_modify f hfk w2 w4
  exact ⟨w, b', w1, w3, by rw [hroot]; exact hb', by rw [hk']; exact w5⟩

/-- A modification at depth `m ≥ 1` that keeps the label (kind, end) of the block it is applied to, and the text of
    an open paragraph child of the document. -/
theorem TopA.deep {Q Q' : Nat → Prop} {p p' : LP} (h : TopA Q p) (f : PB → PB) (m : Nat) (hm : 1 ≤ m) (hdm : 1 ≤ p.depth)
    (hroot : p'.root = spineModify f p.root m) (hsrc : p'.source = p.source) (hls : p'.lineStart = p.lineStart)
    (hfl : m = 1 → ∀ c, (f c).label.kind = c.label.kind ∧ (f c).label.stop = c.label.stop)
    (hfi : m = 1 → ∀ c, p.root.blocks.getLast? = some c → (f c).inlines = c.inlines ∨ c.label.kind ≠ BK.paragraph)
    (hd1 : 1 ≤ p'.depth) (hw : (p.depth = 1 ∨ Wit p) → (p'.depth = 1 ∨ Wit p'))
    (he : ∀ c, p.root.blocks.getLast? = some c → (p.depth = 1 ∨ Wit p) → (p.depth = 1 → Q c.label.kind) → p'.depth = 1 →
      Q' c.label.kind) : TopA Q' p' := by
  obtain ⟨d, rfl⟩ : ∃ d, m = d + 1 := ⟨m - 1, by omega⟩
  -- the last child of the document after the modification
  have key : ∀ c, p.root.blocks.getLast? = some c →
      (spineModify f c d).label.kind = c.label.kind ∧ (spineModify f c d).label.stop = c.label.stop ∧
      ((spineModify f c d).inlines = c.inlines ∨ c.label.kind ≠ BK.paragraph) := by
    intro c hc
    cases d with
    | zero =>
      rw [spineModify_zero]
      exact ⟨(hfl rfl c).1, (hfl rfl c).2, hfi rfl c hc⟩
    | succ d' =>
      obtain ⟨s1, s2, _⟩ := spineModify_succ_same f c d'
      exact ⟨by rw [s1], by rw [s1], Or.inl s2⟩
  cases h with
  | empty h =>
    refine .empty ?_
    rw [hroot, blocks_deep, h]; rfl
  | old k hb ho hls' hp =>
    have hb' : p.root.blocks = [] ++ [k] := hb
    obtain ⟨k1, k2, k3⟩ := key k (last_of_append hb').1
    refine .old (spineModify f k d) ?_ (by rw [k2]; exact ho) (by rw [hls]; exact hls') ?_
    · rw [hroot, blocks_deep_append f p.root d hb']; rfl
    · rw [hls]
      intro hk hne
      rw [k1] at hk
      rcases k3 with k3 | k3
      · rw [k3] at hne ⊢; exact hp hk hne
      · exact absurd hk k3
  | closedAt hne hc hg hd => omega
  | new pre c hb hc ho hpi hd hw' e1 =>
    obtain ⟨k1, k2, k3⟩ := key c (last_of_append hb).1
    refine .new pre (spineModify f c d) ?_ (by rw [hsrc, hls]; exact hc) (by rw [k2]; exact ho) ?_ hd1 (hw hw') ?_
    · rw [hroot, blocks_deep_append f p.root d hb]
    · intro hk
      rw [k1] at hk
      rcases k3 with k3 | k3
      · rw [k3]; exact hpi hk
      · exact absurd hk k3
    · intro h1; rw [k1]; exact he c (last_of_append hb).1 hw' e1 h1

/-! ### Closing a child of the document -/

theorem replLast_blocks (g : PB → List PB) (root : PB) :
    (replLast g root).blocks = match root.blocks.getLast? with
      | some c => root.blocks.dropLast ++ g c
      | none => root.blocks := by
  cases root with
  | mk l bs is =>
    simp only [replLast, PB.blocks]
    cases bs.getLast? <;> rfl

theorem replLast_blocks_append (g : PB → List PB) (root : PB) {pre : List PB} {c : PB} (hb : root.blocks = pre ++ [c]) :
    (replLast g root).blocks = pre ++ g c := by
  rw [replLast_blocks, (last_of_append hb).1, (last_of_append hb).2]

/-- Closing the one open child the line started with, at the start of the line. -/
theorem close_old_ls' (H : onCloseParagraph_cuts_target) (x : PExt) {p : LP}
    (hpad : Padded p.source) (hcut : CutAt p.source (p.lineStart : Int)) (hle : p.lineStart ≤ p.source.length)
    {k : PB} (hns : k.label.kind ≠ BK.setextHeading) (ho : k.label.stop < 0)
    (hp : ParaT p.lineStart k) :
    closeBlock x p.source p.lineStart k ≠ [] ∧ Chain p.source p.lineStart 0 (closeBlock x p.source p.lineStart k) ∧
    Gap p.source (lastStop 0 (closeBlock x p.source p.lineStart k)).toNat p.lineStart := by
  have hls : 0 < p.lineStart := by have := hcut.1; omega
  obtain ⟨pre, tail, h1, h2, h3⟩ := closeBlock_top H x p.source p.lineStart k p.lineStart ho
    (fun hk hne => by
      rcases hk with hk | hk
      · exact hp hk hne
      · exact absurd hk hns)
    hle (Int.le_refl _) (fun hk => absurd hk hns)
  have hch := defChain_chain hpad hcut h2
  rw [h1]
  rcases h3 with ⟨t1, t2, _, t4⟩ | ⟨last, t1, t2, t3⟩ | ⟨o, _, _, t3, _⟩
  · subst t1
    rw [List.append_nil]
    exact ⟨t2, hch, t4⟩
  · subst t1
    refine ⟨by simp, ?_, ?_⟩
    · rw [chain_append]
      refine ⟨hch, chain_single ?_ (by rw [t2]; exact Int.le_refl _) (by rw [t2]; exact hcut)⟩
      rw [t2]
      by_cases hpe : pre = []
      · subst hpe; simp only [lastStop]; omega
      · exact t3 hpe
    · rw [lastStop_concat, t2, Int.toNat_natCast]; exact Gap.refl _ _
  · exact absurd t3 hns

theorem close_old_ls (H : onCloseParagraph_cuts_target) (x : PExt) {am : Bool} {N : Nat} {p : LP} (hs : SrcOK N p)
    (hla : LA am N p) {k : PB} (hb : p.root.blocks = [k]) (ho : k.label.stop < 0) (hls : 0 < p.lineStart)
    (hp : ParaT p.lineStart k) :
    closeBlock x p.source p.lineStart k ≠ [] ∧ Chain p.source p.lineStart 0 (closeBlock x p.source p.lineStart k) ∧
    Gap p.source (lastStop 0 (closeBlock x p.source p.lineStart k)).toNat p.lineStart :=
  close_old_ls' H x hs.padded (hs.cutLs hls) (by rw [hs.len]; exact hs.ls)
    ((hla.root.kids.kid k (by rw [hb]; simp)).notSetext ho) ho hp

/-- Closing an open child that is not a paragraph: one block, closed at `e`. -/
theorem closeBlock_nonpara (x : PExt) (src : Bytes) (e : Int) (he : 0 ≤ e) (c : PB) (ho : c.label.stop < 0)
    (h1 : c.label.kind ≠ BK.paragraph) (h2 : c.label.kind ≠ BK.setextHeading) :
    ∃ b, closeBlock x src e c = [b] ∧ b.label.stop = e := by
  have hs := closeBlock_shape (P := 0) x src e (by omega) c (fun _ hk => by
    rcases hk with hk | hk
    · exact absurd hk h1
    · exact absurd hk h2)
  rcases hs with ⟨h0, _⟩ | ⟨_, b, hb, hbe, _⟩ | ⟨_, hk, _⟩
  · omega
  · exact ⟨b, hb, hbe⟩
  · rcases hk with hk | hk
    · exact absurd hk h1
    · exact absurd hk h2

end CM.Proofs
