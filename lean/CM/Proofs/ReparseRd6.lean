import CM.Proofs.ReparseRd5
/-
C16, `ParaCloseLocal`, part 6: the loop of `onCloseParagraph` over the text of a top-level paragraph that ends in a
line ending at `|s|` gives the same blocks on the source `s ++ u` as on `s`.
-/
namespace CM.Proofs.Rp
open CM CM.Model CM.Gen CM.Proofs

section
variable {s u : Bytes} {b : Nat}

theorem liOf_two (x : PExt) (hb : b ≤ s.length) {is : List Tree} {a' : Nat} (hc : ContigL is a' b) (label : LinkLabel)
    {q : Rd} (hq : Ins b a' q) (hp : label.inner.start = (q.pos : Int)) : liOf x (s ++ u) is label = liOf x s is label := by
  unfold liOf
  rw [transform_two (u := u) x.fold hb hc _ hq _ hp, collect_new_two (u := u) x.ext hb hc _ _ _ hq _ hp]

theorem diOf_two (x : PExt) (hb : b ≤ s.length) {is : List Tree} {a' : Nat} (hc : ContigL is a' b) (dest : LinkDest)
    {q : Rd} (hq : Ins b a' q) (hp : dest.text.start = (q.pos : Int)) : diOf x (s ++ u) is dest = diOf x s is dest := by
  unfold diOf
  rw [collect_new_two (u := u) x.ext hb hc _ _ _ hq _ hp]

theorem tiOf_two (x : PExt) (hb : b ≤ s.length) {is : List Tree} {a' : Nat} (hc : ContigL is a' b) (title : LinkTitle)
    {q : Rd} (hq : Ins b a' q) (hp : title.text.start = (q.pos : Int)) : tiOf x (s ++ u) is title = tiOf x s is title := by
  unfold tiOf
  rw [collect_new_two (u := u) x.ext hb hc _ _ _ hq _ hp]

/-- Where the loop goes on after a definition: the same on both sources (induction hypothesis `ih`). -/
theorem after_two {is : List Tree} {a' : Nat} (hcl : ContigL is a' b) {q : Rd} (hq : RW b q) (hqa : a' ≤ q.pos)
    (orphan : Option PB) (l : PLabel) (res : List PB) (recA recB : Rd → PLabel → List Tree → List PB → List PB)
    (ih : ∀ (r : Rd) (l : PLabel) (is : List Tree) (result : List PB) (a' : Nat), RW b r → ContigL is a' b → a' ≤ r.pos →
      r.pos < b → recA r l is result = recB r l is result) :
    (match nodeIndexForPosition is q.pos 0 with
      | none => withOrph orphan res
      | some fc => recA q { l with start := q.pos } (is.drop fc) res) =
    (match nodeIndexForPosition is q.pos 0 with
      | none => withOrph orphan res
      | some fc => recB q { l with start := q.pos } (is.drop fc) res) := by
  rcases nodeIndex_cases hcl hqa hq.pos_le with ⟨hn, _⟩ | ⟨fc, t, rest, s0, hn, hdrop, hct, hs, hqlt⟩
  · rw [hn]
  · rw [hn]
    simp only
    rw [hdrop]
    exact ih q _ _ _ s0 hq hct hs hqlt

theorem ite_two {α : Type} {c : Prop} [Decidable c] {a a' b b' : α} (h1 : c → a = a') (h2 : ¬ c → b = b') :
    (if c then a else b) = (if c then a' else b') := by
  split
  · exact h1 ‹_›
  · exact h2 ‹_›

theorem pair_eq {α β : Type} {a a' : α} {c c' : β} {p q : α × β} (h : p = q) (h1 : p = (a, c)) (h2 : q = (a', c')) :
    a = a' ∧ c = c' := by
  rw [h1, h2] at h
  exact ⟨congrArg Prod.fst h, congrArg Prod.snd h⟩

/-- **The loop of `onCloseParagraph` does not look beyond a text that ends in a line ending.** -/
theorem refDefLoop_two (x : PExt) (orphan : Option PB) (hbs : b = s.length) (hE : LastEOL s b) :
    ∀ (fuel : Nat) (r : Rd) (l : PLabel) (is : List Tree) (result : List PB) (a' : Nat),
      RW b r → ContigL is a' b → a' ≤ r.pos → r.pos < b →
      refDefLoop x (s ++ u) orphan fuel r l is result = refDefLoop x s orphan fuel r l is result := by
  intro fuel
  induction fuel with
  | zero => intro r l is result a' _ _ _ _; rfl
  | succ fuel ih =>
    intro r l is result a' hrw hcl ha hlt
    have hb : b ≤ s.length := by omega
    have hbA : b ≤ (s ++ u).length := by simp only [List.length_append]; omega
    have hfA : ∀ p : Nat, b - p < rdFuel (s ++ u) is := fun p => rdFuel_big _ _ hbA p
    have hfB : ∀ p : Nat, b - p < rdFuel s is := fun p => rdFuel_big _ _ hb p
    obtain ⟨kA, hkA⟩ := rdFuel_pos (s ++ u) is
    obtain ⟨kB, hkB⟩ := rdFuel_pos s is
    have hI := rwl_closed (src := s) (b := b) (lb := a') hb
    have i0 : Ins b a' r := ⟨hrw, ha, hlt⟩
    -- what the scanners return on `s` …
    rcases e1 : parseLinkLabel s (rdFuel s is) r with ⟨label, r1⟩
    rcases e2 : r1.current s with ⟨c2, r2⟩
    rcases e3 : r2.next s with ⟨ok3, r3⟩
    rcases e4 : skipLinkSpace s (rdFuel s is) r3 with ⟨ok4, r4⟩
    rcases e5 : parseLinkDestination s (rdFuel s is) r4 with ⟨dest, r5⟩
    rcases e6 : readEOL s (rdFuel s is) r5 with ⟨destEOL, r6⟩
    rcases e7 : r6.current s with ⟨c7, r7⟩
    rcases e8 : skipLinkSpace s (rdFuel s is) r7 with ⟨ok8, r8⟩
    rcases e9 : parseLinkTitle s (rdFuel s is) r8 with ⟨title, r9⟩
    rcases e10 : readEOL s (rdFuel s is) r9 with ⟨titleEOL, r10⟩
    -- … and on `s ++ u`
    rcases a1 : parseLinkLabel (s ++ u) (rdFuel (s ++ u) is) r with ⟨labelA, r1A⟩
    rcases a2 : r1A.current (s ++ u) with ⟨c2A, r2A⟩
    rcases a3 : r2A.next (s ++ u) with ⟨ok3A, r3A⟩
    rcases a4 : skipLinkSpace (s ++ u) (rdFuel (s ++ u) is) r3A with ⟨ok4A, r4A⟩
    rcases a5 : parseLinkDestination (s ++ u) (rdFuel (s ++ u) is) r4A with ⟨destA, r5A⟩
    rcases a6 : readEOL (s ++ u) (rdFuel (s ++ u) is) r5A with ⟨destEOLA, r6A⟩
    rcases a7 : r6A.current (s ++ u) with ⟨c7A, r7A⟩
    rcases a8 : skipLinkSpace (s ++ u) (rdFuel (s ++ u) is) r7A with ⟨ok8A, r8A⟩
    rcases a9 : parseLinkTitle (s ++ u) (rdFuel (s ++ u) is) r8A with ⟨titleA, r9A⟩
    rcases a10 : readEOL (s ++ u) (rdFuel (s ++ u) is) r9A with ⟨titleEOLA, r10A⟩
    rw [refDefLoop_step x (s ++ u) orphan fuel r l is result a1 a2 a3 a4 a5 a6 a7 a8 a9 a10,
      refDefLoop_step x s orphan fuel r l is result e1 e2 e3 e4 e5 e6 e7 e8 e9 e10]
    -- the label
    obtain ⟨eq1, k1⟩ := parseLinkLabel_two (u := u) hb hE _ _ r i0 (hfA _) (hfB _)
    obtain ⟨rfl, rfl⟩ := pair_eq eq1 a1 e1
    rw [e1] at k1
    have k1 : labelA.span.isValid = true → Ins b a' r1A ∧ ∃ q, Ins b a' q ∧ labelA.inner.start = (q.pos : Int) := k1
    unfold rdBody
    refine ite_two (fun _ => rfl) (fun hv => ?_)
    have hv' : labelA.span.isValid = true := by simpa using hv
    obtain ⟨i1, q1, hq1, hq1'⟩ := k1 hv'
    -- the colon
    obtain ⟨rfl, rfl⟩ := pair_eq (cur_eq (u := u) hb i1.2.2) a2 e2
    obtain ⟨i2, p2, cb2⟩ := i1.cur (lb := a') hb
    rw [e2] at i2 p2 cb2
    have i2 : Ins b a' r2A := i2
    have p2 : r2A.pos = r1A.pos := p2
    have cb2 : CurB s r1A.pos c2A := cb2
    refine ite_two (fun _ => rfl) (fun hcol => ?_)
    have hcol' : c2A = 0x3A := by simpa using hcol
    obtain ⟨rfl, rfl⟩ := pair_eq (nxt_eq (u := u) hb i2.1) a3 e3
    have i3 : Ins b a' r3A := by
      cases hok : ok3A with
      | true =>
        have := (i2.nxt (s := s) (by rw [e3]; exact hok)).1
        rw [e3] at this; exact this
      | false =>
        exfalso
        rw [← p2] at cb2
        rcases i2.last_eol hE cb2 (by rw [e3]; exact hok) with e | e <;> rw [hcol'] at e <;> exact absurd e (by decide)
    -- white space, destination
    obtain ⟨eq4, k4⟩ := skipLinkSpace_two (u := u) hb _ _ r3A i3 (hfA _) (hfB _)
    obtain ⟨rfl, rfl⟩ := pair_eq eq4 a4 e4
    rw [e4] at k4
    have k4 : ok4A = true → Ins b a' r4A := k4
    refine ite_two (fun _ => rfl) (fun hok4 => ?_)
    have i4 : Ins b a' r4A := k4 (by simpa using hok4)
    obtain ⟨eq5, k5⟩ := parseLinkDestination_two (u := u) hb hE _ _ r4A i4 (hfA _) (hfB _)
    obtain ⟨rfl, rfl⟩ := pair_eq eq5 a5 e5
    refine ite_two (fun _ => rfl) (fun hdv => ?_)
    have hdv' : destA.span.isValid = true := by simpa using hdv
    obtain ⟨i5, q5, hq5, hq5'⟩ := k5 destA r5A e5 hdv'
    obtain ⟨eq6, k6⟩ := readEOL_two (u := u) hb _ _ r5A i5 (hfA _) (hfB _)
    obtain ⟨rfl, rfl⟩ := pair_eq eq6 a6 e6
    rw [e6] at k6
    have k6 : destEOLA < 0 → r6A.pos < b := k6
    have w6 : RWL b a' r6A := by
      have := readEOL_I hI (rdFuel s is) r5A ⟨i5.1, i5.2.1⟩
      rw [e6] at this; exact this
    rw [liOf_two (u := u) x hb hcl labelA hq1 hq1', diOf_two (u := u) x hb hcl destA hq5 hq5']
    by_cases hin6 : r6A.pos < b
    · -- the reader is still inside the text
      have i6 : Ins b a' r6A := ⟨w6.1, w6.2, hin6⟩
      obtain ⟨rfl, rfl⟩ := pair_eq (cur_eq (u := u) hb hin6) a7 e7
      obtain ⟨i7, _, _⟩ := i6.cur (lb := a') hb
      rw [e7] at i7
      have i7 : Ins b a' r7A := i7
      refine ite_two (fun _ => rfl) (fun _ => ?_)
      obtain ⟨eq8, k8⟩ := skipLinkSpace_two (u := u) hb _ _ r7A i7 (hfA _) (hfB _)
      obtain ⟨rfl, rfl⟩ := pair_eq eq8 a8 e8
      rw [e8] at k8
      have k8 : ok8A = true → Ins b a' r8A := k8
      refine ite_two (fun _ => rfl) (fun hok8 => ?_)
      have i8 : Ins b a' r8A := k8 (by simpa using hok8)
      obtain ⟨eq9, k9⟩ := parseLinkTitle_two (u := u) hb hE _ _ r8A i8 (hfA _) (hfB _)
      obtain ⟨rfl, rfl⟩ := pair_eq eq9 a9 e9
      refine ite_two (fun _ => ?_) (fun htv => ?_)
      · refine ite_two (fun _ => rfl) (fun _ => ?_)
        exact after_two hcl w6.1 w6.2 orphan l _ _ _ ih
      · have htv' : titleA.span.isValid = true := by simpa using htv
        obtain ⟨i9, q9, hq9, hq9'⟩ := k9 titleA r9A e9 htv'
        obtain ⟨eq10, _⟩ := readEOL_two (u := u) hb _ _ r9A i9 (hfA _) (hfB _)
        obtain ⟨rfl, rfl⟩ := pair_eq eq10 a10 e10
        have w10 : RWL b a' r10A := by
          have := readEOL_I hI (rdFuel s is) r9A ⟨i9.1, i9.2.1⟩
          rw [e10] at this; exact this
        rw [tiOf_two (u := u) x hb hcl titleA hq9 hq9']
        refine ite_two (fun _ => rfl) (fun _ => ?_)
        exact after_two hcl w10.1 w10.2 orphan l _ _ _ ih
    · -- the reader is at the end of the text: a definition without title, whatever follows
      have hp6 : r6A.pos = b := by have := w6.1.pos_le; omega
      have hd0 : ¬ destEOLA < 0 := fun hn => hin6 (k6 hn)
      have hB7 := cur_end_B (s := s) (r := r6A) (by omega)
      rw [hB7] at e7
      simp only [Prod.mk.injEq] at e7
      obtain ⟨rfl, rfl⟩ := e7
      obtain ⟨cA, hcA⟩ := cur_end_A (u := u) w6.1 hp6 hb
      rw [hcA] at a7
      simp only [Prod.mk.injEq] at a7
      obtain ⟨rfl, rfl⟩ := a7
      have hd0' : decide (destEOLA < 0) = false := by simpa using hd0
      rw [hkB, skipLinkSpace_end_B (by omega) kB] at e8
      simp only [Prod.mk.injEq] at e8
      obtain ⟨rfl, rfl⟩ := e8
      rw [hkA] at a8 a9
      have hc5 : ∀ (cc : UInt8) (pp : Nat), ¬ ((decide (destEOLA < 0) && pp == r5A.pos && cc != 0) = true) := by
        intro cc pp; rw [hd0']; simp
      rw [if_neg (hc5 _ _), if_neg (hc5 _ _)]
      rw [if_pos (show (!false) = true from rfl)]
      rcases skipLinkSpace_end_A (u := u) w6.1 hp6 hb kA with hf | ht
      · rw [a8] at hf
        have hf : ok8A = false := hf
        subst hf
        rw [if_pos (show (!false) = true from rfl)]
      · rw [a8] at ht
        simp only [Prod.mk.injEq] at ht
        obtain ⟨rfl, rfl⟩ := ht
        have hti := parseLinkTitle_end_A (u := u) w6.1 hp6 hb kA
        rw [a9] at hti
        have hti : titleA.span.isValid = false := hti
        rw [if_neg (show ¬ (!true) = true by decide), if_pos (show (!titleA.span.isValid) = true by rw [hti]; rfl),
          if_neg hd0, hp6, nodeIndex_contig_none 0 hcl (Nat.le_refl _)]

end

end CM.Proofs.Rp

