import CM.Proofs.EolG4
/-
C14 (a), block phase with link reference definitions — part 5: the block starts under the invariant `LG` (thematic break,
block quote, ATX heading, setext heading, indented code).
-/
namespace CM.Proofs.EolG
open CM CM.Model CM.Gen CM.Proofs CM.Proofs.RDS CM.Proofs.BSp CM.Proofs.ERd CM.Proofs.BG CM.Proofs.BT CM.Proofs.EolX

section
variable {x : PExt} {e X body nl : Bytes} {k : Nat} {bd : Int} {p : LP}

theorem startThematicBreakG (he : StdEol e) (h : Inv p) (hs : p.state = 0) (hg : LG e X body nl k bd p) :
    startThematicBreak x (mapLP e X p) = mapLP e X (startThematicBreak x p) ∧ LG e X body nl k bd (startThematicBreak x p) := by
  have hl := hg.ok
  unfold startThematicBreak
  simp only []
  rw [mapLP_indent hl he, mapLP_bai_inv eolInv_thematic hl he]
  by_cases c1 : p.indent ≥ codeBlockIndentLimit
  · rw [if_pos c1, if_pos c1]; exact ⟨rfl, hg⟩
  rw [if_neg c1, if_neg c1]
  by_cases c2 : parseThematicBreak p.bytesAfterIndent < 0
  · rw [if_pos c2, if_pos c2]; exact ⟨rfl, hg⟩
  rw [if_neg c2, if_neg c2]
  obtain ⟨ci, hdrop, hil⟩ := consumeAll p h
  rw [mapLP_consumeIndentN hl he]
  have hg1 := hg.consumeIndentN he p.indent
  have hrec := rec_body eolInv_thematic hg1.ok _ hdrop
  generalize p.consumeIndentN p.indent = p1 at ci hdrop hil hg1 hrec ⊢
  have hb := parseThematicBreak_le (body.drop p1.i) (by rw [← hrec]; omega)
  rw [← hrec] at hb
  generalize parseThematicBreak p.bytesAfterIndent = en at hb c2 ⊢
  have i1 := ci.inv h
  have s1 := ci.st (by omega)
  have ob := openBlock_inv x p1 BK.thematicBreak id id_kind i1 s1.2 (Or.inl (by decide))
  obtain ⟨o1, hg2⟩ := openBlockG x hg1 he BK.thematicBreak id posFree_id (fun _ => rfl) (by decide)
  rw [o1]
  generalize p1.openBlock x BK.thematicBreak id = p2 at ob hg2 ⊢
  have e2i : p2.i = p1.i := cur_i ob.cur
  rw [mapLP_advance_rec hg2.ok he en.toNat (by rw [e2i]; exact hb)]
  have hg3 := hg2.advance en.toNat
  generalize p2.advance en.toNat = p3 at hg3 ⊢
  rw [mapLP_consumeLine hg3.ok he]
  have hg5 := hg3.consumeLine
  generalize p3.consumeLine = p5 at hg5 ⊢
  exact endBlockG x hg5 he

theorem startBlockQuoteG (he : StdEol e) (h : Inv p) (hs : p.state = 0) (hg : LG e X body nl k bd p) :
    startBlockQuote x (mapLP e X p) = mapLP e X (startBlockQuote x p) ∧ LG e X body nl k bd (startBlockQuote x p) := by
  have hl := hg.ok
  unfold startBlockQuote
  simp only []
  rw [mapLP_indent hl he, mapLP_bai_inv eolInv_bqPrefix hl he]
  by_cases c1 : p.indent ≥ codeBlockIndentLimit
  · rw [if_pos c1, if_pos c1]; exact ⟨rfl, hg⟩
  rw [if_neg c1, if_neg c1]
  by_cases c2 : (!hasBytePrefix p.bytesAfterIndent blockQuotePrefix) = true
  · rw [if_pos c2, if_pos c2]; exact ⟨rfl, hg⟩
  rw [if_neg c2, if_neg c2]
  have hpre : hasBytePrefix p.bytesAfterIndent blockQuotePrefix = true := by
    cases hh : hasBytePrefix p.bytesAfterIndent blockQuotePrefix
    · rw [hh] at c2; exact absurd rfl c2
    · rfl
  obtain ⟨ci, hdrop, hil⟩ := consumeAll p h
  rw [mapLP_consumeIndentN hl he]
  have hg1 := hg.consumeIndentN he p.indent
  have hrec := rec_body eolInv_bqPrefix hg1.ok _ hdrop
  rw [hpre] at hrec
  generalize p.consumeIndentN p.indent = p1 at ci hdrop hil hg1 hrec ⊢
  have hlen : 1 ≤ (body.drop p1.i).length := BT.hasBytePrefix_length _ _ hrec.symm
  have i1 := ci.inv h
  have s1 := ci.st (by omega)
  have ob := openBlock_inv x p1 BK.blockQuote id id_kind i1 s1.2 (Or.inl (by decide))
  obtain ⟨o1, hg2⟩ := openBlockG x hg1 he BK.blockQuote id posFree_id (fun _ => rfl) (by decide)
  rw [o1]
  generalize p1.openBlock x BK.blockQuote id = p2 at ob hg2 ⊢
  have e2i : p2.i = p1.i := cur_i ob.cur
  rw [mapLP_advance_rec hg2.ok he blockQuotePrefix.length (by rw [e2i]; exact hlen)]
  have hg3 := hg2.advance blockQuotePrefix.length
  generalize p2.advance blockQuotePrefix.length = p3 at hg3 ⊢
  rw [mapLP_indent hg3.ok he]
  by_cases c3 : p3.indent > 0
  · rw [if_pos c3, if_pos c3]
    exact ⟨mapLP_consumeIndentN hg3.ok he 1, hg3.consumeIndentN he 1⟩
  · rw [if_neg c3, if_neg c3]; exact ⟨rfl, hg3⟩

theorem startATXG (he : StdEol e) (h : Inv p) (hs : p.state = 0) (hg : LG e X body nl k bd p) :
    startATX x (mapLP e X p) = mapLP e X (startATX x p) ∧ LG e X body nl k bd (startATX x p) := by
  have hl := hg.ok
  unfold startATX
  simp only []
  rw [mapLP_indent hl he, mapLP_bai_inv eolInv_atx hl he]
  by_cases c1 : p.indent ≥ codeBlockIndentLimit
  · rw [if_pos c1, if_pos c1]; exact ⟨rfl, hg⟩
  rw [if_neg c1, if_neg c1]
  by_cases c2 : (parseATXHeading p.bytesAfterIndent).level < 1
  · rw [if_pos c2, if_pos c2]; exact ⟨rfl, hg⟩
  rw [if_neg c2, if_neg c2]
  obtain ⟨ci, hdrop, hil⟩ := consumeAll p h
  rw [mapLP_consumeIndentN hl he]
  have hg1 := hg.consumeIndentN he p.indent
  have hl1 := hg1.ok
  have hrec := rec_body eolInv_atx hl1 _ hdrop
  generalize p.consumeIndentN p.indent = p1 at ci hdrop hil hg1 hl1 hrec ⊢
  have hpos : p1.i ≤ body.length := by
    rcases hl1.cursor (e := e) with ⟨c, _⟩ | ⟨c, _⟩
    · exact c
    · exfalso
      have : p1.line.drop p1.i = [] := by rw [c]; simp
      rw [this] at hdrop
      rw [← hdrop] at c2
      exact c2 (by decide)
  have hb := parseATXHeading_bound (body.drop p1.i)
  rw [← hrec] at hb
  have hb0 := parseATXHeading_bound p.bytesAfterIndent
  generalize parseATXHeading p.bytesAfterIndent = hd at hb hb0 c2 ⊢
  obtain ⟨hb1, hb2, _⟩ := hb
  have hb3 := hb0.2.2 (by omega)
  have i1 := ci.inv h
  have s1 := ci.st (by omega)
  have ob := openBlock_inv x p1 BK.atxHeading (fun l => { l with n := hd.level }) (fun _ => rfl) i1 s1.2 (Or.inl (by decide))
  obtain ⟨o1, hg2⟩ := openBlockG x hg1 he BK.atxHeading (fun l => { l with n := hd.level }) (fun _ _ _ => rfl) (fun _ => rfl)
    (by decide)
  rw [o1]
  generalize p1.openBlock x BK.atxHeading (fun l => { l with n := hd.level }) = p2 at ob hg2 ⊢
  have hl2 := hg2.ok
  have i2 := ob.inv i1
  have s2 := ob.st s1.2
  have e2i : p2.i = p1.i := cur_i ob.cur
  have e2l : p2.line = p1.line := cur_line ob.cur
  have ad := advance_post p2 hd.start i2.cur (by rw [e2i, e2l, ci.line]; have := hb0.1; have := hb0.2.1; omega)
  rw [mapLP_advance_rec hl2 he hd.start (by rw [e2i]; omega)]
  have hg3 := hg2.advance hd.start
  generalize p2.advance hd.start = p3 at ad hg3 ⊢
  have hl3 := hg3.ok
  have i3 := ad.inv i2
  have k3 : p3.containerKind ≠ BK.paragraph := by rw [ad.ckind, ob.ckind]; decide
  have hdrop3 : p3.line.getD p3.i 0 = p.bytesAfterIndent.getD hd.start 0 := by
    rw [ad.i, ad.line, e2i, e2l]; exact getD_of_drop p1 _ _ hdrop
  have hind3 : p3.indent = 0 := indent_zero_of_getD p3 (by rw [hdrop3]; exact hb3.1) (by rw [hdrop3]; exact hb3.2)
  have e3i : p3.i = p1.i + hd.start := by rw [ad.i, e2i]
  have hbody3 : p3.i + (hd.stop - hd.start) ≤ body.length := by
    have : (body.drop p1.i).length = body.length - p1.i := List.length_drop
    rw [this] at hb2
    omega
  rw [mapLP_collectInline x hl3 he IK.unparsed (hd.stop - hd.start) (hd.stop - hd.start)
    (by rw [hind3]; simp only [Nat.lt_irrefl, if_false, Nat.add_zero]
        rw [hl3.pos_body hbody3, hl3.pos_body (by omega)])
    (by intro hk; cases hk)]
  have hg4 := hg3.collectInline_np x (NotPara.of_kind k3) IK.unparsed (hd.stop - hd.start)
  generalize p3.collectInline x IK.unparsed (hd.stop - hd.start) = p4 at hg4 ⊢
  rw [mapLP_consumeLine hg4.ok he]
  have hg5 := hg4.consumeLine
  generalize p4.consumeLine = p5 at hg5 ⊢
  exact endBlockG x hg5 he

theorem startIndentedCodeG (he : StdEol e) (hg : LG e X body nl k bd p) :
    startIndentedCode x (mapLP e X p) = mapLP e X (startIndentedCode x p) ∧ LG e X body nl k bd (startIndentedCode x p) := by
  have hl := hg.ok
  unfold startIndentedCode
  rw [mapLP_indent hl he, mapLP_isRestBlank hl he, mapLP_tipKind]
  by_cases c1 : (decide (p.indent < codeBlockIndentLimit) || p.isRestBlank || p.tipKind == BK.paragraph) = true
  · rw [if_pos c1, if_pos c1]; exact ⟨rfl, hg⟩
  rw [if_neg c1, if_neg c1]
  simp only []
  rw [mapLP_consumeIndentN hl he]
  have hg1 := hg.consumeIndentN he codeBlockIndentLimit
  generalize p.consumeIndentN codeBlockIndentLimit = p1 at hg1 ⊢
  exact openBlockG x hg1 he BK.indentedCode id posFree_id (fun _ => rfl) (by decide)

/-- **The setext heading underline**: the container (an open paragraph) becomes a setext heading and is closed at the end
    of the line; what is left open is at most the orphan paragraph, which starts with the underline character. -/
theorem startSetextG (he : StdEol e) (h : Inv p) (hs : p.state = 0) (hg : LG e X body nl k bd p)
    (hbd : bd ≤ (p.lineStart : Int)) :
    startSetext x (mapLP e X p) = mapLP e X (startSetext x p) ∧ LG e X body nl k bd (startSetext x p) := by
  have hl := hg.ok
  unfold startSetext
  simp only []
  rw [mapLP_containerKind, mapLP_indent hl he, mapLP_bai_inv eolInv_setext hl he]
  by_cases c0 : (p.containerKind != BK.paragraph) = true
  · rw [if_pos c0, if_pos c0]; exact ⟨rfl, hg⟩
  rw [if_neg c0, if_neg c0]
  have hk : p.containerKind = BK.paragraph := by simpa using c0
  by_cases c1 : p.indent ≥ codeBlockIndentLimit
  · rw [if_pos c1, if_pos c1]; exact ⟨rfl, hg⟩
  rw [if_neg c1, if_neg c1]
  by_cases c2 : (parseSetextHeadingUnderline p.bytesAfterIndent == 0) = true
  · rw [if_pos c2, if_pos c2]; exact ⟨rfl, hg⟩
  rw [if_neg c2, if_neg c2]
  have hlev : parseSetextHeadingUnderline p.bytesAfterIndent ≠ 0 := by simpa using c2
  generalize hn : ((parseSetextHeadingUnderline p.bytesAfterIndent : Nat) : Int) = n
  rw [mapLP_modifyContainer_setLabel _ (fun _ _ _ => rfl)]
  have hd : p.depth ≠ 0 := by
    intro h0
    rw [containerKind_zero p h0, h.tree.root] at hk
    cases hk
  let f : PB → PB := PB.setLabel fun l => { l with kind := BK.setextHeading, n := n }
  have hl1 := hl.modifyContainer f
  have hc1 : CurOK (p.modifyContainer f) := ⟨h.cur.hi, h.cur.htab⟩
  have cl := consumeLine_post (p.modifyContainer f) hc1
  have hst2 : (p.modifyContainer f).consumeLine.state = 2 := cl.st (by show p.state ≤ 2; omega)
  have hfr := fr_consumeLine (p.modifyContainer f)
  rw [mapLP_consumeLine hl1 he]
  have hl5 := hl1.consumeLine
  show (mapLP e X (p.modifyContainer f).consumeLine).endBlock x = mapLP e X ((p.modifyContainer f).consumeLine.endBlock x) ∧
    LG e X body nl k bd ((p.modifyContainer f).consumeLine.endBlock x)
  generalize (p.modifyContainer f).consumeLine = p2 at cl hst2 hfr hl5
  have hsrc2 : p2.source = X.take k := by rw [fr_source hfr]; exact hg.src
  have hls2 : p2.lineStart = p.lineStart := by rw [fr_lineStart hfr]; rfl
  have hdep2 : p2.depth = p.depth := by rw [fr_depth hfr]; rfl
  have hroot2 : p2.root = spineModify f p.root p.depth := by rw [fr_root hfr]; rfl
  have hi2 : p2.i = p.line.length := cl.i
  have hline : p.line = (X.take k).drop p.lineStart := by rw [← hg.src]; exact hl.line
  have hlsk : p.lineStart ≤ (X.take k).length := by rw [← hg.src]; exact hl.ls
  have hcp : curPos p2 = ((X.take k).length : Int) := by
    simp only [curPos, hls2, hi2, hline, List.length_drop]
    omega
  obtain ⟨P, hPg⟩ : ∃ P, spineGet p.root p.depth = some P := by
    have := h.tree.valid
    cases hsg : spineGet p.root p.depth with
    | none => rw [hsg] at this; cases this
    | some P => exact ⟨P, rfl⟩
  have hkP : P.kind = BK.paragraph := by rw [← kind_of_container hPg]; exact hk
  -- the simulation: `endBlock` closes the (open) setext heading
  have hS2 : FineS e X k bd p2.root := by rw [hroot2]; exact fineS_relabel p.root p.depth n hg.fine P hPg hkP
  have hmm : ({ p2 with state := mm p2.state } : LP) = p2.markMatched := (markMatched_eq p2).symm
  constructor
  · unfold LP.endBlock
    have h1 : ¬ (p2.state == stateDescending || p2.state == stateDescendTerminated) = true := by
      rw [hst2]; decide
    have h1' : ¬ ((mapLP e X p2).state == stateDescending || (mapLP e X p2).state == stateDescendTerminated) = true := h1
    rw [if_neg h1', if_neg h1]
    simp only []
    rw [mapLP_markMatched]
    have hq := hl5.markMatched
    have hsq : p2.markMatched.source = X.take k := by rw [markMatched_source]; exact hsrc2
    have hSq : FineS e X k bd p2.markMatched.root := by rw [markMatched_root]; exact hS2
    have := closeContainer_simS (bd := bd) x hq hsq hSq he ((p2.markMatched.lineStart : Int) + (p2.markMatched.i : Int))
    rw [mapLP_cursor_cast hq] at this
    exact this
  · rw [BSp.endBlock_eq x p2 (by rw [hst2]; decide), BSp.closeContainer_eq x _ _ (by show p2.depth ≠ 0; rw [hdep2]; exact hd)]
    refine ⟨?_, hsrc2, ?_, ?_⟩
    · have := hl5.endBlock x
      rw [BSp.endBlock_eq x p2 (by rw [hst2]; decide), BSp.closeContainer_eq x _ _ (by show p2.depth ≠ 0; rw [hdep2]; exact hd)] at this
      exact this
    · show FineT e X k bd (spineReplaceLast (closeBlock x p2.source (curPos p2)) p2.root (p2.depth - 1))
      rw [hsrc2, hcp, hroot2, hdep2]
      obtain ⟨A, hA1, hA2⟩ := src_split p hline hlsk
      have hd1 : p.depth = (p.depth - 1) + 1 := by omega
      have key := setext_fine x p.root (p.depth - 1) n p.lineStart hg.fine P (by rw [← hd1]; exact hPg) hkP hbd A _ hA1 hA2 hlev
      rw [← hd1] at key
      exact key
    · show XT (X.take k) (spineReplaceLast (closeBlock x p2.source (curPos p2)) p2.root (p2.depth - 1))
      rw [hsrc2, hcp]
      have hx2 : XT (X.take k) p2.root := by
        rw [hroot2]
        exact xt_spineModify f (fun _ hc => XT_setLabel (fun _ => Or.inr (by show BK.setextHeading ≠ BK.paragraph; decide)) hc)
          _ _ hg.xt
      have hE : bd ≤ (((X.take k).length : Nat) : Int) := by omega
      exact xt_spineReplaceLast_R (FineS e X k bd) fineS_sub _
        (closeBlock_xq x _ (FineS e X k bd) fineS_sub (fineS_hook _ (Int.natCast_nonneg _) hE)) _ _ hS2 hx2

end

end CM.Proofs.EolG
