import CM.Proofs.HtmlWF2
/-
C07 with a tag filter, step 1: the token sequence of the documented mapping is Good (fixed vocabulary,
escaped, properly nested) for EVERY FilterTag setting — the tokens themselves do not depend on the filter
when raw HTML is ignored or absent; only the way `flat` writes them does.
(The proof is `toksNode_good` of HtmlWF2 with the unused hypothesis `cx.filter = none` removed, and with one
more fact carried along: no start or end tag token is named `br` — line breaks are `Tok.br` tokens — which
the byte-level recogniser of Spec/HtmlLang needs, since it treats `<br>` as void while `Spec.nest` would
treat a start tag token named `br` as an element to be closed.)
-/
namespace CM.Proofs.RenderWF
open CM CM.Model CM.Spec CM.Gen Node

/-- `tokOK`, and no tag token is named `br`. -/
def tokOKB : Tok → Bool
  | .stag n attrs => tokOK (.stag n attrs) && n != str "br"
  | .etag n => tokOK (.etag n) && n != str "br"
  | t => tokOK t

def GoodB (ts : List Tok) : Prop := ts.all tokOKB = true ∧ WN ts

theorem tokOK_of_tokOKB (t : Tok) (h : tokOKB t = true) : tokOK t = true := by
  cases t <;> first | exact h | (simp only [tokOKB, Bool.and_eq_true] at h; exact h.1)

theorem Good_of_GoodB {ts : List Tok} (h : GoodB ts) : Good ts := by
  refine ⟨?_, h.2⟩
  have := h.1
  simp only [List.all_eq_true] at this ⊢
  exact fun t ht => tokOK_of_tokOKB t (this t ht)

theorem GoodB_nil : GoodB [] := ⟨rfl, WN_nil⟩

theorem GoodB_append {a b : List Tok} (ha : GoodB a) (hb : GoodB b) : GoodB (a ++ b) :=
  ⟨by simp [ha.1, hb.1], WN_append ha.2 hb.2⟩

theorem GoodB_wrap {n : Bytes} {attrs : List (Bytes × Bytes)} {kids : List Tok}
    (hn : (rendererElements.contains n = true ∧ isVoid n = false) ∧ (n != str "br") = true)
    (ha : attrs.all attrOK = true) (hk : GoodB kids) : GoodB (wrap n attrs kids) := by
  refine ⟨?_, WN_wrap hn.1.2 hk.2⟩
  have hm : n ∈ rendererElements := by simpa using hn.1.1
  have hb := hn.2
  simp only [wrap, List.all_append, List.all_cons, List.all_nil, Bool.and_true, tokOKB, tokOK, Bool.and_eq_true,
    List.contains_iff_mem, hk.1, hb, hm, ha, hn.1.2, Bool.not_false, and_self]

theorem GoodB_void {n : Bytes} {attrs : List (Bytes × Bytes)}
    (hn : (rendererElements.contains n = true ∧ isVoid n = true) ∧ (n != str "br") = true)
    (ha : attrs.all attrOK = true) : GoodB (voidEl n attrs) := by
  refine ⟨?_, WN_void hn.1.2⟩
  have hm : n ∈ rendererElements := by simpa using hn.1.1
  have hb := hn.2
  simp only [voidEl, List.all_cons, List.all_nil, Bool.and_true, tokOKB, tokOK,
    List.contains_iff_mem, hb, hm, ha]

theorem GoodB_text {b : Bytes} (h : safeData b = true) : GoodB [Tok.text b] := ⟨by simp [tokOKB, tokOK, h], WN_text b⟩
theorem GoodB_cref {b : Bytes} (h : charRefShape b = true) : GoodB [Tok.cref b] := ⟨by simp [tokOKB, tokOK, h], WN_cref b⟩
theorem GoodB_raw_nil : GoodB [Tok.raw []] := ⟨by simp [tokOKB, tokOK], WN_raw []⟩
theorem GoodB_br : GoodB [Tok.br] := ⟨by simp [tokOKB, tokOK], WN_br⟩

theorem elb_p : (rendererElements.contains (str "p") = true ∧ isVoid (str "p") = false) ∧ (str "p" != str "br") = true := by decide +kernel
theorem elb_hr : (rendererElements.contains (str "hr") = true ∧ isVoid (str "hr") = true) ∧ (str "hr" != str "br") = true := by decide +kernel
theorem elb_pre : (rendererElements.contains (str "pre") = true ∧ isVoid (str "pre") = false) ∧ (str "pre" != str "br") = true := by decide +kernel
theorem elb_code : (rendererElements.contains (str "code") = true ∧ isVoid (str "code") = false) ∧ (str "code" != str "br") = true := by decide +kernel
theorem elb_blockquote : (rendererElements.contains (str "blockquote") = true ∧ isVoid (str "blockquote") = false) ∧ (str "blockquote" != str "br") = true := by decide +kernel
theorem elb_ol : (rendererElements.contains (str "ol") = true ∧ isVoid (str "ol") = false) ∧ (str "ol" != str "br") = true := by decide +kernel
theorem elb_ul : (rendererElements.contains (str "ul") = true ∧ isVoid (str "ul") = false) ∧ (str "ul" != str "br") = true := by decide +kernel
theorem elb_li : (rendererElements.contains (str "li") = true ∧ isVoid (str "li") = false) ∧ (str "li" != str "br") = true := by decide +kernel
theorem elb_em : (rendererElements.contains (str "em") = true ∧ isVoid (str "em") = false) ∧ (str "em" != str "br") = true := by decide +kernel
theorem elb_strong : (rendererElements.contains (str "strong") = true ∧ isVoid (str "strong") = false) ∧ (str "strong" != str "br") = true := by decide +kernel
theorem elb_a : (rendererElements.contains (str "a") = true ∧ isVoid (str "a") = false) ∧ (str "a" != str "br") = true := by decide +kernel
theorem elb_img : (rendererElements.contains (str "img") = true ∧ isVoid (str "img") = true) ∧ (str "img" != str "br") = true := by decide +kernel

theorem elb_heading (n : Int) :
    (rendererElements.contains (headingTag n) = true ∧ isVoid (headingTag n) = false) ∧ (headingTag n != str "br") = true := by
  unfold headingTag
  repeat' split
  all_goals decide +kernel

set_option linter.unusedSimpArgs false
set_option maxRecDepth 2000 in
mutual
theorem toksNode_goodB (cx : RCtx) (p : Option Tree) (t : Tree) (h : Hyp cx (T.nodes t)) :
    GoodB (toksNode cx p t) := by
  match t with
  | .node l cs =>
    have hn : Hyp cx (.node l cs :: T.nodesL cs) := by simpa [T.nodes] using h
    obtain ⟨hpre, hraw, hkidsHyp⟩ := Hyp_cons hn
    have hk : GoodB (toksForest cx (.node l cs) cs) := toksForest_goodB cx (.node l cs) cs hkidsHyp
    by_cases hb : l.isBlock = true
    · match hkind : l.kind with
      | 0 => simp [toksNode, hb, hkind, BK.paragraph, BK.thematicBreak, BK.atxHeading, BK.setextHeading, BK.indentedCode, BK.fencedCode, BK.htmlBlock, BK.linkRefDef, BK.blockQuote, BK.listItem, BK.list]; exact GoodB_nil
      | 1 =>
        simp only [toksNode, hb, hkind, BK.paragraph, if_true, beq_self_eq_true]
        split
        · exact hk
        · exact GoodB_wrap elb_p attrs_nil hk
      | 2 => simp [toksNode, hb, hkind, BK.paragraph, BK.thematicBreak]; exact GoodB_void elb_hr attrs_nil
      | 3 => simp [toksNode, hb, hkind, BK.paragraph, BK.thematicBreak, BK.atxHeading]; exact GoodB_wrap (elb_heading _) attrs_nil hk
      | 4 => simp [toksNode, hb, hkind, BK.paragraph, BK.thematicBreak, BK.atxHeading, BK.setextHeading]; exact GoodB_wrap (elb_heading _) attrs_nil hk
      | 5 =>
        simp only [toksNode, hb, hkind, BK.paragraph, BK.thematicBreak, BK.atxHeading, BK.setextHeading, BK.indentedCode, BK.fencedCode, if_true, Bool.false_eq_true, if_false, Bool.or_false, Bool.or_true, beq_self_eq_true, Nat.reduceBEq, Bool.or_self]
        exact GoodB_wrap elb_pre attrs_nil (GoodB_wrap elb_code (cls_ok cx _) hk)
      | 6 =>
        simp only [toksNode, hb, hkind, BK.paragraph, BK.thematicBreak, BK.atxHeading, BK.setextHeading, BK.indentedCode, BK.fencedCode, if_true, Bool.false_eq_true, if_false, Bool.or_false, Bool.or_true, beq_self_eq_true, Nat.reduceBEq, Bool.or_self]
        exact GoodB_wrap elb_pre attrs_nil (GoodB_wrap elb_code (cls_ok cx _) hk)
      | 7 =>
        simp only [toksNode, hb, hkind, BK.paragraph, BK.thematicBreak, BK.atxHeading, BK.setextHeading, BK.indentedCode, BK.fencedCode, BK.blockQuote, BK.list, BK.listItem, BK.htmlBlock, if_true, Bool.false_eq_true, if_false, Bool.or_false, beq_self_eq_true, Nat.reduceBEq, Bool.or_self]
        split
        · exact GoodB_nil
        · exact hk
      | 8 => simp [toksNode, hb, hkind, BK.paragraph, BK.thematicBreak, BK.atxHeading, BK.setextHeading, BK.indentedCode, BK.fencedCode, BK.htmlBlock, BK.linkRefDef, BK.blockQuote, BK.listItem, BK.list]; exact GoodB_nil
      | 9 => simp [toksNode, hb, hkind, BK.paragraph, BK.thematicBreak, BK.atxHeading, BK.setextHeading, BK.indentedCode, BK.fencedCode, BK.blockQuote]; exact GoodB_wrap elb_blockquote attrs_nil hk
      | 10 => simp [toksNode, hb, hkind, BK.paragraph, BK.thematicBreak, BK.atxHeading, BK.setextHeading, BK.indentedCode, BK.fencedCode, BK.blockQuote, BK.list, BK.listItem]; exact GoodB_wrap elb_li attrs_nil hk
      | 11 =>
        simp only [toksNode, hb, hkind, BK.paragraph, BK.thematicBreak, BK.atxHeading, BK.setextHeading, BK.indentedCode, BK.fencedCode, BK.blockQuote, BK.list, if_true, Bool.false_eq_true, if_false, Bool.or_false, beq_self_eq_true, Nat.reduceBEq, Bool.or_self]
        split
        · exact GoodB_wrap elb_ol (start_ok _) hk
        · exact GoodB_wrap elb_ul attrs_nil hk
      | 12 => simp [toksNode, hb, hkind, BK.paragraph, BK.thematicBreak, BK.atxHeading, BK.setextHeading, BK.indentedCode, BK.fencedCode, BK.htmlBlock, BK.linkRefDef, BK.blockQuote, BK.listItem, BK.list]; exact GoodB_nil
      | 13 => simp [toksNode, hb, hkind, BK.paragraph, BK.thematicBreak, BK.atxHeading, BK.setextHeading, BK.indentedCode, BK.fencedCode, BK.htmlBlock, BK.linkRefDef, BK.blockQuote, BK.listItem, BK.list]; exact GoodB_nil
      | k + 14 => simp [toksNode, hb, hkind, BK.paragraph, BK.thematicBreak, BK.atxHeading, BK.setextHeading, BK.indentedCode, BK.fencedCode, BK.htmlBlock, BK.linkRefDef, BK.blockQuote, BK.listItem, BK.list]; exact GoodB_nil
    · have hb' : l.isBlock = false := by simpa using hb
      match hkind : l.kind with
      | 0 => simp [toksNode, hb', hkind, IK.text, IK.softBreak, IK.hardBreak, IK.indent, IK.charRef, IK.infoString, IK.emphasis, IK.strong, IK.link, IK.image, IK.linkDest, IK.linkTitle, IK.linkLabel, IK.codeSpan, IK.autolink, IK.htmlTag, IK.rawHTML, IK.unparsed]; exact GoodB_nil
      | 1 => simp [toksNode, hb', hkind, IK.text, IK.softBreak, IK.hardBreak, IK.indent, IK.charRef, IK.infoString, IK.emphasis, IK.strong, IK.link, IK.image, IK.linkDest, IK.linkTitle, IK.linkLabel, IK.codeSpan, IK.autolink, IK.htmlTag, IK.rawHTML, IK.unparsed]; exact GoodB_text (safeData_escapeHTML _)
      | 2 =>
        have hs : (slice cx.src (.node l cs)).all (fun c => c == LF || c == CR) = true := by
          have := hpre
          simp only [safePreAt, T.isI, Tree.label, hb', hkind, IK.charRef, IK.softBreak, Bool.not_false, Bool.true_and,
            Bool.and_eq_true] at this
          simpa using this.2
        simp [toksNode, hb', hkind, IK.text, IK.softBreak, IK.hardBreak, IK.indent, IK.charRef, IK.infoString, IK.emphasis, IK.strong, IK.link, IK.image, IK.linkDest, IK.linkTitle, IK.linkLabel, IK.codeSpan, IK.autolink, IK.htmlTag, IK.rawHTML, IK.unparsed]
        repeat' split
        · exact GoodB_br
        · exact GoodB_text safe_sp
        · exact GoodB_text (safeData_eol _ hs)
        · exact GoodB_text safe_lf
      | 3 => simp [toksNode, hb', hkind, IK.text, IK.softBreak, IK.hardBreak, IK.indent, IK.charRef, IK.infoString, IK.emphasis, IK.strong, IK.link, IK.image, IK.linkDest, IK.linkTitle, IK.linkLabel, IK.codeSpan, IK.autolink, IK.htmlTag, IK.rawHTML, IK.unparsed]; exact GoodB_br
      | 4 => simp [toksNode, hb', hkind, IK.text, IK.softBreak, IK.hardBreak, IK.indent, IK.charRef, IK.infoString, IK.emphasis, IK.strong, IK.link, IK.image, IK.linkDest, IK.linkTitle, IK.linkLabel, IK.codeSpan, IK.autolink, IK.htmlTag, IK.rawHTML, IK.unparsed]; exact GoodB_text (safeData_spaces _)
      | 5 =>
        have hs : charRefShape (slice cx.src (.node l cs)) = true := by
          have := hpre
          simp only [safePreAt, T.isI, Tree.label, hb', hkind, IK.charRef, IK.softBreak, Bool.not_false, Bool.true_and,
            Bool.and_eq_true] at this
          simpa using this.1
        simp [toksNode, hb', hkind, IK.text, IK.softBreak, IK.hardBreak, IK.indent, IK.charRef, IK.infoString, IK.emphasis, IK.strong, IK.link, IK.image, IK.linkDest, IK.linkTitle, IK.linkLabel, IK.codeSpan, IK.autolink, IK.htmlTag, IK.rawHTML, IK.unparsed]; exact GoodB_cref hs
      | 6 => simp [toksNode, hb', hkind, IK.text, IK.softBreak, IK.hardBreak, IK.indent, IK.charRef, IK.infoString, IK.emphasis, IK.strong, IK.link, IK.image, IK.linkDest, IK.linkTitle, IK.linkLabel, IK.codeSpan, IK.autolink, IK.htmlTag, IK.rawHTML, IK.unparsed]; exact GoodB_nil
      | 7 => simp [toksNode, hb', hkind, IK.text, IK.softBreak, IK.hardBreak, IK.indent, IK.charRef, IK.infoString, IK.emphasis, IK.strong, IK.link, IK.image, IK.linkDest, IK.linkTitle, IK.linkLabel, IK.codeSpan, IK.autolink, IK.htmlTag, IK.rawHTML, IK.unparsed]; exact GoodB_wrap elb_em attrs_nil hk
      | 8 => simp [toksNode, hb', hkind, IK.text, IK.softBreak, IK.hardBreak, IK.indent, IK.charRef, IK.infoString, IK.emphasis, IK.strong, IK.link, IK.image, IK.linkDest, IK.linkTitle, IK.linkLabel, IK.codeSpan, IK.autolink, IK.htmlTag, IK.rawHTML, IK.unparsed]; exact GoodB_wrap elb_strong attrs_nil hk
      | 9 => simp [toksNode, hb', hkind, IK.text, IK.softBreak, IK.hardBreak, IK.indent, IK.charRef, IK.infoString, IK.emphasis, IK.strong, IK.link, IK.image, IK.linkDest, IK.linkTitle, IK.linkLabel, IK.codeSpan, IK.autolink, IK.htmlTag, IK.rawHTML, IK.unparsed]; exact GoodB_wrap elb_a (linkAttrToks_ok _ "href" at_href) hk
      | 10 => simp [toksNode, hb', hkind, IK.text, IK.softBreak, IK.hardBreak, IK.indent, IK.charRef, IK.infoString, IK.emphasis, IK.strong, IK.link, IK.image, IK.linkDest, IK.linkTitle, IK.linkLabel, IK.codeSpan, IK.autolink, IK.htmlTag, IK.rawHTML, IK.unparsed]; exact GoodB_void elb_img (img_attrs_ok cx _)
      | 11 => simp [toksNode, hb', hkind, IK.text, IK.softBreak, IK.hardBreak, IK.indent, IK.charRef, IK.infoString, IK.emphasis, IK.strong, IK.link, IK.image, IK.linkDest, IK.linkTitle, IK.linkLabel, IK.codeSpan, IK.autolink, IK.htmlTag, IK.rawHTML, IK.unparsed]; exact GoodB_nil
      | 12 => simp [toksNode, hb', hkind, IK.text, IK.softBreak, IK.hardBreak, IK.indent, IK.charRef, IK.infoString, IK.emphasis, IK.strong, IK.link, IK.image, IK.linkDest, IK.linkTitle, IK.linkLabel, IK.codeSpan, IK.autolink, IK.htmlTag, IK.rawHTML, IK.unparsed]; exact GoodB_nil
      | 13 => simp [toksNode, hb', hkind, IK.text, IK.softBreak, IK.hardBreak, IK.indent, IK.charRef, IK.infoString, IK.emphasis, IK.strong, IK.link, IK.image, IK.linkDest, IK.linkTitle, IK.linkLabel, IK.codeSpan, IK.autolink, IK.htmlTag, IK.rawHTML, IK.unparsed]; exact GoodB_nil
      | 14 => simp [toksNode, hb', hkind, IK.text, IK.softBreak, IK.hardBreak, IK.indent, IK.charRef, IK.infoString, IK.emphasis, IK.strong, IK.link, IK.image, IK.linkDest, IK.linkTitle, IK.linkLabel, IK.codeSpan, IK.autolink, IK.htmlTag, IK.rawHTML, IK.unparsed]; exact GoodB_wrap elb_code attrs_nil hk
      | 15 => simp [toksNode, hb', hkind, IK.text, IK.softBreak, IK.hardBreak, IK.indent, IK.charRef, IK.infoString, IK.emphasis, IK.strong, IK.link, IK.image, IK.linkDest, IK.linkTitle, IK.linkLabel, IK.codeSpan, IK.autolink, IK.htmlTag, IK.rawHTML, IK.unparsed]; exact GoodB_wrap elb_a (href_ok _) (GoodB_text (safeData_escapeString _))
      | 16 => simp [toksNode, hb', hkind, IK.text, IK.softBreak, IK.hardBreak, IK.indent, IK.charRef, IK.infoString, IK.emphasis, IK.strong, IK.link, IK.image, IK.linkDest, IK.linkTitle, IK.linkLabel, IK.codeSpan, IK.autolink, IK.htmlTag, IK.rawHTML, IK.unparsed]; exact hk
      | 17 =>
        rcases hraw with hraw | hraw
        · simp [toksNode, hb', hkind, IK.text, IK.softBreak, IK.hardBreak, IK.indent, IK.charRef, IK.infoString, IK.emphasis, IK.strong, IK.link, IK.image, IK.linkDest, IK.linkTitle, IK.linkLabel, IK.codeSpan, IK.autolink, IK.htmlTag, IK.rawHTML, IK.unparsed]; simp [hraw]; exact GoodB_raw_nil
        · simp [isRawNode, T.isI, T.isB, Tree.label, hb', hkind, IK.rawHTML, IK.htmlTag] at hraw
      | 18 => simp [toksNode, hb', hkind, IK.text, IK.softBreak, IK.hardBreak, IK.indent, IK.charRef, IK.infoString, IK.emphasis, IK.strong, IK.link, IK.image, IK.linkDest, IK.linkTitle, IK.linkLabel, IK.codeSpan, IK.autolink, IK.htmlTag, IK.rawHTML, IK.unparsed]; exact GoodB_text (safeData_escapeHTML _)
      | k + 19 => simp [toksNode, hb', hkind, IK.text, IK.softBreak, IK.hardBreak, IK.indent, IK.charRef, IK.infoString, IK.emphasis, IK.strong, IK.link, IK.image, IK.linkDest, IK.linkTitle, IK.linkLabel, IK.codeSpan, IK.autolink, IK.htmlTag, IK.rawHTML, IK.unparsed]; exact GoodB_nil
theorem toksForest_goodB (cx : RCtx) (parent : Tree) (cs : List Tree) (h : Hyp cx (T.nodesL cs)) :
    GoodB (toksForest cx parent cs) := by
  match cs with
  | [] => exact GoodB_nil
  | c :: cs =>
    simp only [toksForest]
    have := Hyp_append (by simpa [T.nodesL] using h : Hyp cx (T.nodes c ++ T.nodesL cs))
    exact GoodB_append (toksNode_goodB cx (some parent) c this.1) (toksForest_goodB cx parent cs this.2)
end

theorem toksNode_goodF (cx : RCtx) (p : Option Tree) (t : Tree) (h : Hyp cx (T.nodes t)) :
    Good (toksNode cx p t) := Good_of_GoodB (toksNode_goodB cx p t h)

end CM.Proofs.RenderWF
