import CM.Proofs.QuoteMachine
import CM.Proofs.BlocksWell
import CM.Proofs.BlocksSpans
/-
C09 (block-quote half), step (4): one line of the two runs, in the coordinates of the stream machine.

`D = a ++ b` with `a` whole lines: the bare run has cut `c ≤ |a|` bytes and is about to feed the first line of `b`
(relative start `|a| - c`) to its line parser; the prefixed run is about to feed `> ` + that line, which starts at
`φ = |a| + 2·nLF a` in `quote D = qa ++ quote b`.
-/
namespace CM.Proofs.Quote
open CM CM.Model CM.Gen CM.Proofs.BT

/-- The environment of the two runs: `c` bytes cut on the bare side, sources of `s` / `s'` bytes. -/
def envOf (DR : List Tree → List Tree → Prop) (D : Bytes) (c s s' : Nat) (done : List Tree) : Env :=
  { PR := PRabs D c, src := (D.drop c).take s, src' := (quote D).take s', DR := DR, done := done }

theorem envOf_le (DR : List Tree → List Tree → Prop) (D : Bytes) (c s s' t t' : Nat) (done : List Tree) (h : s ≤ t) (h' : s' ≤ t') :
    (envOf DR D c s s' done).le (envOf DR D c t t' done) :=
  ⟨rfl, by show (D.drop c).take s <+: (D.drop c).take t; exact (List.take_prefix_take_left (by omega)),
    by show (quote D).take s' <+: (quote D).take t'; exact (List.take_prefix_take_left (by omega)), fun _ _ h => h⟩

theorem envOf_le_envAt (DR : List Tree → List Tree → Prop) (D : Bytes) (c s s' : Nat) (done : List Tree) :
    (envOf DR D c s s' done).le (envAt DR D c) :=
  ⟨rfl, List.take_prefix _ _, List.take_prefix _ _, fun _ _ h => h⟩

/-! ### `reset` -/

theorem reset_source (p : LP) (source : Bytes) (ls : Nat) : (p.reset source ls).source = source := by
  unfold LP.reset
  have := updateTab_tree { p with lineStart := ls, source := source, line := source.drop ls, i := 0, col := 0, depth := 0 }
  simp only [tree, Prod.mk.injEq] at this
  exact this.1

theorem reset_panic (p : LP) (source : Bytes) (ls : Nat) : (p.reset source ls).panic = p.panic := by
  unfold LP.reset; rw [updateTab_panic]

/-! ### the line of the bare side and the line of the prefixed side -/

section line
variable {D a b qa : Bytes} {c : Nat}

/-- The coordinates of a line. -/
structure LineAt (D a b qa : Bytes) (c : Nat) : Prop where
  split : D = a ++ b
  qsplit : quote D = qa ++ quote b
  clean : Clean D
  whole : Whole a
  cle : c ≤ a.length
  qlen : qa.length = a.length + 2 * nLF a a.length
  bne : b ≠ []

variable (h : LineAt D a b qa c)
include h

theorem LineAt.noCRb : NoCR b := noCR_b h.split h.clean.noCR

/-- The source of the bare side up to the end of the line, behind the line start. -/
theorem LineAt.lineD : ((D.drop c).take (a.length - c + lineLen b)).drop (a.length - c) = b.take (lineLen b) := by
  have e : D.drop c = a.drop c ++ b := by rw [h.split, List.drop_append_of_le_length h.cle]
  have hl : (a.drop c).length = a.length - c := by simp
  rw [e, List.take_append, List.drop_append]
  rw [hl]
  have e1 : (a.drop c).take (a.length - c + lineLen b) = a.drop c := List.take_of_length_le (by omega)
  have e2 : a.length - c + lineLen b - (a.length - c) = lineLen b := by omega
  rw [e1, e2, List.drop_eq_nil_of_le (by omega), List.nil_append]
  have hl2 : (b.take (lineLen b)).length = lineLen b := by rw [List.length_take]; exact Nat.min_eq_left (lineLen_le b)
  rw [hl, Nat.sub_self, List.drop_zero]

/-- The source of the prefixed side up to the end of the line, behind the line start. -/
theorem LineAt.lineQ : ((quote D).take (qa.length + (lineLen b + 2))).drop qa.length = GT :: SP :: b.take (lineLen b) := by
  rw [h.qsplit, List.take_append, List.drop_append]
  have e1 : qa.take (qa.length + (lineLen b + 2)) = qa := List.take_of_length_le (by omega)
  have e2 : qa.length + (lineLen b + 2) - qa.length = lineLen b + 2 := by omega
  rw [e1, e2, List.drop_eq_nil_of_le (by omega), List.nil_append, Nat.sub_self, List.drop_zero]
  have := take_line_quote b h.noCRb h.bne
  rw [lineLen_quote b h.noCRb h.bne] at this
  exact this

theorem LineAt.lenD : c + (a.length - c + lineLen b) ≤ D.length := by
  have := lineLen_le b
  rw [h.split, List.length_append]
  have := h.cle
  omega

theorem LineAt.lenQ : qa.length + (lineLen b + 2) ≤ (quote D).length := by
  have := lineLen_le (quote b)
  rw [lineLen_quote b h.noCRb h.bne] at this
  rw [h.qsplit, List.length_append]
  omega

/-- The next line. -/
theorem LineAt.next : D = (a ++ b.take (lineLen b)) ++ b.drop (lineLen b) ∧
    quote D = (qa ++ GT :: SP :: b.take (lineLen b)) ++ quote (b.drop (lineLen b)) ∧
    (b.drop (lineLen b) ≠ [] → Whole (a ++ b.take (lineLen b))) ∧
    (b.drop (lineLen b) ≠ [] → (qa ++ GT :: SP :: b.take (lineLen b)).length =
      (a ++ b.take (lineLen b)).length + 2 * nLF (a ++ b.take (lineLen b)) (a ++ b.take (lineLen b)).length) := by
  have hnb := h.noCRb
  refine ⟨by rw [List.append_assoc, List.take_append_drop]; exact h.split, ?_, ?_, ?_⟩
  · rw [h.qsplit, quote_line b hnb h.bne]
    simp [List.append_assoc]
  · intro hne
    right
    -- the line ends with LF because something follows it
    have hne2 : b.take (lineLen b) ≠ [] := by
      intro e
      have h1 := congrArg List.length e
      rw [List.length_take] at h1
      have h2 := lineLen_pos h.bne
      have h3 : 0 < b.length := List.length_pos_iff.mpr h.bne
      simp only [List.length_nil] at h1
      omega
    rw [getLast?_append_ne' _ _ hne2]
    rcases line_end b with hl | hl | hl
    · exact absurd hl hne
    · exact hl
    · -- a CR: impossible
      exfalso
      have hmem : CR ∈ b.take (lineLen b) := List.mem_of_getLast? hl
      exact hnb CR (List.mem_of_mem_take hmem) rfl
  · intro hne
    have hl2 : (b.take (lineLen b)).length = lineLen b := by rw [List.length_take]; exact Nat.min_eq_left (lineLen_le b)
    have hf := filter_line_LF b hnb hne
    have hq := h.qlen
    rw [nLF_take_length] at hq
    rw [nLF_take_length, List.filter_append]
    simp only [List.length_append, List.length_cons, hl2, hf, hq]
    omega

/-- After the last line: the end of `quote D`. -/
theorem LineAt.next_eof (hlast : b.drop (lineLen b) = []) :
    (qa ++ GT :: SP :: b.take (lineLen b)).length = psiE D D.length := by
  have hnb := h.noCRb
  have hl2 : (b.take (lineLen b)).length = lineLen b := by rw [List.length_take]; exact Nat.min_eq_left (lineLen_le b)
  have hbl : lineLen b = b.length := by
    have h1 := congrArg List.length hlast
    rw [List.length_drop] at h1
    have := lineLen_le b
    simp only [List.length_nil] at h1
    omega
  have hpos := lineLen_pos h.bne
  have hDl : D.length = a.length + lineLen b := by rw [h.split, List.length_append, hbl]
  rw [hDl, psiE_line h.split h.clean.noCR h.whole (lineLen b) hpos (Nat.le_refl _)]
  simp only [List.length_append, List.length_cons, hl2, h.qlen]
  omega

/-- **The two parsers at the start of the line.** -/
theorem lineStart_of (DR : List Tree → List Tree → Prop) (done : List Tree) (lpD lpQ : LP) (hD' : LPInv' lpD) (hQ' : LPInv' lpQ)
    (hroot : RootR (envOf DR D c (a.length - c) qa.length done) lpD.root lpQ.root) :
    LineStart (envOf DR D c (a.length - c + lineLen b) (qa.length + (lineLen b + 2)) done)
      (lpD.reset ((D.drop c).take (a.length - c + lineLen b)) (a.length - c))
      (lpQ.reset ((quote D).take (qa.length + (lineLen b + 2))) qa.length) := by
  obtain ⟨p1, p2, p3, p4, p5, _⟩ := reset_fields lpD ((D.drop c).take (a.length - c + lineLen b)) (a.length - c)
  obtain ⟨q1, q2, q3, q4, q5, _⟩ := reset_fields lpQ ((quote D).take (qa.length + (lineLen b + 2))) qa.length
  have hpl : (lpD.reset ((D.drop c).take (a.length - c + lineLen b)) (a.length - c)).line = b.take (lineLen b) := by
    rw [p4, h.lineD]
  have hql : (lpQ.reset ((quote D).take (qa.length + (lineLen b + 2))) qa.length).line = GT :: SP :: b.take (lineLen b) := by
    rw [q4, h.lineQ]
  have hll : (b.take (lineLen b)).length = lineLen b := by rw [List.length_take]; exact Nat.min_eq_left (lineLen_le b)
  have hcr := h.clean.noCR
  refine ⟨by rw [hql, hpl], p5, q5, ?_, ?_, ?_, reset_source _ _ _, reset_source _ _ _, ?_, ?_, ?_, ?_, ?_, ?_, ?_⟩
  · rw [hpl]
    intro x hx
    apply h.clean.noTab
    rw [h.split]
    exact List.mem_append_right _ (List.mem_of_mem_take hx)
  · rw [reset_panic, reset_panic, hD'.panic, hQ'.panic]
  · rw [p1, q1]
    exact hroot.mono (envOf_le DR D c (a.length - c) qa.length (a.length - c + lineLen b) (qa.length + (lineLen b + 2)) done
      (by omega) (by omega)) rfl
  · rw [p4, reset_source, p3]
  · rw [reset_source, p3, List.length_take, List.length_drop]
    have := h.lenD
    omega
  · rw [q4, reset_source, q3]
  · rw [reset_source, q3, List.length_take]
    have := h.lenQ
    omega
  · intro j hj
    rw [hpl, hll] at hj
    rw [p3, q3]
    have := prabs_here h.split hcr h.whole c h.cle j hj
    rw [h.qlen]
    exact this
  · rw [p3, q3, h.qlen]
    exact prabs_start h.split hcr h.whole c h.cle
  · intro x x' hx
    rw [p3, q3, h.qlen]
    exact prabs_ord h.split hcr h.whole c h.cle x x' hx

end line

/-! ### the invariants of the bare side's session -/

open CM.Proofs.BSp in
/-- The line parser of the bare side between two lines; `s` bytes of `D[c:]` have been fed to it. -/
structure DSess (D : Bytes) (c s : Nat) (lp : LP) : Prop where
  inv : LPInv' lp
  openr : lp.root.label.stop < 0
  spans : PBSpans QT 0 s lp.root
  well : blocksI ((D.drop c).take s) lp

/-- The hypothesis `hT` of the line simulation, from the invariants of the session. -/
theorem hT_of {D : Bytes} {c s : Nat} {lp : LP} (h : DSess D c s lp)
    (hfirst : ∀ k rest, lp.root.blocks = k :: rest → k.isOpen = true) :
    lp.state = stateDescendTerminated → ∃ c0, spineGet lp.root 1 = some c0 ∧ c0.isOpen = true ∧ hasMatch c0.label.kind := by
  intro hs
  obtain ⟨hroot, hne, hterm⟩ := h.well
  have ht := hterm hs
  cases hb : lp.root.blocks with
  | nil => exact absurd hb hne
  | cons k rest =>
    have hko := hfirst k rest hb
    have hkids := hroot.kids
    rw [hb] at hkids
    have hrest : rest = [] := by
      by_cases hr : rest = []
      · exact hr
      · exfalso
        have hmem : k ∈ (k :: rest).dropLast := by
          rw [dropLast_cons_ne k rest hr]; exact List.mem_cons_self ..
        have := hkids.init k hmem
        unfold PBClosed at this
        simp only [PB.isOpen, decide_eq_true_eq] at hko
        omega
    subst hrest
    have hlast : lp.root.blocks.getLast? = some k := by rw [hb]; rfl
    refine ⟨k, by rw [spineGet_one]; exact hlast, hko, ?_⟩
    rcases ht with hcl | ⟨c0, hc0, hm⟩
    · have := hcl k hlast
      unfold PBClosed at this
      simp only [PB.isOpen, decide_eq_true_eq] at hko
      omega
    · rw [hlast] at hc0; cases hc0; exact hm

section line
variable {D a b qa : Bytes} {c : Nat}

open CM.Proofs.BSp in
/-- **One line through both line parsers**: the relation, and the invariants that do not depend on how the session of
    the bare side began. -/
theorem step_core {x : PExt} (DR : List Tree → List Tree → Prop) (h : LineAt D a b qa c) (done : List Tree) (lpD lpQ : LP)
    (HC : CloseParaSim x (envOf DR D c (a.length - c + lineLen b) (qa.length + (lineLen b + 2)) done))
    (hDi : LPInv' lpD) (hDo : lpD.root.label.stop < 0) (hQ : LPInv' lpQ)
    (hT : lpD.state = stateDescendTerminated → ∃ c0, spineGet lpD.root 1 = some c0 ∧ c0.isOpen = true ∧ hasMatch c0.label.kind)
    (hroot : RootR (envOf DR D c (a.length - c) qa.length done) lpD.root lpQ.root)
    (hchk : pbSpans (RefDefSpansOK x ((D.drop c).take (a.length - c + lineLen b)) ((a.length - c : Nat) : Int)
      ((D.drop c).take (a.length - c + lineLen b)).length) 0 ((a.length - c : Nat) : Int) lpD.root = true) :
    LPInv' ((blocksLP x).line lpD ((D.drop c).take (a.length - c + lineLen b)) (a.length - c)) ∧
    ((blocksLP x).line lpD ((D.drop c).take (a.length - c + lineLen b)) (a.length - c)).root.label.stop < 0 ∧
    PBSpans QT 0 ((a.length - c + lineLen b : Nat) : Int)
      ((blocksLP x).line lpD ((D.drop c).take (a.length - c + lineLen b)) (a.length - c)).root ∧
    LPInv' ((blocksLP x).line lpQ ((quote D).take (qa.length + (lineLen b + 2))) qa.length) ∧
    RootR (envOf DR D c (a.length - c + lineLen b) (qa.length + (lineLen b + 2)) done)
      ((blocksLP x).line lpD ((D.drop c).take (a.length - c + lineLen b)) (a.length - c)).root
      ((blocksLP x).line lpQ ((quote D).take (qa.length + (lineLen b + 2))) qa.length).root := by
  have hls := lineStart_of h DR done lpD lpQ hDi hQ hroot
  have hlenD : ((D.drop c).take (a.length - c + lineLen b)).length = a.length - c + lineLen b := by
    rw [List.length_take, List.length_drop]; have := h.lenD; omega
  have hpos := lineLen_pos h.bne
  obtain ⟨p1, p2, p3, p4, p5, p6⟩ := reset_fields lpD ((D.drop c).take (a.length - c + lineLen b)) (a.length - c)
  have hpl : (lpD.reset ((D.drop c).take (a.length - c + lineLen b)) (a.length - c)).line ≠ [] := by
    rw [p4, h.lineD]
    intro e
    have := congrArg List.length e
    rw [List.length_take] at this
    have h3 : 0 < b.length := List.length_pos_iff.mpr h.bne
    simp only [List.length_nil] at this
    omega
  have hsim := processLine_sim (x := x) HC hls hpl (reset_LPInv lpD hDi _ _).toInv (reset_LPInv lpQ hQ _ _).toInv
    (by rw [p6, p1]; exact hT)
  refine ⟨blocksLP_line_LPInv' x lpD hDi _ _, ?_, ?_, blocksLP_line_LPInv' x lpQ hQ _ _, hsim.root⟩
  · have := (processLine_spans x lpD _ (a.length - c) hDi (by rw [hlenD]; omega) hDo hchk).2
    exact this (by rw [hlenD]; omega)
  · have := (processLine_spans x lpD _ (a.length - c) hDi (by rw [hlenD]; omega) hDo hchk).1
    rw [hlenD] at this
    exact this

open CM.Proofs.BSp in
/-- One line, in the middle of a session of the bare side. -/
theorem step_line {x : PExt} (DR : List Tree → List Tree → Prop) (h : LineAt D a b qa c) (done : List Tree) (lpD lpQ : LP)
    (HC : CloseParaSim x (envOf DR D c (a.length - c + lineLen b) (qa.length + (lineLen b + 2)) done))
    (hD : DSess D c (a.length - c) lpD) (hQ : LPInv' lpQ)
    (hfirst : ∀ k rest, lpD.root.blocks = k :: rest → k.isOpen = true)
    (hroot : RootR (envOf DR D c (a.length - c) qa.length done) lpD.root lpQ.root)
    (hchk : pbSpans (RefDefSpansOK x ((D.drop c).take (a.length - c + lineLen b)) ((a.length - c : Nat) : Int)
      ((D.drop c).take (a.length - c + lineLen b)).length) 0 ((a.length - c : Nat) : Int) lpD.root = true) :
    DSess D c (a.length - c + lineLen b) ((blocksLP x).line lpD ((D.drop c).take (a.length - c + lineLen b)) (a.length - c)) ∧
    LPInv' ((blocksLP x).line lpQ ((quote D).take (qa.length + (lineLen b + 2))) qa.length) ∧
    RootR (envOf DR D c (a.length - c + lineLen b) (qa.length + (lineLen b + 2)) done)
      ((blocksLP x).line lpD ((D.drop c).take (a.length - c + lineLen b)) (a.length - c)).root
      ((blocksLP x).line lpQ ((quote D).take (qa.length + (lineLen b + 2))) qa.length).root := by
  obtain ⟨c1, c2, c3, c4, c5⟩ := step_core (x := x) DR h done lpD lpQ HC hD.inv hD.openr hQ (hT_of hD hfirst) hroot hchk
  refine ⟨⟨c1, c2, c3, ?_⟩, c4, c5⟩
  have hlenD : ((D.drop c).take (a.length - c + lineLen b)).length = a.length - c + lineLen b := by
    rw [List.length_take, List.length_drop]; have := h.lenD; omega
  have hpos := lineLen_pos h.bne
  have hpre : (D.drop c).take (a.length - c) <+: (D.drop c).take (a.length - c + lineLen b) :=
    List.take_prefix_take_left (by omega)
  have hl0 : ((D.drop c).take (a.length - c)).length = a.length - c := by
    rw [List.length_take, List.length_drop]; have := h.lenD; omega
  have := blocks_step x lpD _ _ hD.well hpre (by rw [hl0, hlenD]; omega)
  rw [hl0] at this
  exact this

end line

end CM.Proofs.Quote
