import CM.Proofs.RefDefCoverDef
import CM.Proofs.RefDefSpansTree
/-
C03, block half — `GoodT2` (the strong invariant of RefDefCoverDef): adaptation of RefDefSpansTree.lean.
Everything that does not mention `GoodT`/`NodeOK` is reused from `CM.Proofs.RDS`.
-/
namespace CM.Proofs.RDC
open CM CM.Model CM.Gen CM.Proofs.BSp CM.Proofs.BT CM.Proofs.BG CM.Proofs.RDS

/-! ### a longer source -/

-- reused from RDS: getD_prefix

-- reused from RDS: EolAtEnd_mono

theorem getD_oob {src : Bytes} {j : Nat} (h : ¬ j < src.length) : src.getD j 0 = 0 := by
  simp only [List.getD_eq_getElem?_getD]
  rw [List.getElem?_eq_none (by omega)]
  rfl

/-- `NodeX` under a longer source: if the source really grows, the old source ends with a line ending and the node
    begins inside the source (`0 ≤ start`; needed only when the old source is empty). -/
theorem NodeX_mono {src src' : Bytes} (hp : src <+: src')
    (hE : src' = src ∨ (src = [] ∧ 0 ≤ t.label.start) ∨ isEolB (src.getD (src.length - 1) 0) = true)
    (hn : NodeOK src t) (h : NodeX src t) : NodeX src' t := by
  rcases hE with rfl | hE
  · exact h
  obtain ⟨h1, h2, h3, h4⟩ := hn
  obtain ⟨x1, x2⟩ := h
  refine ⟨fun hi => ?_, fun hi => ?_⟩
  · by_cases hlt : t.label.start.toNat < src.length
    · rw [getD_prefix hp hlt]; exact x1 hi
    · have := x1 hi
      rw [getD_oob hlt] at this
      exact absurd this (by decide)
  · rcases x2 hi with x | x
    · right
      rcases hE with ⟨hE, h0⟩ | hE
      · subst hE
        simp only [List.length_nil] at h2
        omega
      · have hpos : 0 < src.length := by
          rcases Nat.eq_zero_or_pos src.length with h0 | h0
          · rw [List.eq_nil_of_length_eq_zero h0] at hE
            exact absurd hE (by decide)
          · exact h0
        have e : t.label.stop.toNat - 1 = src.length - 1 := by omega
        rw [e, getD_prefix hp (by omega)]
        exact hE
    · right
      by_cases hlt : t.label.stop.toNat - 1 < src.length
      · rw [getD_prefix hp hlt]; exact x
      · rw [getD_oob hlt] at x
        exact absurd x (by decide)

theorem NodeOK2_mono {src src' : Bytes} (hp : src <+: src')
    (hE : src' = src ∨ (src = [] ∧ 0 ≤ t.label.start) ∨ isEolB (src.getD (src.length - 1) 0) = true)
    (h : NodeOK2 src t) : NodeOK2 src' t :=
  ⟨NodeOK_mono hp h.1, NodeX_mono hp hE h.1 h.2⟩

theorem ParaGood2_mono {src src' : Bytes} {bd bd' : Int} (hp : src <+: src') (hb : bd ≤ bd') {is : List Tree}
    (hE : src' = src ∨ (src = [] ∧ ∀ t ∈ is, 0 ≤ t.label.start) ∨ isEolB (src.getD (src.length - 1) 0) = true)
    (h : ParaGood2 src bd is) : ParaGood2 src' bd' is := by
  rcases h with h | h
  · refine Or.inl (fun t ht => ⟨NodeOK2_mono hp ?_ (h t ht).1, by have := (h t ht).2; omega⟩)
    rcases hE with hE | ⟨hE, h0⟩ | hE
    · exact Or.inl hE
    · exact Or.inr (Or.inl ⟨hE, h0 t ht⟩)
    · exact Or.inr (Or.inr hE)
  · exact Or.inr (NoBracket_mono hp h)

theorem BlockOK2_mono {src src' : Bytes} {bd bd' : Int} (hp : src <+: src') (hb : bd ≤ bd') {b : PB}
    (hE : src' = src ∨ (src = [] ∧ ∀ t ∈ b.inlines, 0 ≤ t.label.start) ∨ isEolB (src.getD (src.length - 1) 0) = true)
    (h : BlockOK2 src bd b) : BlockOK2 src' bd' b :=
  ⟨fun hk => ParaGood2_mono hp hb hE (h.1 hk), h.2⟩

/-- **`GoodT2` under a longer source** (the old source is not empty and ends with a line ending, or nothing changes).
    The variant with `src = []` as a third alternative is false (`GoodT2_mono_target_false` in RefDefCoverTOffset):
    `NodeOK` does not say `0 ≤ start`; `GoodT2_mono_spans` (RefDefCoverTOffset) has it, for a tree with valid spans. -/
theorem GoodT2_mono {src src' : Bytes} {bd bd' : Int} (hp : src <+: src') (hb : bd ≤ bd')
    (hE : src' = src ∨ isEolB (src.getD (src.length - 1) 0) = true) :
    ∀ b : PB, GoodT2 src bd b → GoodT2 src' bd' b := by
  apply PB.ind
  intro l bs is ih h
  rw [GoodT2_mk] at h ⊢
  refine ⟨BlockOK2_mono hp hb ?_ h.1, fun b hb' => ih b hb' (h.2 b hb')⟩
  rcases hE with hE | hE
  · exact Or.inl hE
  · exact Or.inr (Or.inr hE)

/-- The same source, a larger bound. -/
theorem GoodT2_mono_bd {src : Bytes} {bd bd' : Int} (hb : bd ≤ bd') : ∀ b : PB, GoodT2 src bd b → GoodT2 src bd' b :=
  GoodT2_mono (List.prefix_refl _) hb (Or.inl rfl)

/-! ### `BlockOK` looks at the kind, the end and the inline children only -/

theorem BlockOK2_congr {src : Bytes} {bd : Int} {b b' : PB} (hk : b'.kind = b.kind) (hs : b'.label.stop = b.label.stop)
    (hi : b'.inlines = b.inlines) (h : BlockOK2 src bd b) : BlockOK2 src bd b' := by
  unfold BlockOK2 at *
  rw [hk, hs, hi]
  exact h

theorem BlockOK2_of_kind {src : Bytes} {bd : Int} {b : PB} (h1 : b.kind ≠ BK.paragraph) (h2 : b.kind ≠ BK.setextHeading) : BlockOK2 src bd b :=
  ⟨fun h => absurd h h1, fun _ => h2⟩

theorem GoodT2_setLabel {src : Bytes} {bd : Int} {f : PLabel → PLabel} (hk : ∀ l, (f l).kind = l.kind) (hs : ∀ l, (f l).stop = l.stop)
    {b : PB} (h : GoodT2 src bd b) : GoodT2 src bd (b.setLabel f) := by
  obtain ⟨l, bs, is⟩ := b
  simp only [PB.setLabel]
  rw [GoodT2_mk] at h ⊢
  refine ⟨BlockOK2_congr (b := .mk l bs is) ?_ ?_ rfl h.1, h.2⟩
  · simp only [PB.kind, PB.label]; exact hk l
  · simp only [PB.label]; exact hs l

theorem GoodT2.block {src : Bytes} {bd : Int} {b : PB} (h : GoodT2 src bd b) : BlockOK2 src bd b := by
  obtain ⟨l, bs, is⟩ := b
  exact ((GoodT2_mk src bd l bs is).1 h).1

theorem GoodT2.kids {src : Bytes} {bd : Int} {b : PB} (h : GoodT2 src bd b) : ∀ c ∈ b.blocks, GoodT2 src bd c := by
  obtain ⟨l, bs, is⟩ := b
  exact ((GoodT2_mk src bd l bs is).1 h).2

/-! ### `ParaGood` -/

theorem ParaGood2_snoc {src : Bytes} {bd : Int} {is : List Tree} {t : Tree} (h : ParaGood2 src bd is)
    (ht : NodeOK2 src t ∧ t.label.stop ≤ bd) : ParaGood2 src bd (is ++ [t]) := by
  rcases h with h | ⟨first, rest, e, h1⟩
  · left
    intro t' ht'
    rcases List.mem_append.mp ht' with h' | h'
    · exact h t' h'
    · simp only [List.mem_singleton] at h'; subst h'; exact ht
  · right
    exact ⟨first, rest ++ [t], by rw [e]; rfl, h1⟩

theorem ParaGood2_nil (src : Bytes) (bd : Int) : ParaGood2 src bd [] := Or.inl (fun _ h => by cases h)

/-! ### spine operations -/

theorem GoodT2_spineGet {src : Bytes} {bd : Int} : ∀ (d : Nat) (b c : PB), GoodT2 src bd b → spineGet b d = some c → GoodT2 src bd c := by
  intro d
  induction d with
  | zero => intro b c h e; rw [spineGet_zero] at e; cases e; exact h
  | succ d ih =>
    intro b c h e
    obtain ⟨l, bs, is⟩ := b
    rw [spineGet_succ] at e
    cases hgl : bs.getLast? with
    | none => rw [hgl] at e; cases e
    | some c' =>
      rw [hgl] at e
      exact ih c' c (h.kids c' (List.mem_of_getLast? hgl)) e

theorem GoodT2_spineModify {src : Bytes} {bd : Int} (f : PB → PB) : ∀ (d : Nat) (b : PB), GoodT2 src bd b →
    (∀ c, spineGet b d = some c → GoodT2 src bd c → GoodT2 src bd (f c)) → GoodT2 src bd (spineModify f b d) := by
  intro d
  induction d with
  | zero => intro b h hf; rw [spineModify_zero]; exact hf b (spineGet_zero b) h
  | succ d ih =>
    intro b h hf
    obtain ⟨l, bs, is⟩ := b
    rw [spineModify_succ]
    rw [spineGet_succ] at hf
    cases hgl : bs.getLast? with
    | none => exact h
    | some c =>
      rw [hgl] at hf
      simp only [] at hf ⊢
      rw [GoodT2_mk] at h ⊢
      refine ⟨BlockOK2_congr (b := .mk l bs is) rfl rfl rfl h.1, ?_⟩
      intro b hb
      rcases List.mem_append.mp hb with h' | h'
      · exact h.2 b ((List.dropLast_sublist bs).subset h')
      · simp only [List.mem_singleton] at h'
        subst h'
        exact ih c (h.2 c (List.mem_of_getLast? hgl)) hf

theorem GoodT2_spineReplaceLast {src : Bytes} {bd : Int} (g : PB → List PB) (root : PB) (d : Nat) (h : GoodT2 src bd root)
    (hg : ∀ c, spineGet root (d + 1) = some c → GoodT2 src bd c → ∀ c' ∈ g c, GoodT2 src bd c') :
    GoodT2 src bd (spineReplaceLast g root d) := by
  rw [spineReplaceLast_eq]
  apply GoodT2_spineModify _ d root h
  intro b hb hbg
  obtain ⟨l, bs, is⟩ := b
  simp only [replaceLastFn]
  cases hgl : bs.getLast? with
  | none => exact hbg
  | some c =>
    simp only []
    have hc : spineGet root (d + 1) = some c := by
      rw [spineGet_succ_eq, hb]; simpa [PB.blocks] using hgl
    rw [GoodT2_mk] at hbg ⊢
    refine ⟨BlockOK2_congr (b := .mk l bs is) rfl rfl rfl hbg.1, ?_⟩
    intro b' hb'
    rcases List.mem_append.mp hb' with h' | h'
    · exact hbg.2 b' ((List.dropLast_sublist bs).subset h')
    · exact hg c hc (hbg.2 c (List.mem_of_getLast? hgl)) b' h'

theorem GoodT2_setBlankFlags {src : Bytes} {bd : Int} (v : Bool) : ∀ (d : Nat) (b : PB), GoodT2 src bd b → GoodT2 src bd (setBlankFlags v b d) := by
  intro d
  induction d with
  | zero =>
    intro b h
    obtain ⟨l, bs, is⟩ := b
    simp only [setBlankFlags]
    rw [GoodT2_mk] at h ⊢
    exact ⟨BlockOK2_congr (b := .mk l bs is) rfl rfl rfl h.1, h.2⟩
  | succ d ih =>
    intro b h
    obtain ⟨l, bs, is⟩ := b
    simp only [setBlankFlags]
    rw [GoodT2_mk] at h
    cases hgl : bs.getLast? with
    | none =>
      simp only []
      rw [GoodT2_mk]
      exact ⟨BlockOK2_congr (b := .mk l bs is) rfl rfl rfl h.1, h.2⟩
    | some c =>
      simp only []
      rw [GoodT2_mk]
      refine ⟨BlockOK2_congr (b := .mk l bs is) rfl rfl rfl h.1, ?_⟩
      intro b hb
      rcases List.mem_append.mp hb with h' | h'
      · exact h.2 b ((List.dropLast_sublist bs).subset h')
      · simp only [List.mem_singleton] at h'
        subst h'
        exact ih c (h.2 c (List.mem_of_getLast? hgl))

/-! ### `refDefLoop` / `onCloseParagraph` -/

/-- A list of good blocks. -/
def GoodAll2 (src : Bytes) (bd : Int) (L : List PB) : Prop := ∀ b ∈ L, GoodT2 src bd b

theorem GoodAll2.append {src : Bytes} {bd : Int} {a b : List PB} (h1 : GoodAll2 src bd a) (h2 : GoodAll2 src bd b) : GoodAll2 src bd (a ++ b) := by
  intro c hc
  rcases List.mem_append.mp hc with h | h
  · exact h1 c h
  · exact h2 c h

theorem GoodAll2.single {src : Bytes} {bd : Int} {b : PB} (h : GoodT2 src bd b) : GoodAll2 src bd [b] := by
  intro c hc; simp only [List.mem_singleton] at hc; subst hc; exact h

theorem GoodAll2.nil (src : Bytes) (bd : Int) : GoodAll2 src bd [] := fun _ h => by cases h

theorem good_refdef2 (src : Bytes) (bd : Int) (s e : Int) (kids : List Tree) : GoodAll2 src bd [mkPB BK.linkRefDef s e kids] := by
  apply GoodAll2.single
  rw [mkPB, GoodT2_mk]
  exact ⟨BlockOK2_of_kind (show BK.linkRefDef ≠ BK.paragraph by decide) (show BK.linkRefDef ≠ BK.setextHeading by decide),
    fun _ h => by cases h⟩

-- reused from RDS: PKind

theorem good_rest2 {src : Bytes} {bd : Int} {l : PLabel} {is : List Tree} (hk : PKind l) (hN : ∀ t ∈ is, NodeOK2 src t ∧ t.label.stop ≤ bd) (s : Int) (fc : Nat) :
    GoodAll2 src bd [PB.mk { l with start := s } [] (is.drop fc)] := by
  apply GoodAll2.single
  rw [GoodT2_mk]
  refine ⟨⟨fun _ => Or.inl (fun t ht => hN t (List.mem_of_mem_drop ht)), fun ho => ?_⟩, fun _ h => by cases h⟩
  rcases hk with hk | ⟨_, hk⟩
  · simp only [PB.kind, PB.label]; rw [hk]; decide
  · simp only [PB.label] at ho; omega

theorem good_whole2 {src : Bytes} {bd : Int} {l : PLabel} {is : List Tree} (hk : PKind l) (hN : ParaGood2 src bd is) :
    GoodAll2 src bd [PB.mk l [] is] := by
  apply GoodAll2.single
  rw [GoodT2_mk]
  refine ⟨⟨fun _ => hN, fun ho => ?_⟩, fun _ h => by cases h⟩
  rcases hk with hk | ⟨_, hk⟩
  · simp only [PB.kind, PB.label]; rw [hk]; decide
  · simp only [PB.label] at ho; omega

theorem refDefLoop_good2 (x : PExt) (src : Bytes) (bd : Int) (orphan : Option PB)
    (fuel : Nat) (r : Rd) (l : PLabel) (is : List Tree) (result : List PB) :
    (∀ o, orphan = some o → GoodAll2 src bd [o]) → PKind l → (∀ t ∈ is, NodeOK2 src t ∧ t.label.stop ≤ bd) → GoodAll2 src bd result →
    GoodAll2 src bd (refDefLoop x src orphan fuel r l is result) := by
  cases orphan <;> fun_induction refDefLoop x src _ fuel r l is result
  all_goals intro ho hk hN hres
  all_goals first
    | exact hres.append (good_whole2 hk (Or.inl hN))
    | exact hres.append (good_refdef2 _ _ _ _ _)
    | exact (hres.append (good_refdef2 _ _ _ _ _)).append (ho _ rfl)
    | exact (hres.append (good_refdef2 _ _ _ _ _)).append (good_rest2 hk hN _ _)
    | (rename_i ih; exact ih ho (by exact hk) (fun t ht => hN t (List.mem_of_mem_drop ht)) (hres.append (good_refdef2 _ _ _ _ _)))

end CM.Proofs.RDC
