import CM.Proofs.EolRd22
import CM.Proofs.RefDefSpansClose
/-
C14 (a), the paragraph hook under the position map — part 23: the orphan paragraph, and **`onCloseParagraph` commutes with
the position map** for a paragraph that is `ParaFine`: its first byte is not `[`, or it is made of lines (`RDS.Ctx`), no
Indent node sits on a line feed, and no link label of a definition candidate straddles the byte limit (`labelsAgree`).
-/
namespace CM.Proofs.ERd
open CM CM.Model CM.Gen CM.Proofs CM.Proofs.RDS CM.Proofs.BSp

theorem lsp_le (Y : Bytes) : lsp Y ≤ Y.length := by
  rw [lsp_eq]
  cases (stripR isSpaceTabOrLineEnding Y).getLast? with
  | none => exact Nat.zero_le _
  | some u =>
    exact Nat.le_trans (stripR_len_le _ _) (stripR_len_le _ _)

theorem orphanOf_eq (src : Bytes) (l : PLabel) (is : List Tree) :
    orphanOf src l is = mkPB BK.paragraph ((is.getLast?.map (fun t : Tree => t.label.stop)).getD 0) (-1)
      [mkInline IK.unparsed
        ((((is.getLast?.map (fun t : Tree => t.label.stop)).getD 0).toNat +
          lsp ((src.take l.stop.toNat).drop ((is.getLast?.map (fun t : Tree => t.label.stop)).getD 0).toNat) : Nat) : Int) l.stop] := by
  unfold orphanOf lsp
  simp only []
  cases ((src.take l.stop.toNat).drop ((is.getLast?.map (fun t : Tree => t.label.stop)).getD 0).toNat).reverse.dropWhile isSpaceTabOrLineEnding with
  | nil => rfl
  | cons u t => rfl

section
variable {e X : Bytes} {k : Nat}

theorem lastStop_map (e X : Bytes) (is : List Tree) :
    ((mapTrees (eolPosZ e X) is).getLast?.map (fun t : Tree => t.label.stop)).getD 0 = eolPosZ e X ((is.getLast?.map (fun t : Tree => t.label.stop)).getD 0) := by
  rw [mapTrees_getLast?]
  cases is.getLast? with
  | none =>
    show (0 : Int) = eolPosZ e X 0
    rw [show (0 : Int) = ((0 : Nat) : Int) from rfl, eolPosZ_ofNat, eolPos_zero]
  | some t =>
    show (mapTree (eolPosZ e X) t).label.stop = _
    rw [map_stop]; rfl

/-- The length of a re-written slice `[a, a + m)` of the source. -/
theorem slice_len (he : StdEol e) (a m : Nat) (h : a + m ≤ (X.take k).length) :
    (toEol e (((X.take k).drop a).take m)).length + eolPos e X a = eolPos e X (a + m) := by
  have hne := stdEol_ne_nil he
  have hk : a + m ≤ k := by have := List.length_take_le k X; omega
  have hm : m ≤ ((X.take k).drop a).length := by simp only [List.length_drop]; omega
  have hlen : (((X.take k).drop a).take m).length = m := by simp only [List.length_take]; omega
  have h1 := eolPos_length e hne (((X.take k).drop a).take m)
  rw [hlen, eolPos_take e ((X.take k).drop a) (Nat.le_refl m)] at h1
  have h2 := eolPos_add e (X.take k) a m
  rw [eolPos_take e X hk, eolPos_take e X (show a ≤ k by omega)] at h2
  omega

/-- The body the scan back looks at, on the re-written side. -/
theorem body_map (he : StdEol e) (a b : Nat) :
    ((toEol e (X.take k)).take (eolPos e X b)).drop (eolPos e X a) = toEol e (((X.take k).take b).drop a) := by
  rw [List.drop_take, List.drop_take]
  by_cases hab : a ≤ b
  · exact slice_prefix_map he X k a b hab
  · have h1 : b - a = 0 := by omega
    have h2 : eolPos e X b - eolPos e X a = 0 := by
      have := eolPos_mono e X (show b ≤ a by omega); omega
    rw [h1, h2]; rfl

/-- **The orphan paragraph on the re-written side.** -/
theorem orphanOf_map (he : StdEol e) (l : PLabel) (is : List Tree) :
    orphanOf (toEol e (X.take k)) (mapL (eolPosZ e X) l) (mapTrees (eolPosZ e X) is) =
      mapPB (eolPosZ e X) (orphanOf (X.take k) l is) := by
  rw [orphanOf_eq, orphanOf_eq, lastStop_map, mapPB_mkPB]
  generalize (is.getLast?.map (fun t : Tree => t.label.stop)).getD 0 = bs
  have hstop : (mapL (eolPosZ e X) l).stop = eolPosZ e X l.stop := rfl
  rw [hstop, eolPosZ_toNat', eolPosZ_toNat', body_map he, lsp_toEol he]
  have hm1 : eolPosZ e X (-1) = -1 := eolPosZ_neg e X (by omega)
  rw [hm1]
  show mkPB BK.paragraph (eolPosZ e X bs) (-1) [mkInline IK.unparsed _ (eolPosZ e X l.stop)] =
    mkPB BK.paragraph (eolPosZ e X bs) (-1) [mapTree (eolPosZ e X) (mkInline IK.unparsed _ l.stop)]
  rw [mapTree_mkInline, eolPosZ_ofNat]
  congr 4
  generalize hY : ((X.take k).take l.stop.toNat).drop bs.toNat = Y
  have hle := lsp_le Y
  have hYlen : Y.length ≤ (X.take k).length - bs.toNat := by
    rw [← hY]; simp only [List.length_drop, List.length_take]; omega
  by_cases h0 : lsp Y = 0
  · rw [h0]; simp [toEol]
  · have hY' : Y = ((X.take k).drop bs.toNat).take (l.stop.toNat - bs.toNat) := by rw [← hY, List.drop_take]
    have hYl : Y.length ≤ l.stop.toNat - bs.toNat := by rw [hY']; simp only [List.length_take]; omega
    have hY2 : Y.take (lsp Y) = ((X.take k).drop bs.toNat).take (lsp Y) := by
      rw [hY', List.take_take, Nat.min_eq_left (by rw [hY'] at hle hYl; omega)]
    rw [hY2]
    have := slice_len (e := e) (X := X) (k := k) he bs.toNat (lsp Y) (by omega)
    omega

/-! ### `onCloseParagraph` -/

theorem noBracket_map (he : StdEol e) {is : List Tree} (h : RDS.NoBracket (X.take k) is) :
    RDS.NoBracket (toEol e (X.take k)) (mapTrees (eolPosZ e X) is) := by
  obtain ⟨f, r, e1, h1, h2, h3, h4, h5⟩ := h
  have hs : f.label.start = (f.label.start.toNat : Int) := (Int.toNat_of_nonneg h2).symm
  have hp : f.label.start.toNat < (X.take k).length := by omega
  refine ⟨mapTree (eolPosZ e X) f, mapTrees (eolPosZ e X) r, by rw [e1]; rfl, by rw [isIndent_map]; exact h1, ?_, ?_, ?_, ?_⟩
  · rw [map_start]; exact (eolPosZ_nonneg_iff e X _).2 h2
  · rw [map_start, map_stop]; exact (eolPosZ_lt_iff e X _ _).2 h3
  · rw [map_start, hs, eolPosZ_ofNat]
    have := (pos_lt_iff (e := e) (X := X) (k := k) he f.label.start.toNat).2 hp
    omega
  · rw [map_start, eolPosZ_toNat']
    by_cases hb : (X.take k).getD f.label.start.toNat 0 = LF
    · have := byte_lf (e := e) he hp hb (i := 0) (by rcases stdEol_len he with h | h <;> omega)
      rw [Nat.add_zero] at this
      rw [this]
      rcases he with h | h | h <;> subst h <;> decide
    · rw [byte_ne he hp hb]; exact h5

/-- A paragraph whose closing commutes with the position map: its first byte is not `[`; or it is made of lines, no Indent
    node sits on a line feed, and no link label of a definition candidate straddles the byte limit (`labelsAgree`). -/
def ParaFine (e X : Bytes) (k : Nat) (is : List Tree) : Prop :=
  RDS.NoBracket (X.take k) is ∨
  (Ctx (X.take k) is ∧ TabsOK (X.take k) is ∧
    ∀ first rest, is = first :: rest →
      labelsAgree (e.length - 1) (X.take k) (is.length + 2) (newReader is first.label.start.toNat) is = true)

theorem mapTrees_length (g : Int → Int) (ts : List Tree) : (mapTrees g ts).length = ts.length := by
  rw [mapTrees_eq_map, List.length_map]

/-- **The paragraph hook commutes with the position map** on a `ParaFine` paragraph (any label, any end position). -/
theorem onCloseParagraph_sim (x : PExt) (he : StdEol e) (hcr : NoCR X) (l : PLabel) (bs : List PB) (is : List Tree)
    (h : ParaFine e X k is) :
    onCloseParagraph x (toEol e (X.take k)) (mapPB (eolPosZ e X) (.mk l bs is)) =
      mapPBs (eolPosZ e X) (onCloseParagraph x (X.take k) (.mk l bs is)) := by
  rw [mapPB_mk]
  cases is with
  | nil =>
    show [PB.mk (mapL (eolPosZ e X) l) (mapPBs (eolPosZ e X) bs) []] = mapPBs (eolPosZ e X) [PB.mk l bs []]
    rw [mapPBs_singleton, mapPB_mk]; rfl
  | cons first rest =>
    show onCloseParagraph x _ (.mk _ _ (mapTree (eolPosZ e X) first :: mapTrees (eolPosZ e X) rest)) = _
    rw [onCloseParagraph_cons, onCloseParagraph_cons]
    have hkind : (mapL (eolPosZ e X) l).kind = l.kind := rfl
    have hlen : (mapTree (eolPosZ e X) first :: mapTrees (eolPosZ e X) rest).length = (first :: rest).length := by
      simp only [List.length_cons, mapTrees_length]
    have hrd : newReader (mapTree (eolPosZ e X) first :: mapTrees (eolPosZ e X) rest) (mapTree (eolPosZ e X) first).label.start.toNat =
        mapRd e X (newReader (first :: rest) first.label.start.toNat) := by
      rw [mapRd_new, map_start, eolPosZ_toNat']; rfl
    have horph : (if ((mapL (eolPosZ e X) l).kind == BK.setextHeading) = true then
          some (orphanOf (toEol e (X.take k)) (mapL (eolPosZ e X) l) (mapTree (eolPosZ e X) first :: mapTrees (eolPosZ e X) rest))
          else none) =
        (if (l.kind == BK.setextHeading) = true then some (orphanOf (X.take k) l (first :: rest)) else none).map
          (mapPB (eolPosZ e X)) := by
      rw [hkind]
      split
      · have := orphanOf_map (e := e) (X := X) (k := k) he l (first :: rest)
        rw [Option.map_some, ← this]; rfl
      · rfl
    rw [hlen, hrd, horph]
    rcases h with hnb | ⟨hc, htab, hag⟩
    · have c1 := current_of_noBracket hnb first rest rfl
      have hnb' := noBracket_map (e := e) he hnb
      have c2 := current_of_noBracket hnb' (mapTree (eolPosZ e X) first) (mapTrees (eolPosZ e X) rest) rfl
      rw [← hrd] at *
      simp only [List.length_cons]
      rw [refDefLoop_no_bracket x _ _ _ _ _ _ c1]
      have c2' : ((newReader (mapTree (eolPosZ e X) first :: mapTrees (eolPosZ e X) rest)
          (mapTree (eolPosZ e X) first).label.start.toNat).current (toEol e (X.take k))).1 ≠ 0x5B := c2
      rw [refDefLoop_no_bracket x _ _ _ _ _ _ c2', mapPBs_singleton, mapPB_mk]
      rfl
    · have hfm : first ∈ first :: rest := List.mem_cons_self
      have hnn := hc.nn first hfm
      have hok := (hc.ok first hfm).1
      have hj : RJ (X.take k) (first :: rest) (newReader (first :: rest) first.label.start.toNat) := by
        refine ⟨⟨⟨0, rfl⟩, ?_, ?_, ?_⟩, ?_, ?_⟩
        · intro t' rest' e1
          have e2 : first :: rest = t' :: rest' := e1
          cases e2
          show first.label.start ≤ ((first.label.start.toNat : Nat) : Int) ∧ ((first.label.start.toNat : Nat) : Int) < _
          omega
        · intro _ _ _ _; show 0 < 3; omega
        · intro e1
          have e2 : first :: rest = [] := e1
          cases e2
        · intro _ _ _ _ _; rfl
        · show (-1 : Int) ≤ -1; omega
      exact refDefLoop_sim x he hcr _ _ _ l (first :: rest) [] hc htab hj (hag first rest rfl)

end

end CM.Proofs.ERd
