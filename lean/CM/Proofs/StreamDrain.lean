import CM.Proofs.StreamMem
/-
`NextBlock` and `drain` on the streaming parser vs. the in-memory parser (under `LPWell`), and the fuel of `drain`.
-/
namespace CM.Proofs
open CM CM.Model CM.Gen

theorem bpFuel_mem_ge (p : BP) : linesLeft p.buf p.i + 2 ≤ bpFuel p := by
  have := linesLeft_le p.buf p.i
  have := eolCount_le_length p.buf
  unfold bpFuel; omega

theorem bpFuel_stream_ge {fin : RErr} {ps pm : BP} (hs : Sim fin ps pm) : linesLeft pm.buf pm.i + 2 ≤ bpFuel ps := by
  have h1 := linesLeft_le pm.buf pm.i
  have h2 := eolCount_le_length ps.buf
  have h3 := eolCount_le_length ps.rd.data
  have h4 : eolCount pm.buf = eolCount ps.buf + eolCount ps.rd.data := by
    rw [hs.buf, eolCount_append, eolCount_padNulls]
  unfold bpFuel; omega

section
variable {L : LineParserI} (W : LPWell L)
include W

/-- One `NextBlock` call on the streaming parser and on the in-memory parser of the same run. -/
theorem nextBlock_sim (fin : RErr) (ps pm : BP) (hs : Sim fin ps pm) (hp : pm.panic = none) (hb : BlocksOK pm) :
    ∃ os ps' om pm', nextBlock L ps = (os, ps') ∧ nextBlock L pm = (om, pm') ∧ ORel fin os om ∧
      Sim fin ps' pm' ∧ pm'.panic = none ∧ (∀ r, om = .block r → BlocksOK pm') := by
  have herr : pm.err.isSome = true := by rw [hs.merr]; rfl
  have g1 := bpFuel_mem_ge pm
  have g2 := bpFuel_stream_ge hs
  obtain ⟨os, ps', om, pm', h1, h2, h3⟩ := nextBlockF_sim L fin (bpFuel ps) (bpFuel ps) ps pm hs hp
  obtain ⟨e1, e2⟩ := nextBlockF_mem W pm herr hs.mile hb (bpFuel ps) (bpFuel ps) (bpFuel pm) (bpFuel pm)
    (by omega) (by omega) (by omega) (by omega)
  rw [h2] at e1 e2
  have hp' : pm'.panic = none := by rw [← hp]; exact e2.panic
  obtain ⟨h4, h5⟩ := h3 hp'
  refine ⟨os, ps', om, pm', ?_, ?_, h4, h5, hp', fun r hr => (e2.good r hr).2⟩
  · rw [nextBlock_eq_F]; exact h1
  · rw [nextBlock_eq_F]; exact e1.symm

/-- Final outcomes of `drain` on the streaming / in-memory parser correspond: the same panic, or the reader's
    final error on the streaming side and end of input on the in-memory side. -/
inductive FRel (fin : RErr) : NBOut → NBOut → Prop
  | err : FRel fin (.err (PErr.ofR fin)) (.err .eof)
  | panic (m : String) : FRel fin (.panic m) (.panic m)

/-- `drain` with the same fuel on both parsers: same roots, corresponding outcomes. -/
theorem drain_sim (fin : RErr) : ∀ (f : Nat) (ps pm : BP) (acc : List Root), Sim fin ps pm → pm.panic = none →
    BlocksOK pm →
    ∃ rs os ps' om pm', drain L f ps acc = (rs, os, ps') ∧ drain L f pm acc = (rs, om, pm') ∧ FRel fin os om := by
  intro f
  induction f with
  | zero =>
    intro ps pm acc _ _ _
    exact ⟨_, _, _, _, _, rfl, rfl, FRel.panic _⟩
  | succ f ih =>
    intro ps pm acc hs hp hb
    obtain ⟨os, ps', om, pm', h1, h2, h3, h4, h5, h6⟩ := nextBlock_sim W fin ps pm hs hp hb
    cases h3 with
    | block r =>
      simp only [drain, h1, h2]
      exact ih ps' pm' (r :: acc) h4 h5 (h6 r rfl)
    | err =>
      simp only [drain, h1, h2]
      exact ⟨_, _, _, _, _, rfl, rfl, FRel.err⟩
    | panic m =>
      simp only [drain, h1, h2]
      exact ⟨_, _, _, _, _, rfl, rfl, FRel.panic m⟩
end

/-- `drain` ends (an error or a panic is reported) before its fuel runs out. -/
def drainEnds (L : LineParserI) : Nat → BP → Bool
  | 0, _ => false
  | f + 1, p =>
    match nextBlock L p with
    | (.block _, p') => drainEnds L f p'
    | _ => true

/-- More fuel changes nothing once `drain` ends within its fuel. -/
theorem drain_more_fuel (L : LineParserI) : ∀ (f : Nat) (p : BP) (acc : List Root), drainEnds L f p = true →
    ∀ f', f ≤ f' → drain L f' p acc = drain L f p acc := by
  intro f
  induction f with
  | zero => intro p acc h; simp [drainEnds] at h
  | succ f ih =>
    intro p acc h f' hf
    obtain ⟨g, rfl⟩ : ∃ g, f' = g + 1 := ⟨f' - 1, by omega⟩
    rcases hn : nextBlock L p with ⟨o, p'⟩
    cases o with
    | block r =>
      simp only [drainEnds, hn] at h
      simp only [drain, hn]
      exact ih p' (r :: acc) h g (by omega)
    | err e => simp only [drain, hn]
    | panic m => simp only [drain, hn]

theorem drainEnds_mono (L : LineParserI) : ∀ (f : Nat) (p : BP), drainEnds L f p = true →
    ∀ f', f ≤ f' → drainEnds L f' p = true := by
  intro f
  induction f with
  | zero => intro p h; simp [drainEnds] at h
  | succ f ih =>
    intro p h f' hf
    obtain ⟨g, rfl⟩ : ∃ g, f' = g + 1 := ⟨f' - 1, by omega⟩
    rcases hn : nextBlock L p with ⟨o, p'⟩
    cases o with
    | block r =>
      simp only [drainEnds, hn] at h ⊢
      exact ih p' h g (by omega)
    | err e => simp only [drainEnds, hn]
    | panic m => simp only [drainEnds, hn]

section
variable {L : LineParserI} (W : LPWell L)
include W

/-- The streaming `drain` ends within a given fuel iff the in-memory one does. -/
theorem drainEnds_sim (fin : RErr) : ∀ (f : Nat) (ps pm : BP), Sim fin ps pm → pm.panic = none → BlocksOK pm →
    drainEnds L f ps = drainEnds L f pm := by
  intro f
  induction f with
  | zero => intro ps pm _ _ _; rfl
  | succ f ih =>
    intro ps pm hs hp hb
    obtain ⟨os, ps', om, pm', h1, h2, h3, h4, h5, h6⟩ := nextBlock_sim W fin ps pm hs hp hb
    cases h3 with
    | block r =>
      simp only [drainEnds, h1, h2]
      exact ih ps' pm' h4 h5 (h6 r rfl)
    | err => simp only [drainEnds, h1, h2]
    | panic m => simp only [drainEnds, h1, h2]
end

end CM.Proofs
