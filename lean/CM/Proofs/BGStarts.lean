import CM.Proofs.BGRecog
/-
C05, block half — the eight block starts keep the grammar of the tree.
-/
namespace CM.Proofs.BG
open CM CM.Model CM.Gen
open CM.Proofs.BT

/-- The working invariant: the invariant of `BlocksOps` (no panic, cursor, tree position) and the grammar. -/
structure GI (p : LP) : Prop where
  inv : Inv p
  g : PBGrammar p.root

theorem GI.ofCI {p p' : LP} {n : Nat} (h : GI p) (c : CIPost p p' n) : GI p' :=
  ⟨c.inv h.inv, by rw [tree_root c.tree]; exact h.g⟩
theorem GI.ofAdv {p p' : LP} {n : Nat} (h : GI p) (a : AdvPost p p' n) : GI p' :=
  ⟨a.inv h.inv, by rw [tree_root a.tree]; exact h.g⟩
theorem GI.ofCL {p p' : LP} (h : GI p) (c : CLPost p p') : GI p' :=
  ⟨c.inv h.inv, by rw [tree_root c.tree]; exact h.g⟩

/-! ### cursor operations never touch the tree -/

theorem consumeIndent_root : ∀ (fuel : Nat) (p : LP) (n : Nat),
    (LP.consumeIndent fuel p n).root = p.root ∧ (LP.consumeIndent fuel p n).depth = p.depth := by
  intro fuel
  induction fuel with
  | zero => intro p n; exact ⟨rfl, rfl⟩
  | succ fuel ih =>
    intro p n
    unfold LP.consumeIndent
    split
    · exact ⟨rfl, rfl⟩
    · simp only []
      rw [markMatched_eq]
      split
      · have r := ih ({ ({ p with state := mm p.state } : LP) with col := p.col + 1, i := p.i + 1 } : LP).updateTabRemaining (n - 1)
        have u := updateTab_root ({ ({ p with state := mm p.state } : LP) with col := p.col + 1, i := p.i + 1 } : LP)
        exact ⟨by rw [r.1, u.1], by rw [r.2, u.2]⟩
      · split
        · split
          · exact ⟨rfl, rfl⟩
          · have r := ih ({ ({ p with state := mm p.state } : LP) with col := p.col + p.tabRem, i := p.i + 1 } : LP).updateTabRemaining (n - p.tabRem)
            have u := updateTab_root ({ ({ p with state := mm p.state } : LP) with col := p.col + p.tabRem, i := p.i + 1 } : LP)
            exact ⟨by rw [r.1, u.1], by rw [r.2, u.2]⟩
        · exact setPanic_root _ _

theorem consumeIndentN_root (p : LP) (n : Nat) : (p.consumeIndentN n).root = p.root := (consumeIndent_root _ p n).1

theorem consumeLine_root (p : LP) : p.consumeLine.root = p.root := by
  unfold LP.consumeLine
  simp only []
  split
  · exact (advance_root p _).1
  · split
    · exact (advance_root p _).1
    · exact (advance_root p _).1

/-! ### the new blocks satisfy the local rule -/

theorem localOK_atx (s n : Int) (h1 : 1 ≤ n) (h2 : n ≤ 6) :
    localOK { kind := BK.atxHeading, start := s, n := n } [] [] = true := by
  simp [localOK, blocksOK, inlinesOK, BK.atxHeading, BK.document, BK.blockQuote, BK.listItem, BK.list, BK.listMarker,
    BK.thematicBreak, BK.paragraph, h1, h2]

theorem localOK_fenced (s n : Int) (c : UInt8) (h1 : 3 ≤ n) (h2 : c = 0x60 ∨ c = 0x7E) :
    localOK { kind := BK.fencedCode, start := s, n := n, char := c } [] [] = true := by
  rcases h2 with h2 | h2 <;> subst h2 <;>
  simp [localOK, blocksOK, inlinesOK, BK.atxHeading, BK.document, BK.blockQuote, BK.listItem, BK.list, BK.listMarker,
    BK.thematicBreak, BK.paragraph, BK.setextHeading, BK.indentedCode, BK.fencedCode, fencedKids, h1]

theorem localOK_html (s n : Int) (h1 : 0 ≤ n) (h2 : n ≤ 6) :
    localOK { kind := BK.htmlBlock, start := s, n := n } [] [] = true := by
  simp [localOK, blocksOK, inlinesOK, BK.atxHeading, BK.document, BK.blockQuote, BK.listItem, BK.list, BK.listMarker,
    BK.thematicBreak, BK.paragraph, BK.setextHeading, BK.indentedCode, BK.fencedCode, BK.htmlBlock, h1, h2]

/-! ### block quote, thematic break, indented code -/

theorem startBlockQuote_G (x : PExt) (p : LP) (h : GI p) (hs : p.state = 0) : PBGrammar (startBlockQuote x p).root := by
  unfold startBlockQuote
  simp only []
  split
  · exact h.g
  split
  · exact h.g
  obtain ⟨ci, _, _⟩ := consumeAll p h.inv
  generalize p.consumeIndentN p.indent = p1 at ci ⊢
  have g1 := h.ofCI ci
  have s1 := ci.st (by omega)
  have obG := openBlock_G x p1 BK.blockQuote id g1.inv.tree g1.g s1.2 (by decide) id_kind (fun _ => rfl)
  split
  · rw [consumeIndentN_root, (advance_root _ _).1]; exact obG.1
  · rw [(advance_root _ _).1]; exact obG.1

theorem startThematicBreak_G (x : PExt) (p : LP) (h : GI p) (hs : p.state = 0) : PBGrammar (startThematicBreak x p).root := by
  unfold startThematicBreak
  simp only []
  split
  · exact h.g
  split
  · exact h.g
  obtain ⟨ci, _, _⟩ := consumeAll p h.inv
  generalize p.consumeIndentN p.indent = p1 at ci ⊢
  have g1 := h.ofCI ci
  have s1 := ci.st (by omega)
  have obG := openBlock_G x p1 BK.thematicBreak id g1.inv.tree g1.g s1.2 (by decide) id_kind (fun _ => rfl)
  apply endBlock_G
  rw [consumeLine_root, (advance_root _ _).1]
  exact obG.1

theorem startIndentedCode_G (x : PExt) (p : LP) (h : GI p) (hs : p.state = 0) : PBGrammar (startIndentedCode x p).root := by
  unfold startIndentedCode
  split
  · exact h.g
  rename_i hc
  simp only [Bool.or_eq_true, decide_eq_true_eq, not_or, Nat.not_lt] at hc
  have hind : codeBlockIndentLimit ≤ p.indent := hc.1.1
  simp only []
  have ci := consumeIndentN_post p codeBlockIndentLimit h.inv.cur hind
  generalize p.consumeIndentN codeBlockIndentLimit = p1 at ci
  have g1 := h.ofCI ci
  have s1 : p1.state = 1 := by rw [ci.state, hs]; rfl
  exact (openBlock_G x p1 BK.indentedCode id g1.inv.tree g1.g (by omega) (by decide) id_kind (fun _ => rfl)).1

/-! ### ATX heading -/

theorem startATX_G (x : PExt) (p : LP) (h : GI p) (hs : p.state = 0) : PBGrammar (startATX x p).root := by
  unfold startATX
  simp only []
  split
  · exact h.g
  split
  · exact h.g
  rename_i _ hlev
  have hb := parseATXHeading_bound p.bytesAfterIndent
  have h6 := parseATXHeading_level_le p.bytesAfterIndent
  generalize parseATXHeading p.bytesAfterIndent = hd at hb hlev h6 ⊢
  obtain ⟨hb1, hb2, hb3⟩ := hb
  have hb3 := hb3 (by omega)
  obtain ⟨ci, hdrop, hil⟩ := consumeAll p h.inv
  generalize p.consumeIndentN p.indent = p1 at ci hdrop hil ⊢
  have g1 := h.ofCI ci
  have i1 := g1.inv
  have s1 := ci.st (by omega)
  have ob := openBlock_inv x p1 BK.atxHeading (fun l => { l with n := hd.level }) (fun _ => rfl) i1 s1.2 (Or.inl (by decide))
  have obG := openBlock_G x p1 BK.atxHeading (fun l => { l with n := hd.level }) i1.tree g1.g s1.2 (by decide) (fun _ => rfl)
    (fun s => localOK_atx s _ (by omega) (by omega))
  generalize p1.openBlock x BK.atxHeading (fun l => { l with n := hd.level }) = p2 at ob obG
  have i2 := ob.inv i1
  have s2 := ob.st s1.2
  have e2i : p2.i = p1.i := cur_i ob.cur
  have e2l : p2.line = p1.line := cur_line ob.cur
  have ad := advance_post p2 hd.start i2.cur (by rw [e2i, e2l, ci.line]; omega)
  generalize p2.advance hd.start = p3 at ad
  have g3 : GI p3 := GI.ofAdv ⟨i2, obG.1⟩ ad
  have s3 := ad.st s2.2.1
  have hf : freeKinds p3.containerKind = some paraKinds := by rw [ad.ckind, ob.ckind]; rfl
  have coG := collectInline_G_free x p3 IK.unparsed (hd.stop - hd.start) paraKinds g3.inv.tree g3.g (by omega) hf
    (by rfl) (by rfl) (by decide)
  apply endBlock_G
  rw [consumeLine_root]
  exact coG

/-! ### fenced code -/

theorem startFenced_G (x : PExt) (p : LP) (h : GI p) (hs : p.state = 0) : PBGrammar (startFenced x p).root := by
  unfold startFenced
  simp only []
  split
  · exact h.g
  split
  · exact h.g
  rename_i _ hn0
  have hb := parseCodeFence_bound p.bytesAfterIndent
  have hr := parseCodeFence_range p.bytesAfterIndent (by simpa using hn0)
  generalize parseCodeFence p.bytesAfterIndent = fc at hb hr ⊢
  obtain ⟨ci, hdrop, hil⟩ := consumeAll p h.inv
  generalize p.consumeIndentN p.indent = p1 at ci hdrop hil ⊢
  have g1 := h.ofCI ci
  have i1 := g1.inv
  have s1 := ci.st (by omega)
  have ob := openBlock_inv x p1 BK.fencedCode (fun l => { l with char := fc.char, n := fc.n }) (fun _ => rfl) i1 s1.2
    (Or.inl (by decide))
  have obG := openBlock_G x p1 BK.fencedCode (fun l => { l with char := fc.char, n := fc.n }) i1.tree g1.g s1.2 (by decide)
    (fun _ => rfl) (fun s => localOK_fenced s _ _ (by omega) hr.2)
  generalize p1.openBlock x BK.fencedCode (fun l => { l with char := fc.char, n := fc.n }) = p2 at ob obG
  have i2 := ob.inv i1
  have s2 := ob.st s1.2
  have sc := setContainerIndent_post p2 (↑p.indent) i2.tree s2.2.2 s2.2.1 (Or.inr ob.ckind)
  have scG := setContainerIndent_G p2 (↑p.indent) i2.tree obG.1
  obtain ⟨f, hfk, scC⟩ := setContainerIndent_container p2 (↑p.indent) i2.tree
  generalize p2.setContainerIndent (↑p.indent) = p3 at sc scG scC
  have i3 := sc.inv i2
  have e3i : p3.i = p1.i := by rw [cur_i sc.cur, cur_i ob.cur]
  have e3l : p3.line = p1.line := by rw [cur_line sc.cur, cur_line ob.cur]
  have s3 : 1 ≤ p3.state ∧ p3.state ≤ 2 := by rw [sc.state]; omega
  obtain ⟨st, hcont⟩ := obG.2
  have hk3 : p3.container.kind = BK.fencedCode := by rw [scC, hcont]; exact hfk _
  have hn3 : p3.container.inlines = [] := by rw [scC, hcont]; rfl
  rw [consumeLine_root]
  split
  · rename_i hcond
    simp only [Bool.and_eq_true, decide_eq_true_eq] at hcond
    obtain ⟨⟨hc1, hc2⟩, hc3⟩ := hcond
    obtain ⟨hb1, hb2, hb3⟩ := hb hc1 hc2
    have ad := advance_post p3 fc.infoStart.toNat i3.cur (by rw [e3i, e3l, ci.line]; omega)
    have hcon4 := advance_container p3 fc.infoStart.toNat
    generalize p3.advance fc.infoStart.toNat = p4 at ad hcon4
    have g4 : GI p4 := GI.ofAdv ⟨i3, scG⟩ ad
    have s4 := ad.st s3.2
    have hdrop4 : p4.line.getD p4.i 0 = p.bytesAfterIndent.getD fc.infoStart.toNat 0 := by
      rw [ad.i, ad.line, e3i, e3l]; exact getD_of_drop p1 _ _ hdrop
    have hind4 : p4.indent = 0 := indent_zero_of_getD p4 (by rw [hdrop4]; exact hb2) (by rw [hdrop4]; exact hb3)
    exact collectInline_G_info x p4 _ g4.inv.tree g4.g (by omega) hind4 (by rw [hcon4]; exact hk3) (by rw [hcon4]; exact hn3)
  · exact scG

/-! ### HTML block -/

theorem htmlStartLoop_G (x : PExt) (line : Bytes) : ∀ (fuel i : Nat) (p : LP), GI p → p.state = 0 →
    PBGrammar (htmlStartLoop x line fuel i p).root := by
  intro fuel
  induction fuel with
  | zero => intro i p h hs; exact h.g
  | succ fuel ih =>
    intro i p h hs
    unfold htmlStartLoop
    split
    · exact h.g
    rename_i hi7
    split
    · split
      · exact h.g
      have ob := openBlock_inv x p BK.htmlBlock (fun l => { l with n := i }) (fun _ => rfl) h.inv (by omega) (Or.inl (by decide))
      have obG := openBlock_G x p BK.htmlBlock (fun l => { l with n := i }) h.inv.tree h.g (by omega) (by decide) (fun _ => rfl)
        (fun s => localOK_html s _ (by omega) (by omega))
      simp only []
      generalize p.openBlock x BK.htmlBlock (fun l => { l with n := i }) = p2 at ob obG
      have i2 := ob.inv h.inv
      have s2 : p2.state = 1 := by rw [ob.state, hs]; rfl
      split
      · have hf : freeKinds p2.containerKind = some htmlKinds := by rw [ob.ckind]; rfl
        have coG := collectInline_G_free x p2 IK.rawHTML p2.bytesAfterIndent.length htmlKinds i2.tree obG.1 (by omega) hf
          (by rfl) (by rfl) (by decide)
        apply endBlock_G
        rw [consumeLine_root]
        exact coG
      · exact obG.1
    · exact ih (i + 1) p h hs

theorem startHTML_G (x : PExt) (p : LP) (h : GI p) (hs : p.state = 0) : PBGrammar (startHTML x p).root := by
  unfold startHTML
  simp only []
  split
  · exact h.g
  split
  · exact h.g
  exact htmlStartLoop_G x _ 8 0 p h hs

/-! ### setext heading -/

theorem setext_relabel {c : PB} (n : Nat) (hk : c.kind = BK.paragraph) (h : PBGrammar c) (h1 : 1 ≤ n) (h2 : n ≤ 2) :
    PBGrammar (c.setLabel fun l => { l with kind := BK.setextHeading, n := n }) ∧
    CloseRes c [c.setLabel fun l => { l with kind := BK.setextHeading, n := n }] := by
  obtain ⟨l, bs, is⟩ := c
  have hk' : l.kind = BK.paragraph := hk
  refine ⟨?_, Or.inr ⟨Or.inl hk, ?_⟩⟩
  · show PBGrammar (.mk { l with kind := BK.setextHeading, n := n } bs is)
    rw [PBGrammar_mk] at h ⊢
    refine ⟨?_, h.2⟩
    have hloc := h.1
    unfold localOK at hloc ⊢
    simp only [Bool.and_eq_true] at hloc ⊢
    refine ⟨?_, inlinesOK_setext hk' hloc.2 n (by omega) (by omega)⟩
    have hb := hloc.1
    unfold blocksOK at hb ⊢
    rw [hk'] at hb
    simpa [BK.paragraph, BK.setextHeading, BK.document, BK.blockQuote, BK.listItem, BK.list] using hb
  · intro c' hc'
    simp only [List.mem_singleton] at hc'
    subst hc'
    exact Or.inr (Or.inl rfl)

theorem startSetext_G (x : PExt) (p : LP) (h : GI p) (hs : p.state = 0) : PBGrammar (startSetext x p).root := by
  unfold startSetext
  simp only []
  split
  · exact h.g
  rename_i hck
  split
  · exact h.g
  split
  · exact h.g
  rename_i _ hlev
  have hck' : p.containerKind = BK.paragraph := by simpa using hck
  have h2 := parseSetext_le p.bytesAfterIndent
  have h1 : 1 ≤ parseSetextHeadingUnderline p.bytesAfterIndent := by
    have : parseSetextHeadingUnderline p.bytesAfterIndent ≠ 0 := by simpa using hlev
    omega
  apply endBlock_G
  rw [consumeLine_root]
  apply modifyContainer_G p _ h.inv.tree h.g
  intro hc
  exact setext_relabel _ hck' hc h1 h2

/-! ### list items -/

theorem obPre_of_cc (x : PExt) (p : LP) (kind : Nat) (hcc : canContain p.containerKind kind = true) :
    obPre x p kind = ({ p with state := mm p.state } : LP).closeLastChild x p.lineStart := by
  unfold obPre
  have hcc' : canContain ({ p with state := mm p.state } : LP).containerKind kind = true := hcc
  rw [openBlockLoop_of_canContain x kind _ _ hcc']

theorem closeLastChild_container_label (x : PExt) (p : LP) (e : Int) (h : TreeOK p) :
    (p.closeLastChild x e).container.label = p.container.label := by
  have h1 := closeLastChild_label x p e p.depth (Nat.le_refl _)
  rw [labelAt_container p h.valid] at h1
  exact container_label (p.closeLastChild x e) _ h1

/-- The new list with its first item and the item's marker. -/
theorem PBG_newList (delim : UInt8) (hd : isDelimChar delim = true) (l1 l2 l3 : PLabel)
    (h1 : l1.kind = BK.list ∧ l1.char = delim) (h2 : l2.kind = BK.listItem ∧ l2.char = delim) (h3 : l3.kind = BK.listMarker) :
    PBGrammar (.mk l1 [.mk l2 [.mk l3 [] []] []] []) := by
  unfold PBGrammar
  simp [pbGrammar, pbGrammarL, localOK, blocksOK, inlinesOK, itemKids, PB.kind, PB.label, h1.1, h1.2, h2.1, h2.2, h3,
    BK.list, BK.listItem, BK.listMarker, BK.document, BK.blockQuote, BK.thematicBreak, hd]

/-- A new item with its marker. -/
theorem PBG_newItem (delim : UInt8) (hd : isDelimChar delim = true) (l2 l3 : PLabel)
    (h2 : l2.kind = BK.listItem ∧ l2.char = delim) (h3 : l3.kind = BK.listMarker) :
    PBGrammar (.mk l2 [.mk l3 [] []] []) := by
  unfold PBGrammar
  simp [pbGrammar, pbGrammarL, localOK, blocksOK, inlinesOK, itemKids, PB.kind, PB.label, h2.1, h2.2, h3,
    BK.list, BK.listItem, BK.listMarker, BK.document, BK.blockQuote, BK.thematicBreak, hd]

/-- After the marker has been opened, the rest of `startListItem` only closes the marker, moves the cursor and sets
    the item's indent. -/
theorem listItem_finish (x : PExt) (q2 : LP) (stop ind : Nat) (h : GI q2) (hs2 : 1 ≤ q2.state ∧ q2.state ≤ 2)
    (hb : q2.i + stop ≤ q2.line.length) :
    PBGrammar (
      let p := q2.advance stop
      let p := p.endBlock x
      if p.isRestBlank then
        let p := p.setContainerIndent (ind + stop + 1)
        p.consumeLine
      else
        let padding := p.indent
        if padding < 1 then p.setContainerIndent (ind + stop + 1)
        else if padding > 4 then (p.consumeIndentN 1).setContainerIndent (ind + stop + 1)
        else (p.consumeIndentN padding).setContainerIndent (ind + stop + padding)).root := by
  simp only []
  have ad := advance_post q2 stop h.inv.cur hb
  generalize q2.advance stop = q3 at ad
  have g3 := h.ofAdv ad
  have s3 := ad.st hs2.2
  have eb := endBlock_inv x q3 g3.inv s3.2
  have ebG := endBlock_G x q3 g3.g
  generalize q3.endBlock x = q4 at eb ebG
  have i4 := eb.inv g3.inv
  split
  · rw [consumeLine_root]; exact setContainerIndent_G q4 _ i4.tree ebG
  · split
    · exact setContainerIndent_G q4 _ i4.tree ebG
    · have tk : ∀ k, TreeOK (q4.consumeIndentN k) := fun k =>
        ⟨by rw [consumeIndentN_root]; exact i4.tree.root,
         by rw [consumeIndentN_root, show (q4.consumeIndentN k).depth = q4.depth from (consumeIndent_root _ q4 k).2]; exact i4.tree.valid⟩
      split
      · exact setContainerIndent_G _ _ (tk _) (by rw [consumeIndentN_root]; exact ebG)
      · exact setContainerIndent_G _ _ (tk _) (by rw [consumeIndentN_root]; exact ebG)

theorem listItemTail_eq (x : PExt) (delim : UInt8) (stop ind : Nat) (p : LP) :
    listItemTail x delim stop ind p =
      (let q2 := (p.openBlock x BK.listItem (fun l => { l with char := delim })).openBlock x BK.listMarker
       let p := q2.advance stop
       let p := p.endBlock x
       if p.isRestBlank then
         let p := p.setContainerIndent (ind + stop + 1)
         p.consumeLine
       else
         let padding := p.indent
         if padding < 1 then p.setContainerIndent (ind + stop + 1)
         else if padding > 4 then (p.consumeIndentN 1).setContainerIndent (ind + stop + 1)
         else (p.consumeIndentN padding).setContainerIndent (ind + stop + padding)) := rfl

/-- The item and its marker opened in an existing list with the same delimiter. -/
theorem listItemTail_G_old (x : PExt) (p : LP) (delim : UInt8) (stop ind : Nat) (h : GI p)
    (hd : isDelimChar delim = true)
    (hk : p.containerKind = BK.list) (hch : p.container.label.char = delim) (hs : p.state ≤ 2)
    (hb : p.i + stop ≤ p.line.length) : PBGrammar (listItemTail x delim stop ind p).root := by
  rw [listItemTail_eq]
  have cc1 : canContain p.containerKind BK.listItem = true := by rw [hk]; decide
  have ob1 := openBlock_inv x p BK.listItem (fun l => { l with char := delim }) (fun _ => rfl) h.inv hs (Or.inr cc1)
  have n1 := openBlock_nest x p BK.listItem (fun l => { l with char := delim }) h.inv.tree h.g hs (Or.inr cc1)
  have pp := obPre_post x p BK.listItem h.inv.tree h.g (Or.inr cc1)
  have hq : obPre x p BK.listItem = ({ p with state := mm p.state } : LP).closeLastChild x p.lineStart := obPre_of_cc x p _ cc1
  have hT1 : TreeOK ({ p with state := mm p.state } : LP) := ⟨h.inv.tree.root, h.inv.tree.valid⟩
  have hql : (obPre x p BK.listItem).container.label = p.container.label := by
    rw [hq, closeLastChild_container_label x _ _ hT1]; rfl
  generalize obPre x p BK.listItem = q at n1 pp hql
  generalize hI : (PB.mk ((fun l : PLabel => { l with char := delim }) { kind := BK.listItem, start := ↑q.lineStart + ↑q.i }) [] [] : PB) = I at n1
  generalize p.openBlock x BK.listItem (fun l => { l with char := delim }) = q1 at ob1 n1
  have i1 := ob1.inv h.inv
  have s1 := ob1.st hs
  have hIk : I.kind = BK.listItem := by rw [← hI]; rfl
  have n2 := openBlock_nested x q q1 I I 0 BK.listMarker id n1 (spineGet_zero I) (by rw [← hI]; rfl) (by rw [hIk]; decide) s1.2.1
  have ob2 := openBlock_inv x q1 BK.listMarker id id_kind i1 s1.2.1 (Or.inl (by decide))
  generalize q1.openBlock x BK.listMarker = q2 at ob2 n2
  have i2 := ob2.inv i1
  have s2 := ob2.st s1.2.1
  have g2 : PBGrammar q2.root := by
    apply n2.1.G pp.g
    intro hc
    rw [spineModify_zero]
    apply appendChild_G_item hc
    · rw [← hI]
      exact PBG_newItem delim hd _ _ ⟨rfl, rfl⟩ rfl
    · show q.container.label.kind = BK.list
      rw [hql]; exact hk
    · rw [← hI]; rfl
    · rw [← hI, hql]; exact hch.symm
  apply listItem_finish x q2 stop ind ⟨i2, g2⟩ ⟨s2.2.2, s2.2.1⟩
  rw [cur_i ob2.cur, cur_line ob2.cur, cur_i ob1.cur, cur_line ob1.cur]
  exact hb

theorem spineGet_appendChild_one (C c : PB) : spineGet (appendChild C c) 1 = some C := by
  have := spineGet_appendChild C c 0
  rwa [spineGet_zero] at this

theorem spineModify_appendChild_one (F : PB → PB) (C c : PB) : spineModify F (appendChild C c) 1 = appendChild (F C) c := by
  have := spineModify_appendChild F C c 0
  rwa [spineModify_zero] at this

/-- A new list, its first item and the item's marker. -/
theorem listItemTail_G_new (x : PExt) (q p : LP) (lab : PLabel) (delim : UInt8) (stop ind : Nat)
    (hlab : lab.kind = BK.list ∧ lab.char = delim) (hd : isDelimChar delim = true)
    (n0 : Nest q p (.mk lab [] []) 0) (hq : PBGrammar q.root) (hqcc : canContain q.containerKind BK.list = true)
    (hi : Inv p) (hk : p.containerKind = BK.list) (hs : p.state ≤ 2) (hb : p.i + stop ≤ p.line.length) :
    PBGrammar (listItemTail x delim stop ind p).root := by
  rw [listItemTail_eq]
  have cc1 : canContain p.containerKind BK.listItem = true := by rw [hk]; decide
  have ob1 := openBlock_inv x p BK.listItem (fun l => { l with char := delim }) (fun _ => rfl) hi hs (Or.inr cc1)
  have n1 := openBlock_nested x q p (.mk lab [] []) (.mk lab [] []) 0 BK.listItem (fun l => { l with char := delim }) n0
    (spineGet_zero _) rfl (by show canContain lab.kind _ = true; rw [hlab.1]; decide) hs
  rw [spineModify_zero] at n1
  generalize hI : (PB.mk ((fun l : PLabel => { l with char := delim }) { kind := BK.listItem, start := ↑p.lineStart + ↑p.i }) [] [] : PB) = I at n1
  generalize p.openBlock x BK.listItem (fun l => { l with char := delim }) = q1 at ob1 n1
  have i1 := ob1.inv hi
  have s1 := ob1.st hs
  have hIk : I.kind = BK.listItem := by rw [← hI]; rfl
  have n2 := openBlock_nested x q q1 (appendChild I (.mk lab [] [])) I 1 BK.listMarker id n1.1
    (spineGet_appendChild_one _ _) (by rw [← hI]; rfl) (by rw [hIk]; decide) s1.2.1
  rw [spineModify_appendChild_one] at n2
  have ob2 := openBlock_inv x q1 BK.listMarker id id_kind i1 s1.2.1 (Or.inl (by decide))
  generalize q1.openBlock x BK.listMarker = q2 at ob2 n2
  have i2 := ob2.inv i1
  have s2 := ob2.st s1.2.1
  have g2 : PBGrammar q2.root := by
    apply n2.1.G hq
    intro hc
    apply appendChild_G hc
    · rw [← hI]
      exact PBG_newList delim hd _ _ _ hlab ⟨rfl, rfl⟩ rfl
    · show cck lab.kind = true
      rw [hlab.1]; decide
    · show canContain q.containerKind lab.kind = true
      rw [hlab.1]; exact hqcc
  apply listItem_finish x q2 stop ind ⟨i2, g2⟩ ⟨s2.2.2, s2.2.1⟩
  rw [cur_i ob2.cur, cur_line ob2.cur, cur_i ob1.cur, cur_line ob1.cur]
  exact hb

theorem startListItem_G (x : PExt) (p : LP) (h : GI p) (hs : p.state = 0) : PBGrammar (startListItem x p).root := by
  unfold startListItem
  simp only []
  split
  · exact h.g
  split
  · exact h.g
  rename_i _ hc1
  split
  · exact h.g
  have hb := parseListMarker_toNat_le p.bytesAfterIndent
  have hpos := parseListMarker_pos p.bytesAfterIndent
  have hdl := parseListMarker_delim p.bytesAfterIndent
  generalize parseListMarker p.bytesAfterIndent = m at hb hpos hc1 hdl ⊢
  have hm : 1 ≤ m.stop := by
    rcases hpos with h' | h'
    · rw [h'] at hc1; simp at hc1
    · exact h'
  have hd : isDelimChar m.delim = true := hdl (by omega)
  obtain ⟨ci, hdrop, hil⟩ := consumeAll p h.inv
  generalize p.consumeIndentN p.indent = p1 at ci hdrop hil ⊢
  have g1 := h.ofCI ci
  have i1 := g1.inv
  have s1 := ci.st (by omega)
  have hbound : p1.i + m.stop.toNat ≤ p1.line.length := by rw [ci.line]; omega
  generalize hcond : (p1.containerKind != BK.list || (if (p1.containerKind != BK.list && p1.containerKind != BK.listItem) = true
      then (0 : UInt8) else p1.container.label.char) != m.delim) = c
  cases c with
  | true =>
    show PBGrammar (listItemTail x m.delim m.stop.toNat p.indent (p1.openBlock x BK.list (fun l => { l with char := m.delim }))).root
    have ob := openBlock_inv x p1 BK.list (fun l => { l with char := m.delim }) (fun _ => rfl) i1 s1.2 (Or.inl (by decide))
    have n0 := openBlock_nest x p1 BK.list (fun l => { l with char := m.delim }) i1.tree g1.g s1.2 (Or.inl (by decide))
    have pp := obPre_post x p1 BK.list i1.tree g1.g (Or.inl (by decide))
    exact listItemTail_G_new x _ _ _ m.delim m.stop.toNat p.indent ⟨rfl, rfl⟩ hd n0 pp.g pp.cc (ob.inv i1) ob.ckind
      (ob.st s1.2).2.1 (by rw [cur_i ob.cur, cur_line ob.cur]; exact hbound)
  | false =>
    show PBGrammar (listItemTail x m.delim m.stop.toNat p.indent p1).root
    simp only [Bool.or_eq_false_iff] at hcond
    have hk : p1.containerKind = BK.list := by simpa using hcond.1
    have hch : p1.container.label.char = m.delim := by
      have h2 := hcond.2
      rw [hk] at h2
      simpa using h2
    exact listItemTail_G_old x p1 m.delim m.stop.toNat p.indent g1 hd hk hch s1.2 hbound

/-- Every block start keeps the working invariant and the grammar. -/
theorem blockStartFns_G (x : PExt) : ∀ f ∈ blockStartFns x, ∀ q, GI q → q.state = 0 → SPost q (f q) ∧ PBGrammar (f q).root := by
  intro f hf q h hs
  simp only [blockStartFns, List.mem_cons, List.mem_nil_iff, or_false] at hf
  rcases hf with rfl | rfl | rfl | rfl | rfl | rfl | rfl | rfl
  · exact ⟨startBlockQuote_post x q h.inv hs, startBlockQuote_G x q h hs⟩
  · exact ⟨startATX_post x q h.inv hs, startATX_G x q h hs⟩
  · exact ⟨startFenced_post x q h.inv hs, startFenced_G x q h hs⟩
  · exact ⟨startHTML_post x q h.inv hs, startHTML_G x q h hs⟩
  · exact ⟨startSetext_post x q h.inv hs, startSetext_G x q h hs⟩
  · exact ⟨startThematicBreak_post x q h.inv hs, startThematicBreak_G x q h hs⟩
  · exact ⟨startListItem_post x q h.inv hs, startListItem_G x q h hs⟩
  · exact ⟨startIndentedCode_post x q h.inv hs, startIndentedCode_G x q h hs⟩

end CM.Proofs.BG
