import CM.Proofs.Escape
import CM.Proofs.RenderToks
/-
C07 at token level: the documented mapping yields well-nested, fixed-vocabulary, escaped tokens
whenever raw HTML is ignored or absent and no tag filter is set.
-/
namespace CM.Proofs
open CM CM.Model CM.Spec CM.Gen Node

/-! ### nesting -/

theorem nest_append (a b : List Tok) (st : List Bytes) : nest (a ++ b) st = (nest a st).bind (nest b) := by
  induction a generalizing st with
  | nil => simp [nest]
  | cons t ts ih =>
    cases t with
    | stag n attrs => simp only [List.cons_append, nest]; split <;> exact ih _
    | etag n =>
      simp only [List.cons_append, nest]
      cases st with
      | nil => rfl
      | cons m st' => simp only; split <;> first | exact ih _ | rfl
    | br => simpa [nest] using ih st
    | text b => simpa [nest] using ih st
    | cref b => simpa [nest] using ih st
    | raw b => simpa [nest] using ih st

theorem nest_frame (a : List Tok) (s1 r st : List Bytes) (h : nest a s1 = some r) : nest a (s1 ++ st) = some (r ++ st) := by
  induction a generalizing s1 with
  | nil => simp [nest] at h ⊢; exact h
  | cons t ts ih =>
    cases t with
    | stag n attrs =>
      simp only [nest] at h ⊢
      split at h
      · rename_i hv; simp only [hv, if_true]; exact ih _ h
      · rename_i hv; simp only [hv, Bool.false_eq_true, if_false]; exact ih (n :: s1) h
    | etag n =>
      cases s1 with
      | nil => simp [nest] at h
      | cons m s1' =>
        simp only [nest, List.cons_append] at h ⊢
        split at h
        · rename_i hm; simp only [hm, if_true]; exact ih _ h
        · simp at h
    | br => simp only [nest] at h ⊢; exact ih _ h
    | text b => simp only [nest] at h ⊢; exact ih _ h
    | cref b => simp only [nest] at h ⊢; exact ih _ h
    | raw b => simp only [nest] at h ⊢; exact ih _ h

def WN (ts : List Tok) : Prop := nest ts [] = some []

theorem WN_nil : WN [] := rfl

theorem WN_append {a b : List Tok} (ha : WN a) (hb : WN b) : WN (a ++ b) := by
  unfold WN at *; rw [nest_append, ha]; exact hb

theorem WN_wrap {n : Bytes} {attrs : List (Bytes × Bytes)} {kids : List Tok} (hv : isVoid n = false) (hk : WN kids) :
    WN ([Tok.stag n attrs] ++ kids ++ [Tok.etag n]) := by
  unfold WN at *
  simp only [List.singleton_append, List.cons_append, nest, hv, Bool.false_eq_true, if_false]
  rw [nest_append]
  have := nest_frame kids [] [] [n] hk
  simp only [List.nil_append] at this ⊢
  rw [this]
  simp [nest]

theorem WN_void {n : Bytes} {attrs : List (Bytes × Bytes)} (hv : isVoid n = true) : WN [Tok.stag n attrs] := by
  simp [WN, nest, hv]

theorem WN_text (b : Bytes) : WN [Tok.text b] := rfl
theorem WN_cref (b : Bytes) : WN [Tok.cref b] := rfl
theorem WN_raw (b : Bytes) : WN [Tok.raw b] := rfl
theorem WN_br : WN [Tok.br] := rfl

/-! ### vocabulary (kernel-evaluated against the names regenerated from the Go source) -/

theorem el_p : rendererElements.contains (str "p") = true ∧ isVoid (str "p") = false := by decide +kernel
theorem el_hr : rendererElements.contains (str "hr") = true ∧ isVoid (str "hr") = true := by decide +kernel
theorem el_pre : rendererElements.contains (str "pre") = true ∧ isVoid (str "pre") = false := by decide +kernel
theorem el_code : rendererElements.contains (str "code") = true ∧ isVoid (str "code") = false := by decide +kernel
theorem el_blockquote : rendererElements.contains (str "blockquote") = true ∧ isVoid (str "blockquote") = false := by decide +kernel
theorem el_ol : rendererElements.contains (str "ol") = true ∧ isVoid (str "ol") = false := by decide +kernel
theorem el_ul : rendererElements.contains (str "ul") = true ∧ isVoid (str "ul") = false := by decide +kernel
theorem el_li : rendererElements.contains (str "li") = true ∧ isVoid (str "li") = false := by decide +kernel
theorem el_em : rendererElements.contains (str "em") = true ∧ isVoid (str "em") = false := by decide +kernel
theorem el_strong : rendererElements.contains (str "strong") = true ∧ isVoid (str "strong") = false := by decide +kernel
theorem el_a : rendererElements.contains (str "a") = true ∧ isVoid (str "a") = false := by decide +kernel
theorem el_img : rendererElements.contains (str "img") = true ∧ isVoid (str "img") = true := by decide +kernel

theorem el_heading (n : Int) : rendererElements.contains (headingTag n) = true ∧ isVoid (headingTag n) = false := by
  unfold headingTag
  repeat' split
  all_goals decide +kernel

theorem at_class : rendererAttrs.contains (str "class") = true := by decide +kernel
theorem at_start : rendererAttrs.contains (str "start") = true := by decide +kernel
theorem at_href : rendererAttrs.contains (str "href") = true := by decide +kernel
theorem at_src : rendererAttrs.contains (str "src") = true := by decide +kernel
theorem at_title : rendererAttrs.contains (str "title") = true := by decide +kernel
theorem at_alt : rendererAttrs.contains (str "alt") = true := by decide +kernel

theorem safe_language : safeData (str "language-") = true := by decide +kernel
theorem safe_mailto : safeData (str "mailto:") = true := by decide +kernel
theorem safe_sp : safeData [SP] = true := by decide +kernel
theorem safe_lf : safeData [LF] = true := by decide +kernel

theorem safeData_eol (b : Bytes) (h : b.all (fun c => c == LF || c == CR) = true) : safeData b = true := by
  apply safeData_of_plain
  simp only [List.all_eq_true] at h ⊢
  intro c hc
  have := h c hc
  simp only [Bool.or_eq_true, beq_iff_eq] at this
  rcases this with rfl | rfl <;> decide

mutual
theorem safeData_altPieces (cx : RCtx) (t : Tree) : safeData (altPieces cx t) = true := by
  match t with
  | .node l cs =>
    simp only [altPieces]
    repeat' split
    all_goals first
      | exact safeData_altPiecesL cx cs
      | exact safeData_escapeString _
      | exact safe_sp
      | rfl
theorem safeData_altPiecesL (cx : RCtx) (cs : List Tree) : safeData (altPiecesL cx cs) = true := by
  match cs with
  | [] => rfl
  | c :: cs => simp only [altPiecesL]; exact safeData_append _ _ (safeData_altPieces cx c) (safeData_altPiecesL cx cs)
end

theorem linkAttrToks_ok (d : LinkDef) (attr : String) (ha : rendererAttrs.contains (str attr) = true) :
    (linkAttrToks d attr).all attrOK = true := by
  have ha' : str attr ∈ rendererAttrs := by simpa using ha
  have ht : str "title" ∈ rendererAttrs := by simpa using at_title
  unfold linkAttrToks
  split <;> simp [attrOK, ha', ht, safeData_escapeString]

end CM.Proofs

namespace CM.Proofs
open CM CM.Model CM.Spec CM.Gen Node

/-- A good token sequence: every token in the vocabulary and escaped; tags properly nested. -/
def Good (ts : List Tok) : Prop := ts.all tokOK = true ∧ WN ts

theorem Good_nil : Good [] := ⟨rfl, WN_nil⟩

theorem Good_append {a b : List Tok} (ha : Good a) (hb : Good b) : Good (a ++ b) :=
  ⟨by simp [ha.1, hb.1], WN_append ha.2 hb.2⟩

theorem Good_wrap {n : Bytes} {attrs : List (Bytes × Bytes)} {kids : List Tok}
    (hn : rendererElements.contains n = true ∧ isVoid n = false) (ha : attrs.all attrOK = true) (hk : Good kids) :
    Good (wrap n attrs kids) := by
  refine ⟨?_, WN_wrap hn.2 hk.2⟩
  have hm : n ∈ rendererElements := by simpa using hn.1
  simp [wrap, tokOK, hm, hn.2, ha, hk.1]

theorem Good_void {n : Bytes} {attrs : List (Bytes × Bytes)}
    (hn : rendererElements.contains n = true ∧ isVoid n = true) (ha : attrs.all attrOK = true) :
    Good (voidEl n attrs) := by
  refine ⟨?_, WN_void hn.2⟩
  have hm : n ∈ rendererElements := by simpa using hn.1
  simp [voidEl, tokOK, hm, ha]

theorem Good_text {b : Bytes} (h : safeData b = true) : Good [Tok.text b] := ⟨by simp [tokOK, h], WN_text b⟩
theorem Good_cref {b : Bytes} (h : charRefShape b = true) : Good [Tok.cref b] := ⟨by simp [tokOK, h], WN_cref b⟩
theorem Good_raw_nil : Good [Tok.raw []] := ⟨by simp [tokOK], WN_raw []⟩
theorem Good_br : Good [Tok.br] := ⟨by simp [tokOK], WN_br⟩

theorem attrs_nil : ([] : List (Bytes × Bytes)).all attrOK = true := rfl

/-- Hypotheses of C07 on a subtree. -/
def Hyp (cx : RCtx) (ns : List Tree) : Prop :=
  ns.all (safePreAt cx.src) = true ∧ (cx.ignoreRaw = true ∨ ns.all (!isRawNode ·) = true)

theorem Hyp_cons {cx : RCtx} {t : Tree} {ns : List Tree} (h : Hyp cx (t :: ns)) :
    safePreAt cx.src t = true ∧ (cx.ignoreRaw = true ∨ isRawNode t = false) ∧ Hyp cx ns := by
  obtain ⟨h1, h2⟩ := h
  simp only [List.all_cons, Bool.and_eq_true] at h1
  refine ⟨h1.1, ?_, h1.2, ?_⟩
  · rcases h2 with h2 | h2
    · exact Or.inl h2
    · simp only [List.all_cons, Bool.and_eq_true] at h2; right; simpa using h2.1
  · rcases h2 with h2 | h2
    · exact Or.inl h2
    · simp only [List.all_cons, Bool.and_eq_true] at h2; exact Or.inr h2.2

theorem Hyp_append {cx : RCtx} {a b : List Tree} (h : Hyp cx (a ++ b)) : Hyp cx a ∧ Hyp cx b := by
  obtain ⟨h1, h2⟩ := h
  simp only [List.all_append, Bool.and_eq_true] at h1
  refine ⟨⟨h1.1, ?_⟩, ⟨h1.2, ?_⟩⟩
  · rcases h2 with h2 | h2
    · exact Or.inl h2
    · simp only [List.all_append, Bool.and_eq_true] at h2; exact Or.inr h2.1
  · rcases h2 with h2 | h2
    · exact Or.inl h2
    · simp only [List.all_append, Bool.and_eq_true] at h2; exact Or.inr h2.2

end CM.Proofs
