import CM.Proofs.InlineSerStep
/-
Inline serialisation — part 3, SEQUENCING.  `Seg … p ps q ps' T`: from position `p` of a run (pending plain text from
`ps`) the tokenizer loop arrives at position `q` (pending from `ps'`) having applied the state transformer `T`, in at
most `q - p` iterations, from EVERY state inside the run.  Segments compose (`Seg.trans`); a segment that covers a whole
run gives `parseRun` (`parseRun_of_seg`); the runs of a container give `parseBody` (`parseBody_runs`).
-/
namespace CM.Proofs.InlSer
open CM CM.Gen CM.Model CM.Model.Inl CM.Proofs.EscText

/-- A segment of a run. -/
def Seg (c : ICtx) (f : Nat → LS → IM (ForInStep LS)) (a E : Nat) (last : Bool)
    (p ps q ps' : Nat) (T : IState → IState) : Prop :=
  p ≤ q ∧ (∀ s, (T s).unparsedPos = s.unparsedPos) ∧
  ∀ s, At c a E last s → ∃ j, j ≤ q - p ∧ Reaches f j ((p : Int), (ps : Int), false) s ((q : Int), (ps' : Int), false) (T s)

theorem Seg.refl (c : ICtx) (f : Nat → LS → IM (ForInStep LS)) (a E : Nat) (last : Bool) (p ps : Nat) :
    Seg c f a E last p ps p ps id :=
  ⟨Nat.le_refl _, fun _ => rfl, fun s _ => ⟨0, Nat.zero_le _, Reaches.refl f _ s⟩⟩

/-- **Sequencing**: finished segments compose. -/
theorem Seg.trans {c : ICtx} {f : Nat → LS → IM (ForInStep LS)} {a E : Nat} {last : Bool} {p ps q ps' r ps'' : Nat}
    {T1 T2 : IState → IState} (h1 : Seg c f a E last p ps q ps' T1) (h2 : Seg c f a E last q ps' r ps'' T2) :
    Seg c f a E last p ps r ps'' (T2 ∘ T1) := by
  obtain ⟨l1, u1, r1⟩ := h1
  obtain ⟨l2, u2, r2⟩ := h2
  refine ⟨Nat.le_trans l1 l2, fun s => by simp only [Function.comp]; rw [u2, u1], fun s hs => ?_⟩
  obtain ⟨j1, b1, e1⟩ := r1 s hs
  obtain ⟨j2, b2, e2⟩ := r2 (T1 s) (hs.congr (u1 s))
  exact ⟨j1 + j2, by omega, e1.trans e2⟩

/-- One iteration is a segment. -/
theorem Seg.ofStep {c : ICtx} {f : Nat → LS → IM (ForInStep LS)} {a E : Nat} {last : Bool} {p ps q ps' : Nat}
    {T : IState → IState} (hpq : p < q) (hT : ∀ s, (T s).unparsedPos = s.unparsedPos)
    (h : ∀ s, At c a E last s → ∀ i, (f i ((p : Int), (ps : Int), false)).run s = pure (.yield ((q : Int), (ps' : Int), false), T s)) :
    Seg c f a E last p ps q ps' T :=
  ⟨Nat.le_of_lt hpq, hT, fun s hs => ⟨1, by omega, Reaches.step (h s hs)⟩⟩

/-! ### a whole run -/

theorem forIn_fuel_done {f : Nat → LS → IM (ForInStep LS)} {j : Nat} {v v' v'' : LS} {s s' : IState}
    (hr : Reaches f j v s v' s') (hd : ∀ i, (f i v').run s' = pure (.done v'', s')) (fuel : Nat) (hf : j + 1 ≤ fuel) :
    (forIn (List.range' 0 fuel) v f).run s = pure (v'', s') := by
  obtain ⟨k, rfl⟩ : ∃ k, fuel = j + (k + 1) := ⟨fuel - j - 1, by omega⟩
  rw [hr 0 (k + 1)]
  exact forIn_step_done (hd _)

/-- **A segment that covers a run is `parseRun`**: the pending text is flushed at the end of the run. -/
theorem parseRun_of_seg {c : ICtx} {src : Bytes} (hA : c.srcA = src.toArray) {f : Nat → LS → IM (ForInStep LS)}
    (hf : Steps c src f)
    (heq : ∀ s t (p a E : Nat) (last : Bool) (b : UInt8), c.unparsed[s.unparsedPos]? = some t → t.label.start = (p : Int) →
      At c a E last s → p < E → src[p]? = some b → b ≠ SP → b ≠ TAB → (parseRun c).run s = (tokLoop c f).run s)
    {E : Nat} {last : Bool} {a ps' : Nat} {T : IState → IState} (hseg : Seg c f a E last a a E ps' T)
    (s : IState) (t : Tree) (b : UInt8) (ht : c.unparsed[s.unparsedPos]? = some t) (hta : t.label.start = (a : Int))
    (hs : At c a E last s) (haE : a < E) (hE : E ≤ src.length) (hb : src[a]? = some b) (hsp : b ≠ SP) (htab : b ≠ TAB) :
    (parseRun c).run s = pure ((), addLeafP IK.text (ps' : Int) (E : Int) (T (setIgnP false s))) := by
  rw [heq s t a a E last b ht hta hs haE hb hsp htab]
  unfold tokLoop
  simp only [StateT.run_bind, unparsedAt_run c s t ht, pure_bind, setIgn_run]
  have hs' : At c a E last (setIgnP false s) := hs.congr rfl
  obtain ⟨_, hu, hr⟩ := hseg
  obtain ⟨j, hj, hreach⟩ := hr _ hs'
  have hsT : At c a E last (T (setIgnP false s)) := hs'.congr (hu _)
  have hrange : Std.Legacy.Range.size [:c.srcA.size + 2] = c.srcA.size + 2 := by simp [Std.Legacy.Range.size]
  rw [Std.Legacy.Range.forIn_eq_forIn_range']
  simp only [hrange, hta]
  have hsz : c.srcA.size = src.length := by rw [hA]; simp
  rw [forIn_fuel_done hreach (fun i => hf.done i E a E last _ _ hsT (Nat.le_refl _)) _ (by omega)]
  simp only [pure_bind, Bool.not_true, Bool.false_eq_true, if_false, spanEnd, StateT.run_bind, StateT.run_get, StateT.run_pure,
    addText, addLeaf_run, hsT.se]

/-! ### the runs of a container -/

def setUpP (n : Nat) (s : IState) : IState := { s with unparsedPos := n }

/-- The state after the first `k` runs: `T i` is what `parseRun` does in run `i`. -/
def runAll (T : Nat → IState → IState) : Nat → IState → IState
  | 0, s => s
  | k + 1, s => setUpP (k + 1) (T k (runAll T k s))

theorem runAll_up (T : Nat → IState → IState) (k : Nat) (s : IState) (h0 : s.unparsedPos = 0) :
    (runAll T k s).unparsedPos = k := by
  cases k with
  | zero => exact h0
  | succ k => rfl

theorem forInU_step_yield {g : Nat → PUnit → IM (ForInStep PUnit)} {i fuel : Nat} {s s' : IState}
    (h : (g i ⟨⟩).run s = pure (.yield ⟨⟩, s')) :
    (forIn (List.range' i (fuel + 1)) PUnit.unit g).run s = (forIn (List.range' (i + 1) fuel) PUnit.unit g).run s' := by
  rw [List.range'_succ, List.forIn_cons, StateT.run_bind, h, pure_bind]

theorem forInU_step_done {g : Nat → PUnit → IM (ForInStep PUnit)} {i fuel : Nat} {s s' : IState}
    (h : (g i ⟨⟩).run s = pure (.done ⟨⟩, s')) :
    (forIn (List.range' i (fuel + 1)) PUnit.unit g).run s = pure (⟨⟩, s') := by
  rw [List.range'_succ, List.forIn_cons, StateT.run_bind, h, pure_bind]
  rfl

/-- **`parseBody` on a container whose inline children are Unparsed runs**: run after run, then `processEmphasis`. -/
theorem parseBody_runs (c : ICtx)
    (hk : ∀ k, (h : k < c.unparsed.size) → (c.unparsed[k]).label.isBlock = false ∧ (c.unparsed[k]).label.kind = IK.unparsed)
    (T : Nat → IState → IState)
    (hT : ∀ k < c.unparsed.size, ∀ s, s.unparsedPos = k → (parseRun c).run s = pure ((), T k s) ∧ (T k s).unparsedPos = k)
    (s : IState) (h0 : s.unparsedPos = 0) :
    (parseBody c).run s = (Inl.processEmphasis 0).run (runAll T c.unparsed.size s) := by
  unfold parseBody
  rw [StateT.run_bind, Std.Legacy.Range.forIn_eq_forIn_range']
  have hrange : Std.Legacy.Range.size [:c.unparsed.size + 1] = c.unparsed.size + 1 := by simp [Std.Legacy.Range.size]
  simp only [hrange]
  generalize hg : (fun (x : Nat) (r : PUnit) => (_ : IM (ForInStep PUnit))) = g
  have key : ∀ (m k : Nat), k + m = c.unparsed.size →
      (forIn (List.range' k (m + 1)) PUnit.unit g).run (runAll T k s) = pure (⟨⟩, runAll T c.unparsed.size s) := by
    intro m
    induction m with
    | zero =>
      intro k hkm
      have hkk : k = c.unparsed.size := by omega
      subst hkk
      apply forInU_step_done
      have hu := runAll_up T c.unparsed.size s h0
      subst hg
      simp [StateT.run_bind, hu]
    | succ m ih =>
      intro k hkm
      have hlt : k < c.unparsed.size := by omega
      have hu := runAll_up T k s h0
      obtain ⟨hrun, hup⟩ := hT k hlt _ hu
      obtain ⟨hb, hkind⟩ := hk k hlt
      rw [forInU_step_yield (s' := runAll T (k + 1) s)]
      · exact ih (k + 1) (by omega)
      · subst hg
        simp [StateT.run_bind, hu, hlt, Nat.not_le.2 hlt, hb, hkind, IK.unparsed, IK.indent, hrun, hup, setUnparsedPos, runAll, setUpP]
  have := key c.unparsed.size 0 (by omega)
  simp only [runAll] at this
  rw [this]
  rfl

end CM.Proofs.InlSer
