import CM.Proofs.InlInvBracket
/-
The generic arena invariant, part 4: the tokenizer `parseRun`, the outer loop `parseBody`.
-/
namespace CM.Proofs.InlH
open CM CM.Model CM.Model.Inl
open Std.Do

set_option mvcgen.warning false

section
variable {c : ICtx} {φ : INode → Prop}

set_option maxHeartbeats 400000 in
@[spec]
theorem parseRun_spec (hN : NodeInv c φ) :
    ⦃fun s => ⌜G φ s⌝⦄ parseRun c ⦃⇓? _ s => ⌜G φ s⌝⦄ := by
  mvcgen [parseRun, spanEnd, isLastSpan, addText, alloc, pushStack, setIgnoreNextIndent, setUnparsedPos]
  inl_inv (G φ)
  inl_norm
  inl_triv
  all_goals first
    | (intro _
       first
        | exact hN.text _ _
        | exact hN.hardBreak _ _
        | (have hb := ‹(_ : IState) = _ ∧ (0 : Int) ≤ _ ∧ _ < _ ∧ (_ : UInt8) = _›
           obtain ⟨-, h0, h1, hr⟩ := hb
           first
            | (have hg := ‹_ ∧ (_ = true → _)›
               have hg2 := hg.2 ‹_ = true›
               exact hN.softBreak2 _ h0 hg2.2.2.1 (by rw [← hr]; simpa using ‹(_ == CR) = true›) hg2.2.2.2)
            | exact hN.softBreak1 _ h0 h1 (Or.inl (by rw [← hr]; simpa using ‹(_ == LF) = true›))
            | exact hN.softBreak1 _ h0 h1 (Or.inr (by rw [← hr]; simpa using ‹(_ == CR) = true›))
            | fail "softBreak")
        | (have hsl := ‹_ ∧ _ ∧ _ ∧ _ ∧ _ = Array.toList _›
           obtain ⟨-, h0, h1, h2, rfl⟩ := hsl
           exact hN.charRef _ _ _ h0 h1 h2 (by omega) rfl)
        | fail "leaf")
    | (refine ⟨trivial, ?_⟩
       inl_subst; subst_vars; inl_state
       refine GA.push ‹G φ _› ?_
       first
        | exact hN.text _ _
        | exact hN.autolink _ _ _ _
        | (simp -failIfUnchanged +zetaDelta only []; exact hN.htmlTag _ _ _ _ _ _ _)
        | fail "alloc")
    | (have hx := ‹G φ _ ∧ KExt _ _›
       obtain ⟨h, he⟩ := hx
       inl_state
       exact GA.pushStack h ((KindP.push_new (P := (· = IK.text)) rfl).ext he))
    | (inl_subst; subst_vars; first | assumption | (inl_state; assumption) | fail "G")
    | skip

theorem imported_ok (hN : NodeInv c φ) (i : Nat) (hi : ¬(!decide (i < c.unparsed.size)) = true)
    (h2 : ¬((c.unparsed[i]!).label.isBlock || (c.unparsed[i]!).label.kind == 0) = true)
    (h3 : (c.unparsed[i]!).label.kind ≠ IK.unparsed) : φ (ofTree (c.unparsed[i]!)) := by
  have hi' : i < c.unparsed.size := by simpa using hi
  simp only [Bool.or_eq_true, beq_iff_eq, not_or] at h2
  refine hN.imported _ ?_ (by simpa using h2.1) h2.2 h3
  rw [getElem!_pos c.unparsed i hi']
  exact Array.getElem_mem hi'

@[spec]
theorem parseBody_spec (hN : NodeInv c φ) :
    ⦃fun s => ⌜G φ s⌝⦄ parseBody c ⦃⇓? _ s => ⌜G φ s⌝⦄ := by
  mvcgen [parseBody, setIgnoreNextIndent, setUnparsedPos]
  inl_inv (G φ)
  inl_norm
  inl_triv
  · refine imported_ok hN _ ‹_› ‹_› ?_
    have hk := ‹(_ == IK.indent) = true›
    simp only [beq_iff_eq] at hk
    rw [hk]; decide
  · refine imported_ok hN _ ‹_› ‹_› ?_
    have hk := ‹¬(_ == IK.unparsed) = true›
    simpa using hk

end

end CM.Proofs.InlH
