import CM.Proofs.InlCoverRewrite
import CM.Proofs.InlSpanScan
/-
C03, inline half — the scanner fact of `TokCover` that is about a pure list function: an autolink ends with `>`.
-/
namespace CM.Proofs.InlH
open CM CM.Model CM.Model.Inl CM.Gen CM.Spec

theorem autolinkURI_end : ∀ (l : Bytes) (k : Nat), 0 ≤ autolinkURI l k →
    l[(autolinkURI l k - 1 - k).toNat]? = some 0x3E := by
  intro l
  induction l with
  | nil => intro k h; simp [autolinkURI] at h
  | cons c rest ih =>
    intro k h
    rw [autolinkURI] at h ⊢
    split
    · rename_i h1
      have : ((k : Int) + 1 - 1 - k).toNat = 0 := by omega
      rw [this]
      simp only [List.getElem?_cons_zero]
      rw [show c = 0x3E by simpa using h1]
    · rename_i h1
      rw [if_neg h1] at h
      split
      · rename_i h2; rw [if_pos h2] at h; omega
      · rename_i h2
        rw [if_neg h2] at h
        have hb := autolinkURI_bound rest (k + 1) h
        have := ih (k + 1) h
        have e : (autolinkURI rest (k + 1) - 1 - (k : Int)).toNat =
            (autolinkURI rest (k + 1) - 1 - ((k + 1 : Nat) : Int)).toNat + 1 := by
          have : ((k + 1 : Nat) : Int) = (k : Int) + 1 := by omega
          omega
        rw [e, List.getElem?_cons_succ]
        exact this

theorem autolink_end (l : Bytes) (h : 0 ≤ parseAutolink l) : l[(parseAutolink l - 1).toNat]? = some 0x3E := by
  unfold parseAutolink at h ⊢
  split
  · rename_i h1; rw [if_pos h1] at h; omega
  · rename_i h1
    rw [if_neg h1] at h
    split
    · simp at h
    · rename_i c0 t1
      simp only [] at h ⊢
      split
      · rename_i h2; rw [if_pos h2] at h; omega
      · rename_i h2
        rw [if_neg h2] at h
        split
        · rename_i h3
          simp only [Bool.and_eq_true, decide_eq_true_eq, beq_iff_eq] at h3
          obtain ⟨⟨e1, e2⟩, e3⟩ := h3
          have : (2 + parseEmail t1 - 1).toNat = (1 + parseEmail t1).toNat := by omega
          rw [this]; exact e3
        · rename_i h3
          rw [if_neg h3] at h
          split
          · simp at h
          · rename_i c1 t2
            simp only [] at h ⊢
            split
            · rename_i h4; rw [if_pos h4] at h; omega
            · rename_i h4
              rw [if_neg h4] at h
              split
              · rename_i h5; rw [if_pos h5] at h; omega
              · rename_i h5
                rw [if_neg h5] at h
                split
                · rename_i h6; simp only [h6] at h; omega
                · rename_i c rest h6
                  simp only [h6] at h
                  split
                  · rename_i h7; rw [if_pos h7] at h; omega
                  · rename_i h7
                    rw [if_neg h7] at h
                    have hb := autolinkURI_bound rest _ h
                    have he := autolinkURI_end rest _ h
                    generalize hE : 2 + (t2.takeWhile isSchemeChar).length = E at *
                    generalize hR : autolinkURI rest (E + 1) = R at *
                    have hidx : (R - 1).toNat = E + (1 + (R - 1 - ((E + 1 : Nat) : Int)).toNat) := by
                      have : ((E + 1 : Nat) : Int) = (E : Int) + 1 := by omega
                      omega
                    rw [hidx, ← List.getElem?_drop, h6, Nat.add_comm 1, List.getElem?_cons_succ]
                    exact he

/-- Only the part of `TokCover` that is about the byte reader has to be assumed. -/
theorem TokCover.mk' (c : ICtx)
    (html : ∀ (u : Nat) (pos : Int) (span : SpanI) (r' : Rd),
      0 ≤ pos → pos < c.srcA.size → c.srcA[pos.toNat]! = 0x3C →
      parseHTMLTag c.src c.fl (newReader (c.unparsedL.drop u) pos.toNat) = (span, r') → span.isValid = true →
      ∀ j, pos ≤ j → j < span.stop → InRun c j → NeedAt c j →
        CovP span.start span.stop
          (collectTextNodes c.x.ext c.src span.stop.toNat IK.rawHTML false c.fl
            (newReader (c.unparsedL.drop u) span.start.toNat) span.start.toNat []) j)
    (code : ∀ (s s' : IState) (pos : Int) (cs : CodeSpan),
      0 ≤ pos → pos < c.srcA.size → c.srcA[pos.toNat]! = 0x60 →
      (parseCodeSpan c pos).run s = .ok (cs, s') → s.unparsedPos < c.unparsed.size → pos < spanEndOf c s →
      cs.span.isValid = true →
      ∀ t t' : IState, t.unparsedPos = s.unparsedPos → (collectCodeSpan c cs).run t = .ok ((), t') →
        ∀ j, pos ≤ j → j < cs.span.stop → InRun c j → NeedAt c j → CovN (t'.nodes[t.nodes.size]!) j) :
    TokCover c :=
  ⟨autolink_end, html, code⟩

end CM.Proofs.InlH
