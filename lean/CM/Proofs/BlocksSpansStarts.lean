import CM.Proofs.BlocksSpansSetext
/-
C02, block half — the eight block starts preserve the mid-line invariant and the chain condition.
-/
namespace CM.Proofs.BSp
open CM CM.Model CM.Gen CM.Proofs.BT

/-- The working bundle inside a line: the mid-line invariant, what hangs below the container is old, the chain above
    the container, and the line-constant fields are those of `p0`. -/
structure W (Q : ParaPred) (p0 p : LP) : Prop where
  mi : MI Q p
  below : Below Q p
  above : ChainAbove p.lineStart p.depth p.root
  src : p.source = p0.source
  ls : p.lineStart = p0.lineStart
  line : p.line = p0.line

theorem W.frame {Q : ParaPred} {p0 p q : LP} (w : W Q p0 p) (f : LFrame p q) (m : MI Q q) : W Q p0 q :=
  ⟨m, f.below w.below, f.chainAbove w.above, by rw [f.src, w.src], by rw [f.ls, w.ls], by rw [f.line, w.line]⟩

theorem W.adv {Q : ParaPred} {p0 p q : LP} {n : Nat} (w : W Q p0 p) (a : AdvPost p q n) : W Q p0 q :=
  w.frame (LFrame.of_adv a) (w.mi.of_adv a)
theorem W.ci {Q : ParaPred} {p0 p q : LP} {n : Nat} (w : W Q p0 p) (a : CIPost p q n) : W Q p0 q :=
  w.frame (LFrame.of_ci a) (w.mi.of_ci a)
theorem W.cl {Q : ParaPred} {p0 p q : LP} (w : W Q p0 p) (a : CLPost p q) (hc : CurOK p) : W Q p0 q :=
  w.frame (LFrame.of_cl a hc) (w.mi.of_cl a hc)

theorem W.setState {Q : ParaPred} {p0 p : LP} (w : W Q p0 p) (s : Nat) : W Q p0 { p with state := s } :=
  ⟨w.mi.setState s, w.below, w.above, w.src, w.ls, w.line⟩

theorem W.openBlock {Q : ParaPred} {x : PExt} {p0 p : LP} (w : W Q p0 p) (kind : Nat) (setAttrs : PLabel → PLabel)
    (hattr : ∀ l, (setAttrs l).kind = l.kind ∧ (setAttrs l).start = l.start ∧ (setAttrs l).stop = l.stop)
    (hinv : Inv p) (hst : p.state ≤ 2) (hL : CloseParaOK Q x p0.source p0.lineStart)
    (hc : (kind ≠ BK.listItem ∧ ChainAt p) ∨ canContain p.containerKind kind = true)
    (hk4 : kind ≠ BK.setextHeading) (hk1 : kind ≠ BK.paragraph) :
    W Q p0 (p.openBlock x kind setAttrs) ∧ TipClosed (p.openBlock x kind setAttrs) ∧
      (Univ kind = true → ChainAt (p.openBlock x kind setAttrs)) := by
  have ob := openBlock_MI (Q := Q) (Q' := Q) (x := x) p kind setAttrs hattr hinv hst w.mi w.below (by rw [w.src, w.ls]; exact hL)
    w.above hc (fun _ _ h => h) hk4 (fun h => absurd h hk1)
  obtain ⟨o1, o2, o3, o4, o5, o6⟩ := ob
  have hcur := (openBlock_inv x p kind setAttrs (fun l => (hattr l).1) hinv hst (by
    rcases hc with ⟨h, _⟩ | h
    · exact Or.inl h
    · exact Or.inr h)).cur
  exact ⟨⟨o1, o2.below, o3, by rw [o5, w.src], by rw [o6, w.ls], by rw [cur_line hcur, w.line]⟩, o2, o4⟩

theorem depth_ne_zero {p : LP} (hinv : Inv p) (hk : p.containerKind ≠ BK.document) : p.depth ≠ 0 := by
  intro h0
  rw [containerKind_zero p h0, hinv.tree.root] at hk
  exact hk rfl

theorem W.endBlock_leaf {Q : ParaPred} {x : PExt} {p0 p : LP} (w : W Q p0 p) (hinv : Inv p) (hst : p.state ≤ 2)
    (hk : isContainerKind p.containerKind = false) (hk1 : p.containerKind ≠ BK.paragraph) :
    W Q p0 (p.endBlock x) ∧ TipClosed (p.endBlock x) := by
  have hd : p.depth ≠ 0 := depth_ne_zero hinv (by intro h; rw [h] at hk; cases hk)
  obtain ⟨m, t⟩ := CM.Proofs.BSp.endBlock_leaf (x := x) w.mi hst hd hk hk1
  obtain ⟨s1, s2, s3, _⟩ := endBlock_src x p hst
  exact ⟨⟨m, t.below, endBlock_above x p hst hd w.above, by rw [s1, w.src], by rw [s2, w.ls], by rw [s3, w.line]⟩, t⟩

theorem W.collectInline {Q : ParaPred} {p0 p : LP} (w : W Q p0 p) (x : PExt) (kind n : Nat) (hinv : Inv p) (hst : p.state ≠ 4)
    (hb : p.i + ciSkip p + n ≤ p.line.length) (hnp : p.containerKind ≠ BK.paragraph) :
    W Q p0 (p.collectInline x kind n) ∧ LFrame p (p.collectInline x kind n) := by
  obtain ⟨m, f⟩ := collectInline_MI x p kind n hinv hst hb w.mi hnp
  exact ⟨w.frame f m, f⟩

theorem W.setIndent {Q : ParaPred} {p0 p : LP} (w : W Q p0 p) (n : Int) (h1 : 1 ≤ p.state) (h2 : p.state ≤ 2)
    (hk : p.containerKind = BK.listItem ∨ p.containerKind = BK.fencedCode) :
    W Q p0 (p.setContainerIndent n) ∧ LFrame p (p.setContainerIndent n) := by
  rw [setContainerIndent_eq p n h1 h2 hk]
  have hnp : p.containerKind ≠ BK.paragraph := by
    rcases hk with hk | hk <;> rw [hk] <;> decide
  have f := LFrame.modifyLabel p (fun l => { l with indent := n }) (fun _ => rfl) (fun _ => rfl)
  have m := modifyLabel_MI (Q := Q) p (fun l => { l with indent := n }) (fun _ => rfl) (fun _ => rfl) (fun _ => rfl) w.mi (Or.inl hnp)
  exact ⟨w.frame f m, f⟩

theorem LFrame.tipW {p q : LP} (f : LFrame p q) (t : TipClosed p) : TipClosed q := f.tip t

/-- The chain condition at a universal container. -/
theorem ChainAt.of_univ {p : LP} (h : Univ p.containerKind = true) : ChainAt p := Or.inl h

/-! ### the post-condition of a block start -/

/-- The spans side of the state in which a block start is tried. -/
structure SPre (Q : ParaPred) (x : PExt) (p : LP) : Prop where
  mi : MI Q p
  below : Below Q p
  above : ChainAbove p.lineStart p.depth p.root
  at_ : ChainAt p
  closeL : CloseParaOK Q x p.source p.lineStart
  setext : SetextOK Q x p.source (lineEnd p)

/-- "Accepts lines and is not a paragraph": the opening loop stops there. -/
def AL (p : LP) : Prop := acceptsLines p.containerKind = true ∧ p.containerKind ≠ BK.paragraph

/-- What a block start guarantees about the spans. -/
structure StartPost (Q : ParaPred) (p p' : LP) : Prop where
  mi : MI QT p'
  src : p'.source = p.source
  ls : p'.lineStart = p.lineStart
  line : p'.line = p.line
  keep : p.containerKind ≠ BK.paragraph ∨ p'.state ≤ 1 → MI Q p' ∧ Below Q p'
  chain : p'.state ≤ 1 → ChainAbove p'.lineStart p'.depth p'.root ∧ (ChainAt p' ∨ AL p')
  at0 : p'.state = 0 → ChainAt p'
  np : p.containerKind ≠ BK.paragraph → p'.state ≤ 1 → p'.containerKind ≠ BK.paragraph

theorem SPre.w {Q : ParaPred} {x : PExt} {p : LP} (h : SPre Q x p) : W Q p p := ⟨h.mi, h.below, h.above, rfl, rfl, rfl⟩

theorem StartPost.refl {Q : ParaPred} {x : PExt} {p : LP} (h : SPre Q x p) : StartPost Q p p :=
  ⟨⟨PBSpans_toQT h.mi.base, h.mi.sopen, h.mi.ile⟩, rfl, rfl, rfl, fun _ => ⟨h.mi, h.below⟩, fun _ => ⟨h.above, Or.inl h.at_⟩,
   fun _ => h.at_, fun h' _ => h'⟩

theorem MI.toQT {Q : ParaPred} {p : LP} (h : MI Q p) : MI QT p := ⟨PBSpans_toQT h.base, h.sopen, h.ile⟩

/-- A start that ends with `MI Q`, `Below Q` and in a state `2` (line consumed). -/
theorem StartPost.of_consumed {Q : ParaPred} {p p' : LP} (w : W Q p p') (hs : p'.state = 2) : StartPost Q p p' :=
  ⟨w.mi.toQT, w.src, w.ls, w.line, fun _ => ⟨w.mi, w.below⟩, fun h => by omega, fun h => by omega, fun _ h => by omega⟩

/-- A start that ends in a known container. -/
theorem StartPost.of_w {Q : ParaPred} {p p' : LP} (w : W Q p p') (hc : ChainAt p' ∨ AL p') (h0 : p'.state = 0 → ChainAt p')
    (hnp : p'.containerKind ≠ BK.paragraph) : StartPost Q p p' :=
  ⟨w.mi.toQT, w.src, w.ls, w.line, fun _ => ⟨w.mi, w.below⟩, fun _ => ⟨w.above, hc⟩, h0, fun _ _ => hnp⟩

theorem attr_id : ∀ l : PLabel, (id l).kind = l.kind ∧ (id l).start = l.start ∧ (id l).stop = l.stop := fun _ => ⟨rfl, rfl, rfl⟩

/-! ### block quote -/

theorem startBlockQuote_sp {Q : ParaPred} (x : PExt) (p : LP) (h : Inv p) (hs : p.state = 0) (pre : SPre Q x p) :
    StartPost Q p (startBlockQuote x p) := by
  unfold startBlockQuote
  simp only []
  split
  · exact StartPost.refl pre
  split
  · exact StartPost.refl pre
  rename_i _ hpre
  have hpre' : hasBytePrefix p.bytesAfterIndent blockQuotePrefix = true := by
    cases hh : hasBytePrefix p.bytesAfterIndent blockQuotePrefix
    · rw [hh] at hpre; exact absurd rfl hpre
    · rfl
  have hlen := hasBytePrefix_length _ _ hpre'
  obtain ⟨ci, hdrop, hil⟩ := consumeAll p h
  have w1 := pre.w.ci ci
  generalize p.consumeIndentN p.indent = p1 at ci hdrop hil w1 ⊢
  have i1 := ci.inv h
  have s1 := ci.st (by omega)
  have ob := openBlock_inv x p1 BK.blockQuote id id_kind i1 s1.2 (Or.inl (by decide))
  have hat1 : ChainAt p1 := ChainAt.of_tree ci.tree pre.at_
  obtain ⟨w2, t2, c2⟩ := w1.openBlock (x := x) BK.blockQuote id attr_id i1 s1.2 pre.closeL (Or.inl ⟨by decide, hat1⟩)
    (by decide) (by decide)
  have c2 := c2 (by decide)
  generalize p1.openBlock x BK.blockQuote = p2 at ob w2 t2 c2
  have i2 := ob.inv i1
  have s2 := ob.st s1.2
  have e2i : p2.i = p1.i := cur_i ob.cur
  have e2l : p2.line = p1.line := cur_line ob.cur
  have hbq : blockQuotePrefix.length = 1 := rfl
  have ad := advance_post p2 blockQuotePrefix.length i2.cur (by rw [e2i, e2l, ci.line]; omega)
  have w3 := w2.adv ad
  have c3 : ChainAt (p2.advance blockQuotePrefix.length) := ChainAt.of_tree ad.tree c2
  generalize p2.advance blockQuotePrefix.length = p3 at ad w3 c3
  have i3 := ad.inv i2
  have k3 : p3.containerKind = BK.blockQuote := by rw [ad.ckind, ob.ckind]
  split
  · rename_i hpos
    have c4 := consumeIndentN_post p3 1 i3.cur (by omega)
    have w4 := w3.ci c4
    have cc4 : ChainAt (p3.consumeIndentN 1) := ChainAt.of_tree c4.tree c3
    exact StartPost.of_w w4 (Or.inl cc4) (fun _ => cc4) (by rw [c4.ckind, k3]; decide)
  · exact StartPost.of_w w3 (Or.inl c3) (fun _ => c3) (by rw [k3]; decide)

/-! ### ATX heading, thematic break -/

theorem leaf_atx : isContainerKind BK.atxHeading = false := by decide
theorem leaf_tb : isContainerKind BK.thematicBreak = false := by decide
theorem leaf_html : isContainerKind BK.htmlBlock = false := by decide
theorem leaf_marker : isContainerKind BK.listMarker = false := by decide
theorem leaf_fenced : isContainerKind BK.fencedCode = false := by decide

theorem startATX_sp {Q : ParaPred} (x : PExt) (p : LP) (h : Inv p) (hs : p.state = 0) (pre : SPre Q x p) :
    StartPost Q p (startATX x p) := by
  unfold startATX
  simp only []
  split
  · exact StartPost.refl pre
  split
  · exact StartPost.refl pre
  rename_i _ hlev
  have hb := parseATXHeading_bound p.bytesAfterIndent
  generalize parseATXHeading p.bytesAfterIndent = hd at hb hlev ⊢
  obtain ⟨hb1, hb2, hb3⟩ := hb
  have hb3 := hb3 (by omega)
  obtain ⟨ci, hdrop, hil⟩ := consumeAll p h
  have w1 := pre.w.ci ci
  have hat1 : ChainAt (p.consumeIndentN p.indent) := ChainAt.of_tree ci.tree pre.at_
  generalize p.consumeIndentN p.indent = p1 at ci hdrop hil w1 hat1 ⊢
  have i1 := ci.inv h
  have s1 := ci.st (by omega)
  have ob := openBlock_inv x p1 BK.atxHeading (fun l => { l with n := hd.level }) (fun _ => rfl) i1 s1.2 (Or.inl (by decide))
  obtain ⟨w2, t2, _⟩ := w1.openBlock (x := x) BK.atxHeading (fun l => { l with n := hd.level }) (fun _ => ⟨rfl, rfl, rfl⟩) i1 s1.2
    pre.closeL (Or.inl ⟨by decide, hat1⟩) (by decide) (by decide)
  generalize p1.openBlock x BK.atxHeading (fun l => { l with n := hd.level }) = p2 at ob w2 t2
  have i2 := ob.inv i1
  have s2 := ob.st s1.2
  have e2i : p2.i = p1.i := cur_i ob.cur
  have e2l : p2.line = p1.line := cur_line ob.cur
  have ad := advance_post p2 hd.start i2.cur (by rw [e2i, e2l, ci.line]; omega)
  have w3 := w2.adv ad
  generalize p2.advance hd.start = p3 at ad w3
  have i3 := ad.inv i2
  have s3 := ad.st s2.2.1
  have k3 : p3.containerKind = BK.atxHeading := by rw [ad.ckind, ob.ckind]
  have hdrop3 : p3.line.getD p3.i 0 = p.bytesAfterIndent.getD hd.start 0 := by
    rw [ad.i, ad.line, e2i, e2l]; exact getD_of_drop p1 _ _ hdrop
  have hind3 : p3.indent = 0 := indent_zero_of_getD p3 (by rw [hdrop3]; exact hb3.1) (by rw [hdrop3]; exact hb3.2)
  have hb4 : p3.i + ciSkip p3 + (hd.stop - hd.start) ≤ p3.line.length := by
    rw [ciSkip_zero p3 hind3, ad.i, ad.line, e2i, e2l, ci.line]; omega
  have co := collectInline_post x p3 IK.unparsed (hd.stop - hd.start) i3 (by omega) hb4
  obtain ⟨w4, _⟩ := w3.collectInline x IK.unparsed (hd.stop - hd.start) i3 (by omega) hb4 (by rw [k3]; decide)
  generalize p3.collectInline x IK.unparsed (hd.stop - hd.start) = p4 at co w4
  have s4 := co.st s3.2
  have cl := consumeLine_post p4 co.inv.cur
  have w5 := w4.cl cl co.inv.cur
  generalize p4.consumeLine = p5 at cl w5
  have i5 := cl.inv co.inv
  have s5 := cl.st s4.2.1
  have k5 : p5.containerKind = BK.atxHeading := by rw [cl.ckind, co.ckind, k3]
  have eb := endBlock_inv x p5 i5 (by omega)
  obtain ⟨w6, _⟩ := w5.endBlock_leaf (x := x) i5 (by omega) (by rw [k5]; exact leaf_atx) (by rw [k5]; decide)
  generalize p5.endBlock x = p6 at eb w6
  have s6 : p6.state = 2 := by rw [eb.state, s5]; rfl
  exact StartPost.of_consumed w6 s6

theorem startThematicBreak_sp {Q : ParaPred} (x : PExt) (p : LP) (h : Inv p) (hs : p.state = 0) (pre : SPre Q x p) :
    StartPost Q p (startThematicBreak x p) := by
  unfold startThematicBreak
  simp only []
  split
  · exact StartPost.refl pre
  split
  · exact StartPost.refl pre
  rename_i _ hneg
  have hb := parseThematicBreak_le p.bytesAfterIndent (by omega)
  generalize parseThematicBreak p.bytesAfterIndent = e at hb hneg ⊢
  obtain ⟨ci, hdrop, hil⟩ := consumeAll p h
  have w1 := pre.w.ci ci
  have hat1 : ChainAt (p.consumeIndentN p.indent) := ChainAt.of_tree ci.tree pre.at_
  generalize p.consumeIndentN p.indent = p1 at ci hdrop hil w1 hat1 ⊢
  have i1 := ci.inv h
  have s1 := ci.st (by omega)
  have ob := openBlock_inv x p1 BK.thematicBreak id id_kind i1 s1.2 (Or.inl (by decide))
  obtain ⟨w2, t2, _⟩ := w1.openBlock (x := x) BK.thematicBreak id attr_id i1 s1.2
    pre.closeL (Or.inl ⟨by decide, hat1⟩) (by decide) (by decide)
  generalize p1.openBlock x BK.thematicBreak = p2 at ob w2 t2
  have i2 := ob.inv i1
  have s2 := ob.st s1.2
  have e2i : p2.i = p1.i := cur_i ob.cur
  have e2l : p2.line = p1.line := cur_line ob.cur
  have ad := advance_post p2 e.toNat i2.cur (by rw [e2i, e2l, ci.line]; omega)
  have w3 := w2.adv ad
  generalize p2.advance e.toNat = p3 at ad w3
  have i3 := ad.inv i2
  have s3 := ad.st s2.2.1
  have k3 : p3.containerKind = BK.thematicBreak := by rw [ad.ckind, ob.ckind]
  have cl := consumeLine_post p3 i3.cur
  have w5 := w3.cl cl i3.cur
  generalize p3.consumeLine = p5 at cl w5
  have i5 := cl.inv i3
  have s5 := cl.st s3.2
  have k5 : p5.containerKind = BK.thematicBreak := by rw [cl.ckind, k3]
  have eb := endBlock_inv x p5 i5 (by omega)
  obtain ⟨w6, _⟩ := w5.endBlock_leaf (x := x) i5 (by omega) (by rw [k5]; exact leaf_tb) (by rw [k5]; decide)
  generalize p5.endBlock x = p6 at eb w6
  have s6 : p6.state = 2 := by rw [eb.state, s5]; rfl
  exact StartPost.of_consumed w6 s6

end CM.Proofs.BSp
