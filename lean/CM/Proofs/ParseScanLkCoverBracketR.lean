import CM.Proofs.InlCoverBracketR
import CM.Proofs.ParseScanLkRewrite

/-
C03, inline half, with `LinkScan2` / `TokScan2` — the reference-link part of `parseEndBracket` keeps the coverage.
(Generated from `InlCoverBracketR.lean`: the same proofs with `LinkScan2` in the place of `LinkScan`.)
-/

namespace CM.Proofs.InlH2
open CM CM.Model CM.Model.Inl CM.Gen CM.Spec CM.Proofs CM.Proofs.InlH
open Std.Do

set_option mvcgen.warning false

theorem refPart_cov (L : Lims) (c : ICtx) (hc : c.unparsed = c.unparsedL.toArray) (hS : LinkScan2 c L.hi)
    (hC : LinkCover c) (start : Int) (odi : Nat) (opener : DelimE) (kind : Nat) (s0 : IState) :
    ⦃fun s => ⌜s = s0 ∧ SPT L.lo L.hi start s ∧ odi < s0.stack.size ∧ s0.stack[odi]? = some opener ∧
        s0.unparsedPos < c.unparsed.size ∧ start < spanEndOf c s0 ∧ spanEndOf c s0 ≤ L.hi ∧ StkNN c s ∧
        needsCover (c.srcA[start.toNat]!) = false⌝⦄
    refPart c start odi opener kind
    ⦃⇓? r s => ⌜StkNN c s ∧ Keep c s0.nodes s.nodes ∧ CovSeg c s.nodes start r⌝⦄ := by
  mvcgen [refPart, spanEnd, getNode, modifyNode, appendFinished, alloc, delStack, setUnparsedPos, 
    -appendFinished_spec, -appendFinished_specS, -delStack_spec, -delStack_specS, -finishLink_spec, 
    -finishLink_specS, -finishLink_specP, -CM.Proofs.InlH2.refPart_specP, -addLeaf_specP, 
    -CM.Proofs.InlH.refPart_specP, -CM.Proofs.InlH.parseEndBracket_specP, -CM.Proofs.InlH.tokC_specP, 
    -CM.Proofs.InlH.tokA_specP, -CM.Proofs.InlH.tokCode_specP, -CM.Proofs.InlH.tokLt_specP, 
    -CM.Proofs.InlH.runBody_specP, -CM.Proofs.InlH.refPart_specC]
  all_goals (try (exact fun h => h))
  all_goals (try (exact ExceptConds.entails.refl _))
  all_goals rp_setupC
  -- the preconditions of `wrap` and of `addLeaf`; the failure paths
  all_goals (try (first
    | exact (link_wrap_pre' hsp (Same.rfl' _) hodi hx).1
    | exact (link_wrap_pre' hsp (Same.rfl' _) hodi hx).2.1
    | exact (link_wrap_pre' hsp (Same.rfl' _) hodi hx).2.2.1
    | exact (link_wrap_pre' hsp (Same.rfl' _) hodi hx).2.2.2
    | exact ⟨trivial, hsp, by omega, hnn0⟩
    | (obtain ⟨-, g1, g2, g3⟩ := ‹(SPT _ _ (max _ _) _ ∧ _) ∧ _›
       exact ⟨g1.delSt _ _, g2, g3.seg⟩)))
  -- collapsed and shortcut references
  case vc11 | vc39 | vc78 => (
    obtain ⟨hL0, hu1⟩ := LinkInv.wrap' hsp (Same.rfl' _) hodi hx ‹_ = _ ∧ _ = wrapNodes _ _ _ _ _ _ _ _ ∧ _›
    have hC0 := LinkCov.wrap' hsp hnn0 (Same.rfl' _) hodi hx ‹_ = _ ∧ _ = wrapNodes _ _ _ _ _ _ _ _ ∧ _›
    have hfin := ‹∀ (lo hi : Int) (o N : Nat) (K E : Int), LinkInv lo hi o N _ K E true _ → _›
    refine link_goal (hfin _ _ _ _ _ _ (hL0.respan _ ?_ ?_ (fun _ => _)) (hC0.respanA _ _ (fun _ => _)).nn) (hC0.respanA _ _ (fun _ => _)) ?_
    all_goals first
      | omega
      | (intro j h1 h2 _ hj
         first
         | exact (noNeed_byte hb0) j h1 h2 hj
         | exact (((noNeed_byte hb0).append (noNeed_of_eq (And.right (And.right (And.right ‹_ < spanEndOf c _ ∧ _›)))
             (by decide +kernel))).append (noNeed_of_beq (b := 93) (by
               have := And.right (And.right ‹(0 : Int) ≤ start + 2 ∧ _›)
               rw [show start + 1 + 1 = start + 2 by omega]; exact this) (by decide +kernel))) j h1
             (by omega) hj))
  -- full references
  all_goals (
    simp -failIfUnchanged +zetaDelta only [] at *
    obtain ⟨hL0, hu1⟩ := LinkInv.wrap' hsp (Same.rfl' _) hodi hx ‹_ = _ ∧ _ = wrapNodes _ _ _ _ _ _ _ _ ∧ _›
    have hC0 := LinkCov.wrap' hsp hnn0 (Same.rfl' _) hodi hx ‹_ = _ ∧ _ = wrapNodes _ _ _ _ _ _ _ _ ∧ _›
    have hfin := ‹∀ (lo hi : Int) (o N : Nat) (K E : Int), LinkInv lo hi o N _ K E true _ → _›
    have hvalid := ‹(!SpanI.isValid _) = false›
    simp only [Bool.not_eq_false'] at hvalid
    obtain ⟨-, g0, g1, g2⟩ := ‹_ < spanEndOf c _ ∧ (0 : Int) ≤ _ ∧ _ < (c.srcA.size : Int) ∧ _ = (91 : UInt8)›
    obtain ⟨l1, l2, l3, l4, l5⟩ := hS.label _ (start + 1) _ _ g0 g1 g2 (Prod.eta _).symm hvalid
    have hcv := hC.label _ (start + 1) _ _ g0 g1 g2 (Prod.eta _).symm hvalid
    refine link_goal (hfin _ _ _ _ _ _ ((hL0.appendKid _ rfl ?_ ?_ ?_ ?_).respan _ ?_ ?_ (fun r => r))
      ((hC0.appendKid _).respanA _ _ (fun r => r)).nn) ((hC0.appendKid _).respanA _ _ (fun r => r)) ?_
    all_goals first
      | omega
      | (dsimp only; omega)
      | exact l4
      | exact Int.le_refl _
      | (intro j h1 h2 hr hj
         rcases Int.lt_or_le j (start + 1) with h' | h'
         · exact absurd hj (noNeed_byte hb0 j h1 h')
         · exact Or.inr ((hcv j h' h2 hr hj).covN _ rfl rfl rfl rfl)))

@[spec 41000]
theorem refPart_specC (L : Lims) (c : ICtx) (hc : c.unparsed = c.unparsedL.toArray) (hS : LinkScan2 c L.hi)
    (hC : LinkCover c) (start : Int) (odi : Nat) (opener : DelimE) (kind : Nat) (s0 : IState) :
    ⦃fun s => ⌜s = s0 ∧ SPT L.lo L.hi start s ∧ odi < s0.stack.size ∧ s0.stack[odi]? = some opener ∧
        s0.unparsedPos < c.unparsed.size ∧ start < spanEndOf c s0 ∧ spanEndOf c s0 ≤ L.hi ∧ StkNN c s ∧
        needsCover (c.srcA[start.toNat]!) = false⌝⦄
    refPart c start odi opener kind
    ⦃⇓? r s => ⌜(SPT L.lo L.hi r s ∧ start < r ∧ PosOK c s r) ∧
        StkNN c s ∧ Keep c s0.nodes s.nodes ∧ CovSeg c s.nodes start r⌝⦄ :=
  triple_and (refPart_specP L c hc hS start odi opener kind s0) (refPart_cov L c hc hS hC start odi opener kind s0)
    fun _ h => ⟨⟨h.1, h.2.1, h.2.2.1, h.2.2.2.1, h.2.2.2.2.1, h.2.2.2.2.2.1, h.2.2.2.2.2.2.1⟩, h⟩

end CM.Proofs.InlH2
