import CM.Proofs.BlocksContractPara
/-
C01 contract for the real block parser — the inline byte reader over the text of a paragraph child of the document.

The text consists of non-empty Unparsed nodes that tile `[a, b)` (`ContigL`), so the reader is a plain byte pointer:
`RW b r` says the reader is inside the text (`pos < b`, its remaining nodes tile `[a', b)` with `a' ≤ pos`) or at its
end (`pos = b`, no nodes left).
-/
namespace CM.Proofs
open CM CM.Model CM.Gen

/-- The invariant of the reader over a text that ends at `b`. -/
structure RW (b : Nat) (r : Rd) : Prop where
  sp : (∃ a', ContigL r.spans a' b ∧ a' ≤ r.pos ∧ r.pos < b) ∨ (r.spans = [] ∧ r.pos = b)
  pv : r.prev + 1 ≤ (r.pos : Int)
  vp : r.vpos < 3
  /-- at the end of the text, the previous position is its last byte -/
  pe : r.pos = b → r.prev + 1 = (b : Int)

/-- The byte `current` returns at `pos` when the reader is not in an Indent node: the source byte, or a byte of U+FFFD
    for a (padded) NUL. -/
def CurB (src : Bytes) (pos : Nat) (c : UInt8) : Prop :=
  (src.getD pos 0 ≠ 0 ∧ c = src.getD pos 0) ∨ (src.getD pos 0 = 0 ∧ (c = 239 ∨ c = 191 ∨ c = 189))

theorem isIndent_of_unparsed {t : Tree} (h : Node.isI t IK.unparsed = true) : isIndent t = false := by
  unfold isIndent Node.isI at *
  simp only [Bool.and_eq_true, Bool.not_eq_true', beq_iff_eq] at h
  simp only [h.1, h.2, Bool.not_false, Bool.true_and]
  decide

theorem spanContains_of {t : Tree} {a c pos : Nat} (h1 : t.label.start = (a : Int)) (h2 : t.label.stop = (c : Int))
    (h3 : a ≤ pos) (h4 : pos < c) : spanContains t pos = true := by
  unfold spanContains Node.spanValid
  simp only [h1, h2, Bool.and_eq_true, decide_eq_true_eq]
  omega

theorem spanContains_false_of {t : Tree} {c pos : Nat} (h2 : t.label.stop = (c : Int)) (h4 : c ≤ pos) :
    spanContains t pos = false := by
  unfold spanContains
  have : ¬ ((pos : Int) < t.label.stop) := by rw [h2]; omega
  simp [this]

/-- In a tiling that covers `pos`, `nodeIndexForPosition` finds the node containing it. -/
theorem nodeIndex_contig : ∀ {l : List Tree} {a' b pos : Nat} (k : Nat), ContigL l a' b → a' ≤ pos → pos < b →
    ∃ (i : Nat) (t : Tree) (rest : List Tree) (s e : Nat), nodeIndexForPosition l pos k = some (k + i) ∧ l.drop i = t :: rest ∧ ContigL (t :: rest) s b ∧
      s ≤ pos ∧ t.label.stop = (e : Int) ∧ pos < e := by
  intro l
  induction l with
  | nil => intro a' b pos k h h1 h2; have : a' = b := h; omega
  | cons t rest ih =>
    intro a' b pos k h h1 h2
    obtain ⟨t1, t2, c, t3, t4, t5⟩ := h
    simp only [nodeIndexForPosition]
    rw [if_neg (by rw [t1]; omega)]
    by_cases hc : pos < c
    · rw [if_pos (spanContains_of t1 t3 h1 hc)]
      exact ⟨0, t, rest, a', c, rfl, rfl, ⟨t1, t2, c, t3, t4, t5⟩, h1, t3, hc⟩
    · rw [if_neg (by rw [spanContains_false_of t3 (by omega)]; simp)]
      obtain ⟨i, t', rest', s, e, i1, i2, i3, i4, i5, i6⟩ := ih (k + 1) t5 (by omega) h2
      exact ⟨i + 1, t', rest', s, e, by rw [i1]; congr 1; omega, by simpa using i2, i3, i4, i5, i6⟩

/-- Past the end of a tiling, `nodeIndexForPosition` finds nothing. -/
theorem nodeIndex_contig_none : ∀ {l : List Tree} {a' b pos : Nat} (k : Nat), ContigL l a' b → b ≤ pos →
    nodeIndexForPosition l pos k = none := by
  intro l
  induction l with
  | nil => intro a' b pos k _ _; rfl
  | cons t rest ih =>
    intro a' b pos k h h1
    obtain ⟨t1, t2, c, t3, t4, t5⟩ := h
    have hcb := t5.le
    simp only [nodeIndexForPosition]
    rw [if_neg (by rw [t1]; omega), if_neg (by rw [spanContains_false_of t3 (by omega)]; simp)]
    exact ih (k + 1) t5 h1

/-! ### currentNode -/

/-- Inside the text: the node found is Unparsed and is the head of the remaining nodes. -/
theorem currentNode_inside {b : Nat} {r : Rd} {a' : Nat} (hc : ContigL r.spans a' b) (h1 : a' ≤ r.pos) (h2 : r.pos < b) :
    ∃ (t : Tree) (rest : List Tree) (s e : Nat), r.currentNode = (some t, { r with spans := t :: rest }) ∧ ContigL (t :: rest) s b ∧ s ≤ r.pos ∧
      t.label.stop = (e : Int) ∧ r.pos < e ∧ isIndent t = false := by
  obtain ⟨i, t, rest, s, e, i1, i2, i3, i4, i5, i6⟩ := nodeIndex_contig 0 hc h1 h2
  rw [Nat.zero_add] at i1
  refine ⟨t, rest, s, e, ?_, i3, i4, i5, i6, isIndent_of_unparsed i3.2.1⟩
  rw [currentNode_some_eq i1, i2]
  rfl

theorem currentNode_end {r : Rd} (h : r.spans = []) : r.currentNode = (none, r) := by
  have hn : nodeIndexForPosition r.spans r.pos 0 = none := by rw [h]; rfl
  rw [currentNode_none_eq hn]
  cases r; simp only at h; subst h; rfl

/-! ### current -/

theorem repl_getD (v : Nat) (h : v < 3) : nullReplacementString.getD v 0 = 239 ∨ nullReplacementString.getD v 0 = 191 ∨
    nullReplacementString.getD v 0 = 189 := by
  have : v = 0 ∨ v = 1 ∨ v = 2 := by omega
  rcases this with rfl | rfl | rfl <;> decide

theorem RW.current {b : Nat} {r : Rd} (src : Bytes) (h : RW b r) (hb : b ≤ src.length) :
    RW b (r.current src).2 ∧ (r.current src).2.pos = r.pos ∧ (r.current src).2.prev = r.prev ∧
    (r.pos < b → CurB src r.pos (r.current src).1) ∧
    (r.pos = b → (r.current src).2 = r) := by
  rcases h.sp with ⟨a', hc, h1, h2⟩ | ⟨he, hp⟩
  · obtain ⟨t, rest, s, e, k1, k2, k3, k4, k5, k6⟩ := currentNode_inside hc h1 h2
    have hlt : ¬ r.pos ≥ src.length := by omega
    have hcur : r.current src = (if src.getD r.pos 0 == 0 then nullReplacementString.getD r.vpos 0 else src.getD r.pos 0,
        { r with spans := t :: rest }) := by
      unfold Rd.current
      rw [if_neg hlt, k1]
      simp only [k6, Bool.false_eq_true, if_false]
      split <;> rfl
    rw [hcur]
    refine ⟨⟨Or.inl ⟨s, k2, k3, h2⟩, h.pv, h.vp, h.pe⟩, rfl, rfl, fun _ => ?_, fun hp => by omega⟩
    by_cases h0 : src.getD r.pos 0 = 0
    · right
      refine ⟨h0, ?_⟩
      simp only [h0, beq_self_eq_true, if_true]
      exact repl_getD r.vpos h.vp
    · left
      refine ⟨h0, ?_⟩
      have : (src.getD r.pos 0 == 0) = false := by simpa using h0
      simp only [this, Bool.false_eq_true, if_false]
  · have hcn := currentNode_end he
    have hsame : (r.current src).2 = r := by
      unfold Rd.current
      split
      · rfl
      · rw [hcn]
        simp only
        split <;> rfl
    rw [hsame]
    exact ⟨h, rfl, rfl, fun hlt => by omega, fun _ => rfl⟩

/-! ### next -/

theorem nextTextNode_cons {t : Tree} {rest : List Tree} (h : Node.isI t IK.unparsed = true) :
    nextTextNode (t :: rest) = some (t, t :: rest) := by
  simp [nextTextNode, h]

theorem computeNullVirtualPosition_lt (src : Bytes) (p : Nat) : computeNullVirtualPosition src p < 3 := by
  unfold computeNullVirtualPosition
  split
  · omega
  · exact Nat.mod_lt _ (by decide)

/-- `next` on the text: one byte forward, or the end. -/
theorem RW.next {b : Nat} {r : Rd} (src : Bytes) (h : RW b r) :
    RW b (r.next src).2 ∧
    ((r.next src).1 = true → r.pos < b ∧ (r.next src).2.pos = r.pos + 1 ∧ (r.next src).2.prev = (r.pos : Int) ∧
      (r.next src).2.pos < b) ∧
    ((r.next src).1 = false → (r.next src).2.pos = b ∧ (r.next src).2.spans = [] ∧
      (r.pos < b → r.pos + 1 = b ∧ (r.next src).2.prev = (r.pos : Int)) ∧ (r.pos = b → (r.next src).2 = r)) := by
  rcases h.sp with ⟨a', hc, h1, h2⟩ | ⟨he, hp⟩
  · obtain ⟨t, rest, s, e, k1, k2, k3, k4, k5, k6⟩ := currentNode_inside hc h1 h2
    obtain ⟨t1, t2, c, t3, t4, t5⟩ := k2
    have hce : c = e := by have := t3.symm.trans k4; omega
    subst hce
    unfold Rd.next
    rw [k1]
    simp only [k6, Bool.false_eq_true, Bool.false_and, if_false, Bool.not_false, Bool.true_and]
    by_cases hin : ((r.pos + 1 : Nat) : Int) < t.label.stop
    · rw [if_pos (by simpa using hin)]
      have hlt : r.pos + 1 < c := by rw [t3] at hin; omega
      have hcb' := t5.le
      refine ⟨⟨Or.inl ⟨s, ⟨t1, t2, c, t3, t4, t5⟩, ?a, ?b⟩, ?c, ?d, ?e⟩, fun _ => ⟨h2, rfl, rfl, ?f⟩, fun hf => (by cases hf)⟩
      case a => show s ≤ r.pos + 1; omega
      case b => show r.pos + 1 < b; omega
      case c => show (r.pos : Int) + 1 ≤ ((r.pos + 1 : Nat) : Int); omega
      case d =>
        show (if src.getD r.pos 1 == 0 && src.getD (r.pos + 1) 1 == 0 then (r.vpos + 1) % nullReplacementString.length else 0) < 3
        split
        · exact Nat.mod_lt _ (by decide)
        · omega
      case e =>
        intro hpb
        have hpb' : r.pos + 1 = b := hpb
        omega
      case f => show r.pos + 1 < b; omega
    · rw [if_neg (by simpa using hin)]
      have hpe : r.pos + 1 = c := by rw [t3] at hin; omega
      simp only [List.drop_succ_cons, List.drop_zero]
      cases rest with
      | nil =>
        have hcb : c = b := t5
        rw [show nextTextNode ([] : List Tree) = none from rfl]
        refine ⟨⟨Or.inr ⟨rfl, ?_⟩, ?_, h.vp, fun _ => ?_⟩, fun hf => (by cases hf),
          fun _ => ⟨?_, rfl, fun _ => ⟨by omega, rfl⟩, fun hp => by omega⟩⟩
        · show r.pos + 1 = b; omega
        · show (r.pos : Int) + 1 ≤ ((r.pos + 1 : Nat) : Int); omega
        · show (r.pos : Int) + 1 = (b : Int); omega
        · show r.pos + 1 = b; omega
      | cons t' rest' =>
        obtain ⟨u1, u2, c', u3, u4, u5⟩ := t5
        rw [nextTextNode_cons u2]
        have hst : t'.label.start.toNat = c := by rw [u1]; simp
        have hcb' := u5.le
        refine ⟨⟨Or.inl ⟨c, ⟨u1, u2, c', u3, u4, u5⟩, ?a, ?b⟩, ?c, computeNullVirtualPosition_lt _ _, fun hpb => ?e⟩,
          fun _ => ⟨h2, ?f, rfl, ?g⟩, fun hf => (by cases hf)⟩
        case a => show c ≤ t'.label.start.toNat; omega
        case b => show t'.label.start.toNat < b; omega
        case c => show (r.pos : Int) + 1 ≤ ((t'.label.start.toNat : Nat) : Int); omega
        case e =>
          have hpb' : t'.label.start.toNat = b := hpb
          omega
        case f => show t'.label.start.toNat = r.pos + 1; omega
        case g => show t'.label.start.toNat < b; omega
  · have hcn := currentNode_end he
    have hsame : r.next src = (false, r) := by
      unfold Rd.next
      rw [hcn]
    rw [hsame]
    exact ⟨h, fun hf => by simp at hf, fun _ => ⟨hp, he, fun hlt => by omega, fun _ => rfl⟩⟩

end CM.Proofs
