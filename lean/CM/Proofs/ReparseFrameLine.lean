import CM.Proofs.ReparseFrameLP
/-
C16, Layer B, part 3: `LF` (the frame property of the first child of the document) for the block starts, the opening
loop, `addLineText`, `descendOpenBlocks` and `processLine`.
-/
namespace CM.Proofs.Rp
open CM CM.Model CM.Gen CM.Proofs

/-- One backward step through an operation of the line parser. -/
macro "lf_step" : tactic => `(tactic| with_reducible first
  | assumption
  | exact LF.refl _
  | apply lf_advance
  | apply lf_consumeIndentN
  | apply lf_consumeLine
  | apply lf_openBlock
  | apply lf_collectInline
  | apply lf_setContainerIndent
  | apply lf_endBlock
  | apply lf_closeLastChild
  | apply lf_closeContainer
  | apply lf_appendInline
  | apply lf_setPanic)

macro "lf" : tactic => `(tactic| repeat' (first | lf_step | split))

/-! ### The block starts -/

theorem lfs_blockQuote (x : PExt) (p : LP) : LF p (startBlockQuote x p) := by
  unfold startBlockQuote; simp only []; lf

theorem lfs_atx (x : PExt) (p : LP) : LF p (startATX x p) := by
  unfold startATX; simp only []; lf

theorem lfs_fenced (x : PExt) (p : LP) : LF p (startFenced x p) := by
  unfold startFenced; simp only []; lf

theorem lfs_htmlLoop (x : PExt) (line : Bytes) : ∀ (fuel i : Nat) (p : LP), LF p (htmlStartLoop x line fuel i p) := by
  intro fuel
  induction fuel with
  | zero => intro i p; exact LF.refl _
  | succ fuel ih =>
    intro i p
    unfold htmlStartLoop
    split
    · exact LF.refl _
    · split
      · simp only []; lf
      · exact ih _ _

theorem lfs_html (x : PExt) (p : LP) : LF p (startHTML x p) := by
  unfold startHTML; simp only []
  split
  · exact LF.refl _
  · split
    · exact LF.refl _
    · exact lfs_htmlLoop x _ _ _ _

theorem lfs_setext (x : PExt) (p : LP) : LF p (startSetext x p) := by
  unfold startSetext
  split
  · exact LF.refl _
  · rename_i hk
    have hk' : p.containerKind = BK.paragraph := by simpa using hk
    simp only []
    split
    · exact LF.refl _
    · split
      · exact LF.refl _
      · apply lf_endBlock
        apply lf_consumeLine
        exact lf_setext _ hk' (LF.refl _)

theorem lfs_thematic (x : PExt) (p : LP) : LF p (startThematicBreak x p) := by
  unfold startThematicBreak; simp only []; lf

theorem lfs_listItem (x : PExt) (p : LP) : LF p (startListItem x p) := by
  unfold startListItem; simp only []; lf

theorem lfs_indented (x : PExt) (p : LP) : LF p (startIndentedCode x p) := by
  unfold startIndentedCode; lf

theorem lfs_all (x : PExt) : ∀ f ∈ blockStartFns x, ∀ p : LP, LF p (f p) := by
  intro f hf p
  simp only [blockStartFns, List.mem_cons, List.mem_nil_iff, or_false] at hf
  rcases hf with rfl | rfl | rfl | rfl | rfl | rfl | rfl | rfl
  · exact lfs_blockQuote x p
  · exact lfs_atx x p
  · exact lfs_fenced x p
  · exact lfs_html x p
  · exact lfs_setext x p
  · exact lfs_thematic x p
  · exact lfs_listItem x p
  · exact lfs_indented x p

/-! ### The opening loop -/

theorem lf_tryStarts (x : PExt) : ∀ (fs : List (LP → LP)), (∀ f ∈ fs, f ∈ blockStartFns x) → ∀ p : LP, LF p (tryStarts fs p) := by
  intro fs
  induction fs with
  | nil => intro _ p; exact LF.refl _
  | cons f rest ih =>
    intro hfs p
    unfold tryStarts
    have h1 : LF p (f { p with state := stateOpening }) :=
      (lf_setState _ (LF.refl p)).trans (lfs_all x f (hfs f (by simp)) _)
    simp only []
    split
    · exact h1
    · exact h1.trans (ih (fun g hg => hfs g (by simp [hg])) _)

theorem lf_openingLoop (x : PExt) : ∀ (fuel : Nat) (p : LP), LF p (openingLoop x fuel p).2 := by
  intro fuel
  induction fuel with
  | zero => intro p; exact LF.refl _
  | succ fuel ih =>
    intro p
    unfold openingLoop
    split
    · exact LF.refl _
    · have h1 := lf_tryStarts x (blockStartFns x) (fun _ h => h) p
      simp only []
      split
      · exact h1.trans (ih _)
      · split
        · exact h1
        · exact h1

theorem lf_openNewBlocks (x : PExt) (p : LP) (am : Bool) : LF p (openNewBlocks x p am).2 := by
  unfold openNewBlocks
  split
  · exact lf_closeContainer x _ (lf_setDepth 0 (LF.refl p))
  · have h1 := lf_openingLoop x (p.line.length + 8) p
    generalize openingLoop x (p.line.length + 8) p = r at h1
    obtain ⟨ht, q⟩ := r
    simp only at h1 ⊢
    split
    · exact h1
    · split
      · exact lf_setDepth _ h1
      · exact lf_closeLastChild x _ h1

/-! ### `addLineText` -/

theorem lf_altPrep (p : LP) : LF p (altPrep p) := by
  unfold altPrep
  simp only []
  have hflag : LF p { p with root := spineModify flagLast p.root p.depth } := by
    intro _
    exact rf_spineModify _ _ _ (fun _ => rf_flagLast _) (fun _ c _ => KF.of_label (flagLast_label c))
  have hsb : ∀ (v : Bool) (q : LP), LF q { q with root := setBlankFlags v q.root q.depth } :=
    fun v q _ => rf_setBlankFlags v q.root q.depth
  split
  · exact hflag.trans (hsb _ _)
  · exact hsb _ _

theorem lf_altCont (x : PExt) (b : Bool) (p q : LP) (e : altCont x b p = some q) : LF p q := by
  unfold altCont at e
  simp only [] at e
  split at e
  · split at e
    · simp only [Option.some.injEq] at e; subst e; lf
    · simp only [Option.some.injEq] at e; subst e; exact LF.refl _
  · split at e
    · simp only [Option.some.injEq] at e; subst e; lf
    · cases e

theorem lf_altFinish (p : LP) : LF p (altFinish p) := by
  unfold altFinish; simp only []; lf

theorem lf_addLineText (x : PExt) (p : LP) : LF p (addLineText x p) := by
  rw [addLineText_eq]
  cases hc : altCont x p.isRestBlank (altPrep p) with
  | none => exact lf_altPrep p
  | some q => exact (lf_altPrep p).trans ((lf_altCont x _ _ _ hc).trans (lf_altFinish q))

/-! ### `descendOpenBlocks` and `processLine` -/

theorem lf_ruleMatch (x : PExt) (kind : Nat) (p : LP) {ok : Bool} {p' : LP} (e : ruleMatch x kind p = some (ok, p')) :
    LF p p' := by
  unfold ruleMatch at e
  split at e
  · cases e; exact LF.refl _
  · split at e
    · -- list item
      split at e
      · split at e
        · cases e; exact LF.refl _
        · cases e; lf
      · split at e
        · split at e
          · cases e; lf
          · cases e; exact LF.refl _
        · cases e; exact LF.refl _
    · split at e
      · -- block quote
        simp only at e
        split at e
        · cases e; exact LF.refl _
        · split at e
          · cases e; exact LF.refl _
          · cases e; lf
      · split at e
        · -- fenced code
          simp only at e
          split at e
          · cases e; lf
          · cases e; lf
        · split at e
          · -- indented code
            simp only at e
            split at e
            · split at e
              · cases e; exact LF.refl _
              · cases e; lf
            · cases e; lf
          · split at e
            · -- HTML block
              split at e
              · split at e
                · cases e; exact LF.refl _
                · cases e; lf
              · cases e; exact LF.refl _
            · split at e
              · cases e; exact LF.refl _
              · cases e

theorem lf_descendLoop (x : PExt) : ∀ (fuel : Nat) (p : LP) (parent : Nat), LF p (descendLoop x fuel p parent).2 := by
  intro fuel
  induction fuel with
  | zero => intro p parent; exact lf_setDepth _ (LF.refl p)
  | succ fuel ih =>
    intro p parent
    unfold descendLoop
    split
    · exact lf_setDepth _ (LF.refl p)
    · rename_i c hc
      split
      · exact lf_setDepth _ (LF.refl p)
      · simp only []
        split
        · exact lf_setDepth _ (LF.refl p)
        · rename_i ok q hm
          have h1 : LF p q := (LF.of_root (p' := { p with depth := parent + 1, state := stateDescending }) rfl).trans
            (lf_ruleMatch x _ _ hm)
          split
          · exact lf_setDepth _ (lf_closeContainer x _ h1)
          · split
            · exact lf_setDepth _ h1
            · exact h1.trans (ih _ _)

theorem lf_processLine (x : PExt) (p : LP) : LF p (processLine x p) := by
  unfold processLine
  have h1 : LF p (descendOpenBlocks x p).2 := lf_descendLoop x _ p 0
  generalize descendOpenBlocks x p = r at h1
  obtain ⟨am, q⟩ := r
  simp only at h1 ⊢
  split
  · exact h1
  · have h2 := lf_openNewBlocks x q am
    generalize openNewBlocks x q am = r2 at h2
    obtain ⟨ht, q2⟩ := r2
    simp only at h2 ⊢
    split
    · exact (h1.trans h2).trans (lf_addLineText x q2)
    · exact h1.trans h2

/-- **The frame property of one line.** For any parser state whose root is a document block and any line: after
    `reset` + `processLine` the first child of the document is still there — unchanged if it had a sibling after it;
    of the same kind if it is not a paragraph. -/
theorem rf_line (x : PExt) (σ : LP) (src : Bytes) (ls : Nat) (hk : σ.root.label.kind = BK.document) :
    RF σ.root ((blocksLP x).line σ src ls).root := by
  have h := lf_processLine x (σ.reset src ls)
  have hr : (σ.reset src ls).root = σ.root := (reset_fields σ src ls).1
  have := h (by rw [hr]; exact hk)
  rw [hr] at this
  exact this

end CM.Proofs.Rp
