import CM.Proofs.InlSpanWrap
/-
C02, inline half — frame facts: `processEmphasis` and `wrap` leave `unparsedPos` and `ignoreNextIndent` alone.
-/
namespace CM.Proofs.InlH
open CM CM.Model CM.Model.Inl CM.Gen
open Std.Do

set_option mvcgen.warning false

/-- values of `unparsedPos` and `ignoreNextIndent` (one structure, so that `mvcgen` finds the instance) -/
structure FRp where
  u : Nat
  g : Bool

/-- the part of the state the tree operations do not touch -/
def FI (r : FRp) (s : IState) : Prop := s.unparsedPos = r.u ∧ s.ignoreNextIndent = r.g

theorem Post.and {α} {P P' : IState → Prop} {m : IM α} {Q Q' : α → IState → Prop} (h : Post P m Q) (h' : Post P' m Q') :
    Post (fun s => P s ∧ P' s) m (fun a s => Q a s ∧ Q' a s) := by
  intro s hs
  have h1 := h s hs.1
  have h2 := h' s hs.2
  cases hr : m.run s with
  | error e => trivial
  | ok p => rw [hr] at h1 h2; exact ⟨h1, h2⟩

theorem wrap_frame (kind sn : Nat) (en : Option Nat) (r : FRp) :
    ⦃fun s => ⌜FI r s⌝⦄ wrap kind sn en ⦃⇓? _ s => ⌜FI r s⌝⦄ := by
  mvcgen [wrap, alloc, setParent, modifyNode, -wrap_exact', -wrap_spec, -wrap_specS]
  inl_inv (FI r)
  inl_norm
  all_goals (first | assumption | exact fun h => h | exact False.elim)

theorem processEmphasis_frame (b : Nat) (r : FRp) :
    ⦃fun s => ⌜FI r s⌝⦄ processEmphasis b ⦃⇓? _ s => ⌜FI r s⌝⦄ := by
  mvcgen [Inl.processEmphasis, nodeLen, getNode, modifyNode, delStack, removeNode, setParent, wrap_frame,
    -processEmphasis_spec, -processEmphasis_specS, -delStack_spec, -delStack_specS, -removeNode_spec, -removeNode_specS,
    -wrap_exact', -wrap_spec, -wrap_specS]
  inl_inv (FI r)
  inl_norm
  all_goals (first | assumption | exact fun h => h | exact False.elim | exact ExceptConds.entails.refl _)

end CM.Proofs.InlH
