import CM.Proofs.EolTag3
import CM.Proofs.EolStarts2
/-
HTML block start condition 7 and the line ending, part 4 — the concrete readers of `htmlStart7` on a line `y` and on
`y ++ [c]` (`c` a CR or LF byte) satisfy the interface of parts 1–3, hence

  `htmlStart7 (y ++ [c]) = htmlStart7 y`   for EVERY byte list `y`,

and `Start7Inv`: start condition 7 returns the same answer on `l`, `l ++ [LF]`, `l ++ [CR, LF]`, `l ++ [CR]`.
-/
namespace CM.Proofs
open CM CM.Model CM.Gen

/-- The fake `Unparsed` node `[1, M)` of `htmlStart7`. -/
def fk (M : Nat) : Tree := mkInline IK.unparsed 1 (M : Int)

/-! ### The reader over one node -/

theorem fk_label (M : Nat) : (fk M).label = { isBlock := false, kind := IK.unparsed, start := 1, stop := (M : Int) } := rfl

theorem spanContains_fk (M q : Nat) : spanContains (fk M) q = (decide (1 ≤ q) && decide (q < M)) := by
  unfold spanContains Node.spanValid
  rw [fk_label]
  simp only []
  rw [Bool.eq_iff_iff]
  simp only [Bool.and_eq_true, decide_eq_true_eq]
  omega

theorem nodeIndex_fk (M q : Nat) : nodeIndexForPosition [fk M] q 0 = if 1 ≤ q ∧ q < M then some 0 else none := by
  unfold nodeIndexForPosition
  rw [spanContains_fk, fk_label]
  simp only []
  by_cases h1 : (1 : Int) > (q : Int)
  · rw [if_pos h1, if_neg (by omega)]
  · rw [if_neg h1]
    by_cases h2 : 1 ≤ q ∧ q < M
    · rw [if_pos h2, if_pos (by simp [h2])]
    · rw [if_neg h2]
      have : (decide (1 ≤ q) && decide (q < M)) = false := by
        rw [Bool.eq_false_iff]; intro h; apply h2; simpa using h
      rw [this]
      simp [nodeIndexForPosition]

theorem currentNode_in (M q v : Nat) (pv : Int) (h1 : 1 ≤ q) (h2 : q < M) :
    (Rd.mk [fk M] q v pv).currentNode = (some (fk M), Rd.mk [fk M] q v pv) := by
  simp only [Rd.currentNode, nodeIndex_fk, h1, h2, and_self, if_true]
  rfl

theorem currentNode_out (M q v : Nat) (pv : Int) (h : M ≤ q ∨ q < 1) :
    (Rd.mk [fk M] q v pv).currentNode = (none, Rd.mk [] q v pv) := by
  have : ¬ (1 ≤ q ∧ q < M) := by omega
  simp only [Rd.currentNode, nodeIndex_fk, this, if_false]

theorem currentNode_nil (q v : Nat) (pv : Int) : (Rd.mk [] q v pv).currentNode = (none, Rd.mk [] q v pv) := by
  simp [Rd.currentNode, nodeIndexForPosition]

theorem isIndent_fk (M : Nat) : isIndent (fk M) = false := rfl

/-- The byte `current` reports at an in-range position. -/
def byteAt (src : Bytes) (q v : Nat) : UInt8 :=
  if src.getD q 0 == 0 then nullReplacementString.getD v 0 else src.getD q 0

theorem current_in (src : Bytes) (M q v : Nat) (pv : Int) (h1 : 1 ≤ q) (h2 : q < M) (h3 : q < src.length) :
    (Rd.mk [fk M] q v pv).current src = (byteAt src q v, Rd.mk [fk M] q v pv) := by
  unfold Rd.current
  rw [if_neg (by show ¬ q ≥ src.length; omega), currentNode_in M q v pv h1 h2]
  simp only [isIndent_fk, Bool.false_eq_true, if_false, byteAt]
  split <;> rfl

/-- The virtual position after a step. -/
def nextV (src : Bytes) (q v : Nat) : Nat :=
  if src.getD q 1 == 0 && src.getD (q + 1) 1 == 0 then (v + 1) % nullReplacementString.length else 0

theorem next_in (src : Bytes) (M q v : Nat) (pv : Int) (h1 : 1 ≤ q) (h2 : q + 1 < M) :
    (Rd.mk [fk M] q v pv).next src = (true, Rd.mk [fk M] (q + 1) (nextV src q v) q) := by
  unfold Rd.next
  rw [currentNode_in M q v pv h1 (by omega)]
  simp only [isIndent_fk, Bool.false_and, Bool.false_eq_true, if_false, Bool.not_false, Bool.true_and]
  have hlt : decide (((q + 1 : Nat) : Int) < (fk M).label.stop) = true := by
    rw [fk_label]; simp only [decide_eq_true_eq]; omega
  rw [if_pos hlt]
  rfl

theorem next_last (src : Bytes) (M q v : Nat) (pv : Int) (h1 : 1 ≤ q) (h2 : q + 1 = M) :
    (Rd.mk [fk M] q v pv).next src = (false, Rd.mk [] (q + 1) v q) := by
  unfold Rd.next
  rw [currentNode_in M q v pv h1 (by omega)]
  simp only [isIndent_fk, Bool.false_and, Bool.false_eq_true, if_false, Bool.not_false, Bool.true_and]
  have hlt : ¬ decide (((q + 1 : Nat) : Int) < (fk M).label.stop) = true := by
    rw [fk_label]; simp only [decide_eq_true_eq]; omega
  rw [if_neg hlt]
  rfl

theorem next_out (src : Bytes) (M q v : Nat) (pv : Int) (h : M ≤ q ∨ q < 1) :
    (Rd.mk [fk M] q v pv).next src = (false, Rd.mk [] q v pv) := by
  unfold Rd.next
  rw [currentNode_out M q v pv h]

theorem next_nil (src : Bytes) (q v : Nat) (pv : Int) : (Rd.mk [] q v pv).next src = (false, Rd.mk [] q v pv) := by
  unfold Rd.next
  rw [currentNode_nil]

/-! ### The two readers -/

section
variable (y : Bytes) (c : UInt8)

/-- Both readers alive at the same position inside `y`. -/
def tagL (a b : Rd) : Prop :=
  ∃ (q v : Nat) (pv : Int), 1 ≤ q ∧ q < y.length ∧ a = Rd.mk [fk (y.length + 1)] q v pv ∧ b = Rd.mk [fk y.length] q v pv

/-- The reader over `y ++ [c]` at or after the appended byte. -/
def tagD1 (a : Rd) : Prop := y.length ≤ a.pos ∧ (a.spans = [fk (y.length + 1)] ∨ a.spans = [])

/-- The reader over `y` at its end. -/
def tagD2 (b : Rd) : Prop := y.length ≤ b.pos ∧ (b.spans = [fk y.length] ∨ b.spans = [])

theorem getD_snoc_lt (q : Nat) (d : UInt8) (h : q < y.length) : (y ++ [c]).getD q d = y.getD q d := by
  simp only [List.getD_eq_getElem?_getD]
  rw [List.getElem?_append_left h]

theorem tag_dead2 : DeadRd y (tagD2 y) := by
  constructor
  · intro a ⟨h1, h2⟩
    have : a.current y = (0, a) := by
      unfold Rd.current
      rw [if_pos (by show a.pos ≥ y.length; omega)]
    rw [this]
    exact ⟨Or.inl rfl, h1, h2⟩
  · intro a ⟨h1, h2⟩
    obtain ⟨sp, q, v, pv⟩ := a
    simp only at h1 h2
    rcases h2 with h | h <;> subst h
    · rw [next_out y _ q v pv (Or.inl h1)]
      exact ⟨rfl, h1, Or.inr rfl⟩
    · rw [next_nil]
      exact ⟨rfl, h1, Or.inr rfl⟩

theorem tag_dead1 (hc : isNL c = true) : DeadRd (y ++ [c]) (tagD1 y) := by
  have hc0 : (c == 0) = false := by
    have : c = 0x0A ∨ c = 0x0D := by simpa [isNL] using hc
    rcases this with h | h <;> subst h <;> decide
  have hget : (y ++ [c]).getD y.length 0 = c := by
    simp [List.getD_eq_getElem?_getD]
  constructor
  · intro a ⟨h1, h2⟩
    obtain ⟨sp, q, v, pv⟩ := a
    simp only at h1 h2
    by_cases hq : q ≥ (y ++ [c]).length
    · have : (Rd.mk sp q v pv).current (y ++ [c]) = (0, Rd.mk sp q v pv) := by
        unfold Rd.current
        rw [if_pos hq]
      rw [this]
      exact ⟨Or.inl rfl, h1, h2⟩
    · have hqe : q = y.length := by simp at hq; omega
      subst hqe
      unfold Rd.current
      rw [if_neg hq]
      rcases h2 with h | h <;> subst h
      · by_cases hN : 1 ≤ y.length
        · rw [currentNode_in _ _ v pv hN (by omega)]
          simp only [isIndent_fk, Bool.false_eq_true, if_false, hget, hc0]
          exact ⟨Or.inr hc, Nat.le_refl _, Or.inl rfl⟩
        · rw [currentNode_out _ _ v pv (Or.inr (by omega))]
          simp only [hget, hc0, Bool.false_eq_true, if_false]
          exact ⟨Or.inr hc, Nat.le_refl _, Or.inr rfl⟩
      · rw [currentNode_nil]
        simp only [hget, hc0, Bool.false_eq_true, if_false]
        exact ⟨Or.inr hc, Nat.le_refl _, Or.inr rfl⟩
  · intro a ⟨h1, h2⟩
    obtain ⟨sp, q, v, pv⟩ := a
    simp only at h1 h2
    rcases h2 with h | h <;> subst h
    · by_cases hin : 1 ≤ q ∧ q < y.length + 1
      · have hqe : q = y.length := by omega
        subst hqe
        rw [next_last _ _ _ v pv hin.1 rfl]
        exact ⟨rfl, by show y.length ≤ y.length + 1; omega, Or.inr rfl⟩
      · rw [next_out _ _ q v pv (by omega)]
        exact ⟨rfl, h1, Or.inr rfl⟩
    · rw [next_nil]
      exact ⟨rfl, h1, Or.inr rfl⟩

theorem tag_live : LiveRd (y ++ [c]) y y.length (tagL y) (tagD1 y) (tagD2 y) := by
  constructor
  · rintro a b ⟨q, v, pv, h1, h2, rfl, rfl⟩
    rw [current_in (y ++ [c]) _ q v pv h1 (by omega) (by simp; omega), current_in y _ q v pv h1 h2 h2]
    refine ⟨?_, ⟨q, v, pv, h1, h2, rfl, rfl⟩, rfl⟩
    simp only [byteAt, getD_snoc_lt y c q 0 h2]
  · rintro a b ⟨q, v, pv, h1, h2, rfl, rfl⟩
    rw [next_in (y ++ [c]) _ q v pv h1 (by omega)]
    by_cases hq : q + 1 < y.length
    · left
      rw [next_in y _ q v pv h1 hq]
      refine ⟨rfl, rfl, ⟨q + 1, _, q, by omega, hq, rfl, ?_⟩, rfl⟩
      have : nextV (y ++ [c]) q v = nextV y q v := by
        simp only [nextV, getD_snoc_lt y c q 1 h2, getD_snoc_lt y c (q + 1) 1 hq]
      rw [this]
    · right
      rw [next_last y _ q v pv h1 (by omega)]
      exact ⟨⟨by show y.length ≤ q + 1; omega, Or.inl rfl⟩, ⟨by show y.length ≤ q + 1; omega, Or.inr rfl⟩⟩
  · rintro a b ⟨q, v, pv, _, h2, rfl, rfl⟩
    exact ⟨rfl, h2⟩
  · rintro a b ⟨q, v, pv, _, _, rfl, rfl⟩
    rfl

end

/-! ### Start condition 7 -/

theorem hasBytePrefix_snoc_nl (y : Bytes) (c : UInt8) (hc : isNL c = true) (s : Bytes) (hs : ∀ d ∈ s, isNL d = false) :
    hasBytePrefix (y ++ [c]) s = hasBytePrefix y s :=
  hasBytePrefix_append_eol y (by intro d hd; simp at hd; subst hd; exact hc) s hs

/-- One more CR/LF byte at the end of ANY line does not change start condition 7. -/
theorem htmlStart7_snoc (y : Bytes) (c : UInt8) (hc : isNL c = true) : htmlStart7 (y ++ [c]) = htmlStart7 y := by
  unfold htmlStart7
  rw [hasBytePrefix_snoc_nl y c hc _ (by decide), hasBytePrefix_snoc_nl y c hc _ (by decide)]
  by_cases hlt : (!hasBytePrefix y [0x3C]) = true
  · rw [if_pos hlt, if_pos hlt]
  rw [if_neg hlt, if_neg hlt]
  simp only []
  have hN : 1 ≤ y.length := by
    cases y with
    | nil => simp [hasBytePrefix] at hlt
    | cons _ _ => simp
  have hfk1 : mkInline IK.unparsed 1 ((y ++ [c]).length : Int) = fk (y.length + 1) := by
    simp [fk]
  have hfk2 : mkInline IK.unparsed 1 (y.length : Int) = fk y.length := rfl
  rw [hfk1, hfk2]
  have hr1 : newReader [fk (y.length + 1)] 1 = Rd.mk [fk (y.length + 1)] 1 0 (-1) := rfl
  have hr2 : newReader [fk y.length] 1 = Rd.mk [fk y.length] 1 0 (-1) := rfl
  rw [hr1, hr2]
  have H := tag_live y c
  have H1 := tag_dead1 y c hc
  have H2 := tag_dead2 y
  generalize hF1 : rdFuel (y ++ [c]) [fk (y.length + 1)] = F1
  generalize hF2 : rdFuel y [fk y.length] = F2
  have hF1' : y.length < F1 := by rw [← hF1]; simp [rdFuel]; omega
  have hF2' : y.length < F2 := by rw [← hF2]; simp [rdFuel]; omega
  -- the scan after a successful parse
  have hskip : ∀ a b, OutS (tagL y) (tagD1 y) (tagD2 y) 1 a b →
      (skipLinkSpace (y ++ [c]) F1 a).1 = (skipLinkSpace y F2 b).1 := by
    intro a b ho
    rcases ho with ⟨hL, _⟩ | ⟨d1, d2⟩
    · exact (live_skipLinkSpace H H1 H2 F1 F2 a b hL (by omega) (by omega)).1
    · rw [(dead_skipLinkSpace H1 F1 a d1).1, (dead_skipLinkSpace H2 F2 b d2).1]
  by_cases hlive : 2 ≤ y.length
  · have hL : tagL y (Rd.mk [fk (y.length + 1)] 1 0 (-1)) (Rd.mk [fk y.length] 1 0 (-1)) :=
      ⟨1, 0, -1, Nat.le_refl _, by omega, rfl, rfl⟩
    by_cases hcl : hasBytePrefix y [0x3C, 0x2F] = true
    · rw [if_pos hcl, if_pos hcl]
      obtain ⟨e1, e2⟩ := live_closingTag H H1 H2 F1 F2 _ _ hL (by show y.length - 1 < F1; omega) (by show y.length - 1 < F2; omega)
      rw [e1]
      by_cases hneg : (parseHTMLClosingTag y F2 (Rd.mk [fk y.length] 1 0 (-1))).1 < 0
      · rw [if_pos hneg, if_pos hneg]
      · rw [if_neg hneg, if_neg hneg, hskip _ _ (e2 (by omega))]
    · rw [if_neg hcl, if_neg hcl]
      obtain ⟨e1, e2⟩ := live_openTag H H1 H2 F1 F2 _ _ hL (by show y.length - 1 < F1; omega) (by show y.length - 1 < F2; omega)
      rw [e1]
      by_cases hneg : (parseHTMLOpenTag y F2 (Rd.mk [fk y.length] 1 0 (-1))).1 < 0
      · rw [if_pos hneg, if_pos hneg]
      · rw [if_neg hneg, if_neg hneg, hskip _ _ (e2 (by omega))]
  · -- `y = "<"`: both readers are at their end
    have hy1 : y.length = 1 := by omega
    have d1 : tagD1 y (Rd.mk [fk (y.length + 1)] 1 0 (-1)) := ⟨by show y.length ≤ 1; omega, Or.inl rfl⟩
    have d2 : tagD2 y (Rd.mk [fk y.length] 1 0 (-1)) := ⟨by show y.length ≤ 1; omega, Or.inl rfl⟩
    by_cases hcl : hasBytePrefix y [0x3C, 0x2F] = true
    · rw [if_pos hcl, if_pos hcl, dead_closingTag H1 F1 _ d1, dead_closingTag H2 F2 _ d2]
      rfl
    · rw [if_neg hcl, if_neg hcl, dead_openTag H1 F1 _ d1, dead_openTag H2 F2 _ d2]
      rfl

/-- **`Start7Inv` holds**: HTML block start condition 7 gives the same answer on `l`, `l ++ [LF]`, `l ++ [CR, LF]`,
    `l ++ [CR]` (on `l ++ n` for any run `n` of CR/LF bytes). -/
theorem start7Inv : Start7Inv := by
  intro l n
  induction n using snoc_induction with
  | h0 => intro _; rw [List.append_nil]
  | h1 n c ih =>
    intro hn
    have hc : isNL c = true := hn c (by simp)
    have hn' : EolBytes n := fun d hd => hn d (by simp [hd])
    rw [← List.append_assoc, htmlStart7_snoc (l ++ n) c hc, ih hn']

/-- Start condition 7 on a concrete line: `<a href="x">` + CRLF is a complete open tag followed by white space. -/
example : htmlStart7 [0x3C, 0x61, 0x20, 0x68, 0x3D, 0x22, 0x78, 0x22, 0x3E, CR, LF] = true ∧
    htmlStart7 [0x3C, 0x61, 0x20, 0x68, 0x3D, 0x22, 0x78, 0x22, 0x3E] = true := by decide +kernel

end CM.Proofs
