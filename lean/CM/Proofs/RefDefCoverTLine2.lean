import CM.Proofs.RefDefCoverDef
import CM.Proofs.RefDefSpansLine2
import CM.Proofs.RefDefCoverTLine
/-
C03, block half — `GoodT2` (the strong invariant of RefDefCoverDef): adaptation of RefDefSpansLine2.lean.
Everything that does not mention `GoodT`/`NodeOK` is reused from `CM.Proofs.RDS`.
-/
namespace CM.Proofs.RDC
open CM CM.Model CM.Gen CM.Proofs.BSp CM.Proofs.BT CM.Proofs.BG CM.Proofs.RDS

/-! ### tryStarts -/

structure TSt2 (src : Bytes) (bd : Int) (ls : Nat) (p r : LP) : Prop where
  gi : GI2 src bd ls r
  same : r.state = 0 → fr r = fr p ∧ BT.cur r = BT.cur p
  np : r.state = 1 → r.containerKind ≠ BK.paragraph

theorem tryStarts_st2 {src : Bytes} {bd : Int} {ls : Nat} : ∀ (fs : List (LP → LP)),
    (∀ f ∈ fs, ∀ q, BT.Inv q → q.state = 0 → GI2 src bd ls q → StPost2 src bd ls q (f q)) →
    (∀ f ∈ fs, ∀ q, BT.Inv q → q.state = 0 → SPost q (f q)) →
    ∀ p, BT.Inv p → GI2 src bd ls p → TSt2 src bd ls p (tryStarts fs p) ∨ (fs = [] ∧ tryStarts fs p = p) := by
  intro fs
  induction fs with
  | nil => intro _ _ p _ _; exact Or.inr ⟨rfl, rfl⟩
  | cons f rest ih =>
    intro hf hf' p h hg
    left
    unfold tryStarts
    simp only []
    have g0 : GI2 src bd ls ({ p with state := stateOpening } : LP) := ⟨hg.source, hg.lineStart, hg.line, hg.good⟩
    have sp := hf f (List.mem_cons_self ..) { p with state := stateOpening } (h.setState _) rfl g0
    have spo := hf' f (List.mem_cons_self ..) { p with state := stateOpening } (h.setState _) rfl
    generalize hp' : f { p with state := stateOpening } = p' at sp spo
    split
    · rename_i hm
      simp only [stateOpenMatched, stateLineConsumed, Bool.or_eq_true, beq_iff_eq] at hm
      exact ⟨sp.gi, fun h0 => by omega, sp.np⟩
    · rename_i hne
      have s0 : p'.state = 0 := by
        have := spo.st
        simp only [stateOpenMatched, stateLineConsumed, Bool.or_eq_true, beq_iff_eq, not_or] at hne
        omega
      have e := sp.same s0
      rcases ih (fun g hg' => hf g (List.mem_cons_of_mem _ hg')) (fun g hg' => hf' g (List.mem_cons_of_mem _ hg')) p' spo.inv sp.gi
        with r | r
      · refine ⟨r.gi, fun h0 => ?_, r.np⟩
        obtain ⟨r1, r2⟩ := r.same h0
        rw [r1, r2, e]
        exact ⟨rfl, rfl⟩
      · rw [r.2]
        refine ⟨sp.gi, fun _ => ?_, fun h1 => by omega⟩
        rw [e]
        exact ⟨rfl, rfl⟩

theorem tryStarts_blockStarts_st2 {src : Bytes} {bd : Int} {ls : Nat} (x : PExt) (hbd : bd ≤ (ls : Int)) (hls : ls ≤ src.length)
    (p : LP) (h : BT.Inv p) (hg : GI2 src bd ls p) : TSt2 src bd ls p (tryStarts (blockStartFns x) p) := by
  rcases tryStarts_st2 (blockStartFns x) (blockStartFns_st2 x (fun q hq hs hg' => startSetext_st2 x hbd hls q hq hs hg'))
    (blockStartFns_post x) p h hg with r | r
  · exact r
  · exact absurd r.1 (by simp [blockStartFns])

/-! ### openingLoop -/

theorem openingLoop_st2 {src : Bytes} {bd : Int} {ls : Nat} (x : PExt) (hbd : bd ≤ (ls : Int)) (hls : ls ≤ src.length) :
    ∀ (fuel : Nat) (p : LP), BT.Inv p → GI2 src bd ls p → J p →
      GI2 src bd ls (openingLoop x fuel p).2 ∧ ((openingLoop x fuel p).1 = true → J (openingLoop x fuel p).2) := by
  intro fuel
  induction fuel with
  | zero => intro p _ hg hj; exact ⟨hg, fun _ => hj⟩
  | succ fuel ih =>
    intro p h hg hj
    unfold openingLoop
    split
    · exact ⟨hg, fun _ => hj⟩
    · have ts := tryStarts_blockStarts x p h
      have st := tryStarts_blockStarts_st2 x hbd hls p h hg
      simp only []
      generalize tryStarts (blockStartFns x) p = p' at ts st
      split
      · rename_i h1
        have s1 : p'.state = 1 := by simpa [stateOpenMatched] using h1
        exact ih p' ts.inv st.gi (fun hk => absurd hk (st.np s1))
      · split
        · exact ⟨st.gi, fun hh => by cases hh⟩
        · rename_i h1 h2
          have s0 : p'.state = 0 := by
            have := ts.st
            simp only [stateOpenMatched, beq_iff_eq] at h1
            simp only [stateLineConsumed, beq_iff_eq] at h2
            omega
          obtain ⟨e1, e2⟩ := st.same s0
          exact ⟨st.gi, fun _ => hj.of_same e1 e2⟩

/-! ### openNewBlocks -/

theorem openNewBlocks_st2 {src : Bytes} {bd : Int} {ls : Nat} (x : PExt) (hbd : bd ≤ (ls : Int)) (hls : ls ≤ src.length)
    (p : LP) (allMatched : Bool) (h : BT.Inv p) (hg : GI2 src bd ls p) (hj : J p) :
    GI2 src bd ls (openNewBlocks x p allMatched).2 ∧
      ((openNewBlocks x p allMatched).1 = true → J (openNewBlocks x p allMatched).2) := by
  unfold openNewBlocks
  split
  · have g0 : GI2 src bd ls ({ p with depth := 0 } : LP) := ⟨hg.source, hg.lineStart, hg.line, hg.good⟩
    exact ⟨closeContainer_GI2 x _ _ g0, fun hh => by cases hh⟩
  · have ol := openingLoop_post x (p.line.length + 8) p h (fun h' => by omega)
    have os := openingLoop_st2 x hbd hls (p.line.length + 8) p h hg hj
    generalize openingLoop x (p.line.length + 8) p = r at ol os
    obtain ⟨hasText, q⟩ := r
    simp only [] at ol os ⊢
    split
    · exact os
    · split
      · rename_i hc
        simp only [Bool.and_eq_true, beq_iff_eq, Bool.not_eq_true'] at hc
        refine ⟨⟨os.1.source, os.1.lineStart, os.1.line, os.1.good⟩, fun _ _ => ?_⟩
        exact hc.1
      · refine ⟨closeLastChild_GI2 x q _ os.1, fun ht => ?_⟩
        intro hk
        rw [closeLastChild_containerKind x q _ ol.inv.tree] at hk
        exact os.2 ht hk

end CM.Proofs.RDC
