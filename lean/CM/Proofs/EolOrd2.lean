import CM.Proofs.EolOrd1
/-
Towards discharging the `kidsOrd` hypothesis — part 2: `processLine` keeps `pbInl` (every inline tree start-minimal).
`RI x S p`: the source of `p` is `S` and `pbInl p.root`; every operation of the line parser keeps it, given the paragraph
hook does (`ParaInl x S`).
-/
namespace CM.Proofs
open CM CM.Model CM.Gen CM.Proofs.BT

/-! ### Root and source of the cursor operations -/

theorem updateTab_root (q : LP) : q.updateTabRemaining.root = q.root := by
  unfold LP.updateTabRemaining; split <;> rfl

theorem advance_root (p : LP) (n : Nat) : (p.advance n).root = p.root := by
  by_cases hz : n = 0
  · subst hz; rfl
  · rw [advance_pos _ _ hz]
    split
    · rw [setPanic_root, markMatched_root]
    · rw [updateTab_root]; exact markMatched_root p

theorem advance_i_ge (p : LP) (n : Nat) : p.i ≤ (p.advance n).i := by
  by_cases hz : n = 0
  · subst hz; exact Nat.le_refl _
  · rw [advance_pos _ _ hz]
    have h1 : p.markMatched.i = p.i := by rw [markMatched_eq]
    split
    · unfold LP.setPanic; split <;> rw [h1] <;> exact Nat.le_refl _
    · rw [updateTab_i]; show p.i ≤ p.markMatched.i + n; omega

theorem consumeLine_root (p : LP) : p.consumeLine.root = p.root := by
  unfold LP.consumeLine
  simp only []
  split
  · exact advance_root p _
  · split
    · exact advance_root p _
    · exact advance_root p _

theorem consumeLine_source (p : LP) : p.consumeLine.source = p.source := by
  unfold LP.consumeLine
  simp only []
  split
  · exact advance_source p _
  · split
    · exact advance_source p _
    · exact advance_source p _

theorem consumeIndent_root_source : ∀ (fuel : Nat) (p : LP) (n : Nat),
    (LP.consumeIndent fuel p n).root = p.root ∧ (LP.consumeIndent fuel p n).source = p.source := by
  intro fuel
  induction fuel with
  | zero => intro p n; exact ⟨rfl, rfl⟩
  | succ fuel ih =>
    intro p n
    unfold LP.consumeIndent
    split
    · exact ⟨rfl, rfl⟩
    · simp only []
      split
      · obtain ⟨a, b⟩ := ih ({ p.markMatched with col := p.markMatched.col + 1, i := p.markMatched.i + 1 }).updateTabRemaining (n - 1)
        rw [a, b, updateTab_root, updateTab_source]
        exact ⟨markMatched_root p, markMatched_source p⟩
      · split
        · split
          · exact ⟨markMatched_root p, markMatched_source p⟩
          · obtain ⟨a, b⟩ := ih ({ p.markMatched with col := p.markMatched.col + p.markMatched.tabRem, i := p.markMatched.i + 1 }).updateTabRemaining
              (n - p.markMatched.tabRem)
            rw [a, b, updateTab_root, updateTab_source]
            exact ⟨markMatched_root p, markMatched_source p⟩
        · rw [setPanic_root, setPanic_source']
          exact ⟨markMatched_root p, markMatched_source p⟩

/-! ### The invariant -/

/-- The source is `S` and every inline tree of the root is start-minimal. -/
def RI (S : Bytes) (p : LP) : Prop := p.source = S ∧ pbInl p.root = true

section
variable {x : PExt} {S : Bytes} {p : LP}

theorem RI.advance (h : RI S p) (n : Nat) : RI S (p.advance n) := ⟨by rw [advance_source]; exact h.1, by rw [advance_root]; exact h.2⟩
theorem RI.consumeLine (h : RI S p) : RI S p.consumeLine := ⟨by rw [consumeLine_source]; exact h.1, by rw [consumeLine_root]; exact h.2⟩
theorem RI.consumeIndentN (h : RI S p) (n : Nat) : RI S (p.consumeIndentN n) := by
  obtain ⟨a, b⟩ := consumeIndent_root_source (n + 1) p n
  exact ⟨by show (LP.consumeIndent _ _ _).source = S; rw [b]; exact h.1, by show pbInl (LP.consumeIndent _ _ _).root = true; rw [a]; exact h.2⟩
theorem RI.markMatched (h : RI S p) : RI S p.markMatched := ⟨by rw [markMatched_source]; exact h.1, by rw [markMatched_root]; exact h.2⟩
theorem RI.setPanic (h : RI S p) (m : String) : RI S (p.setPanic m) := ⟨by rw [setPanic_source']; exact h.1, by rw [setPanic_root]; exact h.2⟩
theorem RI.setState (h : RI S p) (s : Nat) : RI S { p with state := s } := h
theorem RI.setDepth (h : RI S p) (d : Nat) : RI S { p with depth := d } := h

theorem openBlock_source (p : LP) (kind : Nat) (f : PLabel → PLabel) : (p.openBlock x kind f).source = p.source := by
  unfold LP.openBlock
  split
  · exact setPanic_source' _ _
  · simp only []
    have key : ∀ (fuel : Nat) (q : LP), (LP.openBlockLoop x kind fuel q).source = q.source := by
      intro fuel
      induction fuel with
      | zero => intro q; rfl
      | succ fuel ih =>
        intro q
        unfold LP.openBlockLoop
        split
        · rfl
        · split
          · exact setPanic_source' _ _
          · rw [ih, closeContainer_source]
    show (LP.openBlockLoop x kind (p.markMatched.depth + 1) p.markMatched).source = _
    rw [key, markMatched_source]

variable (hP : ParaInl x S)
include hP

theorem RI.closeContainer (h : RI S p) (endPos : Int) : RI S (p.closeContainer x endPos) :=
  ⟨by rw [closeContainer_source]; exact h.1, closeContainer_inl p (by rw [h.1]; exact hP) endPos h.2⟩
theorem RI.closeLastChild (h : RI S p) (endPos : Int) : RI S (p.closeLastChild x endPos) :=
  ⟨h.1, closeLastChild_inl p (by rw [h.1]; exact hP) endPos h.2⟩
theorem RI.openBlock (h : RI S p) (kind : Nat) (f : PLabel → PLabel) : RI S (p.openBlock x kind f) :=
  ⟨by rw [openBlock_source]; exact h.1, openBlock_inl p (by rw [h.1]; exact hP) kind f h.2⟩
theorem RI.endBlock (h : RI S p) : RI S (p.endBlock x) :=
  ⟨by rw [endBlock_source]; exact h.1, endBlock_inl p (by rw [h.1]; exact hP) h.2⟩

omit hP in
theorem RI.setContainerIndent (h : RI S p) (n : Int) : RI S (p.setContainerIndent n) := by
  refine ⟨?_, setContainerIndent_inl p n h.2⟩
  unfold LP.setContainerIndent
  split
  · rw [setPanic_source']; exact h.1
  · split
    · rw [setPanic_source']; exact h.1
    · exact h.1

omit hP in
theorem RI.modifyLabel (h : RI S p) (f : PLabel → PLabel) : RI S (p.modifyContainer (PB.setLabel f)) :=
  ⟨h.1, modifyContainer_setLabel_inl p f h.2⟩

omit hP in
theorem RI.appendInline (h : RI S p) (t : Tree) (ht : inlOK t = true) : RI S (p.appendInline t) :=
  ⟨h.1, appendInline_inl p t ht h.2⟩

end

/-! ### `CollectInline` -/

theorem treesGE_append (m : Int) (a b : List Tree) : treesGE m (a ++ b) = (treesGE m a && treesGE m b) := by
  induction a with
  | nil => simp [treesGE]
  | cons t rest ih => simp only [List.cons_append, treesGE, ih, Bool.and_assoc]

theorem treeGE_mkInline (m : Int) (k : Nat) (a b : Int) (ha : m ≤ a) (hb : m ≤ b) : treeGE m (mkInline k a b) = true := by
  simp [mkInline, treeGE, treesGE, ha, hb]

theorem infoStringLoop_ge (ext : Ext) (src : Bytes) (stop : Nat) (m : Int) : ∀ (fuel i ps : Nat) (acc : List Tree),
    treesGE m acc = true → m ≤ (ps : Int) → m ≤ (i : Int) →
    treesGE m (LP.infoStringLoop ext src stop fuel i ps acc) = true := by
  intro fuel
  induction fuel with
  | zero => intro i ps acc h _ _; exact h
  | succ fuel ih =>
    intro i ps acc h hps hi
    unfold LP.infoStringLoop
    split
    · split
      · rename_i hlt
        rw [treesGE_append, h, Bool.true_and, treesGE, treeGE_mkInline m _ _ _ hps (by omega)]; rfl
      · exact h
    · simp only []
      have hacc : treesGE m (if ps < i then acc ++ [mkInline IK.text (ps : Int) (i : Int)] else acc) = true := by
        split
        · rw [treesGE_append, h, Bool.true_and, treesGE, treeGE_mkInline m _ _ _ hps hi]; rfl
        · exact h
      split
      · split
        · exact ih _ _ _ h hps (by omega)
        · apply ih
          · rw [treesGE_append, hacc, Bool.true_and, treesGE, treeGE_mkInline m _ _ _ (by omega) (by omega)]; rfl
          · omega
          · omega
      · split
        · split
          · rename_i en hen
            split
            · exact ih _ _ _ h hps (by omega)
            · apply ih
              · rw [treesGE_append, hacc, Bool.true_and, treesGE, treeGE_mkInline m _ _ _ hi (by omega)]; rfl
              · omega
              · omega
          · exact ih _ _ _ h hps (by omega)
        · exact ih _ _ _ h hps (by omega)

theorem inlOK_leaf (l : Label) (h : l.start ≤ l.stop) : inlOK (.node l []) = true := by
  simp [inlOK, Tree.label, treeGE, treesGE, h]

theorem inlOK_mkInline (k : Nat) (a b : Int) (kids : List Tree) (hab : a ≤ b) (hk : treesGE a kids = true) :
    inlOK (mkInline k a b kids) = true := by
  simp [inlOK, mkInline, Tree.label, treeGE, hab, hk]

section
variable {x : PExt} {S : Bytes} {p : LP}

theorem advance_lineStart' (p : LP) (n : Nat) : (p.advance n).lineStart = p.lineStart := advance_lineStart p n

theorem RI.collectInline (h : RI S p) (kind n : Nat) : RI S (p.collectInline x kind n) := by
  rw [collectInline_eq]
  split
  · exact h.setPanic _
  · have hq := h.markMatched
    generalize p.markMatched = q at hq
    have h2 : RI S (collectIndent q) := by
      unfold collectIndent
      split
      · apply (hq.advance _).appendInline
        have h1 := advance_i_ge q (indentLength (q.line.drop q.i))
        have h3 := advance_lineStart q (indentLength (q.line.drop q.i))
        apply inlOK_leaf
        show ((q.lineStart + q.i : Nat) : Int) ≤ ((q.advance (indentLength (q.line.drop q.i))).lineStart : Int) +
          ((q.advance (indentLength (q.line.drop q.i))).i : Int)
        rw [h3]; omega
      · exact hq
    generalize collectIndent q = q2 at h2
    unfold collectTail
    simp only []
    have h1 := advance_i_ge q2 n
    have h3 := advance_lineStart q2 n
    have hle : ((q2.lineStart + q2.i : Nat) : Int) ≤ (((q2.advance n).lineStart + (q2.advance n).i : Nat) : Int) := by
      rw [h3]; omega
    split
    · apply (h2.advance n).appendInline
      apply inlOK_mkInline _ _ _ _ hle
      exact infoStringLoop_ge _ _ _ _ _ _ _ _ rfl (Int.le_refl _) (Int.le_refl _)
    · apply (h2.advance n).appendInline
      exact inlOK_mkInline _ _ _ _ hle rfl

end

end CM.Proofs
