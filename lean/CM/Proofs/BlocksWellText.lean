import CM.Proofs.BlocksWellDescend
/-
`addLineText`: the text of the line is appended to the container (or to a new paragraph).
-/
namespace CM.Proofs
open CM CM.Model CM.Gen

/-- The end of the line: as `LA`, but the inline children of an open paragraph child may extend to `P`. -/
structure LEnd (N P : Nat) (p : LP) : Prop where
  cur : p.lineStart + p.line.length ≤ N
  ile : p.i ≤ p.line.length
  dv : ∃ b, spineGet p.root p.depth = some b
  root : RootOK N P p.lineStart p.root

theorem LA.toLEnd {am : Bool} {N : Nat} {p : LP} (h : LA am N p) : LEnd N p.lineStart p := ⟨h.cur, h.ile, h.dv, h.root⟩

theorem LEnd.of_frame {N P : Nat} {p p' : LP} (h : LEnd N P p) (f : CurFrame p p') : LEnd N P p' :=
  ⟨by rw [f.lineStart, f.line]; exact h.cur, f.ile h.ile, by rw [f.root, f.depth]; exact h.dv,
   by rw [f.root, f.lineStart]; exact h.root⟩

theorem LEnd.final {N P : Nat} {p : LP} (h : LEnd N P p) (hP : P ≤ N) : RootOK N N N p.root :=
  h.root.mono (Nat.le_refl _) hP (by have := h.cur; omega)

/-- Appending an inline node that starts at or after `P` and the start of the line. -/
theorem LEnd.appendInline {N P Q : Nat} {p : LP} (t : Tree) (h : LEnd N P p) (h1 : (P : Int) ≤ t.label.start)
    (h2 : (p.lineStart : Int) ≤ t.label.start) (h3 : t.label.start ≤ t.label.stop) (h4 : t.label.stop ≤ (Q : Int)) (hPQ : P ≤ Q) :
    LEnd N Q (p.appendInline t) ∧ (NE p.root → NE (p.appendInline t).root) := by
  rw [appendInline_eq]
  obtain ⟨b, hb⟩ := h.dv
  have key := h.root.appendInline t p.depth hPQ (fun _ _ _ _ _ => ⟨h1, h2, h3, h4⟩)
  exact ⟨⟨h.cur, h.ile, ⟨_, by simp only; rw [spineGet_modify_same, hb]; rfl⟩, key.1⟩, key.2⟩

/-! ### Consuming the rest of a partially consumed tab -/

theorem consumeIndentN_tab (p : LP) (h1 : p.i < p.line.length) (h2 : p.line.getD p.i 0 = TAB) (h3 : 0 < p.tabRem) :
    p.i + 1 ≤ (p.consumeIndentN p.tabRem).i := by
  unfold LP.consumeIndentN
  obtain ⟨k, hk⟩ : ∃ k, p.tabRem = k + 1 := ⟨p.tabRem - 1, by omega⟩
  have hm : p.markMatched.i = p.i ∧ p.markMatched.line = p.line ∧ p.markMatched.tabRem = p.tabRem := by
    unfold LP.markMatched; split <;> exact ⟨rfl, rfl, rfl⟩
  unfold LP.consumeIndent
  rw [if_neg (by rw [hk]; simp)]
  simp only [hm.1, hm.2.1, hm.2.2, h2]
  rw [if_neg (by simp [h1]; decide)]
  rw [if_pos (by simp [h1])]
  rw [if_neg (by omega)]
  refine Nat.le_trans ?_ (consumeIndent_frame _ _ _).1.imono
  rw [(updateTab_frame _).2.2]
  exact Nat.le_refl _

/-! ### addLineText, in three steps -/

/-- Step 1: the blank-line flags. -/
def altPrep (p : LP) : LP :=
  let isBlank := p.isRestBlank
  let p := if isBlank then
      { p with root := spineModify (fun b => match b with
          | .mk l bs is => match bs.getLast? with
            | some c => .mk l (bs.dropLast ++ [c.setLabel fun cl => { cl with lastLineBlank := true }]) is
            | none => .mk l bs is) p.root p.depth }
    else p
  let k := p.containerKind
  let lastLineBlank := isBlank && !(k == BK.blockQuote || k == BK.fencedCode ||
    (k == BK.listItem && p.container.childCount == 1 && p.container.label.start ≥ p.lineStart))
  { p with root := setBlankFlags lastLineBlank p.root p.depth }

/-- Step 2: where the text goes. -/
def altCont (x : PExt) (isBlank : Bool) (p : LP) : Option LP :=
  let k := p.containerKind
  if acceptsLines k then
    if p.i < p.line.length && p.line.getD p.i 0 == TAB && p.tabRem > 0 && p.tabPartial then
      let p := p.appendInline (.node { isBlock := false, kind := IK.indent, start := p.lineStart + p.i, stop := p.lineStart + p.i + 1, indent := p.tabRem } [])
      some (p.consumeIndentN p.tabRem)
    else some p
  else if !isBlank then
    let p := p.openBlock x BK.paragraph
    some (p.consumeIndentN p.indent)
  else none

/-- Step 3: the text node (and the synthetic line break of a code block). -/
def altFinish (p : LP) : LP :=
  let k := p.containerKind
  let isCode := k == BK.indentedCode || k == BK.fencedCode
  let inlineKind := if isCode then IK.text else if k == BK.htmlBlock then IK.rawHTML else IK.unparsed
  let p := p.appendInline (mkInline inlineKind (p.lineStart + p.i) (p.lineStart + p.line.length))
  if isCode && !hasByteSuffix p.line [LF] && !hasByteSuffix p.line [CR] then
    p.appendInline (mkInline IK.softBreak (p.lineStart + p.line.length) (p.lineStart + p.line.length))
  else p

theorem addLineText_eq (x : PExt) (p : LP) :
    addLineText x p = match altCont x p.isRestBlank (altPrep p) with
      | none => altPrep p
      | some q => altFinish q := rfl

theorem la_true_of {N : Nat} {p : LP} (cur : p.lineStart + p.line.length ≤ N) (ile : p.i ≤ p.line.length)
    (dv : ∃ b, spineGet p.root p.depth = some b) (root : RootOK N p.lineStart p.lineStart p.root) : LA true N p :=
  ⟨cur, ile, dv, root, fun h => (by cases h)⟩

theorem altPrep_ok {N : Nat} {p : LP} (h : LA true N p) :
    LA true N (altPrep p) ∧ (NE p.root → NE (altPrep p).root) ∧ TreeFrame p (altPrep p) ∧
    (altPrep p).state = p.state ∧ (altPrep p).depth = p.depth := by
  unfold altPrep
  simp only
  -- step A
  have hA : ∀ b : Bool, ∃ q, (if b = true then
        ({ p with root := spineModify (fun b => match b with
          | .mk l bs is => match bs.getLast? with
            | some c => .mk l (bs.dropLast ++ [c.setLabel fun cl => { cl with lastLineBlank := true }]) is
            | none => .mk l bs is) p.root p.depth } : LP) else p) = q ∧
      LA true N q ∧ (NE p.root → NE q.root) ∧ TreeFrame p q ∧ q.state = p.state ∧ q.depth = p.depth := by
    intro b
    cases b
    · exact ⟨p, by simp, h, fun h => h, TreeFrame.refl p, rfl, rfl⟩
    · refine ⟨_, if_pos rfl, ?_⟩
      have hc : spineModify (fun b => match b with
          | .mk l bs is => match bs.getLast? with
            | some c => .mk l (bs.dropLast ++ [c.setLabel fun cl => { cl with lastLineBlank := true }]) is
            | none => .mk l bs is) p.root p.depth =
          spineModify (replLast fun c => [c.setLabel fun cl => { cl with lastLineBlank := true }]) p.root p.depth := by
        apply spineModify_congr
        intro b; cases b; rfl
      rw [hc]
      obtain ⟨b, hb⟩ := h.dv
      have key := h.root.modLastChild (fun c => c.setLabel fun cl => { cl with lastLineBlank := true })
        (fun c => by cases c; exact ⟨rfl, rfl, fun _ _ => ⟨rfl, fun h => h⟩⟩) p.depth
      exact ⟨la_true_of h.cur h.ile ⟨_, by simp only; rw [spineGet_modify_same, hb]; rfl⟩ key.1, key.2,
        ⟨rfl, rfl, rfl, rfl⟩, rfl, rfl⟩
  obtain ⟨q, hq, q1, q2, q3, q4, q5⟩ := hA p.isRestBlank
  rw [hq]
  obtain ⟨b, hb⟩ := q1.dv
  have key := q1.root.blankFlags (p.isRestBlank && !(q.containerKind == BK.blockQuote || q.containerKind == BK.fencedCode ||
    (q.containerKind == BK.listItem && q.container.childCount == 1 && q.container.label.start ≥ q.lineStart))) q.depth
  refine ⟨la_true_of q1.cur q1.ile ?_ key.1, fun hn => key.2 (q2 hn), ⟨q3.source, q3.lineStart, q3.line, q3.i⟩, q4, q5⟩
  exact spineGet_setBlankFlags _ q.depth q.depth q.root (Nat.le_refl _) b hb

theorem openBlock_panic (x : PExt) (p : LP) (kind : Nat) (a : PLabel → PLabel)
    (hs : p.state = stateDescending ∨ p.state = stateDescendTerminated) :
    p.openBlock x kind a = p.setPanic "OpenBlock cannot be called in this context" := by
  unfold LP.openBlock
  have : (p.state == stateDescending || p.state == stateDescendTerminated) = true := by
    rcases hs with h | h <;> rw [h] <;> decide
  rw [this]
  simp

/-- Step 2. -/
theorem altCont_ok {N : Nat} (x : PExt) (isBlank : Bool) {q r : LP} (h : LA true N q) (e : altCont x isBlank q = some r) :
    ∃ Q, LEnd N Q r ∧ Q ≤ r.lineStart + r.i ∧ (NE q.root → NE r.root) ∧
      (acceptsLines q.containerKind = false → ¬ (q.state = stateDescending ∨ q.state = stateDescendTerminated) → NE r.root) ∧
      StateStep q.state r.state := by
  unfold altCont at e
  simp only at e
  split at e
  · rename_i hacc
    split at e
    · rename_i htab
      simp only [Bool.and_eq_true, decide_eq_true_eq, beq_iff_eq] at htab
      obtain ⟨⟨⟨t1, t2⟩, t3⟩, _⟩ := htab
      simp only [Option.some.injEq] at e
      obtain ⟨t, hr, ht1, ht2⟩ : ∃ t : Tree, r = (q.appendInline t).consumeIndentN (q.appendInline t).tabRem ∧
          t.label.start = (q.lineStart : Int) + q.i ∧ t.label.stop = (q.lineStart : Int) + q.i + 1 :=
        ⟨_, e.symm, rfl, rfl⟩
      subst hr
      have hl := h.toLEnd
      obtain ⟨a1, a2⟩ := hl.appendInline (Q := q.lineStart + q.i + 1) t (by rw [ht1]; omega) (by rw [ht1]; omega)
        (by rw [ht1, ht2]; omega) (by rw [ht2]; omega) (by omega)
      generalize hq1 : q.appendInline t = q1 at a1 a2
      have f1 : q1.i = q.i ∧ q1.line = q.line ∧ q1.tabRem = q.tabRem ∧ q1.lineStart = q.lineStart := by
        rw [← hq1, appendInline_eq]; exact ⟨rfl, rfl, rfl, rfl⟩
      obtain ⟨c1, c2⟩ := consumeIndentN_frame q1 q1.tabRem
      have hi := consumeIndentN_tab q1 (by rw [f1.1, f1.2.1]; exact t1) (by rw [f1.1, f1.2.1]; exact t2) (by rw [f1.2.2.1]; exact t3)
      have hq1s : q1.state = q.state := by rw [← hq1, appendInline_eq]
      refine ⟨q.lineStart + q.i + 1, a1.of_frame c1, ?_, fun hn => by rw [c1.root]; exact a2 hn, ?_, by rw [← hq1s]; exact c2⟩
      · rw [c1.lineStart, f1.2.2.2]; rw [f1.1] at hi; omega
      · intro hna; rw [hacc] at hna; cases hna
    · simp only [Option.some.injEq] at e
      subst e
      exact ⟨q.lineStart, h.toLEnd, by omega, fun h => h, fun hna => (by rw [hacc] at hna; cases hna), StateStep.refl _⟩
  · rename_i hacc
    split at e
    · simp only [Option.some.injEq] at e
      subst e
      by_cases hs : q.state = stateDescending ∨ q.state = stateDescendTerminated
      · rw [openBlock_panic x q BK.paragraph id hs]
        obtain ⟨s1, s2, _⟩ := setPanic_frame q "OpenBlock cannot be called in this context"
        obtain ⟨c1, c2⟩ := consumeIndentN_frame (q.setPanic "OpenBlock cannot be called in this context")
          (q.setPanic "OpenBlock cannot be called in this context").indent
        refine ⟨q.lineStart, (h.toLEnd.of_frame s1).of_frame c1, ?_, fun hn => by rw [c1.root, s1.root]; exact hn,
          fun _ hns => absurd hs hns, by rw [← s2]; exact c2⟩
        rw [c1.lineStart, s1.lineStart]; omega
      · obtain ⟨o1, o2, _, _, o5, o6⟩ := openBlock_LA x BK.paragraph id h hs (by decide) (Or.inr rfl) (fun _ => ⟨rfl, rfl⟩)
        obtain ⟨c1, c2⟩ := consumeIndentN_frame (q.openBlock x BK.paragraph) (q.openBlock x BK.paragraph).indent
        have hl := o1.toLEnd.of_frame c1
        rw [o5.lineStart] at hl
        refine ⟨q.lineStart, hl, ?_, fun _ => by rw [c1.root]; exact o2, fun _ _ => by rw [c1.root]; exact o2, ?_⟩
        · rw [c1.lineStart, o5.lineStart]; omega
        · refine StateStep.trans ?_ c2
          rw [o6]; exact (markMatched_frame q).2.1
    · cases e

/-- Step 3. -/
theorem altFinish_state (r : LP) : (altFinish r).state = r.state := by
  unfold altFinish
  simp only [appendInline_eq]
  repeat' split
  all_goals rfl

theorem altFinish_ok {N Q : Nat} {r : LP} (h : LEnd N Q r) (hQ : Q ≤ r.lineStart + r.i) :
    RootOK N N N (altFinish r).root ∧ (NE r.root → NE (altFinish r).root) := by
  unfold altFinish
  simp only
  have hile := h.ile
  have hcur := h.cur
  have step : ∀ k, ∃ q1, r.appendInline (mkInline k ((r.lineStart : Int) + r.i) ((r.lineStart : Int) + r.line.length)) = q1 ∧
      LEnd N (r.lineStart + r.line.length) q1 ∧ (NE r.root → NE q1.root) ∧ q1.line = r.line ∧ q1.lineStart = r.lineStart := by
    intro k
    obtain ⟨a1, a2⟩ := h.appendInline (Q := r.lineStart + r.line.length)
      (mkInline k ((r.lineStart : Int) + r.i) ((r.lineStart : Int) + r.line.length))
      (by simp only [mkInline_start]; omega) (by simp only [mkInline_start]; omega)
      (by simp only [mkInline_start, mkInline_stop]; omega) (by simp only [mkInline_stop]; omega) (by omega)
    refine ⟨_, rfl, a1, a2, ?_, ?_⟩ <;> rw [appendInline_eq]
  obtain ⟨q1, hq1, s1, s2, s3, s4⟩ := step (if (r.containerKind == BK.indentedCode || r.containerKind == BK.fencedCode) = true then IK.text
      else if (r.containerKind == BK.htmlBlock) = true then IK.rawHTML else IK.unparsed)
  rw [hq1]
  split
  · obtain ⟨a1, a2⟩ := s1.appendInline (Q := r.lineStart + r.line.length)
      (mkInline IK.softBreak ((q1.lineStart : Int) + q1.line.length) ((q1.lineStart : Int) + q1.line.length))
      (by simp only [mkInline_start]; rw [s3, s4]; omega) (by simp only [mkInline_start]; omega)
      (by simp only [mkInline_start, mkInline_stop]; omega) (by simp only [mkInline_stop]; rw [s3, s4]; omega) (Nat.le_refl _)
    exact ⟨a1.final (by omega), fun hn => a2 (s2 hn)⟩
  · exact ⟨s1.final (by omega), s2⟩

end CM.Proofs
