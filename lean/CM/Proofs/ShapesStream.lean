import CM.Proofs.ShapesRoot
import CM.Proofs.BlocksWell
/-
C13, block half — the stream machine: every root `drain (blocksLP x) fuel (memParser inp) []` delivers is good
(`Sh`) in the part of the buffer it was cut from, closed, and ends at the end of that part.
-/
namespace CM.Proofs.Shp
open CM CM.Model CM.Gen CM.Proofs.BG CM.Proofs.BT
open CM.Proofs.BSp (curPos)

/-! ### one line -/

/-- **One line of the block-phase parser, as the stream machine feeds it.** -/
theorem line_Sh {setx : Bool} (x : PExt) (hsx : SetextStep setx x) (lp : LP) (buf : Bytes) (ls i : Nat) (hg : LPG lp)
    (hro : lp.root.label.stop < 0) (hls : ls ≤ i) (hi : i ≤ buf.length) (hle : LE buf ls)
    (h : Sh setx (buf.take ls) 0 ls lp.root) :
    Sh setx (buf.take i) 0 i ((blocksLP x).line lp (buf.take i) ls).root := by
  have hlen : (buf.take i).length = i := by simp [hi]
  have h' : Sh setx (buf.take i) 0 ls lp.root := by
    rw [← take_append_drop_take buf hls]
    exact Sh_append (grow_of_LE hle hls) _ 0 0 (Int.le_refl _) h
  obtain ⟨r1, r2, r3, r4⟩ := BSp.reset_fields lp (buf.take i) ls
  obtain ⟨_, d2, _, _, _, _⟩ := CM.Proofs.reset_fields lp (buf.take i) ls
  have hw : W setx (lp.reset (buf.take i) ls).lineStart (lp.reset (buf.take i) ls) := by
    refine ⟨(reset_LPInv lp hg.toLPInv' (buf.take i) ls).toInv, by rw [r1]; exact hg.g, ⟨by rw [r4, r2, r3], by rw [r2, r3, hlen]; exact hls⟩,
      Int.le_refl _, by rw [r2, r1, r3]; exact h', ?_⟩
    have hc : (lp.reset (buf.take i) ls).container = lp.root := by
      unfold LP.container; rw [d2, r1, spineGet_zero]; rfl
    rw [hc]; exact hro
  have := processLine_Sh x hsx _ hw
  rw [r2, hlen] at this
  exact this

/-! ### the roots -/

/-- What is proved about a delivered root: its source is the NUL-filling of a part `head` of the buffer in which the
    block is good, closed, and ends at the end. -/
def RootSh (setx : Bool) (Q : Bytes → Prop) (r : Root) : Prop :=
  ∃ head : Bytes, r.source = fillNulls head ∧ Q head ∧ 0 ≤ r.block.label.stop ∧ r.block.label.stop = head.length ∧
    Sh setx head 0 head.length r.block

/-- The same, with the place of `head` in the buffer: after `g`, before `rest`. -/
def RootCut (setx : Bool) (Q : Bytes → Prop) (buf : Bytes) (r : Root) (rest : Bytes) : Prop :=
  ∃ g head : Bytes, buf = g ++ head ++ rest ∧ r.source = fillNulls head ∧ Q head ∧ 0 ≤ r.block.label.stop ∧
    r.block.label.stop = head.length ∧ Sh setx head 0 head.length r.block

theorem RootCut.rootSh {setx : Bool} {Q : Bytes → Prop} {buf rest : Bytes} {r : Root} (h : RootCut setx Q buf r rest) :
    RootSh setx Q r := by
  obtain ⟨_, head, _, h⟩ := h
  exact ⟨head, h⟩

theorem RootCut.prepend {setx : Bool} {Q : Bytes → Prop} {buf rest : Bytes} {r : Root} (u : Bytes)
    (h : RootCut setx Q buf r rest) : RootCut setx Q (u ++ buf) r rest := by
  obtain ⟨g, head, e, h⟩ := h
  exact ⟨u ++ g, head, by rw [e]; simp [List.append_assoc], h⟩

/-- The state of the (in-memory) stream machine between `NextBlock` calls. `Q`: a property of the buffer that is kept
    when a prefix is dropped or taken (e.g. "no NUL byte"). -/
structure BPS (setx : Bool) (x : PExt) (Q : Bytes → Prop) (p : BP) : Prop where
  err : p.err.isSome = true
  ile : p.i ≤ p.buf.length
  q : Q p.buf
  le : LE p.buf p.i
  kids : KidsOK p.blocks
  j : blocksJ (p.buf.take p.i) p.blocks
  sh : ShL setx (p.buf.take p.i) true 0 p.i p.blocks

/-- Properties of buffers that survive `drop` and `take`. -/
structure Hered (Q : Bytes → Prop) : Prop where
  drop : ∀ b n, Q b → Q (b.drop n)
  take : ∀ b n, Q b → Q (b.take n)

theorem makeRoot_sh {setx : Bool} {x : PExt} {Q : Bytes → Prop} (hQ : Hered Q) (p : BP) (kids : List PB) (po : Bool) (e : Int)
    (herr : p.err.isSome = true) (hi : p.i ≤ p.buf.length) (hq : Q p.buf) (hle : LE p.buf p.i) (he : e ≤ p.i)
    (hk : KidsOK kids) (hsh : ShL setx (p.buf.take p.i) po 0 e kids)
    (hj : ∀ k rest, kids = k :: rest → k.isOpen = false →
      k.label.stop.toNat ≤ p.i ∧ blocksJ ((p.buf.take p.i).drop k.label.stop.toNat) (offsetPBs (-(k.label.stop.toNat : Int)) rest))
    (r : Root) (p' : BP) (hm : makeRoot p kids = some (r, p')) : RootCut setx Q p.buf r p'.buf ∧ BPS setx x Q p' := by
  cases kids with
  | nil => simp [makeRoot] at hm
  | cons k rest =>
    simp only [makeRoot] at hm
    split at hm
    · cases hm
    · rename_i hko
      have hkc : 0 ≤ k.label.stop := by
        rw [← BSp.isOpen_false_iff]; simpa using hko
      have hko' : k.isOpen = false := by simpa using hko
      simp only [Option.some.injEq, Prod.mk.injEq] at hm
      obtain ⟨rfl, rfl⟩ := hm
      rw [ShL_cons] at hsh
      obtain ⟨hk1, _, hk3⟩ := hsh
      have hks : k.label.stop ≤ e := Sh_stop_le hk1
      have hn : ((k.label.stop.toNat : Nat) : Int) = k.label.stop := Int.toNat_of_nonneg hkc
      have hnle : k.label.stop.toNat ≤ p.i := by omega
      have hlen : (p.buf.take p.i).length = p.i := by simp [hi]
      obtain ⟨_, hj2⟩ := hj k rest rfl hko'
      have htt : (p.buf.take p.i).take k.label.stop.toNat = p.buf.take k.label.stop.toNat := by
        rw [List.take_take]; congr 1; omega
      refine ⟨⟨[], p.buf.take k.label.stop.toNat, (List.take_append_drop _ _).symm, rfl, hQ.take _ _ hq, hkc, ?_, ?_⟩,
        ⟨herr, ?_, hQ.drop _ _ hq, ?_, ?_, ?_, ?_⟩⟩
      · show k.label.stop = ((p.buf.take k.label.stop.toNat).length : Int)
        rw [List.length_take]; omega
      · have := Sh_take (setx := setx) (src := p.buf.take p.i) (n := k.label.stop.toNat) (by rw [hlen]; exact hnle) k 0 e hkc
          (by omega) hk1
        rw [htt] at this
        have hl2 : ((p.buf.take k.label.stop.toNat).length : Int) = (k.label.stop.toNat : Int) := by
          rw [List.length_take]; omega
        rw [hl2]
        exact this
      · show p.i - k.label.stop.toNat ≤ (p.buf.drop k.label.stop.toNat).length
        simp only [List.length_drop]; omega
      · exact LE_drop hnle hi hle
      · exact KidsOK_offsetPBs _ _ (fun b hb => hk b (by simp [hb]))
      · show blocksJ ((p.buf.drop k.label.stop.toNat).take (p.i - k.label.stop.toNat)) _
        rw [← CM.Proofs.take_drop_comm]
        exact hj2
      · show ShL setx ((p.buf.drop k.label.stop.toNat).take (p.i - k.label.stop.toNat)) true 0
          ((p.i - k.label.stop.toNat : Nat) : Int) (offsetPBs (-(k.label.stop.toNat : Int)) rest)
        rw [← CM.Proofs.take_drop_comm]
        have hmax : max 0 k.label.stop = k.label.stop := by omega
        rw [hmax] at hk3
        have h3 : ShL setx (p.buf.take p.i) true k.label.stop p.i rest := by
          have := ShL_mono (Int.le_refl _) he hk3
          cases po
          · exact ShL_po this
          · exact this
        have := ShL_offset (k := k.label.stop.toNat) (by omega) rest k.label.stop (by omega) h3
        have e1 : k.label.stop - (k.label.stop.toNat : Int) = 0 := by omega
        have e2 : (p.i : Int) - (k.label.stop.toNat : Int) = ((p.i - k.label.stop.toNat : Nat) : Int) := by omega
        rw [e1, e2] at this
        exact this

/-! ### the per-line loop -/

theorem parseLines_sh {setx : Bool} (x : PExt) (hsx : SetextStep setx x) {Q : Bytes → Prop} (hQ : Hered Q) :
    ∀ (fuel : Nat) (lp : LP) (ls : Nat) (p : BP), p.err.isSome = true → p.i ≤ p.buf.length → Q p.buf → ls ≤ p.i →
    LE p.buf ls → LE p.buf p.i → LPG lp → lp.root.label.stop < 0 → Sh setx (p.buf.take ls) 0 ls lp.root →
    (blocksLP_wellS x).Pre lp ls (p.buf.take p.i) →
    ∀ r p', parseLines (blocksLP x) fuel lp ls p = (.block r, p') → RootCut setx Q p.buf r p'.buf ∧ BPS setx x Q p' := by
  intro fuel
  induction fuel with
  | zero => intro lp ls p _ _ _ _ _ _ _ _ _ _ r p' h; simp [parseLines] at h
  | succ fuel ih =>
    intro lp ls p herr hi hq hls hle1 hle2 hg hro hsh hpre r p' h
    have hlen : (p.buf.take p.i).length = p.i := by simp [hi]
    have hg' := blocksLP_line_LPG x lp hg (p.buf.take p.i) ls
    have hsh' := line_Sh x hsx lp p.buf ls p.i hg hro hls hi hle1 hsh
    -- either the line call closes, or the invariant of `BlocksWell` holds afterwards
    have key : Closes (blocksLP x) blocksJ ((blocksLP x).line lp (p.buf.take p.i) ls) (p.buf.take p.i) ∨
        blocksI (p.buf.take p.i) ((blocksLP x).line lp (p.buf.take p.i) ls) := by
      rcases hpre with ⟨rfl, rfl, hb⟩ | ⟨src0, hI, hpx, rfl⟩ | ⟨src0, k, rest, rfl, hJ, ho, hpx, rfl⟩
      · right; exact (blocksLP_wellS x).fresh _ hb
      · by_cases hl : src0.length < (p.buf.take p.i).length
        · right; exact (blocksLP_wellS x).step _ _ _ hI hpx hl
        · have he := prefix_eq_of_length_ge hpx (by omega)
          left
          rw [← he]
          exact (blocksLP_wellS x).eof _ _ hI
      · by_cases hl : src0.length < (p.buf.take p.i).length
        · right; exact (blocksLP_wellS x).pstep _ _ _ _ hJ ho hpx hl
        · have he := prefix_eq_of_length_ge hpx (by omega)
          left
          rw [← he]
          exact (blocksLP_wellS x).peof _ _ _ hJ ho
    -- the readline that follows
    have hrl : readline (p.rd.data.length + p.rd.sched.length + 2) p =
        (decide (0 < lineLen (p.buf.drop p.i)), { p with i := p.i + lineLen (p.buf.drop p.i) }) :=
      CM.Model.readline_mem (p.rd.data.length + p.rd.sched.length + 1) p herr hi
    have hi2 : p.i + lineLen (p.buf.drop p.i) ≤ p.buf.length := by
      have := lineLen_le (p.buf.drop p.i)
      simp only [List.length_drop] at this
      omega
    simp only [parseLines] at h
    generalize hlp' : (blocksLP x).line lp (p.buf.take p.i) ls = lp' at h hg' hsh' key
    have hpan : (blocksLP x).panicked lp' = none := hg'.panic
    rw [hpan] at h
    simp only [] at h
    have hkids : (blocksLP x).kids lp' = lp'.root.blocks := rfl
    rw [hkids] at h
    obtain ⟨po, e', he', hshk⟩ := Sh_blocks hsh'
    have hKO : KidsOK lp'.root.blocks := kids_of_doc lp'.root hg'.root hg'.g
    cases hmk : makeRoot p lp'.root.blocks with
    | some rp =>
      obtain ⟨r0, p0⟩ := rp
      rw [hmk] at h
      simp only [Prod.mk.injEq, NBOut.block.injEq] at h
      obtain ⟨rfl, rfl⟩ := h
      apply makeRoot_sh hQ p lp'.root.blocks po e' herr hi hq hle2 he' hKO hshk _ _ _ hmk
      intro k rest hk ho
      rcases key with hc | hI
      · rcases hc with ⟨m, hm⟩ | ⟨k', rest', hk', ho', hn', hJ'⟩
        · rw [hpan] at hm; cases hm
        · have hk'' : lp'.root.blocks = k' :: rest' := hk'
          rw [hk] at hk''
          cases hk''
          rw [hlen] at hn'
          exact ⟨hn', hJ'⟩
      · have h1 := (blocksLP_wellS x).ends _ _ hI k (by show k ∈ lp'.root.blocks; rw [hk]; simp) ho
        rw [hlen] at h1
        exact ⟨h1, (blocksLP_wellS x).pend _ _ _ _ hI hk ho⟩
    | none =>
      rw [hmk] at h
      simp only [hrl] at h
      -- the line call did not close: the invariant holds
      have hI : blocksI (p.buf.take p.i) lp' := by
        rcases key with hc | hI
        · exfalso
          rcases hc with ⟨m, hm⟩ | ⟨k', rest', hk', ho', hn', hJ'⟩
          · rw [hpan] at hm; cases hm
          · have hk'' : lp'.root.blocks = k' :: rest' := hk'
            rw [hk''] at hmk
            simp [makeRoot, ho'] at hmk
        · exact hI
      apply ih lp' p.i ({ p with i := p.i + lineLen (p.buf.drop p.i) } : BP) herr hi2 hq (Nat.le_add_right _ _)
        hle2 (LE_next hi) hg' (by rw [hI.1.stop]; decide) hsh' _ r p' h
      right; left
      refine ⟨p.buf.take p.i, hI, ?_, hlen.symm⟩
      exact List.take_prefix_take_left (Nat.le_add_right _ _)

/-! ### skipping blank lines -/

theorem skipBlank_sh {Q : Bytes → Prop} (hQ : Hered Q) : ∀ (fuel : Nat) (p q q' : BP), p.err.isSome = true → p.i ≤ p.buf.length →
    Q p.buf → skipBlank fuel p = (some q, q') →
    q.err.isSome = true ∧ q.i ≤ q.buf.length ∧ Q q.buf ∧ LE q.buf q.i ∧ q.blocks = p.blocks ∧
      isBlankLine (q.buf.take q.i) = false ∧ ∃ g, p.buf = g ++ q.buf := by
  intro fuel
  induction fuel with
  | zero => intro p q q' _ _ _ h; simp [skipBlank] at h
  | succ fuel ih =>
    intro p q q' herr hi hq h
    have hrl : readline (p.rd.data.length + p.rd.sched.length + 2) p =
        (decide (0 < lineLen (p.buf.drop p.i)), { p with i := p.i + lineLen (p.buf.drop p.i) }) :=
      CM.Model.readline_mem (p.rd.data.length + p.rd.sched.length + 1) p herr hi
    have hi2 : p.i + lineLen (p.buf.drop p.i) ≤ p.buf.length := by
      have := lineLen_le (p.buf.drop p.i)
      simp only [List.length_drop] at this
      omega
    simp only [skipBlank, hrl] at h
    split at h
    · cases h
    · split at h
      · rename_i hnb
        simp only [Prod.mk.injEq, Option.some.injEq] at h
        obtain ⟨rfl, _⟩ := h
        exact ⟨herr, hi2, hq, LE_next hi, rfl, by simpa using hnb, [], rfl⟩
      · have key := fun a b c => ih _ q q' a b c h
        obtain ⟨k1, k2, k3, k4, k5, k6, g, k7⟩ := key herr (Nat.zero_le _) (hQ.drop _ _ hq)
        refine ⟨k1, k2, k3, k4, k5, k6, p.buf.take (p.i + lineLen (p.buf.drop p.i)) ++ g, ?_⟩
        rw [List.append_assoc, ← k7]
        exact (List.take_append_drop _ _).symm

/-! ### `NextBlock`, `drain` -/

theorem nextBlock_sh {setx : Bool} (x : PExt) (hsx : SetextStep setx x) {Q : Bytes → Prop} (hQ : Hered Q) (p : BP)
    (hp : BPS setx x Q p) (r : Root) (p' : BP) (h : nextBlock (blocksLP x) p = (.block r, p')) :
    RootCut setx Q p.buf r p'.buf ∧ BPS setx x Q p' := by
  have hlen : (p.buf.take p.i).length = p.i := by simp [hp.ile]
  unfold nextBlock at h
  split at h
  · rename_i r0 p0 hmk
    simp only [Prod.mk.injEq, NBOut.block.injEq] at h
    obtain ⟨rfl, rfl⟩ := h
    apply makeRoot_sh hQ p p.blocks true p.i hp.err hp.ile hp.q hp.le (Int.le_refl _) hp.kids hp.sh _ _ _ hmk
    intro k rest hk ho
    have := (blocksLP_wellS x).pend_cut (p.buf.take p.i) k rest (by rw [← hk]; exact hp.j) ho
    rw [hlen] at this
    exact this
  · rename_i hmk
    simp only [] at h
    have hrl : readline (p.rd.data.length + p.rd.sched.length + 2) p =
        (decide (0 < lineLen (p.buf.drop p.i)), { p with i := p.i + lineLen (p.buf.drop p.i) }) :=
      CM.Model.readline_mem (p.rd.data.length + p.rd.sched.length + 1) p hp.err hp.ile
    have hi2 : p.i + lineLen (p.buf.drop p.i) ≤ p.buf.length := by
      have := lineLen_le (p.buf.drop p.i)
      simp only [List.length_drop] at this
      have := hp.ile
      omega
    split at h
    · -- left-over blocks: continue their session
      rename_i hlen0
      simp only [hrl] at h
      cases hb : p.blocks with
      | nil => rw [hb] at hlen0; simp at hlen0
      | cons k rest =>
        have hko : k.isOpen = true := by
          cases ho : k.isOpen
          · exfalso
            rw [hb] at hmk
            simp [makeRoot, ho] at hmk
          · rfl
        refine parseLines_sh x hsx hQ _ _ p.i ({ p with i := p.i + lineLen (p.buf.drop p.i) } : BP) hp.err hi2 hp.q
          (Nat.le_add_right _ _) hp.le (LE_next hp.ile) (new_LPG x p.blocks hp.kids) (by show (-1 : Int) < 0; decide)
          (docRoot_Sh (by omega) hp.sh) ?_ r p' h
        right; right
        refine ⟨p.buf.take p.i, k, rest, by rw [hb], by rw [← hb]; exact hp.j, hko, ?_, hlen.symm⟩
        exact List.take_prefix_take_left (Nat.le_add_right _ _)
    · -- a fresh session
      rename_i hlen0
      have hbl : p.blocks = [] := by
        cases hb : p.blocks with
        | nil => rfl
        | cons a t => rw [hb] at hlen0; simp at hlen0
      split at h
      · split at h
        · simp at h
        · simp at h
      · rename_i q q2 hsk
        obtain ⟨q1, q2', q3, q4, q5, q6, g, q7⟩ :=
          skipBlank_sh hQ _ _ q q2 (by exact hp.err) (by simp) (hQ.drop _ _ hp.q) hsk
        have hqb : q.blocks = [] := by rw [q5]; exact hbl
        rw [hqb] at h
        have hres := parseLines_sh x hsx hQ _ _ 0 q q1 q2' q3 (Nat.zero_le _) (Or.inl rfl) q4
          (new_LPG x [] (fun _ h => by cases h)) (by show (-1 : Int) < 0; decide)
          (docRoot_Sh (Int.le_refl _) (ShL_nil _ _ _ _ _)) (Or.inl ⟨rfl, rfl, q6⟩) r p' h
        refine ⟨?_, hres.2⟩
        have hb : p.buf = (p.buf.take p.i ++ g) ++ q.buf := by
          have q7' : p.buf.drop p.i = g ++ q.buf := q7
          rw [List.append_assoc, ← q7']
          exact (List.take_append_drop _ _).symm
        rw [hb]
        exact hres.1.prepend _

theorem drain_sh {setx : Bool} (x : PExt) (hsx : SetextStep setx x) {Q : Bytes → Prop} (hQ : Hered Q) : ∀ (fuel : Nat) (p : BP)
    (acc : List Root), BPS setx x Q p → (∀ r ∈ acc, RootSh setx Q r) →
    ∀ r ∈ (drain (blocksLP x) fuel p acc).1, RootSh setx Q r := by
  intro fuel
  induction fuel with
  | zero => intro p acc _ hacc r hr; simp only [drain, List.mem_reverse] at hr; exact hacc r hr
  | succ fuel ih =>
    intro p acc hp hacc r hr
    unfold drain at hr
    split at hr
    · rename_i r0 p0 hnb
      obtain ⟨h1, h2⟩ := nextBlock_sh x hsx hQ p hp r0 p0 hnb
      exact ih p0 (r0 :: acc) h2 (fun r' hr' => by
        rcases List.mem_cons.mp hr' with rfl | hr'
        · exact h1.rootSh
        · exact hacc r' hr') r hr
    · simp only [List.mem_reverse] at hr; exact hacc r hr

theorem memParser_BPS {setx : Bool} (x : PExt) {Q : Bytes → Prop} (inp : Bytes) (hq : Q (padNulls inp 0)) :
    BPS setx x Q (memParser inp) :=
  ⟨rfl, Nat.zero_le _, hq, Or.inl rfl, fun _ h => (by cases h), (blocksLP_wellS x).pend_nil _, ShL_nil _ _ _ _ _⟩

/-- **Every root delivered by the block parser is good in the part of the buffer it was cut from.** -/
theorem drain_rootSh {setx : Bool} (x : PExt) (hsx : SetextStep setx x) {Q : Bytes → Prop} (hQ : Hered Q) (inp : Bytes) (fuel : Nat)
    (hq : Q (padNulls inp 0)) : ∀ r ∈ (drain (blocksLP x) fuel (memParser inp) []).1, RootSh setx Q r :=
  drain_sh x hsx hQ fuel _ [] (memParser_BPS x inp hq) (fun _ h => by cases h)

end CM.Proofs.Shp
