import CM.Proofs.ParseAsmScanCovCode
import CM.Proofs.ParseAsmScanCovStrip
/-
C03, inline half, the field `TokCover.code` — part 3: the field for a container of a block-phase tree, GIVEN the coverage
specification of `stripCodeSpanSpace` (`StripCov`: it only removes a space at each end, or Indent pieces).
-/
namespace CM.Proofs.PSc
open CM CM.Model CM.Model.Inl CM.Gen CM.Spec CM.Proofs CM.Proofs.InlH
open Std.Do

variable {src : Bytes} {Lf : List Tree} {N : Nat}

/-- **open**: `stripCodeSpanSpace` keeps every needed byte of the runs in a piece that is not an Indent piece. -/
def StripCov (c : ICtx) : Prop :=
  ∀ (lo hi : Int) (slice : Array CSN) (s0 : IState),
    ⦃fun s => ⌜s = s0 ∧ CsCovA c lo hi slice⌝⦄ stripCodeSpanSpace c slice ⦃⇓? r s => ⌜s = s0 ∧ CsCovA c lo hi r⌝⦄

theorem addRootA_sub (a : Array INode) (n : INode) : ((addRootA a n)[a.size]!).sub = n.sub := by
  by_cases h : 0 < a.size
  · rw [addRootA_new n h]
  · have : a = #[] := Array.eq_empty_of_size_eq_zero (by omega)
    subst this
    rfl

theorem needsCover_tick : needsCover 0x60 = false := by decide +kernel

theorem tick_noNeed (x : IExt) (m : Bytes → Bool) {a n : Nat} (h : TickRun src a n) (j : Int) (h1 : (a : Int) ≤ j)
    (h2 : j < ((a + n : Nat) : Int)) : ¬ NeedAt (inlCtx x src src.toArray m Lf) j := by
  intro hn
  have hi := h (j.toNat - a) (by omega)
  have e : a + (j.toNat - a) = j.toNat := by omega
  rw [e] at hi
  have hlt : j.toNat < src.length := (List.getElem?_eq_some_iff.1 hi).1
  have h3 := hn.2
  have hA : (inlCtx x src src.toArray m Lf).srcA = src.toArray := rfl
  rw [hA, srcA_get src _ hlt, List.getD_eq_getElem?_getD, hi] at h3
  simp only [Option.getD_some] at h3
  rw [needsCover_tick] at h3
  cases h3

/-- **The field `TokCover.code`**, given `StripCov`. -/
theorem tokCov_code (x : IExt) (m : Bytes → Bool) (hc : RC2 src Lf N) (H : CSHyp Lf src src.length)
    (hS : StripCov (inlCtx x src src.toArray m Lf)) : CodeCovField (inlCtx x src src.toArray m Lf) := by
  intro s s' pos cs h0 h1 h2 hrun hu hlt hv t t' htu hrt j hj1 hj2 hr hn
  have hu' : s.unparsedPos < Lf.length := by simpa [inlCtx] using hu
  have hlt' : pos < (Lf[s.unparsedPos]).label.stop := by
    rw [spanEndOf_lt _ s hu] at hlt
    have := toArray_get! Lf _ hu'
    simp only [inlCtx] at hlt
    rw [this] at hlt
    exact hlt
  obtain ⟨K, hf, g1, g2, g3, g4, g5, g6⟩ := csFacts_of x m hc H s s' pos cs h0 h1 h2 hrun hu' hlt' hv
  have hsz : src.toArray.size = src.length := by simp
  have h1' : pos < (src.toArray.size : Int) := h1
  have hp : pos.toNat < src.length := by omega
  have hstart : (inlCtx x src src.toArray m Lf).src[pos.toNat]? = some 0x60 := by
    show src[pos.toNat]? = some 0x60
    have h2' : src.toArray[pos.toNat]! = 0x60 := h2
    rw [srcA_get src _ hp] at h2'
    rw [List.getElem?_eq_getElem hp]
    rw [List.getD_eq_getElem?_getD, List.getElem?_eq_getElem hp] at h2'
    simpa using h2'
  have hres : CodeRes (Lf.drop s.unparsedPos) src pos cs :=
    triple_run (parseCodeSpan_res (inlCtx x src src.toArray m Lf) pos src.length h0 (by omega) hstart H s) rfl hrun
  obtain ⟨n, pE, hn1, e1, e2, e3, e4, e5, tr1, tr2, -⟩ := hres.2 hv
  have hf' : CsFacts (inlCtx x src src.toArray m Lf) cs t.unparsedPos K := by rw [htu]; exact hf
  obtain ⟨kids, hcov, ht'⟩ := triple_run (collectCodeSpan_C _ cs K t hf' (fun slice s0 => hS _ _ slice s0)) rfl hrt
  rw [ht']
  have hsub := addRootA_sub t.nodes (csNode cs kids)
  -- the backticks
  by_cases hin : cs.content.start ≤ j ∧ j < cs.content.stop
  · obtain ⟨k, hk, hkind, -, k1, k2⟩ := hcov j hin.1 hin.2 hr hn
    right
    rw [hsub]
    refine ⟨k.toTree, ?_, ?_, k1, k2⟩
    · show k.toTree ∈ T.nodesL (kids.toList.map CSN.toTree)
      exact nodesL_of_mem (List.mem_map_of_mem hk) (self_mem_nodes _)
    · rfl
  · exfalso
    rw [e2, e3] at hin
    rcases Int.lt_or_le j ((pos.toNat + n : Nat) : Int) with hl | hl
    · exact tick_noNeed x m tr1 j (by omega) hl hn
    · have : (pE : Int) ≤ j := by omega
      rw [e4] at hj2
      exact tick_noNeed x m tr2 j this hj2 hn

end CM.Proofs.PSc

#print axioms CM.Proofs.PSc.tokCov_code
