import CM.Basic.Forall
import CM.Model.Recognize
import CM.Spec.Regular
import CM.Props.C15
/-
The line recognizers `parseThematicBreak`, `parseSetextHeadingUnderline`, `parseListMarker`
of the model equal the CommonMark readings `Spec.thematicBreak`, `Spec.setextUnderline`,
`Spec.listMarker`, for every byte list (no line-shape or length hypothesis).
-/
namespace CM.Proofs
open CM

/-! ### Byte facts (all 256 bytes, kernel-evaluated) -/

theorem genWs_eq : Gen.isSpaceTabOrLineEnding = Spec.isWs := by
  funext c; exact Props.C15.isSpaceTabOrLineEnding_eq_spec c

theorem genDigit_eq : Gen.isASCIIDigit = Spec.isASCIIDigit := by
  funext c; exact Props.C15.isASCIIDigit_eq_spec c

/-- The thematic-break marker test of the model. -/
def isMark (b : UInt8) : Bool := b == 0x2D || b == 0x5F || b == 0x2A

theorem mark_not_ws : ∀ b : UInt8, isMark b = true → Spec.isWs b = false := by
  apply forall_uint8; decide +kernel

theorem modelWs_eq : ∀ b : UInt8, (b == SP || b == TAB || b == CR || b == LF) = Spec.isWs b := by
  apply forall_uint8; decide +kernel

theorem digit_sub : ∀ c : UInt8, Spec.isASCIIDigit c = true → (c - 0x30).toNat = c.toNat - 48 := by
  apply forall_uint8; decide +kernel

/-! ### `dropRight` -/

theorem dropWhile_eq_nil (p : UInt8 → Bool) (l : Bytes) :
    l.dropWhile p = [] ↔ ∀ x ∈ l, p x = true := by
  induction l with
  | nil => simp
  | cons a l ih =>
    by_cases h : p a = true
    · simp [h, ih]
    · simp [h]

theorem dropRight_eq_nil (p : UInt8 → Bool) (l : Bytes) :
    Spec.dropRight p l = [] ↔ l.all p = true := by
  simp [Spec.dropRight, dropWhile_eq_nil]

theorem dropRight_cons (p : UInt8 → Bool) (b : UInt8) (l : Bytes) :
    Spec.dropRight p (b :: l) =
      if l.all p then (if p b then [] else [b]) else b :: Spec.dropRight p l := by
  by_cases h : l.all p = true
  · have h' : l.reverse.dropWhile p = [] := by
      simpa [Spec.dropRight] using (dropRight_eq_nil p l).2 h
    simp only [Spec.dropRight, List.reverse_cons, List.dropWhile_append, h', h]
    by_cases hb : p b = true <;> simp [hb]
  · have h' : ¬ (l.reverse.dropWhile p = []) := by
      intro hh; apply h; apply (dropRight_eq_nil p l).1; simp [Spec.dropRight, hh]
    simp only [Spec.dropRight, List.reverse_cons, List.dropWhile_append, h]
    simp [h']

theorem dropRight_length_cons_all (p : UInt8 → Bool) (b : UInt8) (l : Bytes) (h : l.all p = true) :
    (Spec.dropRight p (b :: l)).length = if p b then 0 else 1 := by
  rw [dropRight_cons, if_pos h]; split <;> rfl

theorem dropRight_length_cons_not (p : UInt8 → Bool) (b : UInt8) (l : Bytes) (h : ¬ l.all p = true) :
    (Spec.dropRight p (b :: l)).length = (Spec.dropRight p l).length + 1 := by
  rw [dropRight_cons, if_neg h]; rfl

/-! ### parseThematicBreak -/

def nws (b : UInt8) : Bool := !Spec.isWs b

theorem filter_nws_ws (b : UInt8) (l : Bytes) (h : Spec.isWs b = true) :
    (b :: l).filter nws = l.filter nws := by simp [nws, h]

theorem filter_nws_nws (b : UInt8) (l : Bytes) (h : Spec.isWs b = false) :
    (b :: l).filter nws = b :: l.filter nws := by simp [nws, h]

theorem filter_nws_nil (l : Bytes) : l.filter nws = [] ↔ l.all Spec.isWs = true := by
  simp [List.filter_eq_nil_iff, nws]

theorem all_ws_cons (b : UInt8) (l : Bytes) (h : Spec.isWs b = true) :
    (b :: l).all Spec.isWs = l.all Spec.isWs := by simp [h]

theorem all_ws_cons_not (b : UInt8) (l : Bytes) (h : Spec.isWs b = false) :
    (b :: l).all Spec.isWs = false := by simp [h]

/-- One step of the loop, with the byte tests folded into `isMark` / `Spec.isWs`. -/
theorem thematicLoop_cons (b : UInt8) (rest : Bytes) (i n : Nat) (want : UInt8) (e : Nat) :
    Model.thematicLoop (b :: rest) i n want e =
      if isMark b then
        if n = 0 then Model.thematicLoop rest (i + 1) 1 b (i + 1)
        else if b ≠ want then none
        else Model.thematicLoop rest (i + 1) (n + 1) want (i + 1)
      else if Spec.isWs b then Model.thematicLoop rest (i + 1) n want e
      else none := by
  rw [Model.thematicLoop, modelWs_eq b]
  simp [isMark]

/-- Closed form of the loop once a first marker `want` has been seen (`n > 0`). -/
theorem thematicLoop_pos (want : UInt8) (hw : isMark want = true) :
    ∀ (l : Bytes) (i n e : Nat), 0 < n →
      Model.thematicLoop l i n want e =
        if (l.filter nws).all (· == want) then
          some (n + (l.filter nws).length,
                if l.all Spec.isWs then e else i + (Spec.dropRight Spec.isWs l).length)
        else none := by
  intro l
  induction l with
  | nil => intro i n e _; simp [Model.thematicLoop]
  | cons b rest ih =>
    intro i n e hn
    have hn0 : ¬ n = 0 := by omega
    rw [thematicLoop_cons]
    by_cases hm : isMark b = true
    · have hws := mark_not_ws b hm
      rw [if_pos hm, if_neg hn0, filter_nws_nws b rest hws, all_ws_cons_not b rest hws]
      by_cases hbw : b = want
      · subst hbw
        rw [if_neg (by simp), ih (i + 1) (n + 1) (i + 1) (by omega)]
        simp only [List.all_cons, beq_self_eq_true, Bool.true_and, List.length_cons]
        by_cases hall : (rest.filter nws).all (· == b) = true
        · rw [if_pos hall, if_pos hall]
          by_cases hr : rest.all Spec.isWs = true
          · rw [dropRight_length_cons_all _ _ _ hr]; simp [hr, hws]; omega
          · rw [dropRight_length_cons_not _ _ _ hr]; simp [hr]; omega
        · rw [if_neg hall, if_neg hall]
      · rw [if_pos hbw]; simp [hbw]
    · have hm' : isMark b = false := by simpa using hm
      rw [if_neg hm]
      by_cases hws : Spec.isWs b = true
      · rw [if_pos hws, filter_nws_ws b rest hws, all_ws_cons b rest hws, ih (i + 1) n e hn]
        by_cases hall : (rest.filter nws).all (· == want) = true
        · rw [if_pos hall, if_pos hall]
          by_cases hr : rest.all Spec.isWs = true
          · simp [hr]
          · rw [dropRight_length_cons_not _ _ _ hr]; simp [hr]; omega
        · rw [if_neg hall, if_neg hall]
      · have hws' : Spec.isWs b = false := by simpa using hws
        have hbw : ¬ b = want := by intro h; subst h; simp [hw] at hm'
        rw [if_neg hws, filter_nws_nws b rest hws']
        simp [hbw]

/-- Closed form of the loop before any marker has been seen (`n = 0`). -/
theorem thematicLoop_zero :
    ∀ (l : Bytes) (i : Nat) (want : UInt8) (e : Nat),
      Model.thematicLoop l i 0 want e =
        match l.filter nws with
        | [] => some (0, e)
        | ch :: ms =>
          if isMark ch && ms.all (· == ch) then
            some (1 + ms.length, i + (Spec.dropRight Spec.isWs l).length)
          else none := by
  intro l
  induction l with
  | nil => intro i want e; simp [Model.thematicLoop]
  | cons b rest ih =>
    intro i want e
    rw [thematicLoop_cons]
    by_cases hm : isMark b = true
    · have hws := mark_not_ws b hm
      rw [if_pos hm, if_pos rfl, filter_nws_nws b rest hws,
        thematicLoop_pos b hm rest (i + 1) 1 (i + 1) (by omega)]
      simp only [hm, Bool.true_and]
      by_cases hall : (rest.filter nws).all (· == b) = true
      · rw [if_pos hall, if_pos hall]
        by_cases hr : rest.all Spec.isWs = true
        · rw [dropRight_length_cons_all _ _ _ hr]; simp [hr, hws]
        · rw [dropRight_length_cons_not _ _ _ hr]; simp [hr]; omega
      · rw [if_neg hall, if_neg hall]
    · have hm' : isMark b = false := by simpa using hm
      rw [if_neg hm]
      by_cases hws : Spec.isWs b = true
      · rw [if_pos hws, filter_nws_ws b rest hws, ih (i + 1) want e]
        cases hf : rest.filter nws with
        | nil => rfl
        | cons ch ms =>
          have hr : ¬ (rest.all Spec.isWs = true) := by
            intro hall; rw [(filter_nws_nil rest).2 hall] at hf; cases hf
          simp only [dropRight_length_cons_not _ _ _ hr]
          by_cases hc : (isMark ch && ms.all (· == ch)) = true
          · rw [if_pos hc, if_pos hc]; simp; omega
          · rw [if_neg hc, if_neg hc]
      · have hws' : Spec.isWs b = false := by simpa using hws
        rw [if_neg hws, filter_nws_nws b rest hws']
        simp [hm']

theorem thematicBreak_eq_spec (line : Bytes) :
    Model.parseThematicBreak line =
      (match Spec.thematicBreak line with | some e => (e : Int) | none => -1) := by
  unfold Model.parseThematicBreak Spec.thematicBreak
  rw [thematicLoop_zero]
  have hf : (line.filter fun b => !Spec.isWs b) = line.filter nws := rfl
  rw [hf]
  cases line.filter nws with
  | nil => simp
  | cons ch ms =>
    simp only
    by_cases h1 : (isMark ch && ms.all (· == ch)) = true
    · have h1' : ((ch == 0x2D || ch == 0x5F || ch == 0x2A) && ms.all (· == ch)) = true := h1
      by_cases h3 : ms.length + 1 ≥ 3
      · have : ¬ (1 + ms.length < 3) := by omega
        simp [h1, h1', h3, this]
      · have : (1 + ms.length < 3) := by omega
        simp [h1, h1', h3, this]
    · have h1' : ¬ ((ch == 0x2D || ch == 0x5F || ch == 0x2A) && ms.all (· == ch)) = true := h1
      simp [h1, h1']

/-! ### parseSetextHeadingUnderline -/

theorem isBlankLine_eq (l : Bytes) : Model.isBlankLine l = l.all Spec.isWs := by
  rw [Model.isBlankLine, genWs_eq]

/-- Closed form of `setextRest`: skip the run of `c`, the remainder is blank. -/
theorem setextRest_eq (c : UInt8) : ∀ l : Bytes,
    Model.setextRest c l = (l.dropWhile (· == c)).all Spec.isWs := by
  intro l
  induction l with
  | nil => simp [Model.setextRest]
  | cons b rest ih =>
    rw [Model.setextRest]
    by_cases h : b = c
    · subst h; simp [ih]
    · have h1 : (b != c) = true := by simp [h]
      rw [if_pos h1, isBlankLine_eq]
      simp [h]

theorem setext_eq_spec (line : Bytes) :
    Model.parseSetextHeadingUnderline line = (Spec.setextUnderline line).getD 0 := by
  cases line with
  | nil => rfl
  | cons c rest =>
    simp only [Model.parseSetextHeadingUnderline, Spec.setextUnderline, setextRest_eq]
    have hd : (c :: rest).dropWhile (· == c) = rest.dropWhile (· == c) := by simp
    rw [hd]
    by_cases h1 : c = 0x3D
    · subst h1; by_cases hb : (rest.dropWhile (· == (0x3D : UInt8))).all Spec.isWs = true <;> simp [hb]
    · by_cases h2 : c = 0x2D
      · subst h2; by_cases hb : (rest.dropWhile (· == (0x2D : UInt8))).all Spec.isWs = true <;> simp [hb]
      · simp [h1, h2]

/-! ### parseListMarker -/

theorem hasPrefix_eq (l : Bytes) :
    Model.hasTabOrSpacePrefixOrEOL l = (l.isEmpty || Spec.isWs (l.headD 0)) := by
  cases l with
  | nil => rfl
  | cons b rest => simp [Model.hasTabOrSpacePrefixOrEOL, genWs_eq]

/-- The model's "followed by space/tab/line ending or end" test. -/
def follows (l : Bytes) : Bool := l.isEmpty || Spec.isWs (l.headD 0)

def decStep (acc : Nat) (d : UInt8) : Nat := acc * 10 + (d.toNat - 48)

def isDelim (c : UInt8) : Bool := c == 0x2E || c == 0x29

/-- What follows the digits: a delimiter, then space/tab/line ending or the end. -/
def markerTail (l : Bytes) (n stop : Nat) : Model.ListMarker :=
  match l with
  | [] => Model.noMarker
  | d :: after =>
    if isDelim d then
      if follows after then ⟨d, n, (stop : Int)⟩ else Model.noMarker
    else Model.noMarker

theorem listMarkerLoop_cons (c : UInt8) (rest : Bytes) (i n : Nat) :
    Model.listMarkerLoop (c :: rest) i n =
      if i ≥ 10 then Model.noMarker
      else if Spec.isASCIIDigit c then Model.listMarkerLoop rest (i + 1) (n * 10 + (c - 0x30).toNat)
      else if isDelim c then
        if follows rest then ⟨c, n, ((i + 1 : Nat) : Int)⟩ else Model.noMarker
      else Model.noMarker := by
  rw [Model.listMarkerLoop, genDigit_eq, hasPrefix_eq]
  have hmd : Gen.maxDigits + 1 = 10 := rfl
  by_cases hi : i ≥ 10
  · rw [if_pos hi, if_pos (by omega)]
  · rw [if_neg hi, if_neg (by omega)]
    change (if _ then _ else if isDelim c = true then (if (!follows rest) = true then _ else _) else _) = _
    cases follows rest <;> simp

/-- Closed form of the digit loop. -/
theorem listMarkerLoop_eq : ∀ (l : Bytes) (i n : Nat),
    Model.listMarkerLoop l i n =
      if i + (l.takeWhile Spec.isASCIIDigit).length ≥ 10 then Model.noMarker
      else markerTail (l.drop (l.takeWhile Spec.isASCIIDigit).length)
        ((l.takeWhile Spec.isASCIIDigit).foldl decStep n)
        (i + (l.takeWhile Spec.isASCIIDigit).length + 1) := by
  intro l
  induction l with
  | nil => intro i n; simp [Model.listMarkerLoop, markerTail]
  | cons c rest ih =>
    intro i n
    rw [listMarkerLoop_cons]
    by_cases hi : i ≥ 10
    · rw [if_pos hi, if_pos (by omega)]
    · rw [if_neg hi]
      by_cases hd : Spec.isASCIIDigit c = true
      · rw [if_pos hd, ih, digit_sub c hd, List.takeWhile_cons_of_pos hd]
        simp only [List.length_cons, List.drop_succ_cons, List.foldl_cons, decStep]
        by_cases hlen : i + 1 + (rest.takeWhile Spec.isASCIIDigit).length ≥ 10
        · rw [if_pos hlen, if_pos (by omega)]
        · rw [if_neg hlen, if_neg (by omega)]
          congr 1
          omega
      · rw [if_neg hd, List.takeWhile_cons_of_neg hd]
        simp only [List.length_nil, List.drop_zero, List.foldl_nil, Nat.add_zero]
        rw [if_neg hi]
        rfl

theorem listMarker_cons (c : UInt8) (rest : Bytes) :
    Model.parseListMarker (c :: rest) =
      if (c == 0x2D || c == 0x2B || c == 0x2A) then
        if follows rest then ⟨c, 0, 1⟩ else Model.noMarker
      else if Spec.isASCIIDigit c then Model.listMarkerLoop rest 1 (c - 0x30).toNat
      else Model.noMarker := by
  rw [Model.parseListMarker, genDigit_eq, hasPrefix_eq]
  change (if _ then (if (!follows rest) = true then _ else _) else _) = _
  cases follows rest <;> simp

theorem listMarker_eq_spec (line : Bytes) :
    Model.parseListMarker line = (match Spec.listMarker line with
      | some m => (⟨m.delim, m.n, (m.stop : Int)⟩ : Model.ListMarker) | none => Model.noMarker) := by
  cases line with
  | nil => rfl
  | cons c rest =>
    rw [listMarker_cons, Spec.listMarker]
    by_cases hb : (c == 0x2D || c == 0x2B || c == 0x2A) = true
    · rw [if_pos hb, if_pos hb]
      by_cases hf : follows rest = true
      · have hf' : (rest.isEmpty || Spec.isWs (rest.headD 0)) = true := hf
        rw [if_pos hf, if_pos hf']; rfl
      · have hf' : ¬ (rest.isEmpty || Spec.isWs (rest.headD 0)) = true := hf
        rw [if_neg hf, if_neg hf']
    · rw [if_neg hb, if_neg hb]
      simp only []
      by_cases hd : Spec.isASCIIDigit c = true
      · rw [if_pos hd, listMarkerLoop_eq, digit_sub c hd, List.takeWhile_cons_of_pos hd]
        simp only [List.length_cons, List.drop_succ_cons]
        by_cases hlen : 1 + (rest.takeWhile Spec.isASCIIDigit).length ≥ 10
        · have : (((rest.takeWhile Spec.isASCIIDigit).length + 1 == 0 ||
              decide ((rest.takeWhile Spec.isASCIIDigit).length + 1 > 9)) = true) := by
            simp; omega
          rw [if_pos hlen, if_pos this]
        · have : ¬ (((rest.takeWhile Spec.isASCIIDigit).length + 1 == 0 ||
              decide ((rest.takeWhile Spec.isASCIIDigit).length + 1 > 9)) = true) := by
            simp; omega
          rw [if_neg hlen, if_neg this]
          have hdec : Spec.decimal (c :: rest.takeWhile Spec.isASCIIDigit) =
              (rest.takeWhile Spec.isASCIIDigit).foldl decStep (c.toNat - 48) := by
            simp [Spec.decimal]; rfl
          rw [hdec]
          cases rest.drop (rest.takeWhile Spec.isASCIIDigit).length with
          | nil => rfl
          | cons d after =>
            simp only [markerTail]
            by_cases hdl : isDelim d = true
            · have hdl' : ¬ (!(d == 0x2E || d == 0x29)) = true := by
                have h : (d == 0x2E || d == 0x29) = true := hdl
                rw [h]; simp
              rw [if_pos hdl, if_neg hdl']
              by_cases hf : follows after = true
              · have hf' : (after.isEmpty || Spec.isWs (after.headD 0)) = true := hf
                rw [if_pos hf, if_pos hf']
                simp only [Model.ListMarker.mk.injEq, true_and]
                omega
              · have hf' : ¬ (after.isEmpty || Spec.isWs (after.headD 0)) = true := hf
                rw [if_neg hf, if_neg hf']
            · have hdl' : (!(d == 0x2E || d == 0x29)) = true := by
                have h : ¬ (d == 0x2E || d == 0x29) = true := hdl
                simpa using h
              rw [if_neg hdl, if_pos hdl']
      · rw [if_neg hd, List.takeWhile_cons_of_neg hd]
        simp

/-! ### Non-vacuity and concrete evaluations

The three main theorems have no hypotheses; the examples below show that both sides take
non-trivial values (recognized and rejected lines, with line endings and with bytes that are not
part of a *line*, e.g. an interior LF), and that the closed forms of the loops are exercised with
non-zero accumulators. `s!` strings are written as byte lists:
`-`=0x2D `_`=0x5F `*`=0x2A `=`=0x3D `+`=0x2B `.`=0x2E `)`=0x29 `0`..`9`=0x30..0x39. -/

-- "- - -\r\n" is a thematic break ending at 5; the model agrees
example : Spec.thematicBreak [0x2D, 0x20, 0x2D, 0x20, 0x2D, 0x0D, 0x0A] = some 5 := by decide +kernel
example : Model.parseThematicBreak [0x2D, 0x20, 0x2D, 0x20, 0x2D, 0x0D, 0x0A] = 5 := by decide +kernel
-- "**\t* \n" ends at 4
example : Model.parseThematicBreak [0x2A, 0x2A, 0x09, 0x2A, 0x20, 0x0A] = 4 := by decide +kernel
-- "--\n": too short; "-_-": mixed; "--a-": other byte
example : Spec.thematicBreak [0x2D, 0x2D, 0x0A] = none := by decide +kernel
example : Model.parseThematicBreak [0x2D, 0x2D, 0x0A] = -1 := by decide +kernel
example : Model.parseThematicBreak [0x2D, 0x5F, 0x2D] = -1 := by decide +kernel
example : Spec.thematicBreak [0x2D, 0x5F, 0x2D] = none := by decide +kernel
example : Model.parseThematicBreak [0x2D, 0x2D, 0x61, 0x2D] = -1 := by decide +kernel
-- not a line (interior LF): both sides still agree, "-\n-\r-" ends at 5
example : Model.parseThematicBreak [0x2D, 0x0A, 0x2D, 0x0D, 0x2D] = 5 := by decide +kernel
example : Spec.thematicBreak [0x2D, 0x0A, 0x2D, 0x0D, 0x2D] = some 5 := by decide +kernel
-- the loop's closed form with a non-zero start index and count
example : Model.thematicLoop [0x20, 0x2A, 0x09] 7 2 0x2A 7 = some (3, 9) := by decide +kernel

-- "===  \n" = 1, "--\r\n" = 2, "== =" = 0, "-x" = 0, "" = 0
example : Model.parseSetextHeadingUnderline [0x3D, 0x3D, 0x3D, 0x20, 0x20, 0x0A] = 1 := by decide +kernel
example : Spec.setextUnderline [0x3D, 0x3D, 0x3D, 0x20, 0x20, 0x0A] = some 1 := by decide +kernel
example : Model.parseSetextHeadingUnderline [0x2D, 0x2D, 0x0D, 0x0A] = 2 := by decide +kernel
example : Spec.setextUnderline [0x2D, 0x2D, 0x0D, 0x0A] = some 2 := by decide +kernel
example : Model.parseSetextHeadingUnderline [0x3D, 0x3D, 0x20, 0x3D] = 0 := by decide +kernel
example : Spec.setextUnderline [0x3D, 0x3D, 0x20, 0x3D] = none := by decide +kernel
example : Model.parseSetextHeadingUnderline [0x2D, 0x78] = 0 := by decide +kernel
example : Model.parseSetextHeadingUnderline [] = 0 := by decide +kernel

-- "- a" bullet; "123456789. x" ordered with 9 digits; "1234567890." too long; "1)" at end of input
example : Model.parseListMarker [0x2D, 0x20, 0x61] = ⟨0x2D, 0, 1⟩ := by decide +kernel
example : Spec.listMarker [0x2D, 0x20, 0x61] = some ⟨0x2D, 0, 1⟩ := by decide +kernel
example : Model.parseListMarker [0x31, 0x32, 0x33, 0x34, 0x35, 0x36, 0x37, 0x38, 0x39, 0x2E, 0x20, 0x78]
    = ⟨0x2E, 123456789, 10⟩ := by decide +kernel
example : Spec.listMarker [0x31, 0x32, 0x33, 0x34, 0x35, 0x36, 0x37, 0x38, 0x39, 0x2E, 0x20, 0x78]
    = some ⟨0x2E, 123456789, 10⟩ := by decide +kernel
example : Model.parseListMarker [0x31, 0x32, 0x33, 0x34, 0x35, 0x36, 0x37, 0x38, 0x39, 0x30, 0x2E, 0x0A]
    = Model.noMarker := by decide +kernel
example : Spec.listMarker [0x31, 0x32, 0x33, 0x34, 0x35, 0x36, 0x37, 0x38, 0x39, 0x30, 0x2E, 0x0A]
    = none := by decide +kernel
example : Model.parseListMarker [0x31, 0x29] = ⟨0x29, 1, 2⟩ := by decide +kernel
example : Spec.listMarker [0x31, 0x29] = some ⟨0x29, 1, 2⟩ := by decide +kernel
-- "-x", "1.x", "12", "+" followed by CR
example : Model.parseListMarker [0x2D, 0x78] = Model.noMarker := by decide +kernel
example : Spec.listMarker [0x2D, 0x78] = none := by decide +kernel
example : Model.parseListMarker [0x31, 0x2E, 0x78] = Model.noMarker := by decide +kernel
example : Model.parseListMarker [0x31, 0x32] = Model.noMarker := by decide +kernel
example : Model.parseListMarker [0x2B, 0x0D] = ⟨0x2B, 0, 1⟩ := by decide +kernel
-- the digit loop with a non-trivial accumulator
example : Model.listMarkerLoop [0x30, 0x37, 0x29, 0x09] 3 12 = ⟨0x29, 1207, 6⟩ := by decide +kernel

end CM.Proofs
