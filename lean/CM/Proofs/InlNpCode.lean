import CM.Proofs.InlNpRun
/-
C04, inline half — code spans: `parseCodeSpan` does not panic; what is assumed of `collectCodeSpan`.
-/
namespace CM.Proofs.InlH
open CM CM.Model CM.Model.Inl CM.Gen
open Std.Do

set_option mvcgen.warning false

theorem parseCodeSpan_np0 (c : ICtx) (pos : Int) (s0 : IState) :
    ⦃fun s => ⌜s = s0 ∧ s0.unparsedPos ≤ c.unparsed.size⌝⦄ parseCodeSpan c pos ⦃⇓! _ _ => ⌜True⌝⦄ := by
  mvcgen [parseCodeSpan, -parseCodeSpan_spec]
  case inv1 => exact PostCond.np (fun _ _ => ⌜True⌝)
  case inv3 => exact PostCond.np (fun _ _ => ⌜True⌝)
  case inv4 => exact PostCond.np (fun _ _ => ⌜True⌝)
  case inv5 => exact PostCond.np (fun _ _ => ⌜True⌝)
  np_norm
  all_goals (try trivial)
  all_goals (try (exact fun h => h))
  all_goals (try (exact ExceptConds.entails.refl _))
  obtain ⟨rfl, h⟩ := ‹_ = s0 ∧ _›
  exact ⟨trivial, h⟩

@[spec 30000]
theorem parseCodeSpan_np (c : ICtx) (pos : Int) (s0 : IState) :
    ⦃fun s => ⌜s = s0 ∧ s0.unparsedPos ≤ c.unparsed.size⌝⦄ parseCodeSpan c pos
    ⦃⇓! r s => ⌜s = s0 ∧ (parseCodeSpan c pos).run s0 = .ok (r, s0)⌝⦄ :=
  np_of_post (parseCodeSpan_np0 c pos s0) (fun s h => parseCodeSpan_specP c pos s0 s h.1)

/-- a computation that does not panic in the given state, by its run -/
theorem run_np {α} (m : IM α) (s0 : IState) :
    ⦃fun s => ⌜s = s0 ∧ ∀ msg, m.run s0 ≠ .error (.panic msg)⌝⦄ m ⦃⇓! r s => ⌜m.run s0 = .ok (r, s)⌝⦄ := by
  apply (triple_iff_postNP _ _ _).2
  intro s hs
  obtain ⟨rfl, h⟩ := hs
  cases hr : m.run s with
  | ok p => rfl
  | error e =>
    cases e with
    | fuel _ => trivial
    | panic msg => exact h msg hr

/-- **The hypothesis about code spans for the absence of panics**: after a successful `parseCodeSpan` at a backtick of
    the current run, `collectCodeSpan` (walking over the runs the code span covers, cutting it at the line endings,
    stripping one space at both ends) does not panic. -/
structure TokNP (c : ICtx) : Prop where
  code : ∀ (s : IState) (pos : Int) (cs : CodeSpan),
    0 ≤ pos → pos < c.srcA.size → c.srcA[pos.toNat]! = 0x60 →
    (parseCodeSpan c pos).run s = .ok (cs, s) → s.unparsedPos < c.unparsed.size → pos < spanEndOf c s →
    cs.span.isValid = true →
    ∀ t : IState, t.unparsedPos = s.unparsedPos → ∀ msg, (collectCodeSpan c cs).run t ≠ .error (.panic msg)

@[spec 30000]
theorem collectCodeSpan_np (c : ICtx) (cs : CodeSpan) (s0 : IState) :
    ⦃fun s => ⌜s = s0 ∧ ∀ msg, (collectCodeSpan c cs).run s0 ≠ .error (.panic msg)⌝⦄ collectCodeSpan c cs
    ⦃⇓! r s => ⌜(collectCodeSpan c cs).run s0 = .ok (r, s)⌝⦄ := run_np _ s0

@[spec 30000]
theorem tokCode_np (L : Lims) (c : ICtx) (hU : UnpOK c L) (hT : TokScan c L.hi) (hN : TokNP c) (s : IState)
    (pos plainStart : Int) (done : Bool) (hb : 0 ≤ pos ∧ pos < c.srcA.size ∧ c.srcA[pos.toNat]! = 0x60) :
    ⦃fun st => ⌜st = s ∧ RunInv L c (pos, plainStart, done) s ∧ s.unparsedPos < c.unparsed.size ∧
        pos < spanEndOf c s⌝⦄
    tokCode c pos plainStart done
    ⦃⇓! r st => ⌜RunInv L c r.value st⌝⦄ := by
  mvcgen [tokCode, addText, -collectCodeSpan_spec, -collectCodeSpan_specS, -collectCodeSpan_specP,
    -parseCodeSpan_specP, -parseCodeSpan_spec, -tokCode_specP, -addLeaf_np1]
  all_goals (try (exact fun h => h))
  all_goals (try (exact ExceptConds.entails.refl _))
  all_goals tok_setup
  -- `unparsedFrom` in `parseCodeSpan`
  · exact ⟨trivial, by omega⟩
  all_goals (
    have hrun := ‹StateT.run (parseCodeSpan _ _) _ = _›
    have hcode := hT.code _ _ _ _ hb.1 hb.2.1 hb.2.2 hrun hu hlt)
  -- `addText` before the code span
  · obtain ⟨c1, c2, c3, -⟩ := hcode.1 ‹_›
    exact ⟨trivial, hsp, by omega⟩
  -- `collectCodeSpan` does not panic
  · obtain ⟨hq, hq2, -⟩ := ‹SPT _ _ (max _ _) _ ∧ _›
    exact ⟨trivial, hN.code _ _ _ hb.1 hb.2.1 hb.2.2 hrun hu hlt ‹_› _ hq2⟩
  -- the code span
  · obtain ⟨c1, c2, c3, c4⟩ := hcode.1 ‹_›
    obtain ⟨hq, hq2, -⟩ := ‹SPT _ _ (max _ _) _ ∧ _›
    obtain ⟨n, n1, n2, n3, n4, n5, n6, n7, n8, n9⟩ := c4 _ _ hq2 ‹StateT.run (collectCodeSpan _ _) _ = _›
    have hfin := SP.addRoot (SP.mono (F' := n.start) hq (by omega) (by omega)) n n1 (Int.le_refl _) (by omega) (by omega)
      n4 n5 n6 n7 n8
    rw [n3] at hfin
    exact ⟨hfin, Int.le_refl _, n9⟩
  -- no code span
  · have := hcode.2 ‹_›
    exact ⟨hsp, by show plainStart ≤ (CodeSpan.content _).start; omega, hpo⟩

@[spec 30000]
theorem tokSp_np (L : Lims) (c : ICtx) (hU : UnpOK c L) (hA : L.hi ≤ c.srcA.size) (s : IState) (pos plainStart : Int)
    (done : Bool) :
    ⦃fun st => ⌜st = s ∧ RunInv L c (pos, plainStart, done) s ∧ s.unparsedPos < c.unparsed.size ∧
        pos < spanEndOf c s⌝⦄
    tokSp c s pos plainStart done
    ⦃⇓! r st => ⌜RunInv L c r.value st⌝⦄ := by
  mvcgen [tokSp, isLastSpan, addText, setIgnoreNextIndent, -tokSp_specP, -addLeaf_np1]
  all_goals (try (exact fun h => h))
  all_goals (try (exact ExceptConds.entails.refl _))
  all_goals tok_setup
  all_goals unp_norm
  all_goals (try (have hhb := hardBreak_le' ‹0 ≤ pos› ‹pos ≤ _› ‹_ ≤ (c.srcA.size : Int)› ‹_ = Array.toList _›))
  all_goals (first
    | (refine ⟨trivial, ?_, ?_, ?_⟩ <;> omega)
    | (refine ⟨trivial, ?_, ?_⟩
       · sp_here
       · omega)
    | (refine ⟨?_, ?_, ?_⟩
       · sp_here
       · omega
       · intro _; omega)
    | skip)

@[spec 30000]
theorem tokLt_np (L : Lims) (c : ICtx) (hU : UnpOK c L) (hT : TokScan c L.hi) (hA : L.hi ≤ c.srcA.size) (s : IState)
    (pos plainStart : Int) (done : Bool) (hb : 0 ≤ pos ∧ pos < c.srcA.size ∧ c.srcA[pos.toNat]! = 0x3C) :
    ⦃fun st => ⌜st = s ∧ RunInv L c (pos, plainStart, done) s ∧ s.unparsedPos < c.unparsed.size ∧
        pos < spanEndOf c s⌝⦄
    tokLt c s pos plainStart done
    ⦃⇓! r st => ⌜RunInv L c r.value st⌝⦄ := by
  mvcgen [tokLt, addText, alloc, addToRoot, nodeLen, getNode, setParent, modifyNode, setUnparsedPos,
    -addToRoot_spec, -addToRoot_specS, -tokLt_specP, -addLeaf_np1]
  all_goals (try (exact fun h => h))
  all_goals (try (exact ExceptConds.entails.refl _))
  all_goals tok_setup
  -- `srcSlice`, `unparsedFrom`
  all_goals (try (exact ⟨trivial, by omega, by omega, by omega⟩))
  all_goals (try (exact ⟨trivial, by omega⟩))
  all_goals (obtain ⟨a0, a1, a2, a3⟩ := ‹0 ≤ pos ∧ _ ∧ _ ∧ _›)
  -- facts about the scanners
  all_goals (try (have hal := autolink_le hT a0 a1 a2 a3 ‹0 ≤ parseAutolink _›))
  all_goals (try (
    have hhv := ‹SpanI.isValid _ = true›
    obtain ⟨w1, w2, w3, w4⟩ := hT.html _ pos _ _ hb.1 hb.2.1 hb.2.2 (Prod.eta _).symm hhv))
  -- the dead branch of `addToRoot` (the new node is not empty)
  all_goals (try (
    exfalso
    have h2 := ‹(spanLenI _ _ == 0) = true›
    rw [get!_push_eq] at h2
    dsimp only at h2
    have := spanLen_zero h2 (by omega)
    omega))
  all_goals (try simp only [RunInv, ForInStep.value])
  all_goals (first
    | exact ⟨trivial, hsp, by omega⟩
    | exact ⟨hsp, by omega, hpo⟩
    | (obtain ⟨hq, hq2, -⟩ := ‹SPT _ _ (max _ _) _ ∧ _›
       refine ⟨?_, Int.le_refl _, ?_⟩
       · refine SP.allocRoot (SP.mono (F' := pos) hq (by omega) (by omega)) _ ?_ ?_ ?_ ?_ ?_ _ _ _ ?_
         all_goals first
           | rfl
           | (dsimp only; omega)
           | (dsimp only; refine WFL_autolink _ _ ?_; omega)
           | exact w4
       · first
           | exact posOK_of hq2 (by omega)
           | exact fun _ => posOK_of_index' c hU.arr _ _ (by omega) _ ‹_›
           | exact fun h => absurd h (Nat.lt_irrefl _)))

end CM.Proofs.InlH
