import CM.Proofs.ParseScanInline
/-
C02 / C04, inline halves, for the whole of `Parse` — `parseInlineLink`, part 2: destination, title, and the whole link.
-/
namespace CM.Proofs.PSc
open CM CM.Model CM.Model.Inl CM.Gen CM.Proofs CM.Proofs.PS CM.Proofs.InlH

variable {src : Bytes} {L : List Tree} {N m : Nat}

/-- What `parseLinkDestination` returns from position `p0`. -/
def DestAt (src : Bytes) (N : Nat) (p0 : Nat) (d : LinkDest) (r' : Rd) : Prop :=
  d.span.isValid = false ∨ Closed src N p0 0x3E p0 d.span d.text r' ∨
    (d.span = ⟨p0, r'.pos⟩ ∧ d.text = ⟨p0, r'.pos⟩)

theorem parseLinkDestination_N (hc : RC src L N) (hT : TailNP src L) (f : Nat) (r : Rd) (h : SN src L m N r) :
    SN src L m N (parseLinkDestination src f r).2 ∧ r.pos ≤ (parseLinkDestination src f r).2.pos ∧
      DestAt src N r.pos (parseLinkDestination src f r).1 (parseLinkDestination src f r).2 := by
  have hmono : ∀ r', SN src L r.pos N r' → r.pos ≤ r'.pos := fun r' h' => h'.lo
  rw [parseLinkDestination, h.current_eq hc]
  simp only []
  split
  · obtain ⟨a1, a2⟩ := destAngle_N hc hT r.pos f r r.pos h (Nat.le_refl _)
    obtain ⟨b1, _⟩ := destAngle_N hc hT r.pos f r r.pos h.rebase (Nat.le_refl _)
    exact ⟨a1, hmono _ b1, Or.inr (Or.inl a2)⟩
  · split
    · exact ⟨destBare_N hc hT f r 0 h, hmono _ (destBare_N hc hT f r 0 h.rebase), Or.inr (Or.inr ⟨rfl, rfl⟩)⟩
    · exact ⟨h, Nat.le_refl _, Or.inl rfl⟩

theorem parseLinkTitle_N (hc : RC src L N) (hT : TailNP src L) (f : Nat) (r : Rd) (h : SN src L m N r) :
    SN src L m N (parseLinkTitle src f r).2 ∧ r.pos ≤ (parseLinkTitle src f r).2.pos ∧
      ∃ q : UInt8, RDC.entChar q = false ∧
        Closed src N r.pos q r.pos (parseLinkTitle src f r).1.span (parseLinkTitle src f r).1.text (parseLinkTitle src f r).2 := by
  have hmono : ∀ r', SN src L r.pos N r' → r.pos ≤ r'.pos := fun r' h' => h'.lo
  rw [parseLinkTitle, h.current_eq hc]
  simp only []
  split
  · exact ⟨h, Nat.le_refl _, 0x22, by decide, Or.inl rfl⟩
  · rename_i hq
    simp only [Bool.and_eq_true, bne_iff_ne, ne_eq, not_and, Decidable.not_not] at hq
    have hterm : ∃ q : UInt8, (if ((r.current src).1 == 0x28) = true then 0x29 else (r.current src).1) = q ∧
        (q = 0x27 ∨ q = 0x22 ∨ q = 0x29) := by
      by_cases h28 : (r.current src).1 = 0x28
      · exact ⟨0x29, by simp [h28], Or.inr (Or.inr rfl)⟩
      · refine ⟨(r.current src).1, by simp [h28], ?_⟩
        by_cases h27 : (r.current src).1 = 0x27
        · exact Or.inl h27
        · exact Or.inr (Or.inl (by
            by_cases h22 : (r.current src).1 = 0x22
            · exact h22
            · exact absurd (hq ⟨h27, h22⟩) h28))
    obtain ⟨q, hq1, hq2⟩ := hterm
    rw [hq1]
    have hq0 : q ≠ 0 ∧ q ≠ SP ∧ (q ≠ 239 ∧ q ≠ 191 ∧ q ≠ 189) ∧ RDC.entChar q = false := by
      rcases hq2 with e | e | e <;> (subst e; decide)
    obtain ⟨a1, a2⟩ := titleLoop_N hc hT r.pos q hq0.1 hq0.2.1 hq0.2.2.1 f r r.pos h (Nat.le_refl _)
    obtain ⟨b1, _⟩ := titleLoop_N hc hT r.pos q hq0.1 hq0.2.1 hq0.2.2.1 f r r.pos h.rebase (Nat.le_refl _)
    exact ⟨a1, hmono _ b1, q, hq0.2.2.2, a2⟩

/-! ### the whole link -/

/-- `inlLinkPure` from a reader on. -/
def pipe (src : Bytes) (fl : Nat) (r : Rd) (start : Int) : InlineLinkInfo :=
  let p1 := skipLinkSpace src fl r
  if !p1.1 then noInlineLink else
  let p2 := parseLinkDestination src fl p1.2
  let p3 := if p2.1.span.isValid then skipLinkSpace src fl p2.2 else (true, p2.2)
  if !p3.1 then noInlineLink else
  let p4 := parseLinkTitle src fl p3.2
  let p5 := if p4.1.span.isValid then skipLinkSpace src fl p4.2 else (true, p4.2)
  if !p5.1 then noInlineLink else
  let p6 := p5.2.current src
  if p6.1 != 0x29 then noInlineLink else
  { span := ⟨start, p6.2.pos + 1⟩, destination := p2.1, title := p4.1 }

theorem inlLinkPure_eq (src : Bytes) (fl : Nat) (spans : List Tree) (start : Int) :
    inlLinkPure src fl spans start = pipe src fl (newReader spans (start + 1).toNat) start := rfl

/-- the children of a destination / title node (`InlH.textKids` without the context) -/
def tk (ext : Ext) (src : Bytes) (fl : Nat) (L : List Tree) (text : SpanI) : List Tree :=
  if text.isValid then
    collectTextNodes ext src text.stop.toNat IK.text true fl (newReader L text.start.toNat) text.start.toNat []
  else []

/-- the conclusion of `LinkScan2.inline` -/
structure LinkOK (ext : Ext) (src : Bytes) (fl : Nat) (L : List Tree) (N : Nat) (start : Int) (info : InlineLinkInfo) :
    Prop where
  s1 : start ≤ info.span.stop
  s2 : info.span.stop ≤ (N : Int)
  dest : info.destination.span.isValid = true →
    start ≤ info.destination.span.start ∧ info.destination.span.start ≤ info.destination.span.stop ∧
    info.destination.span.stop ≤ info.span.stop ∧
    WFL info.destination.span.start info.destination.span.stop (tk ext src fl L info.destination.text)
  title : info.title.span.isValid = true →
    start ≤ info.title.span.start ∧
    (info.destination.span.isValid = true → info.destination.span.stop ≤ info.title.span.start) ∧
    info.title.span.start ≤ info.title.span.stop ∧ info.title.span.stop ≤ info.span.stop ∧
    WFL info.title.span.start info.title.span.stop (tk ext src fl L info.title.text)

theorem skipLinkSpace_stay (hc : RC src L N) {r : Rd} (h : SN src L m N r) (f : Nat) (h0 : (r.current src).1 ≠ 0)
    (hw : isSpaceTabOrLineEnding (r.current src).1 = false) : skipLinkSpace src (f + 1) r = (true, r) := by
  rw [skipLinkSpace, h.current_eq hc]
  simp only []
  split
  · rename_i hz; exact absurd (by simpa using hz) h0
  · split
    · rename_i hz; rw [hw] at hz; cases hz
    · rfl

theorem parseLinkTitle_none (hc : RC src L N) {r : Rd} (h : SN src L m N r) (f : Nat)
    (hq : (r.current src).1 ≠ 0x27 ∧ (r.current src).1 ≠ 0x22 ∧ (r.current src).1 ≠ 0x28) :
    parseLinkTitle src f r = (noTitle, r) := by
  rw [parseLinkTitle, h.current_eq hc]
  simp only []
  rw [if_pos (by simp [hq.1, hq.2.1, hq.2.2])]

/-- the pieces of a closed span `[start, e)` with text `[start + 1, e − 1)` -/
theorem closed_WFL (hc : RC2 src L N) (ext : Ext) (fl : Nat) (hfl : rdFuel src L ≤ fl) {p0 start : Nat} {q : UInt8}
    (hq : RDC.entChar q = false) {span text : SpanI} {r' : Rd} (h : Closed src N p0 q start span text r')
    (hv : span.isValid = true) (hps : start ≤ p0) :
    ∃ e : Nat, span = ⟨start, e⟩ ∧ p0 + 1 ≤ e ∧ e ≤ N ∧ e ≤ r'.pos ∧ WFL span.start span.stop (tk ext src fl L text) := by
  rcases h with h | ⟨e, h1, h2, h3, h4, h5, h6⟩
  · rw [h] at hv; cases hv
  · refine ⟨e, h1, h3, h4, h5, ?_⟩
    subst h1 h2
    unfold tk
    split
    · rename_i htv
      simp only [SpanI.isValid, Bool.and_eq_true, decide_eq_true_eq] at htv
      have e1 : ((start : Int) + 1).toNat = start + 1 := by omega
      have e2 : ((e : Int) - 1).toNat = e - 1 := by omega
      simp only [e1, e2]
      have hw := collect_WFL hc ext (start + 1) (e - 1) IK.text true fl hfl
        (fun _ => RDC.stopOK_of_byte (by
          rw [List.getD_eq_getElem?_getD, h6]; exact hq)) (by omega)
      exact hw.mono (by omega) (by omega)
    · rw [WFL_nil]; simp only []; omega

theorem pipe_scan (hc : RC2 src L N) (hT : TailNP src L) (ext : Ext) (f : Nat) (hfl : rdFuel src L ≤ f + 1) (r : Rd)
    (hs : SN src L m N r) (start : Int) (h0 : 0 ≤ start) (hsm : start < (m : Int)) :
    (pipe src (f + 1) r start).span.isValid = true → LinkOK ext src (f + 1) L N start (pipe src (f + 1) r start) := by
  have hrc := hc.toRC
  have hmono : ∀ {r r' : Rd}, SN src L r.pos N r' → r.pos ≤ r'.pos := fun h' => h'.lo
  have inv : noInlineLink.span.isValid = true → LinkOK ext src (f + 1) L N start noInlineLink := fun h => by cases h
  unfold pipe
  simp only []
  -- stage 1
  have s1 := skipLinkSpace_N hrc hT (f + 1) r hs
  have m1 : r.pos ≤ (skipLinkSpace src (f + 1) r).2.pos := hmono (skipLinkSpace_N hrc hT (f + 1) r hs.rebase)
  generalize skipLinkSpace src (f + 1) r = p1 at s1 m1
  split
  · exact inv
  -- stage 2
  obtain ⟨s2, m2, d2⟩ := parseLinkDestination_N hrc hT (f + 1) p1.2 s1
  generalize parseLinkDestination src (f + 1) p1.2 = p2 at s2 m2 d2
  -- stage 3
  have s3 : SN src L m N (if p2.1.span.isValid = true then skipLinkSpace src (f + 1) p2.2 else (true, p2.2)).2 := by
    split
    · exact skipLinkSpace_N hrc hT (f + 1) p2.2 s2
    · exact s2
  have m3 : p2.2.pos ≤ (if p2.1.span.isValid = true then skipLinkSpace src (f + 1) p2.2 else (true, p2.2)).2.pos := by
    split
    · exact hmono (skipLinkSpace_N hrc hT (f + 1) p2.2 s2.rebase)
    · exact Nat.le_refl _
  -- what the byte after a bare destination is, when the link is valid
  have hstay : RDC.entChar (p2.2.current src).1 = true →
      (if p2.1.span.isValid = true then skipLinkSpace src (f + 1) p2.2 else (true, p2.2)) = (true, p2.2) := by
    intro he
    split
    · exact skipLinkSpace_stay hrc s2 f (by intro e; rw [e] at he; revert he; decide)
        (by
          cases hw : isSpaceTabOrLineEnding (p2.2.current src).1 with
          | false => rfl
          | true =>
            exfalso
            simp only [isSpaceTabOrLineEnding, Bool.or_eq_true, beq_iff_eq] at hw
            rcases hw with ((e | e) | e) | e <;> (rw [e] at he; revert he; decide))
    · rfl
  generalize (if p2.1.span.isValid = true then skipLinkSpace src (f + 1) p2.2 else (true, p2.2)) = p3 at s3 m3 hstay
  split
  · exact inv
  -- stage 4
  obtain ⟨s4, m4, q, hq, t4⟩ := parseLinkTitle_N hrc hT (f + 1) p3.2 s3
  have hnone : (p3.2.current src).1 ≠ 0x27 ∧ (p3.2.current src).1 ≠ 0x22 ∧ (p3.2.current src).1 ≠ 0x28 →
      parseLinkTitle src (f + 1) p3.2 = (noTitle, p3.2) := parseLinkTitle_none hrc s3 (f + 1)
  generalize parseLinkTitle src (f + 1) p3.2 = p4 at s4 m4 t4 hnone
  -- stage 5
  have s5 : SN src L m N (if p4.1.span.isValid = true then skipLinkSpace src (f + 1) p4.2 else (true, p4.2)).2 := by
    split
    · exact skipLinkSpace_N hrc hT (f + 1) p4.2 s4
    · exact s4
  have m5 : p4.2.pos ≤ (if p4.1.span.isValid = true then skipLinkSpace src (f + 1) p4.2 else (true, p4.2)).2.pos := by
    split
    · exact hmono (skipLinkSpace_N hrc hT (f + 1) p4.2 s4.rebase)
    · exact Nat.le_refl _
  have hp5n : p4 = (noTitle, p3.2) →
      (if p4.1.span.isValid = true then skipLinkSpace src (f + 1) p4.2 else (true, p4.2)) = (true, p3.2) := by
    intro e; subst e; rfl
  generalize (if p4.1.span.isValid = true then skipLinkSpace src (f + 1) p4.2 else (true, p4.2)) = p5 at s5 m5 hp5n
  split
  · exact inv
  -- the closing parenthesis
  rw [s5.current_eq hrc]
  simp only []
  split
  · exact inv
  · rename_i hpar
    have hpar' : (p5.2.current src).1 = 0x29 := by simpa using hpar
    obtain ⟨hl5, hlt5⟩ := s5.live_of_paren hrc hpar'
    have hlo1 := s1.lo
    intro _
    have hdest : p2.1.span.isValid = true →
        (start ≤ p2.1.span.start ∧ p2.1.span.start ≤ p2.1.span.stop ∧ p2.1.span.stop ≤ (p2.2.pos : Int) ∧
          WFL p2.1.span.start p2.1.span.stop (tk ext src (f + 1) L p2.1.text)) := by
      intro hdv
      rcases d2 with d | d | ⟨d, d'⟩
      · rw [d] at hdv; cases hdv
      · obtain ⟨e, g1, g2, g3, g4, g5⟩ := closed_WFL hc ext (f + 1) hfl (q := 0x3E) (by decide) d hdv (Nat.le_refl _)
        rw [g1] at g5 ⊢
        simp only [] at g5 ⊢
        exact ⟨by omega, by omega, by omega, g5⟩
      · rw [d, d']
        simp only []
        refine ⟨by omega, by omega, Int.le_refl _, ?_⟩
        unfold tk
        have hvv : (⟨(p1.2.pos : Int), (p2.2.pos : Int)⟩ : SpanI).isValid = true := by
          simp only [SpanI.isValid, Bool.and_eq_true, decide_eq_true_eq]; omega
        rw [if_pos hvv]
        simp only [Int.toNat_natCast]
        refine collect_WFL hc ext p1.2.pos p2.2.pos IK.text true (f + 1) hfl (fun _ => ?_) m2
        apply s2.stopOK hrc
        -- the byte after the destination is not an entity byte: otherwise the link is not valid
        cases he : RDC.entChar (p2.2.current src).1 with
        | false => rfl
        | true =>
          exfalso
          have ep3 := hstay he
          subst ep3
          have e4 := hnone (by
            refine ⟨?_, ?_, ?_⟩ <;> (intro e; rw [e] at he; revert he; decide))
          have e5 := hp5n e4
          subst e5
          simp only [] at hpar'
          rw [hpar'] at he
          revert he; decide
    have htitle : p4.1.span.isValid = true →
        ((p3.2.pos : Int) ≤ p4.1.span.start ∧ p4.1.span.start ≤ p4.1.span.stop ∧ p4.1.span.stop ≤ (p4.2.pos : Int) ∧
          WFL p4.1.span.start p4.1.span.stop (tk ext src (f + 1) L p4.1.text)) := by
      intro htv
      obtain ⟨e, g1, g2, g3, g4, g5⟩ := closed_WFL hc ext (f + 1) hfl hq t4 htv (Nat.le_refl _)
      rw [g1] at g5 ⊢
      simp only [] at g5 ⊢
      exact ⟨by omega, by omega, by omega, g5⟩
    refine ⟨by simp only []; omega, by simp only []; omega, ?_, ?_⟩
    · intro hdv
      obtain ⟨a1, a2, a3, a4⟩ := hdest hdv
      exact ⟨a1, a2, by simp only []; omega, a4⟩
    · intro htv
      obtain ⟨a1, a2, a3, a4⟩ := htitle htv
      refine ⟨by simp only []; omega, fun hdv => ?_, a2, by simp only []; omega, a4⟩
      obtain ⟨b1, b2, b3, b4⟩ := hdest hdv
      simp only [] at a1 b3 ⊢
      omega

end CM.Proofs.PSc
