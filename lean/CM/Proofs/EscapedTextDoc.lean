import CM.Proofs.EscapedTextRender
import CM.Proofs.EscapedTextPara
import CM.Props.C06Leaf
import CM.Model.Parse
/-
C06, escaped text — the whole parser: `Parse` (`parseDoc`: block phase, `Extract`, `Rewrite`) on the one-line
document `esc s` + LF delivers one paragraph whose inline children are childless Text nodes slicing to `s`.
-/
namespace CM.Proofs.EscText
open CM CM.Gen CM.Model CM.Model.Inl CM.Proofs.Leaf

theorem esc_head_ne_bracket (s : Bytes) : (esc s).head? ≠ some 0x5B := by
  cases s with
  | nil => simp [esc]
  | cons a r =>
    rw [esc]
    split
    · simp
    · rename_i ha
      simp only [List.head?_cons, ne_eq, Option.some.injEq]
      rintro rfl; exact ha (by decide)

/-- **`Parse` on the document `esc s` + LF** (`s` as in `escaped_text_literal`, and such that the line `esc s` is a
    paragraph line: `paraFirstOK`, the model's own "this line starts no other block" test): exactly one root, the
    paragraph `[0, |doc|)`, normal end of input, no panic in either phase; its inline children are childless Text nodes
    in source order whose source slices concatenate to `s`. -/
theorem escaped_text_doc (x : PExt) (ix : IExt) (s : Bytes) (hok : TextOK s [LF]) (h0 : paraFirstOK (esc s) = true) :
    ∃ (r : Root) (kids : List Tree),
      (parseDoc x ix (esc s ++ [LF])).roots =
        [{ root := r, tree := .ok (leafTree BK.paragraph 0 ((esc s ++ [LF]).length : Nat) kids) }] ∧
      (parseDoc x ix (esc s ++ [LF])).ending = .err .eof ∧
      r.source = esc s ++ [LF] ∧
      (∀ t ∈ kids, Node.isI t IK.text = true ∧ t.children = []) ∧
      kids.Pairwise (fun a b => a.label.stop ≤ b.label.start) ∧
      kids.flatMap (Node.slice (esc s ++ [LF])) = s := by
  have hdoc : leafDoc (esc s) [] [] = esc s ++ [LF] := by simp [leafDoc, body]
  obtain ⟨blk, p', hdrain, _, htree, _, _⟩ := CM.Props.C06.paragraph_leaf x (esc s) [] ((esc s ++ [LF]).length + 8) h0
    (esc_head_ne_bracket s) (by simp) (by omega)
  rw [hdoc] at hdrain htree
  have hrun : runNodes IK.unparsed 0 [esc s] = [mkInline IK.unparsed 0 ((esc s ++ [LF]).length : Int)] := by
    simp [runNodes]
  rw [hrun] at htree
  obtain ⟨kids, hk, hall, hsorted, hsl, _⟩ := escaped_text_literal ix
    (fun k => ((extractAll x.ext [(esc s ++ [LF], pbToTree blk)] []).lookup k).isSome) s [LF] 0
    (((esc s ++ [LF]).length : Nat) : Int) hok
  refine ⟨{ source := esc s ++ [LF], startLine := 1, startOffset := 0, endOffset := (esc s ++ [LF]).length, block := blk },
    kids, ?_, ?_, rfl, fun t ht => ⟨(hall t ht).1, (hall t ht).2.1⟩, hsorted, hsl⟩
  · unfold parseDoc
    rw [hdrain]
    simp only [List.map_cons, List.map_nil, htree]
    rw [leafTree, rewriteE]
    simp only [Bool.not_true, Bool.false_eq_true, if_false]
    rw [if_pos (show hasUnparsed [mkInline IK.unparsed 0 ((esc s ++ [LF]).length : Int)] = true from rfl)]
    simp only [htree, leafTree] at hk
    rw [hk]
    rfl
  · unfold parseDoc
    rw [hdrain]

/-- **C06, escaped text, end to end.**  For every non-empty text `s` without LF, CR, NUL that does not begin with a
    space or a tab and does not end with two spaces: `Parse` on `esc s` + LF delivers exactly one root, a paragraph
    spanning the document, and ends normally; its inline children are childless Text nodes in source order whose source
    slices concatenate to `s`; and `AppendBlock` renders it as `<p>` ++ escapeHTML s ++ `</p>`. -/
theorem escaped_text_parse_render (x : PExt) (ix : IExt) (s : Bytes) (h1 : lineTextOK s = true) (h2 : ¬ [SP, SP] <:+ s) :
    ∃ (r : Root) (kids : List Tree),
      (parseDoc x ix (esc s ++ [LF])).roots =
        [{ root := r, tree := .ok (leafTree BK.paragraph 0 ((esc s ++ [LF]).length : Nat) kids) }] ∧
      (parseDoc x ix (esc s ++ [LF])).ending = .err .eof ∧
      r.source = esc s ++ [LF] ∧
      (∀ t ∈ kids, Node.isI t IK.text = true ∧ t.children = []) ∧
      kids.Pairwise (fun a b => a.label.stop ≤ b.label.start) ∧
      kids.flatMap (Node.slice (esc s ++ [LF])) = s ∧
      ∀ (cx : RCtx) (dst : Bytes), cx.src = r.source →
        appendBlock cx dst (leafTree BK.paragraph 0 ((esc s ++ [LF]).length : Nat) kids) =
          dst ++ openTag cx (str "p") ++ escapeHTML s ++ closeTag cx (str "p") := by
  have hok : TextOK s [LF] := by
    refine ⟨?_, Or.inr rfl, Or.inr h2⟩
    intro b hb
    simp only [lineTextOK, Bool.and_eq_true, List.all_eq_true, bne_iff_ne, ne_eq] at h1
    exact ⟨(h1.1 b hb).1.1, (h1.1 b hb).1.2⟩
  obtain ⟨r, kids, hr, he, hs, hall, hsorted, hsl⟩ := escaped_text_doc x ix s hok (paraFirstOK_esc s h1)
  refine ⟨r, kids, hr, he, hs, hall, hsorted, hsl, ?_⟩
  intro cx dst hcx
  rw [leafTree, render_text_paragraph cx dst _ kids (fun t ht => (hall t ht).1), hcx, hs, hsl]

/-! ### non-vacuity -/

/-- `a*b [c](d)  <e> 1. f\ g!` -/
def sEx : Bytes := "a*b [c](d)  <e> 1. f\\ g!".toUTF8.toList

example : lineTextOK sEx = true := by decide +kernel
example : ¬ [SP, SP] <:+ sEx := by decide +kernel
example : TextOK sEx [LF] := ⟨by decide +kernel, Or.inr rfl, Or.inr (by decide +kernel)⟩
example : TextOK sEx [] := ⟨by decide +kernel, Or.inl rfl, Or.inl rfl⟩
example : String.fromUTF8! (esc sEx).toByteArray = "a\\*b \\[c\\]\\(d\\)  \\<e\\> 1\\. f\\\\ g\\!" := by decide +kernel
/-- the spans of `escaped_text_literal` for this text -/
example : leaves 0 0 sEx = [(0, 1), (2, 3), (3, 5), (6, 7), (7, 8), (9, 10), (11, 12), (12, 13), (14, 15), (15, 17),
    (18, 19), (19, 20), (21, 22), (22, 24), (25, 26), (26, 28), (29, 30), (30, 32), (33, 34)] := by decide +kernel

end CM.Proofs.EscText
