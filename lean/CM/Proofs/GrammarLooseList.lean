import CM.Proofs.GrammarLooseStarts
/-
C05, block half — looseness: `startListItem` keeps `LT`. A new list and its first item are tight; an item appended to
the container list is tight, and so is that list: it is on the open spine (`SO`), and a loose list is closed (`PBLoose`).
-/
namespace CM.Proofs.GL
open CM CM.Model CM.Gen
open CM.Proofs.BT CM.Proofs.BG

/-! ### the new blocks -/

theorem PBL_newItem (l2 l3 : PLabel) (h2 : l2.kind = BK.listItem) (h3 : l3.kind = BK.listMarker) :
    PBLoose (.mk l2 [.mk l3 [] []] []) := by
  rw [PBLoose_mk]
  refine ⟨looseLocal_of_ne _ (by rw [h2]; decide), ?_⟩
  intro b hb
  simp only [List.mem_singleton] at hb
  subst hb
  exact PBL_leaf (by rw [h3]; decide)

theorem PBL_newList (l1 l2 l3 : PLabel) (h1 : l1.loose = false) (h2 : l2.kind = BK.listItem) (h2l : l2.loose = false)
    (h3 : l3.kind = BK.listMarker) : PBLoose (.mk l1 [.mk l2 [.mk l3 [] []] []] []) := by
  rw [PBLoose_mk]
  refine ⟨?_, ?_⟩
  · rw [looseLocal_iff]
    intro _
    refine ⟨?_, fun hl => by rw [h1] at hl; cases hl⟩
    intro c hc
    simp only [List.mem_singleton] at hc
    subst hc
    show l2.loose = l1.loose
    rw [h1, h2l]
  · intro b hb
    simp only [List.mem_singleton] at hb
    subst hb
    exact PBL_newItem l2 l3 h2 h3

theorem stopAt_zero (b : PB) : stopAt b 0 = some b.label.stop := by
  simp [stopAt, labelAt, spineGet_zero]

theorem stopAt_succ_single (l : PLabel) (c : PB) (is : List Tree) (k : Nat) : stopAt (.mk l [c] is) (k + 1) = stopAt c k := by
  simp only [stopAt, labelAt]
  rw [spineGet_succ]
  rfl

theorem openTo_item (l2 l3 : PLabel) (s2 : l2.stop < 0) (s3 : l3.stop < 0) : OpenTo (.mk l2 [.mk l3 [] []] []) 1 := by
  intro k hk s hs
  rcases k with _ | k
  · rw [stopAt_zero] at hs; cases hs; exact s2
  · have : k = 0 := by omega
    subst this
    rw [stopAt_succ_single, stopAt_zero] at hs; cases hs; exact s3

theorem openTo_list (l1 l2 l3 : PLabel) (s1 : l1.stop < 0) (s2 : l2.stop < 0) (s3 : l3.stop < 0) :
    OpenTo (.mk l1 [.mk l2 [.mk l3 [] []] []] []) 2 := by
  intro k hk s hs
  rcases k with _ | k
  · rw [stopAt_zero] at hs; cases hs; exact s1
  · rw [stopAt_succ_single] at hs
    exact openTo_item l2 l3 s2 s3 k (by omega) s hs

/-! ### the rest of `startListItem` after the marker has been opened -/

theorem listItem_finish_LT (x : PExt) (q2 : LP) (stop ind : Nat) (h : GI q2) (hl : LT q2) (hs2 : 1 ≤ q2.state ∧ q2.state ≤ 2)
    (hb : q2.i + stop ≤ q2.line.length) :
    LT (
      let p := q2.advance stop
      let p := p.endBlock x
      if p.isRestBlank then
        let p := p.setContainerIndent (ind + stop + 1)
        p.consumeLine
      else
        let padding := p.indent
        if padding < 1 then p.setContainerIndent (ind + stop + 1)
        else if padding > 4 then (p.consumeIndentN 1).setContainerIndent (ind + stop + 1)
        else (p.consumeIndentN padding).setContainerIndent (ind + stop + padding)) := by
  simp only []
  have ad := advance_post q2 stop h.inv.cur hb
  generalize q2.advance stop = q3 at ad
  have g3 := h.ofAdv ad
  have l3 := hl.ofAdv ad
  have s3 := ad.st hs2.2
  have eb := endBlock_inv x q3 g3.inv s3.2
  have ebG := endBlock_G x q3 g3.g
  have ebL := endBlock_LT x q3 g3.g l3
  generalize q3.endBlock x = q4 at eb ebG ebL
  have i4 := eb.inv g3.inv
  split
  · exact (setContainerIndent_LT q4 _ i4.tree ebG ebL).consumeLine
  · split
    · exact setContainerIndent_LT q4 _ i4.tree ebG ebL
    · have tk : ∀ k, TreeOK (q4.consumeIndentN k) := fun k =>
        ⟨by rw [consumeIndentN_root]; exact i4.tree.root,
         by rw [consumeIndentN_root, show (q4.consumeIndentN k).depth = q4.depth from (consumeIndent_root _ q4 k).2]; exact i4.tree.valid⟩
      split
      · exact setContainerIndent_LT _ _ (tk _) (by rw [consumeIndentN_root]; exact ebG) (ebL.consumeIndentN _)
      · exact setContainerIndent_LT _ _ (tk _) (by rw [consumeIndentN_root]; exact ebG) (ebL.consumeIndentN _)

/-- The item and its marker opened in an existing list with the same delimiter: the list is open, hence tight. -/
theorem listItemTail_LT_old (x : PExt) (p : LP) (delim : UInt8) (stop ind : Nat) (h : GI p) (hl : LT p)
    (hd : isDelimChar delim = true)
    (hk : p.containerKind = BK.list) (hch : p.container.label.char = delim) (hs : p.state ≤ 2)
    (hb : p.i + stop ≤ p.line.length) : LT (listItemTail x delim stop ind p) := by
  rw [listItemTail_eq]
  have htight := container_tight hl h.inv.tree hk
  have cc1 : canContain p.containerKind BK.listItem = true := by rw [hk]; decide
  have ob1 := openBlock_inv x p BK.listItem (fun l => { l with char := delim }) (fun _ => rfl) h.inv hs (Or.inr cc1)
  have n1 := openBlock_nest x p BK.listItem (fun l => { l with char := delim }) h.inv.tree h.g hs (Or.inr cc1)
  have pp := obPre_post x p BK.listItem h.inv.tree h.g (Or.inr cc1)
  have pl := obPre_LT x p BK.listItem h.g hl
  have hq : obPre x p BK.listItem = ({ p with state := mm p.state } : LP).closeLastChild x p.lineStart := obPre_of_cc x p _ cc1
  have hT1 : TreeOK ({ p with state := mm p.state } : LP) := ⟨h.inv.tree.root, h.inv.tree.valid⟩
  have hql : (obPre x p BK.listItem).container.label = p.container.label := by
    rw [hq, closeLastChild_container_label x _ _ hT1]; rfl
  generalize obPre x p BK.listItem = q at n1 pp pl hql
  generalize hI : (PB.mk ((fun l : PLabel => { l with char := delim }) { kind := BK.listItem, start := ↑q.lineStart + ↑q.i }) [] [] : PB) = I at n1
  generalize p.openBlock x BK.listItem (fun l => { l with char := delim }) = q1 at ob1 n1
  have i1 := ob1.inv h.inv
  have s1 := ob1.st hs
  have hIk : I.kind = BK.listItem := by rw [← hI]; rfl
  have n2 := openBlock_nested x q q1 I I 0 BK.listMarker id n1 (spineGet_zero I) (by rw [← hI]; rfl) (by rw [hIk]; decide) s1.2.1
  have ob2 := openBlock_inv x q1 BK.listMarker id id_kind i1 s1.2.1 (Or.inl (by decide))
  generalize q1.openBlock x BK.listMarker = q2 at ob2 n2
  have i2 := ob2.inv i1
  have s2 := ob2.st s1.2.1
  have n2' := n2.1
  rw [spineModify_zero] at n2'
  have g2 : PBGrammar q2.root := by
    apply n2'.G pp.g
    intro hc
    apply appendChild_G_item hc
    · rw [← hI]
      exact BG.PBG_newItem delim hd _ _ ⟨rfl, rfl⟩ rfl
    · show q.container.label.kind = BK.list
      rw [hql]; exact hk
    · rw [← hI]; rfl
    · rw [← hI, hql]; exact hch.symm
  have l2 : LT q2 := by
    apply nest_LT n2' pp.g pl
    · intro _ hc
      apply appendChild_L hc
      · rw [← hI]
        exact PBL_newItem _ _ rfl rfl
      · intro _
        rw [hql, htight, ← hI]
        rfl
    · rw [← hI]
      exact openTo_item _ _ (by show (-1 : Int) < 0; decide) (by show (-1 : Int) < 0; decide)
  apply listItem_finish_LT x q2 stop ind ⟨i2, g2⟩ l2 ⟨s2.2.2, s2.2.1⟩
  rw [cur_i ob2.cur, cur_line ob2.cur, cur_i ob1.cur, cur_line ob1.cur]
  exact hb

/-- A new list, its first item and the item's marker: all tight and open. -/
theorem listItemTail_LT_new (x : PExt) (q p : LP) (lab : PLabel) (delim : UInt8) (stop ind : Nat)
    (hlab : lab.kind = BK.list ∧ lab.char = delim) (hlabl : lab.loose = false) (hlabs : lab.stop < 0)
    (hd : isDelimChar delim = true)
    (n0 : Nest q p (.mk lab [] []) 0) (hq : PBGrammar q.root) (hql : LT q) (hqcc : canContain q.containerKind BK.list = true)
    (hi : Inv p) (hk : p.containerKind = BK.list) (hs : p.state ≤ 2) (hb : p.i + stop ≤ p.line.length) :
    LT (listItemTail x delim stop ind p) := by
  rw [listItemTail_eq]
  have cc1 : canContain p.containerKind BK.listItem = true := by rw [hk]; decide
  have ob1 := openBlock_inv x p BK.listItem (fun l => { l with char := delim }) (fun _ => rfl) hi hs (Or.inr cc1)
  have n1 := openBlock_nested x q p (.mk lab [] []) (.mk lab [] []) 0 BK.listItem (fun l => { l with char := delim }) n0
    (spineGet_zero _) rfl (by show canContain lab.kind _ = true; rw [hlab.1]; decide) hs
  rw [spineModify_zero] at n1
  generalize hI : (PB.mk ((fun l : PLabel => { l with char := delim }) { kind := BK.listItem, start := ↑p.lineStart + ↑p.i }) [] [] : PB) = I at n1
  generalize p.openBlock x BK.listItem (fun l => { l with char := delim }) = q1 at ob1 n1
  have i1 := ob1.inv hi
  have s1 := ob1.st hs
  have hIk : I.kind = BK.listItem := by rw [← hI]; rfl
  have n2 := openBlock_nested x q q1 (appendChild I (.mk lab [] [])) I 1 BK.listMarker id n1.1
    (spineGet_appendChild_one _ _) (by rw [← hI]; rfl) (by rw [hIk]; decide) s1.2.1
  rw [spineModify_appendChild_one] at n2
  have ob2 := openBlock_inv x q1 BK.listMarker id id_kind i1 s1.2.1 (Or.inl (by decide))
  generalize q1.openBlock x BK.listMarker = q2 at ob2 n2
  have i2 := ob2.inv i1
  have s2 := ob2.st s1.2.1
  have g2 : PBGrammar q2.root := by
    apply n2.1.G hq
    intro hc
    apply appendChild_G hc
    · rw [← hI]
      exact BG.PBG_newList delim hd _ _ _ hlab ⟨rfl, rfl⟩ rfl
    · show cck lab.kind = true
      rw [hlab.1]; decide
    · show canContain q.containerKind lab.kind = true
      rw [hlab.1]; exact hqcc
  have l2 : LT q2 := by
    apply nest_LT n2.1 hq hql
    · intro _ hc
      apply appendChild_L hc
      · rw [← hI]
        exact PBL_newList _ _ _ hlabl rfl rfl rfl
      · -- a list cannot contain a list
        intro hkl
        exfalso
        have : q.containerKind = BK.list := hkl
        rw [this] at hqcc
        revert hqcc; decide
    · rw [← hI]
      exact openTo_list _ _ _ hlabs (by show (-1 : Int) < 0; decide) (by show (-1 : Int) < 0; decide)
  apply listItem_finish_LT x q2 stop ind ⟨i2, g2⟩ l2 ⟨s2.2.2, s2.2.1⟩
  rw [cur_i ob2.cur, cur_line ob2.cur, cur_i ob1.cur, cur_line ob1.cur]
  exact hb

theorem startListItem_LT (x : PExt) (p : LP) (h : GI p) (hl : LT p) (hs : p.state = 0) : LT (startListItem x p) := by
  unfold startListItem
  simp only []
  split
  · exact hl
  split
  · exact hl
  rename_i _ hc1
  split
  · exact hl
  have hb := parseListMarker_toNat_le p.bytesAfterIndent
  have hpos := parseListMarker_pos p.bytesAfterIndent
  have hdl := parseListMarker_delim p.bytesAfterIndent
  generalize parseListMarker p.bytesAfterIndent = m at hb hpos hc1 hdl ⊢
  have hm : 1 ≤ m.stop := by
    rcases hpos with h' | h'
    · rw [h'] at hc1; simp at hc1
    · exact h'
  have hd : isDelimChar m.delim = true := hdl (by omega)
  obtain ⟨ci, hdrop, hil⟩ := consumeAll p h.inv
  generalize p.consumeIndentN p.indent = p1 at ci hdrop hil ⊢
  have g1 := h.ofCI ci
  have l1 := hl.ofCI ci
  have i1 := g1.inv
  have s1 := ci.st (by omega)
  have hbound : p1.i + m.stop.toNat ≤ p1.line.length := by rw [ci.line]; omega
  generalize hcond : (p1.containerKind != BK.list || (if (p1.containerKind != BK.list && p1.containerKind != BK.listItem) = true
      then (0 : UInt8) else p1.container.label.char) != m.delim) = c
  cases c with
  | true =>
    show LT (listItemTail x m.delim m.stop.toNat p.indent (p1.openBlock x BK.list (fun l => { l with char := m.delim })))
    have ob := openBlock_inv x p1 BK.list (fun l => { l with char := m.delim }) (fun _ => rfl) i1 s1.2 (Or.inl (by decide))
    have n0 := openBlock_nest x p1 BK.list (fun l => { l with char := m.delim }) i1.tree g1.g s1.2 (Or.inl (by decide))
    have pp := obPre_post x p1 BK.list i1.tree g1.g (Or.inl (by decide))
    have pl := obPre_LT x p1 BK.list g1.g l1
    exact listItemTail_LT_new x _ _ _ m.delim m.stop.toNat p.indent ⟨rfl, rfl⟩ rfl (by show (-1 : Int) < 0; decide) hd n0 pp.g pl
      pp.cc (ob.inv i1) ob.ckind (ob.st s1.2).2.1 (by rw [cur_i ob.cur, cur_line ob.cur]; exact hbound)
  | false =>
    show LT (listItemTail x m.delim m.stop.toNat p.indent p1)
    simp only [Bool.or_eq_false_iff] at hcond
    have hk : p1.containerKind = BK.list := by simpa using hcond.1
    have hch : p1.container.label.char = m.delim := by
      have h2 := hcond.2
      rw [hk] at h2
      simpa using h2
    exact listItemTail_LT_old x p1 m.delim m.stop.toNat p.indent g1 l1 hd hk hch s1.2 hbound

/-- Every block start keeps the looseness invariant. -/
theorem blockStartFns_LT (x : PExt) : ∀ f ∈ blockStartFns x, ∀ q, GI q → LT q → q.state = 0 → LT (f q) := by
  intro f hf q h hl hs
  simp only [blockStartFns, List.mem_cons, List.mem_nil_iff, or_false] at hf
  rcases hf with rfl | rfl | rfl | rfl | rfl | rfl | rfl | rfl
  · exact startBlockQuote_LT x q h hl hs
  · exact startATX_LT x q h hl hs
  · exact startFenced_LT x q h hl hs
  · exact startHTML_LT x q h hl hs
  · exact startSetext_LT x q h hl hs
  · exact startThematicBreak_LT x q h hl hs
  · exact startListItem_LT x q h hl hs
  · exact startIndentedCode_LT x q h hl hs

end CM.Proofs.GL
