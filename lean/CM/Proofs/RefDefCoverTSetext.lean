import CM.Proofs.RefDefCoverDef
import CM.Proofs.RefDefSpansSetext
import CM.Proofs.RefDefCoverTStarts2
/-
C03, block half — `GoodT2` (the strong invariant of RefDefCoverDef): adaptation of RefDefSpansSetext.lean.
Everything that does not mention `GoodT`/`NodeOK` is reused from `CM.Proofs.RDS`.
-/
namespace CM.Proofs.RDC
open CM CM.Model CM.Gen CM.Proofs.BSp CM.Proofs.BT CM.Proofs.BG CM.Proofs.RDS

/-! ### scanning back over the underline -/

-- reused from RDS: dropWhile_append_all

-- reused from RDS: mem_takeWhile_p

-- reused from RDS: scanBack

-- reused from RDS: setextRest_shape

-- reused from RDS: underline_shape

/-! ### the orphan paragraph -/

/-- The orphan paragraph of a setext heading whose lines end at or before the start `ls` of the underline line
    (`src = A ++ bai`, `bai` = the underline after its indentation): its text begins with the underline character. -/
theorem orphan_good2 {src : Bytes} {bd bd' : Int} (l : PLabel) (is : List Tree) (ls : Nat)
    (hN : ∀ t ∈ is, NodeOK2 src t ∧ t.label.stop ≤ bd) (hbd : bd ≤ (ls : Int)) (hstop : l.stop = (src.length : Int))
    (A bai : Bytes) (hsrc : src = A ++ bai) (hA : ls ≤ A.length) (hbai : parseSetextHeadingUnderline bai ≠ 0) :
    GoodAll2 src bd' [orphanOf src l is] := by
  obtain ⟨c, m, w, hcws, hcb, hm, hbaie, hw⟩ := underline_shape bai hbai
  -- the start of the scan
  have hbs : ((is.getLast?.map (fun t : Tree => t.label.stop)).getD 0).toNat ≤ ls := by
    cases hgl : is.getLast? with
    | none => simp
    | some t =>
      have := (hN t (List.mem_of_getLast? hgl)).2
      simp only [Option.map_some, Option.getD_some]
      omega
  generalize hbsd : (is.getLast?.map (fun t : Tree => t.label.stop)).getD 0 = bs at hbs
  have hstopN : l.stop.toNat = src.length := by rw [hstop]; simp
  have hbody : (src.take l.stop.toNat).drop bs.toNat = A.drop bs.toNat ++ (List.replicate m c ++ w) := by
    rw [hstopN, List.take_length, hsrc, List.drop_append_of_le_length (by omega), hbaie]
  obtain ⟨rest', h1, h2, h3⟩ := scanBack c hcws (A.drop bs.toNat) w m hm hw _ hbody
  have horph : orphanOf src l is = mkPB BK.paragraph bs (-1)
      [mkInline IK.unparsed ((bs.toNat + (((((src.take l.stop.toNat).drop bs.toNat).reverse.dropWhile isSpaceTabOrLineEnding).dropWhile (· == c)).length : Nat) : Nat)) l.stop] := by
    unfold orphanOf
    simp only [hbsd]
    rw [h1]
  rw [horph]
  generalize hk : ((((src.take l.stop.toNat).drop bs.toNat).reverse.dropWhile isSpaceTabOrLineEnding).dropWhile (· == c)).length = k at h2 h3
  have hlen : ((src.take l.stop.toNat).drop bs.toNat).length = src.length - bs.toNat := by
    rw [hstopN, List.take_length, List.length_drop]
  rw [hlen] at h2
  have hget : src.getD (bs.toNat + k) 0 = c := by
    rw [← h3, hstopN, List.take_length, getD_drop_add]
  apply GoodAll2.single
  rw [mkPB, GoodT2_mk]
  refine ⟨⟨fun _ => Or.inr ?_, fun _ => (show BK.paragraph ≠ BK.setextHeading by decide)⟩, fun _ h => by cases h⟩
  refine ⟨_, [], rfl, rfl, ?_, ?_, ?_, ?_⟩
  · show (0 : Int) ≤ ((bs.toNat + k : Nat) : Int)
    exact Int.natCast_nonneg _
  · show ((bs.toNat + k : Nat) : Int) < l.stop
    rw [hstop]; omega
  · show ((bs.toNat + k : Nat) : Int) < (src.length : Int)
    omega
  · show src.getD ((bs.toNat + k : Nat) : Int).toNat 0 ≠ 0x5B
    rw [Int.toNat_natCast, hget]
    exact hcb

/-! ### `startSetext` -/

-- reused from RDS: src_split

/-- The tree operation of `startSetext` on a good tree whose container (depth `d + 1`) is a paragraph. -/
theorem setext_tree2 {src : Bytes} {bd : Int} (x : PExt) (root : PB) (d : Nat) (n : Int) (ls : Nat) (hg : GoodT2 src bd root)
    (P : PB) (hP : spineGet root (d + 1) = some P) (hkP : P.kind = BK.paragraph) (hbd : bd ≤ (ls : Int))
    (A bai : Bytes) (hsrc : src = A ++ bai) (hA : ls ≤ A.length) (hbai : parseSetextHeadingUnderline bai ≠ 0) :
    GoodT2 src bd (spineReplaceLast (closeBlock x src (src.length : Int))
      (spineModify (PB.setLabel fun l => { l with kind := BK.setextHeading, n := n }) root (d + 1)) d) := by
  rw [spineReplaceLast_eq, BSp.spineModify_comp]
  apply GoodT2_spineModify _ d root hg
  intro b hb hbg
  obtain ⟨l, bs, is⟩ := b
  have hgl : bs.getLast? = some P := by
    have := spineGet_succ_eq root d
    rw [hP, hb] at this
    simpa [PB.blocks] using this.symm
  obtain ⟨lP, bsP, isP⟩ := P
  simp only [PB.kind, PB.label] at hkP
  rw [GoodT2_mk] at hbg
  have hPg := hbg.2 _ (List.mem_of_getLast? hgl)
  rw [GoodT2_mk] at hPg
  have hnew : replaceLastFn (closeBlock x src (src.length : Int))
      (spineModify (PB.setLabel fun l => { l with kind := BK.setextHeading, n := n }) (PB.mk l bs is) 1)
      = PB.mk l (bs.dropLast ++ closeBlock x src (src.length : Int) (.mk { lP with kind := BK.setextHeading, n := n } bsP isP)) is := by
    rw [spineModify_succ, hgl]
    simp only [spineModify_zero, replaceLastFn, List.getLast?_append, List.getLast?_singleton, Option.some_or,
      List.dropLast_concat, PB.setLabel]
  show GoodT2 src bd (replaceLastFn _ _)
  rw [hnew, GoodT2_mk]
  refine ⟨BlockOK2_congr (b := .mk l bs is) rfl rfl rfl hbg.1, ?_⟩
  have hcl : GoodAll2 src bd (closeBlock x src (src.length : Int) (.mk { lP with kind := BK.setextHeading, n := n } bsP isP)) := by
    by_cases ho : lP.stop < 0
    · rw [closeBlock_setext x src _ { lP with kind := BK.setextHeading, n := n } bsP isP ho rfl]
      apply onCloseParagraph_good2 x src bd _ bsP isP (Or.inr ⟨rfl, Int.natCast_nonneg _⟩) (hPg.1.1 hkP) hPg.2
      intro _ hN
      exact orphan_good2 _ isP ls hN hbd rfl A bai hsrc hA hbai
    · rw [closeBlock, if_pos (by show lP.stop ≥ 0; omega)]
      apply GoodAll2.single
      rw [GoodT2_mk]
      refine ⟨⟨fun hk => ?_, fun hs => ?_⟩, hPg.2⟩
      · exact absurd (show BK.setextHeading = BK.paragraph from hk) (by decide)
      · exact absurd (show lP.stop < 0 from hs) ho
  intro c hc
  rcases List.mem_append.mp hc with h' | h'
  · exact hbg.2 c ((List.dropLast_sublist bs).subset h')
  · exact hcl c h'

theorem startSetext_st2 {src : Bytes} {bd : Int} {ls : Nat} (x : PExt) (hbd : bd ≤ (ls : Int)) (hls : ls ≤ src.length)
    (q : LP) (h : BT.Inv q) (hs : q.state = 0) (hg : GI2 src bd ls q) : StPost2 src bd ls q (startSetext x q) := by
  unfold startSetext
  split
  · exact StPost2.refl hg hs
  rename_i hk'
  have hk : q.containerKind = BK.paragraph := by simpa using hk'
  simp only []
  split
  · exact StPost2.refl hg hs
  split
  · exact StPost2.refl hg hs
  rename_i _ hlev'
  have hlev : parseSetextHeadingUnderline q.bytesAfterIndent ≠ 0 := by simpa using hlev'
  generalize hn : ((parseSetextHeadingUnderline q.bytesAfterIndent : Nat) : Int) = n
  have hd : q.depth ≠ 0 := by
    intro h0
    rw [containerKind_zero q h0, h.tree.root] at hk
    cases hk
  let f : PB → PB := PB.setLabel fun l => { l with kind := BK.setextHeading, n := n }
  have hc1 : CurOK (q.modifyContainer f) := ⟨h.cur.hi, h.cur.htab⟩
  have cl := consumeLine_post (q.modifyContainer f) hc1
  have hst2 : (q.modifyContainer f).consumeLine.state = 2 := cl.st (by show q.state ≤ 2; omega)
  have hfr := fr_consumeLine (q.modifyContainer f)
  generalize (q.modifyContainer f).consumeLine = p2 at cl hst2 hfr
  have hsrc2 : p2.source = src := by rw [fr_source hfr]; exact hg.source
  have hls2 : p2.lineStart = ls := by rw [fr_lineStart hfr]; exact hg.lineStart
  have hline2 : p2.line = src.drop ls := by rw [fr_line hfr]; exact hg.line
  have hdep2 : p2.depth = q.depth := by rw [fr_depth hfr]; rfl
  have hroot2 : p2.root = spineModify f q.root q.depth := by rw [fr_root hfr]; rfl
  have hi2 : p2.i = q.line.length := cl.i
  have hcp : curPos p2 = (src.length : Int) := by
    simp only [curPos, hls2, hi2, hg.line, List.length_drop]
    omega
  rw [endBlock_eq x p2 (by omega), closeContainer_eq x _ _ (by show p2.depth ≠ 0; rw [hdep2]; exact hd)]
  have hmm : mm p2.state = 2 := by rw [hst2]; rfl
  refine ⟨⟨hsrc2, hls2, hline2, ?_⟩, fun h0 => ?_, fun h1 => ?_⟩
  · show GoodT2 src bd (spineReplaceLast (closeBlock x p2.source (curPos p2)) p2.root (p2.depth - 1))
    rw [hsrc2, hcp, hroot2, hdep2]
    obtain ⟨P, hPg⟩ : ∃ P, spineGet q.root q.depth = some P := by
      have := h.tree.valid
      cases hsg : spineGet q.root q.depth with
      | none => rw [hsg] at this; cases this
      | some P => exact ⟨P, rfl⟩
    have hkP : P.kind = BK.paragraph := by rw [← kind_of_container hPg]; exact hk
    obtain ⟨A, hA1, hA2⟩ := src_split q hg.line hls
    have hd1 : q.depth = (q.depth - 1) + 1 := by omega
    have key := setext_tree2 x q.root (q.depth - 1) n ls hg.good P (by rw [← hd1]; exact hPg) hkP hbd A _ hA1 hA2 hlev
    rw [← hd1] at key
    exact key
  · have : mm p2.state = 0 := h0
    omega
  · have : mm p2.state = 1 := h1
    omega

end CM.Proofs.RDC
