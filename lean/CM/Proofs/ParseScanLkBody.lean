import CM.Proofs.InlSpanBody
import CM.Proofs.ParseScanLkRunM

/-
C02, inline half, with `LinkScan2` / `TokScan2` — `parseBody`.
(Generated from `InlSpanBody.lean`: the same proofs with `LinkScan2` in the place of `LinkScan`.)
-/

namespace CM.Proofs.InlH2
open CM CM.Model CM.Model.Inl CM.Gen CM.Spec CM.Proofs CM.Proofs.InlH
open Std.Do

set_option mvcgen.warning false

theorem parseBody_specP (L : Lims) (c : ICtx) (hU : UnpOK c L) (hT : TokScan2 c L.hi) (hS : LinkScan2 c L.hi) :
    ⦃fun s => ⌜BodyInv L c s⌝⦄ parseBody c ⦃⇓? _ s => ⌜∃ F, SPT L.lo L.hi F s⌝⦄ := by
  mvcgen [parseBody, setIgnoreNextIndent, setUnparsedPos, parseRun_specP, processEmphasis_specGS, -parseBody_spec, 
    -parseBody_specS, -parseRun_spec, -parseRun_specS, -processEmphasis_spec, -processEmphasis_specS, 
    -CM.Proofs.InlH.refPart_specP, -CM.Proofs.InlH.parseEndBracket_specP, -CM.Proofs.InlH.tokC_specP, 
    -CM.Proofs.InlH.tokA_specP, -CM.Proofs.InlH.tokCode_specP, -CM.Proofs.InlH.tokLt_specP, 
    -CM.Proofs.InlH.runBody_specP]
  case inv1 => exact PostCond.mayThrow (fun _ s => ⌜BodyInv L c s⌝)
  inl_norm
  all_goals (try (intros; assumption))
  all_goals (try (exact fun h => h))
  -- the entry is there
  all_goals (try (
    have hu := ‹¬(!decide (_ < _)) = true›
    simp only [Bool.not_eq_true', Bool.not_eq_false, decide_eq_true_eq] at hu
    have hb := hU.bounds _ hu
    obtain ⟨F, hsp, hF⟩ := ‹BodyInv L c _›
    have hF' := hF hu))
  -- nothing imported: on to the next entry
  all_goals (try (
    exact BodyInv.next hU F hsp ⟨rfl, rfl, rfl⟩ rfl (fun _ => by omega)))
  -- the preconditions of `importNode` and `parseRun`
  all_goals (try (
    first
    | exact ⟨trivial, hsp.mono hF' (by omega), hb.2.1, hb.2.2, hU.kids _ hu⟩
    | exact ⟨trivial, (hsp.mono hF' (by omega)).congr rfl rfl rfl, hb.2.1, hb.2.2, hU.kids _ hu⟩
    | exact ⟨trivial, hsp.mono hF' (by omega), hu⟩))
  -- after `importNode`
  all_goals (try (
    obtain ⟨hq, hq2, -⟩ := ‹SPT _ _ _ _ ∧ _ = _ ∧ _›
    exact BodyInv.next hU _ hq ⟨rfl, rfl, rfl⟩ rfl (fun _ => by rw [hq2]; exact Int.le_refl _)))
  -- after `parseRun`
  all_goals (try (
    obtain ⟨F', hq, hq2⟩ := ‹∃ F, SPT _ _ F _ ∧ PosOK _ _ F›
    exact BodyInv.next hU F' hq ⟨rfl, rfl, rfl⟩ rfl hq2))
  -- `processEmphasis 0`
  all_goals (try (
    obtain ⟨F, hsp, -⟩ := ‹BodyInv L c _›
    intro h
    exact ⟨F, (h _ _ _ _ _ hsp).1⟩))

end CM.Proofs.InlH2
