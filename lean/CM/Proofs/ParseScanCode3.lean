import CM.Proofs.ParseScanCode2
import CM.Proofs.ParseScanLabel
/-
C02 / C04, inline halves, for the whole of `Parse` — where the parts of a valid code span lie (`codeRes_nodes`): the opening
run and the start of the content in the first inline child of the reader, the closing run inside one child (backtick runs do
not cross children: `TickEdges`), whose index is what `nodeIndexForPosition` finds for the end of the content.
-/
namespace CM.Proofs.PSc
open CM CM.Model CM.Model.Inl CM.Gen CM.Proofs CM.Proofs.BG CM.Proofs.InlH

variable {U : List Tree} {src : Bytes} {N : Nat}

/-- Two positions joined by backticks lie in the same inline child. -/
theorem same_node (H : CSHyp U src N) {t1 t2 : Tree} (h1 : t1 ∈ U) (h2 : t2 ∈ U) {p1 p2 : Nat} (hle : p1 ≤ p2)
    (a1 : t1.label.start ≤ (p1 : Int)) (a2 : (p1 : Int) < t1.label.stop) (b1 : t2.label.start ≤ (p2 : Int))
    (b2 : (p2 : Int) < t2.label.stop) (hticks : ∀ q, p1 ≤ q → q < p2 → src[q]? = some 0x60) : t1 = t2 := by
  rcases RDS.sorted_rel H.sorted h1 h2 with e | e | e
  · exact e
  · -- `t1` ends at or before the start of `t2`: its last byte is a backtick
    exfalso
    obtain ⟨i, hi, rfl⟩ := List.mem_iff_getElem.1 h1
    obtain ⟨j, hj, rfl⟩ := List.mem_iff_getElem.1 h2
    have hne1 := H.ne _ h1
    have hne2 := H.ne _ h2
    have hij : i < j := by
      rcases Nat.lt_trichotomy i j with h | h | h
      · exact h
      · subst h; omega
      · have := List.pairwise_iff_getElem.1 H.sorted j i hj hi h
        omega
    have hq : (((U[i]).label.stop.toNat - 1 : Nat) : Int) + 1 = (U[i]).label.stop := by omega
    exact H.edges.1 i U[i] (by omega) (by rw [List.getElem?_eq_getElem hi]) _ hq (hticks _ (by omega) (by omega))
  · have := H.ne _ h1; have := H.ne _ h2; omega

/-- the index `nodeIndexForPosition` finds for a position inside an inline child -/
theorem nodeIndex_of_inU {V : List Tree} (hs : SortedSpans V) (hne : NodesNE V) {p : Nat} (h : InU V p) :
    ∃ K t, nodeIndexForPosition V p 0 = some K ∧ V[K]? = some t ∧ t.label.start ≤ (p : Int) ∧ (p : Int) < t.label.stop := by
  obtain ⟨t, htm, h1, h2⟩ := h
  obtain ⟨i, hi⟩ := nodeIndex_some_of_mem V p 0 hs (fun v hv => by have := hne v hv; omega) (fun v hv => (hne v hv).1)
    t htm h1 h2
  obtain ⟨_, t', g2, g3, _⟩ := nodeIndex_spec hi
  simp only [Nat.sub_zero] at g2
  refine ⟨i, t', hi, g2, ?_, spanContains_lt g3⟩
  unfold spanContains at g3
  simp only [Bool.and_eq_true, decide_eq_true_eq] at g3
  exact g3.1.2

theorem NodesNE.drop {U : List Tree} (h : NodesNE U) (u : Nat) : NodesNE (U.drop u) :=
  fun t ht => h t (List.mem_of_mem_drop ht)

/-- **Where the parts of a valid code span lie.** -/
theorem codeRes_nodes (H : CSHyp U src N) (u : Nat) (hu : u < U.length) (pos : Int) (h0 : 0 ≤ pos)
    (hlt : pos < (U[u]).label.stop) (cs : CodeSpan) (hr : CodeRes (U.drop u) src pos cs) (hv : cs.span.isValid = true) :
    ∃ n pE K : Nat, 1 ≤ n ∧ cs.span = ⟨pos, ((pE + n : Nat) : Int)⟩ ∧
      cs.content = ⟨((pos.toNat + n : Nat) : Int), (pE : Int)⟩ ∧ pos.toNat + n < pE ∧
      (U[u]).label.start ≤ pos ∧ ((pos.toNat + n : Nat) : Int) < (U[u]).label.stop ∧
      ∃ hK : u + K < U.length, (U[u + K]).label.start ≤ (pE : Int) ∧ ((pE + n : Nat) : Int) ≤ (U[u + K]).label.stop ∧
        nodeIndexForPosition (U.drop u) pE 0 = some K := by
  obtain ⟨n, pE, hn, e1, e2, e3, e4, hlt2, hr1, hr2, _, _, ia, ian, ipe, ipel⟩ := hr.2 hv
  have hsV : SortedSpans (U.drop u) := H.sorted.drop u
  have hneV : NodesNE (U.drop u) := NodesNE.drop H.ne u
  have hdrop : U.drop u = U[u] :: U.drop (u + 1) := List.drop_eq_getElem_cons hu
  -- the opening run lies in the first child
  obtain ⟨ta, htam, a1, a2⟩ := ia
  have hta : ta = U[u] := by
    rw [hdrop] at htam
    rcases List.mem_cons.1 htam with e | e
    · exact e
    · exfalso
      have hso : SortedSpans (U[u] :: U.drop (u + 1)) := by rw [← hdrop]; exact hsV
      have := List.rel_of_pairwise_cons hso e
      omega
  subst hta
  obtain ⟨tb, htbm, b1, b2⟩ := ian
  have htb : U[u] = tb := same_node H (List.getElem_mem hu) (List.mem_of_mem_drop htbm) (Nat.le_add_right _ n) a1 a2 b1 b2
    (fun q q1 q2 => by
      have := hr1 (q - pos.toNat) (by omega)
      rwa [show pos.toNat + (q - pos.toNat) = q by omega] at this)
  subst htb
  -- the closing run lies in one child
  obtain ⟨K, tc, hK, hVK, c1, c2⟩ := nodeIndex_of_inU hsV hneV ipe
  obtain ⟨td, htdm, d1, d2⟩ := ipel
  have htcm : tc ∈ U.drop u := List.mem_of_getElem? hVK
  have htd : tc = td := same_node H (List.mem_of_mem_drop htcm) (List.mem_of_mem_drop htdm) (by omega) c1 c2 d1 d2
    (fun q q1 q2 => by
      have := hr2 (q - pE) (by omega)
      rwa [show pE + (q - pE) = q by omega] at this)
  subst htd
  have hKlt : u + K < U.length := by
    have := (List.getElem?_eq_some_iff.1 hVK).1
    simp only [List.length_drop] at this
    omega
  have hUK : U[u + K] = tc := by
    have := (List.getElem?_eq_some_iff.1 hVK).2
    simp only [List.getElem_drop] at this
    exact this
  refine ⟨n, pE, K, hn, ?_, ?_, hlt2, by omega, b2, hKlt, ?_, ?_, hK⟩
  · cases hcs : cs.span with
    | mk s e => rw [hcs] at e1 e4; simp only [] at e1 e4; rw [e1, e4]
  · cases hcs : cs.content with
    | mk s e => rw [hcs] at e2 e3; simp only [] at e2 e3; rw [e2, e3]
  · rw [hUK]; exact c1
  · rw [hUK]; omega

end CM.Proofs.PSc
