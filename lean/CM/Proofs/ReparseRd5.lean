import CM.Proofs.ReparseRd4
/-
C16, `ParaCloseLocal`, part 5: one iteration of the loop of `onCloseParagraph`, as a function of what the scanners
returned (`rdBody`).
-/
namespace CM.Proofs.Rp
open CM CM.Model CM.Gen CM.Proofs

/-- One iteration of `refDefLoop`, given the results of the scanners, the three inline children and the loop itself. -/
def rdBody (orphan : Option PB) (l : PLabel) (is : List Tree) (result : List PB)
    (label : LinkLabel) (c2 : UInt8) (ok4 : Bool) (dest : LinkDest) (sep : Nat) (destEOL : Int) (cloned : Rd) (c7 : UInt8) (p7 : Nat)
    (ok8 : Bool) (title : LinkTitle) (titleEOL : Int) (r10 : Rd) (li di ti : Tree)
    (rec : Rd → PLabel → List Tree → List PB → List PB) : List PB :=
  if !label.span.isValid then (result ++ [PB.mk l [] is]) else
  if c2 != 0x3A then (result ++ [PB.mk l [] is]) else
  if !ok4 then (result ++ [PB.mk l [] is]) else
  if !dest.span.isValid then (result ++ [PB.mk l [] is]) else
  if destEOL < 0 && p7 == sep && c7 != 0 then (result ++ [PB.mk l [] is]) else
  if !ok8 then withOrph orphan (result ++ [mkPB BK.linkRefDef label.span.start destEOL [li, di]]) else
  if !title.span.isValid then
    if destEOL < 0 then (result ++ [PB.mk l [] is]) else
    match nodeIndexForPosition is cloned.pos 0 with
    | none => withOrph orphan (result ++ [mkPB BK.linkRefDef label.span.start destEOL [li, di]])
    | some fc => rec cloned { l with start := cloned.pos } (is.drop fc)
        (result ++ [mkPB BK.linkRefDef label.span.start destEOL [li, di]])
  else
  if titleEOL < 0 then
    if destEOL < 0 then (result ++ [PB.mk l [] is]) else
    match nodeIndexForPosition is cloned.pos 0 with
    | none => withOrph orphan (result ++ [mkPB BK.linkRefDef label.span.start destEOL [li, di]])
    | some fc => (result ++ [mkPB BK.linkRefDef label.span.start destEOL [li, di]]) ++
        [.mk { l with start := cloned.pos } [] (is.drop fc)]
  else
  match nodeIndexForPosition is r10.pos 0 with
  | none => withOrph orphan (result ++ [mkPB BK.linkRefDef label.span.start titleEOL [li, di, ti]])
  | some fc => rec r10 { l with start := r10.pos } (is.drop fc)
      (result ++ [mkPB BK.linkRefDef label.span.start titleEOL [li, di, ti]])

/-- The three inline children of a definition. -/
def liOf (x : PExt) (src : Bytes) (is : List Tree) (label : LinkLabel) : Tree :=
  mkInlineRef IK.linkLabel label.inner.start label.inner.stop
    (transformLinkReferenceSpan x.fold src is label.inner.start.toNat label.inner.stop.toNat)
    (collectTextNodes x.ext src label.inner.stop.toNat IK.text false (rdFuel src is)
      (newReader is label.inner.start.toNat) label.inner.start.toNat [])

def diOf (x : PExt) (src : Bytes) (is : List Tree) (dest : LinkDest) : Tree :=
  mkInline IK.linkDest dest.span.start dest.span.stop
    (collectTextNodes x.ext src dest.text.stop.toNat IK.text true (rdFuel src is)
      (newReader is dest.text.start.toNat) dest.text.start.toNat [])

def tiOf (x : PExt) (src : Bytes) (is : List Tree) (title : LinkTitle) : Tree :=
  mkInline IK.linkTitle title.span.start title.span.stop
    (collectTextNodes x.ext src title.text.stop.toNat IK.text true (rdFuel src is)
      (newReader is title.text.start.toNat) title.text.start.toNat [])

theorem refDefLoop_step (x : PExt) (src : Bytes) (orphan : Option PB) (fuel : Nat) (r : Rd) (l : PLabel) (is : List Tree)
    (result : List PB) {label : LinkLabel} {r1 r2 r3 r4 r5 r6 r7 r8 r9 r10 : Rd} {c2 c7 : UInt8} {ok3 ok4 ok8 : Bool}
    {dest : LinkDest} {destEOL titleEOL : Int} {title : LinkTitle}
    (e1 : parseLinkLabel src (rdFuel src is) r = (label, r1)) (e2 : r1.current src = (c2, r2)) (e3 : r2.next src = (ok3, r3))
    (e4 : skipLinkSpace src (rdFuel src is) r3 = (ok4, r4)) (e5 : parseLinkDestination src (rdFuel src is) r4 = (dest, r5))
    (e6 : readEOL src (rdFuel src is) r5 = (destEOL, r6)) (e7 : r6.current src = (c7, r7))
    (e8 : skipLinkSpace src (rdFuel src is) r7 = (ok8, r8)) (e9 : parseLinkTitle src (rdFuel src is) r8 = (title, r9))
    (e10 : readEOL src (rdFuel src is) r9 = (titleEOL, r10)) :
    refDefLoop x src orphan (fuel + 1) r l is result =
      rdBody orphan l is result label c2 ok4 dest r5.pos destEOL r6 c7 r7.pos ok8 title titleEOL r10
        (liOf x src is label) (diOf x src is dest) (tiOf x src is title) (refDefLoop x src orphan fuel) := by
  rw [refDefLoop]
  simp only [e1]
  simp only [e2]
  simp only [e3]
  simp only [e4]
  simp only [e5]
  simp only [e6]
  simp only [e7]
  simp only [e8]
  simp only [e9]
  simp only [e10]
  unfold rdBody liOf diOf tiOf withOrph
  rfl

end CM.Proofs.Rp
