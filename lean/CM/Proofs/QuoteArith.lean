import CM.Proofs.QuoteDefs
import CM.Proofs.StreamLines
/-
C09 (block-quote half): the line structure of `quote D` and the arithmetic of the position maps.

* `quote_line`: `quote b = "> " ++ (first line of b) ++ quote (rest of b)`.
* `PRabs` on a line: with `D = a ++ b`, `a` whole lines, the line that starts at `|a|` in `D` starts at
  `φ = |a| + 2 · nLF a` in `quote D`; positions `|a| + t` of that line correspond to `φ + 2 + t` (`prabs_here`), the
  line start itself (as an end) to `φ` (`prabs_start`), and corresponding positions lie on the same side of the line
  start (`prabs_ord`).
-/
namespace CM.Proofs.Quote
open CM CM.Model CM.Gen

/-- No carriage return. -/
def NoCR (l : Bytes) : Prop := ∀ c ∈ l, c ≠ CR

theorem Clean.noCR {D : Bytes} (h : Clean D) : NoCR D := fun c hc => (h c hc).2.1
theorem Clean.noTab {D : Bytes} (h : Clean D) : NoTab D := fun c hc => (h c hc).1
theorem Clean.noNul {D : Bytes} (h : Clean D) : ∀ c ∈ D, c ≠ 0 := fun c hc => (h c hc).2.2

theorem NoCR.tail {c : UInt8} {l : Bytes} (h : NoCR (c :: l)) : NoCR l := fun d hd => h d (List.mem_cons_of_mem _ hd)
theorem NoCR.drop {l : Bytes} (h : NoCR l) (n : Nat) : NoCR (l.drop n) := fun c hc => h c (List.mem_of_mem_drop hc)

/-! ### lines of a CR-free byte string -/

/-- The first line is the bytes up to and including the first LF. -/
theorem lineLen_noCR_cons {c : UInt8} {l : Bytes} (h : NoCR (c :: l)) :
    lineLen (c :: l) = if c = LF then 1 else lineLen l + 1 := by
  by_cases hc : c = LF
  · subst hc; rw [if_pos rfl, lineLen_LF]
  · rw [if_neg hc, lineLen_other hc (h c (List.mem_cons_self ..))]

/-- Before the end of the first line there is no LF. -/
theorem take_lineLen_noLF : ∀ (l : Bytes), NoCR l → ∀ t, t < lineLen l → ∀ c ∈ l.take t, c ≠ LF := by
  intro l
  induction l with
  | nil => intro _ t ht; simp at ht
  | cons a rest ih =>
    intro h t ht c hc
    rw [lineLen_noCR_cons h] at ht
    cases t with
    | zero => simp at hc
    | succ t =>
      by_cases ha : a = LF
      · rw [if_pos ha] at ht; omega
      · rw [if_neg ha] at ht
        simp only [List.take_succ_cons, List.mem_cons] at hc
        rcases hc with rfl | hc
        · exact ha
        · exact ih h.tail t (by omega) c hc

theorem qgo_noLF : ∀ (l : Bytes), (∀ c ∈ l, c ≠ LF) → qgo l = l := by
  intro l
  induction l with
  | nil => intro _; rfl
  | cons a rest ih =>
    intro h
    simp only [qgo]
    rw [if_neg (h a (List.mem_cons_self ..)), ih fun c hc => h c (List.mem_cons_of_mem _ hc)]

/-- `qgo` line by line. -/
theorem qgo_line : ∀ (b : Bytes), NoCR b → b ≠ [] →
    qgo b = b.take (lineLen b) ++ quote (b.drop (lineLen b)) := by
  intro b
  induction b with
  | nil => intro _ h; exact absurd rfl h
  | cons a rest ih =>
    intro h _
    rw [lineLen_noCR_cons h]
    by_cases ha : a = LF
    · subst ha
      simp only [qgo, if_true, List.take_succ_cons, List.take_zero, List.drop_succ_cons, List.drop_zero]
      unfold quote
      by_cases hr : rest = []
      · subst hr; rfl
      · rw [if_neg hr, if_neg hr]; rfl
    · rw [if_neg ha]
      simp only [qgo, if_neg ha, List.take_succ_cons, List.drop_succ_cons]
      by_cases hr : rest = []
      · subst hr
        simp [qgo, quote, lineLen]
      · rw [ih h.tail hr]; rfl

/-- **`quote` line by line.** -/
theorem quote_line (b : Bytes) (h : NoCR b) (hne : b ≠ []) :
    quote b = GT :: SP :: (b.take (lineLen b) ++ quote (b.drop (lineLen b))) := by
  unfold quote
  rw [if_neg hne, qgo_line b h hne]
  rfl

theorem quote_nil : quote [] = [] := rfl

theorem quote_ne_nil {b : Bytes} (h : b ≠ []) : quote b ≠ [] := by
  unfold quote; rw [if_neg h]; simp

theorem lineLen_take_quote : ∀ (l : Bytes), NoCR l →
    lineLen (l.take (lineLen l) ++ quote (l.drop (lineLen l))) = lineLen l := by
  intro l
  induction l with
  | nil => intro _; rfl
  | cons a rest ih =>
    intro hl
    rw [lineLen_noCR_cons hl]
    by_cases ha : a = LF
    · subst ha
      simp only [if_true, List.take_succ_cons, List.take_zero, List.cons_append, List.nil_append]
      rw [lineLen_LF]
    · rw [if_neg ha]
      simp only [List.take_succ_cons, List.drop_succ_cons, List.cons_append]
      rw [lineLen_other ha (hl a (List.mem_cons_self ..)), ih hl.tail]

/-- The first line of `quote b` is `> ` followed by the first line of `b`. -/
theorem lineLen_quote (b : Bytes) (h : NoCR b) (hne : b ≠ []) : lineLen (quote b) = lineLen b + 2 := by
  rw [quote_line b h hne]
  have h1 : GT ≠ LF := by decide
  have h2 : GT ≠ CR := by decide
  have h3 : SP ≠ LF := by decide
  have h4 : SP ≠ CR := by decide
  rw [lineLen_other h1 h2, lineLen_other h3 h4, lineLen_take_quote b h]

/-- The first line of `quote b`. -/
theorem take_line_quote (b : Bytes) (h : NoCR b) (hne : b ≠ []) :
    (quote b).take (lineLen (quote b)) = GT :: SP :: b.take (lineLen b) := by
  rw [lineLen_quote b h hne, quote_line b h hne]
  show GT :: SP :: ((b.take (lineLen b) ++ quote (b.drop (lineLen b))).take (lineLen b)) = _
  have hl : (b.take (lineLen b)).length = lineLen b := by
    rw [List.length_take]; exact Nat.min_eq_left (lineLen_le b)
  rw [List.take_append_of_le_length (by omega), List.take_take, Nat.min_self]

theorem drop_line_quote (b : Bytes) (h : NoCR b) (hne : b ≠ []) :
    (quote b).drop (lineLen (quote b)) = quote (b.drop (lineLen b)) := by
  rw [lineLen_quote b h hne, quote_line b h hne]
  show (b.take (lineLen b) ++ quote (b.drop (lineLen b))).drop (lineLen b) = _
  have hl : (b.take (lineLen b)).length = lineLen b := by
    rw [List.length_take]; exact Nat.min_eq_left (lineLen_le b)
  rw [List.drop_append_of_le_length (by omega), List.drop_eq_nil_of_le (by omega), List.nil_append]

/-! ### counting line feeds -/

theorem nLF_append_left (a b : Bytes) (t : Nat) : nLF (a ++ b) (a.length + t) = nLF a a.length + nLF b t := by
  unfold nLF
  rw [List.take_append, List.take_length, List.filter_append, List.length_append]
  have e1 : a.take (a.length + t) = a := List.take_of_length_le (by omega)
  have e2 : a.length + t - a.length = t := by omega
  rw [e1, e2]

theorem nLF_le_of_le (D : Bytes) {i j : Nat} (h : i ≤ j) : nLF D i ≤ nLF D j := by
  unfold nLF
  have : D.take j = D.take i ++ (D.drop i).take (j - i) := by
    have e : j = i + (j - i) := by omega
    conv => lhs; rw [e, List.take_add]
  rw [this, List.filter_append, List.length_append]
  omega

theorem nLF_succ_le (D : Bytes) (i : Nat) : nLF D (i + 1) ≤ nLF D i + 1 := by
  unfold nLF
  rw [List.take_add, List.filter_append, List.length_append]
  have : ((List.take 1 (List.drop i D)).filter (· == LF)).length ≤ 1 := by
    have h1 := List.length_filter_le (· == LF) (List.take 1 (List.drop i D))
    have h2 : (List.take 1 (List.drop i D)).length ≤ 1 := by rw [List.length_take]; omega
    omega
  omega

/-- Inside the first line (before its end) there is no LF. -/
theorem nLF_line (b : Bytes) (h : NoCR b) (t : Nat) (ht : t < lineLen b) : nLF b t = 0 := by
  unfold nLF
  rw [List.length_eq_zero_iff, List.filter_eq_nil_iff]
  intro c hc
  have := take_lineLen_noLF b h t ht c hc
  simpa using this

/-- A line that is followed by something contains exactly one LF (its last byte). -/
theorem filter_line_LF : ∀ (b : Bytes), NoCR b → b.drop (lineLen b) ≠ [] →
    ((b.take (lineLen b)).filter (· == LF)).length = 1 := by
  intro b
  induction b with
  | nil => intro _ h; simp at h
  | cons a rest ih =>
    intro hb hne
    rw [lineLen_noCR_cons hb] at hne ⊢
    by_cases ha : a = LF
    · subst ha
      simp
    · rw [if_neg ha] at hne ⊢
      simp only [List.take_succ_cons, List.drop_succ_cons] at hne ⊢
      rw [List.filter_cons_of_neg (by simpa using ha)]
      exact ih hb.tail hne

theorem nLF_take_length (a : Bytes) : nLF a a.length = (a.filter (· == LF)).length := by
  unfold nLF; rw [List.take_length]

theorem nLF_append_le (a b : Bytes) (j : Nat) (h : j ≤ a.length) : nLF (a ++ b) j = nLF a j := by
  unfold nLF
  rw [List.take_append_of_le_length h]

theorem nLF_zero (D : Bytes) : nLF D 0 = 0 := rfl

/-- `a` consists of whole lines. -/
def Whole (a : Bytes) : Prop := a = [] ∨ a.getLast? = some LF

theorem nLF_last {a : Bytes} (h : a.getLast? = some LF) : nLF a (a.length - 1) + 1 = nLF a a.length := by
  have hne : a ≠ [] := by intro e; rw [e] at h; cases h
  have e := List.dropLast_concat_getLast hne
  rw [List.getLast?_eq_some_getLast hne] at h
  have h' : a.getLast hne = LF := Option.some.inj h
  have e2 : a = a.dropLast ++ [LF] := by rw [h'] at e; exact e.symm
  have hl : a.length = a.dropLast.length + 1 := by
    conv => lhs; rw [e2]
    simp
  unfold nLF
  rw [List.take_length]
  have e3 : a.take (a.length - 1) = a.dropLast := by
    rw [List.dropLast_eq_take]
  rw [e3]
  conv => rhs; rw [e2]
  rw [List.filter_append, List.length_append]
  rfl

theorem psiE_le_psiS (D : Bytes) (j : Nat) : psiE D j ≤ psiS D j := by
  unfold psiE psiS
  split
  · omega
  · have := nLF_le_of_le D (show j - 1 ≤ j by omega)
    omega

section line
variable {D a b : Bytes} (hD : D = a ++ b) (hcr : NoCR D) (ha : Whole a)
include hD hcr ha

omit ha in
theorem noCR_b : NoCR b := fun c hc => hcr c (by rw [hD]; exact List.mem_append_right _ hc)

omit hcr in
/-- The start of the line in `quote D`. -/
theorem psiE_lineStart : psiE D a.length = a.length + 2 * nLF a a.length := by
  unfold psiE
  rcases ha with rfl | hl
  · rfl
  · have hne : a ≠ [] := by intro e; rw [e] at hl; cases hl
    have hpos : 0 < a.length := List.length_pos_iff.mpr hne
    rw [if_neg (by omega), hD, nLF_append_le a b _ (by omega)]
    have := nLF_last hl
    omega

/-- Positions inside the line, as starts. -/
theorem psiS_line (t : Nat) (ht : t < lineLen b ∨ t = 0) : psiS D (a.length + t) = a.length + 2 * nLF a a.length + 2 + t := by
  unfold psiS
  rw [hD, nLF_append_left]
  have : nLF b t = 0 := by
    rcases ht with ht | rfl
    · exact nLF_line b (noCR_b hD hcr) t ht
    · rfl
  omega

/-- Positions inside the line (or at its end), as ends. -/
theorem psiE_line (t : Nat) (ht1 : 1 ≤ t) (ht : t ≤ lineLen b) :
    psiE D (a.length + t) = a.length + 2 * nLF a a.length + 2 + t := by
  unfold psiE
  rw [if_neg (by omega)]
  have e : a.length + t - 1 = a.length + (t - 1) := by omega
  rw [e, hD, nLF_append_left, nLF_line b (noCR_b hD hcr) (t - 1) (by omega)]
  omega

theorem prabs_here (c : Nat) (hc : c ≤ a.length) (t : Nat) (ht : t ≤ lineLen b) :
    PRabs D c ((a.length - c + t : Nat) : Int) ((a.length + 2 * nLF a a.length + 2 + t : Nat) : Int) := by
  refine ⟨Int.natCast_nonneg _, ?_⟩
  have e : ((a.length - c + t : Nat) : Int).toNat + c = a.length + t := by omega
  rw [e]
  by_cases h0 : t = 0
  · left; rw [psiS_line hD hcr ha t (Or.inr h0)]
  · right; rw [psiE_line hD hcr ha t (by omega) ht]

theorem prabs_start (c : Nat) (hc : c ≤ a.length) :
    PRabs D c ((a.length - c : Nat) : Int) ((a.length + 2 * nLF a a.length : Nat) : Int) := by
  refine ⟨Int.natCast_nonneg _, Or.inr ?_⟩
  have e : ((a.length - c : Nat) : Int).toNat + c = a.length := by omega
  rw [e, psiE_lineStart hD ha]

theorem prabs_ord (c : Nat) (hc : c ≤ a.length) (x x' : Int) (h : PRabs D c x x') :
    (((a.length - c : Nat) : Int) ≤ x ↔ ((a.length + 2 * nLF a a.length : Nat) : Int) ≤ x') := by
  obtain ⟨h0, hx⟩ := h
  have hSE := psiE_le_psiS D (x.toNat + c)
  by_cases hge : a.length ≤ x.toNat + c
  · -- at or after the line start
    have hE : a.length + 2 * nLF a a.length ≤ psiE D (x.toNat + c) := by
      obtain ⟨t, ht⟩ : ∃ t, x.toNat + c = a.length + t := ⟨x.toNat + c - a.length, by omega⟩
      rw [ht]
      by_cases h0 : t = 0
      · subst h0; rw [Nat.add_zero, psiE_lineStart hD ha]; exact Nat.le_refl _
      · unfold psiE
        rw [if_neg (by omega)]
        have e : a.length + t - 1 = a.length + (t - 1) := by omega
        rw [e]
        have : nLF a a.length ≤ nLF D (a.length + (t - 1)) := by
          rw [hD, nLF_append_left]; omega
        omega
    constructor
    · intro _
      rcases hx with hx | hx <;> rw [hx] <;> omega
    · intro _; omega
  · -- before the line start: `a` is not empty and ends with LF
    have hlt : x.toNat + c < a.length := by omega
    have hl : a.getLast? = some LF := by
      rcases ha with rfl | hl
      · simp at hlt
      · exact hl
    have hS : psiS D (x.toNat + c) < a.length + 2 * nLF a a.length := by
      unfold psiS
      have h1 : nLF D (x.toNat + c) ≤ nLF a (a.length - 1) := by
        rw [hD, nLF_append_le a b _ (by omega)]
        exact nLF_le_of_le a (by omega)
      have := nLF_last hl
      omega
    constructor
    · intro h; omega
    · intro h
      rcases hx with hx | hx <;> rw [hx] at h <;> omega

end line

end CM.Proofs.Quote
