import CM.Proofs.Padding
/-
C01, line structure: the length of the first line of a buffer (`lineLen`), `readline` of the in-memory parser in closed
form, `lineCount` over concatenations that do not split a CRLF, cut positions (`GoodCut`).
-/
namespace CM.Model
open CM CM.Gen CM.Spec

/-- Length of the first line of `l`, terminator included: up to and including the first LF, CR not followed by LF,
    or CRLF; the whole of `l` if there is no line ending. -/
def lineLen : Bytes → Nat
  | [] => 0
  | c :: rest =>
    if c = LF then 1
    else if c = CR then (if rest.head? = some LF then 2 else 1)
    else 1 + lineLen rest

/-- `ln` is one complete line: non-empty, nothing after its first line ending. -/
def IsLine (ln : Bytes) : Prop := ln ≠ [] ∧ lineLen ln = ln.length

instance (ln : Bytes) : Decidable (IsLine ln) := by unfold IsLine; infer_instance

/-- Cutting between `a` and `b` separates a CR from its LF. -/
def CRLFSplit (a b : Bytes) : Prop := a.getLast? = some CR ∧ b.head? = some LF

instance (a b : Bytes) : Decidable (CRLFSplit a b) := by unfold CRLFSplit; infer_instance

/-- A cut position the stream machine can handle: it splits neither a padded NUL nor a CRLF. -/
def GoodCut (b : Bytes) (n : Nat) : Prop := Aligned b n ∧ ¬ CRLFSplit (b.take n) (b.drop n)

instance (b : Bytes) (n : Nat) : Decidable (GoodCut b n) := by unfold GoodCut; infer_instance

theorem CR_ne_LF : (CR : UInt8) ≠ LF := by decide
theorem LF_ne_CR : (LF : UInt8) ≠ CR := by decide

@[simp] theorem lineLen_nil : lineLen [] = 0 := rfl
theorem lineLen_LF (rest : Bytes) : lineLen (LF :: rest) = 1 := by simp [lineLen]
theorem lineLen_CRLF (r : Bytes) : lineLen (CR :: LF :: r) = 2 := by simp [lineLen, CR_ne_LF]
theorem lineLen_CR {rest : Bytes} (h : rest.head? ≠ some LF) : lineLen (CR :: rest) = 1 := by
  simp [lineLen, CR_ne_LF, h]
theorem lineLen_other {c : UInt8} (h1 : c ≠ LF) (h2 : c ≠ CR) (rest : Bytes) :
    lineLen (c :: rest) = lineLen rest + 1 := by
  simp [lineLen, h1, h2]; omega

/-- Case analysis on the head of a buffer, as `lineLen` sees it. -/
theorem lineLen_cases (P : Bytes → Prop)
    (hnil : P [])
    (hLF : ∀ rest, P (LF :: rest))
    (hCRLF : ∀ r, P (CR :: LF :: r))
    (hCR : ∀ rest, rest.head? ≠ some LF → P (CR :: rest))
    (hother : ∀ c rest, c ≠ LF → c ≠ CR → P rest → P (c :: rest)) : ∀ l, P l := by
  intro l
  induction l with
  | nil => exact hnil
  | cons c rest ih =>
    by_cases h1 : c = LF
    · subst h1; exact hLF rest
    · by_cases h2 : c = CR
      · subst h2
        by_cases h3 : rest.head? = some LF
        · cases rest with
          | nil => simp at h3
          | cons d r => simp at h3; subst h3; exact hCRLF r
        · exact hCR rest h3
      · exact hother c rest h1 h2 ih

theorem lineLen_le (l : Bytes) : lineLen l ≤ l.length := by
  induction l using lineLen_cases with
  | hnil => simp
  | hLF rest => simp [lineLen_LF]
  | hCRLF r => simp [lineLen_CRLF]
  | hCR rest h => simp [lineLen_CR h]
  | hother c rest h1 h2 ih => simp [lineLen_other h1 h2]; omega

theorem lineLen_pos {l : Bytes} (hne : l ≠ []) : 0 < lineLen l := by
  induction l using lineLen_cases with
  | hnil => exact absurd rfl hne
  | hLF rest => simp [lineLen_LF]
  | hCRLF r => simp [lineLen_CRLF]
  | hCR rest h => simp [lineLen_CR h]
  | hother c rest h1 h2 ih => simp [lineLen_other h1 h2]

theorem lineLen_take (l : Bytes) : lineLen (l.take (lineLen l)) = lineLen l := by
  induction l using lineLen_cases with
  | hnil => simp
  | hLF rest => simp [lineLen_LF]
  | hCRLF r => simp [lineLen_CRLF]
  | hCR rest h => rw [lineLen_CR h]; simp [lineLen, CR_ne_LF]
  | hother c rest h1 h2 ih => simp [lineLen_other h1 h2, ih]

theorem isLine_take {l : Bytes} (h : l ≠ []) : IsLine (l.take (lineLen l)) := by
  have hp := lineLen_pos h
  have hl := lineLen_le l
  refine ⟨?_, ?_⟩
  · intro e
    have := congrArg List.length e
    rw [List.length_take, List.length_nil] at this; omega
  · rw [lineLen_take, List.length_take]; omega

theorem getLast?_cons_of_getLast? {c d : UInt8} {l : Bytes} (h : l.getLast? = some d) :
    (c :: l).getLast? = some d := by
  cases l with
  | nil => simp at h
  | cons e r => simpa [List.getLast?_cons_cons] using h

theorem not_crlfSplit_line (l : Bytes) : ¬ CRLFSplit (l.take (lineLen l)) (l.drop (lineLen l)) := by
  induction l using lineLen_cases with
  | hnil => simp [CRLFSplit]
  | hLF rest => simp [lineLen_LF, CRLFSplit, LF_ne_CR]
  | hCRLF r => simp [lineLen_CRLF, CRLFSplit, LF_ne_CR]
  | hCR rest h => simpa [lineLen_CR h, CRLFSplit] using h
  | hother c rest h1 h2 ih =>
    rw [lineLen_other h1 h2, List.take_succ_cons, List.drop_succ_cons]
    intro ⟨ha, hb⟩
    apply ih
    refine ⟨?_, hb⟩
    cases ht : rest.take (lineLen rest) with
    | nil => rw [ht] at ha; simp at ha; exact absurd ha h2
    | cons d r => rw [ht] at ha; simpa [List.getLast?_cons_cons] using ha

/-- The first line ends the buffer or ends with a line-ending byte. -/
theorem line_end (l : Bytes) :
    l.drop (lineLen l) = [] ∨ (l.take (lineLen l)).getLast? = some LF ∨ (l.take (lineLen l)).getLast? = some CR := by
  induction l using lineLen_cases with
  | hnil => simp
  | hLF rest => simp [lineLen_LF]
  | hCRLF r => simp [lineLen_CRLF]
  | hCR rest h => simp [lineLen_CR h]
  | hother c rest h1 h2 ih =>
    rw [lineLen_other h1 h2, List.take_succ_cons, List.drop_succ_cons]
    rcases ih with h | h | h
    · exact Or.inl h
    · exact Or.inr (Or.inl (getLast?_cons_of_getLast? h))
    · exact Or.inr (Or.inr (getLast?_cons_of_getLast? h))

/-- A terminated first line counts as exactly one line. -/
theorem lineCount_line {l : Bytes} (h : l.drop (lineLen l) ≠ []) : lineCount (l.take (lineLen l)) = 1 := by
  induction l using lineLen_cases with
  | hnil => simp at h
  | hLF rest => simp [lineLen_LF, lineCount]
  | hCRLF r => simp [lineLen_CRLF, lineCount, CR_ne_LF]
  | hCR rest h' => simp [lineLen_CR h', lineCount, CR_ne_LF]
  | hother c rest h1 h2 ih =>
    rw [lineLen_other h1 h2, List.take_succ_cons]
    rw [lineLen_other h1 h2, List.drop_succ_cons] at h
    rw [lineCount_cons_other h1 h2, ih h]

/-- `lineCount` is additive over a cut that does not split a CRLF. -/
theorem lineCount_append {a b : Bytes} (h : ¬ CRLFSplit a b) : lineCount (a ++ b) = lineCount a + lineCount b := by
  induction a with
  | nil => simp [lineCount]
  | cons c a ih =>
    have h' : ¬ CRLFSplit a b ∨ a = [] := by
      cases a with
      | nil => exact Or.inr rfl
      | cons d r =>
        left; intro ⟨h1, h2⟩; apply h; refine ⟨?_, h2⟩
        simpa [List.getLast?_cons_cons] using h1
    by_cases h1 : c = LF
    · subst h1
      rcases h' with h' | h'
      · simp only [List.cons_append, lineCount_cons_LF, ih h']; omega
      · subst h'; simp [lineCount_cons_LF, lineCount]
    · by_cases h2 : c = CR
      · subst h2
        rcases h' with h' | h'
        · simp only [List.cons_append, lineCount_cons_CR, ih h']
          cases a with
          | nil => simp [CRLFSplit] at h; simp [h, lineCount]
          | cons d r => simp; omega
        · subst h'
          simp only [CRLFSplit, List.getLast?_singleton, true_and] at h
          simp [lineCount_cons_CR, h, lineCount]
      · rcases h' with h' | h'
        · simp only [List.cons_append, lineCount_cons_other h1 h2, ih h']
        · subst h'
          show lineCount (c :: b) = lineCount [c] + lineCount b
          rw [lineCount_cons_other h1 h2, lineCount_cons_other h1 h2]; simp [lineCount]

/-! ### `readline` of the in-memory parser -/

theorem indexEOL_succ (l : Bytes) (k : Nat) : indexEOL l (k + 1) = (indexEOL l k).map (· + 1) := by
  induction l generalizing k with
  | nil => simp [indexEOL]
  | cons c rest ih =>
    simp only [indexEOL]
    split
    · simp
    · exact ih (k + 1)

/-- `eolEnd?` on the list after the parse position. -/
def eolLen (l : Bytes) : Nat :=
  match indexEOL l 0 with
  | some k =>
    if l.getD k 0 == LF then k + 1
    else if k + 1 < l.length then (if l.getD (k + 1) 0 == LF then k + 2 else k + 1)
    else l.length
  | none => l.length

theorem eolLen_eq_lineLen (l : Bytes) : eolLen l = lineLen l := by
  induction l using lineLen_cases with
  | hnil => simp [eolLen, indexEOL]
  | hLF rest => simp [eolLen, indexEOL, lineLen_LF]
  | hCRLF r => simp [eolLen, indexEOL, lineLen_CRLF, CR_ne_LF]
  | hCR rest h =>
    cases rest with
    | nil => simp [eolLen, indexEOL, lineLen_CR h, CR_ne_LF]
    | cons d r =>
      have : d ≠ LF := by simpa using h
      simp [eolLen, indexEOL, lineLen_CR h, CR_ne_LF, this]
  | hother c rest h1 h2 ih =>
    rw [lineLen_other h1 h2, ← ih]
    have hne : (c == CR || c == LF) = false := by simp [h1, h2]
    simp only [eolLen, indexEOL, hne, Bool.false_eq_true, ↓reduceIte]
    rw [show (0 + 1 : Nat) = 0 + 1 from rfl, indexEOL_succ]
    cases hi : indexEOL rest 0 with
    | none => simp
    | some k =>
      simp only [Option.map_some, List.getD_eq_getElem?_getD, List.getElem?_cons_succ, List.length_cons]
      by_cases ha : (rest[k]?.getD 0 == LF) = true
      · simp [ha]
      · by_cases hb : k + 1 < rest.length
        · simp [ha, hb]
          split <;> rfl
        · simp [ha, hb]

theorem eolEnd?_mem (p : BP) (he : p.err.isSome = true) (hi : p.i ≤ p.buf.length) :
    eolEnd? p = some (p.i + lineLen (p.buf.drop p.i)) := by
  rw [← eolLen_eq_lineLen]
  have hg : ∀ k, p.buf.getD (p.i + k) 0 = (p.buf.drop p.i).getD k 0 := by
    intro k; simp [List.getD_eq_getElem?_getD, List.getElem?_drop]
  have hl : (p.buf.drop p.i).length = p.buf.length - p.i := by simp
  simp only [eolEnd?, eolLen, he, if_true]
  cases indexEOL (p.buf.drop p.i) 0 with
  | none => simp; omega
  | some k =>
    simp only [hg, Nat.add_assoc, hl]
    split
    · rfl
    · have : (p.i + (k + 1) < p.buf.length) ↔ (k + 1 < p.buf.length - p.i) := by omega
      simp only [this]
      split
      · split <;> rfl
      · simp; omega

/-- `readline` of a parser whose error is already set (`Parse`): no read, the position moves to the end of the
    line; it reports whether the position moved. -/
theorem readline_mem (fuel : Nat) (p : BP) (he : p.err.isSome = true) (hi : p.i ≤ p.buf.length) :
    readline (fuel + 1) p =
      (decide (0 < lineLen (p.buf.drop p.i)), { p with i := p.i + lineLen (p.buf.drop p.i) }) := by
  simp only [readline, eolEnd?_mem p he hi]
  congr 1
  simp

end CM.Model
