import CM.Proofs.ParseWholeGrammarPrim
/-
C05, inline half — what `wrap` does, exactly enough: the new node `r = |arena|` takes over the children `[si, ei)` of the
parent `P` of the start node (`wrapArena`), `kids[si-1]` is the start node, no child in `[si, ei)` is the end node, and
without an end node `ei` is the end of the children; `parentMap` changes at the moved children and at `r` only.
-/
namespace CM.Proofs.InlH
open CM CM.Model CM.Model.Inl
open Std.Do

set_option mvcgen.warning false

/-- after `alloc` and `setParent` -/
def W1 (s0 s : IState) (kind sn : Nat) : Prop :=
  ∃ P nd, (s0.parentMap[sn]?).join = some P ∧ nd.kind = kind ∧ nd.ref = [] ∧ s.nodes = s0.nodes.push nd ∧
    s.parentMap = (s0.parentMap.push none).set! s0.nodes.size (some P) ∧ s.stack = s0.stack

/-- during the re-parenting loop -/
def W3 (s0 s : IState) (kind sn si ei : Nat) (done : List Nat) : Prop :=
  ∃ P nd, (s0.parentMap[sn]?).join = some P ∧ nd.kind = kind ∧ nd.ref = [] ∧ s.nodes = wrapArena s0.nodes nd P si ei ∧
    s.stack = s0.stack ∧ s.parentMap.size = s0.nodes.size + 1 ∧
    (∀ k ∈ done, k < s0.nodes.size → (s.parentMap[k]?).join = some s0.nodes.size) ∧
    (∀ k, k < s0.nodes.size → k ∉ (wrapMoved s0.nodes P si ei).toList → (s.parentMap[k]?).join = (s0.parentMap[k]?).join)

/-- the result of `wrap` -/
def WrapPost (s0 s : IState) (kind sn : Nat) (en : Option Nat) (r : Nat) : Prop :=
  ∃ P si ei nd, (s0.parentMap[sn]?).join = some P ∧ nd.kind = kind ∧ nd.ref = [] ∧ r = s0.nodes.size ∧
    1 ≤ si ∧ (s0.nodes[P]!).kids.size ≠ 0 ∧ ((s0.nodes[P]!).kids[si - 1]!) = sn ∧ si ≤ ei ∧
    (∀ j, si ≤ j → j < ei → (some ((s0.nodes[P]!).kids[j]!) == en) = false) ∧
    (en = none → (s0.nodes[P]!).kids.size ≤ ei) ∧
    s.nodes = wrapArena s0.nodes nd P si ei ∧ s.stack = s0.stack ∧
    WrapPM s0.nodes s0.parentMap s.parentMap P si ei

theorem pm_push_set_other (pm : Array (Option Nat)) (n k : Nat) (v : Option Nat) (hk : k < pm.size) (hn : pm.size ≤ n) :
    (((pm.push none).set! n v)[k]?).join = (pm[k]?).join := by
  rw [Array.set!_eq_setIfInBounds, Array.getElem?_setIfInBounds, if_neg (by omega), Array.getElem?_push, if_neg (by omega)]

@[spec high + 1]
theorem wrap_specO (kind sn : Nat) (en : Option Nat) (s0 : IState) (hpm : s0.parentMap.size = s0.nodes.size) :
    ⦃fun s => ⌜s = s0⌝⦄ wrap kind sn en ⦃⇓? r s => ⌜WrapPost s0 s kind sn en r⌝⦄ := by
  mvcgen [wrap, alloc, setParent, modifyNode, -wrap_spec, -wrap_specS]
  case inv1 => exact PostCond.mayThrow (fun p s => ⌜W1 s0 s kind sn ∧ 1 ≤ p.2⌝)
  case inv3 => exact PostCond.mayThrow (fun _ _ => ⌜True⌝)
  case inv4 =>
    rename_i _ _ _ _ _ _ _ _ kids si _ _ _ _
    exact PostCond.mayThrow (fun p s => ⌜W1 s0 s kind sn ∧ si ≤ p.2 ∧
      (∀ j, si ≤ j → j < p.2 → (some kids[j]! == en) = false) ∧
      (en = none → p.2 = si + p.1.prefix.length ∨ kids.size ≤ p.2)⌝)
  case inv5 =>
    rename_i _ _ _ _ _ _ _ _ kids si _ _ _ _ ei _ _ _ _ _
    exact PostCond.mayThrow (fun p s => ⌜W3 s0 s kind sn si ei p.1.prefix⌝)
  inl_norm
  · assumption
  · assumption
  · exact ⟨(‹W1 _ _ _ _ ∧ _›).1, by have := (‹W1 _ _ _ _ ∧ _›).2; omega⟩
  · subst_vars
    exact ⟨⟨_, _, ‹_›, rfl, rfl, rfl, rfl, rfl⟩, Nat.le_refl _⟩
  · -- loop 2: the children are exhausted
    obtain ⟨h1, h2, h3, _⟩ := ‹W1 _ _ _ _ ∧ _ ∧ _ ∧ _›
    refine ⟨h1, h2, h3, fun _ => Or.inr ?_⟩
    have hc := ‹(!decide (_ < _)) = true›
    simp only [Bool.not_eq_true', decide_eq_false_iff_not, Nat.not_lt] at hc
    exact hc
  · -- loop 2: the end node is found
    obtain ⟨h1, h2, h3, _⟩ := ‹W1 _ _ _ _ ∧ _ ∧ _ ∧ _›
    refine ⟨h1, h2, h3, fun e => ?_⟩
    have hc := ‹(some _ == en) = true›
    rw [e] at hc
    simp at hc
  · -- loop 2: one step
    rename_i b hb1 hb2 ei s h
    obtain ⟨h1, h2, h3, h4⟩ := h
    refine ⟨h1, by omega, ?_, ?_⟩
    · intro j hj1 hj2
      by_cases hjb : j < b
      · exact h3 j hj1 hjb
      · have : j = b := by omega
        subst this
        simpa using hb2
    · intro e
      rcases h4 e with h | h
      · left; simp only [List.length_append, List.length_cons, List.length_nil]; omega
      · right; omega
  · -- loop 2: start
    exact ⟨(‹W1 _ _ _ _ ∧ _›).1, Nat.le_refl _, fun j h1 h2 => by omega, fun _ => Or.inl (by simp)⟩
  · -- loop 3: one child re-parented
    have hW3 := ‹W3 _ _ _ _ _ _ _›
    have hsplit := ‹(_ : List Nat) = _ ++ _ :: _›
    have hx := ‹(_ : Array (Option Nat))[sn]?.join = some _›
    obtain rfl : s0 = _ := (‹_ = s0›).symm
    obtain ⟨P, nd, hj, hk, hr, hn, hst, hsz, hd, ho⟩ := hW3
    have hP : P = _ := Option.some.inj (hj.symm.trans hx)
    have hmem : ∀ {l p q : List Nat} {c : Nat}, l = p ++ c :: q → c ∈ l := by
      intro l p q c h; rw [h]; simp
    simp -failIfUnchanged +zetaDelta only []
    refine ⟨P, nd, hj, hk, hr, hn, hst, ?_, ?_, ?_⟩
    · rw [Array.set!_eq_setIfInBounds, Array.size_setIfInBounds]; exact hsz
    · intro k hk' hks
      simp only [Array.set!_eq_setIfInBounds, Array.getElem?_setIfInBounds]
      split
      · rw [if_pos (by omega)]; rfl
      · rcases List.mem_append.1 hk' with hk'' | hk''
        · exact hd k hk'' hks
        · rename_i hne; exact absurd (List.mem_singleton.1 hk'').symm hne
    · intro k hks hkm
      simp only [Array.set!_eq_setIfInBounds, Array.getElem?_setIfInBounds]
      rw [if_neg]
      · exact ho k hks hkm
      · intro e
        apply hkm
        rw [← e]
        unfold wrapMoved
        rw [hP]
        exact hmem hsplit
  · -- loop 3: start
    have hW := ‹W1 _ _ _ _ ∧ _ ∧ _ ∧ _›
    have hx := ‹(_ : Array (Option Nat))[sn]?.join = some _›
    obtain rfl : s0 = _ := (‹_ = s0›).symm
    obtain ⟨⟨P, nd, hj, hk, hr, hn, hpm', hst⟩, _⟩ := hW
    have hP : P = _ := Option.some.inj (hj.symm.trans hx)
    subst hP
    simp -failIfUnchanged +zetaDelta only []
    refine ⟨P, nd, hj, hk, hr, ?_, hst, ?_, ?_, ?_⟩
    · rw [hn]; rfl
    · rw [hpm', Array.set!_eq_setIfInBounds, Array.size_setIfInBounds, Array.size_push, hpm]
    · intro k hk'; simp at hk'
    · intro k hks _
      rw [hpm']
      exact pm_push_set_other _ _ _ _ (by omega) (by omega)
  · -- the result
    have hW3 := ‹W3 _ _ _ _ _ _ _›
    have hW := ‹W1 _ _ _ _ ∧ _ ∧ _ ∧ _›
    have hW1 := ‹W1 _ _ _ _ ∧ 1 ≤ _›
    have hchk := ‹¬(_ == 0 || _ != sn) = true›
    have hx := ‹(_ : Array (Option Nat))[sn]?.join = some _›
    obtain rfl : s0 = _ := (‹_ = s0›).symm
    obtain ⟨P, nd, hj, hk, hr, hn, hst, hsz, hd, ho⟩ := hW3
    have hP : P = _ := Option.some.inj (hj.symm.trans hx)
    subst hP
    obtain ⟨_, h2, h3, h4⟩ := hW
    simp only [Bool.or_eq_true, beq_iff_eq, bne_iff_ne, ne_eq, not_or, Decidable.not_not] at hchk
    refine ⟨P, _, _, nd, hj, hk, hr, rfl, hW1.2, hchk.1, hchk.2, h2, h3, ?_, hn, hst, ⟨hsz, hd, ho⟩⟩
    intro e
    rcases h4 e with h | h
    · rw [h]; simp
      exact Nat.le_add_left _ _
    · exact h
  · intro h; exact h.elim

end CM.Proofs.InlH
