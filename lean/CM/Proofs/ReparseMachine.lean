import CM.Proofs.ReparseDefs
/-
C16, Layer U, part 1: the per-line loop of `NextBlock` on a buffer `x ++ t` (the document from the first line of a
root on) and on `x` alone (the root's `Source`), for EVERY line parser with a session invariant `Sess` and the residual
obligation `CloseIndep`.

* `parseLines_feed`: a per-line loop that delivers a root has fed the line parser a chain of lines (`Feed`).
* `parseLines_reparse`: the two loops are in lockstep (identical line calls) until the run on `x` reaches the end of its
  buffer; there the run on `x` feeds the end-of-input line, the run on `x ++ t` the next line(s) — and `CloseIndep`
  says that the first child comes out the same.
-/
namespace CM.Proofs.Rp
open CM CM.Model CM.Gen CM.Proofs

/-! ### Small facts -/

theorem extBP_nil (q : BP) : extBP [] q = q := by
  cases q; simp [extBP]

theorem setI_self (q : BP) : { q with i := q.i } = q := by cases q; rfl

theorem rootOf_setI (q : BP) (i : Nat) (k : PB) : rootOf { q with i := i } k = rootOf q k := rfl

theorem take_split {b : Bytes} {ls i : Nat} (h : ls ≤ i) : b.take i = b.take ls ++ (b.take i).drop ls := by
  have := (List.take_append_drop ls (b.take i)).symm
  rwa [List.take_take, Nat.min_eq_left h] at this

theorem drop_take_line (b : Bytes) (i n : Nat) : (b.take (i + n)).drop i = (b.drop i).take n := by
  rw [List.drop_take]; congr 1; omega

theorem rl_mem (q : BP) (herr : q.err.isSome = true) (hile : q.i ≤ q.buf.length) :
    readline (q.rd.data.length + q.rd.sched.length + 2) q =
      (decide (0 < lineLen (q.buf.drop q.i)), { q with i := q.i + lineLen (q.buf.drop q.i) }) :=
  Model.readline_mem (q.rd.data.length + q.rd.sched.length + 1) q herr hile

theorem rl_mem_end (q : BP) (herr : q.err.isSome = true) (he : q.i = q.buf.length) :
    readline (q.rd.data.length + q.rd.sched.length + 2) q = (false, q) := by
  rw [rl_mem q herr (by omega)]
  have : q.buf.drop q.i = [] := by rw [he]; simp
  rw [this]
  simp only [lineLen_nil, Nat.lt_irrefl, decide_false, Nat.add_zero]

theorem linesLeft_step {b : Bytes} {i : Nat} (h : i < b.length) :
    linesLeft b (i + lineLen (b.drop i)) < linesLeft b i := by
  let q : BP := { buf := b, i := i, err := some .eof }
  have he := Model.eolEnd?_mem q rfl (Nat.le_of_lt h)
  rw [eolEnd?_eq] at he
  have hne : b.drop i ≠ [] := by
    intro e; have := congrArg List.length e; simp at this; omega
  exact linesLeft_lt he (by have := lineLen_pos hne; show i < i + lineLen (b.drop i); omega)

theorem rootOf_endOffset (p : BP) (k : PB) (hnn : NoNul p.buf) :
    (rootOf p k).endOffset = p.offset + min (stopOf k) p.buf.length := by
  show p.offset + unpaddedNullLength (p.buf.take k.label.stop.toNat) = _
  rw [unpaddedNullLength_noNul (hnn.take _), List.length_take]
  rfl

theorem rootOf_source (p : BP) (k : PB) (hnn : NoNul p.buf) : (rootOf p k).source = p.buf.take (stopOf k) := by
  show fillNulls (p.buf.take k.label.stop.toNat) = _
  rw [fillNulls_noNul (hnn.take _)]
  rfl

/-- `n` is the end of the buffer, or a position behind a line ending that is not the CR of a CRLF. -/
def LineEnd (b : Bytes) (n : Nat) : Prop :=
  n ≤ b.length ∧ (n = b.length ∨ (terminated (b.take n) = true ∧ ¬ CRLFSplit (b.take n) (b.drop n)))

theorem lineEnd_next (b : Bytes) (i : Nat) (hi : i ≤ b.length) : LineEnd b (i + lineLen (b.drop i)) := by
  have hle := lineLen_le (b.drop i)
  simp only [List.length_drop] at hle
  refine ⟨by omega, ?_⟩
  have hdrop : b.drop (i + lineLen (b.drop i)) = (b.drop i).drop (lineLen (b.drop i)) := by rw [List.drop_drop]
  have htake : b.take (i + lineLen (b.drop i)) = b.take i ++ (b.drop i).take (lineLen (b.drop i)) := by rw [List.take_add]
  rcases line_end (b.drop i) with h | h | h
  · left
    have := congrArg List.length h
    rw [← hdrop] at this
    simp only [List.length_drop, List.length_nil] at this
    omega
  · right
    have hne : (b.drop i).take (lineLen (b.drop i)) ≠ [] := by intro e; rw [e] at h; simp at h
    have hl : (b.take (i + lineLen (b.drop i))).getLast? = some LF := by
      rw [htake, getLast?_append_of_ne_nil _ hne]; exact h
    refine ⟨by unfold terminated; rw [hl]; rfl, ?_⟩
    intro ⟨h1, _⟩
    rw [hl] at h1
    exact absurd h1 (by decide)
  · right
    have hne : (b.drop i).take (lineLen (b.drop i)) ≠ [] := by intro e; rw [e] at h; simp at h
    have hl : (b.take (i + lineLen (b.drop i))).getLast? = some CR := by
      rw [htake, getLast?_append_of_ne_nil _ hne]; exact h
    refine ⟨by unfold terminated; rw [hl]; rfl, ?_⟩
    intro ⟨_, h2⟩
    rw [hdrop] at h2
    exact not_crlfSplit_line (b.drop i) ⟨h, h2⟩

theorem LineEnd.terminated {b : Bytes} {n : Nat} (h : LineEnd b n) (hlt : n < b.length) : terminated (b.take n) = true := by
  rcases h.2 with e | e
  · omega
  · exact e.1

/-- The line that starts at a line end (inside the buffer) `Joins` what precedes it. -/
theorem LineEnd.joins {b : Bytes} {n : Nat} (h : LineEnd b n) (hlt : n < b.length) (ln : Bytes)
    (hh : ln.head? = (b.drop n).head?) : Joins (b.take n) ln := by
  rcases h.2 with e | ⟨e1, e2⟩
  · omega
  · refine ⟨e1, ?_⟩
    intro ⟨c1, c2⟩
    exact e2 ⟨c1, by rw [← hh]; exact c2⟩

theorem head?_take_drop (b : Bytes) (i ls : Nat) (h : ls < i) : ((b.take i).drop ls).head? = (b.drop ls).head? := by
  rw [List.drop_take]
  cases hd : b.drop ls with
  | nil => simp
  | cons a t =>
    obtain ⟨m, hm⟩ : ∃ m, i - ls = m + 1 := ⟨i - ls - 1, by omega⟩
    rw [hm]; rfl

/-! ### A loop that delivers a root has fed a chain of lines -/

section
variable {L : LineParserI} (S : Sess L)

theorem parseLines_feed : ∀ (f : Nat) (lp : L.σ) (ls : Nat) (p : BP), p.err.isSome = true → p.i ≤ p.buf.length →
    NoNul p.buf → ls ≤ p.i → LineEnd p.buf ls → LineEnd p.buf p.i → S.I (p.buf.take ls) lp → headOpen (L.kids lp) = true → L.panicked lp = none →
    ((p.buf.take p.i).drop ls = [] ∨ IsLine ((p.buf.take p.i).drop ls)) →
    ∀ r p', parseLines L f lp ls p = (.block r, p') →
    ∃ σ' i' k rest, Feed L lp (p.buf.take ls) σ' (p.buf.take i') ∧ i' ≤ p.buf.length ∧ L.panicked σ' = none ∧
      L.kids σ' = k :: rest ∧ k.isOpen = false ∧ stopOf k ≤ i' ∧ r = rootOf p k ∧
      p' = afterRoot { p with i := i' } k rest := by
  intro f
  induction f with
  | zero => intro lp ls p _ _ _ _ _ _ _ _ _ _ r p' h; simp [parseLines] at h
  | succ f ih =>
    intro lp ls p herr hile hnn hls hLEls hLEi hI hopen hnp hln r p' h
    have hnnl : NoNul ((p.buf.take p.i).drop ls) := (hnn.take _).drop _
    -- a non-empty line follows a terminated source
    have hterm : IsLine ((p.buf.take p.i).drop ls) → Joins (p.buf.take ls) ((p.buf.take p.i).drop ls) := by
      intro hl
      have : 0 < ((p.buf.take p.i).drop ls).length := List.length_pos_iff.mpr hl.1
      simp only [List.length_drop, List.length_take] at this
      exact hLEls.joins (by omega) _ (head?_take_drop _ _ _ (by omega))
    have hsplit : p.buf.take p.i = p.buf.take ls ++ (p.buf.take p.i).drop ls := take_split hls
    have hlen : (p.buf.take ls).length = ls := by simp; omega
    have hleni : (p.buf.take p.i).length = p.i := by simp; omega
    obtain ⟨σ, hσ⟩ : ∃ σ, L.line lp (p.buf.take p.i) ls = σ := ⟨_, rfl⟩
    have hσ' : L.line lp (p.buf.take ls ++ (p.buf.take p.i).drop ls) (p.buf.take ls).length = σ := by
      rw [← hsplit, hlen]; exact hσ
    cases hpan : L.panicked σ with
    | some m =>
      rw [← hσ] at hpan
      rw [parseLines_panicked L hpan] at h; cases h
    | none =>
      cases hmr : makeRoot p (L.kids σ) with
      | some rp =>
        obtain ⟨r0, p0⟩ := rp
        rw [← hσ] at hpan hmr
        rw [parseLines_root L hpan hmr] at h
        rw [hσ] at hmr hpan
        cases hk : L.kids σ with
        | nil => rw [hk] at hmr; cases hmr
        | cons k rest =>
          rw [hk] at hmr
          cases ho : k.isOpen with
          | true => rw [makeRoot_open _ _ _ ho] at hmr; cases hmr
          | false =>
            rw [makeRoot_closed _ _ _ ho] at hmr
            simp only [Option.some.injEq, Prod.mk.injEq] at hmr
            simp only [Prod.mk.injEq, NBOut.block.injEq] at h
            refine ⟨σ, p.i, k, rest, ?_, hile, hpan, hk, ho, ?_, by rw [← h.1, ← hmr.1], by rw [← h.2, ← hmr.2]⟩
            · have := Feed.one (L := L) lp (p.buf.take ls) ((p.buf.take p.i).drop ls)
                (hln.imp (fun h => h) (fun h => And.intro h (hterm h))) hnnl
              rw [hσ', ← hsplit] at this
              exact this
            · rcases hln with hnil | hline
              · -- the end-of-input line
                have hsrc : p.buf.take p.i = p.buf.take ls := by rw [hsplit, hnil, List.append_nil]
                have hls' : ls = p.i := by
                  have := congrArg List.length hsrc; rw [hlen, hleni] at this; omega
                have hσ2 : L.line lp (p.buf.take ls) (p.buf.take ls).length = σ := by
                  rw [hlen, ← hsrc]; exact hσ
                obtain ⟨k2, rest2, hk2, _, hs2⟩ := S.eof lp _ hI hopen (by rw [hσ2]; exact hpan)
                rw [hσ2, hk] at hk2
                simp only [List.cons.injEq] at hk2
                rw [hk2.1, hlen, hls'] at *
                exact hs2
              · have hI' := S.step lp _ _ hI hopen hnp hline hnnl (hterm hline)
                rw [hσ', ← hsplit] at hI'
                have := S.ends σ _ hI' k (by rw [hk]; simp) ho
                rw [hleni] at this; exact this
      | none =>
        rw [← hσ] at hpan hmr
        rw [parseLines_next L hpan hmr, rl_mem p herr hile, hσ] at h
        rw [hσ] at hpan hmr
        simp only at h
        -- the line just fed was a line (not the end of input), the first child is open
        have hline : IsLine ((p.buf.take p.i).drop ls) := by
          rcases hln with hnil | hline
          · exfalso
            have hsrc : p.buf.take p.i = p.buf.take ls := by rw [hsplit, hnil, List.append_nil]
            have hσ2 : L.line lp (p.buf.take ls) (p.buf.take ls).length = σ := by
              rw [hlen, ← hsrc]; exact hσ
            obtain ⟨k2, rest2, hk2, ho2, _⟩ := S.eof lp _ hI hopen (by rw [hσ2]; exact hpan)
            rw [hσ2] at hk2
            rw [hk2, makeRoot_closed _ _ _ ho2] at hmr; cases hmr
          · exact hline
        have hI' : S.I (p.buf.take p.i) σ := by
          have := S.step lp _ _ hI hopen hnp hline hnnl (hterm hline)
          rw [hσ', ← hsplit] at this; exact this
        have hopen' : headOpen (L.kids σ) = true := by
          cases hk : L.kids σ with
          | nil => exact absurd hk (S.ne σ _ hI')
          | cons k rest =>
            cases ho : k.isOpen with
            | true => simp [headOpen, ho]
            | false => rw [hk, makeRoot_closed _ _ _ ho] at hmr; cases hmr
        have hle := lineLen_le (p.buf.drop p.i)
        simp only [List.length_drop] at hle
        obtain ⟨σ', i', k, rest, hF, hi', hp', hk, ho, hs, hr, hp2⟩ :=
          ih σ p.i { p with i := p.i + lineLen (p.buf.drop p.i) } herr (by show p.i + lineLen (p.buf.drop p.i) ≤ p.buf.length; omega)
            hnn (Nat.le_add_right _ _) hLEi (lineEnd_next p.buf p.i hile) hI' hopen' hpan
            (by
              show (p.buf.take (p.i + lineLen (p.buf.drop p.i))).drop p.i = [] ∨ IsLine _
              rw [drop_take_line]
              by_cases hne : p.buf.drop p.i = []
              · left; rw [hne]; rfl
              · right; exact isLine_take hne) r p' h
        refine ⟨σ', i', k, rest, ?_, hi', hp', hk, ho, hs, hr, hp2⟩
        have := Feed.cons (L := L) lp (p.buf.take ls) ((p.buf.take p.i).drop ls) σ' (p.buf.take i') hline hnnl (hterm hline)
          (by rw [hσ']; exact hopen') (by rw [hσ']; exact hpan) (by rw [hσ', ← hsplit]; exact hF)
        exact this

end

/-! ### The two runs -/

/-- The run on `q` (buffer `x`) and the run on `extBP t q` (buffer `x ++ t`) can be compared: in-memory parser, parse
    position inside the buffer, and — unless `t` is empty — `x` ends in a line ending that does not merge with `t`. -/
structure Lock (t : Bytes) (q : BP) : Prop where
  ile : q.i ≤ q.buf.length
  err : q.err.isSome = true
  join : t = [] ∨ (terminated q.buf = true ∧ ¬ CRLFSplit q.buf t)

theorem Lock.setI {t : Bytes} {q : BP} (h : Lock t q) (i : Nat) (hi : i ≤ q.buf.length) : Lock t { q with i := i } :=
  ⟨hi, h.err, h.join⟩

theorem Lock.inv {t : Bytes} {q : BP} (h : Lock t q) (ht : t ≠ []) : LockInv t q := by
  rcases h.join with e | ⟨a, b⟩
  · exact absurd e ht
  · exact ⟨h.ile, a, b, h.err⟩

/-- Both runs read the same next line while the parse position is inside `x`. -/
theorem Lock.readline {t : Bytes} {q : BP} (h : Lock t q) (hlt : q.i < q.buf.length) :
    Model.readline (q.rd.data.length + q.rd.sched.length + 2) q = (true, { q with i := q.i + lineLen (q.buf.drop q.i) }) ∧
    Model.readline ((extBP t q).rd.data.length + (extBP t q).rd.sched.length + 2) (extBP t q) =
      (true, extBP t { q with i := q.i + lineLen (q.buf.drop q.i) }) ∧
    q.i + lineLen (q.buf.drop q.i) ≤ q.buf.length ∧ 0 < lineLen (q.buf.drop q.i) := by
  by_cases ht : t = []
  · subst ht
    have hne : q.buf.drop q.i ≠ [] := by
      intro e; have := congrArg List.length e; simp at this; omega
    have hpos := lineLen_pos hne
    have hle := lineLen_le (q.buf.drop q.i)
    simp only [List.length_drop] at hle
    rw [extBP_nil, extBP_nil, rl_mem q h.err h.ile]
    simp only [hpos, decide_true]
    exact ⟨trivial, trivial, by omega, trivial⟩
  · obtain ⟨r1, r2, hinv1⟩ := rl_lock (h.inv ht) hlt
    have hne : q.buf.drop q.i ≠ [] := by
      intro e; have := congrArg List.length e; simp at this; omega
    exact ⟨r1, r2, hinv1.ile, lineLen_pos hne⟩

/-- The state of the line parser that is about to be fed `(src, ls)`: a new parser and a non-blank first line, or a
    state of the session with the first child open. -/
def Pre {L : LineParserI} (S : Sess L) (lp : L.σ) (ls : Nat) (src : Bytes) : Prop :=
  (lp = L.new [] ∧ ls = 0 ∧ IsLine src ∧ isBlankLine src = false ∧ NoNul src) ∨
  (S.I (src.take ls) lp ∧ headOpen (L.kids lp) = true ∧ L.panicked lp = none ∧ ls ≤ src.length ∧ IsLine (src.drop ls) ∧
    NoNul (src.drop ls) ∧ Joins (src.take ls) (src.drop ls))

theorem Pre.after {L : LineParserI} {S : Sess L} {lp : L.σ} {ls : Nat} {src : Bytes} (h : Pre S lp ls src) :
    S.I src (L.line lp src ls) := by
  rcases h with ⟨rfl, rfl, hl, hb, hn⟩ | ⟨hI, ho, hp, hls, hl, hn, ht⟩
  · exact S.fresh src hl hb hn
  · have := S.step lp _ _ hI ho hp hl hn ht
    rw [List.take_append_drop, List.length_take, Nat.min_eq_left hls] at this
    exact this

section
variable {L : LineParserI} {S : Sess L} {Good : PB → Prop} {Good2 : Bytes → PB → Prop} {E : PB → PB → Prop}

/-- **Lockstep.** The per-line loop on `x ++ t` delivers a root `r` that ends exactly where `x` ends; then the loop on
    `x` delivers the root with the same `Source`, line and offsets, a block `k'` with `E r.block k'`, and leaves
    nothing behind (no pending block, empty buffer). -/
theorem parseLines_reparse (CI : CloseIndep L S Good Good2 E) {t : Bytes} :
    ∀ (fA fB : Nat) (lp : L.σ) (ls : Nat) (q : BP), Lock t q → ls ≤ q.i → Pre S lp ls (q.buf.take q.i) →
    LineEnd q.buf q.i → linesLeft q.buf q.i + 2 ≤ fB → NoNul (q.buf ++ t) →
    ∀ r pA, parseLines L fA lp ls (extBP t q) = (.block r, pA) →
    r.endOffset = q.offset + q.buf.length → Good r.block → Good2 q.buf r.block →
    ∃ k', parseLines L fB lp ls q = (.block (rootOf q k'), afterRoot { q with i := q.buf.length } k' []) ∧
      k'.isOpen = false ∧ stopOf k' = q.buf.length ∧ E r.block k' ∧ rootOf q r.block = r := by
  intro fA
  induction fA with
  | zero => intro fB lp ls q _ _ _ _ _ _ r pA h; simp [parseLines] at h
  | succ fA ih =>
    intro fB lp ls q hlock hls hpre hLE hfB hnn r pA hA hend' hgood hgood2
    obtain ⟨fB, rfl⟩ : ∃ g, fB = g + 1 := ⟨fB - 1, by omega⟩
    have key : ∀ (p' : BP) (k : PB), p'.buf = q.buf ++ t → p'.offset = q.offset → r = rootOf p' k →
        min (stopOf k) (q.buf.length + t.length) = q.buf.length := by
      intro p' k hb ho hr
      have := rootOf_endOffset p' k (by rw [hb]; exact hnn)
      rw [← hr, hend', ho, hb, List.length_append] at this
      omega
    have hsA : (extBP t q).buf.take (extBP t q).i = q.buf.take q.i := List.take_append_of_le_length hlock.ile
    have hleni : (q.buf.take q.i).length = q.i := by rw [List.length_take]; have := hlock.ile; omega
    have hI := hpre.after
    obtain ⟨σ, hσ⟩ : ∃ σ, L.line lp (q.buf.take q.i) ls = σ := ⟨_, rfl⟩
    rw [hσ] at hI
    have hσA : L.line lp ((extBP t q).buf.take (extBP t q).i) ls = σ := by rw [hsA]; exact hσ
    cases hpan : L.panicked σ with
    | some m =>
      rw [← hσA] at hpan
      rw [parseLines_panicked L hpan] at hA; cases hA
    | none =>
      have hpanA : L.panicked (L.line lp ((extBP t q).buf.take (extBP t q).i) ls) = none := by rw [hσA]; exact hpan
      have hpanB : L.panicked (L.line lp (q.buf.take q.i) ls) = none := by rw [hσ]; exact hpan
      cases hk : L.kids σ with
      | nil => exact absurd hk (S.ne σ _ hI)
      | cons k rest =>
        cases ho : k.isOpen with
        | false =>
          -- the root is delivered in lockstep
          have mA : makeRoot (extBP t q) (L.kids (L.line lp ((extBP t q).buf.take (extBP t q).i) ls)) =
              some (rootOf (extBP t q) k, afterRoot (extBP t q) k rest) := by
            rw [hσA, hk]; exact makeRoot_closed _ _ _ ho
          rw [parseLines_root L hpanA mA] at hA
          simp only [Prod.mk.injEq, NBOut.block.injEq] at hA
          have hrb : r.block = k := by rw [← hA.1]; rfl
          have hsk : stopOf k ≤ q.i := by
            have := S.ends σ _ hI k (by rw [hk]; simp) ho
            rw [hleni] at this; exact this
          have hile := hlock.ile
          have hend := key (extBP t q) k rfl rfl hA.1.symm
          rw [hrb] at hgood
          have hstop : stopOf k = q.buf.length := by omega
          have hqi : q.i = q.buf.length := by omega
          have hsrc : q.buf.take q.i = q.buf := by rw [hqi]; exact List.take_length
          have hlast := CI.last σ (q.buf.take q.i) k rest hI hk ho (by rw [hleni]; omega) hgood
          obtain ⟨hrest, hE⟩ := hlast
          subst hrest
          have mB : makeRoot q (L.kids (L.line lp (q.buf.take q.i) ls)) = some (rootOf q k, afterRoot q k []) := by
            rw [hσ, hk]; exact makeRoot_closed _ _ _ ho
          refine ⟨k, ?_, ho, hstop, by rw [hrb]; exact hE, ?_⟩
          · rw [parseLines_root L hpanB mB]
            have : { q with i := q.buf.length } = q := by rw [← hqi]
            rw [this]
          · rw [hrb, ← hA.1]
            exact (rootOf_ext t q k (by unfold stopOf at hstop; omega)).symm
        | true =>
          have mA : makeRoot (extBP t q) (L.kids (L.line lp ((extBP t q).buf.take (extBP t q).i) ls)) = none := by
            rw [hσA, hk]; exact makeRoot_open _ _ _ ho
          have mB : makeRoot q (L.kids (L.line lp (q.buf.take q.i) ls)) = none := by
            rw [hσ, hk]; exact makeRoot_open _ _ _ ho
          have hopen : headOpen (L.kids σ) = true := by rw [hk]; simp [headOpen, ho]
          rw [parseLines_next L hpanA mA, hσA] at hA
          rw [parseLines_next L hpanB mB, hσ]
          by_cases hlt : q.i < q.buf.length
          · -- both read the same next line
            obtain ⟨r1, r2, hle, hpos⟩ := hlock.readline hlt
            rw [r2] at hA
            rw [r1]
            simp only at hA ⊢
            have hlock' := hlock.setI (q.i + lineLen (q.buf.drop q.i)) hle
            have hpre' : Pre S σ q.i (q.buf.take (q.i + lineLen (q.buf.drop q.i))) := by
              right
              refine ⟨?_, hopen, hpan, ?_, ?_, ?_, ?_⟩
              · rw [List.take_take, Nat.min_eq_left (Nat.le_add_right _ _)]; exact hI
              · simp; omega
              · rw [drop_take_line]
                exact isLine_take (by intro e; have := congrArg List.length e; simp at this; omega)
              · exact ((hnn.left).take _).drop _
              · rw [List.take_take, Nat.min_eq_left (Nat.le_add_right _ _)]
                exact hLE.joins hlt _ (head?_take_drop _ _ _ (by omega))
            have hfuel : linesLeft q.buf (q.i + lineLen (q.buf.drop q.i)) + 2 ≤ fB := by
              have := linesLeft_step hlt; omega
            obtain ⟨k', h1, h2, h3, h4, h5⟩ := ih fB σ q.i { q with i := q.i + lineLen (q.buf.drop q.i) } hlock'
              (Nat.le_add_right _ _) hpre' (lineEnd_next q.buf q.i hlock.ile) hfuel hnn r pA hA hend' hgood hgood2
            exact ⟨k', h1, h2, h3, h4, h5⟩
          · -- the run on `x` is at the end of its buffer
            have hqi : q.i = q.buf.length := by have := hlock.ile; omega
            have hsrc : q.buf.take q.i = q.buf := by rw [hqi]; exact List.take_length
            rw [hsrc] at hI
            rw [rl_mem_end q hlock.err hqi]
            simp only
            obtain ⟨fB, rfl⟩ : ∃ g, fB = g + 1 := ⟨fB - 1, by omega⟩
            have hqself : { q with i := q.buf.length } = q := by rw [← hqi]
            -- what the run on `x` does with the end-of-input line, given what it produces
            have finish : ∀ k', L.panicked (L.line σ q.buf q.buf.length) = none →
                L.kids (L.line σ q.buf q.buf.length) = [k'] → k'.isOpen = false →
                parseLines L (fB + 1) σ q.i q = (.block (rootOf q k'), afterRoot { q with i := q.buf.length } k' []) := by
              intro k' hp' hk' ho'
              have e : L.line σ (q.buf.take q.i) q.i = L.line σ q.buf q.buf.length := by rw [hsrc, hqi]
              have m : makeRoot q (L.kids (L.line σ (q.buf.take q.i) q.i)) = some (rootOf q k', afterRoot q k' []) := by
                rw [e, hk']; exact makeRoot_closed _ _ _ ho'
              rw [parseLines_root L (by rw [e]; exact hp') m, hqself]
            by_cases ht : t = []
            · -- nothing follows: the two runs are one run
              subst ht
              rw [extBP_nil, rl_mem_end q hlock.err hqi] at hA
              simp only at hA
              cases fA with
              | zero => simp [parseLines] at hA
              | succ fA =>
                have e : L.line σ (q.buf.take q.i) q.i = L.line σ q.buf q.buf.length := by rw [hsrc, hqi]
                cases hpe : L.panicked (L.line σ q.buf q.buf.length) with
                | some m =>
                  rw [parseLines_panicked L (by rw [e]; exact hpe)] at hA; cases hA
                | none =>
                  obtain ⟨k2, rest2, hk2, ho2, hs2⟩ := S.eof σ q.buf hI hopen hpe
                  have m : makeRoot q (L.kids (L.line σ (q.buf.take q.i) q.i)) =
                      some (rootOf q k2, afterRoot q k2 rest2) := by
                    rw [e, hk2]; exact makeRoot_closed _ _ _ ho2
                  rw [parseLines_root L (by rw [e]; exact hpe) m] at hA
                  simp only [Prod.mk.injEq, NBOut.block.injEq] at hA
                  have hrb : r.block = k2 := by rw [← hA.1]; rfl
                  have hend := key q k2 (List.append_nil _).symm rfl hA.1.symm
                  rw [hrb] at hgood
                  have hstop : stopOf k2 = q.buf.length := by simp at hend; omega
                  obtain ⟨hrest, hE⟩ := CI.lastEof σ q.buf k2 rest2 hI hopen hpan hk2 ho2 hstop hgood
                  subst hrest
                  exact ⟨k2, finish k2 hpe hk2 ho2, ho2, hstop, by rw [hrb]; exact hE, by rw [hrb, ← hA.1]⟩
            · -- the run on `x ++ t` goes on with the lines of `t`
              obtain ⟨_, r2⟩ := rl_eof (hlock.inv ht) hqi
              rw [r2] at hA
              simp only at hA
              have hbuf : (tailBP t (lineLen t) q).buf.take q.i = q.buf := by
                show (q.buf ++ t).take q.i = q.buf
                rw [hqi]; exact List.take_left
              have hti : (tailBP t (lineLen t) q).i ≤ (tailBP t (lineLen t) q).buf.length := by
                show q.buf.length + lineLen t ≤ (q.buf ++ t).length
                have := lineLen_le t
                simp; omega
              obtain ⟨σ', i', k, rest, hF, hi', hp', hk', ho', hs', hr, _⟩ :=
                parseLines_feed S fA σ q.i (tailBP t (lineLen t) q) hlock.err hti hnn
                  (by show q.i ≤ q.buf.length + lineLen t; omega)
                  (by
                    -- the end of `x` is a line end of `x ++ t`
                    show LineEnd (q.buf ++ t) q.i
                    rcases hlock.join with e | ⟨e1, e2⟩
                    · exact absurd e ht
                    · refine ⟨by simp; omega, Or.inr ?_⟩
                      rw [hqi, List.take_left, List.drop_left]
                      exact ⟨e1, e2⟩)
                  (by
                    show LineEnd (q.buf ++ t) (q.buf.length + lineLen t)
                    have := lineEnd_next (q.buf ++ t) q.buf.length (by simp)
                    rw [List.drop_left] at this
                    exact this) (by rw [hbuf]; exact hI) hopen hpan
                  (by
                    right
                    have : ((tailBP t (lineLen t) q).buf.take (tailBP t (lineLen t) q).i).drop q.i = t.take (lineLen t) := by
                      show ((q.buf ++ t).take (q.buf.length + lineLen t)).drop q.i = _
                      rw [hqi, List.take_length_add_append, List.drop_left]
                    rw [this]; exact isLine_take ht) r pA hA
              rw [hbuf] at hF
              have hrb : r.block = k := by rw [hr]; rfl
              have hend := key (tailBP t (lineLen t) q) k rfl rfl hr
              rw [hrb] at hgood hgood2
              have hi'' : i' ≤ q.buf.length + t.length := by
                have : (tailBP t (lineLen t) q).buf.length = q.buf.length + t.length := by
                  show (q.buf ++ t).length = _; simp
                omega
              have hstop : stopOf k = q.buf.length := by omega
              obtain ⟨hpe, k', hk2, ho2, hs2, hE⟩ := CI.close σ q.buf σ' _ k rest hI hopen hpan hF hp' hk' ho' hstop hgood hgood2
              refine ⟨k', finish k' hpe hk2 ho2, ho2, hs2, by rw [hrb]; exact hE, ?_⟩
              rw [hrb, hr]
              exact (rootOf_tail t (lineLen t) q k (by unfold stopOf at hstop; omega)).symm

end

end CM.Proofs.Rp
