import CM.Proofs.InlShapeCode
/-
C02 / C04, inline halves, for the whole of `Parse` — **what `parseCodeSpan` returns, with positions** (`parseCodeSpan_res`).

`InlH.parseCodeSpan_good` says how a valid code span looks (`n` backticks at both ends).  The span discipline also needs to
know where its parts lie: the content starts right after the opening run and stops where the closing run starts, and the
four positions `start`, `start + n`, `pE`, `pE + n − 1` were all read by a reader standing in an inline child (`InU`).
The loop invariants `I1x`, `I2x`, `I3x` are those of `InlShapeCodeInv` with these facts added; the proof of the three loops
follows `InlShapeCode` line by line.
-/
namespace CM.Proofs.PSc
open CM CM.Model CM.Model.Inl CM.Gen CM.Proofs CM.Proofs.BG CM.Proofs.InlH
open Std.Do

set_option mvcgen.warning false

variable {U : List Tree} {src : Bytes} {N : Nat}

/-- `p` lies in an inline child -/
def InU (U : List Tree) (p : Nat) : Prop := ∃ t ∈ U, t.label.start ≤ (p : Int) ∧ (p : Int) < t.label.stop

/-- the reader's nodes are among `V` -/
def Sub (V : List Tree) (r : Rd) : Prop := ∀ t ∈ r.spans, t ∈ V

theorem Sub.cur {V : List Tree} {r : Rd} (h : Sub V r) (src : Bytes) : Sub V (r.current src).2 :=
  fun t ht => h t (current_sub src r t ht)

theorem Sub.nxt {V : List Tree} {r : Rd} (h : Sub V r) (src : Bytes) : Sub V (r.next src).2 :=
  fun t ht => h t (next_sub src r t ht)

theorem inU_of_atHead {V : List Tree} {r : Rd} {t : Tree} (hs : Sub V r) (h : AtHead r t) : InU V r.pos := by
  obtain ⟨rest, hsp, hc⟩ := h
  refine ⟨t, hs t (by rw [hsp]; exact List.mem_cons_self), ?_, spanContains_lt hc⟩
  unfold spanContains at hc
  simp only [Bool.and_eq_true, decide_eq_true_eq] at hc
  exact hc.1.2

/-- the opening loop -/
def I1x (U V : List Tree) (src : Bytes) (a N : Nat) (ret : Option CodeSpan) (r : Rd) (cstart : Int) (n : Nat)
    (opened : Bool) : Prop :=
  I1 U src a N ret r n opened ∧ (∀ cs, ret = some cs → (a : Int) ≤ cs.content.start) ∧
    (ret = none → Sub V r ∧ cstart = ((a + n : Nat) : Int) ∧ (1 ≤ n → InU V a))

/-- the positions of a valid result -/
def Ext (V : List Tree) (a n : Nat) (cs : CodeSpan) : Prop :=
  (a : Int) ≤ cs.content.start ∧
  (cs.span.isValid = true → cs.content.start = ((a + n : Nat) : Int) ∧
    ∃ pE : Nat, cs.content.stop = (pE : Int) ∧ cs.span.stop = ((pE + n : Nat) : Int) ∧
      InU V a ∧ InU V (a + n) ∧ InU V pE ∧ InU V (pE + n - 1))

/-- the body loop -/
def I2x (U V : List Tree) (src : Bytes) (a N n : Nat) (start : Int) (ret : Option CodeSpan) (r : Rd) : Prop :=
  I2 U src a N n start ret r ∧ (∀ cs, ret = some cs → Ext V a n cs) ∧ (ret = none → Sub V r)

/-- the closing-run loop -/
def I3x (U V : List Tree) (src : Bytes) (m N pE : Nat) (r : Rd) (run : Nat) (runDone : Bool) : Prop :=
  I3 U src m N pE r run runDone ∧ Sub V r ∧ InU V pE ∧ (runDone = true → InU V (pE + run - 1))

variable {V : List Tree}

theorem I1x.init (H : CSHyp U src N) (a k : Nat) (ha : a ≤ N) (cstart : Int) (hcs : cstart = (a : Int)) :
    I1x U (U.drop k) src a N none (newReader (U.drop k) a) cstart 0 false :=
  ⟨I1.init H a k ha, (fun cs h => by cases h), fun _ => ⟨fun t ht => ht, by rw [hcs]; rfl, fun h => by omega⟩⟩

theorem I1x.ret_invalid {a : Nat} {r : Rd} {n : Nat} {o : Bool} {c : Int} (x y z : Int) (hy : (a : Int) ≤ y) :
    I1x U V src a N (some { span := ⟨x, -1⟩, content := ⟨y, z⟩ }) r c n o :=
  ⟨I1.ret_invalid x y z, (fun cs h => by cases h; exact hy), fun h => by cases h⟩

theorem I1x.tick (H : CSHyp U src N) {a : Nat} {r : Rd} {n : Nat} {c : Int} (h : I1x U V src a N none r c n false)
    (hc : (r.current src).1 = 0x60) (hok : ((r.current src).2.next src).1 = true) :
    I1x U V src a N none ((r.current src).2.next src).2 (((r.current src).2.next src).2.pos : Int) (n + 1) false := by
  have h1 := I1.tick H h.1 hc hok
  obtain ⟨hsub, _, hin⟩ := h.2.2 rfl
  refine ⟨h1, (fun cs hcs => by cases hcs), fun _ => ⟨(hsub.cur src).nxt src, ?_, fun _ => ?_⟩⟩
  · obtain ⟨_, _, hpos, _⟩ := h1.2 rfl
    rw [hpos]
  · by_cases hn : 1 ≤ n
    · exact hin hn
    · have hn0 : n = 0 := by omega
      obtain ⟨hs, _, hpos, _⟩ := h.1.2 rfl
      obtain ⟨hot, _⟩ := onTick_of_current' hc hs
      rcases hot.node with ⟨t, hat, _⟩ | hd
      · have := inU_of_atHead (hsub.cur src) hat
        rw [hot.pos, hpos, hn0] at this
        exact this
      · have := (next_nil src _ hd).1
        rw [this] at hok; cases hok

theorem I1x.opened (H : CSHyp U src N) {a : Nat} (hstart : src[a]? = some 0x60) {r : Rd} {n : Nat} {c : Int}
    (h : I1x U V src a N none r c n false) (hc : (r.current src).1 ≠ 0x60) :
    I1x U V src a N none (r.current src).2 c n true := by
  obtain ⟨hsub, h2, h3⟩ := h.2.2 rfl
  exact ⟨I1.opened H hstart h.1 hc, (fun cs hcs => by cases hcs), fun _ => ⟨hsub.cur src, h2, h3⟩⟩

/-- a failing `next` in the opening run: the content start is not before the start -/
theorem I1x.lo {a : Nat} {r : Rd} {n : Nat} {c : Int} {o : Bool} (h : I1x U V src a N none r c n o) :
    (a : Int) ≤ (((r.current src).2.next src).2.pos : Int) := by
  obtain ⟨_, hrd, _⟩ := h.1.2 rfl
  obtain ⟨_, h'⟩ := (hrd.current src).next src
  have := h'.lo
  omega

theorem ext_invalid {a n : Nat} (x y z : Int) (hy : (a : Int) ≤ y) : Ext V a n { span := ⟨x, -1⟩, content := ⟨y, z⟩ } :=
  ⟨hy, fun h => by rw [invalid_span x 0] at h; cases h⟩

theorem I2x.ret {a n : Nat} {start : Int} {cs : CodeSpan} {r : Rd} (h : Good src a n start cs) (he : Ext V a n cs) :
    I2x U V src a N n start (some cs) r :=
  ⟨I2.ret h, (fun cs' h' => by cases h'; exact he), fun h' => by cases h'⟩

theorem I2x.init (H : CSHyp U src N) {a : Nat} {start : Int} {r : Rd} {n : Nat} {c : Int}
    (h : I1x U V src a N none r c n true) :
    I2x U V src a N n start none r ∧ src[a + n]? ≠ some 0x60 ∧ 1 ≤ n ∧ TickRun src a n ∧ c = ((a + n : Nat) : Int) ∧
      InU V a ∧ InU V (a + n) := by
  obtain ⟨g1, g2, g3, g4⟩ := I2.init (start := start) H h.1
  obtain ⟨hs, _, hpos, _, hin, _⟩ := h.1.2 rfl
  obtain ⟨hsub, hc, ha⟩ := h.2.2 rfl
  obtain ⟨t, hat⟩ := hin g3
  have := inU_of_atHead hsub hat
  rw [hpos] at this
  exact ⟨⟨g1, (fun cs hcs => by cases hcs), fun _ => hsub⟩, g2, g3, g4, hc, ha g3, this⟩

theorem I2x.step (H : CSHyp U src N) {a n : Nat} {start : Int} {r : Rd} (h : I2x U V src a N n start none r)
    (hc : (r.current src).1 ≠ 0x60) (hok : ((r.current src).2.next src).1 = true) :
    I2x U V src a N n start none ((r.current src).2.next src).2 :=
  ⟨I2.step H h.1 hc hok, (fun cs hcs => by cases hcs), fun _ => ((h.2.2 rfl).cur src).nxt src⟩

theorem I2x.found (H : CSHyp U src N) {a n : Nat} {start : Int} {r : Rd} (h : I2x U V src a N n start none r)
    (hnt : src[a + n]? ≠ some 0x60) (hc : (r.current src).1 = 0x60) :
    I3x U V src (a + n) N (r.current src).2.pos (r.current src).2 1 false ∧ NoTickBefore src (r.current src).2.pos ∧
      a + n < (r.current src).2.pos := by
  obtain ⟨g1, g2, g3⟩ := I2.found H h.1 hnt hc
  have hsub := h.2.2 rfl
  refine ⟨⟨g1, hsub.cur src, ?_, (fun h' => by cases h')⟩, g2, g3⟩
  obtain ⟨hs, ⟨t, hat⟩, _, _⟩ := h.1.2 rfl
  have e : (r.current src).2 = r := current_snd_atHead hat
  rw [e]
  exact inU_of_atHead hsub hat

theorem I3x.last {m pE : Nat} {r : Rd} {run : Nat} (h : I3 U src m N pE r run false) (hsub : Sub V r) :
    InU V (pE + run - 1) := by
  obtain ⟨_, _, hf', _⟩ := h
  obtain ⟨hot, ⟨t, hat, _⟩, _⟩ := hf' rfl
  have := inU_of_atHead hsub hat
  rw [hot.pos] at this
  exact this

theorem I3x.stop_fail (H : CSHyp U src N) {m pE : Nat} {r : Rd} {run : Nat} (h : I3x U V src m N pE r run false)
    (hf : (r.next src).1 = false) : I3x U V src m N pE (r.next src).2 run true :=
  ⟨I3.stop_fail H h.1 hf, h.2.1.nxt src, h.2.2.1, fun _ => I3x.last h.1 h.2.1⟩

theorem I3x.stop_byte (H : CSHyp U src N) {m pE : Nat} {r : Rd} {run : Nat} (h : I3x U V src m N pE r run false)
    (hok : (r.next src).1 = true) (hc : ((r.next src).2.current src).1 ≠ 0x60) :
    I3x U V src m N pE ((r.next src).2.current src).2 run true :=
  ⟨I3.stop_byte H h.1 hok hc, (h.2.1.nxt src).cur src, h.2.2.1, fun _ => I3x.last h.1 h.2.1⟩

theorem I3x.tick (H : CSHyp U src N) {m pE : Nat} {r : Rd} {run : Nat} (h : I3x U V src m N pE r run false)
    (hok : (r.next src).1 = true) (hc : ((r.next src).2.current src).1 = 0x60) :
    I3x U V src m N pE ((r.next src).2.current src).2 (run + 1) false :=
  ⟨I3.tick H h.1 hok hc, (h.2.1.nxt src).cur src, h.2.2.1, fun h' => by cases h'⟩

theorem I3x.result {m pE : Nat} {r : Rd} {run : Nat} (h : I3x U V src m N pE r run true) {a n : Nat} {start : Int}
    (h0 : 0 ≤ start) (hrun : run = n) (hpre : NoTickBefore src pE) (hlt : a + n < pE) (x y : Int)
    (hx : x = ((a + n : Nat) : Int)) (hy : y = (pE : Int)) (ha : InU V a) (han : InU V (a + n)) :
    Good src a n start { span := ⟨start, r.prev + 1⟩, content := ⟨x, y⟩ } ∧
      Ext V a n { span := ⟨start, r.prev + 1⟩, content := ⟨x, y⟩ } := by
  refine ⟨I3.result h.1 h0 hrun hpre hlt x y, by simp only []; omega, fun _ => ⟨hx, pE, hy, ?_, ha, han, h.2.2.1, ?_⟩⟩
  · obtain ⟨_, _, _, hd⟩ := h.1
    obtain ⟨hp, _⟩ := hd rfl
    subst hrun
    exact hp
  · subst hrun
    exact h.2.2.2 rfl

theorem I3x.continue {pE : Nat} {r : Rd} {run : Nat} {a n : Nat} (h : I3x U V src (a + n) N pE r run true) {start : Int}
    (hok : (r.next src).1 = true) : I2x U V src a N n start none (r.next src).2 :=
  ⟨I3.continue h.1 hok, (fun cs hcs => by cases hcs), fun _ => h.2.1.nxt src⟩

/-- What `parseCodeSpan c start` returns. -/
def CodeRes (V : List Tree) (src : Bytes) (start : Int) (cs : CodeSpan) : Prop :=
  start ≤ cs.content.start ∧
  (cs.span.isValid = true → ∃ n pE : Nat, 1 ≤ n ∧ cs.span.start = start ∧
    cs.content.start = ((start.toNat + n : Nat) : Int) ∧ cs.content.stop = (pE : Int) ∧
    cs.span.stop = ((pE + n : Nat) : Int) ∧ start.toNat + n < pE ∧ TickRun src start.toNat n ∧ TickRun src pE n ∧
    src[start.toNat + n]? ≠ some 0x60 ∧ NoTickBefore src pE ∧
    InU V start.toNat ∧ InU V (start.toNat + n) ∧ InU V pE ∧ InU V (pE + n - 1))

theorem CodeRes.of {start : Int} {n : Nat} {cs : CodeSpan} (h0 : 0 ≤ start) (h : Good src start.toNat n start cs)
    (he : Ext V start.toNat n cs) (hn : 1 ≤ n) (hr : TickRun src start.toNat n) (hnt : src[start.toNat + n]? ≠ some 0x60) :
    CodeRes V src start cs := by
  refine ⟨by have := he.1; omega, fun hv => ?_⟩
  obtain ⟨h1, pE, h2, h3, h4, h5⟩ := h hv
  obtain ⟨e1, pE', e2, e3, e4, e5, e6, e7⟩ := he.2 hv
  have : pE' = pE := by rw [h2] at e3; omega
  subst this
  exact ⟨n, pE', hn, h1, e1, e2, e3, h3, hr, h4, hnt, h5, e4, e5, e6, e7⟩

end CM.Proofs.PSc
