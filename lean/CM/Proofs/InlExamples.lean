import CM.Proofs.InlUnparsed
import CM.Proofs.InlRefs
import CM.Proofs.InlShapes
import CM.Proofs.InlNoMarker
/-
Non-vacuity of the inline-phase theorems: concrete instances that meet the hypotheses (evaluated by the kernel), and
the axioms the main theorems depend on.
-/
namespace CM.Proofs.InlH.Examples
open CM CM.Model CM.Model.Inl CM.Proofs.InlH CM.Spec

/-- tables: every name is an entity (`UnescapeString` resolves it to the empty string), identity case folding -/
def x0 : IExt :=
  { ext := { unescape := fun _ => [] }, fold := fun b => b, u := { isZs := fun _ => false, isP := fun _ => false } }

/-- `*a* &amp; [r]` + line ending, a tab (Indent node), `c` -/
def src0 : Bytes := "*a* &amp; [r]\n\tc".toUTF8.toList

def run (a b : Int) : Tree := .node { isBlock := false, kind := IK.unparsed, start := a, stop := b } []
def ind (a b : Int) : Tree := .node { isBlock := false, kind := IK.indent, start := a, stop := b, indent := 4 } []

/-- the inline children of the paragraph after the block phase -/
def in0 : List Tree := [run 0 14, ind 14 15, run 15 16]

/-- the paragraph -/
def t0 : Tree := .node { isBlock := true, kind := BK.paragraph, start := 0, stop := 16 } in0

/-- the reference map has the key `r` -/
def m0 : Bytes → Bool := fun k => k == [0x72]

def okKinds (r : Except IErr (List Tree)) : List (Nat × Bytes) :=
  match r with
  | .ok k => k.map (fun (t : Tree) => (t.label.kind, t.label.ref))
  | .error _ => [(999, [])]

def isOk {α} (r : Except IErr α) : Bool :=
  match r with
  | .ok _ => true
  | .error _ => false

/-- The run is parsed: Emphasis, Text, CharacterReference, Text, Link (reference `r`), SoftLineBreak, Indent, Text. -/
example : okKinds (parseInlines x0 src0 src0.toArray m0 0 16 in0) =
    [(7, []), (1, []), (5, []), (1, []), (9, [0x72]), (2, []), (4, []), (1, [])] := by decide +kernel

example : isOk (rewriteE x0 src0 src0.toArray m0 t0) = true := by decide +kernel

theorem nodes_run (a b : Int) : T.nodes (run a b) = [run a b] := rfl
theorem nodes_ind (a b : Int) : T.nodes (ind a b) = [ind a b] := rfl

/-- every hypothesis on the inline children `in0` is of this form: a property of the nodes of the Indent leaf -/
theorem in0_hyp (P : Tree → Prop) (hP : P (ind 14 15)) :
    ∀ u ∈ in0, u.label.isBlock = false → isUnparsed u = false → ∀ t ∈ T.nodes u, P t := by
  intro u hu _ hnu t ht
  simp only [in0, List.mem_cons, List.mem_nil_iff, or_false] at hu
  rcases hu with rfl | rfl | rfl
  · exact absurd hnu (by decide)
  · rw [nodes_ind, List.mem_singleton] at ht; rw [ht]; exact hP
  · exact absurd hnu (by decide)

-- A: the hypotheses of `parseInlines_no_unparsed` / `rewriteE_no_unparsed` hold of `in0` / `t0`
example : InFlat in0 := in0_hyp _ (by decide)

example : T.isI t0 IK.unparsed = false := by decide

theorem t0_nodes : T.nodes t0 = [t0, run 0 14, ind 14 15, run 15 16] := rfl

example : ∀ u ∈ T.nodes t0, u.label.isBlock = false → ∀ v ∈ T.nodesL u.children, T.isI v IK.unparsed = false := by
  intro u hu hb v hv
  rw [t0_nodes] at hu
  simp only [List.mem_cons, List.mem_nil_iff, or_false] at hu
  rcases hu with rfl | rfl | rfl | rfl
  · exact absurd hb (by decide)
  · simp [run, Tree.children, T.nodesL] at hv
  · simp [ind, Tree.children, T.nodesL] at hv
  · simp [run, Tree.children, T.nodesL] at hv

-- B: the hypotheses of `parseInlines_refs` / `rewriteE_refs`
example : InRef m0 (fun _ => True) in0 := in0_hyp _ (fun _ _ h => absurd rfl h)

example : ∀ u ∈ T.nodes t0, RefOK m0 (fun _ => True) u := by
  intro u hu
  rw [t0_nodes] at hu
  simp only [List.mem_cons, List.mem_nil_iff, or_false] at hu
  rcases hu with rfl | rfl | rfl | rfl <;> exact fun _ _ h => absurd rfl h

-- C: the hypotheses of `parseInlines_safePre` / `rewriteE_safePre`
example : InSafe src0 in0 := in0_hyp _ (by decide)
example : safePre src0 t0 = true := by decide +kernel

-- kinds / no marker: the hypotheses of `parseInlines_inline_kinds` / `rewriteE_inline_kinds`
example : InKinds in0 := in0_hyp _ (fun _ => by decide)

example : ∀ u ∈ T.nodes t0, u.label.isBlock = false → T.isI u IK.unparsed = true ∨ u.label.kind ≤ 17 := by
  intro u hu hb
  rw [t0_nodes] at hu
  simp only [List.mem_cons, List.mem_nil_iff, or_false] at hu
  rcases hu with rfl | rfl | rfl | rfl
  · exact absurd hb (by decide)
  · exact Or.inl (by decide)
  · exact Or.inr (by decide)
  · exact Or.inl (by decide)

end CM.Proofs.InlH.Examples

section
open CM.Proofs.InlH
#print axioms parseBody_spec
#print axioms parseInlines_nodes
#print axioms rewriteE_nodes
#print axioms parseInlines_no_unparsed
#print axioms rewriteE_no_unparsed
#print axioms parseInlines_refs
#print axioms parseInlines_link_refs
#print axioms rewriteE_refs
#print axioms parseCharacterEscape_shape
#print axioms parseInlines_safePre
#print axioms parseInlines_charRef_softBreak
#print axioms rewriteE_safePre
#print axioms rewrite_safePre
#print axioms parseBody_specS
#print axioms parseInlines_nodes_strong
#print axioms parseInlines_inline_kinds
#print axioms rewriteE_inline_kinds
end
