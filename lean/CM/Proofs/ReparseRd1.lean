import CM.Proofs.BlocksContractRefDef
/-
C16, `ParaCloseLocal`, part 1: the inline byte reader over the text of a top-level paragraph that ends at `b = |s|`
behaves the same on the source `s ++ u` as on `s`, as long as it is inside the text (`Ins`): `current`, `next`, and the
simple scanners `skipLinkSpace`, `skipSpacesAndTabs`, `readEOL` — for every pair of adequate fuels.
-/
namespace CM.Proofs.Rp
open CM CM.Model CM.Gen CM.Proofs

/-- The reader is inside the text that ends at `b`, at or after `lb`. -/
def Ins (b lb : Nat) (r : Rd) : Prop := RW b r ∧ lb ≤ r.pos ∧ r.pos < b

theorem getD_append_lt (s u : Bytes) (i : Nat) (d : UInt8) (h : i < s.length) : (s ++ u).getD i d = s.getD i d := by
  simp [List.getD, List.getElem?_append_left h]

section
variable {s u : Bytes} {b lb : Nat}

theorem cur_eq (hb : b ≤ s.length) {r : Rd} (h : r.pos < b) : r.current (s ++ u) = r.current s := by
  unfold Rd.current
  rw [if_neg (by simp only [List.length_append]; omega), if_neg (by omega)]
  have hp := (currentNode_pos r).1
  generalize r.currentNode = cn at hp
  obtain ⟨n, r'⟩ := cn
  simp only at hp ⊢
  rw [getD_append_lt s u r'.pos 0 (by omega)]

theorem cnvp_eq (p : Nat) (hp : p < s.length) : computeNullVirtualPosition (s ++ u) p = computeNullVirtualPosition s p := by
  unfold computeNullVirtualPosition
  rw [getD_append_lt s u p 0 hp, List.take_append_of_le_length (by omega)]
  have h1 : ¬ p ≥ (s ++ u).length := by simp only [List.length_append]; omega
  have h2 : ¬ p ≥ s.length := by omega
  simp only [h1, h2, decide_false, Bool.false_or]

/-- `next` does not depend on the source beyond the text. -/
theorem nxt_eq (hb : b ≤ s.length) {r : Rd} (h : RW b r) : r.next (s ++ u) = r.next s := by
  rcases h.sp with ⟨a', hc, h1, h2⟩ | ⟨he, hp⟩
  · obtain ⟨t, rest, s0, e, k1, k2, k3, k4, k5, k6⟩ := currentNode_inside hc h1 h2
    obtain ⟨t1, t2, c, t3, t4, t5⟩ := k2
    have hce : c = e := by have := t3.symm.trans k4; omega
    subst hce
    have hcb := t5.le
    unfold Rd.next
    rw [k1]
    simp only [k6, Bool.false_eq_true, Bool.false_and, if_false, Bool.not_false, Bool.true_and]
    by_cases hin : ((r.pos + 1 : Nat) : Int) < t.label.stop
    · have hd : decide (((r.pos + 1 : Nat) : Int) < t.label.stop) = true := by simpa using hin
      have hlt : r.pos + 1 < c := by rw [t3] at hin; omega
      simp only [hd, if_true]
      rw [getD_append_lt s u r.pos 1 (by omega), getD_append_lt s u (r.pos + 1) 1 (by omega)]
    · have hd : decide (((r.pos + 1 : Nat) : Int) < t.label.stop) = false := by simpa using hin
      simp only [hd, Bool.false_eq_true, if_false]
      simp only [List.drop_succ_cons, List.drop_zero]
      cases rest with
      | nil => rfl
      | cons t' rest' =>
        obtain ⟨u1, u2, c', u3, u4, u5⟩ := t5
        rw [nextTextNode_cons u2]
        simp only
        have hcb' := u5.le
        rw [cnvp_eq (s := s) (u := u) t'.label.start.toNat (by rw [u1]; simp; omega)]
  · have hcn := currentNode_end he
    unfold Rd.next
    rw [hcn]

theorem Ins.rw {r : Rd} (h : Ins b lb r) : RW b r := h.1

/-- `current` inside the text: the reader stays where it is. -/
theorem Ins.cur (hb : b ≤ s.length) {r : Rd} (h : Ins b lb r) : Ins b lb (r.current s).2 ∧ (r.current s).2.pos = r.pos ∧
    CurB s r.pos (r.current s).1 := by
  obtain ⟨c1, c2, _, c4, _⟩ := h.1.current s hb
  exact ⟨⟨c1, by rw [c2]; exact h.2.1, by rw [c2]; exact h.2.2⟩, c2, c4 h.2.2⟩

/-- A successful `next`: one byte forward, still inside. -/
theorem Ins.nxt {r : Rd} (h : Ins b lb r) (hok : (r.next s).1 = true) :
    Ins b lb (r.next s).2 ∧ (r.next s).2.pos = r.pos + 1 := by
  obtain ⟨n1, n2, _⟩ := h.1.next s
  obtain ⟨_, m2, _, m4⟩ := n2 hok
  exact ⟨⟨n1, by rw [m2]; have := h.2.1; omega, m4⟩, m2⟩

/-- A failed `next` inside the text: the reader was on the last byte. -/
theorem Ins.nxt_fail {r : Rd} (h : Ins b lb r) (hok : (r.next s).1 = false) :
    RW b (r.next s).2 ∧ (r.next s).2.pos = b ∧ r.pos + 1 = b := by
  obtain ⟨n1, _, n3⟩ := h.1.next s
  obtain ⟨m1, _, m3, _⟩ := n3 hok
  exact ⟨n1, m1, (m3 h.2.2).1⟩

theorem Ins.nxt_prev {r : Rd} (h : Ins b lb r) : (r.next s).2.prev = (r.pos : Int) := by
  obtain ⟨_, n2, n3⟩ := h.1.next s
  cases hok : (r.next s).1 with
  | true => exact (n2 hok).2.2.1
  | false => exact ((n3 hok).2.2.1 h.2.2).2

/-! ### The simple scanners: same result for the two sources and any adequate fuels -/

theorem skipLinkSpace_two (hb : b ≤ s.length) : ∀ (f1 f2 : Nat) (r : Rd), Ins b lb r → b - r.pos < f1 → b - r.pos < f2 →
    skipLinkSpace (s ++ u) f1 r = skipLinkSpace s f2 r ∧
    ((skipLinkSpace s f2 r).1 = true → Ins b lb (skipLinkSpace s f2 r).2) := by
  intro f1
  induction f1 with
  | zero => intro f2 r _ h1 _; omega
  | succ f1 ih =>
    intro f2 r h h1 h2
    obtain ⟨f2, rfl⟩ : ∃ g, f2 = g + 1 := ⟨f2 - 1, by omega⟩
    simp only [skipLinkSpace]
    rw [cur_eq hb h.2.2]
    obtain ⟨i1, p1, _⟩ := h.cur (lb := lb) hb
    rcases hc : r.current s with ⟨c, r1⟩
    rw [hc] at i1 p1
    simp only at i1 p1 ⊢
    rw [nxt_eq hb i1.1]
    rcases hn : r1.next s with ⟨ok, r2⟩
    simp only
    split
    · exact ⟨rfl, fun hh => by cases hh⟩
    · split
      · cases ok with
        | false => exact ⟨rfl, fun hh => by cases hh⟩
        | true =>
          simp only [Bool.not_true, Bool.false_eq_true, if_false]
          obtain ⟨j1, j2⟩ := i1.nxt (s := s) (by rw [hn])
          rw [hn] at j1 j2
          simp only at j1 j2
          have hlt := h.2.2
          exact ih f2 r2 j1 (by omega) (by omega)
      · exact ⟨rfl, fun _ => i1⟩

theorem skipSpacesAndTabs_two (hb : b ≤ s.length) : ∀ (f1 f2 : Nat) (r : Rd), Ins b lb r → b - r.pos < f1 → b - r.pos < f2 →
    skipSpacesAndTabs (s ++ u) f1 r = skipSpacesAndTabs s f2 r ∧
    ((skipSpacesAndTabs s f2 r).1 = true → Ins b lb (skipSpacesAndTabs s f2 r).2) := by
  intro f1
  induction f1 with
  | zero => intro f2 r _ h1 _; omega
  | succ f1 ih =>
    intro f2 r h h1 h2
    obtain ⟨f2, rfl⟩ : ∃ g, f2 = g + 1 := ⟨f2 - 1, by omega⟩
    simp only [skipSpacesAndTabs]
    rw [cur_eq hb h.2.2]
    obtain ⟨i1, p1, _⟩ := h.cur (lb := lb) hb
    rcases hc : r.current s with ⟨c, r1⟩
    rw [hc] at i1 p1
    simp only at i1 p1 ⊢
    rw [nxt_eq hb i1.1]
    rcases hn : r1.next s with ⟨ok, r2⟩
    simp only
    split
    · cases ok with
      | false => exact ⟨rfl, fun hh => by cases hh⟩
      | true =>
        simp only [Bool.not_true, Bool.false_eq_true, if_false]
        obtain ⟨j1, j2⟩ := i1.nxt (s := s) (by rw [hn])
        rw [hn] at j1 j2
        simp only at j1 j2
        have hlt := h.2.2
        exact ih f2 r2 j1 (by omega) (by omega)
    · exact ⟨rfl, fun _ => i1⟩

theorem readEOL_two (hb : b ≤ s.length) (f1 f2 : Nat) (r : Rd) (h : Ins b lb r) (h1 : b - r.pos < f1) (h2 : b - r.pos < f2) :
    readEOL (s ++ u) f1 r = readEOL s f2 r ∧ ((readEOL s f2 r).1 < 0 → (readEOL s f2 r).2.pos < b) := by
  simp only [readEOL]
  obtain ⟨e1, k1⟩ := skipSpacesAndTabs_two (u := u) hb f1 f2 r h h1 h2
  rw [e1]
  rcases hs : skipSpacesAndTabs s f2 r with ⟨ok, r0⟩
  rw [hs] at k1
  simp only at k1 ⊢
  cases ok with
  | false =>
    simp only [Bool.not_false, if_true]
    exact ⟨by first | rfl | trivial, fun hh => by omega⟩
  | true =>
    simp only [Bool.not_true, Bool.false_eq_true, if_false]
    have i0 := k1 rfl
    rw [cur_eq hb i0.2.2]
    obtain ⟨i1, p1, _⟩ := i0.cur (lb := lb) hb
    rcases hc : r0.current s with ⟨c, r1⟩
    rw [hc] at i1 p1
    simp only at i1 p1 ⊢
    rw [nxt_eq hb i1.1]
    have hpv := i1.nxt_prev (s := s)
    rcases hn : r1.next s with ⟨ok2, r2⟩
    rw [hn] at hpv
    simp only at hpv ⊢
    split
    · cases ok2 with
      | false =>
        simp only [Bool.not_false, if_true]
        exact ⟨by first | rfl | trivial, fun hh => by omega⟩
      | true =>
        simp only [Bool.not_true, Bool.false_eq_true, if_false]
        obtain ⟨j1, j2⟩ := i1.nxt (s := s) (by rw [hn])
        rw [hn] at j1 j2
        simp only at j1 j2
        rw [cur_eq hb j1.2.2]
        obtain ⟨l1, q1, _⟩ := j1.cur (lb := lb) hb
        have hcp := RW.current s j1.1 hb
        rcases hc2 : r2.current s with ⟨c2, r3⟩
        rw [hc2] at l1 q1 hcp
        simp only at l1 q1 hcp ⊢
        split
        · rw [nxt_eq hb l1.1]
          have hpv3 := l1.nxt_prev (s := s)
          rcases hn3 : r3.next s with ⟨ok4, r4⟩
          rw [hn3] at hpv3
          simp only at hpv3 ⊢
          exact ⟨by first | rfl | trivial, fun hh => by omega⟩
        · refine ⟨by first | rfl | trivial, fun hh => ?_⟩
          have : r3.prev = r2.prev := hcp.2.2.1
          have hp2 : r2.prev = (r1.pos : Int) := hpv
          omega
    · split
      · exact ⟨by first | rfl | trivial, fun hh => by omega⟩
      · exact ⟨by first | rfl | trivial, fun _ => i1.2.2⟩

end

end CM.Proofs.Rp
