import CM.Proofs.ParseAsmCoverEx
/-
C03, inline half — **what is left of `ScanCovE` for block-phase trees, stated field by field** (`…_target : Prop`, NOT proved
here), and the reduction: the four fields, for every container with content of every delivered root, give the whole-`Parse`
coverage theorem with `ParseTails` as its only hypothesis (`parse_cover_of_parseTails_of_fields`).
-/
namespace CM.Proofs.PSc
open CM CM.Model CM.Gen CM.Spec CM.Model.Inl
open CM.Proofs CM.Proofs.PW CM.Proofs.RK CM.Proofs.InlH CM.Proofs.InlH2 CM.Proofs.PS CM.Proofs.PSh

/-- The statement of `TokCover.code`. -/
def CodeCovField (c : ICtx) : Prop :=
  ∀ (s s' : IState) (pos : Int) (cs : CodeSpan),
    0 ≤ pos → pos < c.srcA.size → c.srcA[pos.toNat]! = 0x60 →
    (parseCodeSpan c pos).run s = .ok (cs, s') → s.unparsedPos < c.unparsed.size → pos < spanEndOf c s →
    cs.span.isValid = true →
    ∀ t t' : IState, t.unparsedPos = s.unparsedPos → (collectCodeSpan c cs).run t = .ok ((), t') →
      ∀ j, pos ≤ j → j < cs.span.stop → InRun c j → NeedAt c j → CovN (t'.nodes[t.nodes.size]!) j

/-- The statement of `TokCover.html`. -/
def HtmlCovField (c : ICtx) : Prop :=
  ∀ (u : Nat) (pos : Int) (span : SpanI) (r' : Rd),
    0 ≤ pos → pos < c.srcA.size → c.srcA[pos.toNat]! = 0x3C →
    parseHTMLTag c.src c.fl (newReader (c.unparsedL.drop u) pos.toNat) = (span, r') → span.isValid = true →
    ∀ j, pos ≤ j → j < span.stop → InRun c j → NeedAt c j →
      CovP span.start span.stop
        (collectTextNodes c.x.ext c.src span.stop.toNat IK.rawHTML false c.fl
          (newReader (c.unparsedL.drop u) span.start.toNat) span.start.toNat []) j

/-- The statement of `LinkCover.label`. -/
def LabelCovField (c : ICtx) : Prop :=
  ∀ (u : Nat) (start : Int) (label : LinkLabel) (r' : Rd),
    0 ≤ start → start < c.srcA.size → c.srcA[start.toNat]! = 0x5B →
    parseLinkLabel c.src c.fl (newReader (c.unparsedL.drop u) start.toNat) = (label, r') →
    label.span.isValid = true →
    ∀ j, start ≤ j → j < label.span.stop → InRun c j → NeedAt c j →
      CovP label.span.start label.span.stop
        (collectTextNodes c.x.ext c.src label.inner.stop.toNat IK.text false c.fl
          (newReader (c.unparsedL.drop u) label.inner.start.toNat) label.inner.start.toNat []) j

/-- The statement of `LinkCover.inline`. -/
def InlineCovField (c : ICtx) : Prop :=
  ∀ (s s' : IState) (start : Int) (info : InlineLinkInfo),
    0 ≤ start → start < c.srcA.size → c.srcA[start.toNat]! = 0x28 →
    (parseInlineLink c start).run s = .ok (info, s') → info.span.isValid = true →
    ∀ j, start ≤ j → j < info.span.stop → InRun c j → NeedAt c j →
      (info.destination.span.isValid = true ∧
        CovP info.destination.span.start info.destination.span.stop
          (textKids c (c.unparsedL.drop s.unparsedPos) info.destination.text) j) ∨
      (info.title.span.isValid = true ∧
        CovP info.title.span.start info.title.span.stop
          (textKids c (c.unparsedL.drop s.unparsedPos) info.title.text) j)

theorem tokCover_of {c : ICtx} (h1 : HtmlCovField c) (h2 : CodeCovField c) : TokCover c := TokCover.mk' c h1 h2
theorem linkCover_of {c : ICtx} (h1 : InlineCovField c) (h2 : LabelCovField c) : LinkCover c := ⟨h1, h2⟩

/-- A field, for every container with content of every root the block phase delivers (with the tail facts the span
    versions `blockphase_tokScan2` / `blockphase_linkScan2` use). -/
def BlockphaseField (F : ICtx → Prop) : Prop :=
  ∀ (x : PExt) (fuel : Nat) (inp : Bytes) (ix : IExt) (m : Bytes → Bool),
    ∀ r ∈ (drain (blocksLP x) fuel (memParser inp) []).1, ∀ p ∈ conts (pbToTree r.block),
      TailNP r.source p.2 → (p.1.kind = BK.atxHeading → TailSafe r.source p.2) → ¬ EmptyRun p.2 →
      F (inlCtx ix r.source r.source.toArray m p.2)

/-- **open** -/ def blockphase_code_target : Prop := BlockphaseField CodeCovField
/-- **open** -/ def blockphase_label_target : Prop := BlockphaseField LabelCovField
/-- **open** -/ def blockphase_html_target : Prop := BlockphaseField HtmlCovField
/-- **open** -/ def blockphase_inline_target : Prop := BlockphaseField InlineCovField

/-- `ScanCovE` for every delivered root from the four fields and the tail facts. -/
theorem blockphase_scanCovE_of_fields (h1 : blockphase_code_target) (h2 : blockphase_label_target)
    (h3 : blockphase_html_target) (h4 : blockphase_inline_target)
    (x : PExt) (fuel : Nat) (inp : Bytes) (ix : IExt) (m : Bytes → Bool) :
    ∀ r ∈ (drain (blocksLP x) fuel (memParser inp) []).1, TailsOK r.source (pbToTree r.block) →
      ScanCovE ix r.source r.source.toArray m (pbToTree r.block) := by
  intro r hr hT p hp
  by_cases he : EmptyRun p.2
  · exact Or.inl he
  · obtain ⟨t1, t2⟩ := hT p hp
    exact Or.inr ⟨linkCover_of (h4 x fuel inp ix m r hr p hp t1 t2 he) (h2 x fuel inp ix m r hr p hp t1 t2 he),
      tokCover_of (h3 x fuel inp ix m r hr p hp t1 t2 he) (h1 x fuel inp ix m r hr p hp t1 t2 he)⟩

/-- **C03, inline half, for `Parse`, with `ParseTails` as the only hypothesis — given the four open fields.** -/
theorem parse_cover_of_parseTails_of_fields (h1 : blockphase_code_target) (h2 : blockphase_label_target)
    (h3 : blockphase_html_target) (h4 : blockphase_inline_target)
    (x : PExt) (ix : IExt) (inp : Bytes) (hT : ParseTails x ix inp) :
    ∀ pr ∈ (parseDoc x ix inp).roots, ∀ t', pr.tree = .ok t' →
      ∀ j : Int, 0 ≤ j → needsCover (pr.root.source.toArray[j.toNat]!) = true →
        CovTs [pbToTree pr.root.block] j → CovTs [t'] j :=
  parse_cover_of_tails_scan x ix inp hT (fun pr hpr =>
    blockphase_scanCovE_of_fields h1 h2 h3 h4 x _ inp ix _ pr.root (root_mem_drain x ix inp pr hpr) (hT pr hpr))

end CM.Proofs.PSc

#print axioms CM.Proofs.PSc.parse_cover_of_parseTails_of_fields
