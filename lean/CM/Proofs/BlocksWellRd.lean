import CM.Model.Blocks
import CM.Basic.Forall
/-
Bounds on the inline byte reader (`Rd`): when every span of the reader lies below `N`, the reader's position and
previous position stay below `N`, whatever sequence of `current` / `next` / `currentNode` is applied.
`current` is idempotent (its second call returns the same byte and the same reader).
-/
namespace CM.Proofs
open CM CM.Model CM.Gen

/-- The span of an inline node lies below `N`. -/
def TB (N : Nat) (t : Tree) : Prop := t.label.start ≤ (N : Int) ∧ t.label.stop ≤ (N : Int)

def SpansOK (N : Nat) (l : List Tree) : Prop := ∀ t ∈ l, TB N t

theorem TB.mono {N M : Nat} {t : Tree} (h : TB N t) (hle : N ≤ M) : TB M t := by
  unfold TB at *; omega

theorem SpansOK.mono {N M : Nat} {l : List Tree} (h : SpansOK N l) (hle : N ≤ M) : SpansOK M l :=
  fun t ht => (h t ht).mono hle

theorem SpansOK.drop {N : Nat} {l : List Tree} (h : SpansOK N l) (k : Nat) : SpansOK N (l.drop k) :=
  fun t ht => h t (List.mem_of_mem_drop ht)

theorem SpansOK.nil (N : Nat) : SpansOK N [] := fun _ h => by cases h

theorem SpansOK.append {N : Nat} {l m : List Tree} (h : SpansOK N l) (h2 : SpansOK N m) : SpansOK N (l ++ m) := by
  intro t ht
  rcases List.mem_append.mp ht with h' | h'
  · exact h t h'
  · exact h2 t h'

/-- The spans are in source order and do not overlap. -/
def SortedSpans (l : List Tree) : Prop := l.Pairwise (fun a b => a.label.stop ≤ b.label.start)

theorem SortedSpans.drop {l : List Tree} (h : SortedSpans l) (k : Nat) : SortedSpans (l.drop k) :=
  List.Pairwise.sublist (List.drop_sublist k l) h

/-- Reader invariant. `N`: upper bound of all spans; `m`: lower bound of the position; `pv`: a `next` has succeeded
    since the lower bound was fixed (so the previous position is above it too). -/
structure RdOK (m N : Nat) (pv : Bool) (r : Rd) : Prop where
  spans : SpansOK N r.spans
  sorted : SortedSpans r.spans
  pos : r.pos ≤ N
  lo : m ≤ r.pos
  prev : r.prev + 1 ≤ (N : Int)
  prevlb : -1 ≤ r.prev
  pvl : pv = true → (m : Int) ≤ r.prev + 1
  /-- the previous position is before the position, except inside an Indent node -/
  iv : r.prev + 1 ≤ (r.pos : Int) ∨ ∃ t, r.currentNode.1 = some t ∧ isIndent t = true

/-! ### nodeIndexForPosition / currentNode -/

theorem nodeIndex_spec {l : List Tree} {pos k i : Nat} (h : nodeIndexForPosition l pos k = some i) :
    k ≤ i ∧ ∃ t, l[i - k]? = some t ∧ spanContains t pos = true ∧ ¬ (t.label.start > (pos : Int)) := by
  induction l generalizing k with
  | nil => simp [nodeIndexForPosition] at h
  | cons t rest ih =>
    simp only [nodeIndexForPosition] at h
    split at h
    · cases h
    · rename_i hs
      split at h
      · rename_i hc
        cases h
        exact ⟨Nat.le_refl _, t, by simp, hc, hs⟩
      · obtain ⟨h1, t', h2, h3, h4⟩ := ih h
        refine ⟨by omega, t', ?_, h3, h4⟩
        have : i - k = (i - (k + 1)) + 1 := by omega
        rw [this, List.getElem?_cons_succ]; exact h2

theorem nodeIndex_shift (l : List Tree) (pos k : Nat) :
    nodeIndexForPosition l pos (k + 1) = (nodeIndexForPosition l pos k).map (· + 1) := by
  induction l generalizing k with
  | nil => rfl
  | cons t rest ih =>
    simp only [nodeIndexForPosition]
    split
    · rfl
    · split
      · rfl
      · exact ih (k + 1)

/-- After dropping the nodes before the found one, the found one is first. -/
theorem nodeIndex_drop {l : List Tree} {pos i : Nat} (h : nodeIndexForPosition l pos 0 = some i) :
    nodeIndexForPosition (l.drop i) pos 0 = some 0 := by
  obtain ⟨_, t, h2, h3, h4⟩ := nodeIndex_spec h
  simp only [Nat.sub_zero] at h2
  have hlt : i < l.length := (List.getElem?_eq_some_iff.mp h2).1
  have ht : l[i] = t := (List.getElem?_eq_some_iff.mp h2).2
  rw [List.drop_eq_getElem_cons hlt, ht]
  simp only [nodeIndexForPosition]
  rw [if_neg h4, if_pos h3]

theorem currentNode_pos (r : Rd) : r.currentNode.2.pos = r.pos ∧ r.currentNode.2.prev = r.prev ∧
    r.currentNode.2.vpos = r.vpos := by
  unfold Rd.currentNode
  split <;> exact ⟨rfl, rfl, rfl⟩

theorem currentNode_spans (r : Rd) : ∃ k, r.currentNode.2.spans = r.spans.drop k := by
  unfold Rd.currentNode
  split
  · exact ⟨r.spans.length, by simp⟩
  · rename_i i _; exact ⟨i, rfl⟩

/-- The node found: it is the head of the remaining spans, contains the position, and is one of the spans. -/
theorem currentNode_some {r : Rd} {t : Tree} (h : r.currentNode.1 = some t) :
    t ∈ r.spans ∧ spanContains t r.pos = true ∧ ∃ rest, r.currentNode.2.spans = t :: rest := by
  unfold Rd.currentNode at h ⊢
  split at h
  · cases h
  · rename_i i hi
    obtain ⟨_, t', h2, h3, _⟩ := nodeIndex_spec hi
    simp only [Nat.sub_zero] at h2
    have hlt : i < r.spans.length := (List.getElem?_eq_some_iff.mp h2).1
    have ht : r.spans[i] = t' := (List.getElem?_eq_some_iff.mp h2).2
    simp only [List.head?_drop] at h
    rw [h2] at h
    cases h
    refine ⟨List.mem_of_getElem? h2, h3, ?_⟩
    simp only [hi]
    exact ⟨r.spans.drop (i + 1), by rw [List.drop_eq_getElem_cons hlt, ht]⟩

theorem currentNode_none_eq {r : Rd} (h : nodeIndexForPosition r.spans r.pos 0 = none) :
    r.currentNode = (none, { r with spans := [] }) := by
  unfold Rd.currentNode; rw [h]

theorem currentNode_some_eq {r : Rd} {i : Nat} (h : nodeIndexForPosition r.spans r.pos 0 = some i) :
    r.currentNode = ((r.spans.drop i).head?, { r with spans := r.spans.drop i }) := by
  unfold Rd.currentNode; rw [h]

theorem currentNode_idem (r : Rd) : r.currentNode.2.currentNode = r.currentNode := by
  cases hi : nodeIndexForPosition r.spans r.pos 0 with
  | none =>
    rw [currentNode_none_eq hi]
    exact currentNode_none_eq (r := { r with spans := [] }) rfl
  | some i =>
    rw [currentNode_some_eq hi]
    have := currentNode_some_eq (r := { r with spans := r.spans.drop i }) (i := 0) (nodeIndex_drop hi)
    simpa using this

theorem currentNode_fst_congr {r r' : Rd} (hs : r'.spans = r.spans) (hp : r'.pos = r.pos) :
    r'.currentNode.1 = r.currentNode.1 := by
  unfold Rd.currentNode
  rw [hs, hp]
  split <;> rfl

theorem RdOK.currentNode {m N : Nat} {pv : Bool} {r : Rd} (h : RdOK m N pv r) : RdOK m N pv r.currentNode.2 := by
  obtain ⟨k, hk⟩ := currentNode_spans r
  obtain ⟨h1, h2, _⟩ := currentNode_pos r
  refine ⟨by rw [hk]; exact h.spans.drop k, by rw [hk]; exact h.sorted.drop k, by rw [h1]; exact h.pos,
    by rw [h1]; exact h.lo, by rw [h2]; exact h.prev, by rw [h2]; exact h.prevlb, by rw [h2]; exact h.pvl, ?_⟩
  rw [h1, h2, currentNode_idem]
  exact h.iv

/-! ### current -/

theorem current_snd_of_lt (src : Bytes) (r : Rd) (hp : ¬ r.pos ≥ src.length) :
    (r.current src).2 = r.currentNode.2 := by
  unfold Rd.current
  rw [if_neg hp]
  simp only
  split
  · split
    · rfl
    · split <;> rfl
  · split <;> rfl

theorem current_cases (src : Bytes) (r : Rd) :
    (r.current src).2 = r ∨ (r.current src).2 = r.currentNode.2 := by
  by_cases hp : r.pos ≥ src.length
  · left; unfold Rd.current; rw [if_pos hp]
  · right; exact current_snd_of_lt src r hp

theorem RdOK.current {m N : Nat} {pv : Bool} {r : Rd} (src : Bytes) (h : RdOK m N pv r) : RdOK m N pv (r.current src).2 := by
  rcases current_cases src r with e | e <;> rw [e]
  · exact h
  · exact h.currentNode

theorem current_pos (src : Bytes) (r : Rd) : (r.current src).2.pos = r.pos := by
  rcases current_cases src r with e | e <;> rw [e]
  exact (currentNode_pos r).1

/-- `current` twice = `current` once. -/
theorem current_idem (src : Bytes) (r : Rd) : (r.current src).2.current src = r.current src := by
  by_cases hp : r.pos ≥ src.length
  · have : r.current src = (0, r) := by unfold Rd.current; rw [if_pos hp]
    rw [this]; exact this
  · have e : (r.current src).2 = r.currentNode.2 := current_snd_of_lt src r hp
    rw [e]
    have hp' : ¬ r.currentNode.2.pos ≥ src.length := by rw [(currentNode_pos r).1]; exact hp
    unfold Rd.current
    rw [if_neg hp', if_neg hp]
    simp only [currentNode_idem, (currentNode_pos r).1, (currentNode_pos r).2.2]

theorem current_snd_fst (src : Bytes) (r : Rd) : ((r.current src).2.current src).1 = (r.current src).1 := by
  rw [current_idem]

theorem current_snd_snd (src : Bytes) (r : Rd) : ((r.current src).2.current src).2 = (r.current src).2 := by
  rw [current_idem]

/-! ### next -/

theorem nextTextNode_spec {l : List Tree} {t : Tree} {sp : List Tree} (h : nextTextNode l = some (t, sp)) :
    t ∈ l ∧ ∃ k, sp = l.drop k := by
  induction l with
  | nil => simp [nextTextNode] at h
  | cons a rest ih =>
    simp only [nextTextNode] at h
    split at h
    · cases h
      exact ⟨by simp, 0, rfl⟩
    · obtain ⟨h1, k, h2⟩ := ih h
      exact ⟨by simp [h1], k + 1, by simpa using h2⟩

theorem spanContains_lt {t : Tree} {pos : Nat} (h : spanContains t pos = true) : (pos : Int) < t.label.stop := by
  unfold spanContains at h
  simp only [Bool.and_eq_true, decide_eq_true_eq] at h
  exact h.2

theorem RdOK.next_aux' {m N : Nat} {pv : Bool} {r : Rd} (src : Bytes) (h : RdOK m N pv r) (b : Bool) (r' : Rd)
    (e : r.next src = (b, r')) :
    RdOK m N pv r' ∧ (b = true → RdOK m N true r') ∧
    ((¬ ∃ t, r.currentNode.1 = some t ∧ isIndent t = true) → r'.prev + 1 ≤ (r'.pos : Int)) := by
  have hc := h.currentNode
  unfold Rd.next at e
  cases hn : r.currentNode.1 with
  | none =>
    simp only [hn, Prod.mk.injEq] at e
    obtain ⟨rfl, rfl⟩ := e
    refine ⟨hc, fun h' => (by cases h'), fun hni => ?_⟩
    rcases hc.iv with h' | ⟨t, ht, _⟩
    · exact h'
    · rw [currentNode_idem, hn] at ht; cases ht
  | some t =>
    obtain ⟨hmem, hcont, rest, hrest⟩ := currentNode_some hn
    have htb := h.spans t hmem
    have hlt := spanContains_lt hcont
    have hpos := (currentNode_pos r).1
    have hlo := hc.lo
    have hpp := hc.pos
    have hsorted := hc.sorted
    rw [hrest] at hsorted
    unfold TB at htb
    simp only [hn] at e
    split at e
    · rename_i hind
      simp only [Bool.and_eq_true, decide_eq_true_eq] at hind
      simp only [Prod.mk.injEq] at e
      obtain ⟨rfl, rfl⟩ := e
      have hiv : ∃ t', (Rd.currentNode (Rd.mk r.currentNode.2.spans r.currentNode.2.pos
          (r.currentNode.2.vpos + 1) (r.currentNode.2.pos : Int))).1 = some t' ∧ isIndent t' = true := by
        refine ⟨t, ?_, hind.1⟩
        have := currentNode_fst_congr (r := r.currentNode.2) (r' := Rd.mk r.currentNode.2.spans r.currentNode.2.pos
          (r.currentNode.2.vpos + 1) (r.currentNode.2.pos : Int)) rfl rfl
        rw [this, currentNode_idem]
        exact hn
      refine ⟨⟨hc.spans, hc.sorted, hc.pos, hc.lo, by simp only; omega, by simp only; omega, fun _ => by simp only; omega,
        Or.inr hiv⟩, fun _ => ⟨hc.spans, hc.sorted, hc.pos, hc.lo, by simp only; omega, by simp only; omega,
        fun _ => by simp only; omega, Or.inr hiv⟩, fun hni => ?_⟩
      exact absurd ⟨t, rfl, hind.1⟩ hni
    · split at e
      · rename_i h2
        simp only [Bool.and_eq_true, Bool.not_eq_eq_eq_not, Bool.not_true, decide_eq_true_eq] at h2
        simp only [Prod.mk.injEq] at e
        obtain ⟨rfl, rfl⟩ := e
        refine ⟨⟨hc.spans, hc.sorted, ?_, ?_, ?_, ?_, ?_, Or.inl ?_⟩, fun _ => ⟨hc.spans, hc.sorted, ?_, ?_, ?_, ?_, ?_, Or.inl ?_⟩, fun _ => ?_⟩ <;>
          simp only <;> (try intro _) <;> omega
      · split at e
        · rename_i t' sp hnt
          simp only [Prod.mk.injEq] at e
          obtain ⟨rfl, rfl⟩ := e
          obtain ⟨hm', k, hk⟩ := nextTextNode_spec hnt
          have hm'' : t' ∈ r.currentNode.2.spans := List.mem_of_mem_drop hm'
          have htb' := hc.spans t' hm''
          have hrel : t.label.stop ≤ t'.label.start := by
            rw [hrest] at hm'
            simp only [List.drop_succ_cons, List.drop_zero] at hm'
            exact List.rel_of_pairwise_cons hsorted hm'
          unfold TB at htb'
          have hsp : SpansOK N sp := by rw [hk]; exact (hc.spans.drop 1).drop k
          have hso : SortedSpans sp := by rw [hk]; exact (hc.sorted.drop 1).drop k
          refine ⟨⟨hsp, hso, ?_, ?_, ?_, ?_, ?_, Or.inl ?_⟩, fun _ => ⟨hsp, hso, ?_, ?_, ?_, ?_, ?_, Or.inl ?_⟩, fun _ => ?_⟩ <;>
            simp only <;> (try intro _) <;> omega
        · simp only [Prod.mk.injEq] at e
          obtain ⟨rfl, rfl⟩ := e
          refine ⟨⟨SpansOK.nil N, List.Pairwise.nil, ?_, ?_, ?_, ?_, ?_, Or.inl ?_⟩,
            fun h' => (by cases h'), fun _ => ?_⟩ <;> simp only <;> (try intro _) <;> omega

theorem RdOK.next {m N : Nat} {pv : Bool} {r : Rd} (src : Bytes) (h : RdOK m N pv r) : RdOK m N pv (r.next src).2 :=
  (h.next_aux' src _ _ rfl).1

theorem RdOK.next_true {m N : Nat} {pv : Bool} {r : Rd} (src : Bytes) (h : RdOK m N pv r) (ht : (r.next src).1 = true) :
    RdOK m N true (r.next src).2 :=
  (h.next_aux' src _ _ rfl).2.1 ht

/-- After `current` returned a byte other than a space or the end marker, the reader is not inside an Indent node. -/
theorem current_not_indent {src : Bytes} {r r1 : Rd} {c : UInt8} (h : r.current src = (c, r1)) (h0 : c ≠ 0)
    (hsp : c ≠ SP) : ¬ ∃ t, r1.currentNode.1 = some t ∧ isIndent t = true := by
  rintro ⟨t, ht, hi⟩
  by_cases hp : r.pos ≥ src.length
  · have : r.current src = (0, r) := by unfold Rd.current; rw [if_pos hp]
    rw [this] at h
    simp only [Prod.mk.injEq] at h
    exact h0 h.1.symm
  · have e := current_snd_of_lt src r hp
    rw [h] at e
    simp only at e
    subst e
    rw [currentNode_idem] at ht
    unfold Rd.current at h
    rw [if_neg hp] at h
    simp only [ht, hi, if_true, Prod.mk.injEq] at h
    exact hsp h.1.symm

/-- `next` right after such a `current`: the previous position is strictly before the position. -/
theorem next_prev_lt {m N : Nat} {pv : Bool} {src : Bytes} {r r1 : Rd} {c : UInt8} (h : r.current src = (c, r1))
    (hok : RdOK m N pv r1) (h0 : c ≠ 0) (hsp : c ≠ SP) : (r1.next src).2.prev + 1 ≤ ((r1.next src).2.pos : Int) :=
  (hok.next_aux' src _ _ rfl).2.2 (current_not_indent h h0 hsp)

end CM.Proofs
