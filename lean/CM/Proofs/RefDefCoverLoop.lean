import CM.Proofs.RefDefCoverCollect2
/-
C03, block half — `RefDefCoverOK`: the blocks `refDefLoop` produces are well formed and cover what the paragraph's
inline children covered (assembly lemmas, the induction over `refDefLoop`).
-/
namespace CM.Proofs.RDC
open CM CM.Model CM.Gen CM.Spec CM.Spec.T CM.Proofs CM.Proofs.BSp CM.Proofs.RDS CM.Proofs.Cov

variable {src : Bytes} {is : List Tree}

/-! ### an inline node with ordered leaf children -/

theorem inlOK_node (l : Label) (kids : List Tree) (h0 : 0 ≤ l.start) (hle : l.start ≤ l.stop)
    (ho : InlsOK l.start l.stop kids) (hl : ∀ t ∈ kids, t.children = []) : inlOK (.node l kids) = true := by
  have hs := inlsOK_sibs ho
  rw [inlOK_iff]
  refine ⟨h0, hle, ?_⟩
  have hnodes : ∀ ts : List Tree, (∀ t ∈ ts, t.children = []) → nodesL ts = ts := by
    intro ts
    induction ts with
    | nil => intro _; exact nodesL_nil
    | cons t rest ih =>
      intro h
      rw [nodesL_cons, ih (fun u hu => h u (List.mem_cons_of_mem _ hu))]
      obtain ⟨l, cs⟩ := t
      have : cs = [] := h _ List.mem_cons_self
      subst this
      rw [nodes_node, nodesL_nil]; rfl
  have hk : nodesL kids = kids := hnodes kids hl
  unfold deepOK
  rw [Bool.and_eq_true]
  constructor
  · show (nodesL kids).all _ = true
    rw [hk, List.all_eq_true]
    intro t ht
    exact decide_eq_true (hs.2 t ht).2.1
  · rw [nodes_node, hk, List.all_cons, Bool.and_eq_true]
    constructor
    · rw [Bool.and_eq_true]
      refine ⟨?_, hs.1⟩
      simp only [childrenInside, Tree.children, List.all_eq_true, Bool.and_eq_true, decide_eq_true_eq]
      intro t ht
      have := hs.2 t ht
      exact ⟨this.1, this.2.2⟩
    · rw [List.all_eq_true]
      intro t ht
      obtain ⟨l, cs⟩ := t
      have : cs = [] := hl _ ht
      subst this
      simp [childrenInside, siblingsOrdered, Tree.children]

/-- An inline node that is fine and whose leaves cover what the inline children cover of `[a, b)`. -/
structure Piece (src : Bytes) (is : List Tree) (t : Tree) (a b : Nat) : Prop where
  ok : inlOK t = true
  cov : ∀ j, a ≤ j → j < b → covTs is j = true → need (src.getD j 0) = true → covT t j = true

theorem piece_of {l : Label} {ks : List Tree} {a b : Nat} (hl : ∀ c ∈ ks, c.children = []) (hfin : PcFin src is a b ks)
    (h0 : 0 ≤ l.start) (h1 : l.start ≤ (a : Int)) (h2 : (b : Int) ≤ l.stop) (h3 : l.start ≤ l.stop) :
    Piece src is (.node l ks) a b := by
  refine ⟨inlOK_node l ks h0 h3 (InlsOK_mono h1 h2 hfin.1) hl, fun j j1 j2 j3 j4 => ?_⟩
  rw [covT_node, Bool.or_eq_true]
  exact Or.inr (hfin.2 j j1 j2 j3 j4)

theorem leaves_of_all {K : List Nat} {ks : List Tree} (h : ks.all (BG.inl K) = true) : ∀ c ∈ ks, c.children = [] := by
  intro c hc
  have := List.all_eq_true.mp h c hc
  simp only [BG.inl, Bool.and_eq_true, List.isEmpty_iff] at this
  exact this.2

/-! ### the blocks -/

theorem not_container_of {k : Nat} (h : k = BK.paragraph ∨ k = BK.setextHeading ∨ k = BK.linkRefDef) :
    isContainerKind k = false ∧ k ≠ BK.list ∧ k ≠ BK.indentedCode := by
  rcases h with rfl | rfl | rfl <;> decide

/-- A closed block without block children, of a leaf kind. -/
theorem leafBlock_WF {Q : ParaPred} {l : PLabel} {is : List Tree}
    (hk : l.kind = BK.paragraph ∨ l.kind = BK.setextHeading ∨ l.kind = BK.linkRefDef) (hc : 0 ≤ l.stop)
    (hi : ∀ t ∈ is, inlOK t = true) : WF Q (.mk l [] is) := by
  obtain ⟨k1, k2, k3⟩ := not_container_of hk
  rw [WF_mk]
  refine ⟨⟨?_, fun h => absurd h k2⟩, ⟨hi, fun h => absurd h k3⟩, fun ho => by omega, fun _ h => by cases h⟩
  rw [if_neg (by rw [k1]; exact Bool.false_ne_true)]

theorem covPB_leafBlock {l : PLabel} {is : List Tree} (hk : l.kind ≠ BK.listMarker) (j : Nat) :
    covPB (.mk l [] is) j = covTs is j := by
  rw [covPB_mk_nil]
  have : markerCov l j = false := by
    simp only [markerCov, Bool.and_eq_false_iff, beq_eq_false_iff_ne, ne_eq]
    left; left; exact hk
  rw [this, Bool.false_or]

/-- The link reference definition with label and destination. -/
theorem refdef_block2 {Q : ParaPred} {s e : Int} {t1 t2 : Tree} {p0 a1 b1 a2 b2 pe : Nat} (P1 : Piece src is t1 a1 b1)
    (P2 : Piece src is t2 a2 b2) (h0 : 0 ≤ e) (n0 : NN src is p0 a1) (n1 : NN src is b1 a2) (n2 : NN src is b2 pe) :
    WF Q (mkPB BK.linkRefDef s e [t1, t2]) ∧
    ∀ j, p0 ≤ j → j < pe → covTs is j = true → need (src.getD j 0) = true → covPB (mkPB BK.linkRefDef s e [t1, t2]) j = true := by
  unfold mkPB
  refine ⟨leafBlock_WF (Or.inr (Or.inr rfl)) h0 ?_, fun j j1 j2 j3 j4 => ?_⟩
  · intro t ht
    simp only [List.mem_cons, List.not_mem_nil, or_false] at ht
    rcases ht with rfl | rfl
    · exact P1.ok
    · exact P2.ok
  · rw [covPB_leafBlock (show BK.linkRefDef ≠ BK.listMarker by decide), covTs_cons, covTs_cons, covTs_nil, Bool.or_false, Bool.or_eq_true]
    have nn : ∀ {p q : Nat}, NN src is p q → p ≤ j → j < q → False := by
      intro p q h a b
      have := h j a b j3
      rw [this] at j4; cases j4
    by_cases c1 : j < a1
    · exact (nn n0 j1 c1).elim
    · by_cases c2 : j < b1
      · exact Or.inl (P1.cov j (by omega) c2 j3 j4)
      · by_cases c3 : j < a2
        · exact (nn n1 (by omega) c3).elim
        · by_cases c4 : j < b2
          · exact Or.inr (P2.cov j (by omega) c4 j3 j4)
          · exact (nn n2 (by omega) j2).elim

/-- The link reference definition with label, destination and title. -/
theorem refdef_block3 {Q : ParaPred} {s e : Int} {t1 t2 t3 : Tree} {p0 a1 b1 a2 b2 a3 b3 pe : Nat} (P1 : Piece src is t1 a1 b1)
    (P2 : Piece src is t2 a2 b2) (P3 : Piece src is t3 a3 b3) (h0 : 0 ≤ e) (n0 : NN src is p0 a1) (n1 : NN src is b1 a2)
    (n2 : NN src is b2 a3) (n3 : NN src is b3 pe) :
    WF Q (mkPB BK.linkRefDef s e [t1, t2, t3]) ∧
    ∀ j, p0 ≤ j → j < pe → covTs is j = true → need (src.getD j 0) = true →
      covPB (mkPB BK.linkRefDef s e [t1, t2, t3]) j = true := by
  unfold mkPB
  refine ⟨leafBlock_WF (Or.inr (Or.inr rfl)) h0 ?_, fun j j1 j2 j3 j4 => ?_⟩
  · intro t ht
    simp only [List.mem_cons, List.not_mem_nil, or_false] at ht
    rcases ht with rfl | rfl | rfl
    · exact P1.ok
    · exact P2.ok
    · exact P3.ok
  · rw [covPB_leafBlock (show BK.linkRefDef ≠ BK.listMarker by decide), covTs_cons, covTs_cons, covTs_cons, covTs_nil, Bool.or_false, Bool.or_eq_true, Bool.or_eq_true]
    have nn : ∀ {p q : Nat}, NN src is p q → p ≤ j → j < q → False := by
      intro p q h a b
      have := h j a b j3
      rw [this] at j4; cases j4
    by_cases c1 : j < a1
    · exact (nn n0 j1 c1).elim
    · by_cases c2 : j < b1
      · exact Or.inl (P1.cov j (by omega) c2 j3 j4)
      · by_cases c3 : j < a2
        · exact (nn n1 (by omega) c3).elim
        · by_cases c4 : j < b2
          · exact Or.inr (Or.inl (P2.cov j (by omega) c4 j3 j4))
          · by_cases c5 : j < a3
            · exact (nn n2 (by omega) c5).elim
            · by_cases c6 : j < b3
              · exact Or.inr (Or.inr (P3.cov j (by omega) c6 j3 j4))
              · exact (nn n3 (by omega) j2).elim

/-! ### the remaining inline children -/

/-- The inline children before the one that begins at a node boundary end at or before it. -/
theorem take_past (hc : Ctx src is) {pos fc : Nat} (hb : Bdry is pos) (hfc : nodeIndexForPosition is pos 0 = some fc) :
    ∀ t ∈ is.take fc, t.label.stop ≤ (pos : Int) := by
  obtain ⟨_, u, h2, h3, _⟩ := nodeIndex_spec hfc
  simp only [Nat.sub_zero] at h2
  have hlt : fc < is.length := (List.getElem?_eq_some_iff.mp h2).1
  have hu : is[fc] = u := (List.getElem?_eq_some_iff.mp h2).2
  have hd : is.drop fc = u :: is.drop (fc + 1) := by rw [List.drop_eq_getElem_cons hlt, hu]
  have hum : u ∈ is := List.mem_of_getElem? h2
  simp only [spanContains, Bool.and_eq_true, decide_eq_true_eq] at h3
  have hst := hb u hum h3.1.2 h3.2
  intro t ht
  have hso := hc.sorted
  rw [← List.take_append_drop fc is, hd] at hso
  have := (List.pairwise_append.mp hso).2.2 t ht u List.mem_cons_self
  omega

theorem none_past (hc : Ctx2 src is) {N p : Nat} {r : Rd} (h : Good2 src is N p r)
    (hnone : nodeIndexForPosition is r.pos 0 = none) : ∀ t ∈ is, t.label.stop ≤ (r.pos : Int) := by
  cases hs : r.spans with
  | nil => exact h.2 hs
  | cons t rest =>
    obtain ⟨k, hk⟩ := h.ri.suf
    have hn := h.ri.norm t rest hs
    have := nodeIndex_of_drop hc.base k (by rw [← hk, hs]) hn.1 hn.2
    rw [this] at hnone; cases hnone

/-- What the loop returns: well-formed blocks that cover what the inline children and the blocks split off so far
    covered. -/
def LoopOut (src : Bytes) (is : List Tree) (result : List PB) (Q : ParaPred) (out : List PB) : Prop :=
  (∀ c ∈ out, WF Q c) ∧
  ∀ j, need (src.getD j 0) = true → (covTs is j = true ∨ covPBs result j = true) → covPBs out j = true

theorem giveUp_out {Q : ParaPred} {result : List PB} {l : PLabel}
    (hk : l.kind = BK.paragraph ∨ l.kind = BK.setextHeading) (hc : 0 ≤ l.stop) (hi : ∀ t ∈ is, inlOK t = true)
    (hres : ∀ c ∈ result, WF Q c) : LoopOut src is result Q (result ++ [.mk l [] is]) := by
  refine ⟨fun c hc' => ?_, fun j _ h => ?_⟩
  · rcases List.mem_append.mp hc' with h | h
    · exact hres c h
    · simp only [List.mem_singleton] at h; subst h
      exact leafBlock_WF (by rcases hk with h | h <;> simp [h]) hc hi
  · rw [covPBs_append, covPBs_cons, covPBs_nil, Bool.or_false, Bool.or_eq_true]
    rcases h with h | h
    · right
      rw [covPB_leafBlock (by rcases hk with h' | h' <;> rw [h'] <;> decide)]; exact h
    · exact Or.inl h

/-- Stopping after a block that covers everything up to `pe`, past which there are no inline children. -/
theorem stop_out {Q : ParaPred} {result : List PB} {b1 : PB} {p0 pe : Nat} {orphan : Option PB} (hc : Ctx2 src is)
    (ho : ∀ o, orphan = some o → WF Q o) (hres : ∀ c ∈ result, WF Q c) (hw : WF Q b1)
    (hlo : ∀ t ∈ is, (p0 : Int) ≤ t.label.start) (hpast : ∀ t ∈ is, t.label.stop ≤ (pe : Int))
    (hcov : ∀ j, p0 ≤ j → j < pe → covTs is j = true → need (src.getD j 0) = true → covPB b1 j = true) :
    LoopOut src is result Q (orphan.elim (result ++ [b1]) (fun o => (result ++ [b1]) ++ [o])) := by
  have base : LoopOut src is result Q (result ++ [b1]) := by
    refine ⟨fun c hc' => ?_, fun j hn h => ?_⟩
    · rcases List.mem_append.mp hc' with h | h
      · exact hres c h
      · simp only [List.mem_singleton] at h; subst h; exact hw
    · rw [covPBs_append, covPBs_cons, covPBs_nil, Bool.or_false, Bool.or_eq_true]
      rcases h with h | h
      · right
        obtain ⟨t, ht, t1, t2⟩ := (covTs_leaves hc.leaf j).mp h
        have := hlo t ht; have := hpast t ht
        exact hcov j (by omega) (by omega) h hn
      · exact Or.inl h
  cases orphan with
  | none => exact base
  | some o =>
    refine ⟨fun c hc' => ?_, fun j hn h => ?_⟩
    · rcases List.mem_append.mp hc' with h | h
      · exact base.1 c h
      · simp only [List.mem_singleton] at h; subst h; exact ho _ rfl
    · show covPBs ((result ++ [b1]) ++ [o]) j = true
      rw [covPBs_append, Bool.or_eq_true]
      exact Or.inl (base.2 j hn h)

/-- Continuing after a block that covers everything up to `pe`: the inline children before index `fc` end at or before
    `pe`. -/
theorem cont_out {Q : ParaPred} {result : List PB} {b1 : PB} {p0 pe fc : Nat} {out : List PB} (hc : Ctx2 src is)
    (hlo : ∀ t ∈ is, (p0 : Int) ≤ t.label.start) (hpast : ∀ t ∈ is.take fc, t.label.stop ≤ (pe : Int))
    (hcov : ∀ j, p0 ≤ j → j < pe → covTs is j = true → need (src.getD j 0) = true → covPB b1 j = true)
    (h : LoopOut src (is.drop fc) (result ++ [b1]) Q out) : LoopOut src is result Q out := by
  refine ⟨h.1, fun j hn hj => ?_⟩
  apply h.2 j hn
  rcases hj with hj | hj
  · obtain ⟨t, ht, t1, t2⟩ := (covTs_leaves hc.leaf j).mp hj
    rw [← List.take_append_drop fc is] at ht
    rcases List.mem_append.mp ht with ht' | ht'
    · right
      rw [covPBs_append, covPBs_cons, covPBs_nil, Bool.or_false, Bool.or_eq_true]
      right
      have := hlo t (List.mem_of_mem_take ht'); have := hpast t ht'
      exact hcov j (by omega) (by omega) hj hn
    · left
      exact (covTs_leaves (fun u hu => hc.leaf u (List.mem_of_mem_drop hu)) j).mpr ⟨t, ht', t1, t2⟩
  · right
    rw [covPBs_append, Bool.or_eq_true]; exact Or.inl hj

end CM.Proofs.RDC
